"""Translator (DESIGN section 5): executes the REAL function bodies of
$ADAPTIVE_REPO/adaptive/learner/{triangulation,learnerND,learner1D,learner2D}.py
on symbolic operands and prints the resulting expression DAGs as Gallina
definitions over R into coq/gen/Prims.v; exports the quadrature constants of
integrator_coeffs.py as exact rationals / dyadics into coq/gen/Consts.v.

Fail closed: any unsupported operation on a symbolic operand, a changed
signature, a missing function, or a runaway path exploration raises
TraceError; the check reports it as a broken tie.

What is trusted here (DESIGN section 8): operator dispatch of `Sym`, numpy's
object-array broadcasting, and the namespace stand-ins listed in `patched()`.
The stand-ins are active only inside `patched()` and are undone afterwards."""
from __future__ import annotations

import contextlib
import importlib
import inspect
import math
import numbers
import os
import types
from fractions import Fraction
from pathlib import Path

import numpy as _np

VERIF = Path(__file__).resolve().parents[2]
GEN = VERIF / "coq" / "gen"


class TraceError(Exception):
    pass


# --------------------------------------------------------------------------
# expression DAG (hash-consed)
# --------------------------------------------------------------------------
class Node:
    __slots__ = ("op", "args", "uid")

    def __repr__(self):
        return f"<{self.op} {self.uid}>"


_TABLE: dict = {}
_COUNTER = [0]


def mk(op, *args) -> Node:
    key = (op,) + tuple(a if not isinstance(a, Node) else ("#", a.uid) for a in args)
    n = _TABLE.get(key)
    if n is None:
        n = Node()
        n.op, n.args = op, args
        _COUNTER[0] += 1
        n.uid = _COUNTER[0]
        _TABLE[key] = n
    return n


def const(q) -> Node:
    return mk("const", Fraction(q))


def var(name: str) -> Node:
    return mk("var", name)


def _to_fraction(x):
    """Exact value of a concrete python/numpy number, or None."""
    if isinstance(x, (bool, _np.bool_)):
        return None
    if isinstance(x, Fraction):
        return x
    if isinstance(x, numbers.Integral):
        return Fraction(int(x))
    if isinstance(x, numbers.Real):
        f = float(x)
        if math.isnan(f) or math.isinf(f):
            raise TraceError(f"non-finite constant {f!r} in arithmetic")
        return Fraction(f)
    return None


def lift(x):
    """Node of a Sym or a concrete number; None when x is something else."""
    if isinstance(x, Sym):
        return x.n
    q = _to_fraction(x)
    if q is not None:
        return const(q)
    return None


def _isc(n, v=None):
    return n.op == "const" and (v is None or n.args[0] == v)


def n_add(a, b):
    if _isc(a) and _isc(b):
        return const(a.args[0] + b.args[0])
    if _isc(a, 0):
        return b
    if _isc(b, 0):
        return a
    return mk("add", a, b)


def n_sub(a, b):
    if _isc(a) and _isc(b):
        return const(a.args[0] - b.args[0])
    if _isc(b, 0):
        return a
    return mk("sub", a, b)


def n_mul(a, b):
    if _isc(a) and _isc(b):
        return const(a.args[0] * b.args[0])
    return mk("mul", a, b)


def n_div(a, b):
    if _isc(a) and _isc(b):
        if b.args[0] == 0:
            raise ZeroDivisionError("division of constants by zero")
        return const(a.args[0] / b.args[0])
    return mk("div", a, b)


def n_neg(a):
    if _isc(a):
        return const(-a.args[0])
    return mk("neg", a)


def n_abs(a):
    if _isc(a):
        return const(abs(a.args[0]))
    return mk("abs", a)


def n_sqrt(a):
    if _isc(a):
        q = a.args[0]
        if q < 0:
            raise ValueError("math domain error")
        rn, rd = math.isqrt(q.numerator), math.isqrt(q.denominator)
        if rn * rn == q.numerator and rd * rd == q.denominator:
            return const(Fraction(rn, rd))
    return mk("sqrt", a)


def n_pow(a, e):
    """a ** e for a concrete exponent e."""
    q = _to_fraction(e)
    if q is None:
        raise TraceError(f"symbolic or unsupported exponent {e!r}")
    if q.denominator == 1:
        k = int(q)
        if k >= 0:
            if _isc(a):
                return const(a.args[0] ** k)
            return mk("powz", a, k)
        return n_div(const(1), n_pow(a, -k))
    if q == Fraction(1, 2):
        return n_sqrt(a)
    return mk("rpow", a, q)


class Sym:
    """A symbolic real number."""
    __slots__ = ("n",)

    def __init__(self, n: Node):
        self.n = n

    # -- arithmetic ------------------------------------------------------
    def _bin(self, other, f, swap=False):
        o = lift(other)
        if o is None:
            return NotImplemented
        return Sym(f(o, self.n) if swap else f(self.n, o))

    def __add__(self, o): return self._bin(o, n_add)
    def __radd__(self, o): return self._bin(o, n_add, True)
    def __sub__(self, o): return self._bin(o, n_sub)
    def __rsub__(self, o): return self._bin(o, n_sub, True)
    def __mul__(self, o): return self._bin(o, n_mul)
    def __rmul__(self, o): return self._bin(o, n_mul, True)
    def __truediv__(self, o): return self._bin(o, n_div)
    def __rtruediv__(self, o): return self._bin(o, n_div, True)
    def __neg__(self): return Sym(n_neg(self.n))
    def __pos__(self): return self
    def __abs__(self): return Sym(n_abs(self.n))

    def __pow__(self, e, mod=None):
        if mod is not None or isinstance(e, Sym):
            raise TraceError("unsupported power")
        return Sym(n_pow(self.n, e))

    def __rpow__(self, b):
        raise TraceError("symbolic exponent")

    # numpy's object loops call these methods
    def sqrt(self): return Sym(n_sqrt(self.n))
    def log(self): return Sym(mk("ln", self.n))
    def conjugate(self): return self
    def max(self, *a, **k): return self
    def min(self, *a, **k): return self

    # -- comparisons -----------------------------------------------------
    def _cmp(self, other, op, swap=False):
        o = lift(other)
        if o is None:
            return NotImplemented
        a, b = (o, self.n) if swap else (self.n, o)
        return SymBool.make(op, a, b)

    def __lt__(self, o): return self._cmp(o, "lt")
    def __le__(self, o): return self._cmp(o, "le")
    def __gt__(self, o): return self._cmp(o, "lt", True)
    def __ge__(self, o): return self._cmp(o, "le", True)
    def __eq__(self, o): return self._cmp(o, "eq")
    def __ne__(self, o): return self._cmp(o, "ne")
    __hash__ = object.__hash__

    # -- everything that would silently leave the symbolic world ---------
    def __bool__(self): raise TraceError("truth value of a symbolic number")
    def __float__(self): raise TraceError("float() of a symbolic number")
    def __int__(self): raise TraceError("int() of a symbolic number")
    def __index__(self): raise TraceError("symbolic number used as an index")
    def __round__(self, *a): raise TraceError("round() of a symbolic number")
    def __floordiv__(self, o): raise TraceError("// on a symbolic number")
    def __rfloordiv__(self, o): raise TraceError("// on a symbolic number")
    def __mod__(self, o): raise TraceError("% on a symbolic number")
    def __rmod__(self, o): raise TraceError("% on a symbolic number")
    def __repr__(self): return f"Sym({self.n!r})"


class SymBool:
    """A symbolic comparison; its truth value is a recorded decision."""
    __slots__ = ("op", "a", "b")

    def __init__(self, op, a, b):
        self.op, self.a, self.b = op, a, b

    @staticmethod
    def make(op, a: Node, b: Node):
        if _isc(a) and _isc(b):
            x, y = a.args[0], b.args[0]
            return {"lt": x < y, "le": x <= y, "eq": x == y, "ne": x != y}[op]
        if a is b:
            return {"lt": False, "le": True, "eq": True, "ne": False}[op]
        return SymBool(op, a, b)

    def key(self):
        return (self.op, self.a.uid, self.b.uid)

    def __bool__(self):
        t = _ACTIVE[-1] if _ACTIVE else None
        if t is None:
            raise TraceError("symbolic comparison decided outside a trace")
        return t.decide(self)

    def _no(self, *a): raise TraceError("boolean algebra on symbolic comparisons is not supported")
    __and__ = __or__ = __xor__ = __invert__ = __rand__ = __ror__ = _no
    __hash__ = object.__hash__

    def __repr__(self): return f"SymBool{self.key()}"


_ACTIVE: list = []
INF = ("INF",)


class Raised:
    def __init__(self, name):
        self.name = name


class Tracer:
    """Explores every path of thunk() by re-execution."""
    MAX_PATHS = 600

    def __init__(self, raises=()):
        self.raises = tuple(raises)

    def decide(self, sb: SymBool) -> bool:
        k = sb.key()
        if k in self.known:
            return self.known[k]
        if self.pos < len(self.prefix):
            d = self.prefix[self.pos]
        else:
            d = True
        self.pos += 1
        self.taken.append((sb, d))
        self._learn(sb, d)
        return d

    def _learn(self, sb, d):
        op, a, b = sb.op, sb.a.uid, sb.b.uid
        K = self.known
        K[(op, a, b)] = d
        if op == "lt":
            K[("le", b, a)] = not d          # a<b  <->  not b<=a
            if d:
                K[("le", a, b)] = True
                K[("lt", b, a)] = False
                for o, v in (("eq", False), ("ne", True)):
                    K[(o, a, b)] = v
                    K[(o, b, a)] = v
        elif op == "le":
            K[("lt", b, a)] = not d
            if not d:
                K[("lt", a, b)] = False
                K[("le", b, a)] = True
                for o, v in (("eq", False), ("ne", True)):
                    K[(o, a, b)] = v
                    K[(o, b, a)] = v
        elif op in ("eq", "ne"):
            eq = d if op == "eq" else not d
            for x, y in ((a, b), (b, a)):
                K[("eq", x, y)] = eq
                K[("ne", x, y)] = not eq
                if eq:
                    K[("le", x, y)] = True
                    K[("lt", x, y)] = False

    def explore(self, thunk):
        paths = []
        prefix: list = []
        while True:
            self.prefix, self.pos, self.taken, self.known = prefix, 0, [], {}
            _ACTIVE.append(self)
            try:
                try:
                    leaf = normalise(thunk())
                except TraceError:
                    raise
                except self.raises as e:
                    leaf = ("RAISE", type(e).__name__)
            finally:
                _ACTIVE.pop()
            paths.append((list(self.taken), leaf))
            if len(paths) > self.MAX_PATHS:
                raise TraceError("path exploration does not terminate")
            taken = list(self.taken)
            while taken and taken[-1][1] is False:
                taken.pop()
            if not taken:
                break
            prefix = [d for _, d in taken[:-1]] + [False]
        return build_tree(paths), len(paths)


def normalise(v):
    """Return value of a traced function -> ('R',node) | ('B',bexpr) | ('T',[..]) | INF."""
    if isinstance(v, Sym):
        return ("R", v.n)
    if isinstance(v, SymBool):
        t = _ACTIVE[-1] if _ACTIVE else None
        if t is not None and v.key() in t.known:
            return ("B", ("const", t.known[v.key()]))
        return ("B", ("cmp", v.op, v.a, v.b))
    if isinstance(v, (bool, _np.bool_)):
        return ("B", ("const", bool(v)))
    if isinstance(v, numbers.Real) and not isinstance(v, Fraction):
        f = float(v)
        if math.isinf(f) and f > 0:
            return INF
        if math.isnan(f) or math.isinf(f):
            raise TraceError(f"non-finite return value {f!r}")
    q = _to_fraction(v)
    if q is not None:
        return ("R", const(q))
    if isinstance(v, _np.ndarray):
        if v.ndim == 0:
            return normalise(v.item())
        return ("T", [normalise(x) for x in v])
    if isinstance(v, (tuple, list)):
        return ("T", [normalise(x) for x in v])
    raise TraceError(f"unsupported return value of type {type(v).__name__}")


def build_tree(paths):
    """paths: [([(SymBool, decision)...], leaf)] in DFS order -> nested tree."""
    def rec(items, depth):
        if len(items) == 1 and len(items[0][0]) == depth:
            return ("leaf", items[0][1])
        cond = items[0][0][depth][0]
        t = [it for it in items if it[0][depth][1]]
        f = [it for it in items if not it[0][depth][1]]
        for it in items:
            if it[0][depth][0].key() != cond.key():
                raise TraceError("inconsistent path tree")
        if not t or not f:
            raise TraceError("one-sided decision in path tree")
        return ("if", ("cmp", cond.op, cond.a, cond.b), rec(t, depth + 1), rec(f, depth + 1))
    return rec(paths, 0)


# --------------------------------------------------------------------------
# symbolic stand-ins for the foreign names the kernels use
# --------------------------------------------------------------------------
def _has_sym(x) -> bool:
    """Symbolic operands -- or exact Fraction operands (the search runs the
    same real function bodies under the same stand-ins on Fractions)."""
    if isinstance(x, (Sym, SymBool, Fraction)):
        return True
    if isinstance(x, _np.ndarray):
        return x.dtype == object and any(_has_sym(e) for e in x.flat)
    if isinstance(x, (list, tuple)):
        return any(_has_sym(e) for e in x)
    return False


def s_array(x, dtype=None, **kw):
    """numpy.array / asarray: an object array when the data is symbolic
    (a requested dtype=float is the identity on real numbers)."""
    if dtype is s_float:
        dtype = float
    if _has_sym(x):
        if dtype not in (None, float, _np.float64, object):
            raise TraceError(f"array(dtype={dtype}) of symbolic data")
        a = _np.array(x, dtype=object)
        return a
    if dtype is None:
        return _np.array(x, **kw)
    return _np.array(x, dtype=dtype, **kw)


def s_float(x=0.0):
    """builtin float(): the identity on a symbolic real (only injected into
    triangulation.py, where Triangulation.volume wraps its result in float())."""
    if isinstance(x, (Sym, Fraction)):
        return x
    if isinstance(x, _np.ndarray) and x.dtype == object and x.size == 1 and isinstance(x.item(), (Sym, Fraction)):
        return x.item()
    return float(x)


def _fsqrt(q: Fraction):
    """sqrt of an exact rational: exact when it is a perfect square, else the
    correctly rounded double of the rational's double (exact-mode runs only)."""
    if q < 0:
        raise ValueError("math domain error")
    rn, rd = math.isqrt(q.numerator), math.isqrt(q.denominator)
    if rn * rn == q.numerator and rd * rd == q.denominator:
        return Fraction(rn, rd)
    return math.sqrt(q)


def s_sqrt(x):
    if isinstance(x, Sym):
        return x.sqrt()
    if isinstance(x, Fraction):
        return _fsqrt(x)
    if isinstance(x, _np.ndarray) and x.dtype == object:
        return _np.frompyfunc(s_sqrt, 1, 1)(x)
    return math.sqrt(x)


def s_np_sqrt(x):
    if isinstance(x, (Sym, Fraction)):
        return s_sqrt(x)
    if isinstance(x, _np.ndarray) and x.dtype == object:
        return _np.frompyfunc(s_sqrt, 1, 1)(x)
    return _np.sqrt(x)


def s_hypot(a, b):
    """numpy.hypot, mathematical reading sqrt(a*a+b*b) (DESIGN 4.2)."""
    if not (_has_sym(a) or _has_sym(b)):
        return _np.hypot(a, b)
    def h(x, y):
        r = x * x + y * y
        if isinstance(r, Sym):
            return r.sqrt()
        if isinstance(r, Fraction):
            return _fsqrt(r)
        raise TraceError("hypot of a non-number")
    if isinstance(a, _np.ndarray) or isinstance(b, _np.ndarray):
        return _np.frompyfunc(h, 2, 1)(a, b)
    return h(a, b)


def s_det(m):
    """numpy.linalg.det on a symbolic matrix: Laplace expansion along the first row."""
    m = _np.asarray(m) if not isinstance(m, _np.ndarray) else m
    if m.dtype != object:
        return _np.linalg.det(m)
    if m.ndim != 2 or m.shape[0] != m.shape[1]:
        raise TraceError(f"det of non-square symbolic matrix {m.shape}")
    return _laplace([[m[i, j] for j in range(m.shape[1])] for i in range(m.shape[0])])


def _laplace(rows):
    n = len(rows)
    if n == 0:
        return 1
    if n == 1:
        return rows[0][0]
    if n == 2:
        return rows[0][0] * rows[1][1] - rows[0][1] * rows[1][0]
    tot = None
    for j in range(n):
        minor = [[r[c] for c in range(n) if c != j] for r in rows[1:]]
        term = rows[0][j] * _laplace(minor)
        if tot is None:
            tot = term
        elif j % 2 == 0:
            tot = tot + term
        else:
            tot = tot - term
    return tot


def s_solve(a, b):
    """numpy.linalg.solve on symbolic data: Cramer's rule."""
    a = _np.asarray(a) if not isinstance(a, _np.ndarray) else a
    b = _np.asarray(b) if not isinstance(b, _np.ndarray) else b
    if a.dtype != object and b.dtype != object:
        return _np.linalg.solve(a, b)
    n = a.shape[0]
    if a.shape != (n, n) or b.shape != (n,):
        raise TraceError(f"solve with shapes {a.shape}, {b.shape}")
    rows = [[a[i, j] for j in range(n)] for i in range(n)]
    d = _laplace(rows)
    out = _np.empty(n, dtype=object)
    for k in range(n):
        rk = [[(b[i] if j == k else rows[i][j]) for j in range(n)] for i in range(n)]
        out[k] = _laplace(rk) / d
    return out


def s_slogdet(m):
    m = _np.asarray(m) if not isinstance(m, _np.ndarray) else m
    if m.dtype != object:
        return _np.linalg.slogdet(m)
    d = s_det(m)
    if not isinstance(d, Sym):          # exact mode
        d = Fraction(d)
        return (d > 0) - (d < 0), (math.log(abs(d)) if d else -math.inf)
    dn = lift(d)
    return Sym(mk("sgn", dn)), Sym(mk("ln", n_abs(dn)))


def s_zeros(shape, dtype=None, **kw):
    """numpy.zeros: while tracing, an object array of exact zeros so that
    symbolic entries can be stored into it."""
    if dtype is None and (_ACTIVE or _EXACT[0]):
        a = _np.empty(shape, dtype=object)
        a.fill(0)
        return a
    return _np.zeros(shape, **kw) if dtype is None else _np.zeros(shape, dtype, **kw)


def s_subtract(a, b, dtype=None, **kw):
    if _has_sym(a) or _has_sym(b):
        if dtype not in (None, float, _np.float64):
            raise TraceError("subtract with unsupported dtype")
        return _np.subtract(s_array(a) if _has_sym(a) else a, s_array(b) if _has_sym(b) else b)
    return _np.subtract(a, b, **kw) if dtype is None else _np.subtract(a, b, dtype=dtype, **kw)


def s_pdist(x, metric="euclidean", **kw):
    x = s_array(x)
    if x.dtype != object:
        import scipy.spatial.distance as D
        return D.pdist(x, metric=metric, **kw)
    if kw or x.ndim != 2:
        raise TraceError("pdist: unsupported arguments")
    m = x.shape[0]
    out = []
    for i in range(m):
        for j in range(i + 1, m):
            d = x[i] - x[j]
            s = None
            for c in d:
                s = c * c if s is None else s + c * c
            if metric == "sqeuclidean":
                out.append(s)
            elif metric == "euclidean":
                out.append(s_sqrt(s) if isinstance(s, Sym) else math.sqrt(s))
            else:
                raise TraceError(f"pdist metric {metric!r}")
    a = _np.empty(len(out), dtype=object)
    a[:] = out
    return a


def s_num_obs_y(y):
    k = len(y)
    if k == 0:
        raise ValueError("empty condensed distance matrix")
    d = int(math.ceil(math.sqrt(k * 2)))
    if d * (d - 1) // 2 != k:
        raise ValueError("Invalid condensed distance matrix passed")
    return d


def s_squareform(v, **kw):
    v = _np.asarray(v) if not isinstance(v, _np.ndarray) else v
    if v.dtype != object:
        import scipy.spatial.distance as D
        return D.squareform(v, **kw)
    if v.ndim != 1 or kw:
        raise TraceError("squareform: unsupported arguments")
    d = s_num_obs_y(v)
    m = _np.empty((d, d), dtype=object)
    m.fill(0)
    k = 0
    for i in range(d):
        for j in range(i + 1, d):
            m[i, j] = v[k]
            m[j, i] = v[k]
            k += 1
    return m


class _Proxy:
    """Attribute proxy: listed names are stand-ins, the rest is the real module."""

    def __init__(self, real, over):
        object.__setattr__(self, "_real", real)
        object.__setattr__(self, "_over", over)

    def __getattr__(self, name):
        o = object.__getattribute__(self, "_over")
        if name in o:
            return o[name]
        return getattr(object.__getattribute__(self, "_real"), name)


def _np_proxy():
    linalg = _Proxy(_np.linalg, {"det": s_det, "solve": s_solve, "slogdet": s_slogdet})
    return _Proxy(_np, {"array": s_array, "asarray": s_array, "subtract": s_subtract,
                        "hypot": s_hypot, "sqrt": s_np_sqrt, "zeros": s_zeros, "linalg": linalg})


def _scipy_proxy():
    import scipy
    import scipy.spatial
    import scipy.spatial.distance as D
    dist = _Proxy(D, {"pdist": s_pdist, "num_obs_y": s_num_obs_y, "squareform": s_squareform})
    spatial = _Proxy(scipy.spatial, {"distance": dist})
    return _Proxy(scipy, {"spatial": spatial})


def load_modules():
    mods = {}
    for m in ("triangulation", "learnerND", "learner1D", "learner2D"):
        mods[m] = importlib.import_module("adaptive.learner." + m)
    repo = os.environ.get("ADAPTIVE_REPO", "/repo")
    for m in mods.values():
        if not os.path.realpath(m.__file__).startswith(os.path.realpath(repo) + os.sep):
            raise TraceError(f"{m.__name__} was imported from {m.__file__}, not from {repo}")
    return mods


BUILTIN_SHADOWS = {"float"}   # injected as module globals that shadow a builtin
SUBST = {
    # module -> {global name: stand-in}.  A name that the module no longer
    # has is not created (the kernel would not use it).
    "triangulation": {"sqrt": s_sqrt, "array": s_array, "asarray": s_array, "ndet": s_det,
                      "solve": s_solve, "slogdet": s_slogdet, "zeros": s_zeros,
                      "scipy": _scipy_proxy, "float": s_float},
    "learnerND": {"np": _np_proxy, "scipy": _scipy_proxy},
    "learner1D": {"np": _np_proxy},
    "learner2D": {"np": _np_proxy, "sqrt": s_sqrt},
}


_MISSING = object()
_EXACT = [False]


@contextlib.contextmanager
def exact_mode(mods):
    """Run real function bodies on Fraction operands under the stand-ins."""
    with patched(mods):
        _EXACT[0] = True
        try:
            yield
        finally:
            _EXACT[0] = False


@contextlib.contextmanager
def patched(mods):
    saved = []
    try:
        for mname, table in SUBST.items():
            d = mods[mname].__dict__
            for name, standin in table.items():
                if name in d:
                    saved.append((d, name, d[name]))
                    d[name] = standin() if standin in (_np_proxy, _scipy_proxy) else standin
                elif name in BUILTIN_SHADOWS:
                    saved.append((d, name, _MISSING))
                    d[name] = standin
        yield
    finally:
        for d, name, old in reversed(saved):
            if old is _MISSING:
                d.pop(name, None)
            else:
                d[name] = old


# --------------------------------------------------------------------------
# Gallina printer
# --------------------------------------------------------------------------
def _qlit(q: Fraction) -> str:
    def z(n):
        return f"({n})" if n < 0 else str(n)
    if q.denominator == 1:
        return z(q.numerator)
    return f"({z(q.numerator)} / {q.denominator})"


BINOPS = {"add": "+", "sub": "-", "mul": "*", "div": "/"}
CMP = {"lt": "Rltb", "le": "Rleb", "eq": "Reqb"}


class Printer:
    def __init__(self):
        self.names: dict[int, str] = {}

    def expr(self, n: Node) -> str:
        if n.uid in self.names:
            return self.names[n.uid]
        return self.raw(n)

    def raw(self, n: Node) -> str:
        op, a = n.op, n.args
        if op == "var":
            return a[0]
        if op == "const":
            return _qlit(a[0])
        if op in BINOPS:
            return f"({self.expr(a[0])} {BINOPS[op]} {self.expr(a[1])})"
        if op == "neg":
            return f"(- {self.expr(a[0])})"
        if op == "abs":
            return f"(Rabs {self.expr(a[0])})"
        if op == "sqrt":
            return f"(sqrt {self.expr(a[0])})"
        if op == "ln":
            return f"(ln {self.expr(a[0])})"
        if op == "sgn":
            return f"(sgnR {self.expr(a[0])})"
        if op == "powz":
            return f"({self.expr(a[0])} ^ {a[1]})"
        if op == "rpow":
            return f"(Rpower {self.expr(a[0])} {_qlit(a[1])})"
        raise TraceError(f"printer: unknown node {op}")

    def bexpr(self, b) -> str:
        if b[0] == "const":
            return "true" if b[1] else "false"
        _, op, x, y = b
        if op == "ne":
            return f"(negb (Reqb {self.expr(x)} {self.expr(y)}))"
        return f"({CMP[op]} {self.expr(x)} {self.expr(y)})"


def _children(n: Node):
    return [a for a in n.args if isinstance(a, Node)]


def tree_nodes(tree):
    """Root nodes referenced by a tree (conditions and leaves), in order."""
    out = []

    def leaf(v):
        if v[0] == "R":
            out.append(v[1])
        elif v[0] == "B":
            if v[1][0] == "cmp":
                out.extend([v[1][2], v[1][3]])
        elif v[0] == "T":
            for x in v[1]:
                leaf(x)

    def rec(t):
        if t[0] == "leaf":
            leaf(t[1])
        else:
            out.extend([t[1][2], t[1][3]])
            rec(t[2])
            rec(t[3])
    rec(tree)
    return out


def shape_of(v):
    if v is INF or v[0] == "RAISE":
        return "X"
    if v[0] in ("R", "B"):
        return v[0]
    return ("T", tuple(shape_of(x) for x in v[1]))


def leaves(tree):
    if tree[0] == "leaf":
        return [tree[1]]
    return leaves(tree[2]) + leaves(tree[3])


def coq_type(shape) -> str:
    if shape == "R":
        return "R"
    if shape == "B":
        return "bool"
    if shape == "RES":
        return "res"
    items = shape[1]
    if len(items) == 1:
        return coq_type(items[0])
    return "(" + " * ".join(coq_type(s) for s in items) + ")"


def emit_definition(name: str, argnames: list[str], tree, comment: str) -> str:
    lv = leaves(tree)
    shapes = {repr(shape_of(v)) for v in lv}
    exceptional = any(v is INF or v[0] == "RAISE" for v in lv)
    if exceptional:
        if not all(shape_of(v) in ("X", "R") for v in lv):
            raise TraceError(f"{name}: exceptional leaves next to non-scalar results")
        shape = "RES"
    else:
        if len(shapes) != 1:
            raise TraceError(f"{name}: paths return different shapes {sorted(shapes)}")
        shape = shape_of(lv[0])
    # reference counts over the DAG
    roots = tree_nodes(tree)
    refs: dict[int, int] = {}
    order: list[Node] = []
    seen = set()

    def visit(n):
        refs[n.uid] = refs.get(n.uid, 0) + 1
        if n.uid in seen:
            return
        seen.add(n.uid)
        for c in _children(n):
            visit(c)
        order.append(n)          # post-order = topological
    for r in roots:
        visit(r)
    P = Printer()
    lets = []
    k = 0
    for n in order:
        if n.op in ("var", "const"):
            continue
        if refs[n.uid] > 1:
            k += 1
            rhs = P.raw(n)
            P.names[n.uid] = f"t{k}"
            lets.append(f"  let t{k} := {rhs} in")

    def leaf(v):
        if v is INF:
            return "PInf"
        if v[0] == "RAISE":
            return "Err"
        if v[0] == "R":
            return P.expr(v[1])
        if v[0] == "B":
            return P.bexpr(v[1])
        items = [leaf(x) for x in v[1]]
        return items[0] if len(items) == 1 else "(" + ", ".join(items) + ")"

    def rec(t, ind):
        pad = " " * ind
        if t[0] == "leaf":
            s = leaf(t[1])
            if shape == "RES" and t[1] is not INF and t[1][0] != "RAISE":
                s = f"Val {s}"
            return pad + s
        return (f"{pad}if {P.bexpr(t[1])}\n{pad}then\n{rec(t[2], ind + 2)}\n"
                f"{pad}else\n{rec(t[3], ind + 2)}")

    head = f"Definition {name} ({' '.join(argnames)} : R) : {coq_type(shape)} :=" if argnames else \
        f"Definition {name} : {coq_type(shape)} :="
    return f"(* {comment} *)\n{head}\n" + "\n".join(lets) + ("\n" if lets else "") + rec(tree, 2) + ".\n"


# --------------------------------------------------------------------------
# evaluation of a traced tree on concrete numbers (translator self-check)
# --------------------------------------------------------------------------
def evaluate(tree, env: dict, num=float):
    """Evaluate with python numbers: num=float (IEEE) or Fraction (exact, sqrt
    must hit perfect squares else ValueError)."""
    cache: dict[int, object] = {}

    def ev(n: Node):
        if n.uid in cache:
            return cache[n.uid]
        op, a = n.op, n.args
        if op == "var":
            r = env[a[0]]
        elif op == "const":
            r = num(a[0]) if num is float else a[0]
        elif op == "add":
            r = ev(a[0]) + ev(a[1])
        elif op == "sub":
            r = ev(a[0]) - ev(a[1])
        elif op == "mul":
            r = ev(a[0]) * ev(a[1])
        elif op == "div":
            r = ev(a[0]) / ev(a[1])
        elif op == "neg":
            r = -ev(a[0])
        elif op == "abs":
            r = abs(ev(a[0]))
        elif op == "sqrt":
            x = ev(a[0])
            if num is float:
                r = math.sqrt(x)
            else:
                rn, rd = math.isqrt(x.numerator), math.isqrt(x.denominator)
                if x < 0 or rn * rn != x.numerator or rd * rd != x.denominator:
                    raise ValueError("irrational sqrt")
                r = Fraction(rn, rd)
        elif op == "ln":
            r = math.log(ev(a[0]))
        elif op == "sgn":
            x = ev(a[0])
            r = (x > 0) - (x < 0)
        elif op == "powz":
            r = ev(a[0]) ** a[1]
        elif op == "rpow":
            r = float(ev(a[0])) ** float(a[1])
        else:
            raise TraceError(op)
        cache[n.uid] = r
        return r

    def bev(b):
        if b[0] == "const":
            return b[1]
        _, op, x, y = b
        x, y = ev(x), ev(y)
        return {"lt": x < y, "le": x <= y, "eq": x == y, "ne": x != y}[op]

    def leaf(v):
        if v is INF:
            return math.inf
        if v[0] == "RAISE":
            return Raised(v[1])
        if v[0] == "R":
            return ev(v[1])
        if v[0] == "B":
            return bev(v[1])
        return [leaf(x) for x in v[1]]

    t = tree
    while t[0] == "if":
        t = t[2] if bev(t[1]) else t[3]
    return leaf(t[1])


# --------------------------------------------------------------------------
# the kernels
# --------------------------------------------------------------------------
class Kernel:
    """One traced entry point.
    build(mods, S) -> (callable thunk, [argnames]); S(name) makes a symbol."""

    def __init__(self, name, module, path, params, build, raises=(), comment=""):
        self.name, self.module, self.path, self.params = name, module, path, params
        self.build, self.raises, self.comment = build, raises, comment
        self.tree = None
        self.argnames: list[str] = []
        self.npaths = 0

    def resolve(self, mods):
        obj = mods[self.module]
        for part in self.path.split("."):
            if not hasattr(obj, part):
                raise TraceError(f"{self.module}.{self.path}: missing")
            obj = getattr(obj, part)
        return obj

    def trace(self, mods):
        fn = self.resolve(mods)
        target = inspect.unwrap(fn)
        got = list(inspect.signature(target).parameters)
        if self.params is not None and got != list(self.params):
            raise TraceError(f"{self.module}.{self.path}: parameters {got} != expected {list(self.params)}")
        names: list[str] = []

        def S(nm):
            if nm in names:
                raise TraceError(f"duplicate argument {nm}")
            names.append(nm)
            return Sym(var(nm))
        thunk = self.build(fn, S, mods)
        with patched(mods):
            try:
                self.tree, self.npaths = Tracer(self.raises).explore(thunk)
            except TraceError as e:
                raise TraceError(f"{self.name} ({self.module}.{self.path}): {e}") from None
            except Exception as e:  # noqa: BLE001 - anything unexpected breaks the tie
                raise TraceError(f"{self.name} ({self.module}.{self.path}): {type(e).__name__}: {e}") from None
        self.argnames = names
        return self

    def gallina(self) -> str:
        c = f"{self.module}.{self.path}{(' -- ' + self.comment) if self.comment else ''}; {self.npaths} path(s)"
        return emit_definition(self.name, self.argnames, self.tree, c)


def pts(S, prefix, n, d):
    """n points of dimension d as nested lists of symbols prefix<i>_<j>."""
    return [[S(f"{prefix}{i}_{j}") for j in range(d)] for i in range(n)]


def K_simple(name, module, path, params, mk_args, raises=(), comment="", post=None, kwargs=None):
    def build(fn, S, mods):
        args = mk_args(S)
        kw = (kwargs(S) if kwargs else {})
        if post:
            return lambda: post(fn(*args, **kw))
        return lambda: fn(*args, **kw)
    return Kernel(name, module, path, params, build, raises, comment)


def kernels() -> list[Kernel]:
    ks: list[Kernel] = []
    T, ND, L1, L2 = "triangulation", "learnerND", "learner1D", "learner2D"
    # ---- triangulation ---------------------------------------------------
    for d in (2, 3, 4):
        ks.append(K_simple(f"fast_norm{d}", T, "fast_norm", ["v"],
                           lambda S, d=d: ([S(f"v{i}") for i in range(d)],)))
    for d in (2, 3):
        ks.append(K_simple(f"fast_det{d}", T, "fast_det", ["matrix"],
                           lambda S, d=d: (pts(S, "m", d, d),)))
    ks.append(K_simple("fast_2d_point_in_simplex", T, "fast_2d_point_in_simplex", ["point", "simplex", "eps"],
                       lambda S: ((S("px"), S("py")), [tuple(p) for p in pts(S, "p", 3, 2)], S("eps"))))
    for d in (2, 3):
        ks.append(K_simple(f"point_in_simplex{d}", T, "point_in_simplex", ["point", "simplex", "eps"],
                           lambda S, d=d: (s_array([S(f"q{j}") for j in range(d)]), pts(S, "p", d + 1, d), S("eps"))))
    ks.append(K_simple("fast_2d_circumcircle", T, "fast_2d_circumcircle", ["points"], lambda S: (pts(S, "p", 3, 2),)))
    ks.append(K_simple("fast_3d_circumcircle", T, "fast_3d_circumcircle", ["points"], lambda S: (pts(S, "p", 4, 3),)))
    for d in (1, 2, 3, 4):
        ks.append(K_simple(f"circumsphere{d}", T, "circumsphere", ["pts"], lambda S, d=d: (pts(S, "p", d + 1, d),)))
    for d in (2, 3):
        ks.append(K_simple(f"orientation{d}", T, "orientation", ["face", "origin"],
                           lambda S, d=d: (pts(S, "f", d, d), s_array([S(f"o{j}") for j in range(d)]))))
    ks.append(K_simple("sve_heron", T, "simplex_volume_in_embedding", ["vertices"],
                       lambda S: (pts(S, "p", 3, 2),), raises=(ValueError,), comment="3 vertices in the plane (Heron branch)"))
    for nv in (2, 3, 4):
        ks.append(K_simple(f"sve_cm{nv}", T, "simplex_volume_in_embedding", ["vertices"],
                           lambda S, nv=nv: (pts(S, "p", nv, 3),), raises=(ValueError,),
                           comment=f"{nv} vertices in R^3 (Cayley-Menger branch)"))
    ks.append(K_simple("sve_cm3_in4", T, "simplex_volume_in_embedding", ["vertices"],
                       lambda S: (pts(S, "p", 3, 4),), raises=(ValueError,), comment="3 vertices in R^4"))

    class FakeTri:
        def __init__(self, dim, P):
            self.dim, self.P = dim, P

        def get_vertices(self, idx):
            return [self.P[i] for i in idx]
    for d in (2, 3):
        def build(fn, S, mods, d=d):
            P = [tuple(p) for p in pts(S, "p", d + 1, d)]
            return lambda: fn(FakeTri(d, P), tuple(range(d + 1)))
        ks.append(Kernel(f"tri_volume{d}", T, "Triangulation.volume", ["self", "simplex"], build,
                         comment="float() of the result is the identity on reals"))
    # ---- learnerND -------------------------------------------------------
    for d in (1, 2, 3):
        ks.append(K_simple(f"nd_volume{d}", ND, "volume", ["simplex", "ys"], lambda S, d=d: (pts(S, "p", d + 1, d),)))
    ks.append(K_simple("nd_uniform_loss2", ND, "uniform_loss", ["simplex", "values", "value_scale"],
                       lambda S: (pts(S, "p", 3, 2), [S(f"y{i}") for i in range(3)], S("scale"))))
    ks.append(K_simple("nd_default_loss2", ND, "default_loss", ["simplex", "values", "value_scale"],
                       lambda S: ([tuple(p) for p in pts(S, "p", 3, 2)], [S(f"y{i}") for i in range(3)], S("scale")),
                       raises=(ValueError,), comment="2-d domain, scalar values"))
    ks.append(K_simple("nd_default_loss2v", ND, "default_loss", ["simplex", "values", "value_scale"],
                       lambda S: ([tuple(p) for p in pts(S, "p", 3, 2)], [[S(f"y{i}_{j}") for j in range(2)] for i in range(3)], S("scale")),
                       raises=(ValueError,), comment="2-d domain, 2-component values"))
    ks.append(K_simple("nd_choose_point2", ND, "choose_point_in_simplex", ["simplex", "transform"],
                       lambda S: (s_array(pts(S, "p", 3, 2)),)))
    # ---- learner1D -------------------------------------------------------
    ks.append(K_simple("l1_uniform_loss", L1, "uniform_loss", ["xs", "ys"],
                       lambda S: ((S("x0"), S("x1")), (S("y0"), S("y1")))))
    ks.append(K_simple("l1_default_loss", L1, "default_loss", ["xs", "ys"],
                       lambda S: ((S("x0"), S("x1")), (S("y0"), S("y1")))))
    ks.append(K_simple("l1_default_loss_v2", L1, "default_loss", ["xs", "ys"],
                       lambda S: ((S("x0"), S("x1")), ((S("y0_0"), S("y0_1")), (S("y1_0"), S("y1_1")))),
                       comment="2-component values"))
    ks.append(K_simple("l1_abs_min_log_loss", L1, "abs_min_log_loss", ["xs", "ys"],
                       lambda S: ((S("x0"), S("x1")), (S("y0"), S("y1")))))
    for tag, mask in (("full", (1, 1, 1, 1)), ("left", (0, 1, 1, 1)), ("right", (1, 1, 1, 0)), ("none", (0, 1, 1, 0))):
        ks.append(K_simple(f"l1_triangle_loss_{tag}", L1, "triangle_loss", ["xs", "ys"],
                           lambda S, mask=mask: ([S(f"x{i}") if m else None for i, m in enumerate(mask)],
                                                 [S(f"y{i}") if m else None for i, m in enumerate(mask)]),
                           comment=f"neighbours present: {mask}"))
    ks.append(K_simple("l1_triangle_loss_v2", L1, "triangle_loss", ["xs", "ys"],
                       lambda S: ([S(f"x{i}") for i in range(3)] + [None],
                                  [(S(f"y{i}_0"), S(f"y{i}_1")) for i in range(3)] + [None]),
                       raises=(ValueError,), comment="2-component values, right neighbour missing"))

    def build_res(fn, S, mods):
        f = fn(S("min_length"), S("max_length"))
        xs, ys = (S("x0"), S("x1")), (S("y0"), S("y1"))
        return lambda: f(xs, ys)
    ks.append(Kernel("l1_resolution_loss", L1, "resolution_loss_function", ["min_length", "max_length"], build_res))

    def build_curv(fn, S, mods):
        f = fn(S("area_factor"), S("euclid_factor"), S("horizontal_factor"))
        xs, ys = [S(f"x{i}") for i in range(4)], [S(f"y{i}") for i in range(4)]
        return lambda: f(xs, ys)
    ks.append(Kernel("l1_curvature_loss", L1, "curvature_loss_function",
                     ["area_factor", "euclid_factor", "horizontal_factor"], build_curv))
    for n in (1, 2, 3, 4, 5, 8):
        ks.append(K_simple(f"l1_linspace{n}", L1, "linspace", ["x_left", "x_right", "n"],
                           lambda S, n=n: (S("a"), S("b"), n),
                           post=(lambda r: tuple(r) if len(r) else 0), comment=f"n = {n}" + (" (empty list printed as 0)" if n == 1 else "")))
    # ---- learner2D -------------------------------------------------------

    def fake_ip(S):
        P = s_array(pts(S, "p", 3, 2))
        tri = types.SimpleNamespace(points=P, simplices=_np.array([[0, 1, 2]]))
        return types.SimpleNamespace(tri=tri)
    ks.append(K_simple("l2_areas", L2, "areas", ["ip"], lambda S: (fake_ip(S),), comment="one triangle"))
    ks.append(K_simple("l2_uniform_loss", L2, "uniform_loss", ["ip"], lambda S: (fake_ip(S),), comment="one triangle"))
    return ks


def trace_all():
    mods = load_modules()
    out = []
    for k in kernels():
        out.append(k.trace(mods))
    return out


HEADER = """(* GENERATED on every check by harness/avh/trace.py from the working tree of
   $ADAPTIVE_REPO (adaptive/learner/*.py) by executing the real function bodies
   on symbolic operands.  Do not edit. *)
From Coq Require Import Reals.
From AV Require Import Model.PrimsBase.
Local Open Scope R_scope.

"""


def write_if_changed(path: Path, text: str) -> bool:
    path.parent.mkdir(parents=True, exist_ok=True)
    if path.exists() and path.read_text() == text:
        return False
    tmp = path.with_suffix(".tmp")
    tmp.write_text(text)
    os.replace(tmp, path)
    return True


def prims_text(ks) -> str:
    return HEADER + "\n".join(k.gallina() for k in ks)


def regenerate():
    """Entry point for harness/avh/regen.py: rewrite coq/gen/Prims.v and
    coq/gen/Consts.v (write-if-changed); returns the paths."""
    from . import trace_consts
    ks = trace_all()
    write_if_changed(GEN / "Prims.v", prims_text(ks))
    trace_consts.regenerate()
    return [GEN / "Prims.v", GEN / "Consts.v"]


if __name__ == "__main__":
    import sys
    for p in regenerate():
        print(p)
    sys.exit(0)
