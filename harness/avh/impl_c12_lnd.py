"""C12, LearnerND part: twin-run oracle for scale equivariance.

The same *abstract* history is applied to ``LearnerND(f, bounds)`` and to
``LearnerND(g, sigma*bounds)`` with ``g(x) = tau * f(x / sigma)``,
``sigma = 2**k`` (common to all axes), ``tau = 2**m``.  The original learner's
points ``p`` are told to the original with ``f(p)``; the twin is told *its own*
returned points with ``tau * f(p)``.  Losses: default, uniform, triangle, curvature
(the last two are neighbour-aware, nth_neighbors = 1).  After every op the oracle demands, bit for
bit: twin points == sigma * original points, equal loss improvements, equal
``loss()``, equal ``npoints`` and number of pending points.  If both twins
raise the same exception type in the same op the history ends there (that is
F5/F12 territory, not C12).

A diverging history is classified by re-running it with a suspected mechanism
neutralised *in the harness process* (monkeypatches, restored afterwards;
nothing in the repository is edited):

  a  ``LearnerND._update_range``: first point sets ``_old_scale = _scale``
     (possibly 0, no ``or 1``) and the recompute test is
     ``_scale > factor * _old_scale`` (no division)           -> F9a
  b  ``triangulation.orientation`` normalises the rows of ``face - origin``
     before ``slogdet`` (so ``logdet < -50`` is a relative test) and
     ``LearnerND.inside_bounds`` uses ``eps = 1e-8 * (mx - mn)`` -> F9b
  c  ``learnerND._simplex_evaluation_priority`` without ``round(loss, 8)`` -> F9c
     (never a first cause - annotation only, see ``classify``)
  d  ``LearnerND._update_losses`` keeps the pending points freed by deleted
     simplices in first-seen order (dict) instead of a set of float tuples,
     whose iteration order depends on the hashes of the coordinates       -> F9d

The neutralised functions are obtained by textual rewrites of the repository's
current source (hand-written copies only as a fall-back), and an attribution
needs evidence that the mechanism actually took different decisions in the
two twins (see ``classify``).

API used by ``props/c12.py``: ``run_lnd(chk, ncases, maxlen)`` and
``replay_lnd(r)``.  ``python -m avh.impl_c12_lnd --n 60 --maxlen 25`` runs it
stand-alone with a fake ``chk``.
"""
from __future__ import annotations

import contextlib
import itertools
import math
import os
import struct
import sys
import time

import numpy as np

SIG_A = "C12:F9a LearnerND._update_range absolute first scale (_old_scale = scale or 1)"
SIG_B = "C12:F9b triangulation absolute tolerances (eps=1e-8, logdet < -50)"
SIG_C = "C12:F9c LearnerND loss queue rounds absolute loss (round(loss, 8))"
SIG_D = "C12:F9d LearnerND._update_losses re-adds pending points in set (float-hash) order"
SIG_U = "C12:LND twin divergence not explained by F9a/F9b/F9c"
SIG_OF = {"a": SIG_A, "b": SIG_B, "c": SIG_C, "d": SIG_D}

LATTICE = 16          # unsolicited points lie on lo + (hi-lo)*i/16
P_OUTSIDE = 0.03      # share of ops that tell a point OUTSIDE the box (only once the triangulation exists)

BOXES = {
    2: [[[-1.0, 1.0], [-1.0, 1.0]],
        [[0.0, 1.0], [0.0, 2.0]],
        [[-3.0, 7.5], [0.125, 4.0]],
        [[0.0, 1.0], [0.0, 1.0]]],
    3: [[[-1.0, 1.0], [-1.0, 1.0], [-1.0, 1.0]],
        [[0.0, 1.0], [0.0, 2.0], [-0.5, 0.5]],
        [[-3.0, 7.5], [0.125, 4.0], [0.0, 1.0]]],
}
FUNCS = ["smooth", "step", "const", "grow", "vec2", "ramp",
         # exactly constant (zero / non-zero) on most of the box incl. most corners: the value range stays exactly 0
         # over the first tells (`scale or 1`), then one differing value arrives
         "hinge", "hingec", "bump", "bumpc", "vecflat"]
LOSSES = ["default", "uniform", "triangle", "curvature"]   # the last two see the opposing vertices (nth_neighbors = 1)


# ---------------------------------------------------------------------------
# the user functions (evaluated once, on the ORIGINAL point)
def _unit(p, bounds):
    return [(x - lo) / (hi - lo) for x, (lo, hi) in zip(p, bounds)]


def fvalue(name, p, bounds):
    u = _unit(p, bounds)
    if name == "smooth":
        r2 = sum((x - 0.5) ** 2 for x in u)
        return math.exp(-4.0 * r2) + 0.3 * u[0]
    if name == "step":
        return math.tanh(40.0 * (u[0] + 0.5 * u[1] - 0.7))
    if name == "const":
        return 0.75
    if name == "grow":          # sharp interior peak: the value range keeps growing -> loss recomputes
        c = [0.3, 0.6, 0.45][: len(u)]
        r2 = sum((x - y) ** 2 for x, y in zip(u, c))
        return 1.0 / (0.002 + r2)
    if name == "vec2":
        return (math.sin(3.0 * u[0]) + u[1], u[0] * u[-1] - 0.25)
    if name in ("hinge", "hingec"):     # 0 (resp. 0.75) except near the corner (1, 1[, *])
        return (0.75 if name == "hingec" else 0.0) + 3.0 * max(0.0, u[0] + u[1] - 1.2) ** 2
    if name in ("bump", "bumpc"):       # localised bump, exactly constant outside a ball of radius 0.3
        c = [0.4, 0.55, 0.5][: len(u)]
        r2 = sum((x - y) ** 2 for x, y in zip(u, c))
        return (-2.5 if name == "bumpc" else 0.0) + 40.0 * max(0.0, 0.09 - r2)
    if name == "vecflat":               # vector output, both components constant except near one corner
        h = max(0.0, u[0] + u[-1] - 1.5)
        return (1.0 + 2.0 * h, -0.5 - h * h)
    if name == "ramp":          # first corner 0, range set by the corners
        return u[0] + 2.0 * u[1] + (0.5 * u[2] if len(u) > 2 else 0.0)
    raise ValueError(name)


def _scale_value(v, tau):
    if isinstance(v, tuple):
        return tuple(tau * c for c in v)
    return tau * v


def _bits(x):
    return struct.pack("<d", float(x))


def _same_float(a, b):
    return _bits(a) == _bits(b)


# ---------------------------------------------------------------------------
# neutralisations
def _mods():
    import adaptive.learner.learnerND as lnd_mod
    import adaptive.learner.triangulation as tri_mod
    return lnd_mod, tri_mod


def _update_range_equivariant(self, new_output):
    """`LearnerND._update_range` with the two absolute decisions made relative:
    first point: `_old_scale = _scale` (0 for a scalar) instead of `_scale or 1`;
    recompute iff `_scale > factor * _old_scale` instead of `_scale/_old_scale > factor`.
    Everything else is the code of the repository, verbatim."""
    if self._min_value is None or self._max_value is None:
        self._min_value = np.min(new_output)
        self._max_value = np.max(new_output)
        self._old_scale = self._scale
        return False
    self._min_value = min(self._min_value, np.min(new_output))
    self._max_value = max(self._max_value, np.max(new_output))
    scale_multiplier = 1 / (self._scale or 1)
    max_absolute_value_in_range = max(abs(self._min_value), abs(self._max_value))
    abs_err = 1e-15 * max_absolute_value_in_range
    scaled_err = abs_err * scale_multiplier
    if scaled_err > 1e-2:
        scale_multiplier = 1
    self._output_multiplier = scale_multiplier
    if self._scale > self._recompute_losses_factor * self._old_scale:
        self._old_scale = self._scale
        self._recompute_all_losses()
        return True
    return False


def _orientation_relative(face, origin):
    """`triangulation.orientation` with every row of `face - origin` divided by its
    euclidean length before `slogdet`: `logdet < -50` becomes a test on the shape."""
    vectors = np.array(face, dtype=float) - np.asarray(origin, dtype=float)
    norms = np.sqrt(np.sum(vectors * vectors, axis=1))
    if not np.all(norms > 0):
        return 0
    sign, logdet = np.linalg.slogdet(vectors / norms[:, None])
    if logdet < -50:
        return 0
    return sign


def _inside_bounds_relative(self, point):
    if self._interior is not None:
        return self._interior.find_simplex(point, tol=1e-8) >= 0
    return all((mn - 1e-8 * (mx - mn)) <= p <= (mx + 1e-8 * (mx - mn))
               for p, (mn, mx) in zip(point, self._bbox))


def _priority_unrounded(key):
    loss, simplex, subsimplex = key
    return -loss, simplex, subsimplex or (0,)


def _update_losses_ordered(self, to_delete, to_add):
    """`LearnerND._update_losses`, verbatim, except that the pending points freed by the
    deleted simplices are kept in a dict (first-seen order: order of `to_delete`, a set of
    int tuples, then vertex order of the sub-triangulation) instead of a set of float
    tuples whose iteration order depends on the hashes of the coordinates."""
    pending_points_unbound = {}
    for simplex in to_delete:
        loss = self._losses.pop(simplex, None)
        subtri = self._subtriangulations.pop(simplex, None)
        if subtri is not None:
            for v in subtri.vertices:
                pending_points_unbound.setdefault(v, None)
    pending_points_unbound = [p for p in pending_points_unbound if p not in self.data]
    for simplex in to_add:
        loss = self._compute_loss(simplex)
        self._losses[simplex] = loss
        for p in pending_points_unbound:
            self._try_adding_pending_point_to_simplex(p, simplex)
        if simplex not in self._subtriangulations:
            self._simplex_queue.add((loss, simplex, None))
            continue
        self._update_subsimplex_losses(simplex, self._subtriangulations[simplex].simplices)
    if self.nth_neighbors:
        points_of_added_simplices = set.union(*[set(s) for s in to_add])
        neighbors = self.tri.get_simplices_attached_to_points(points_of_added_simplices) - to_add
        for simplex in neighbors:
            loss = self._compute_loss(simplex)
            self._losses[simplex] = loss
            if simplex not in self._subtriangulations:
                self._simplex_queue.add((loss, simplex, None))
                continue
            self._update_subsimplex_losses(simplex, self._subtriangulations[simplex].simplices)


# The neutralised variants are derived from the CURRENT source of the repository's
# functions by small textual rewrites, so that any other edit inside those functions is
# inherited (and can therefore not hide behind the neutralisation).  Only if a pattern is
# not found (code reformatted) the hand-written variants above are used instead; if the
# absolute construct is simply gone (the defect was repaired) the function is left alone.
_REWRITES = {
    "a": ("_update_range", [
        (r"self\._old_scale = self\._scale or 1\b", "self._old_scale = self._scale"),
        (r"scale_factor = self\._scale / self\._old_scale\n", "scale_factor = None\n"),
        (r"if scale_factor > self\._recompute_losses_factor:",
         "if self._scale > self._recompute_losses_factor * self._old_scale:"),
    ], r"self\._scale or 1\b[^\n]*\n\s*return False|self\._scale / self\._old_scale"),
    "b_inside": ("inside_bounds", [
        (r"\(mn - eps\) <= p <= \(mx \+ eps\)", "(mn - eps * (mx - mn)) <= p <= (mx + eps * (mx - mn))"),
    ], r"mn - eps\)"),
    "b_orient": ("orientation", [
        (r"( *)sign, logdet = slogdet\(vectors - origin\)\n",
         "\\1_v = vectors - origin\n"
         "\\1_n = __import__('numpy').sqrt((_v * _v).sum(axis=1))\n"
         "\\1if not (_n > 0).all():\n\\1    return 0\n"
         "\\1sign, logdet = slogdet(_v / _n[:, None])\n"),
    ], r"slogdet\(vectors - origin\)"),
    "d": ("_update_losses", [
        (r"pending_points_unbound = set\(\)", "pending_points_unbound = {}"),
        (r"pending_points_unbound\.update\(subtri\.vertices\)",
         "pending_points_unbound.update(dict.fromkeys(subtri.vertices))"),
        (r"pending_points_unbound = \{\s*p for p in pending_points_unbound if p not in self\.data\s*\}",
         "pending_points_unbound = [p for p in pending_points_unbound if p not in self.data]"),
    ], r"pending_points_unbound = set\(\)"),
}
_REWRITE_CACHE: dict = {}


def _rewritten(key, fn, globs, fallback):
    """-> (function, how) with how in 'rewritten' | 'fallback-copy' | 'construct-absent'."""
    import inspect
    import re
    import textwrap
    try:
        src = textwrap.dedent(inspect.getsource(fn))
    except (OSError, TypeError):
        return fallback, "fallback-copy"
    ck = (key, src)
    if ck in _REWRITE_CACHE:
        return _REWRITE_CACHE[ck]
    name, subs, present = _REWRITES[key]
    out = src
    ok = True
    for pat, rep in subs:
        out, n = re.subn(pat, rep, out)
        ok = ok and n == 1
    if ok:
        ns: dict = {}
        try:
            exec(compile(out, f"<neutralised {name}>", "exec"), globs, ns)   # noqa: S102
            res = (ns[name], "rewritten")
        except Exception:  # noqa: BLE001
            res = (fallback, "fallback-copy")
    elif not re.search(present, src):
        res = (fn, "construct-absent")
    else:
        res = (fallback, "fallback-copy")
    _REWRITE_CACHE[ck] = res
    return res


def neutralisation_report():
    """How each neutralisation is obtained on the current tree (for the evidence file)."""
    lnd_mod, tri_mod = _mods()
    L = lnd_mod.LearnerND
    return {
        "a:_update_range": _rewritten("a", L.__dict__["_update_range"], lnd_mod.__dict__, _update_range_equivariant)[1],
        "b:orientation": _rewritten("b_orient", tri_mod.orientation, tri_mod.__dict__, _orientation_relative)[1],
        "b:inside_bounds": _rewritten("b_inside", L.__dict__["inside_bounds"], lnd_mod.__dict__, _inside_bounds_relative)[1],
        "d:_update_losses": _rewritten("d", L.__dict__["_update_losses"], lnd_mod.__dict__, _update_losses_ordered)[1],
    }


@contextlib.contextmanager
def neutralised(which=()):
    """which: iterable of 'a', 'b', 'c', 'd'.  Patches and restores."""
    lnd_mod, tri_mod = _mods()
    L = lnd_mod.LearnerND
    saved = []

    def put(obj, name, val):
        saved.append((obj, name, obj.__dict__[name] if isinstance(obj, type) else getattr(obj, name)))
        setattr(obj, name, val)

    try:
        if "a" in which:
            put(L, "_update_range", _rewritten("a", L.__dict__["_update_range"], lnd_mod.__dict__, _update_range_equivariant)[0])
        if "b" in which:
            # _extend_hull looks `orientation` up in the globals of triangulation.py
            put(tri_mod, "orientation", _rewritten("b_orient", tri_mod.orientation, tri_mod.__dict__, _orientation_relative)[0])
            put(L, "inside_bounds", _rewritten("b_inside", L.__dict__["inside_bounds"], lnd_mod.__dict__, _inside_bounds_relative)[0])
        if "c" in which:
            put(lnd_mod, "_simplex_evaluation_priority", _priority_unrounded)  # both SortedKeyList sites read the global
        if "d" in which:
            put(L, "_update_losses", _rewritten("d", L.__dict__["_update_losses"], lnd_mod.__dict__, _update_losses_ordered)[0])
        yield
    finally:
        for obj, name, val in reversed(saved):
            setattr(obj, name, val)


# ---------------------------------------------------------------------------
# the twin driver
_CUR = {"side": None}     # the twin whose op is being executed (for the module-level orientation tracer)


class _Side:
    """One twin plus the decision traces used as evidence that a mechanism really fired."""

    def __init__(self, bounds, loss_name, sigma):
        lnd_mod, _ = _mods()
        loss = {"default": lambda: lnd_mod.default_loss, "uniform": lambda: lnd_mod.uniform_loss,
                "triangle": lambda: lnd_mod.triangle_loss,
                "curvature": lambda: lnd_mod.curvature_loss_function()}[loss_name]()
        self.l = l = lnd_mod.LearnerND(lambda x: 0.0, [tuple(b) for b in bounds], loss_per_simplex=loss)
        cls = type(l)
        self.out = []           # outstanding (asked / told pending, not yet told) points, in order
        self.recomputes = 0
        self.step = -1
        self.tr_a = []          # (step, triangulation existed, recompute decision) per _update_range call
        self.tr_b = []          # (step, 'o'|'i', outcome) per orientation / inside_bounds call
        self.tr_d = []          # (step, [freed pending points / sigma in re-insertion order]) per _update_losses call
        self._ul = None
        inner = l._recompute_all_losses

        def counted():
            if l._tri is not None:
                self.recomputes += 1
            return inner()

        def update_range(new_output):
            r = cls._update_range(l, new_output)
            self.tr_a.append((self.step, l._tri is not None, bool(r)))
            return r

        def inside_bounds(point):
            r = cls.inside_bounds(l, point)
            self.tr_b.append((self.step, "i", bool(r)))
            return r

        def update_losses(to_delete, to_add):
            self._ul = []
            try:
                return cls._update_losses(l, to_delete, to_add)
            finally:
                if self._ul:
                    self.tr_d.append((self.step, self._ul))
                self._ul = None

        def try_adding(point, simplex):
            if self._ul is not None:
                q = tuple(x / sigma for x in point)
                if q not in self._ul:
                    self._ul.append(q)
            return cls._try_adding_pending_point_to_simplex(l, point, simplex)

        l._recompute_all_losses = counted
        l._update_range = update_range
        l.inside_bounds = inside_bounds
        l._update_losses = update_losses
        l._try_adding_pending_point_to_simplex = try_adding


def _evidence(O, T):
    """Which mechanisms demonstrably took different decisions in the two twins
    (first place only).  -> {'a': text, 'b': text, 'd': text} (missing = did not fire)."""
    ev = {}
    for i, (x, y) in enumerate(zip(O.tr_a, T.tr_a)):
        if x != y:
            ev["a"] = (f"_update_range call #{i} (op {x[0]}): recompute decision original={x[2]} twin={y[2]}")
            break
    for i, (x, y) in enumerate(zip(O.tr_b, T.tr_b)):
        if x != y:
            nm = "orientation" if x[1] == "o" else "inside_bounds"
            ev["b"] = f"{nm} call #{i} (op {x[0]}): original={x[2]} twin={y[2]}"
            break
    for i, (x, y) in enumerate(zip(O.tr_d, T.tr_d)):
        if x != y and sorted(x[1]) == sorted(y[1]):
            ev["d"] = f"_update_losses call #{i} (op {x[0]}): {len(x[1])} freed pending points re-added in a different order"
            break
    return ev


def _call(fn):
    try:
        return ("ok", fn())
    except Exception as e:  # noqa: BLE001 - the kind of exception is what is compared
        return ("exc", type(e).__name__, str(e)[:80])


def lattice_point(bounds, idx):
    return tuple(lo + (hi - lo) * (i / LATTICE) for (lo, hi), i in zip(bounds, idx))


def twin_run(cfg, ops, which=()):
    """Run the abstract history on both twins (optionally with mechanisms neutralised).
    Returns a dict: div (None or {step, kind, detail}), both_exc, flags and counters."""
    with neutralised(which):
        return _twin_run(cfg, ops)


def _twin_run(cfg, ops):
    bounds = [list(map(float, b)) for b in cfg["bounds"]]
    k, m = int(cfg["k"]), int(cfg["m"])
    sigma, tau = math.ldexp(1.0, k), math.ldexp(1.0, m)
    sbounds = [[sigma * lo, sigma * hi] for lo, hi in bounds]
    fname = cfg["func"]
    _, tri_mod = _mods()
    O, T = _Side(bounds, cfg["loss"], 1.0), _Side(sbounds, cfg["loss"], sigma)
    inner_orientation = tri_mod.orientation

    def traced_orientation(face, origin):
        r = inner_orientation(face, origin)
        _CUR["side"].tr_b.append((_CUR["side"].step, "o", int(r)))
        return r

    tri_mod.orientation = traced_orientation
    try:
        res = _twin_loop(cfg, ops, bounds, sigma, tau, fname, O, T)
        res["evidence"] = _evidence(O, T) if res["div"] is not None else {}
        return res
    finally:
        tri_mod.orientation = inner_orientation
        _CUR["side"] = None


def _twin_loop(cfg, ops, bounds, sigma, tau, fname, O, T):
    res = {"div": None, "both_exc": None, "steps": 0, "ooo": False, "ask_after_tri": False,
           "recomputes": 0, "ophist": {}, "npoints": 0, "noops": 0}

    def val(p):
        v = fvalue(fname, p, bounds)
        w = _scale_value(v, tau)
        if isinstance(v, tuple):        # a vector-valued function returns an array (the neighbour-aware losses multiply it)
            return np.array(v), np.array(w)
        return v, w

    def diverge(step, kind, detail):
        res["div"] = {"step": step, "kind": kind, "detail": detail}

    def call(side, fn):
        _CUR["side"] = side
        side.step = step
        return _call(fn)

    for step, op in enumerate(ops):
        name = op[0]
        fo = ft = None
        asked = False
        if name == "ask":
            n = int(op[1])
            had_tri = O.l._tri is not None
            fo = lambda: O.l.ask(n)           # noqa: E731
            ft = lambda: T.l.ask(n)           # noqa: E731
            asked = True
        elif name in ("tell", "tellmany"):
            if not O.out:
                res["noops"] += 1
                continue
            js = [int(op[1])] if name == "tell" else [int(j) for j in op[1]]
            po, pt = [], []
            for j in js:
                if not O.out:
                    break
                j %= len(O.out)
                if j != 0:
                    res["ooo"] = True
                po.append(O.out.pop(j))
                pt.append(T.out.pop(j))
            vs = [val(p) for p in po]
            if name == "tell":
                fo = lambda: O.l.tell(po[0], vs[0][0])    # noqa: E731
                ft = lambda: T.l.tell(pt[0], vs[0][1])    # noqa: E731
            else:
                fo = lambda: O.l.tell_many(po, [v[0] for v in vs])    # noqa: E731
                ft = lambda: T.l.tell_many(pt, [v[1] for v in vs])    # noqa: E731
        elif name in ("tellp", "tellu", "tello"):
            p = lattice_point(bounds, op[1])
            q = tuple(sigma * x for x in p)
            if p in O.l.data or p in O.l.pending_points or (name == "tello" and O.l._tri is None):
                res["noops"] += 1
                continue
            if name == "tellp":
                fo = lambda: O.l.tell_pending(p)      # noqa: E731
                ft = lambda: T.l.tell_pending(q)      # noqa: E731
            else:
                vo, vt = val(p)
                fo = lambda: O.l.tell(p, vo)          # noqa: E731
                ft = lambda: T.l.tell(q, vt)          # noqa: E731
        elif name == "rm":
            fo = lambda: O.l.remove_unfinished()      # noqa: E731
            ft = lambda: T.l.remove_unfinished()      # noqa: E731
            O.out, T.out = [], []
        else:
            raise ValueError(f"unknown op {op!r}")

        res["ophist"][name] = res["ophist"].get(name, 0) + 1
        ro, rt = call(O, fo), call(T, ft)
        res["steps"] = step + 1
        if ro[0] == "exc" or rt[0] == "exc":
            if ro[0] == "exc" and rt[0] == "exc" and ro[1] == rt[1]:
                res["both_exc"] = f"{ro[1]}: {ro[2]}"
                break
            diverge(step, "exception", f"original={ro[1:] if ro[0] == 'exc' else 'ok'} twin={rt[1:] if rt[0] == 'exc' else 'ok'}")
            break
        if asked:
            (xo, lo_), (xt, lt_) = ro[1], rt[1]
            ao = np.array([tuple(map(float, x)) for x in xo], dtype=np.float64)
            at = np.array([tuple(map(float, x)) for x in xt], dtype=np.float64)
            if ao.shape != at.shape or not np.array_equal(at, sigma * ao):
                i = next((i for i in range(min(len(ao), len(at))) if not np.array_equal(at[i], sigma * ao[i])), -1)
                diverge(step, "points", f"ask({n}) point #{i}: original {tuple(ao[i]) if i >= 0 else len(ao)} "
                                        f"twin/sigma {tuple(at[i] / sigma) if i >= 0 else len(at)}")
                break
            if len(lo_) != len(lt_) or any(not _same_float(a, b) for a, b in zip(lo_, lt_)):
                diverge(step, "improvements", f"ask({n}) loss_improvements original {list(map(float, lo_))} twin {list(map(float, lt_))}")
                break
            if had_tri:
                res["ask_after_tri"] = True
            O.out += [tuple(x) for x in xo]
            T.out += [tuple(x) for x in xt]
        elif name == "tellp":
            O.out.append(p)
            T.out.append(q)
        # observations after every op
        lo2, lt2 = call(O, lambda: O.l.loss()), call(T, lambda: T.l.loss())
        if lo2[0] == "exc" or lt2[0] == "exc":
            if lo2[0] == lt2[0] and lo2[1] == lt2[1]:
                res["both_exc"] = f"loss(): {lo2[1]}: {lo2[2]}"
                break
            diverge(step, "exception", f"loss(): original={lo2[1:]} twin={lt2[1:]}")
            break
        if not _same_float(lo2[1], lt2[1]):
            diverge(step, "loss", f"after {name}: loss() original {float(lo2[1])!r} twin {float(lt2[1])!r}")
            break
        if O.l.npoints != T.l.npoints or len(O.l.pending_points) != len(T.l.pending_points):
            diverge(step, "counts", f"after {name}: npoints {O.l.npoints}/{T.l.npoints} pending "
                                    f"{len(O.l.pending_points)}/{len(T.l.pending_points)}")
            break
    res["recomputes"] = O.recomputes
    res["recomputes_twin"] = T.recomputes
    res["npoints"] = O.l.npoints
    return res


# ---------------------------------------------------------------------------
# classification
SINGLES = ("a", "b", "d")      # (c) can never be a first cause: see classify()


def classify(cfg, ops, base=None):
    """-> (signature or None, what-line, info).  None = the twins agree.

    Peeling: a mechanism X (tried in the order a, b, d) is accepted as a cause iff
    (1) X demonstrably *fired* in the current run, i.e. the twins took different decisions
        inside X at or before the diverging op (recompute decision of `_update_range`;
        outcome of `orientation` / `inside_bounds`; re-insertion order of freed pending
        points in `_update_losses`), and
    (2) with X neutralised (in addition to what was already peeled) the history agrees
        entirely, or its first divergence moves to a strictly later op.
    In the second case the remaining divergence is peeled the same way, with the evidence
    of the new run.  The history is *explained* iff it finally agrees; it is attributed to
    the first mechanism peeled (the cause of the first divergence), the others are
    mentioned.  (1) keeps a neutralisation from "explaining" a divergence merely because
    it changed the trajectory.  If no single mechanism makes progress, pairs of fired
    mechanisms are tried.  (c) - `round(loss, 8)` in the queue key - cannot be a first
    cause (the queue losses of the twins are bit-identical until something else has
    differed) and neutralising it alone merely hides (d) by making ties rare; it is tried
    only to annotate an unexplained divergence, never as an attribution."""
    base = base or twin_run(cfg, ops)
    if base["div"] is None:
        return None, "", {"base": base}
    d = base["div"]
    what = (f"LearnerND dim={len(cfg['bounds'])} bounds={cfg['bounds']} loss={cfg['loss']} func={cfg['func']} "
            f"k={cfg['k']} m={cfg['m']} step={d['step']}/{len(ops)} op={ops[d['step']]} differ:{d['kind']} ({d['detail']})")
    active, evid, run = [], [], base
    while run["div"] is not None:
        ev = run.get("evidence", {})
        fired = [x for x in SINGLES if x in ev and x not in active]
        trial = [(x,) for x in fired] + list(itertools.combinations(fired, 2)) + ([tuple(fired)] if len(fired) == 3 else [])
        nxt = None
        for w in trial:
            r = twin_run(cfg, ops, tuple(active) + w)
            if r["div"] is None or r["div"]["step"] > run["div"]["step"]:
                nxt = (w, r)
                break
        if nxt is None:
            break
        active += list(nxt[0])
        evid += [f"({x}) {ev[x]}" for x in nxt[0]]
        run = nxt[1]
    if run["div"] is not None:
        masked = []
        for w in [("a",), ("b",), ("c",), ("d",), ("a", "b", "c", "d")]:
            if twin_run(cfg, ops, w)["div"] is None:
                masked.append("+".join(w))
        what += (f" [not explained: peeled {'+'.join(active) or 'nothing'}, then first divergence at op {run['div']['step']} "
                 f"({run['div']['kind']}) where no further mechanism fired; for information, the history agrees when "
                 f"neutralising (without evidence): {', '.join(masked) or 'nothing'}]")
        return SIG_U, what, {"base": base, "cleared": None, "active": active, "masked": masked}
    sig = SIG_OF[active[0]]
    if len(active) > 1:
        what += f" [agrees with {'+'.join(active)} neutralised; attributed to the first]"
    else:
        what += f" [agrees with ({active[0]}) neutralised alone]"
    what += " evidence: " + "; ".join(evid)
    return sig, what, {"base": base, "cleared": tuple(active)}


def replay_lnd(r: dict) -> list[str]:
    """r = replay_dict['lnd'] = {'cfg':…, 'ops':[…]}.  Empty list = the twins agree on the whole history."""
    sig, what, _ = classify(r["cfg"], [list(o) for o in r["ops"]])
    return [] if sig is None else [f"{sig} :: {what}"]


# ---------------------------------------------------------------------------
# delta debugging (used off-line to produce CORPUS)
def minimise(cfg, ops, sig=None, log=None, must=""):
    """ddmin over the op list keeping the classification (and the substring `must` of the what-line) stable."""
    ops = [list(o) for o in ops]
    if sig is None:
        sig = classify(cfg, ops)[0]
    assert sig is not None

    def keeps(cand):
        s_, w_, _ = classify(cfg, cand)
        return s_ == sig and must in w_

    d = twin_run(cfg, ops)["div"]
    ops = ops[: d["step"] + 1]
    n = 2
    while len(ops) >= 2:
        chunk = max(1, len(ops) // n)
        reduced = False
        for i in range(0, len(ops), chunk):
            cand = ops[:i] + ops[i + chunk:]
            if cand and keeps(cand):
                ops, n, reduced = cand, max(n - 1, 2), True
                break
        if not reduced:
            if chunk == 1:
                break
            n = min(len(ops), n * 2)
    # simplify the remaining ops (smaller ask sizes, small tell indices) and the factors (k or m -> 0)
    cfg = dict(cfg)
    changed = True
    while changed:
        changed = False
        for key in ("k", "m"):
            if cfg[key] != 0:
                c2 = dict(cfg, **{key: 0})
                s_, w_, _ = classify(c2, ops)
                if s_ == sig and must in w_:
                    cfg, changed = c2, True
        for i, o in enumerate(ops):
            cands = []
            if o[0] == "ask" and o[1] > 1:
                cands = [["ask", o[1] - 1]]
            elif o[0] == "tell" and o[1] != 0:
                cands = [["tell", j] for j in range(0, min(o[1], 6))]
            elif o[0] == "tellmany":
                if len(o[1]) > 1:
                    cands = [["tellmany", o[1][:-1]], ["tellmany", o[1][1:]]]
                else:
                    cands = [["tell", o[1][0]]]
                for q, j in enumerate(o[1]):
                    cands += [["tellmany", o[1][:q] + [j2] + o[1][q + 1:]] for j2 in range(0, min(j, 6))]
            for c in cands:
                cand = ops[:i] + [c] + ops[i + 1:]
                s_, w_, _ = classify(cfg, cand)
                if s_ == sig and must in w_:
                    ops, changed = cand, True
                    break
            if changed:
                break
    if log:
        log(f"minimise: {len(ops)} ops")
    return cfg, ops


# ---------------------------------------------------------------------------
# generation
def gen_case(rng, maxlen):
    dim = 2 if rng.random() < 0.7 else 3
    cfg = {"bounds": rng.choice(BOXES[dim]), "loss": rng.choice(LOSSES), "func": rng.choice(FUNCS),
           "k": rng.randint(-30, 30), "m": rng.randint(-30, 30)}
    r = rng.random()
    if r < 0.03:
        cfg["k"] = cfg["m"] = 0        # control: must agree trivially
    elif r < 0.10:
        cfg["k"] = 0
    elif r < 0.17:
        cfg["m"] = 0
    nops = rng.randint(max(4, maxlen // 2), maxlen)
    if rng.random() < 0.2:      # lock-step (sequential runner): ask(1)/tell, the corners arrive one by one
        ops = []
        for _ in range(nops // 2 + 2 ** dim):
            if rng.random() < 0.1:
                ops += [["ask", 2], ["tell", 1], ["tell", 0]]
            else:
                ops += [["ask", 1], ["tell", 0]]
        return cfg, ops
    ops = []
    nout = 0   # rough count of outstanding points (for sensible indices only)
    for i in range(nops):
        r = rng.random()
        if i == 0 and r < 0.6:
            n = rng.randint(dim + 1, 2 ** dim + 3)
            ops.append(["ask", n]); nout += n
        elif r < 0.30:
            n = rng.choice([1, 1, 2, 2, 3, 4, 5, 8])
            ops.append(["ask", n]); nout += n
        elif r < 0.68:
            j = 0 if rng.random() < 0.3 else rng.randrange(max(1, nout))
            ops.append(["tell", j]); nout = max(0, nout - 1)
        elif r < 0.76:
            cnt = rng.randint(2, 4)
            ops.append(["tellmany", [rng.randrange(max(1, nout)) for _ in range(cnt)]]); nout = max(0, nout - cnt)
        elif r < 0.85:
            ops.append(["tellp", [rng.randint(0, LATTICE) for _ in range(dim)]]); nout += 1
        elif r < 1.0 - P_OUTSIDE:
            ops.append(["tellu", [rng.randint(0, LATTICE) for _ in range(dim)]])
        else:
            idx = [rng.randint(0, LATTICE) for _ in range(dim)]
            idx[rng.randrange(dim)] = rng.choice([-4, -2, -1, LATTICE + 1, LATTICE + 2, LATTICE + 4])
            ops.append(["tello", idx])
    return cfg, ops


# ---------------------------------------------------------------------------
# minimal reproductions, one per cause (replayed first on every run)
CORPUS: list[dict] = [
    # F9a: three unsolicited tells; the value range of the original exceeds 1.1 at the 2nd value -> it re-bases
    # `_old_scale`, the twin (values * 2**-12) never does; the 4th value then recomputes all losses in one twin only.
    {"cfg": {"bounds": [[-1.0, 1.0], [-1.0, 1.0]], "loss": "default", "func": "ramp", "k": 0, "m": -12},
     "ops": [["tellu", [7, 11]], ["tellu", [3, 1]], ["ask", 1], ["tellu", [14, 13]], ["tell", 0]], "expect": None},   # F9a repaired in /repo: must agree
    {"cfg": {"bounds": [[0.0, 1.0], [0.0, 2.0]], "loss": "default", "func": "grow", "k": 0, "m": -27},
     "ops": [["ask", 6], ["tell", 0], ["tell", 4], ["tell", 0], ["tell", 0]], "expect": None},
    # F9b, orientation: 3-D box scaled by 2**-25: every |det| < e**-50, `_extend_hull` finds no visible face
    {"cfg": {"bounds": [[-1.0, 1.0], [-1.0, 1.0], [-1.0, 1.0]], "loss": "uniform", "func": "smooth", "k": -25, "m": 0},
     "ops": [["ask", 5], ["tell", 0], ["tellmany", [0, 0, 1, 0]]], "expect": SIG_B},
    {"cfg": {"bounds": [[-3.0, 7.5], [0.125, 4.0], [0.0, 1.0]], "loss": "default", "func": "vec2", "k": -29, "m": 0},
     "ops": [["ask", 5], ["tell", 0], ["tell", 0], ["tellmany", [0, 1, 0]]], "expect": SIG_B},
    # F9b, inside_bounds: a point 1/16 of the box outside it is "inside" once the box is smaller than 1e-8
    {"cfg": {"bounds": [[0.0, 1.0], [0.0, 2.0]], "loss": "uniform", "func": "ramp", "k": -27, "m": 0},
     "ops": [["ask", 3], ["tellmany", [0, 0, 0]], ["tello", [2, 17]]], "expect": SIG_B},
    # F9d: pending points freed by a deleted simplex are re-added in the iteration order of a set of float tuples
    {"cfg": {"bounds": [[-3.0, 7.5], [0.125, 4.0]], "loss": "uniform", "func": "step", "k": -22, "m": 0},
     "ops": [["ask", 4], ["tellmany", [0, 0, 0]], ["ask", 1], ["ask", 2], ["tell", 0], ["ask", 4], ["ask", 5]], "expect": None},     # F9d repaired in /repo: must agree
    {"cfg": {"bounds": [[0.0, 1.0], [0.0, 2.0]], "loss": "default", "func": "step", "k": -15, "m": 0},
     "ops": [["tellp", [6, 9]], ["tell", 0], ["tellp", [16, 1]], ["tell", 0], ["tellu", [2, 1]], ["ask", 8], ["tell", 23],
             ["ask", 2]], "expect": None},
    # neighbour-aware losses (nth_neighbors = 1) with an output factor != 1: the opposing vertices' values must be
    # normalised like the simplex's own (seeded mutant: `value = multiplier * value` instead of the list assignment)
    {"cfg": {"bounds": [[-1.0, 1.0], [-1.0, 1.0]], "loss": "triangle", "func": "smooth", "k": 0, "m": 5},
     "ops": [["ask", 4], ["tellmany", [0, 0, 0, 0]], ["ask", 3], ["tell", 2], ["tell", 0], ["tell", 0], ["ask", 4],
             ["tell", 1], ["tell", 0], ["ask", 3]], "expect": None},
    {"cfg": {"bounds": [[0.0, 1.0], [0.0, 2.0]], "loss": "curvature", "func": "vec2", "k": 7, "m": -9},
     "ops": [["ask", 4], ["tellmany", [0, 0, 0, 0]], ["ask", 2], ["tell", 1], ["tell", 0], ["ask", 5], ["tell", 3],
             ["tell", 0], ["tell", 0], ["ask", 2]], "expect": None},
    {"cfg": {"bounds": [[-1.0, 1.0], [-1.0, 1.0], [-1.0, 1.0]], "loss": "triangle", "func": "ramp", "k": -3, "m": 1},
     "ops": [["ask", 8], ["tellmany", [0, 0, 0, 0]], ["tellmany", [0, 0, 0, 0]], ["ask", 3], ["tell", 2], ["tell", 0],
             ["tell", 0], ["ask", 4]], "expect": None},
    # the value range is exactly 0 over the first tells (three of four corners are 0), then grows: lock-step ask/tell
    # (seeded mutant: the output multiplier lags one tell behind, `1 / (0 or 1)` is an absolute constant)
    {"cfg": {"bounds": [[0.0, 1.0], [0.0, 1.0]], "loss": "default", "func": "hinge", "k": 0, "m": 5},
     "ops": [["ask", 1], ["tell", 0]] * 9, "expect": None},
    {"cfg": {"bounds": [[0.0, 1.0], [0.0, 2.0]], "loss": "default", "func": "hingec", "k": 3, "m": -11},
     "ops": [["ask", 1], ["tell", 0]] * 8 + [["ask", 3], ["tell", 1], ["tell", 0], ["tell", 0], ["ask", 2]], "expect": None},
    {"cfg": {"bounds": [[-1.0, 1.0], [-1.0, 1.0], [-1.0, 1.0]], "loss": "default", "func": "bump", "k": -2, "m": 7},
     "ops": [["ask", 1], ["tell", 0]] * 14, "expect": None},
    {"cfg": {"bounds": [[-1.0, 1.0], [-1.0, 1.0]], "loss": "triangle", "func": "vecflat", "k": 0, "m": -6},
     "ops": [["ask", 1], ["tell", 0]] * 10, "expect": None},
]


def _work(item):
    idx, cfg, ops = item
    t0 = time.time()
    base = twin_run(cfg, ops)
    sig, what, info = classify(cfg, ops, base)
    return idx, {"sig": sig, "what": what, "cleared": info.get("cleared"), "base": base, "t": time.time() - t0}


def _map(items, workers):
    if workers <= 1 or len(items) <= 2:
        return [_work(it) for it in items]
    import multiprocessing as mp
    from concurrent.futures import ProcessPoolExecutor
    try:
        with ProcessPoolExecutor(max_workers=workers, mp_context=mp.get_context("fork")) as ex:
            return list(ex.map(_work, items, chunksize=1))
    except (OSError, RuntimeError):
        return [_work(it) for it in items]


def run_lnd(chk, ncases: int, maxlen: int) -> dict:
    """Replays CORPUS, then `ncases` seeded twin histories (rng = chk.rng("lnd", i)).
    Every diverging case is classified (no cap: the re-runs are spread over a process pool);
    at most one chk.fail per case."""
    _mods()   # import adaptive before forking
    items = []
    for j, c in enumerate(CORPUS):
        items.append((("corpus", j), c["cfg"], [list(o) for o in c["ops"]]))
    for i in range(ncases):
        cfg, ops = gen_case(chk.rng("lnd", i), maxlen)
        items.append((("rand", i), cfg, ops))
    workers = int(os.environ.get("AVH_C12_WORKERS", min(16, os.cpu_count() or 1)))
    t0 = time.time()
    results = dict(_map(items, workers))
    stats = {"cases": len(items), "corpus": len(CORPUS), "diverged": 0, "signatures": {}, "ops": {}, "dims": {},
             "funcs": {}, "losses": {}, "recompute_cases": 0, "both_exc": 0, "both_exc_kinds": {}, "nontrivial": 0,
             "controls_k0m0": 0, "diverged_kinds": {}, "corpus_ok": True, "points_total": 0}
    for idx, cfg, ops in items:          # fixed order -> deterministic reporting
        r = results[idx]
        b = r["base"]
        dim = len(cfg["bounds"])
        stats["dims"][str(dim)] = stats["dims"].get(str(dim), 0) + 1
        stats["funcs"][cfg["func"]] = stats["funcs"].get(cfg["func"], 0) + 1
        stats["losses"][cfg["loss"]] = stats["losses"].get(cfg["loss"], 0) + 1
        for o, c in b["ophist"].items():
            stats["ops"][o] = stats["ops"].get(o, 0) + c
        stats["points_total"] += b["npoints"]
        if b["recomputes"]:
            stats["recompute_cases"] += 1
        if b["both_exc"]:
            stats["both_exc"] += 1
            kind = b["both_exc"].split(":")[0]
            stats["both_exc_kinds"][kind] = stats["both_exc_kinds"].get(kind, 0) + 1
        if (cfg["k"], cfg["m"]) == (0, 0):
            stats["controls_k0m0"] += 1
        nontrivial = bool(b["ooo"] and b["ask_after_tri"] and (cfg["k"], cfg["m"]) != (0, 0))
        stats["nontrivial"] += nontrivial
        chk.note_case(("lnd", cfg, ops), nontrivial)
        if idx[0] == "rand" and idx[1] < 3:
            chk.sample(f"LND twin dim={dim} bounds={cfg['bounds']} loss={cfg['loss']} func={cfg['func']} k={cfg['k']} "
                       f"m={cfg['m']} ops={ops[:6]}… ({len(ops)} ops, {b['npoints']} points): "
                       + ("agree" if r["sig"] is None else r["sig"]))
        if r["sig"] is not None:
            stats["diverged"] += 1
            stats["signatures"][r["sig"]] = stats["signatures"].get(r["sig"], 0) + 1
            kd = b["div"]["kind"]
            stats["diverged_kinds"][kd] = stats["diverged_kinds"].get(kd, 0) + 1
            chk.fail(r["sig"], r["what"], {"lnd": {"cfg": cfg, "ops": ops}})
        if idx[0] == "corpus":
            want = CORPUS[idx[1]].get("expect")
            if want is not None and r["sig"] != want:
                stats["corpus_ok"] = False
                chk.log(f"LND corpus case {idx[1]} now gives {r['sig']!r} instead of {want!r}")
    stats["neutralisation"] = neutralisation_report()
    stats["wall_s"] = round(time.time() - t0, 1)
    return stats


# ---------------------------------------------------------------------------
if __name__ == "__main__":
    import argparse
    import hashlib
    import json
    import random

    class FakeChk:
        def __init__(self, seed):
            self.seed, self.failures, self.cases, self.nontrivial, self.samples, self.quick = seed, [], 0, 0, [], True

        def rng(self, *salt):
            h = hashlib.sha256(repr((self.seed, "C12") + salt).encode()).digest()
            return random.Random(int.from_bytes(h[:8], "big"))

        def note_case(self, key, nontrivial):
            self.cases += 1
            self.nontrivial += bool(nontrivial)

        def sample(self, s):
            if len(self.samples) < 4:
                self.samples.append(s)

        def fail(self, signature, what, replay):
            self.failures.append((signature, what, replay))

        def log(self, *a):
            print("[fake]", *a, flush=True)

    ap = argparse.ArgumentParser()
    ap.add_argument("--n", type=int, default=60)
    ap.add_argument("--maxlen", type=int, default=25)
    ap.add_argument("--seed", type=int, default=0)
    ap.add_argument("--show", type=int, default=2, help="failures printed per signature")
    ap.add_argument("--dump", default="", help="write all failures (json) to this file")
    ap.add_argument("--minimise", default="", help="json file with {'cfg','ops'}: print the minimised history")
    a = ap.parse_args()
    if a.minimise:
        doc = json.loads(open(a.minimise).read())
        doc = doc.get("lnd", doc)
        sig = classify(doc["cfg"], doc["ops"])[0]
        cfg, ops = minimise(doc["cfg"], doc["ops"], sig, log=print)
        print(json.dumps({"cfg": cfg, "ops": ops, "expect": sig}))
        sys.exit(0)
    chk = FakeChk(a.seed)
    t0 = time.time()
    st = run_lnd(chk, a.n, a.maxlen)
    by = {}
    for s, w, r in chk.failures:
        by.setdefault(s, []).append((w, r))
    for s, lst in sorted(by.items()):
        print(f"== {s}: {len(lst)}")
        for w, r in lst[: a.show]:
            print("   ", w[:400])
    print(json.dumps(st, indent=None, sort_keys=True))
    print(f"cases={chk.cases} nontrivial={chk.nontrivial} wall={time.time() - t0:.1f}s")
    for s in chk.samples[:2]:
        print("sample:", s[:300])
    if a.dump:
        open(a.dump, "w").write(json.dumps([{"sig": s, "what": w, "lnd": r["lnd"]} for s, w, r in chk.failures]))
