"""Drivers for the extra model correspondences of the C09 / C10 checks.

The models belong to other checks (C16: Model/Avg.v, Model/Avg1D.v; C07: Model/Integrator.v; ...); their
drivers, printers and Run files are imported, not copied.  What is added here is
* the op mixes (non-committing asks, re-tells, tell_pending of arbitrary points, discards), and
* the observation of `pending_points` for AverageLearner1D, whose model (Model/Avg1D.v) has no pending set:
  Model/Avg1DPend.v adds it, Run/BookkeepingRun.v compares it.
"""
from __future__ import annotations

import math
import warnings

from . import coqio as C
from .props import c16

F = c16.F

PREAMBLE_1D = c16.PREAMBLE + "\nFrom AV Require Import Run.BookkeepingRun."


# ---------------------------------------------------------------- AverageLearner1D + pending overlay
def d1p_obs(l):
    pts = c16.d1_obs(l)
    if pts is None:
        return None
    return {"pts": pts, "pend": sorted((int(s), float(x)) for s, x in l.pending_points)}


def d1p_obs_term(o):
    return C.app("mkpobs", c16.d1_obs_term(o["pts"]), C.lst(C.pair(C.nat(s), F(x)) for s, x in o["pend"]))


def d1p_op_term(op):
    k = op[0]
    if k == "ask":
        return C.app("pAsk", C.nat(op[1]), C.bool_(op[2]), C.lst(C.pair(C.nat(s), F(x)) for s, x in op[3]))
    if k == "tell":
        return C.app("pTell", C.nat(op[1]), F(op[2]), F(op[3]))
    if k == "tell_many_at":
        return C.app("pTellManyAt", F(op[1]), C.lst(C.pair(C.nat(s), F(y)) for s, y in op[2]), F(op[3]))
    if k == "tell_many":
        return C.app("pTellMany", C.lst(C.tup(C.nat(s), F(x), F(y)) for s, x, y in op[1]), C.lst(F(h) for h in op[2]))
    if k == "tell_pending":
        return C.app("pTellPending", C.nat(op[1]), F(op[2]))
    if k == "remove_unfinished":
        return "pRemove"
    raise ValueError(k)


def d1p_case_term(cfg, dedup, steps):
    import scipy.stats
    nmax = 2
    for op, out, o in steps:
        for p in ((o or {}).get("pts") or []):
            nmax = max(nmax, p[3] + 1)
        if op[0] == "tell_many_at":
            nmax += len(op[2])
        if op[0] == "tell_many":
            nmax += len(op[1])
    ttab = [(df, float(scipy.stats.t.ppf(1 - cfg["alpha"], df=df))) for df in range(1, nmax + 2)]
    lo, hi = cfg["bounds"]
    dc = C.app("mkdcase", F(lo), F(hi), C.nat(cfg["min_samples"]), F(cfg["ns"]), C.bool_(dedup),
               C.lst(C.pair(C.nat(df), F(t)) for df, t in ttab), "[]")
    return C.app("mkpcase", dc,
                 C.lst((C.tup(d1p_op_term(op), c16.d1_out_term(out), C.opt(o, d1p_obs_term)) for op, out, o in steps),
                       sep=";\n  "))


def d1p_drive(cfg, rng, maxlen, dedup, mix, concrete=None):
    """Drive the real AverageLearner1D.  mix = dict(ask, commit, retell, tell_pending, discard, batch) probabilities.
    Returns (steps [(op, out, obs)], info)."""
    l = c16.make_d1(cfg)
    lo, hi = cfg["bounds"]
    grid = [lo + (hi - lo) * i / 8 for i in range(9)]
    steps = []
    info = {"non_committing_asks": 0, "committing_asks": 0, "asks_with_pending": 0, "re_tells": 0, "tell_pending": 0,
            "tell_pending_of_told": 0, "tells_of_pending": 0, "discards_with_pending": 0, "batches": 0,
            "f22_rehanded": 0, "nonconsecutive_at_commit": 0}

    def told(seed, x):
        return x in l._data_samples and seed in l._data_samples[x]

    def do(op):
        op = tuple(op)
        out = None
        if op[0] == "ask":
            info["committing_asks" if op[2] else "non_committing_asks"] += 1
            info["asks_with_pending"] += bool(l.pending_points)
            if op[2] and any(sorted(d) != list(range(len(d))) for d in l._data_samples.values()):
                info["nonconsecutive_at_commit"] += 1
            try:
                with warnings.catch_warnings():
                    warnings.simplefilter("ignore")
                    ret = l.ask(op[1], tell_pending=op[2])
                out = [(int(s), float(x)) for s, x in ret[0]]
                if op[2]:
                    info["f22_rehanded"] += sum(1 for s, x in out if told(s, x))
            except ZeroDivisionError:
                out = "err"
            op = ("ask", op[1], op[2], [] if out == "err" else out)
        elif op[0] == "tell":
            _, seed, x, y = op
            info["re_tells"] += told(seed, x)
            info["tells_of_pending"] += (seed, x) in l.pending_points
            l.tell((seed, x), y)
        elif op[0] == "tell_many_at":
            _, x, pairs = op[:3]
            mapping = dict((int(s), float(y)) for s, y in pairs)
            pairs = list(mapping.items())
            hint = c16.batch_hint(l, x, mapping, dedup) if lo <= x <= hi and mapping else math.nan
            info["batches"] += 1
            try:
                l.tell_many_at_point(x, mapping)
            except (ValueError, StopIteration):
                out = "err"
            op = ("tell_many_at", x, pairs, hint)
        elif op[0] == "tell_many":
            trip = [(int(s), float(x), float(y)) for s, x, y in op[1]]
            groups: dict[float, dict[int, float]] = {}
            for s, x, y in trip:
                groups.setdefault(x, {})[s] = y
            hints = []
            if all(lo <= x <= hi for _, x, _ in trip):
                for x, mp in groups.items():
                    if len(mp) > 1:
                        hints.append(c16.batch_hint(l, x, mp, dedup))
                        info["batches"] += 1
            try:
                l.tell_many([(s, x) for s, x, _ in trip], [y for _, _, y in trip])
            except ValueError:
                out = "err"
            op = ("tell_many", trip, hints)
        elif op[0] == "tell_pending":
            info["tell_pending"] += 1
            info["tell_pending_of_told"] += told(op[1], op[2])
            l.tell_pending((op[1], op[2]))
        elif op[0] == "remove_unfinished":
            info["discards_with_pending"] += bool(l.pending_points)
            l.remove_unfinished()
        else:
            raise ValueError(op)
        steps.append((op, out, d1p_obs(l)))

    if concrete is not None:
        for op in concrete:
            k = op[0]
            do(op[:3] if k in ("ask", "tell_many_at") else (op[:2] if k == "tell_many" else op))
        return steps, info

    def pick_x(kind):
        xs = list(l.data.keys())
        if kind == "existing" and xs:
            return rng.choice(xs)
        if kind == "pending" and l.pending_points:
            return rng.choice(sorted(l.pending_points))[1]
        if kind == "grid":
            return rng.choice(grid)
        return rng.uniform(lo, hi)

    def next_seed(x, gap):
        d = l._data_samples.get(x, {})
        s = len(d) + (rng.randint(1, 3) if gap else 0)
        while s in d:
            s += 1
        return s

    todo = []
    for _ in range(rng.randint(4, maxlen)):
        r = rng.random()
        if r < mix["ask"]:
            do(("ask", rng.choice([1, 1, 2, 3, 4]), rng.random() < mix["commit"]))
            out = steps[-1][1]
            if out != "err":
                todo += out
                rng.shuffle(todo)
            continue
        r = rng.random()
        if r < mix["retell"] and l._data_samples:
            x = rng.choice(list(l._data_samples))
            s = rng.choice(list(l._data_samples[x]))
            y = l._data_samples[x][s]
            do(("tell", s, x, y if rng.random() < 0.4 else y + 1.0))
        elif r < mix["retell"] + mix["tell_pending"]:
            kind = rng.random()
            if kind < 0.12 and l._data_samples:          # a (seed, x) that has a value: allowed by the code, outside "polite"
                x = rng.choice(list(l._data_samples))
                s = rng.choice(list(l._data_samples[x]))
            else:
                x = pick_x(rng.choice(["existing", "existing", "grid", "new", "pending"]))
                s = next_seed(x, rng.random() < 0.3)
            do(("tell_pending", s, x))
        elif r < mix["retell"] + mix["tell_pending"] + mix["discard"]:
            do(("remove_unfinished",))
        elif r < mix["retell"] + mix["tell_pending"] + mix["discard"] + mix["batch"]:
            if rng.random() < 0.6:
                x = pick_x(rng.choice(["existing", "grid", "new", "pending"]))
                seeds = []
                for _ in range(rng.choice([1, 2, 2, 3, 4])):
                    s = next_seed(x, mix["gaps"] and rng.random() < 0.3)
                    while s in seeds:
                        s += 1
                    seeds.append(s)
                if dedup and l._data_samples.get(x) and rng.random() < 0.4:
                    s = rng.choice(list(l._data_samples[x]))
                    if s not in seeds:
                        seeds.insert(rng.randint(0, len(seeds)), s)
                do(("tell_many_at", x, [(s, c16.yfun(cfg, s + 7, x)) for s in seeds]))
            else:
                trip = []
                for _ in range(rng.randint(1, 6)):
                    x = pick_x(rng.choice(["existing", "grid", "grid", "new", "pending"]))
                    s = next_seed(x, mix["gaps"] and rng.random() < 0.3) + sum(1 for (s2, x2, _) in trip if x2 == x)
                    trip.append((s, x, c16.yfun(cfg, s + 13, x)))
                if todo and rng.random() < 0.5:
                    s, x = todo.pop()
                    if not told(s, x) and all((s, x) != (a, b) for a, b, _ in trip):
                        trip.append((s, x, c16.yfun(cfg, s, x)))
                do(("tell_many", trip))
        elif todo and rng.random() < 0.6:
            s, x = todo.pop()
            do(("tell", s, x, c16.yfun(cfg, s, x)))
        else:
            x = pick_x(rng.choice(["existing", "existing", "grid", "new", "pending"]))
            do(("tell", next_seed(x, mix["gaps"] and rng.random() < 0.25), x, c16.yfun(cfg, 17, x)))
    return steps, info


MIX_C09 = {"ask": 0.40, "commit": 0.45, "retell": 0.10, "tell_pending": 0.15, "discard": 0.06, "batch": 0.12, "gaps": True}
MIX_C10 = {"ask": 0.22, "commit": 0.85, "retell": 0.20, "tell_pending": 0.15, "discard": 0.10, "batch": 0.18, "gaps": True}


def d1p_correspondence(chk, tag, mix, ncases, maxlen):
    """Model/Avg1D.v + Model/Avg1DPend.v vs the real AverageLearner1D on our op mix; returns the counters."""
    dedup = c16.probe_dedup()
    cases, metas = [], []
    tot: dict[str, int] = {}
    for k in range(ncases):
        rng = chk.rng(tag, k)
        cfg = c16.gen_d1_cfg(rng, allow_known=False)
        m = dict(mix, gaps=mix["gaps"] and k % 3 != 0)       # every third case keeps the seeds consecutive (hypothesis of the theorem)
        steps, info = d1p_drive(cfg, rng, maxlen, dedup, m)
        for kk, v in info.items():
            tot[kk] = tot.get(kk, 0) + v
        cases.append(d1p_case_term(cfg, dedup, steps))
        metas.append({"kind": "avg1d+pending", "cfg": cfg, "ops": c16.jsonable_ops(steps)})
    mism, legal, errors = chk.coq_cases(tag, PREAMBLE_1D, "pcase", cases, "pcheck", "plegal", shard=max(4, min(40, ncases // 8)))
    for e in errors:
        chk.broke("correspondence", "Model/Avg1DPend.v cases could not be evaluated", e[-600:])
    for c, s in mism[:3]:
        chk.broke("correspondence", f"Model/Avg1D.v + Avg1DPend.v vs AverageLearner1D: case {c} step {s}",
                  dict(metas[c], ops=metas[c]["ops"][:s + 1]))
    tot.update({"cases": len(cases), "mismatches": len(mism), "legal_and_polite_per_coq": legal})
    return tot


# ---------------------------------------------------------------- IntegratorLearner with non-committing asks
def _int_modules():
    from . import impl_integrator as I
    from .props import c07
    return I, c07


class SharingLost(Exception):
    """a non-committing ask left the IntegratorLearner with containers that no longer share their intervals"""

    def __init__(self, msg, ops):
        super().__init__(msg)
        self.ops = ops


class NCRecorder:
    """impl_integrator.Recorder plus ask(n, tell_pending=False).  utils.restore replaces the learner's __dict__ by a deep
    copy: every _Interval is a NEW object afterwards, so the recorder's interval ids are re-attached by walking the old and
    the restored tree in parallel (children are created once, in a fixed order)."""

    def __init__(self, cfg):
        I, _ = _int_modules()
        self.I = I
        self.rec = I.Recorder(cfg)
        self.order_artifact = False

    def ask_nc(self, n):
        rec, I = self.rec, self.I
        l = rec.l
        ids_before, old_first = dict(rec.ids), l.first_ival
        out, err, site = rec._run(lambda: l.ask(n, tell_pending=False))
        choices = rec.choices
        new_ids, order = {}, []

        def walk(old, new):
            if old not in ids_before:
                raise I.InstrumentationError("after ask(n, tell_pending=False) the interval tree holds intervals created inside "
                                             "the call (not rolled back)")
            new_ids[new] = ids_before[old]
            for oc, nc in zip(old.children, new.children):
                walk(oc, nc)
        walk(old_first, l.first_ival)
        if len(new_ids) != len(ids_before):
            raise I.InstrumentationError("interval tree after restore does not match the tree before the non-committing ask")
        # The learner's containers must refer to the intervals OF THE TREE (as before the call): ivals, x_mapping and
        # priority_split share the _Interval objects reachable from first_ival.  A roll-back that brings the containers back
        # with equal-looking but separate interval objects has not restored the state: later tells complete the copies in
        # x_mapping while ivals / the tree never learn about it.
        stray = [("ivals", iv) for iv in l.ivals if iv not in new_ids]
        stray += [("x_mapping", iv) for ivs in l.x_mapping.values() for iv in ivs if iv not in new_ids]
        stray += [("priority_split", iv) for iv in l.priority_split if iv not in new_ids]
        if stray:
            raise SharingLost(f"after ask({n}, tell_pending=False) learner.{stray[0][0]} holds an interval object "
                              f"({float(stray[0][1].a)}, {float(stray[0][1].b)}) that is not the one in the interval tree "
                              f"(first_ival): {len(stray)} references no longer shared -- the state was not restored",
                              [[s["op"][0], s["op"][1] if s["op"][0] != "tell" else float(s["op"][1]).hex()] for s in rec.steps]
                              + [["ask_nc", int(n)]])
        rec.ids = new_ids
        rec.order = sorted(new_ids, key=new_ids.get)
        pts = [float(x) for x in out[0]] if out is not None else []
        st = {"op": ("ask_nc", int(n)), "out": pts, "err": err, "site": site, "choices": choices,
              "nret": None if out is None else len(out[0])}
        # the call was rolled back: the learner is alive whatever happened inside
        st["obs"] = None if rec.dead else rec.observe()
        rec.steps.append(st)
        return st

    def tell(self, x):
        """rec.tell(x), unless the snapshot/restore of an earlier non-committing ask has permuted the intervals of x.
        x_mapping[x] is a SortedSet keyed by rdepth; the deep copy rebuilds it from its underlying *set* of intervals, whose
        iteration order is by object address, so intervals of EQUAL rdepth sharing an abscissa (always an end point of both,
        registered when the intervals were created, i.e. in id order) may come back in the other order.  tell processes them
        in that order; the verdicts (recorded in processing order) can then not be assigned to intervals by the model, which
        keeps insertion order.  Same family as C09:F28 (iteration order of a set after restore); no effect on any answer was
        found in 1600 twin runs.  The comparison of the case stops before such a tell (DESIGN 4.7)."""
        rec = self.rec
        ss = rec.l.x_mapping.get(float(x))
        if ss is not None and len(ss) > 1:
            real = [rec.ids[iv] for iv in ss]
            if real != sorted(real, key=lambda i: (rec.order[i].rdepth, i)):
                self.order_artifact = True
                rec.dead = True
                return None
        return rec.tell(x)
        return st


def int_step_term(st, full):
    _, c07 = _int_modules()
    if st["op"][0] == "ask_nc":
        op = C.app("IAskNC", C.nat(st["op"][1]), C.lst(c07.choice_term(c) for c in st["choices"]))
    elif st["op"][0] == "ask":
        op = C.app("IOp", C.app("Ask", C.nat(st["op"][1]), C.lst(c07.choice_term(c) for c in st["choices"])))
    else:
        op = C.app("IOp", C.app("Tell", C.flt(st["op"][1]), C.lst(c07.verdict_term(v) for v in st["verdicts"])))
    out = C.pair(C.lst(C.flt(x) for x in st["out"]), C.nat(st["err"]))
    return C.tup(op, out, C.opt(st["obs"], lambda o: c07.obs_term(o, full)))


def int_case_term(cfg, steps):
    lo, hi = cfg["bounds"]
    n = len(steps)
    return C.tup(C.flt(lo), C.flt(hi), C.nat(cfg["max_ivals"]),
                 C.lst((int_step_term(s, k % 4 == 0 or k == n - 1 or s["op"][0] == "ask_nc") for k, s in enumerate(steps)),
                       sep=";\n  "))


def int_drive(cfg, rng, max_ops, p_nc):
    """Parallel-runner-like schedule with non-committing asks (before and after committing ones, with points in flight,
    with requests larger than the stack so that intervals are refined / split inside the rolled-back call)."""
    nc = NCRecorder(cfg)
    rec, I = nc.rec, nc.I
    l = rec.l
    inflight = []
    info = {"nc_asks": 0, "nc_asks_with_inflight": 0, "nc_asks_beyond_stack": 0, "nc_asks_raising": 0,
            "cases_cut_at_xmapping_order_artifact": 0}
    with warnings.catch_warnings():
        warnings.simplefilter("ignore")
        while len(rec.steps) < max_ops and not rec.dead:
            r = rng.random()
            if r < p_nc:
                n = rng.choice([1, 2, 5, 17, 34, 50])
                info["nc_asks"] += 1
                info["nc_asks_with_inflight"] += bool(inflight)
                info["nc_asks_beyond_stack"] += n > len(l._stack)
                st = nc.ask_nc(n)
                info["nc_asks_raising"] += st["err"] != I.E_NONE
            elif r < p_nc + 0.25 or not inflight:
                st = rec.ask(rng.choice([1, 3, 8, 17, 33]))
                if st["err"] != I.E_NONE:
                    break
                inflight += st["out"]
            else:
                rng.shuffle(inflight)
                for x in inflight[:rng.randint(1, max(1, len(inflight) // 2))]:
                    if rec.dead:
                        break
                    nc.tell(x)
                    inflight.remove(x)
            if not rec.dead and l.done() and rng.random() < 0.3:
                break
    info["cases_cut_at_xmapping_order_artifact"] = int(nc.order_artifact)
    return rec, info


def probe_integrator_repaired():
    """Which variant of Model/Integrator.v the tree corresponds to: do the F1 witness histories of corpus/C07 still
    end in an internal error?"""
    import json
    from .core import VERIF
    _, c07 = _int_modules()
    for f in sorted((VERIF / "corpus" / "C07").glob("f1*.json")):
        d = json.loads(f.read_text())
        rec, orc = c07.drive(d["cfg"], ops=d["ops"])
        if any(s.startswith("C07:F1") for s, _ in orc.errors):
            return False
    return True


def int_correspondence(chk, tag, ncases, max_ops, p_nc):
    I, c07 = _int_modules()
    repaired = probe_integrator_repaired()
    pre = c07.preamble() + "From AV Require Import Run.BookkeepingRun.\n"
    cases, metas, tot, broken = [], [], {}, []
    for k in range(ncases):
        rng = chk.rng(tag, k)
        cfg = I.draw_config(rng)
        try:
            rec, info = int_drive(cfg, rng, max_ops, p_nc)
        except I.InstrumentationError as e:
            broken.append((k, str(e)))
            continue
        except SharingLost as e:
            if not tot.get("sharing_lost"):
                chk.fail("C09:integrator_nc_ask_unshares_intervals", f"IntegratorLearner {cfg}: {e}",
                         {"kind": "integrator+nc", "cfg": cfg, "ops": e.ops})
            tot["sharing_lost"] = tot.get("sharing_lost", 0) + 1
            continue
        for kk, v in info.items():
            tot[kk] = tot.get(kk, 0) + v
        cases.append(int_case_term(cfg, rec.steps))
        metas.append({"kind": "integrator+nc", "cfg": cfg,
                      "ops": [[s["op"][0], s["op"][1] if s["op"][0] != "tell" else float(s["op"][1]).hex()] for s in rec.steps]})
    if broken:
        chk.broke("correspondence", f"instrumentation of IntegratorLearner around non-committing asks no longer fits ({len(broken)} cases)",
                  broken[:3])
    rep = "true" if repaired else "false"
    mism, ncs, errors = chk.coq_cases(tag, pre, "icase", cases, f"(icheck xi {rep})", "(fun c => Nat.ltb 0 (inc_asks c))",
                                      shard=max(4, min(20, ncases // 8)))
    for e in errors:
        chk.broke("correspondence", "Model/Integrator.v + ask_nc cases could not be evaluated", e[-600:])
    for c, s in mism[:3]:
        chk.broke("correspondence", f"Model/Integrator.v (+ask_nc) vs IntegratorLearner: case {c} step {s}",
                  dict(metas[c], ops=metas[c]["ops"][:s + 1]))
    tot.update({"cases": len(cases), "mismatches": len(mism), "cases_with_nc_ask": ncs, "model_variant_repaired": repaired})
    return tot


# ---------------------------------------------------------------- LearnerND with re-tells
def lnd_retell_correspondence(chk, tag, ncases, maxlen):
    """Model/LND.v vs the real LearnerND (drivers, recorders and printers of the C04 check) on histories into which
    re-tells of already known points are inserted (C04's own histories have none)."""
    from . import impl_lnd as LN
    from .props import c04
    unfixed5, unfixed12 = c04.probe_f5(), c04.probe_f12()
    cases, metas = [], []
    tot = {"cases": 0, "ops": 0, "re_tells": 0, "re_tells_with_pending_points": 0, "discards": 0, "tell_pending": 0}
    for k in range(ncases):
        rng = chk.rng(tag, k)
        cfg = LN.gen_config(rng)
        h = LN.gen_history(rng, maxlen, cfg["dim"])
        ops = LN.drive(cfg, hist=h)["ops"]
        ops2, known, npend = [], [], 0
        for op in ops:
            ops2.append(op)
            if op[0] == "tell":
                known.append(op[1])
                npend = max(0, npend - 1)
            elif op[0] == "ask":
                npend += op[1]
            elif op[0] == "remove_unfinished":
                npend = 0
                tot["discards"] += 1
            elif op[0] == "tell_pending":
                tot["tell_pending"] += 1
            if known and rng.random() < 0.3:
                ops2.append(["tell", rng.choice(known)])
                tot["re_tells"] += 1
                tot["re_tells_with_pending_points"] += npend > 0
        r, hooks, term = c04.run_case(cfg, concrete=ops2, unfixed5=unfixed5, unfixed12=unfixed12)
        if len(r["ops"]) < len(ops2) and not r["oracle"].errors:
            continue
        cases.append(term)
        metas.append({"kind": "lnd+retells", "cfg": cfg, "ops": r["ops"]})
        tot["ops"] += len(r["ops"])
    tot["cases"] = len(cases)
    mism, legal, errors = chk.coq_cases(tag, c04.PREAMBLE, "case", cases, "check", "is_legal", shard=10)
    for e in errors:
        chk.broke("correspondence", "Model/LND.v cases (with re-tells) could not be evaluated", e[-600:])
    for c, s in mism[:3]:
        chk.broke("correspondence", f"Model/LND.v vs LearnerND with re-tells: case {c} step {s} (each operation is followed by a Touch step)",
                  dict(metas[c], ops=metas[c]["ops"][:s // 2 + 1]))
    tot.update({"mismatches": len(mism), "legal_per_coq": legal})
    return tot
