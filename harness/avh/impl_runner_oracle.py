"""From-scratch oracles for the runner properties C05, C06, C19, written from
the property texts and evaluated on what the REAL runners did under the
controlled scheduler (harness/avh/impl_runner.py).  Independent of the Coq
model: they read only the recorded calls on the learner, the submissions, the
per-wait completion lists, the futures handed to wait(), and the public
attributes of the runner after the run.

Each oracle returns a list of (clause, message)."""
from __future__ import annotations

import math

from . import impl_runner as I


def max_tasks(spec):
    return spec["ntasks"] or spec.get("ncores", 1)


def _same(a, b):
    if isinstance(a, float) and isinstance(b, float):
        return a == b or (math.isnan(a) and math.isnan(b))
    return a == b


# --------------------------------------------------------------------------
def oracle_c05(rec: I.Rec):
    ctx, spec = rec.ctx, rec.spec
    errs = []
    M = max_tasks(spec)
    mock = spec["learner"] == "mock"
    handed = {}      # point -> number of times the learner handed it out
    told = {}        # point -> number of tells
    ok_values = {}   # point -> values returned by successful evaluations consumed so far
    inflight = set()
    consumed = set()
    last_ask = last_remove = None
    nact = 0
    for si, st in enumerate(rec.steps):
        ev = st["ev"]
        if ev[0] in ("wait", "shutdown", "waitcancel"):
            for fid, o in ev[1]:
                x = ctx.sub_point[fid]
                if o[0] == "ok":
                    ok_values.setdefault(ctx.P(x), []).append(o[1])
        for a in st["acts"]:
            nact += 1
            if a[0] == "ask":
                last_ask = nact
                if len(a[2]) > a[1]:
                    errs.append(("learner_contract", f"mock/real learner returned {len(a[2])} points for ask({a[1]})"))
                for x in a[2]:
                    handed[ctx.P(x)] = handed.get(ctx.P(x), 0) + 1
            elif a[0] == "submit":
                inflight.add(a[1])
                if handed.get(ctx.P(a[2]), 0) == 0:
                    errs.append(("foreign_submit", f"step {si}: submitted {a[2]!r}, which the learner never handed out"))
            elif a[0] == "tell":
                k = ctx.P(a[1])
                if handed.get(k, 0) == 0:
                    errs.append(("foreign_tell", f"step {si}: tell({a[1]!r}, {a[2]!r}) for a point the learner never handed out"))
                told[k] = told.get(k, 0) + 1
                if told[k] > handed.get(k, 0):
                    errs.append(("duplicate_tell", f"step {si}: point {a[1]!r} told {told[k]} times, handed out {handed.get(k, 0)} times"))
                vals = ok_values.get(k, [])
                if not any(_same(a[2], v) for v in vals):
                    errs.append(("wrong_value", f"step {si}: tell({a[1]!r}, {a[2]!r}) but the evaluations of that point returned {vals!r}"))
                if mock and (a[2] // 100 != a[1]):
                    errs.append(("wrong_value", f"step {si}: tell({a[1]!r}, {a[2]!r}): value belongs to point {a[2] // 100}"))
            elif a[0] == "remove":
                last_remove = nact
        snap = st["snap"]
        if snap["phase"] == "InWait":
            n = snap["nwait"]
            Mt = snap.get("maxw") or M           # ntasks, or the executor's CURRENT worker count (ntasks=None)
            nsub = sum(1 for a in st["acts"] if a[0] == "submit")
            before = n - nsub                    # still in flight from earlier steps (cannot be un-submitted)
            room = max(0, Mt - before)
            if nsub > room:
                errs.append(("over_subscription", f"step {si}: {nsub} evaluations submitted with {before} in flight and "
                                                  f"{'ntasks' if spec['ntasks'] else 'current worker count'}={Mt} ({n} in flight)"))
            asks = [a for a in st["acts"] if a[0] == "ask"]
            short = any(len(a[2]) < a[1] for a in asks)
            if nsub < room and not short:
                errs.append(("under_subscription", f"step {si}: only {n} of {Mt} evaluations in flight although the goal is "
                                                    f"unmet and the learner was not short of points (asks: {[(a[1], len(a[2])) for a in asks]})"))
            for a in asks:
                if a[1] <= 0:
                    errs.append(("ask_nonpositive", f"step {si}: learner.ask({a[1]}) called"))
        if ev[0] in ("wait", "shutdown", "waitcancel"):
            pass
    # stop
    why = rec.steps[-1]["snap"]["why"][0] if rec.steps else rec.first_snap["why"][0]
    cancel_injected = any((c[0] == "w" and c[1] == "cancel") or c[0] in ("s", "t") for c in rec.choices)
    if why == "NoWorkers":
        return errs
    if why == "GoalMet":
        if not (I.npoints_of(rec.learner) >= spec["goal"] or rec.exhausted_stop):
            errs.append(("stop_goal", f"runner finished normally with npoints={I.npoints_of(rec.learner)} < goal {spec['goal']}"))
        if cancel_injected:
            errs.append(("stop_cancel_report", "the runner was cancelled but reports a normal finish"))
    elif why == "Cancelled":
        if not cancel_injected:
            errs.append(("stop_cancel_report", "the runner reports cancellation but was never cancelled"))
    elif why != "Failed":
        errs.append(("stop_unexpected", f"run ended with {rec.exc!r}"))
    if spec["kind"] != "blocking":
        exp = {"GoalMet": "finished", "Cancelled": "cancelled", "Failed": "failed"}.get(why, "failed")
        if rec.status != exp:
            errs.append(("stop_status", f"AsyncRunner.status()={rec.status!r}, expected {exp!r}"))
    if last_remove is None:
        errs.append(("no_remove_unfinished", "the learner was never told to discard its unfinished points"))
    elif last_ask is not None and last_remove < last_ask:
        errs.append(("no_remove_unfinished", "learner.ask was called after the last remove_unfinished"))
    pend = getattr(rec.learner, "pending_points", None)
    if pend is not None and len(pend) > 0:
        errs.append(("pending_left", f"learner.pending_points = {sorted(map(repr, pend))[:5]} after the runner stopped"))
    # AsyncRunner with a coroutine function: at the moment the runner task is done no evaluation
    # coroutine may still be executing (a Task whose cancellation was only REQUESTED is not cancelled yet)
    if ctx.executing_at_done:
        fid = min(ctx.executing_at_done)
        errs.append(("outstanding_future", f"evaluation still outstanding after the runner stopped: the coroutine evaluating point "
                                           f"{ctx.sub_point[fid]!r} (future {fid}) was still executing when the runner task finished "
                                           f"(its cancellation was requested but had not completed; {len(ctx.executing_at_done)} such)"))
    # every evaluation the runner started is, once the runner has stopped, either consumed (its
    # result was taken by the runner) or cancelled.  A cancel() that was refused (the job is already
    # running) does not cancel anything: such an evaluation has to be waited for and consumed.
    # (After an error stop -- a RuntimeError out of _process_futures -- the for loop over the results is
    # left early; the property's stop clause is about goal/cancel stops, there only the weaker
    # "cancel() was called or consumed" is demanded.)
    visible = ctx.futs if spec["kind"] == "blocking" else ctx.futobj
    for fid in range(ctx.nfutures()):
        fut = visible[fid] if fid < len(visible) else None
        consumed = fid in ctx.all_result_calls
        really_cancelled = fut is not None and fut.cancelled()
        asked_cancel = fid in ctx.cancel_calls
        if why == "Failed":
            ok = consumed or asked_cancel
        else:
            # finished before the runner began to stop: not outstanding (AsyncRunner drops such a result
            # when it is cancelled in the same instant; BlockingRunner consumes it)
            ok = consumed or really_cancelled or fid in ctx.done_at_stop
        if not ok:
            state = "unknown to the runner's bookkeeping" if fut is None else \
                ("still in flight" if not fut.done() else "finished, result never taken")
            errs.append(("outstanding_future", f"evaluation still outstanding after the runner stopped: future {fid} "
                                               f"(point {ctx.sub_point[fid]!r}) was neither cancelled nor consumed ({state}; "
                                               f"cancel() {'was refused' if asked_cancel else 'never called'})"))
            break
    return errs


# --------------------------------------------------------------------------
def oracle_c06(rec: I.Rec):
    ctx, spec = rec.ctx, rec.spec
    errs = []
    M = max_tasks(spec)
    R = spec["retries"]
    nsub, nfail, told, first_ok = {}, {}, {}, {}
    inflight = {}          # fid -> point key
    last_exc = {}
    over = []              # points that exceeded the limit, in order
    name = {}
    for si, st in enumerate(rec.steps):
        ev = st["ev"]
        ok_now = {}
        if ev[0] in ("wait", "shutdown", "waitcancel"):
            processed = ev[1]
            # the for loop stops at the first raise: later entries were not consumed in this step
            cut = len(processed)
            if spec["raise"]:
                cnt = dict(nfail)
                for i, (fid, o) in enumerate(processed):
                    k = ctx.P(ctx.sub_point[fid])
                    if o[0] == "err":
                        cnt[k] = cnt.get(k, 0) + 1
                        if cnt[k] > R:
                            cut = i + 1
                            break
            if spec["kind"] != "blocking" and ev[0] == "shutdown":
                cut = 0
            for fid, o in processed[:cut]:
                k = inflight.pop(fid, None)
                if k is None:
                    k = ctx.P(ctx.sub_point[fid])
                if o[0] == "err":
                    nfail[k] = nfail.get(k, 0) + 1
                    last_exc[k] = o[1]
                    if nfail[k] == R + 1:
                        over.append(k)
                else:
                    first_ok.setdefault(k, o[1])
                    ok_now[k] = o[1]
        M = st["snap"].get("maxw") or M
        due_before = [k for k in nfail if 1 <= nfail[k] <= R and k not in first_ok and k not in told and k not in inflight.values()]
        free = M - len(inflight)
        submitted_now, ask_n = [], None
        for a in st["acts"]:
            if a[0] == "submit":
                k = ctx.P(a[2])
                name[k] = a[2]
                nsub[k] = nsub.get(k, 0) + 1
                inflight[a[1]] = k
                submitted_now.append(k)
                if nsub[k] > R + 1:
                    errs.append(("bounded_retries", f"step {si}: point {a[2]!r} evaluated {nsub[k]} times with retries={R}"))
                if k in told:
                    errs.append(("resubmitted_after_tell", f"step {si}: point {a[2]!r} submitted again after it was told"))
                if nfail.get(k, 0) > R:
                    errs.append(("failed_resubmitted", f"step {si}: point {a[2]!r} resubmitted after exhausting its retries"))
            elif a[0] == "ask":
                ask_n = a[1] if ask_n is None else ask_n + a[1]
            elif a[0] == "tell":
                k = ctx.P(a[1])
                told[k] = told.get(k, 0) + 1
                if told[k] > 1:
                    errs.append(("told_once", f"step {si}: point {a[1]!r} told {told[k]} times"))
                if k not in ok_now:
                    errs.append(("told_without_success", f"step {si}: tell({a[1]!r}, ..) in a step where no evaluation of it succeeded"))
                elif not _same(a[2], first_ok[k]):
                    errs.append(("first_success_value", f"step {si}: tell({a[1]!r}, {a[2]!r}) but its first successful evaluation returned {first_ok[k]!r}"))
        if ev[0] == "goal" and ev[1] is False:
            nretry = sum(1 for k in submitted_now if k in due_before)
            want = min(max(free, 0), len(due_before))
            if nretry != want:
                errs.append(("retry_before_new", f"step {si}: {len(due_before)} points awaited a retry, {free} slots were free, "
                                                 f"but {nretry} of them were resubmitted"))
            if ask_n is not None and ask_n > 0 and ask_n != free - nretry:
                errs.append(("retry_before_new", f"step {si}: learner asked for {ask_n} points with {free} free slots and {nretry} retries"))
            seen_new = False
            for k in submitted_now:
                if k in due_before:
                    if seen_new:
                        errs.append(("retry_before_new", f"step {si}: a retried point was submitted after a new one"))
                        break
                else:
                    seen_new = True
    # final bookkeeping exposed by the runner
    r = rec.runner
    why = rec.steps[-1]["snap"]["why"][0] if rec.steps else "NoWorkers"
    try:
        tbs = {ctx.P(x): tb for x, tb in r.tracebacks}
        to_retry = {ctx.P(x): n for x, n in r.to_retry}
        failed_pts = {ctx.P(r._id_to_point[pid]) for pid in r.failed}
    except Exception as e:   # noqa: BLE001
        errs.append(("public_views", f"runner.tracebacks/to_retry/failed raised {e!r}"))
        return errs
    for k in over:
        if k not in failed_pts:
            errs.append(("failed_listed", f"point {name.get(k)!r} failed {nfail[k]} times (retries={R}) but is not in runner.failed"))
        if k not in tbs or "EvalError" not in tbs.get(k, ""):
            errs.append(("failed_traceback", f"point {name.get(k)!r} exhausted its retries but has no traceback of its exception"))
        if k in to_retry:
            errs.append(("failed_listed", f"point {name.get(k)!r} exhausted its retries but is still queued in to_retry"))
        if k in told:
            errs.append(("told_after_failure", f"point {name.get(k)!r} was told although it exhausted its retries"))
    for k in failed_pts:
        if nfail.get(k, 0) <= R:
            errs.append(("failed_listed", f"point {name.get(k)!r} is in runner.failed after only {nfail.get(k, 0)} failures (retries={R})"))
    for k, n in nfail.items():
        if 1 <= n <= R and k not in told:
            if to_retry.get(k) != n:
                errs.append(("to_retry_count", f"point {name.get(k)!r} failed {n} times but runner.to_retry says {to_retry.get(k)}"))
    # the error
    is_err = isinstance(rec.exc, RuntimeError) and "An error occured while evaluating" in str(rec.exc)
    if over and spec["raise"]:
        if not is_err:
            errs.append(("raise", f"a point exhausted its retries with raise_if_retries_exceeded=True but the run ended with {rec.exc!r}"))
        else:
            head = str(rec.exc).split("See the traceback")[0]
            named = [k for k in over if f'"learner.function({name[k]})"' in head]
            if not named:
                errs.append(("raise_names_point", f"RuntimeError does not name a point that exhausted its retries: {head!r}"))
            cause = rec.exc.__cause__
            if not isinstance(cause, I.EvalError):
                errs.append(("raise_cause", f"RuntimeError.__cause__ is {cause!r}, not the original exception"))
            elif named and ctx.P(cause.x) not in named:
                errs.append(("raise_cause", f"RuntimeError names {name[named[0]]!r} but its __cause__ is the exception of {cause.x!r}"))
            if spec["kind"] != "blocking" and rec.status != "failed":
                errs.append(("raise_status", f"AsyncRunner.status()={rec.status!r} after the error"))
    else:
        if is_err:
            errs.append(("no_raise", f"RuntimeError raised although "
                                     f"{'raise_if_retries_exceeded=False' if not spec['raise'] else 'no point exhausted its retries'}"))
    return errs


# --------------------------------------------------------------------------
def snapshot_learner(spec, l):
    k = spec["learner"]
    if k == "mock":
        return {"data": dict(l.data), "loss": None}
    return {"data": dict(l.data), "loss": l.loss()}


def next_asks(spec, l, n=4):
    k = spec["learner"]
    if k == "mock":
        return list(range(l.next, min(l.total, l.next + n)))
    pts, _ = l.ask(n, tell_pending=False)
    return [tuple(p) if isinstance(p, tuple) else p for p in pts]


def new_learner(spec, l):
    if spec["learner"] == "mock":
        return I.MockLearner(spec["total"])
    return l.new()


def oracle_c19(rec: I.Rec):
    """Only for runs with log=True and no failed evaluation."""
    from adaptive.runner import replay_log
    ctx, spec = rec.ctx, rec.spec
    errs = []
    r = rec.runner
    if r.log is None:
        return [("log_missing", "log=True but runner.log is None")]
    calls = []
    for a in rec.acts:
        if a[0] == "ask":
            calls.append(("ask", a[1]))
        elif a[0] == "tell":
            calls.append(("tell", a[1], a[2]))
    # (i) the log against the calls actually made: every entry is the next call, exactly; only an
    # ("ask", n) entry with n <= 0 may stand for no call at all (_ask makes none when n = 0)
    def same_entry(a, b):
        if a[0] != b[0]:
            return False
        if a[0] == "ask":
            return a[1] == b[1]
        return _same(a[1], b[1]) and _same(a[2], b[2])
    ptr, bad = 0, None
    for e in (tuple(x) for x in r.log):
        if ptr < len(calls) and same_entry(e, calls[ptr]):
            ptr += 1
        elif e[0] == "ask" and e[1] <= 0:
            pass        # no call was made; whether replaying it is harmless is decided by the replay below
        else:
            bad = (e, calls[ptr] if ptr < len(calls) else None)
            break
    if bad or (ptr != len(calls) and bad is None):
        errs.append(("log_is_call_sequence", f"runner.log is not the sequence of calls the learner received: log entry {bad[0] if bad else None!r} "
                                            f"vs call {bad[1] if bad else calls[ptr]!r} (log has {len(r.log)} entries, {len(calls)} calls were made)"))
    orig = rec.learner
    twin = new_learner(spec, orig)
    try:
        replay_log(twin, r.log)
    except Exception as e:   # noqa: BLE001
        # The unchanged runner logs ("ask", 0) -- without calling the learner -- when no slot is free
        # (ntasks=None and a pool that shrank below the number in flight); AverageLearner.ask(0) raises
        # ZeroDivisionError, so replay_log fails on such a log.  Reported separately (observation).
        log0 = [x for x in r.log if not (x[0] == "ask" and x[1] == 0)]
        twin = new_learner(spec, orig)
        try:
            if len(log0) == len(r.log):
                raise e
            replay_log(twin, log0)
            errs.append(("replay_ask0_raises", f"replay_log raised {e!r} on the logged ('ask', 0) entry, which stands for no call "
                                               f"(the log without it replays)"))
        except Exception as e2:   # noqa: BLE001
            errs.append(("replay_raises", f"replay_log raised {e2!r}"))
            return errs
    a, b = snapshot_learner(spec, orig), snapshot_learner(spec, twin)
    if set(a["data"]) != set(b["data"]) or any(not _same(a["data"][k], b["data"][k]) for k in a["data"]):
        errs.append(("replay_data", f"replayed learner has {len(b['data'])} data points, original {len(a['data'])}, or values differ"))
    # literal reading: loss right after the replay.  Learner1D.loss() is inf while a
    # boundary point is neither known nor pending, so it differs between the original
    # (discarded by the runner) and the replayed learner (not yet discarded) when a
    # boundary evaluation was unfinished.  Reported separately (weaker reading below).
    if a["loss"] is not None and not _same(a["loss"], b["loss"]):
        errs.append(("replay_loss_before_discard", f"replayed loss {b['loss']!r} != original {a['loss']!r} "
                                                    f"(original was discarded by the runner, the replayed learner not yet)"))
    twin.remove_unfinished()
    orig.remove_unfinished()
    a2, b2 = snapshot_learner(spec, orig), snapshot_learner(spec, twin)
    if a2["loss"] is not None and not _same(a2["loss"], b2["loss"]):
        errs.append(("replay_loss", f"after discarding unfinished points the replayed loss is {b2['loss']!r}, the original {a2['loss']!r}"))
    try:
        na, nb = next_asks(spec, orig), next_asks(spec, twin)
    except Exception as e:   # noqa: BLE001
        errs.append(("replay_next_ask", f"ask after replay raised {e!r}"))
        return errs
    if len(na) != len(nb) or any(not _same(x, y) for x, y in zip(na, nb)):
        errs.append(("replay_next_ask", f"after remove_unfinished the replayed learner suggests {nb}, the original {na}"))
    return errs
