"""Driver for the real adaptive.IntegratorLearner used by the C07 check.

* integrand families (deterministic functions of x, so a history replays),
* run-time instrumentation (no edit of /repo): `_Interval.complete_process`,
  `_Interval.split` and `IntegratorLearner._fill_stack` are wrapped in this
  process, `learner.ivals` is replaced by a logging `set` subclass; this yields
  the numeric verdicts the implementation reached (force_split / remove /
  divergent per completed (interval, depth); which interval `_fill_stack`
  picked; whether the min_sep / max_ivals removals fired) -- the *oracle
  answers* the Coq model consumes,
* schedule generators (parallel-runner-like, batch, adversarial hold-back),
* `drive`: runs a schedule or a concrete op list and returns the recorded steps.
"""
from __future__ import annotations

import math
import struct
import traceback

import numpy as np

E_NONE, E_VALUE, E_RUNTIME, E_DIVERGENT, E_INTERNAL = 0, 1, 2, 3, 4
ENAMES = {E_NONE: "ok", E_VALUE: "ValueError(no interval)", E_RUNTIME: "RuntimeError(no way to improve)",
          E_DIVERGENT: "DivergentIntegralError", E_INTERNAL: "internal"}


def _bits(x: float) -> int:
    return struct.unpack("<Q", struct.pack("<d", float(x)))[0]


# ----------------------------------------------------------------------
# integrands: name -> (bounds choices, factory(params) -> f); params are plain
# numbers drawn by `draw_params`, stored in the replay file
def make_function(family: str, p: list[float]):
    g = _make_function(family, p)

    def f(x):
        try:
            return float(g(x))
        except (OverflowError, ZeroDivisionError, ValueError):
            return math.inf
    return f


def _make_function(family: str, p: list[float]):
    c, k = p[0], p[1]
    if family == "smooth_exp":
        return lambda x: math.exp(k * x / (1 + abs(x) / 50))
    if family == "smooth_sin":
        return lambda x: math.sin(5 * k * x) + c
    if family == "poly":
        return lambda x: 1 + c * x + k * x * x - x ** 5
    if family == "const":
        return lambda x: 1.0
    if family == "peaked":
        w = 10.0 ** (-1 - 3 * abs(k))
        return lambda x: w / (w * w + (x - c) ** 2)
    if family == "step":
        return lambda x: 0.0 if x < c else 1.0
    if family == "kink":
        return lambda x: abs(x - c)
    if family == "sqrt_sing":
        return lambda x: math.sqrt(abs(x - c))
    if family == "inv_sqrt":           # integrable singularity, value inf at the singular point
        return lambda x: (1 / math.sqrt(abs(x - c))) if x != c else math.inf
    if family == "nonfinite_nodes":    # smooth, but non-finite at isolated abscissae
        m = 5 + int(abs(k) * 20)
        return lambda x: (math.nan if _bits(x) % m == 0 else (math.inf if _bits(x) % m == 1 else math.cos(3 * x) + 2))
    if family == "log_sing":           # integrable, value exactly -inf at the singular point
        return lambda x: math.log(abs(x - c)) if x != c else -math.inf
    if family == "neg_inv_sqrt":       # integrable, -inf at the singular point
        return lambda x: (-1 / math.sqrt(abs(x - c))) if x != c else -math.inf
    if family == "neginf_nodes":       # smooth, but exactly -inf at isolated abscissae
        m = 5 + int(abs(k) * 20)
        return lambda x: (-math.inf if _bits(x) % m == 0 else math.sin(2 * x) - 3)
    if family == "mixed_nonfinite":    # +inf / -inf / nan at isolated abscissae, -inf at the point c
        m = 7 + int(abs(k) * 20)
        return lambda x: (-math.inf if x == c else
                          (math.nan, math.inf, -math.inf)[_bits(x) % 3] if (_bits(x) >> 2) % m == 0 else math.cos(3 * x) + 2)
    if family == "wiggly":             # refinement never resolves it: forced splits everywhere
        w = 10.0 ** (4 + 2 * abs(k))
        return lambda x: math.sin(w * x * x) + 2
    if family == "noisy":              # deterministic pseudo-noise on top of a smooth function
        return lambda x: math.cos(x) + 0.3 * ((_bits(x) * 2654435761 >> 7) % 1000) / 1000.0
    if family == "isolated_dev":       # 1 except at isolated abscissae that only deeper rules sample
        m = 3 + int(abs(k) * 12)
        return lambda x: 2.0 if (_bits(x) >> 3) % m == 0 else 1.0
    if family == "divergent":          # 1/x-like
        return lambda x: (1 / (x - c)) if x != c else math.inf
    if family == "divergent_pow":      # like the suite's fdiv: |x - c| ** -1.1 .. -1.6
        e = -(1.1 + 0.5 * abs(k))
        return lambda x: (abs(x - c) ** e) if x != c else math.inf
    if family == "divergent_abs":
        return lambda x: (1 / abs(x - c)) if x != c else math.inf
    raise ValueError(family)


FAMILIES = ["smooth_exp", "smooth_sin", "poly", "const", "peaked", "step", "kink", "sqrt_sing", "inv_sqrt",
            "nonfinite_nodes", "isolated_dev", "divergent", "divergent_abs", "divergent_pow",
            "log_sing", "neg_inv_sqrt", "neginf_nodes", "mixed_nonfinite", "wiggly", "noisy"]
BOUNDS = [(0, 1), (-1, 1), (0.0, 3.0), (-2.5, 7.25), (1e-3, 1e3), (-1, 0), (0, 1e-6), (3, 4)]


def draw_config(rng, family=None):
    family = family or rng.choice(FAMILIES)
    lo, hi = rng.choice(BOUNDS)
    r = rng.random()
    if family in ("divergent", "divergent_abs", "divergent_pow", "inv_sqrt", "sqrt_sing",
                  "log_sing", "neg_inv_sqrt", "mixed_nonfinite") and r < 0.6:
        c = lo if rng.random() < 0.7 else (lo + hi) / 2          # singular at an end point / at the first midpoint
    elif r < 0.5:
        c = lo + (hi - lo) * rng.random()
    else:
        c = lo + (hi - lo) * rng.choice([0.5, 0.25, 0.75, 0.3, 0.1])
    k = rng.uniform(-1, 1)
    tol = 10.0 ** rng.uniform(-10, -3)
    max_ivals = rng.choice([1000] * 6 + [3, 5, 8, 20])
    return {"family": family, "params": [float(c), float(k)], "bounds": [lo, hi], "tol": tol, "max_ivals": max_ivals}


# ----------------------------------------------------------------------
class LogSet(set):
    """`learner.ivals` with a log of the mutating calls the learner makes."""
    log = None

    def add(self, x):
        if self.log is not None:
            self.log.append(("add", x, x in self))
        set.add(self, x)

    def remove(self, x):
        if self.log is not None:
            self.log.append(("remove", x, x in self))
        set.remove(self, x)

    def discard(self, x):
        if self.log is not None:
            self.log.append(("discard", x, x in self))
        set.discard(self, x)


_CUR = None          # the recorder of the learner currently driven (one at a time)
_PATCHED = False


def _patch():
    global _PATCHED
    if _PATCHED:
        return
    from adaptive.learner import integrator_learner as il

    cp0, split0, fs0 = il._Interval.complete_process, il._Interval.split, il.IntegratorLearner._fill_stack

    def complete_process(self, depth):
        rec = _CUR
        if rec is None:
            return cp0(self, depth)
        try:
            r = cp0(self, depth)
        except il.DivergentIntegralError:
            rec.sink.append(("div",))
            raise
        rec.sink.append((bool(r[0]), bool(r[1])))
        rec.ncomplete += 1
        return r

    def split(self):
        rec = _CUR
        r = split0(self)
        if rec is not None:
            for ch in r:
                rec.ids[ch] = len(rec.ids)
                rec.order.append(ch)
        return r

    def _fill_stack(self):
        rec = _CUR
        if rec is None or rec.l is not self:
            return fs0(self)
        sink, old = [], rec.sink
        rec.sink = sink
        log = []
        self.ivals.log = log
        depth_before = {iv: iv.depth for iv in self.ivals}
        queued = bool(self.priority_split)
        prio_before = list(self.priority_split)
        try:
            r = fs0(self)
        except BaseException:
            # the call did not finish (divergent verdict inside a nested tell, or an
            # internal error): record what is known so that the model can follow it
            pick, kind = None, None
            rem = [e for e in log if e[0] == "remove"]
            if rem:
                pick = rem[0][1]
                kind = "split" if pick.children else "minsep"
            else:
                ref = [iv for iv, d in depth_before.items() if iv.depth != d]
                if ref:
                    pick, kind = ref[0], "refine"
            if not (queued or not self.ivals and pick is None):
                rec.choices.append({"pick": rec.ids.get(pick, 0), "minsep": False, "verdicts": sink, "maxrm": None,
                                    "kind": kind, "aborted": True})
            elif queued:
                rec.choices.append({"pick": 0, "minsep": False, "verdicts": sink, "maxrm": None,
                                    "kind": kind, "aborted": True})
            raise
        finally:
            rec.sink = old
            self.ivals.log = None
        # events after the last `add` are the max_ivals removal; discards before it
        # come from propagate_removed inside nested tells
        last_add = max([j for j, e in enumerate(log) if e[0] == "add"], default=-1)
        head = [e for e in log[:last_add + 1] if e[0] != "discard"]
        tail = log[last_add + 1:]
        pick, minsep, maxrm, kind = None, False, None, None
        if head and head[0][0] == "remove":
            pick = head[0][1]
            if len(head) == 3 and all(e[0] == "add" and not e[2] and e[1] in pick.children for e in head[1:]):
                kind = "split"
            else:
                raise InstrumentationError(f"unexpected ivals events in _fill_stack: {[(k, w) for k, _, w in log]}")
        elif head and head[0][0] == "add" and head[0][2] and len(head) == 1:
            pick, kind = head[0][1], "refine"
        elif not head and len(tail) == 1 and tail[0][0] == "remove":
            pick, kind, minsep, tail = tail[0][1], "minsep", True, []
        if tail:
            if len(tail) != 1 or not tail[0][2]:
                raise InstrumentationError(f"unexpected ivals events in _fill_stack: {[(k, w) for k, _, w in log]}")
            maxrm = tail[0][1]
        if pick is None:
            raise InstrumentationError("cannot identify the interval _fill_stack picked")
        if maxrm is not None and maxrm is not pick and maxrm in prio_before:
            rec.evict_queued.append(len(rec.steps))     # the max_ivals rule evicted an interval queued for a forced split
        rec.choices.append({"pick": rec.ids[pick], "minsep": minsep, "verdicts": sink,
                            "maxrm": None if maxrm is None else rec.ids[maxrm], "kind": kind})
        return r

    il._Interval.complete_process = complete_process
    il._Interval.split = split
    il.IntegratorLearner._fill_stack = _fill_stack
    _PATCHED = True


class InstrumentationError(Exception):
    pass


def classify(exc: BaseException) -> tuple[int, str]:
    """Map an exception to the small enum; for internal errors also name the site."""
    from adaptive.learner import integrator_learner as il
    if isinstance(exc, InstrumentationError):
        raise exc
    tb = traceback.extract_tb(exc.__traceback__)
    site = ""
    for fr in reversed(tb):
        if fr.filename.endswith("integrator_learner.py"):
            site = f"{fr.name}: {(fr.line or '').strip()}"
            break
    if isinstance(exc, InstrumentationError):
        raise exc
    if isinstance(exc, il.DivergentIntegralError):
        return E_DIVERGENT, site
    if isinstance(exc, RuntimeError) and "No way to improve" in str(exc):
        return E_RUNTIME, site
    if isinstance(exc, ValueError) and "doesn't belong to any interval" in str(exc):
        return E_VALUE, site
    return E_INTERNAL, f"{type(exc).__name__} in {site}"


def f1_label(site: str) -> str | None:
    """Which of the three known F1 paths an internal error is (None = something else)."""
    if site.startswith("AssertionError in _fill_stack") and "not ival.children" in site:
        return "C07:F1a assert not ival.children (interval queued twice in priority_split)"
    if site.startswith("AssertionError in tell") and "ival in self.ivals" in site:
        return "C07:F1b assert ival in self.ivals (removed interval completes a deeper rule with force_split)"
    if site.startswith("KeyError in _fill_stack") and "self.ivals.remove(ival)" in site:
        return "C07:F1c KeyError in self.ivals.remove (queued interval was removed before _fill_stack popped it)"
    return None


class Recorder:
    def __init__(self, cfg):
        global _CUR
        _patch()
        from adaptive.learner.integrator_learner import IntegratorLearner
        self.cfg = cfg
        self.f = make_function(cfg["family"], cfg["params"])
        _CUR = None
        self.l = IntegratorLearner(self.f, tuple(cfg["bounds"]), cfg["tol"])
        self.l.max_ivals = cfg.get("max_ivals", 1000)
        self.l.ivals = LogSet(self.l.ivals)
        self.ids = {self.l.first_ival: 0}
        self.order = [self.l.first_ival]
        self.sink = []
        self.choices = []
        self.ncomplete = 0
        self.evict_queued = []   # indices of the operations during which a queued interval was evicted
        self.steps = []          # dicts: op, out, err, site, verdicts/choices, obs
        self.dead = False

    # -- observation of the public state ---------------------------------
    def observe(self):
        l = self.l
        live = sorted((self.ids[iv], float(iv.a), float(iv.b), int(iv.depth)) for iv in l.ivals)
        dl = l.first_ival.done_leaves
        approx = None if dl is None else sorted(self.ids[iv] for iv in dl)
        return {"live": live, "approx": approx, "npoints": int(l.npoints),
                "pending": sorted(float(x) for x in l.pending_points)}

    def _run(self, fn):
        global _CUR
        _CUR = self
        self.sink, self.choices = [], []
        try:
            out = fn()
            err, site = E_NONE, ""
        except InstrumentationError:
            raise
        except BaseException as e:  # noqa: BLE001 - every exception is an outcome here
            if isinstance(e, (KeyboardInterrupt, SystemExit)):
                raise
            out = None
            err, site = classify(e)
        finally:
            _CUR = None
        return out, err, site

    def ask(self, n):
        out, err, site = self._run(lambda: self.l.ask(n))
        pts = [float(x) for x in out[0]] if out is not None else []
        st = {"op": ("ask", int(n)), "out": pts, "err": err, "site": site, "choices": self.choices,
              "nret": None if out is None else len(out[0])}
        self._finish(st)
        return st

    def tell(self, x, y=None):
        x = float(x)
        if y is None:
            y = self.f(x)
        out, err, site = self._run(lambda: self.l.tell(x, y))
        st = {"op": ("tell", x), "out": [], "err": err, "site": site, "verdicts": self.sink}
        self._finish(st)
        return st

    def _finish(self, st):
        if st["err"] in (E_DIVERGENT, E_INTERNAL) or (st["err"] == E_RUNTIME and st["op"][0] == "ask" and any(
                v == ("div",) for c in st["choices"] for v in c["verdicts"])):
            self.dead = True
        # an ask that raised: the divergent verdict may have been logged to the aborted _fill_stack
        st["obs"] = None if self.dead else self.observe()
        self.steps.append(st)


# ----------------------------------------------------------------------
# schedules: a schedule is a generator of abstract actions executed by `drive`
def drive_schedule(rec: Recorder, rng, mode: str, max_tells: int, max_ops: int, foreign_rate=0.03, ntasks=None, burst=0.0):
    """Drive the learner like a parallel runner would.  Returns when the op
    budget is used up, the learner is done, or an error ended the run."""
    l = rec.l
    inflight: list[float] = []
    ntasks = ntasks or rng.randint(1, 16)
    tells = 0
    held: list[float] = []      # adversarial: points held back until everything else arrived
    lo, hi = rec.cfg["bounds"]
    while len(rec.steps) < max_ops and tells < max_tells and not rec.dead:
        # --- ask
        if mode == "trickle":      # one request per free task, one value delivered at a time
            n = 1 if len(inflight) < ntasks else 0
        elif mode == "runner":
            n = max(0, ntasks - len(inflight))
            if rng.random() < 0.1 and foreign_rate:
                n = rng.randint(1, 50)
        elif mode == "batch":
            n = rng.randint(1, 50)
        elif mode == "deep":       # large requests: intervals are refined/split long before values arrive
            n = rng.choice([17, 33, 50, 50, 50])
        else:                      # holdback
            n = rng.randint(5, 50)
        if n:
            st = rec.ask(n)
            if st["err"] != E_NONE:
                if rec.dead or st["err"] == E_RUNTIME:
                    break
            inflight += st["out"]
        if not inflight and not held:
            if not n:
                continue
            if st["err"] != E_NONE:
                break
        # --- occasionally a value for an abscissa the learner never asked for
        if rng.random() < foreign_rate:
            r = rng.random()
            if r < 0.45:
                x = lo + (hi - lo) * rng.random()                  # inside the range, never a node
            elif r < 0.8 and l.ivals:
                # an abscissa that WILL be a node once this interval is split (inner node of a child's first rule)
                from adaptive.learner import integrator_coeffs as coeff
                iv = rng.choice(sorted(l.ivals, key=lambda i: (i.a, i.b)))
                m = (iv.a + iv.b) / 2
                ca, cb = (iv.a, m) if rng.random() < 0.5 else (m, iv.b)
                x = float(((ca + cb) / 2 + (cb - ca) * coeff.xi[0] / 2)[rng.choice([1, 3])])
            else:
                x = hi + 1.0 + rng.random()                        # outside the range
            if x not in l.x_mapping:
                rec.tell(x)
        # --- deliver
        if mode == "trickle":
            k = 1 if len(inflight) >= ntasks else 0
            rng.shuffle(inflight)
            if k and rng.random() < burst:      # now and then every value in flight arrives before the next request
                k = len(inflight)
        elif mode == "runner":
            k = rng.randint(1, max(1, min(len(inflight), ntasks)))
            rng.shuffle(inflight)
        elif mode == "batch":
            r = rng.random()
            k = len(inflight) if r < 0.4 else rng.randint(0, len(inflight))
            if rng.random() < 0.7:
                rng.shuffle(inflight)
            elif rng.random() < 0.5:
                inflight.reverse()
        elif mode == "deep":
            k = rng.randint(0, len(inflight)) if rng.random() < 0.7 else len(inflight)
            rng.shuffle(inflight)
        else:
            # hold back a few points (end points / midpoints belong to every rule of an
            # interval, so the interval completes several depths when they finally arrive)
            rng.shuffle(inflight)
            nh = rng.randint(1, 3)
            if len(held) < 4:
                held += inflight[:nh]
                inflight = inflight[nh:]
            k = len(inflight)
            if rng.random() < 0.35 and held:
                inflight += held
                held = []
                k = len(inflight)
        for x in inflight[:k]:
            if rec.dead or tells >= max_tells:
                break
            rec.tell(x)
            tells += 1
        inflight = inflight[k:]
        if l.done() if not rec.dead else True:
            if rng.random() < 0.5:
                break
    return rec


def drive_straggler(rec: Recorder, rng, max_tells: int, max_ops: int, style=None):
    """One (or two) of the first 17 abscissae is evaluated very slowly, everything else comes back in random order.

    The first 17-point rule then never completes while the runner is already 39 and more points further: the two
    halves (67 / 107 points further: the quarters) complete their 5-point rule and become the intervals the estimate
    is built from, each still carrying the error inherited from the first interval (float max / 2, / 4).  Styles:
      batch -- one request of 40..80 points on the fresh learner, all but the stragglers delivered in random order,
               then small requests / deliveries until the stragglers arrive
      wide  -- one request of 107..140 points; additional stragglers inside the 5-point / 9-point rules of the two halves,
               so that the four quarters (or a half and two quarters) form the estimate with the inherited error
      tasks -- 2..8 tasks, one of them stuck with the straggler, the others request and deliver one value at a time
    """
    l = rec.l
    style = style or rng.choice(["batch", "batch", "batch", "wide", "tasks"])
    # ordinal numbers (in hand-out order) of the abscissae that are held back; 0, 8 and 16 are the end points and the
    # midpoint (they belong to the halves as well: holding one of them keeps a half incomplete, too)
    inner = [i for i in range(17) if i not in (0, 8, 16)]
    hold = set(rng.sample(inner, rng.choice([1, 1, 1, 2])))
    if rng.random() < 0.15:
        hold.add(rng.choice([0, 8, 16]))
    if style == "batch":
        first, ntasks = rng.randint(40, 80), 0
        release_at = rng.randint(first, first + 60)
    elif style == "wide":
        first, ntasks = rng.randint(107, 140), 0
        # 33..35 / 36..38 are the new abscissae of the 5-point rules of the left / right half (34 and 37 are the
        # midpoints, which the quarters need); 39..42 / 73..76 those of the 9-point rules of the right / left half
        r = rng.random()
        if r < 0.5:        # no half completes a rule: the four quarters carry float max / 4 each
            hold |= {rng.choice([33, 35]), rng.choice([36, 38])}
        elif r < 0.8:      # one half and the two quarters of the other one: max/2 + max/4 + max/4
            hold |= {rng.choice([33, 35, 36, 38]), rng.randint(39, 42), rng.randint(73, 76)}
        else:
            hold |= {rng.randint(39, 42), rng.randint(73, 76)}
        release_at = rng.randint(first, first + 60)
    else:
        first = ntasks = rng.choice([2, 2, 3, 4, 8])
        hold = {min(hold)} if ntasks == 2 else set(sorted(hold)[:ntasks - 1])
        release_at = rng.randint(45, 110)
    jitter = rng.choice([None, None, 0, 4, 12, 30])
    inflight: list[float] = []
    held: list[float] = []
    handed = tells = 0
    released = False
    while len(rec.steps) < max_ops and tells < max_tells and not rec.dead:
        if not rec.steps:
            n = first
        elif ntasks:
            n = max(0, ntasks - len(inflight) - len(held))
        else:
            n = rng.randint(0 if inflight else 1, 8)
        stop = False
        if n:
            st = rec.ask(n)
            for x in st["out"]:
                (held if handed in hold and not released else inflight).append(x)
                handed += 1
            stop = st["err"] != E_NONE
        rng.shuffle(inflight)
        if ntasks:
            k = min(len(inflight), 1)
        elif len(rec.steps) == 1:
            k = len(inflight)                 # the whole first batch, except the stragglers: in random order, or
            if jitter is not None:            # roughly in the order of submission (tasks take similar time)
                pos = {x: i + rng.uniform(0, jitter) for i, x in enumerate(st["out"])}
                inflight.sort(key=pos.get)
        else:
            k = rng.randint(0, len(inflight))
        for x in inflight[:k]:
            if rec.dead or tells >= max_tells:
                break
            rec.tell(x)
            tells += 1
        inflight = inflight[k:]
        if held and (tells >= release_at or stop):
            rng.shuffle(held)
            released = True
            for x in held:
                if rec.dead:
                    break
                rec.tell(x)
                tells += 1
            held = []
            release_at += rng.randint(5, 40)   # the run goes on for a while after the stragglers arrived
        if stop or rec.dead:
            break
        if released and tells >= release_at:
            break
    return rec


MODES = ["runner", "batch", "deep", "holdback"]      # "trickle" is used by the stress stream only, "straggler" by its own stream


def drive_concrete(rec: Recorder, ops):
    for op in ops:
        if rec.dead:
            break
        if op[0] == "ask":
            rec.ask(int(op[1]))
        else:
            x = float.fromhex(op[1]) if isinstance(op[1], str) else float(op[1])
            if len(op) > 2 and op[2] is not None:
                rec.tell(x, float(op[2]))
            else:
                rec.tell(x)
    return rec


def concrete_ops(rec: Recorder):
    """The op list of a recorded run in replayable form (floats as hex)."""
    out = []
    for st in rec.steps:
        if st["op"][0] == "ask":
            out.append(["ask", st["op"][1]])
        else:
            out.append(["tell", float(st["op"][1]).hex()])
    return out


def xi_tables():
    from adaptive.learner import integrator_coeffs as coeff
    return [[float(v) for v in row] for row in coeff.xi]
