"""Check driver shared by all properties: Coq build + assumption audit,
sharded evaluation of generated cases files, verdict, evidence, known
findings.  See DESIGN.md section 3."""
from __future__ import annotations

import concurrent.futures as cf
import fcntl
import hashlib
import json
import os
import random
import re
import subprocess
import sys
import time
from pathlib import Path

VERIF = Path(__file__).resolve().parents[2]
COQ = VERIF / "coq"
REPO = Path(os.environ.get("ADAPTIVE_REPO", "/repo"))
WORK = VERIF / "work"
REPLAYS = VERIF / "replays"
COQFLAGS = ["-Q", str(COQ / "theories"), "AV", "-Q", str(COQ / "gen"), "AVGen"]
NPROC = int(os.environ.get("VERIF_JOBS", "16"))

STD_AXIOMS_OK = {
    # real-number axioms of Coq's standard library (Reals), allowed where a
    # property is an identity over R; named in the trusted base
    "ClassicalDedekindReals.sig_forall_dec",
    "ClassicalDedekindReals.sig_not_dec",
    "FunctionalExtensionality.functional_extensionality_dep",
    "Classical_Prop.classic",
}

HYGIENE_RE = re.compile(
    r"\b(Admitted|admit|Axiom|Axioms|Parameter|Parameters|Conjecture|Conjectures)\b"
    r"|Unset\s+Guard|bypass_check|type-in-type|impredicative-set|Admit\s+Obligations"
    r"|Unset\s+Universe\s+Checking|Unset\s+Positivity"
)


def strip_comments(text: str) -> str:
    out, depth, i = [], 0, 0
    while i < len(text):
        if text.startswith("(*", i):
            depth += 1
            i += 2
        elif text.startswith("*)", i) and depth:
            depth -= 1
            i += 2
        else:
            if depth == 0:
                out.append(text[i])
            elif text[i] == "\n":
                out.append("\n")
            i += 1
    return "".join(out)


def hygiene() -> list[str]:
    """Forbidden constructs anywhere in the development."""
    bad = []
    for f in sorted(list((COQ / "theories").rglob("*.v")) + list((COQ / "gen").rglob("*.v"))):
        txt = strip_comments(f.read_text())
        depth = 0
        for ln, line in enumerate(txt.splitlines(), 1):
            if HYGIENE_RE.search(line):
                bad.append(f"{f.relative_to(COQ)}:{ln}: {line.strip()[:80]}")
            if re.match(r"\s*(Section|Module)\s+\w+", line):
                depth += 1
            elif re.match(r"\s*End\s+\w+\s*\.", line):
                depth = max(0, depth - 1)
            elif depth == 0 and re.match(r"\s*(Variable|Variables|Hypothesis|Hypotheses|Context)\b", line):
                bad.append(f"{f.relative_to(COQ)}:{ln}: section-less {line.strip()[:60]}")
    for f in [COQ / "_CoqProject"]:
        if f.exists() and re.search(r"type-in-type|impredicative-set|-vos|-vok", f.read_text()):
            bad.append(f"{f.name}: forbidden flag")
    return bad


def sh(cmd, timeout=3600, cwd=None, env=None):
    p = subprocess.run(cmd, cwd=cwd, env=env, stdout=subprocess.PIPE, stderr=subprocess.STDOUT,
                       text=True, timeout=timeout)
    return p.returncode, p.stdout


def ensure_makefile():
    files = sorted(str(p.relative_to(COQ)) for d in ("theories", "gen") for p in (COQ / d).rglob("*.v"))
    listing = "-Q theories AV\n-Q gen AVGen\n" + "\n".join(files) + "\n"
    stamp = COQ / ".files.stamp"
    if not (COQ / "Makefile").exists() or not stamp.exists() or stamp.read_text() != listing:
        rc, out = sh(["coq_makefile", "-Q", "theories", "AV", "-Q", "gen", "AVGen", *files, "-o", "Makefile"], cwd=COQ)
        if rc != 0:
            raise RuntimeError("coq_makefile failed: " + out)
        stamp.write_text(listing)


class Lock:
    def __enter__(self):
        self.f = open(COQ / ".lock", "w")
        fcntl.flock(self.f, fcntl.LOCK_EX)
        return self

    def __exit__(self, *a):
        fcntl.flock(self.f, fcntl.LOCK_UN)
        self.f.close()


def make(targets, timeout=3000):
    """Full .vo build of the given targets (paths relative to coq/)."""
    with Lock():
        ensure_makefile()
        rc, out = sh(["timeout", str(timeout), "make", f"-j{NPROC}", *targets], cwd=COQ, timeout=timeout + 60)
    return rc, out


def coqc_file(path: Path, timeout=900):
    t0 = time.time()
    try:
        rc, out = sh(["timeout", str(timeout), "coqc", *COQFLAGS, str(path)], cwd=path.parent, timeout=timeout + 30)
    except subprocess.TimeoutExpired:
        rc, out = 124, "timeout"
    return rc, out, time.time() - t0


def split_evals(out: str) -> list[str]:
    """Split coqc output into the answers of successive Eval commands."""
    parts, cur = [], None
    for line in out.splitlines():
        if re.match(r"\s+= ", line):
            if cur is not None:
                parts.append(cur)
            cur = line
        elif cur is not None:
            cur += "\n" + line
    if cur is not None:
        parts.append(cur)
    return parts


class Known:
    def __init__(self):
        p = VERIF / "known_findings.json"
        self.entries = json.loads(p.read_text()) if p.exists() else []

    def match(self, prop, signature):
        for e in self.entries:
            if e.get("status") == "finding" and e["property"] == prop and e["signature"] == signature:
                return e
        return None


class Check:
    """One run of one property's check."""

    def __init__(self, prop: str, tier: str, seed: int):
        self.prop, self.tier, self.seed = prop, tier, seed
        self.t0 = time.time()
        self.work = WORK / prop
        self.work.mkdir(parents=True, exist_ok=True)
        # two runs of one property's check share this directory: serialise them
        import fcntl
        self._lock = open(WORK / f".{prop}.lock", "w")
        fcntl.flock(self._lock, fcntl.LOCK_EX)
        for f in self.work.glob("*"):
            if f.is_file():
                f.unlink()
        REPLAYS.mkdir(exist_ok=True)
        self.obligations: list[str] = []
        self.discharged: list[str] = []
        self.broken: list[dict] = []       # proof obligations / correspondences that no longer check
        self.failures: list[dict] = []     # failing inputs found on the implementation
        self.trusted: list[str] = []
        self.assumptions: list[str] = []
        self.cov: dict = {"evaluations": 0, "distinct_nontrivial": 0, "samples": []}
        self.extra: dict = {}
        self.known = Known()
        self.checker_cmds: list[str] = []
        self._distinct: set = set()
        self.quick = tier == "quick"

    # ------------------------------------------------------------------
    def rng(self, *salt) -> random.Random:
        h = hashlib.sha256(repr((self.seed, self.prop) + salt).encode()).digest()
        return random.Random(int.from_bytes(h[:8], "big"))

    def log(self, *a):
        print(f"[{self.prop} {time.time() - self.t0:6.1f}s]", *a, flush=True)

    # ------------------------------------------------------------------
    def prove(self, vo_targets: list[str], theorems: dict[str, str], allowed_axioms=frozenset()):
        """Build the cone of the property file and audit Print Assumptions.
        theorems: name -> logical path of the module that states it."""
        bad = hygiene()
        if bad:
            self.broken.append({"kind": "hygiene", "name": "forbidden construct in the development", "detail": bad[:20]})
        names = list(theorems)
        self.obligations += names
        cmd = f"make -C coq -j{NPROC} " + " ".join(vo_targets)
        self.checker_cmds.append(cmd + "  (coq_makefile full .vo build, Coq 8.16.1)")
        rc, out = make(vo_targets)
        (self.work / "make.log").write_text(out)
        if rc != 0:
            err = "\n".join(out.splitlines()[-25:])
            self.broken.append({"kind": "proof", "name": "build of " + " ".join(vo_targets) + " failed",
                                "detail": err, "theorems": names})
            self.log("BUILD FAILED\n" + err)
            return False
        # fresh audit of assumptions
        src = ["From AV Require Import " + " ".join(sorted(set(theorems.values()))) + "."]
        for n in names:
            src.append(f"Print Assumptions {n}.")
        f = self.work / "assumptions.v"
        f.write_text("\n".join(src) + "\n")
        rc, out, _ = coqc_file(f)
        (self.work / "assumptions.log").write_text(out)
        if rc != 0:
            self.broken.append({"kind": "proof", "name": "a listed theorem is missing", "detail": out[-1500:], "theorems": names})
            self.log("ASSUMPTION AUDIT FAILED\n" + out[-1500:])
            return False
        blocks = re.split(r"(?m)^(?=Closed under the global context|Axioms:)", out)
        blocks = [b for b in blocks if b.startswith("Closed") or b.startswith("Axioms:")]
        if len(blocks) != len(names):
            self.broken.append({"kind": "proof", "name": "assumption audit unparsable", "detail": out[-1500:]})
            return False
        ok = True
        for n, b in zip(names, blocks):
            axioms = [] if b.startswith("Closed") else [
                a for a in re.findall(r"(?m)^([A-Za-z_][\w.']*)\s*:", b) if a != "Axioms"]
            prims = [a for a in axioms if a.startswith(("PrimFloat.", "PrimInt63.", "Uint63.", "PrimArray."))]
            for a in prims:     # kernel primitives, listed by Print Assumptions but not axioms
                t = "kernel primitive " + a.split(".")[0]
                if t not in self.trusted:
                    self.trusted.append(t)
            axioms = [a for a in axioms if a not in prims]
            notok = [a for a in axioms if a not in allowed_axioms]
            if notok:
                ok = False
                self.broken.append({"kind": "proof", "name": f"{n} depends on disallowed axioms", "detail": notok})
            else:
                self.discharged.append(n)
            for a in axioms:
                t = f"axiom (Coq stdlib) {a}"
                if t not in self.trusted:
                    self.trusted.append(t)
        self.log(f"proof obligations {len(self.discharged)}/{len(self.obligations)} discharged")
        if not self.quick and ok:
            ok = self.coqchk(sorted(set(theorems.values())), allowed_axioms) and ok
        return ok

    def coqchk(self, modules, allowed_axioms=frozenset()):
        """Thorough tier: re-check the compiled cone with the independent checker and list its axioms."""
        mods = ["AV." + m for m in modules]
        cmd = ["timeout", "2400", "coqchk", "-silent", "-o", *COQFLAGS, *mods]
        t0 = time.time()
        rc, out = sh(cmd, cwd=COQ, timeout=2500)
        (self.work / "coqchk.log").write_text(out)
        self.checker_cmds.append("coqchk -silent -o " + " ".join(mods) + f" ({time.time() - t0:.0f}s)")
        if rc != 0:
            self.broke("proof", "coqchk rejected the compiled development", out[-1200:])
            return False
        m = re.search(r"\* Axioms:(.*?)\n\s*\n\* Constants/Inductives relying on type-in-type:(.*?)\n\s*\n"
                      r"\* Constants/Inductives relying on unsafe \(co\)fixpoints:(.*?)\n\s*\n"
                      r"\* Inductives whose positivity is assumed:(.*?)\n", out + "\n", re.S)
        if not m:
            self.broke("proof", "coqchk summary unparsable", out[-800:])
            return False
        axioms = [a.strip() for a in m.group(1).replace("<none>", "").split("\n") if a.strip()]
        unsafe = [x.strip() for g in m.groups()[1:] for x in g.replace("<none>", "").split("\n") if x.strip()]
        if unsafe:
            self.broke("proof", "coqchk reports assumed type-in-type / unsafe fixpoints / positivity", unsafe[:10])
            return False
        bad = [a for a in axioms if a.split(".")[-1] not in {x.split(".")[-1] for x in allowed_axioms}
               and not a.startswith("Coq.")]
        if bad:
            self.broke("proof", "coqchk lists axioms outside the standard library / allow-list", bad[:10])
            return False
        for a in axioms:
            t = f"coqchk: axiom in the loaded libraries: {a}"
            if t not in self.trusted:
                self.trusted.append(t)
        self.log(f"coqchk ok, {len(axioms)} library axioms")
        return True

    # ------------------------------------------------------------------
    def coq_cases(self, tag: str, preamble: str, case_type: str, cases: list[str], check_fn: str,
                  legal_fn: str | None = None, shard: int = 200, timeout=900, extra: list[str] | None = None):
        """Evaluate `mismatches check_fn cases` inside Coq, sharded.
        Returns (mismatches [(case, step)], legal_count, errors).  `extra`: further expressions over `cases`
        evaluated in every shard; their raw outputs are collected in self.last_extra (one list per shard)."""
        files = []
        for k in range(0, len(cases), shard):
            body = [preamble, f"Definition cases : list {case_type} := ["]
            body.append(";\n".join(cases[k:k + shard]))
            body.append("].")
            body.append(f"Eval vm_compute in (mismatches {check_fn} cases).")
            if legal_fn:
                body.append(f"Eval vm_compute in (count_true {legal_fn} cases).")
            for e in (extra or []):
                body.append(f"Eval vm_compute in ({e}).")
            f = self.work / f"{tag}_{k // shard}.v"
            f.write_text("\n".join(body) + "\n")
            files.append((k, f))
        mism, legal, errors = [], 0, []
        self.last_extra = []
        with cf.ThreadPoolExecutor(max_workers=min(NPROC, int(os.environ.get('VERIF_COQ_JOBS', '8')))) as ex:
            futs = {ex.submit(coqc_file, f, timeout): (k, f) for k, f in files}
            for fu in cf.as_completed(futs):
                k, f = futs[fu]
                rc, out, dt = fu.result()
                if rc != 0:
                    errors.append(f"{f.name}: rc={rc}: {out[-800:]}")
                    continue
                parts = split_evals(out)
                from . import coqio
                mism += [(k + c, s) for c, s in coqio.parse_pairs(parts[0])]
                if legal_fn:
                    legal += coqio.parse_nat(parts[1])
                if extra:
                    self.last_extra.append(parts[(2 if legal_fn else 1):])
        self.checker_cmds.append(f"coqc {tag}_*.v ({len(files)} shards, comparison by vm_compute inside Coq)")
        return sorted(mism), legal, errors

    def coq_eval(self, tag: str, preamble: str, exprs: list[str], timeout=600) -> list[str] | None:
        f = self.work / f"{tag}.v"
        f.write_text(preamble + "\n" + "\n".join(f"Eval vm_compute in ({e})." for e in exprs) + "\n")
        rc, out, _ = coqc_file(f, timeout)
        if rc != 0:
            return None
        return split_evals(out)

    # ------------------------------------------------------------------
    def note_case(self, key, nontrivial: bool):
        self.cov["evaluations"] += 1
        if nontrivial:
            h = hashlib.sha1(repr(key).encode()).hexdigest()
            if h not in self._distinct:
                self._distinct.add(h)
                self.cov["distinct_nontrivial"] += 1

    def sample(self, s):
        if len(self.cov["samples"]) < 4:
            self.cov["samples"].append(s)

    def fail(self, signature: str, what: str, replay: dict):
        """A concrete failing input on the implementation."""
        self.failures.append({"signature": signature, "what": what, "replay": replay})

    def broke(self, kind: str, name: str, detail):
        self.broken.append({"kind": kind, "name": name, "detail": detail})

    # ------------------------------------------------------------------
    def finish(self, level="proof", rule="", assumptions=None) -> int:
        unknown, seen_known = [], {}
        for f in self.failures:
            e = self.known.match(self.prop, f["signature"])
            if e:
                seen_known.setdefault(f["signature"], (e, f))
            else:
                unknown.append(f)
        for sig, (e, f) in seen_known.items():
            print(f"KNOWN-FINDING: property={self.prop} {e.get('what', sig)}")
        rc = 0
        vio = 0
        if unknown or self.broken:
            rc = 1
            vio = max(1, len({f['signature'] for f in unknown}))
            path = REPLAYS / f"{self.prop}-{self.seed}.json"
            doc = {"property": self.prop, "seed": self.seed, "tier": self.tier,
                   "no_longer_checks": self.broken,
                   "failing_inputs": unknown[:5]}
            path.write_text(json.dumps(doc, indent=1, default=str))
            if unknown:
                print(f"VIOLATION property={self.prop} replay={path}")
                print("  failing input: " + unknown[0]["what"])
            else:
                print(f"VIOLATION property={self.prop} replay={path} no-failing-input-found")
            for b in self.broken[:6]:
                print(f"  no longer checks: [{b['kind']}] {b['name']}")
        cov = dict(self.cov)
        cov.update({
            "rule": rule,
            "obligations": len(self.obligations),
            "discharged": len(self.discharged),
            "obligation_names": self.obligations,
            "checker_cmd": " ; ".join(self.checker_cmds) or "none",
            "trusted_base": ["Coq 8.16.1 kernel incl. vm_compute, primitive ints and floats; no native_compute"] + self.trusted,
            "known_findings_reproduced": sorted(seen_known),
        })
        cov.update(self.extra)
        if not cov["samples"]:
            cov["samples"] = ["(no case generated)"]
        ev = {"property_id": self.prop, "tier": self.tier, "seed": self.seed, "level": level,
              "coverage": cov, "assumptions": (assumptions or []) + self.assumptions,
              "wall_s": round(time.time() - self.t0, 2), "violations": vio}
        (VERIF / "evidence").mkdir(exist_ok=True)
        (VERIF / "evidence" / f"{self.prop}.json").write_text(json.dumps(ev, indent=1, default=str) + "\n")
        self.log("exit", rc, f"evaluations={cov['evaluations']} nontrivial={cov['distinct_nontrivial']} "
                 f"obligations={cov['discharged']}/{cov['obligations']}")
        if rc == 0:
            # disk is limited: after a clean run drop the generated case files and their compiled forms
            # (thorough tiers write gigabytes); after a violation they stay for inspection
            for f in self.work.glob("*"):
                if f.is_file() and (f.suffix in (".vo", ".vos", ".vok", ".glob") or re.fullmatch(r".*_\d+\.v", f.name)):
                    try:
                        f.unlink()
                    except OSError:
                        pass
        return rc
