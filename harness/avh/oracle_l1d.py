"""From-scratch oracle for C01 on the real Learner1D: recompute every loss from
the data the learner holds (with the un-wrapped shipped loss function)."""
from __future__ import annotations

import math

import numpy as np


def true_loss(l, fn, a, b, xs_sorted, yscale):
    """loss_per_interval of the interval (a,b) computed from l.data at y-scale yscale."""
    if b - a < l._dx_eps:
        return 0.0
    nn = l.nth_neighbors
    i = xs_sorted.index(a)
    idx = range(i - nn, i + nn + 2)
    xs = [xs_sorted[j] if 0 <= j < len(xs_sorted) else None for j in idx]
    ys = [l.data[x] if x is not None else None for x in xs]
    sx = l._scale[0]
    ysc = yscale or 1
    xs_s = tuple(None if x is None else x / sx for x in xs)
    ys_s = tuple(None if y is None else y / ysc for y in ys)
    return float(fn(xs_s, ys_s))


def same(a, b):
    return (a == b) or (math.isnan(a) and math.isnan(b))


class C01Oracle:
    def __init__(self, l, fn):
        self.l, self.fn = l, fn
        self.scales = [0]          # y-scales seen so far
        self.errors = []
        orig = l._update_scale

        def upd(x, y):
            orig(x, y)
            self.note_scale()
        l._update_scale = upd      # instance attribute: observes every intermediate scale

    def note_scale(self):
        sy = self.l._scale[1]
        sy = sy if isinstance(sy, int) else float(sy)
        if self.scales[-1] != sy:
            self.scales.append(sy)

    def check(self):
        l = self.l
        sy = float(l._scale[1]) if not isinstance(l._scale[1], int) else l._scale[1]
        if not self.scales or self.scales[-1] != sy:
            self.scales.append(sy)
        lo, hi = l.bounds
        xs = sorted(x for x in l.data if lo <= x <= hi)
        factor = l._recompute_losses_factor
        # the normalisation itself, from scratch: the largest component range of the values held
        # (all told points are inside the bounds in these histories; no NaN values)
        if xs:
            vals = np.array([np.atleast_1d(np.asarray(l.data[x], dtype=float)) for x in xs])
            true_sy = float(np.max(vals.max(axis=0) - vals.min(axis=0)))
            if not same(true_sy, float(sy)):
                self.errors.append(("y_scale", f"_scale[1]={sy!r} but the largest component range of the values held is {true_sy!r}"))
                return
        ivs = list(zip(xs, xs[1:]))
        stored = {(float(a), float(b)): float(v) for (a, b), v in l.losses.items()}
        if sorted(stored) != [(float(a), float(b)) for a, b in ivs]:
            self.errors.append(("loss_table_keys", f"losses keys {sorted(stored)} != neighbouring pairs {ivs}"))
            return
        for a, b in ivs:
            got = stored[(a, b)]
            cands = [s for s in self.scales if s * factor >= sy and s <= sy] or [sy]
            if not any(same(true_loss(l, self.fn, a, b, xs, s), got) for s in dict.fromkeys([sy] + cands[::-1])):
                exp = true_loss(l, self.fn, a, b, xs, sy)
                self.errors.append(("stale_loss", f"losses[({a},{b})]={got!r} but the loss function on the current data gives {exp!r} "
                                     f"(y-scale {sy}, factor {factor}; no y-scale within the factor reproduces the stored value)"))
                break


def check_combined(l, errors):
    """Pieces of an evaluated interval cut by pending points carry its loss in
    proportion to their width; infinite only where no evaluated point exists on one side."""
    lo, hi = l.bounds
    real = sorted(x for x in l.data if lo <= x <= hi)
    comb = sorted(set(real) | set(l.pending_points))
    stored = {(float(a), float(b)): float(v) for (a, b), v in l.losses_combined.items()}
    pairs = list(zip(comb, comb[1:]))
    if sorted(stored) != [(float(a), float(b)) for a, b in pairs]:
        errors.append(("combined_keys", f"losses_combined keys {sorted(stored)} != neighbouring pairs of known+pending points"))
        return
    for a, b in pairs:
        left = [r for r in real if r <= a]
        right = [r for r in real if r >= b]
        got = stored[(a, b)]
        if left and right:
            L_, R_ = left[-1], right[0]
            loss = float(l.losses[(L_, R_)])
            exp = (b - a) * loss / (R_ - L_)
            ok = same(got, exp) or ((a, b) == (L_, R_) and same(got, loss))
            if not ok:
                errors.append(("combined_interpolation",
                               f"losses_combined[({a},{b})]={got!r}, expected {exp!r} = share of losses[({L_},{R_})]={loss!r}"))
                return
        elif not math.isinf(got):
            errors.append(("combined_inf", f"losses_combined[({a},{b})]={got!r} but no evaluated point on one side"))
            return


def _r12(x):
    return int(x * 1e12 + 0.5) / 1e12


def check_reported_loss(l, o, errors):
    lo, hi = l.bounds
    missing = [b for b in (lo, hi) if b not in l.data and b not in l.pending_points]
    rep = o["loss_real"]
    vals = [v for _, v in o["los"]]
    if missing or not vals:
        if not math.isinf(rep):
            errors.append(("loss_is_max", f"loss()={rep!r} with missing end points / no interval"))
        return
    if any(math.isinf(v) or math.isnan(v) for v in vals):
        if not (math.isinf(rep) or math.isnan(rep)):
            errors.append(("F14 loss function returned inf but loss() reports a finite value (infinite losses are ranked by relative width)",
                           f"losses {vals} -> loss()={rep!r}"))
        return
    if rep not in vals or any(_r12(v) > _r12(rep) for v in vals):
        errors.append(("loss_is_max", f"loss()={rep!r} is not the largest of {vals} (to 1e-12)"))
