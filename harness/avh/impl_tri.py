"""Helpers shared by the C03 / C04 checks.

* ``Recorder``: records, from the harness process, the outcome of every
  geometric predicate the real ``Triangulation`` evaluates (the module-level
  ``orientation`` and the methods ``point_in_cicumcircle``,
  ``_simplex_is_almost_flat``, ``get_reduced_simplex``, ``locate_point``,
  ``point_in_simplex``), grouped per ``add_point`` call.  Nothing in /repo is
  edited; the class attributes are patched for the duration of a ``with``.
* exact geometry in ``fractions.Fraction`` written from the property text and
  from the *documented tolerances* of the code (eps = 1e-8, logdet < -50,
  relative volume < 1e-8), with the margin of every decision.
"""
from __future__ import annotations

import itertools
import math
from fractions import Fraction as Fr

EPS = Fr(1e-8)            # the double 1e-8, exactly
EXP_M50 = Fr(math.exp(-50))


# ---------------------------------------------------------------------------
# exact linear algebra (tiny sizes)
def det(M):
    n = len(M)
    if n == 1:
        return M[0][0]
    if n == 2:
        return M[0][0] * M[1][1] - M[0][1] * M[1][0]
    if n == 3:
        a, b, c = M[0]
        d, e, f = M[1]
        g, h, i = M[2]
        return a * (e * i - f * h) - b * (d * i - f * g) + c * (d * h - e * g)
    tot = 0
    for j in range(n):
        if M[0][j] == 0:
            continue
        minor = [row[:j] + row[j + 1:] for row in M[1:]]
        tot += (-1) ** j * M[0][j] * det(minor)
    return tot


def solve(A, b):
    """Exact solution of A x = b (Fractions); None if singular."""
    n = len(A)
    M = [list(map(Fr, A[i])) + [Fr(b[i])] for i in range(n)]
    for c in range(n):
        piv = next((r for r in range(c, n) if M[r][c] != 0), None)
        if piv is None:
            return None
        M[c], M[piv] = M[piv], M[c]
        inv = 1 / M[c][c]
        M[c] = [x * inv for x in M[c]]
        for r in range(n):
            if r != c and M[r][c] != 0:
                f = M[r][c]
                M[r] = [x - f * y for x, y in zip(M[r], M[c])]
    return [M[i][n] for i in range(n)]


def fr_point(p):
    return tuple(Fr(float(x)) for x in p)


def sub(a, b):
    return [x - y for x, y in zip(a, b)]


def dot(a, b):
    return sum(x * y for x, y in zip(a, b))


def simplex_det(pts):
    return det([sub(p, pts[0]) for p in pts[1:]])


def volume(pts):
    d = len(pts) - 1
    return abs(simplex_det(pts)) / math.factorial(d)


def apply_T(p, T):
    """row vector times matrix (numpy dot(points, transform))."""
    if T is None:
        return tuple(p)
    n = len(p)
    return tuple(sum(p[i] * T[i][j] for i in range(n)) for j in range(n))


def fr_matrix(T):
    if T is None:
        return None
    return [[Fr(float(x)) for x in row] for row in T]


def circumsphere(pts):
    """exact centre and squared radius, None for a degenerate simplex"""
    p0 = pts[0]
    A = [[2 * x for x in sub(p, p0)] for p in pts[1:]]
    b = [dot(p, p) - dot(p0, p0) for p in pts[1:]]
    c = solve(A, b)
    if c is None:
        return None
    return c, dot(sub(c, p0), sub(c, p0))


# ---------------------------------------------------------------------------
# the predicates of the code with its own tolerances; each returns
# (decision, margin) where a small margin means "not robust in floating point"
def shape_factor(pts):
    """max edge^d / (d! vol): 1 for nice simplices, huge for slivers (conditioning)"""
    d = len(pts) - 1
    L2 = max(dot(sub(a, b), sub(a, b)) for a, b in itertools.combinations(pts, 2))
    v = volume(pts)
    if v == 0:
        return math.inf
    return float(L2) ** (d / 2) / (math.factorial(d) * float(v))


def noise_scale(pts):
    """measured on 4000 circumsphere tests (dims 2-4, ratio <= 100): the relative floating-point error
    of dist/radius stays below 1.2e-15 * sqrt(shape_factor); margins are divided by this scale (x 100
    safety relative to the 1e-11 threshold used by the checks)"""
    sf = shape_factor(pts)
    return 1.0 + 1e-2 * math.sqrt(sf) if sf != math.inf else math.inf


def offset_scale(raw_pts):
    """coordinates far from the origin compared with the size of the simplex lose (offset/size) * 1e-16 in
    the products with the transform (and the square of that in the 4-D determinant formula)"""
    d = len(raw_pts[0])
    big = max(abs(x) for p in raw_pts for x in p)
    L2 = max(dot(sub(a, b), sub(a, b)) for a, b in itertools.combinations(raw_pts, 2))
    if L2 == 0:
        return math.inf
    r = float(big) / math.sqrt(float(L2))
    return 1.0 + 1e-2 * r + (1e-4 * r * r if d >= 4 else 0.0)


def x_in_circ(pt, simplex_pts, T, detail=False):
    pts = [apply_T(p, T) for p in simplex_pts]
    q = apply_T(pt, T)
    cs = circumsphere(pts)
    if cs is None:
        return (None, 0.0, False) if detail else (None, 0.0)
    c, r2 = cs
    d2 = dot(sub(c, q), sub(c, q))
    lim = r2 * (1 + EPS) ** 2
    if lim == 0:
        return (None, 0.0, False) if detail else (None, 0.0)
    margin = abs(float(d2 / lim) - 1.0) / (noise_scale(pts) * offset_scale(list(simplex_pts) + [pt]))
    if detail:
        return d2 < lim, margin, d2 > r2      # third: the point is strictly OUTSIDE the circumsphere
    return d2 < lim, margin


def x_orientation(face_pts, origin):
    M = [sub(p, origin) for p in face_pts]
    D = det(M)
    had = 1.0
    for row in M:
        had *= math.sqrt(float(dot(row, row))) or 1.0
    if D == 0:
        return 0, 0.0            # the float result is rounding noise: never robust
    if abs(D) < EXP_M50:
        return 0, abs(math.log(float(abs(D))) + 50.0)
    margin = float(abs(D)) / had
    return (1 if D > 0 else -1), margin


def x_flat(pts):
    d = len(pts) - 1
    vecs = [sub(p, pts[0]) for p in pts[1:]]
    avg = sum(abs(x) for row in vecs for x in row) / (d * d)
    if avg == 0:
        return None, 0.0
    rel = volume(pts) / avg ** d
    lim = Fr(1e-8)
    if rel == 0:
        return True, 1.0
    return rel < lim, abs(float(rel / lim) - 1.0)


def barycentric(pt, pts):
    x0 = pts[0]
    A = [[sub(p, x0)[i] for p in pts[1:]] for i in range(len(x0))]   # vectors.T
    return solve(A, sub(pt, x0))


def x_reduce(pt, simplex, pts):
    """get_reduced_simplex; margin = distance of the nearest barycentric
    coordinate to a decision threshold"""
    alpha = barycentric(pt, pts)
    if alpha is None:
        return None, 0.0
    s = sum(alpha)
    ths = [abs(a + EPS) for a in alpha] + [abs(a - EPS) for a in alpha] + [abs(s - 1 - EPS), abs(s - 1 + EPS)]
    margin = float(min(ths)) / noise_scale(pts)
    if any(a < -EPS for a in alpha) or s > 1 + EPS:
        return [], margin
    res = [i for i, a in enumerate(alpha, 1) if a > EPS]
    if s < 1 - EPS:
        res.insert(0, 0)
    return [simplex[i] for i in res], margin


def x_point_in_simplex(pt, pts):
    """module-level point_in_simplex (eps = 1e-8)"""
    alpha = barycentric(pt, pts)
    if alpha is None:
        return None, 0.0
    s = sum(alpha)
    margin = float(min([abs(a + EPS) for a in alpha] + [abs(s - 1 - EPS)])) / noise_scale(pts)
    return all(a > -EPS for a in alpha) and s < 1 + EPS, margin


# ---------------------------------------------------------------------------
# exact convex hull volume by a pulling triangulation (any dimension, any
# degeneracy).  Points are tuples of Fractions.
def _hyperplane(pts):
    """normal n and offset c (n.x = c) of the hyperplane through d points in R^d; None if degenerate"""
    d = len(pts[0])
    rows = [sub(p, pts[0]) for p in pts[1:]]            # (d-1) x d
    n = []
    for k in range(d):
        minor = [r[:k] + r[k + 1:] for r in rows]
        n.append((-1) ** k * (det(minor) if d > 1 else 1))
    if all(x == 0 for x in n):
        return None
    return n, dot(n, pts[0])


def pulling_triangulation(P, idx):
    """list of (d+1)-tuples of indices into P triangulating conv(P[idx]); P[idx] spans R^d"""
    d = len(P[idx[0]])
    if d == 1:
        lo = min(idx, key=lambda i: P[i][0])
        hi = max(idx, key=lambda i: P[i][0])
        return [(lo, hi)] if P[lo][0] != P[hi][0] else []
    facets = {}
    for comb in itertools.combinations(idx, d):
        hp = _hyperplane([P[i] for i in comb])
        if hp is None:
            continue
        n, c = hp
        side = [dot(n, P[i]) - c for i in idx]
        if all(s >= 0 for s in side) or all(s <= 0 for s in side):
            on = frozenset(i for i, s in zip(idx, side) if s == 0)
            if on not in facets:
                facets[on] = n
    if not facets:
        return []
    apex = idx[0]
    out = []
    for on, n in facets.items():
        if apex in on:
            continue
        k = next(j for j in range(d) if n[j] != 0)
        proj = {i: tuple(P[i][:k] + P[i][k + 1:]) for i in on}
        on_l = sorted(on)
        sub_tri = pulling_triangulation(proj, on_l)
        out += [tuple(s) + (apex,) for s in sub_tri]
    return out


def hull_volume(points):
    P = {i: tuple(p) for i, p in enumerate(points)}
    tri = pulling_triangulation(P, list(range(len(points))))
    return sum(volume([P[i] for i in s]) for s in tri)


def supporting_facets(points):
    """the supporting hyperplanes of conv(points) that hold a facet, by brute force over all d-subsets (exact; any
    degeneracy): list of (comb, n, c, inner) -- `comb` d point indices spanning the hyperplane n.x = c, and
    inner = +1 / -1 the sign of n.x - c on the side where the points are"""
    d = len(points[0])
    idx = range(len(points))
    seen = {}
    for comb in itertools.combinations(idx, d):
        hp = _hyperplane([points[i] for i in comb])
        if hp is None:
            continue
        n, c = hp
        side = [dot(n, points[i]) - c for i in idx]
        if all(s >= 0 for s in side):
            inner = 1
        elif all(s <= 0 for s in side):
            inner = -1
        else:
            continue
        on = frozenset(i for i, s in zip(idx, side) if s == 0)
        if on not in seen:
            seen[on] = (comb, n, c, inner)
    return list(seen.values())


def x_outside_hull(points, p):
    """Is p strictly outside conv(points)?  (outside, margin, comb): the margin is that of the orientation test of
    p against the facet hyperplane it is farthest beyond (|det| / product of the row norms, as x_orientation),
    `comb` the d points spanning that hyperplane.  Independent of the triangulation and of every recorded
    predicate: written from 'the convex hull of the points' only."""
    best = (False, 0.0, None)
    for comb, n, c, inner in supporting_facets(points):
        s = dot(n, p) - c
        if s * inner < 0:
            e, m = x_orientation([points[i] for i in comb], p)
            if e != 0 and m > best[1]:
                best = (True, m, comb)
    return best


def general_position(points, T):
    """no d+1 points on a hyperplane and no d+2 points on a sphere (in the metric)"""
    d = len(points[0])
    for comb in itertools.combinations(points, d + 1):
        if simplex_det(list(comb)) == 0:
            return False
    tp = [apply_T(p, T) for p in points]
    for comb in itertools.combinations(range(len(tp)), d + 1):
        cs = circumsphere([tp[i] for i in comb])
        if cs is None:
            return False
        c, r2 = cs
        for j in range(len(tp)):
            if j not in comb and dot(sub(c, tp[j]), sub(c, tp[j])) == r2:
                return False
    return True


# ---------------------------------------------------------------------------
class AddRec:
    """what one Triangulation.add_point call did"""

    def __init__(self, tri, point, hint, transform):
        self.tri, self.point, self.hint, self.transform = tri, tuple(point), hint, transform
        self.nverts_before = len(tri.vertices)
        self.locate = None          # result of locate_point if it ran
        self.reduce = None          # (simplex, result)
        self.circ = []              # (pt_index, simplex, result)
        self.flat = []              # (simplex, result)
        self.orient = []            # (face indices, o_inside, o_new, center point)
        self.result = None          # ('ok', deleted, added) | ('ValueError', msg) | ('error', type name)


class Recorder:
    """with Recorder() as rec: ...   rec.adds = list of AddRec in call order;
    rec.pis = list of (tri, point, simplex, result) for Triangulation.point_in_simplex calls
    outside add_point (LearnerND.tell_pending); rec.locs likewise for locate_point."""

    def __init__(self):
        self.adds, self.pis, self.locs = [], [], []
        self._stack = []
        self._hull = None

    def __enter__(self):
        import adaptive.learner.triangulation as M
        T = M.Triangulation
        self.M, self.T = M, T
        self.saved = {n: T.__dict__[n] for n in ("add_point", "point_in_cicumcircle", "_simplex_is_almost_flat",
                                                  "get_reduced_simplex", "locate_point", "_extend_hull",
                                                  "point_in_simplex")}
        self.saved_orientation = M.orientation
        rec = self
        sv = self.saved

        def add_point(tri, point, simplex=None, transform=None):
            r = AddRec(tri, point, simplex, transform)
            rec.adds.append(r)
            rec._stack.append(r)
            try:
                out = sv["add_point"](tri, point, simplex, transform)
                r.result = ("ok", set(out[0]), set(out[1]))
                return out
            except ValueError as e:
                r.result = ("ValueError", str(e))
                raise
            except Exception as e:
                r.result = ("error", type(e).__name__ + ": " + str(e)[:80])
                raise
            finally:
                rec._stack.pop()

        def point_in_cicumcircle(tri, pt_index, simplex, transform):
            res = sv["point_in_cicumcircle"](tri, pt_index, simplex, transform)
            if rec._stack and rec._stack[-1].tri is tri:
                rec._stack[-1].circ.append((pt_index, tuple(sorted(simplex)), bool(res)))
            return res

        def flat(tri, simplex):
            res = sv["_simplex_is_almost_flat"](tri, simplex)
            if rec._stack and rec._stack[-1].tri is tri:
                rec._stack[-1].flat.append((tuple(sorted(simplex)), bool(res)))
            return res

        def reduce_(tri, point, simplex, eps=1e-8):
            res = sv["get_reduced_simplex"](tri, point, simplex, eps)
            if rec._stack and rec._stack[-1].tri is tri:
                rec._stack[-1].reduce = (tuple(simplex), list(res))
            return res

        def locate(tri, point):
            res = sv["locate_point"](tri, point)
            if rec._stack and rec._stack[-1].tri is tri:
                rec._stack[-1].locate = tuple(res)
            else:
                rec.locs.append((tri, tuple(point), tuple(res)))
            return res

        def pis(tri, point, simplex, eps=1e-8):
            res = sv["point_in_simplex"](tri, point, simplex, eps)
            if not rec._stack:
                rec.pis.append((tri, tuple(point), tuple(simplex), bool(res)))
            return res

        def extend_hull(tri, new_vertex, eps=1e-8):
            # the hull facets in the order in which _extend_hull visits them (same Counter over the same,
            # unchanged set): vertex coordinates may be duplicated in a broken object, indices are not
            from collections import Counter
            try:
                mult = Counter(face for face in tri.faces())
                faces = [tuple(int(i) for i in f) for f, c in mult.items() if c == 1]
            except Exception:  # noqa: BLE001
                faces = []
            verts = [tuple(v) for v in tri.vertices]
            rec._hull = (faces, [])
            try:
                return sv["_extend_hull"](tri, new_vertex, eps)
            finally:
                faces, calls = rec._hull
                rec._hull = None
                if rec._stack and rec._stack[-1].tri is tri:
                    r = rec._stack[-1]
                    for k in range(0, len(calls) - 1, 2):
                        (f1, o1, v1), (f2, _o2, v2) = calls[k], calls[k + 1]
                        j = k // 2
                        face = faces[j] if j < len(faces) and tuple(verts[i] for i in faces[j]) == tuple(map(tuple, f1)) \
                            else tuple(None for _ in f1)
                        r.orient.append((face, tuple(o1), v1, v2, f1 == f2))

        def orientation(face, origin):
            res = rec.saved_orientation(face, origin)
            if rec._hull is not None:
                rec._hull[1].append((tuple(tuple(p) for p in face), tuple(float(x) for x in origin), float(res)))
            return res

        T.add_point = add_point
        T.point_in_cicumcircle = point_in_cicumcircle
        T._simplex_is_almost_flat = flat
        T.get_reduced_simplex = reduce_
        T.locate_point = locate
        T.point_in_simplex = pis
        T._extend_hull = extend_hull
        M.orientation = orientation
        return self

    def __exit__(self, *a):
        for n, f in self.saved.items():
            setattr(self.T, n, f)
        self.M.orientation = self.saved_orientation
        return False


# ---------------------------------------------------------------------------
def snapshot(tri):
    return (list(map(tuple, tri.vertices)), set(tri.simplices), [set(s) for s in tri.vertex_to_simplices])


def structure_errors(tri):
    """index consistency, facet multiplicity, every vertex used -- purely combinatorial part of the property"""
    errs = []
    n = len(tri.vertices)
    if len(tri.vertex_to_simplices) != n:
        errs.append(("index_consistent", f"{len(tri.vertex_to_simplices)} index entries for {n} vertices"))
    for v, ss in enumerate(tri.vertex_to_simplices):
        for s in ss:
            if s not in tri.simplices or v not in s:
                errs.append(("index_consistent", f"vertex_to_simplices[{v}] has {s}"))
    for s in tri.simplices:
        if tuple(sorted(s)) != tuple(s) or len(set(s)) != len(s):
            errs.append(("index_consistent", f"simplex {s} is not a sorted tuple of distinct vertices"))
        for v in s:
            if not (0 <= v < n) or v >= len(tri.vertex_to_simplices) or s not in tri.vertex_to_simplices[v]:
                errs.append(("index_consistent", f"simplex {s} missing from vertex_to_simplices[{v}]"))
    d = len(tri.vertices[0])
    cnt = {}
    for s in tri.simplices:
        for f in itertools.combinations(s, d):
            cnt[f] = cnt.get(f, 0) + 1
    bad = [f for f, c in cnt.items() if c > 2]
    if bad:
        errs.append(("facet_in_at_most_two", f"facet {bad[0]} belongs to {cnt[bad[0]]} simplices"))
    for v in range(min(n, len(tri.vertex_to_simplices))):
        if not tri.vertex_to_simplices[v]:
            errs.append(("every_point_a_vertex", f"vertex {v} {tri.vertices[v]} belongs to no simplex"))
    return errs


def tiling_errors(tri, sliver_allowance=Fr(0), check_volume=True):
    """volumes add up to the hull volume (exact), no degenerate overlap"""
    errs = []
    P = [fr_point(p) for p in tri.vertices]
    vols = {s: volume([P[i] for i in s]) for s in tri.simplices}
    flat = [s for s, v in vols.items() if v == 0]
    if flat:
        errs.append(("degenerate_simplex", f"simplex {tuple(int(i) for i in flat[0])} has zero volume"))
    if check_volume:
        hv = hull_volume(P)
        tot = sum(vols.values())
        tol = sliver_allowance + hv * Fr(1, 10 ** 12)
        if abs(tot - hv) > tol:
            errs.append(("volumes_sum_to_hull",
                         f"sum of simplex volumes {float(tot)!r} != hull volume {float(hv)!r} "
                         f"(allowed {float(tol):.3g})"))
    return errs


def delaunay_errors(tri, T, rel=1e-6):
    """no vertex strictly inside a circumsphere (metric T) by more than `rel`"""
    errs = []
    P = [apply_T(fr_point(p), T) for p in tri.vertices]
    for s in tri.simplices:
        cs = circumsphere([P[i] for i in s])
        if cs is None:
            continue
        c, r2 = cs
        for j in range(len(P)):
            if j in s:
                continue
            d2 = dot(sub(c, P[j]), sub(c, P[j]))
            if d2 < r2 * (1 - Fr(rel)) ** 2:
                errs.append(("delaunay", f"vertex {j} lies inside the circumsphere of {s} "
                                         f"(dist/radius = {math.sqrt(float(d2 / r2)):.9f})"))
                return errs
    return errs
