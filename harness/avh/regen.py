"""Regenerate coq/gen/*.v from /repo's current working tree (write-if-changed).
Property modules that own a translator register it here."""
from __future__ import annotations

import importlib
import sys

TRANSLATORS: list[str] = ["avh.trace"]   # module names exposing regenerate() -> list of paths


def regenerate_all():
    out = []
    for name in TRANSLATORS:
        out += importlib.import_module(name).regenerate()
    return out


if __name__ == "__main__":
    regenerate_all()
    sys.exit(0)
