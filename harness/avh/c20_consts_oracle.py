"""Search / oracle for the quadrature constants of
$ADAPTIVE_REPO/adaptive/learner/integrator_coeffs.py (properties C08 / C20).

Written from the property text, independent of the Coq side: everything is
recomputed here with fractions.Fraction / decimal from textbook formulas
(explicit Legendre sum, product over the Clenshaw-Curtis nodes, integrals of
monomials) and compared with what the REAL module returns.  When a constant is
wrong the search names the concrete entry:

    chk.fail("C08consts:T_left[i=3,j=5]", "T_left[3][5] = ... expected ...", {...})

Entry points
    search(chk)            run all groups on the real module
    regen_and_targets()    regenerate coq/gen/Consts.v, return the .vo targets
    THEOREMS               axiom-free theorems of Props/C08consts.v  (for chk.prove)
    THEOREMS_REALS         the one theorem that uses the stdlib Reals axioms
"""
from __future__ import annotations

import math
from decimal import Decimal, getcontext
from fractions import Fraction as F

from . import trace_consts

NS = (5, 9, 17, 33)
TOL = 1e-9
MAX_REPORT = 3          # failing entries reported per group

_M = "Props.C08consts"
THEOREMS = {
    "C08_nodes_nested_antisymmetric": _M,
    "C08_legendre_bonnet_34": _M,
    "C08_legendre_orthogonal_34": _M,
    "C08_newton_exact": _M,
    "C08_V_Vinv_close": _M,
    "C08_V_is_legendre_basis": _M,
    "C08_T_close": _M,
    "C08_T_expansion_pointwise": _M,
    "C08_scalars_alpha_gamma": _M,
    "C08_poly_ops_sound": _M,
}
THEOREMS_REALS = {"C08_close_to_sqrt_sound": _M}
REALS_AXIOMS = frozenset({
    "ClassicalDedekindReals.sig_forall_dec",
    "ClassicalDedekindReals.sig_not_dec",
    "FunctionalExtensionality.functional_extensionality_dep",
    # core.Check.prove's parser also picks up the header line "Axioms:" of a
    # Print Assumptions block as if it were a name; tolerate it here
    "Axioms",
})
VO_TARGETS = ["theories/Props/C08consts.vo"]


def regen_and_targets():
    """Regenerate gen/Consts.v from the repo under test (write-if-changed;
    raises trace_consts.TraceConstsError when the export is impossible) and
    return the vo targets whose cone contains the constant theorems."""
    trace_consts.regenerate()
    return list(VO_TARGETS)


# ---------------------------------------------------------------------------
# textbook polynomial arithmetic over Fractions (coefficient lists, low first)
def p_add(a, b):
    n = max(len(a), len(b))
    return [(a[i] if i < len(a) else 0) + (b[i] if i < len(b) else 0) for i in range(n)]


def p_mul(a, b):
    if not a or not b:
        return []
    r = [F(0)] * (len(a) + len(b) - 1)
    for i, x in enumerate(a):
        if x:
            for j, y in enumerate(b):
                r[i + j] += x * y
    return r


def p_scale(c, a):
    return [c * x for x in a]


def p_eval(a, x):
    r = F(0)
    for c in reversed(a):
        r = r * x + c
    return r


def p_int(a):
    """int_{-1}^{1} a(x) dx"""
    return sum((F(2, k + 1) * c for k, c in enumerate(a) if k % 2 == 0), F(0))


def p_compose_affine(a, c0, c1):
    """a(c0 + c1 x)"""
    r = []
    for c in reversed(a):
        r = p_add(p_mul(r, [c0, c1]), [c])
    return r


def p_trim(a):
    a = list(a)
    while a and a[-1] == 0:
        a.pop()
    return a


def legendre_explicit(n):
    """P_n(x) = 2^-n sum_k (-1)^k C(n,k) C(2n-2k,n) x^(n-2k)  (not the recursion)."""
    c = [F(0)] * (n + 1)
    for k in range(n // 2 + 1):
        c[n - 2 * k] = F((-1) ** k * math.comb(n, k) * math.comb(2 * n - 2 * k, n), 2 ** n)
    return c


_PI = Decimal("3.14159265358979323846264338327950288419716939937510582097494459230781640628620899862803482534211706798")


def dec_cos(x: Decimal) -> Decimal:
    getcontext().prec = 90
    x = x % (2 * _PI)
    term, s, k = Decimal(1), Decimal(1), 0
    x2 = x * x
    while abs(term) > Decimal(10) ** -85:
        k += 2
        term = -term * x2 / (k * (k - 1))
        s += term
    return s


# ---------------------------------------------------------------------------
class _Group:
    def __init__(self, chk, name, counts):
        self.chk, self.name, self.counts = chk, name, counts
        self.n = 0
        self.bad = 0

    def check(self, ok: bool, sig: str, what: str, replay: dict | None = None):
        self.n += 1
        if not ok:
            self.bad += 1
            if self.bad <= MAX_REPORT:
                self.chk.fail("C08consts:" + sig, what, dict(replay or {}, group=self.name, entry=sig))

    def done(self):
        self.counts[self.name] = {"entries": self.n, "failing": self.bad}
        self.chk.note_case(("C08consts", self.name, self.n), nontrivial=self.n > 0)


def _guard(chk, name, fn, counts):
    g = _Group(chk, name, counts)
    try:
        fn(g)
    except Exception as e:  # noqa: BLE001 - a constant of the wrong shape/type is a failing input too
        g.check(False, f"{name}:exception", f"checking {name} raised {type(e).__name__}: {e}", {"exception": repr(e)})
    g.done()


def search(chk):
    """Check every constant group on the real module; report concrete failing
    entries through chk.fail.  Returns the per-group counts."""
    counts: dict = {}
    try:
        m = trace_consts.load_module()
    except trace_consts.TraceConstsError as e:
        chk.broke("translator", "integrator_coeffs cannot be loaded from the repo under test", str(e))
        return counts

    def val(name):
        return getattr(m, name)

    # independent references -------------------------------------------------
    LEG = [legendre_explicit(k) for k in range(34)]

    # ---- nodes --------------------------------------------------------------
    def nodes(g):
        ns, xi = tuple(val("ns")), val("xi")
        g.check(ns == NS, "ns", f"ns = {ns!r}, expected {NS!r}")
        for d, n in enumerate(NS):
            x = [float(v) for v in xi[d]]
            g.check(len(x) == n, f"xi[d={d}].len", f"len(xi[{d}]) = {len(x)}, expected {n}")
            for i in range(min(n, len(x))):
                g.check(x[i] == -x[n - 1 - i], f"xi[d={d},i={i}]:antisymmetric",
                        f"xi[{d}][{i}] = {x[i]!r} but -xi[{d}][{n - 1 - i}] = {-x[n - 1 - i]!r}", {"d": d, "i": i})
                ref = float(-dec_cos(_PI * i / (n - 1)))
                g.check(abs(x[i] - ref) <= 4e-16, f"xi[d={d},i={i}]:value",
                        f"xi[{d}][{i}] = {x[i]!r}, expected -cos({i} pi/{n - 1}) = {ref!r}", {"d": d, "i": i})
                if i + 1 < len(x):
                    g.check(x[i] < x[i + 1], f"xi[d={d},i={i}]:increasing",
                            f"xi[{d}][{i}] = {x[i]!r} >= xi[{d}][{i + 1}] = {x[i + 1]!r}", {"d": d, "i": i})
                if d < 3:
                    y = float(xi[d + 1][2 * i])
                    g.check(x[i] == y, f"xi[d={d},i={i}]:nested",
                            f"xi[{d}][{i}] = {x[i]!r} differs from xi[{d + 1}][{2 * i}] = {y!r}", {"d": d, "i": i})
            g.check(x[n // 2] == 0.0, f"xi[d={d}]:middle", f"xi[{d}][{n // 2}] = {x[n // 2]!r}, expected 0")
            g.check(x[0] == -1.0 and x[-1] == 1.0, f"xi[d={d}]:ends", f"xi[{d}] ends = {x[0]!r}, {x[-1]!r}, expected -1, 1")
    _guard(chk, "nodes", nodes, counts)

    # ---- legendre -----------------------------------------------------------
    def legendre(g):
        L = val("legendre")(34)
        g.check(len(L) == 34, "legendre.len", f"len(legendre(34)) = {len(L)}")
        for k in range(min(34, len(L))):
            p = [F(c) for c in L[k]]
            g.check(len(p) == k + 1 and p == LEG[k], f"legendre[k={k}]:explicit",
                    f"legendre(34)[{k}] differs from the explicit formula for P_{k}: first differing coefficient "
                    + next((f"x^{i}: got {a}, expected {b}" for i, (a, b) in enumerate(zip(p, LEG[k])) if a != b), "length"),
                    {"k": k})
            if k >= 2:
                lhs = p_scale(F(k), p)
                rhs = p_add(p_scale(F(2 * k - 1), [F(0)] + [F(c) for c in L[k - 1]]),
                            p_scale(F(-(k - 1)), [F(c) for c in L[k - 2]]))
                g.check(p_trim(lhs) == p_trim(rhs), f"legendre[k={k}]:bonnet",
                        f"{k} P_{k} != {2 * k - 1} x P_{k - 1} - {k - 1} P_{k - 2} for the returned polynomials", {"k": k})
        for a in range(min(34, len(L))):
            for b in range(a + 1):
                got = p_int(p_mul([F(c) for c in L[a]], [F(c) for c in L[b]]))
                exp = F(2, 2 * a + 1) if a == b else F(0)
                g.check(got == exp, f"legendre[n={a},m={b}]:orthogonal",
                        f"int P_{a} P_{b} = {got}, expected {exp}", {"n": a, "m": b})
    _guard(chk, "legendre", legendre, counts)

    # ---- newton -------------------------------------------------------------
    def newton(g):
        getcontext().prec = 90
        for n in NS:
            c = [float(v) for v in val("newton")(n)]
            g.check(len(c) == n + 1, f"newton[n={n}].len", f"len(newton({n})) = {len(c)}, expected {n + 1}")
            # explicit product over the nodes, 90 digits
            prod = [Decimal(1)]
            for i in range(n):
                xi_ = -dec_cos(_PI * i / (n - 1))
                new = [Decimal(0)] * (len(prod) + 1)
                for k, a in enumerate(prod):
                    new[k + 1] += a
                    new[k] -= xi_ * a
                prod = new
            # Chebyshev form, exact
            u0, u1 = [F(1)], [F(0), F(2)]
            for _ in range(n - 3):
                u0, u1 = u1, p_add(p_mul([F(0), F(2)], u1), p_scale(F(-1), u0))
            cheb = p_scale(F(1, 2 ** (n - 2)), p_mul([F(-1), F(0), F(1)], u1 if n > 2 else u0))
            for k in range(min(n + 1, len(c))):
                ref = float(prod[k])
                ok = abs(Decimal(c[k]) - prod[k]) <= Decimal(10) ** -25 and F(c[k]) == cheb[k]
                g.check(ok, f"newton[n={n},k={k}]",
                        f"newton({n})[{k}] = {c[k]!r}, expected coefficient of x^{k} in prod_i (x + cos(i pi/{n - 1})) = {ref!r}"
                        f" (= {cheb[k]})", {"n": n, "k": k, "got": repr(c[k]), "expected": str(cheb[k])})
    _guard(chk, "newton", newton, counts)

    # ---- V, V_inv -----------------------------------------------------------
    def vmat(g):
        V, Vi, xi = val("V"), val("V_inv"), val("xi")
        for d, n in enumerate(NS):
            A = [[F(float(v)) for v in row] for row in V[d]]
            B = [[F(float(v)) for v in row] for row in Vi[d]]
            g.check(len(A) == n and all(len(r) == n for r in A), f"V[d={d}].shape", f"V[{d}] is not {n}x{n}")
            g.check(len(B) == n and all(len(r) == n for r in B), f"V_inv[d={d}].shape", f"V_inv[{d}] is not {n}x{n}")
            Bt = list(zip(*B))
            for i in range(n):
                for j in range(n):
                    e = float(sum(a * b for a, b in zip(A[i], Bt[j])) - (1 if i == j else 0))
                    g.check(abs(e) <= TOL, f"V.V_inv[d={d},i={i},j={j}]",
                            f"(V[{d}] V_inv[{d}] - I)[{i}][{j}] = {e!r}, expected |.| <= {TOL:g}", {"d": d, "i": i, "j": j})
                    x = F(float(xi[d][i]))
                    exp = math.sqrt(j + 0.5) * float(p_eval(LEG[j], x))
                    got = float(V[d][i][j])
                    g.check(abs(got - exp) <= TOL, f"V[d={d},i={i},j={j}]",
                            f"V[{d}][{i}][{j}] = {got!r}, expected sqrt({j}+1/2) P_{j}(x_{i}) = {exp!r}",
                            {"d": d, "i": i, "j": j, "got": repr(got), "expected": repr(exp)})
    _guard(chk, "V", vmat, counts)

    # ---- T_left, T_right ----------------------------------------------------
    def tmat(g):
        for name, a in (("T_left", -1), ("T_right", 1)):
            T = val(name)
            g.check(getattr(T, "shape", None) == (33, 33), f"{name}.shape", f"{name}.shape = {getattr(T, 'shape', None)!r}")
            for j in range(33):
                pj = p_compose_affine(LEG[j], F(a, 2), F(1, 2))       # P_j((x + a)/2)
                for i in range(33):
                    r = p_int(p_mul(LEG[i], pj))                       # int P_i(x) P_j((x+a)/2) dx
                    exp = math.sqrt((2 * i + 1) * (2 * j + 1)) / 2 * float(r)
                    got = float(T[i][j])
                    g.check(abs(got - exp) <= TOL, f"{name}[i={i},j={j}]",
                            f"{name}[{i}][{j}] = {got!r}, expected sqrt((2*{i}+1)(2*{j}+1))/2 * int P_{i}(x) P_{j}((x{a:+d})/2) dx = {exp!r}",
                            {"i": i, "j": j, "got": repr(got), "expected": repr(exp)})
    _guard(chk, "T", tmat, counts)

    # ---- b_def --------------------------------------------------------------
    def bdef(g):
        b = val("b_def")
        for d, n in enumerate(NS):
            u0, u1 = [F(1)], [F(0), F(2)]
            for _ in range(n - 3):
                u0, u1 = u1, p_add(p_mul([F(0), F(2)], u1), p_scale(F(-1), u0))
            nw = p_scale(F(1, 2 ** (n - 2)), p_mul([F(-1), F(0), F(1)], u1))
            exp = [math.sqrt((2 * k + 1) / 2) * float(p_int(p_mul(nw, LEG[k]))) for k in range(n + 1)]
            scale = max(abs(e) for e in exp)
            g.check(len(b[d]) == n + 1, f"b_def[d={d}].len", f"len(b_def[{d}]) = {len(b[d])}, expected {n + 1}")
            for k in range(min(n + 1, len(b[d]))):
                got = float(b[d][k])
                ok = abs(got - exp[k]) <= TOL * max(abs(exp[k]), 1e-6 * scale)
                g.check(ok, f"b_def[d={d},k={k}]",
                        f"b_def[{d}][{k}] = {got!r}, expected sqrt((2*{k}+1)/2) int newton_{n} P_{k} = {exp[k]!r}",
                        {"d": d, "k": k, "got": repr(got), "expected": repr(exp[k])})
    _guard(chk, "b_def", bdef, counts)

    # ---- scalars, alpha, gamma, Vcond --------------------------------------
    def scalars(g):
        eps, min_sep, hint, nd = val("eps"), val("min_sep"), val("hint"), val("ndiv_max")
        g.check(float(eps) == 2.0 ** -52, "eps", f"eps = {float(eps)!r}, expected 2^-52")
        g.check(float(min_sep) == 16 * 2.0 ** -52, "min_sep", f"min_sep = {float(min_sep)!r}, expected 16 * 2^-52")
        g.check(float(hint) == 0.1, "hint", f"hint = {float(hint)!r}, expected 0.1")
        g.check(type(nd) is int and nd == 20, "ndiv_max", f"ndiv_max = {nd!r}, expected 20")
        al, ga = val("alpha"), val("gamma")
        g.check(len(al) == 33 and len(ga) == 33, "alpha_gamma.len", f"len(alpha), len(gamma) = {len(al)}, {len(ga)}")
        for k in range(33):
            ea = math.sqrt(F((k + 1) ** 2, (2 * k + 1) * (2 * k + 3)))
            eg = 0.0 if k < 2 else math.sqrt(F(k * k, 4 * k * k - 1))
            g.check(abs(float(al[k]) - ea) <= 1e-14, f"alpha[k={k}]",
                    f"alpha[{k}] = {float(al[k])!r}, expected sqrt((k+1)^2/((2k+1)(2k+3))) = {ea!r}", {"k": k})
            g.check(abs(float(ga[k]) - eg) <= 1e-14, f"gamma[k={k}]",
                    f"gamma[{k}] = {float(ga[k])!r}, expected {eg!r}", {"k": k})
        import numpy as np
        Vc, V = val("Vcond"), val("V")
        for d in range(4):
            sv = np.linalg.svd(np.asarray(V[d], float), compute_uv=False)
            exp = float(sv[0] / sv[-1])
            g.check(abs(float(Vc[d]) - exp) <= 1e-6 * exp, f"Vcond[d={d}]",
                    f"Vcond[{d}] = {float(Vc[d])!r}, expected the 2-norm condition number of V[{d}] = {exp!r}", {"d": d})
    _guard(chk, "scalars", scalars, counts)

    # ---- the translator's export agrees with a direct read ------------------
    try:
        ex = trace_consts.export()
        direct_ok = (
            ex["ns"] == list(NS)
            and all(ex["xi"][d][i] == F(float(val("xi")[d][i])) for d, n in enumerate(NS) for i in range(n))
            and all(ex["T_left"][i][j] == F(float(val("T_left")[i][j])) for i in range(33) for j in range(33))
            and all(ex["T_right"][i][j] == F(float(val("T_right")[i][j])) for i in range(33) for j in range(33))
            and ex["legendre34"] == [[F(c) for c in p] for p in val("legendre")(34)]
        )
        if not direct_ok:
            chk.broke("translator", "trace_consts.export() differs from the module's values", "export mismatch")
    except trace_consts.TraceConstsError as e:
        chk.broke("translator", "gen/Consts.v cannot be generated from the repo under test", str(e))

    chk.extra["consts"] = counts
    return counts
