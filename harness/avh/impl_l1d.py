"""Driver for the real Learner1D: recording loss function, history generation,
observation and Gallina printers (shared by C01, C02, C09-C13)."""
from __future__ import annotations

import math

import numpy as np

from . import coqio as C

PREAMBLE = """From Coq Require Import ZArith PrimFloat List. Import ListNotations.
From AV Require Import Base.Prelude Base.FloatUtil Model.L1D Run.L1DRun.
Open Scope nat_scope."""


# ---------------------------------------------------------------- functions
def f_smooth(x):
    return math.sin(3 * x) + 0.3 * x


def f_step(x):
    return 0.0 if x < 0.3 else 1.0


def f_peak(x):
    return x + 0.01 ** 2 / (0.01 ** 2 + (x - 0.1) ** 2)


def f_grow(x):
    return 10.0 ** (12 * x)


def f_const(x):
    return 2.5


def f_vec(x):
    return np.array([math.sin(5 * x), 20 * x * x])


def f_vec_step(x):
    return np.array([1.0 if x > 0.2 else -1.0, x, 3.0])


def f_neg(x):
    return -1000.0 * abs(x) + (5.0 if x > 0.5 else 0.0)


FUNCS = {"smooth": f_smooth, "step": f_step, "peak": f_peak, "grow": f_grow, "const": f_const,
         "vec": f_vec, "vec_step": f_vec_step, "neg": f_neg}
BOUNDS = [(-1.0, 1.0), (0.0, 1.0), (-3.0, 7.5), (0.125, 1024.0), (-1e-3, 2e-3)]
LOSSES = ["default", "uniform", "triangle", "curvature", "resolution", "abs_min_log"]


def make_loss(name):
    from adaptive.learner import learner1D as m
    if name == "default":
        return m.default_loss
    if name == "uniform":
        return m.uniform_loss
    if name == "triangle":
        return m.triangle_loss
    if name == "curvature":
        return m.curvature_loss_function()
    if name == "resolution":
        return m.resolution_loss_function(min_length=0.01, max_length=1.0)
    if name == "resolution_max":
        return m.resolution_loss_function(min_length=0.0, max_length=0.3)
    if name == "abs_min_log":
        return m.abs_min_log_loss
    raise ValueError(name)


class Recorder:
    """Wraps a loss_per_interval; records every (args -> result)."""

    def __init__(self, f):
        self.f = f
        self.nth_neighbors = getattr(f, "nth_neighbors", 0)
        self.calls = []
        self.on = True

    def __call__(self, xs, ys):
        r = self.f(xs, ys)
        if self.on:
            self.calls.append((tuple(xs), tuple(_ycopy(y) for y in ys), float(r)))
        return r


def _ycopy(y):
    if y is None:
        return None
    if isinstance(y, np.ndarray) and y.ndim >= 1:
        return tuple(float(v) for v in y)
    return float(y)


def fun_of(cfg):
    """The learnt function: a shape on [0,1] transported to the bounds."""
    lo, hi = cfg["bounds"]
    g = FUNCS[cfg["func"]]
    return lambda x: g((x - lo) / (hi - lo))


def make_learner(cfg):
    from adaptive import Learner1D
    rec = Recorder(make_loss(cfg["loss"]))
    l = Learner1D(fun_of(cfg), tuple(cfg["bounds"]), loss_per_interval=rec)
    l._recompute_losses_factor = cfg.get("factor", 2)
    return l, rec


# ---------------------------------------------------------------- printers
def y_term(y):
    if isinstance(y, (tuple, list, np.ndarray)):
        return C.app("YV", C.lst(C.flt(v) for v in y))
    return C.app("YS", C.flt(y))


def params_term(l):
    return C.app("mkparams", C.flt(l.bounds[0]), C.flt(l.bounds[1]), C.flt(float(l._dx_eps)),
                 C.nat(l.nth_neighbors), C.flt(float(l._recompute_losses_factor)))


def table_term(calls):
    seen, items = set(), []
    for xs, ys, r in calls:
        key = (xs, ys)
        if key in seen:
            continue
        seen.add(key)
        items.append(C.pair(C.pair(C.lst(C.opt(x, C.flt) for x in xs), C.lst(C.opt(y, y_term) for y in ys)), C.flt(r)))
    return C.lst(items, sep=";\n   ")


def obs_of(l):
    def yv(y):
        return _ycopy(np.asarray(y) if isinstance(y, (list, tuple)) else y)
    return {
        "data": sorted(((float(x), yv(y)) for x, y in l.data.items()), key=lambda t: t[0]),
        "pend": sorted(float(x) for x in l.pending_points),
        "los": sorted(((float(a), float(b)), float(v)) for (a, b), v in l.losses.items()),
        "losc": sorted(((float(a), float(b)), float(v)) for (a, b), v in l.losses_combined.items()),
        "loss_real": float(l.loss(real=True)),
        "loss_exp": float(l.loss(real=False)),
    }


def obs_term(o):
    iv = lambda e: C.pair(C.pair(C.flt(e[0][0]), C.flt(e[0][1])), C.flt(e[1]))
    return C.app("mkobs",
                 C.lst(C.pair(C.flt(x), y_term(y)) for x, y in o["data"]),
                 C.lst(C.flt(x) for x in o["pend"]),
                 C.lst(iv(e) for e in o["los"]), C.lst(iv(e) for e in o["losc"]),
                 C.flt(o["loss_real"]), C.flt(o["loss_exp"]))


def op_term(op):
    k = op[0]
    if k == "tell":
        return C.app("Tell", C.flt(op[1]), y_term(op[2]))
    if k == "tell_pending":
        return C.app("TellPending", C.flt(op[1]))
    if k == "tell_many":
        return C.app("TellMany", C.lst(C.pair(C.flt(x), y_term(y)) for x, y in op[1]), C.bool_(op[2]))
    if k == "remove_unfinished":
        return "RemoveUnfinished"
    if k == "ask":
        return C.app("Ask", C.nat(op[1]), C.bool_(op[2]))
    raise ValueError(k)


def out_term(out):
    return C.pair(C.lst(C.flt(x) for x in out[0]), C.lst(C.flt(x) for x in out[1]))


def case_term(l, rec, steps):
    body = C.lst((C.tup(op_term(op), out_term(out), C.opt(o, obs_term)) for op, out, o in steps), sep=";\n   ")
    return C.app("mkcase", params_term(l), table_term(rec.calls), body)


# ---------------------------------------------------------------- history generation
def yval(cfg, x):
    y = fun_of(cfg)(x)
    return tuple(float(v) for v in y) if isinstance(y, np.ndarray) else float(y)


def to_impl_y(y):
    return np.array(y) if isinstance(y, tuple) else y


def apply_op(l, op):
    """Execute one concrete op on the real learner; returns the ask output."""
    k = op[0]
    if k == "tell":
        l.tell(op[1], to_impl_y(op[2]))
    elif k == "tell_pending":
        l.tell_pending(op[1])
    elif k == "tell_many":
        xs = [x for x, _ in op[1]]
        ys = [to_impl_y(y) for _, y in op[1]]
        l.tell_many(xs, ys, force=op[2])
    elif k == "remove_unfinished":
        l.remove_unfinished()
    elif k == "ask":
        pts, imps = l.ask(op[1], tell_pending=op[2])
        return [float(p) for p in pts], [float(i) for i in imps]
    return [], []


def rand_point(rng, l):
    lo, hi = l.bounds
    r = rng.random()
    if r < 0.5:
        return lo + (hi - lo) * rng.randint(0, 64) / 64.0
    return rng.uniform(lo, hi)


def bounds_covered(l):
    return all(b in l.data or b in l.pending_points for b in l.bounds)


def gen_next_op(rng, l, cfg, weights=None):
    """Choose the next legal op given the current state of the real learner."""
    pend = sorted(l.pending_points)
    r = rng.random()
    if r < 0.22:
        return ("ask", rng.choice([0, 1, 1, 2, 2, 3, 4, 5, 8, 13]), rng.random() < 0.7)
    if r < 0.62:
        if pend and rng.random() < 0.8:
            x = rng.choice(pend)
        elif l.data and rng.random() < 0.15:
            x = rng.choice(list(l.data))          # re-tell of a known point (ignored by tell)
            y = yval(cfg, x)
            return ("tell", float(x), (tuple(v + 1 for v in y) if isinstance(y, tuple) else y + 1.0))
        else:
            x = rand_point(rng, l)
        return ("tell", float(x), yval(cfg, x))
    if r < 0.74:
        x = rand_point(rng, l)
        if x in l.data:
            x = rand_point(rng, l)
        return ("tell_pending", float(x))
    if r < 0.86:
        k = rng.randint(1, 6)
        xs = []
        for _ in range(k):
            x = rng.choice(pend) if pend and rng.random() < 0.6 else rand_point(rng, l)
            if x not in xs:
                xs.append(float(x))
        force = rng.random() < 0.4
        batch = force or (len(xs) > 0.5 * len(l.data) and len(xs) > 2)
        if batch:
            # legal only once both end points are known or pending (after the batch)
            covered = all(b in l.data or b in l.pending_points or b in xs for b in l.bounds)
            if not covered:
                return ("tell", xs[0], yval(cfg, xs[0]))
        return ("tell_many", [(x, yval(cfg, x)) for x in xs], force)
    return ("remove_unfinished",)


def drive(cfg, rng, nops, ops=None, observe_every=True):
    """Run a history on the real learner.  Returns (learner, recorder, steps)."""
    l, rec = make_learner(cfg)
    steps = []
    it = ops if ops is not None else range(nops)
    for item in it:
        op = tuple(item) if ops is not None else gen_next_op(rng, l, cfg)
        if op[0] == "tell_many":
            op = ("tell_many", [(float(x), tuple(y) if isinstance(y, (list, tuple)) else y) for x, y in op[1]], bool(op[2]))
        elif op[0] == "tell" and isinstance(op[2], list):
            op = ("tell", op[1], tuple(op[2]))
        out = apply_op(l, op)
        rec.on = False
        o = obs_of(l) if observe_every else None
        rec.on = True
        steps.append((op, out, o))
    return l, rec, steps


def norm_op(item):
    """JSON round-tripped op -> canonical tuple form."""
    op = tuple(item)
    if op[0] == "tell_many":
        return ("tell_many", [(float(x), tuple(y) if isinstance(y, (list, tuple)) else y) for x, y in op[1]], bool(op[2]))
    if op[0] == "tell":
        return ("tell", float(op[1]), tuple(op[2]) if isinstance(op[2], (list, tuple)) else op[2])
    if op[0] == "ask":
        return ("ask", int(op[1]), bool(op[2]))
    if op[0] == "tell_pending":
        return ("tell_pending", float(op[1]))
    return op


def op_json(op):
    if op[0] == "tell_many":
        return ["tell_many", [[x, list(y) if isinstance(y, tuple) else y] for x, y in op[1]], op[2]]
    if op[0] == "tell":
        return ["tell", op[1], list(op[2]) if isinstance(op[2], tuple) else op[2]]
    return list(op)
