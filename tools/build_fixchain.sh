#!/bin/bash
# Rebuilds /var/tmp/fixchain = /repo HEAD + every accepted fix as a separate "fix:" commit.
set -e
rm -rf /var/tmp/fixchain; git clone -q /repo /var/tmp/fixchain; cd /var/tmp/fixchain
git config user.email builder@example.com; git config user.name builder
ap() { f=$1; shift; if git apply /verif/fixes/$f 2>/tmp/ap.err; then git add -A; git commit -q -m "$*"; echo "OK  $f"; else echo "FAIL $f: $(tail -2 /tmp/ap.err)"; git reset -q --hard; exit 1; fi; }
ap F2_balancing_caches.patch "fix: BalancingLearner: invalidate the cached pending loss in tell_pending and all caches in remove_unfinished

tell_pending popped _loss but not _pending_loss, and remove_unfinished
invalidated nothing, so loss(real=False) and the 'loss' / 'loss_improvements'
strategies used stale values."
ap F11_average_loss.patch "fix: AverageLearner.loss(real=False) with pending points and no data returns inf instead of raising ZeroDivisionError"
ap F21_average1d_batch_known_seed.patch "fix: AverageLearner1D.tell_many_at_point ignores seeds already told at x (as tell does) instead of overwriting and double counting them"
ap F23_avg1d_tell_many_pending.patch "fix: AverageLearner1D.tell_many_at_point discards the told samples from pending_points (as tell does)"
ap F19_avg1d_undersampled_order.patch "fix: AverageLearner1D.ask resamples the smallest undersampled abscissa instead of an arbitrary set element

The choice depended on the iteration order of a set, which a snapshot/restore
of the learner does not preserve."
ap F5_learnernd_remove_unfinished.patch "fix: LearnerND.remove_unfinished re-queues the simplices that were subdivided by pending points

Their queue entries were popped when they were subdivided; after dropping the
sub-triangulations the next ask raised 'Could not find a simplex to subdivide'."
ap F9d_lnd_update_losses_order.patch "fix: LearnerND._update_losses re-adds pending points in insertion order, not set (float-hash) order"
ap F12b_learnernd_pending_on_shared_face.patch "fix: LearnerND._update_losses offers every pending point to the new simplices

A pending point on a face shared by a new and a surviving simplex was only
registered in the survivor, so the new simplex suggested the same point again
and ask raised 'Point already in triangulation'. Registering a pending point
in a simplex is now idempotent (the lazily created triangulation may already
have offered it)."
ap F9a_lnd_update_range.patch "fix: LearnerND._update_range compares scales relatively from the first value on

_old_scale = scale or 1 made the recompute test absolute after a first constant
value, so the recompute schedule depended on the unit of the values."
ap F1_integrator_priority_split.patch "fix: IntegratorLearner keeps the forced-split queue inside the live intervals

An interval could be queued twice (two depths completing in one tell), queued
after it had been removed, or removed while queued, leading to
'assert not ival.children', 'assert ival in self.ivals' and KeyError in
_fill_stack under out-of-order delivery."
ap C20-F7-choose_point_in_triangle.patch "fix: learner2D.choose_point_in_triangle: explicit 2-D cross product (np.cross of 2-vectors was removed in numpy 2)"
ap C20-F7b-deviations-import.patch "fix: learner2D.deviations: fall back to scipy.interpolate._interpnd when the public alias lost estimate_gradients_2d_global"
ap C20-F8-std_loss.patch "fix: learnerND.std_loss returns an array expression that float() accepts on numpy 2"
ap C13_balancing_pickle_cycle_position.patch "fix: BalancingLearner pickles the position of the 'cycle' strategy"
ap F3_F4_restore_deepcopy.patch "fix: ask(tell_pending=False) restores the complete learner state

utils.restore went through __getstate__/__setstate__, which for most learners
drops the pending points (and for the integrator aliases live containers), so
BalancingLearner.ask(n, tell_pending=False) wiped its children's pending points
and IntegratorLearner handed out the same abscissa twice; BalancingLearner also
restores its own caches and cycle position."
for extra in "$@"; do ap "$extra" "fix: $(basename $extra .patch)"; done
git log --oneline | wc -l
