#!/usr/bin/env python3
"""usage: tools/confirm_seeded.py ID PROP PATCH DEMO "needs-to-manifest text"
Confirms a seeded change in a scratch worktree of /repo (outside /repo and /verif):
 patch applies; demo passes without and fails with the change; the pinned baseline
 tests (BASELINE.json stable_pass) still pass with the change.  Then stores it under
 /verif/seeded/ID/ (patch.diff, demo.py, meta.json)."""
import json, os, shutil, subprocess, sys, xml.etree.ElementTree as ET
sid, prop, patch, demo, needs = sys.argv[1:6]
wt = f"/tmp/confirm_{sid}"
def sh(cmd, **kw):
    return subprocess.run(cmd, shell=True, text=True, stdout=subprocess.PIPE, stderr=subprocess.STDOUT, **kw)
sh(f"git -C /repo worktree remove --force {wt}"); shutil.rmtree(wt, ignore_errors=True)
r = sh(f"git -C /repo worktree add --detach {wt} HEAD"); assert r.returncode == 0, r.stdout
env = dict(os.environ, PYTHONPATH=wt, PYTHONHASHSEED="0")
meta = {"id": sid, "property": prop, "needs_to_manifest": needs, "ran": []}
try:
    r0 = sh(f"/venv/bin/python {demo}", env=env, cwd="/tmp"); meta["demo_without_change_rc"] = r0.returncode
    ra = sh(f"git -C {wt} apply {patch}"); assert ra.returncode == 0, "patch does not apply: " + ra.stdout
    r1 = sh(f"/venv/bin/python {demo}", env=env, cwd="/tmp"); meta["demo_with_change_rc"] = r1.returncode
    meta["demo_with_change_tail"] = r1.stdout.strip().splitlines()[-1:] if r1.stdout.strip() else []
    junit = f"/tmp/confirm_{sid}.xml"
    t = sh(f"cd {wt} && /venv/bin/python -m pytest -ra -q -p no:cacheprovider --timeout=900 --continue-on-collection-errors -n 4 --junitxml={junit}", env=dict(os.environ, PYTHONHASHSEED="0"))
    base = json.load(open("/root/.vp/BASELINE.json")); stable = set(base["stable_pass"])
    passed = set()
    for tc in ET.parse(junit).getroot().iter("testcase"):
        name = tc.get("classname") + "::" + tc.get("name")
        if not any(ch.tag in ("failure", "error", "skipped") for ch in tc):
            passed.add(name)
    missing = sorted(stable - passed)
    # a pinned test that fails once may be flaky (random delivery orders): re-run it alone, up to 3 times
    still = []
    for name in missing:
        mod, test = name.split("::", 1)
        node = mod.replace(".", "/") + ".py::" + test
        okk = False
        for _ in range(3):
            rr = sh(f"cd {wt} && /venv/bin/python -m pytest -q -p no:cacheprovider -p no:randomly '{node}'", env=dict(os.environ, PYTHONHASHSEED="0"))
            if rr.returncode == 0:
                okk = True
                break
        if not okk:
            still.append(name)
    meta["rerun_alone"] = {"first_run_missing": missing, "still_failing": still}
    missing = still
    meta["baseline_stable_tests"] = len(stable); meta["baseline_stable_still_passing"] = len(stable) - len(missing)
    meta["baseline_missing"] = missing[:10]
    meta["pytest_tail"] = t.stdout.strip().splitlines()[-1:]
    meta["ran"] = [f"demo on clean worktree -> rc {r0.returncode}", f"git apply patch; demo -> rc {r1.returncode}",
                   f"pinned suite with change: {meta['baseline_stable_still_passing']}/{len(stable)} stable tests pass"]
    ok = r0.returncode == 0 and r1.returncode != 0 and not missing
    meta["confirmed"] = ok
    if ok:
        d = f"/verif/seeded/{sid}"; os.makedirs(d, exist_ok=True)
        shutil.copy(patch, f"{d}/patch.diff"); shutil.copy(demo, f"{d}/demo.py")
        json.dump(meta, open(f"{d}/meta.json", "w"), indent=1)
    print(json.dumps(meta, indent=1))
finally:
    sh(f"git -C /repo worktree remove --force {wt}"); shutil.rmtree(wt, ignore_errors=True)
    for f in (f"/tmp/confirm_{sid}.xml",):
        if os.path.exists(f): os.remove(f)
