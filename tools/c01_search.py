import sys, json
sys.path.insert(0,'/verif/harness')
from avh import impl_l1d as I
from avh.oracle_l1d import C01Oracle
from avh.core import Check
chk=Check("L1Dsearch","quick",int(sys.argv[2]))
found=0
for k in range(int(sys.argv[1])):
    rng=chk.rng("c",k)
    cfg={"func":rng.choice(["vec_step","step","const","vec"]),"bounds":rng.choice(I.BOUNDS),"loss":rng.choice(["triangle","curvature"]),"factor":1}
    l,rec=I.make_learner(cfg)
    orc=C01Oracle(l,rec.f)
    ops=[]
    for _ in range(rng.randint(5,40)):
        op=I.gen_next_op(rng,l,cfg); ops.append(op)
        try: I.apply_op(l,op)
        except Exception as e: print("raised",repr(e)); break
        orc.check()
        if orc.errors: break
    if orc.errors:
        found+=1
        if found<=3: print(cfg,len(ops),orc.errors[0][1][:300])
print("found",found)
