#!/usr/bin/env python3
"""usage: tools/manifest_add.py Cxx 'level text' 'level note' 'technique' [category]
Adds or replaces the check entry of a property in MANIFEST.json and removes it from not_applicable."""
import json, sys
pid, text, note, tech = sys.argv[1:5]
cat = sys.argv[5] if len(sys.argv) > 5 else "proof"
m = json.load(open('/verif/MANIFEST.json'))
e = {"property_id": pid, "quick_cmd": f"./check {pid} --tier quick", "thorough_cmd": f"./check {pid} --tier thorough",
     "evidence_file": f"/verif/evidence/{pid}.json", "replay_cmd_template": f"./check {pid} --replay {{path}}",
     "engine": "coq-proof+correspondence",
     "level_claimed": {"category": cat, "text": text, "design_ref": "DESIGN.md §7 " + pid + ", §13"},
     "level_note": note, "technique": tech}
m["checks"] = [c for c in m["checks"] if c["property_id"] != pid] + [e]
m["checks"].sort(key=lambda c: c["property_id"])
m["not_applicable"] = [x for x in m.get("not_applicable", []) if x["property_id"] != pid]
m["engines"][0]["serves_properties"] = sorted(c["property_id"] for c in m["checks"])
json.dump(m, open('/verif/MANIFEST.json', 'w'), indent=1)
print("manifest:", [c["property_id"] for c in m["checks"]])
