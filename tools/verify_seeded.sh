#!/bin/bash
# usage: tools/verify_seeded.sh [ids...] -- run every stored seeded change against its property's quick check
# (scratch copy of /repo with the patch applied); one line per change in /verif/work/verify_seeded.log
cd /verif
ids=${@:-$(ls seeded)}
out=/verif/work/verify_seeded.log; : > $out
for id in $ids; do
  prop=$(python3 -c "import json;print(json.load(open('/verif/seeded/$id/meta.json'))['property'])")
  r=$(tools/seedrun /verif/seeded/$id/patch.diff $prop 2>&1)
  if echo "$r" | grep -q "failing input"; then v="DETECTED failing-input"; elif echo "$r" | grep -q "VIOLATION"; then v="DETECTED no-failing-input"; elif echo "$r" | grep -q "DOES NOT APPLY"; then v="PATCH-STALE"; else v="MISSED"; fi
  echo "$id $prop $v" >> $out
done
echo DONE >> $out
