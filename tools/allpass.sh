#!/bin/bash
# usage: tools/allpass.sh TIER SEEDS... ; env PROPS="C01 C02" to restrict. Summaries to /verif/work/allpass_<tier>.log
tier=$1; shift
props=${PROPS:-"C01 C02 C03 C04 C05 C06 C07 C08 C09 C10 C11 C12 C13 C14 C15 C16 C17 C18 C19 C20"}
out=/verif/work/allpass_$tier.log
for s in "$@"; do for p in $props; do
  t0=$(date +%s)
  VERIF_SEED=$s /verif/check $p --tier $tier > /verif/work/allpass_${p}_${tier}_$s.out 2>&1; rc=$?
  echo "$p seed=$s tier=$tier rc=$rc $(( $(date +%s)-t0 ))s $(grep -c VIOLATION /verif/work/allpass_${p}_${tier}_$s.out) viol $(grep -c KNOWN-FINDING /verif/work/allpass_${p}_${tier}_$s.out) known" >> $out
done; done
echo "DONE $tier $*" >> $out
