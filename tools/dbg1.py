import sys, json
sys.path.insert(0,'/verif/harness')
from avh import impl_l1d as I
from avh.core import Check
chk=Check("L1Dtest2","quick",1)
rng=chk.rng("c",93)
cfg={"func":rng.choice(list(I.FUNCS)),"bounds":rng.choice(I.BOUNDS),"loss":rng.choice(I.LOSSES),"factor":rng.choice([1,2])}
l,rec,steps=I.drive(cfg,rng,rng.randint(3,25))
l,rec,steps=I.drive(cfg,None,0,ops=[s[0] for s in steps[:18]])
print(l._scale, l._oldscale, l._bbox)
a=0.0004348581240274617
for xs,ys,r in rec.calls:
    if xs[1] is not None and abs(xs[1]*l._scale[0]-a)<1e-12: print(xs,ys,r)
