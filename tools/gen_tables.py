#!/usr/bin/env python3
"""Regenerates the two tables of DESIGN.md section 13.17 between the markers
<!-- TABLE:findings --> ... <!-- /TABLE:findings --> and <!-- TABLE:seeded --> ... <!-- /TABLE:seeded -->
from known_findings.json and seeded/*/meta.json.   usage: tools/gen_tables.py [--write]"""
import glob, json, re, sys

def findings():
    k = json.load(open('/verif/known_findings.json'))
    out = ["| property | status | finding | /repo commit |", "|---|---|---|---|"]
    for e in sorted(k, key=lambda e: (e['property'], e['signature'])):
        sig = e['signature'].replace('|', '/')
        out.append(f"| {e['property']} | {e['status']} | {sig} | {e.get('commit','')} |")
    return "\n".join(out)

def seeded():
    out = ["| seeded change | property | needs to manifest | caught by |", "|---|---|---|---|"]
    for f in sorted(glob.glob('/verif/seeded/*/meta.json')):
        m = json.load(open(f))
        d = m.get('detected_by', '(not yet run)')
        d = d if isinstance(d, str) else '; '.join(d)
        out.append(f"| {m['id']} | {m['property']} | {m['needs_to_manifest'].replace('|','/')} | {d} |")
    return "\n".join(out)

tabs = {"findings": findings(), "seeded": seeded()}
if "--write" in sys.argv:
    p = '/verif/DESIGN.md'
    s = open(p).read()
    for name, t in tabs.items():
        a, b = f"<!-- TABLE:{name} -->", f"<!-- /TABLE:{name} -->"
        i, j = s.index(a) + len(a), s.index(b)
        s = s[:i] + "\n" + t + "\n" + s[j:]
    open(p, 'w').write(s)
    print("DESIGN.md tables rewritten")
else:
    print(tabs["findings"]); print(); print(tabs["seeded"])
