#!/usr/bin/env python3
"""Prints markdown tables for DESIGN.md: (1) findings and their disposition from known_findings.json,
(2) seeded changes and which check components caught them from seeded/*/meta.json."""
import json, glob
k = json.load(open('/verif/known_findings.json'))
print("| property | status | finding | commit |\n|---|---|---|---|")
for e in sorted(k, key=lambda e: (e['property'], e['signature'])):
    sig = e['signature'].replace('|', '/')
    print(f"| {e['property']} | {e['status']} | {sig} | {e.get('commit','')} |")
print()
print("| seeded change | property | needs to manifest | caught by |\n|---|---|---|---|")
for f in sorted(glob.glob('/verif/seeded/*/meta.json')):
    m = json.load(open(f))
    print(f"| {m['id']} | {m['property']} | {m['needs_to_manifest'].replace('|','/')} | {'; '.join(m.get('detected_by', ['(not yet run)']))} |")
