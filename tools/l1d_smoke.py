import sys, random, json
sys.path.insert(0,'/verif/harness')
from avh import impl_l1d as I
from avh.core import Check
chk=Check("L1Dtest","quick",int(sys.argv[2]) if len(sys.argv)>2 else 0)
cases=[];metas=[]
N=int(sys.argv[1]) if len(sys.argv)>1 else 40
for k in range(N):
    rng=chk.rng("c",k)
    cfg={"func":rng.choice(list(I.FUNCS)),"bounds":rng.choice(I.BOUNDS),"loss":rng.choice(I.LOSSES),"factor":rng.choice([1,2])}
    if cfg["loss"]=="abs_min_log" and cfg["func"] in("step","neg","vec_step"): cfg["loss"]="default"
    try:
        l,rec,steps=I.drive(cfg,rng,rng.randint(3,25))
    except Exception as e:
        print("impl raised",cfg,repr(e)); continue
    cases.append(I.case_term(l,rec,steps)); metas.append((cfg,[s[0] for s in steps]))
mism,legal,errs=chk.coq_cases("cases",I.PREAMBLE,"case",cases,"check",None,shard=10)
print("cases",len(cases),"mismatches",mism[:20],"errors",[e[:300] for e in errs[:2]])
json.dump([(metas[c],s) for c,s in mism],open('/verif/work/L1Dtest/mism.json','w'))
if mism:
    c,s=mism[0]
    rng=chk.rng("c",c)
    open('/verif/work/L1Dtest/dbg.v','w').write(I.PREAMBLE+"\nDefinition c := "+cases[c]+".\nEval vm_compute in (nth_error (trace c) %d).\n"%s)
    cfg,ops=metas[c]
    l,rec,steps=I.drive(cfg,None,0,ops=ops[:s+1])
    print("IMPL obs:",steps[-1][1],json.dumps(steps[-1][2])[:3000])
    print("scale",l._scale,l._oldscale,l._bbox)
    n0=len(rec.calls)
    l2,rec2,steps2=I.drive(cfg,None,0,ops=ops[:s])
    for call in rec.calls[len(rec2.calls):]: print("CALL",call)
