#!/usr/bin/env python3
"""usage: tools/revalidate_seeded.py [ids...] -- re-check every stored seeded change against /repo's HEAD:
the patch applies, its demo passes on the clean tree and fails with the patch (demos only; the pinned suite was
run when the change was first confirmed). Prints one line per change; writes /verif/work/revalidate.json."""
import glob, json, os, shutil, subprocess, sys
from concurrent.futures import ThreadPoolExecutor
ids = sys.argv[1:] or sorted(os.path.basename(d) for d in glob.glob('/verif/seeded/*'))
def sh(cmd, **kw):
    return subprocess.run(cmd, shell=True, text=True, stdout=subprocess.PIPE, stderr=subprocess.STDOUT, **kw)
def one(sid):
    d = f"/verif/seeded/{sid}"; wt = f"/var/tmp/reval_{sid}"
    shutil.rmtree(wt, ignore_errors=True)
    sh(f"git -C /repo worktree prune"); r = sh(f"git -C /repo worktree add --detach {wt} HEAD")
    env = dict(os.environ, PYTHONPATH=wt, PYTHONHASHSEED="0")
    try:
        r0 = sh(f"timeout 900 /venv/bin/python {d}/demo.py", env=env, cwd="/tmp")
        ra = sh(f"git -C {wt} apply {d}/patch.diff")
        if ra.returncode != 0:
            return sid, {"applies": False, "clean_rc": r0.returncode}
        r1 = sh(f"timeout 900 /venv/bin/python {d}/demo.py", env=env, cwd="/tmp")
        return sid, {"applies": True, "clean_rc": r0.returncode, "patched_rc": r1.returncode}
    finally:
        sh(f"git -C /repo worktree remove --force {wt}"); shutil.rmtree(wt, ignore_errors=True)
res = {}
with ThreadPoolExecutor(4) as ex:
    for sid, r in ex.map(one, ids):
        res[sid] = r
        ok = r.get("applies") and r["clean_rc"] == 0 and r.get("patched_rc", 0) != 0
        print(sid, "OK" if ok else "PROBLEM", r, flush=True)
json.dump(res, open('/verif/work/revalidate.json', 'w'), indent=1)
