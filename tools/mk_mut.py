#!/usr/bin/env python3
"""usage: tools/mk_mut.py Cxx "pytest args" [round]
creates worktree /tmp/mut<round>_Cxx and /tmp/mut<round>_Cxx_out/{property.txt,prompt.txt}.
For round >= 2 the prompt lists the changes already collected for this property
(from /verif/seeded/Cxx-*/: what each needs to manifest and the touched hunks) so that the
new ones are different; nothing else from /verif is shown to the agent."""
import glob, json, os, re, subprocess, sys
pid, tests = sys.argv[1], sys.argv[2]
rnd = sys.argv[3] if len(sys.argv) > 3 else ""
wt, out = f"/tmp/mut{rnd}_{pid}", f"/tmp/mut{rnd}_{pid}_out"
subprocess.run(f"git -C /repo worktree remove --force {wt}", shell=True, capture_output=True)
subprocess.run(f"git -C /repo worktree add --detach {wt} HEAD -q", shell=True, check=True)
os.makedirs(out, exist_ok=True)
for l in open('/verif/properties.jsonl'):
    p = json.loads(l)
    if p['id'] == pid:
        prop = f"{p['id']} — {p['title']}\n\nStatement: {p['statement']}\n\nQuantifier: {p['quantifier']['text']}\n\nRelevant files: {', '.join(p['anchors']['files'])}\n"
open(f"{out}/property.txt", "w").write(prop)
t = open('/verif/tools/mut_prompt_template.txt').read()
if rnd:
    prev = []
    for d in sorted(glob.glob(f"/verif/seeded/{pid}-*")):
        m = json.load(open(d + "/meta.json"))
        hunks = [l for l in open(d + "/patch.diff") if l.startswith(("+++ ", "@@"))]
        where = " ".join(re.sub(r"^\+\+\+ b/", "", h.strip()) if h.startswith("+++") else h.strip().split("@@")[-1].strip() for h in hunks)[:300]
        prev.append(f"- [{where}] needs: {m['needs_to_manifest']}")
    t = t.replace("Task: produce TWO independent,", "Changes ALREADY collected for this property in an earlier round (do NOT reproduce these or close variants; pick other mechanisms, other functions, other clauses of the statement, other learner/runner types the property covers):\n" + "\n".join(prev) + "\n\nTask: produce TWO independent,")
    letters = {"2": "{c, d}", "3": "{e, f}", "4": "{g, h}", "5": "{i, j}", "6": "{k, l}"}[rnd]
    t = t.replace("{a, b}", letters)
open(f"{out}/prompt.txt", "w").write(t.replace('{WT}', wt).replace('{OUT}', out).replace('{PROP}', prop).replace('{TESTS}', tests))
print("ready", wt)
