#!/usr/bin/env python3
"""usage: tools/mk_mut.py Cxx "pytest args"  -- creates worktree /tmp/mut_Cxx, /tmp/mut_Cxx_out/{property.txt,prompt.txt}"""
import json, os, subprocess, sys
pid, tests = sys.argv[1], sys.argv[2]
wt, out = f"/tmp/mut_{pid}", f"/tmp/mut_{pid}_out"
subprocess.run(f"git -C /repo worktree remove --force {wt}", shell=True, capture_output=True)
subprocess.run(f"git -C /repo worktree add --detach {wt} HEAD -q", shell=True, check=True)
os.makedirs(out, exist_ok=True)
for l in open('/verif/properties.jsonl'):
    p = json.loads(l)
    if p['id'] == pid:
        prop = f"{p['id']} — {p['title']}\n\nStatement: {p['statement']}\n\nQuantifier: {p['quantifier']['text']}\n\nRelevant files: {', '.join(p['anchors']['files'])}\n"
open(f"{out}/property.txt", "w").write(prop)
t = open('/verif/tools/mut_prompt_template.txt').read()
open(f"{out}/prompt.txt", "w").write(t.replace('{WT}', wt).replace('{OUT}', out).replace('{PROP}', prop).replace('{TESTS}', tests))
print("ready", wt)
