#!/bin/bash
# Build the whole Coq development (full .vo build) from files on disk only.
set -e
here="$(cd "$(dirname "$0")" && pwd)"
cd "$here"
export ADAPTIVE_REPO="${ADAPTIVE_REPO:-/repo}"
export PYTHONPATH="$here/harness:$ADAPTIVE_REPO" PYTHONHASHSEED=0
mkdir -p work replays evidence coq/gen
# regenerate the translated part of the model from the current source
/venv/bin/python -m avh.regen || { echo "translator failed"; exit 1; }
cd coq
files=$(find theories gen -name '*.v' | sort)
coq_makefile -Q theories AV -Q gen AVGen $files -o Makefile >/dev/null 2>&1
rm -f .files.stamp
# keep going: a file that does not compile must only fail the checks whose cone contains it
# (each check rebuilds its own cone and reports a broken proof obligation itself)
timeout 3000 make -k -j16 || echo "setup: some files did not build (see above); the affected checks will report it"
test -f theories/Base/Prelude.vo
