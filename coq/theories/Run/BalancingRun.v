(* Correspondence driver for Model/Balancing.v over recorded children; used
   by the generated cases files of C15. *)
From Coq Require Import ZArith PrimFloat.
From AV Require Import Base.Prelude Base.FloatUtil Model.GenericLearner Model.Balancing Run.OracleChild.

Record obs := mkobs {
  o_npoints : nat;
  o_pending : list (nat * pt);                    (* sorted by the harness on both sides *)
  o_data : option (list (nat * (pt * float)));    (* None: not compared at this step *)
  o_bad : bool                                    (* a child call differed from the recorded one *)
}.

Definition observe (s : bst OL) : obs :=
  mkobs (bnpoints s) (bpending s) (Some (bdata s)) (existsb bad (kids s)).

Definition ipt_eqb (a b : nat * pt) : bool := Nat.eqb (fst a) (fst b) && pt_eqb (snd a) (snd b).

Definition obs_eqb (m e : obs) : bool :=
  Nat.eqb (o_npoints m) (o_npoints e) &&
  list_eqb ipt_eqb (o_pending m) (o_pending e) &&
  match o_data e, o_data m with
  | Some de, Some dm => list_eqb (fun a b => Nat.eqb (fst a) (fst b) && pt_eqb (fst (snd a)) (fst (snd b))
                                             && fnumeqb (snd (snd a)) (snd (snd b))) dm de
  | None, _ => true
  | _, _ => false
  end &&
  Bool.eqb (o_bad m) (o_bad e).

Definition out_eqb (m e : out OL) : bool :=
  match m, e with
  | OAsk p v, OAsk p' v' => list_eqb ipt_eqb p p' && list_eqb fnumeqb v v'
  | OLoss v, OLoss v' => fnumeqb v v'
  | ONone, ONone => true
  | OErr, OErr => true
  | _, _ => false
  end.

(* repaired?, children (log, initial snapshot), initial strategy, steps *)
Definition case := (bool * list (list entry * snap) * strategy *
                    list (op OL * out OL * option obs))%type.

Definition init_of (c : case) : bst OL :=
  let '(rep, ch, st, _) := c in init OL (map (fun x => child0 (fst x) (snd x)) ch) st.
Definition rep_of (c : case) : bool := let '(rep, _, _, _) := c in rep.
Definition steps_of (c : case) := let '(_, _, _, l) := c in l.

Definition check (c : case) : option nat :=
  first_mismatch (@step OL (rep_of c)) observe out_eqb obs_eqb (init_of c) 0 (steps_of c).

Definition ops_of (c : case) : list (op OL) := map (fun x => fst (fst x)) (steps_of c).

(* inside the quantifier domain of the C15 theorems: no exception, and -- for
   the code as it was -- committing asks only (the repaired model's theorems
   hold for all histories, tentative asks included) *)
Definition is_legal (c : case) : bool :=
  (rep_of c || legal (ops_of c)) && negb (failed (run (rep_of c) (init_of c) (ops_of c))).

Definition trace (c : case) := model_trace (@step OL (rep_of c)) observe (init_of c) (ops_of c).
