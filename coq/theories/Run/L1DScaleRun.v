(* Correspondence driver for C12 (1D): a twin pair of histories -- the original
   and its rescaled image, both recorded from the real Learner1D -- is run
   through the IEEE-double instance of Model/L1D.v (Run/L1DRun.v), and Coq
   checks, step by step,
     (a) model(scaled history) = scale(model(original history)) on the
         observables (data, pending, losses, losses_combined, loss(), ask output),
         which is the statement of Props/C12.v instantiated at doubles, and
     (b) model = implementation on the scaled history (the usual tie).
   Scaling is multiplication by the power of two recorded in the case. *)
From Coq Require Import ZArith PrimFloat.
From AV Require Import Base.Prelude Base.FloatUtil Model.L1D Run.L1DRun.

Definition fsc (k x : float) : float := PrimFloat.mul x k.
Definition ysc (k : float) (y : FY) : FY :=
  match y with YS v => YS (fsc k v) | YV vs => YV (map (fsc k) vs) end.

Definition scale_obs (kx ky : float) (o : obs) : obs :=
  mkobs (map (fun e => (fsc kx (fst e), ysc ky (snd e))) (o_data o))
        (map (fsc kx) (o_pend o))
        (map (fun e => ((fsc kx (fst (fst e)), fsc kx (snd (fst e))), snd e)) (o_los o))
        (map (fun e => ((fsc kx (fst (fst e)), fsc kx (snd (fst e))), snd e)) (o_losc o))
        (o_loss_real o) (o_loss_exp o).
Definition scale_out (kx : float) (r : out) : out := (map (fsc kx) (fst r), snd r).

Record tcase := mktcase {
  t_kx : float;            (* sigma *)
  t_ky : float;            (* tau *)
  t_orig : case;
  t_scaled : case
}.

Fixpoint twin_mismatch (kx ky : float) (P P' : params float) (T T' : table)
         (s s' : st float) (k : nat) (l l' : list (op float)) : option nat :=
  match l, l' with
  | [], [] => None
  | o :: l1, o' :: l1' =>
      let '(s1, r) := fstep T P s o in
      let '(s1', r') := fstep T' P' s' o' in
      if out_eqb (scale_out kx r) r' && obs_eqb (scale_obs kx ky (observe P s1)) (observe P' s1')
      then twin_mismatch kx ky P P' T T' s1 s1' (S k) l1 l1' else Some k
  | _, _ => Some k
  end.

Definition ops_of (c : case) : list (op float) := map (fun x => fst (fst x)) (c_steps c).

Definition check_twin (c : tcase) : option nat :=
  let a := t_orig c in let b := t_scaled c in
  twin_mismatch (t_kx c) (t_ky c) (c_params a) (c_params b) (c_table a) (c_table b)
                (finit (c_params a)) (finit (c_params b)) 0 (ops_of a) (ops_of b).

(* even = twin mismatch at step k/2, odd = model-vs-implementation mismatch on
   the scaled history at step (k-1)/2 *)
Definition check (c : tcase) : option nat :=
  match check_twin c with
  | Some k => Some (2 * k)
  | None => match L1DRun.check (t_scaled c) with Some k => Some (2 * k + 1) | None => None end
  end.
