(* Correspondence driver for the Triangulation model (used by generated cases
   files).  Vertex coordinates are point ids chosen by the harness.  The
   recorded predicate answers are finite tables; the model is run twice, once
   with default answer [false] and once with [true] for a predicate the
   implementation was never asked: both runs must reproduce the observation,
   i.e. the model may not depend on an answer that was not recorded. *)
From AV Require Import Base.Prelude Model.Tri.

Definition tbl := list (simplex * bool).
Definition tbl_get (l : tbl) (dflt : bool) (s : simplex) : bool :=
  match find (fun kv => simplex_eqb s (fst kv)) l with
  | Some kv => snd kv
  | None => dflt
  end.

Record rorc := mkr {
  r_locate : simplex; r_reduce : list nat; r_vis : tbl; r_flat : tbl; r_circ : tbl }.

Definition to_orc (r : rorc) (dflt : bool) : orc :=
  mkorc (r_locate r) (r_reduce r) (tbl_get (r_vis r) dflt) (tbl_get (r_flat r) dflt) (tbl_get (r_circ r) dflt).

Inductive rop := RAdd (pid : nat) (hint : option simplex) (r : rorc).

(* sets of simplices are compared as sets *)
Definition sset_eqb (a b : list simplex) : bool :=
  forallb (fun x => smem x b) a && forallb (fun x => smem x a) b && Nat.eqb (length a) (length b).

Definition out_eqb (a b : out) : bool :=
  match a, b with
  | Accepted d1 a1, Accepted d2 a2 => sset_eqb d1 d2 && sset_eqb a1 a2
  | Rejected OutsideSimplex, Rejected OutsideSimplex => true
  | Rejected AlreadyVertex, Rejected AlreadyVertex => true
  | Rejected InsideHull, Rejected InsideHull => true
  | Broken, Broken => true
  | _, _ => false
  end.

Record obs := mkobs {
  ob_verts : list nat;
  ob_simplices : list simplex;
  ob_v2s : list (list simplex);
  ob_hull : option (list nat)
}.

Definition observe (t : tri nat) : obs := mkobs (verts t) (simplices t) (v2s t) (hull t).

Definition obs_eqb (a b : obs) : bool :=
  list_eqb Nat.eqb (ob_verts a) (ob_verts b) &&
  sset_eqb (ob_simplices a) (ob_simplices b) &&
  list_eqb sset_eqb (ob_v2s a) (ob_v2s b) &&
  option_eqb (list_eqb Nat.eqb) (ob_hull a) (ob_hull b).

Section Run.
  Variable d : nat.
  Definition rstate := (tri nat * tri nat)%type.
  Definition rstep (s : rstate) (x : rop) : rstate * (out * out) :=
    match x with
    | RAdd pid hint r =>
        let '(t1, o1) := add_point d (fst s) pid hint (to_orc r false) in
        let '(t2, o2) := add_point d (snd s) pid hint (to_orc r true) in
        ((t1, t2), (o1, o2))
    end.
  Definition robserve (s : rstate) : obs * obs := (observe (fst s), observe (snd s)).
  Definition rout_eqb (m : out * out) (e : out) : bool := out_eqb (fst m) e && out_eqb (snd m) e.
  Definition robs_eqb (m : obs * obs) (e : obs) : bool := obs_eqb (fst m) e && obs_eqb (snd m) e.
End Run.

(* the generic driver wants model outputs and expected outputs of one type *)
Definition case := (nat * (list nat * list simplex) * list (rop * out * option obs))%type.

Fixpoint first_mismatch_r (d : nat) (s : rstate) (k : nat) (l : list (rop * out * option obs)) : option nat :=
  match l with
  | [] => None
  | (x, eo, eb) :: l' =>
      let '(s', o) := rstep d s x in
      if rout_eqb o eo && match eb with Some b => robs_eqb (robserve s') b | None => true end
      then first_mismatch_r d s' (S k) l' else Some k
  end.

Definition start (c : case) : tri nat := init (fst (snd (fst c))) (snd (snd (fst c))).

(* step index 0 is the initial triangulation itself when its observation is wrong *)
Definition check (c : case) : option nat :=
  let t0 := start c in first_mismatch_r (fst (fst c)) (t0, t0) 0 (snd c).

Definition to_op (x : rop) : op nat :=
  match x with RAdd pid hint r => AddPoint pid hint (to_orc r false) end.

(* the hypotheses of the C03 theorems, evaluated on the recorded case: the
   history is legal, the initial simplices refer to existing vertices
   (wf_init) and are strictly sorted tuples (premise of the facet theorems of
   Proofs/TriFacets.v) *)
Fixpoint ssortedb (l : list nat) : bool :=
  match l with
  | a :: ((b :: _) as l') => (a <? b) && ssortedb l'
  | _ => true
  end.

Definition wf_initb (c : case) : bool :=
  let vs := fst (snd (fst c)) in let ss := snd (snd (fst c)) in
  forallb (fun s => ssortedb s && forallb (fun v => v <? length vs) s) ss.

Definition is_legal (c : case) : bool :=
  legal (fst (fst c)) (start c) (map (fun x => to_op (fst (fst x))) (snd c)) && wf_initb c.

(* How often the premise of C03_closed_cavity_keeps_hull_property held on the
   recorded run: (accepted insertions inside the hull, those whose cavity
   boundary is a closed pseudo-manifold, those after which the model state has
   the hull property).  For the steps counted second the theorem applies. *)
Definition ridges_ok (del : list simplex) : bool :=
  let H := hole_faces del in forallb (fun r => count_face r (all_faces H) <=? 2) (all_faces H).

Fixpoint cavity_stats (d : nat) (t : tri nat) (l : list rop) (acc : nat * nat * nat) : nat * nat * nat :=
  match l with
  | [] => acc
  | RAdd pid hint r :: l' =>
      let o := to_orc r false in
      let '(t', res) := add_point d t pid hint o in
      let interior := match (match hint with Some s => s | None => o_locate o end) with [] => false | _ => true end in
      let acc' :=
        match res with
        | Accepted del _ =>
            if interior && negb (broken_faces (all_faces (simplices t))) then
              let '(n, c, h) := acc in
              (S n, if ridges_ok del then S c else c,
               if negb (broken_faces (all_faces (simplices t'))) then S h else h)
            else acc
        | _ => acc
        end in
      cavity_stats d t' l' acc'
  end.

Definition cavity_stats_of (c : case) : nat * nat * nat :=
  cavity_stats (fst (fst c)) (start c) (map (fun x => fst (fst x)) (snd c)) (0, 0, 0).

Definition sum3 (l : list (nat * nat * nat)) : nat * nat * nat :=
  fold_left (fun a x => let '(a1, a2, a3) := a in let '(x1, x2, x3) := x in (a1 + x1, a2 + x2, a3 + x3)) l (0, 0, 0).

Fixpoint trace_r (d : nat) (s : rstate) (l : list rop) : list ((out * out) * (obs * obs)) :=
  match l with
  | [] => []
  | x :: l' => let '(s', o) := rstep d s x in (o, robserve s') :: trace_r d s' l'
  end.
Definition trace (c : case) :=
  let t0 := start c in trace_r (fst (fst c)) (t0, t0) (map (fun x => fst (fst x)) (snd c)).
