(* C02: evaluate the well-formedness predicate [wfb] of Proofs/L1DAskProofs.v
   (the hypothesis of the C02 theorems) on the states the float model passes
   through in a correspondence case: [wf_case c] = every state at which the
   case performs an ask satisfies [wfb].  Used as the non-vacuity measure. *)
From Coq Require Import ZArith PrimFloat.
From AV Require Import Base.Prelude Base.FloatUtil Model.L1D Run.L1DRun Proofs.L1DAskProofs.

Definition fwfb (P : params float) (s : st float) : bool :=
  wfb float PrimFloat.ltb PrimFloat.eqb P s.

Fixpoint asks_wf (T : table) (P : params float) (s : st float)
         (steps : list (op float * out * option obs)) : bool :=
  match steps with
  | [] => true
  | (o, _, _) :: l =>
      (match o with Ask _ _ => fwfb P s | _ => true end) &&
      asks_wf T P (fst (fstep T P s o)) l
  end.

Definition wf_case (c : case) : bool :=
  asks_wf (c_table c) (c_params c) (finit (c_params c)) (c_steps c).
