(* The recorded-oracle instance of Model/GenericLearner.Learner used for
   EXECUTING wrapper models against the implementation: the child learner is
   the log of the calls the real wrapper made on the real child, with the
   answers the real child gave and a snapshot of its public state after each
   call.  The model consumes the log; a call whose kind or arguments differ
   from the recorded one sets [bad] (a reported disagreement).  Points are
   lists of doubles (Learner1D [x]; AverageLearner [seed]; SequenceLearner
   [index]; LearnerND [x; y; ...]), values and losses are doubles. *)
From Coq Require Import ZArith PrimFloat.
From AV Require Import Base.Prelude Base.FloatUtil Model.GenericLearner.

Definition pt := list float.
Definition pt_eqb (a b : pt) : bool := list_eqb fnumeqb a b.

Inductive ccall :=
| CAsk (n : nat) (commit : bool)
| CTell (x : pt) (y : float)
| CTellPending (x : pt)
| CRemove
| CRestore
| CSetData.

Definition ccall_eqb (a b : ccall) : bool :=
  match a, b with
  | CAsk n c, CAsk n' c' => Nat.eqb n n' && Bool.eqb c c'
  | CTell x y, CTell x' y' => pt_eqb x x' && fnumeqb y y'
  | CTellPending x, CTellPending x' => pt_eqb x x'
  | CRemove, CRemove | CRestore, CRestore | CSetData, CSetData => true
  | _, _ => false
  end.

(* public state after a call; [sn_data = None]: the harness did not record
   the data here (it does after the last call of every wrapper operation) *)
Record snap := mksnap {
  sn_npoints : nat;
  sn_loss_r : float;
  sn_loss_e : float;
  sn_pend : list pt;
  sn_data : option (list (pt * float))
}.

Record entry := mkentry { e_call : ccall; e_pts : list pt; e_imps : list float; e_after : snap }.

Record ost := mkost { rest : list entry; cur : snap; bad : bool }.

Definition advance (s : ost) (c : ccall) : (list pt * list float) * ost :=
  match rest s with
  | e :: r => if ccall_eqb c (e_call e)
              then ((e_pts e, e_imps e), mkost r (e_after e) (bad s))
              else (([], []), mkost (rest s) (cur s) true)
  | [] => (([], []), mkost [] (cur s) true)
  end.

Definition OL : Learner :=
  @mkLearner ost pt float float unit pt_eqb PrimFloat.ltb PrimFloat.eqb PrimFloat.infinity
    (fun s n c => advance s (CAsk n c))
    (fun s x y => snd (advance s (CTell x y)))
    (fun s x => snd (advance s (CTellPending x)))
    (fun s => snd (advance s CRemove))
    (fun s real => if real then sn_loss_r (cur s) else sn_loss_e (cur s))
    (fun s => sn_npoints (cur s))
    (fun s => match sn_data (cur s) with Some d => d | None => [] end)
    (fun s => sn_pend (cur s))
    (* utils.restore puts back a deep copy of the learner's __dict__: the public state is the
       old one again; it is not a call on the learner, the log simply continues *)
    (fun old s => mkost (rest s) (cur old) (bad s))
    (fun _ => tt)
    (fun s _ => snd (advance s CSetData)).

Definition child0 (log : list entry) (s0 : snap) : ost := mkost log s0 false.
