(* Correspondence drivers of the C09 / C10 checks for the models they add on
   top of other checks' models; used by generated cases files only.
   AverageLearner1D: Model/Avg1D.v + pending overlay Model/Avg1DPend.v, in
   IEEE doubles, with the comparison functions of Run/AvgRun.v (means, counts,
   samples, undersampled flags bit-exact; error to 1e-12) and the pending set
   compared as a set of (seed, x) under Python's ==. *)
From Coq Require Import ZArith PrimFloat.
From AV Require Import Base.Prelude Base.FloatUtil Model.AvgNum Run.AvgRun.
From AV Require Model.Avg1D Model.Avg1DPend.

Definition pAsk (n : nat) (commit : bool) (hint : list (nat * float)) : Avg1DPend.pop F1 := @Avg1DPend.PAsk F1 n commit hint.
Definition pTell (seed : nat) (x y : float) : Avg1DPend.pop F1 := @Avg1DPend.PTell F1 seed x y.
Definition pTellManyAt (x : float) (l : list (nat * float)) (m : float) : Avg1DPend.pop F1 := @Avg1DPend.PTellManyAt F1 x l m.
Definition pTellMany (l : list (nat * float * float)) (hints : list float) : Avg1DPend.pop F1 := @Avg1DPend.PTellMany F1 l hints.
Definition pTellPending (seed : nat) (x : float) : Avg1DPend.pop F1 := @Avg1DPend.PTellPending F1 (seed, x).
Definition pRemove : Avg1DPend.pop F1 := @Avg1DPend.PRemoveUnfinished F1.

Record pobs := mkpobs {
  po_pts : list (Avg1D.pt F1);            (* as in Run/AvgRun.v *)
  po_pend : list (nat * float)            (* pending_points, any order *)
}.

Definition kmem (k : nat * float) (l : list (nat * float)) : bool := existsb (@Avg1DPend.keqb F1 k) l.
Definition kset_eqb (l1 l2 : list (nat * float)) : bool :=
  Nat.eqb (length l1) (length l2) && forallb (fun k => kmem k l2) l1 && forallb (fun k => kmem k l1) l2.

Definition pobserve (s : Avg1DPend.pst F1) : pobs := mkpobs (Avg1DPend.base s) (Avg1DPend.pend s).
Definition pobs_eqb (a b : pobs) : bool :=
  list_eqb pt_eqb (po_pts a) (po_pts b) && kset_eqb (po_pend a) (po_pend b).

(* configuration as in a [dcase] (its own steps are left empty) + the overlay steps *)
Record pcase := mkpcase {
  p_cfg : dcase;
  p_steps : list (Avg1DPend.pop F1 * Avg1D.out F1 * option pobs)
}.

Definition pcheck (c : pcase) : option nat :=
  first_mismatch (@Avg1DPend.pstep F1 (ttab (d_t (p_cfg c))) (dcfg (p_cfg c))) pobserve dout_eqb pobs_eqb
    (Avg1DPend.pinit F1) 0 (p_steps c).

Definition pops (c : pcase) : list (Avg1DPend.pop F1) := map (fun x => fst (fst x)) (p_steps c).

(* the hypotheses of the C10 theorems on this run: legal (C16's domain) and
   tell_pending only of (seed, x) without a value *)
Definition plegal (c : pcase) : bool :=
  @Avg1D.legal F1 (ttab (d_t (p_cfg c))) (dcfg (p_cfg c)) (Avg1D.init F1) (Avg1DPend.base_ops (pops c)) &&
  @Avg1DPend.polite F1 (ttab (d_t (p_cfg c))) (dcfg (p_cfg c)) (Avg1DPend.pinit F1) (pops c).

(* ... and consecutive seeds at every committing ask (F22's trigger absent) *)
Definition pconsec (c : pcase) : bool :=
  @Avg1DPend.consec_at_asks F1 (ttab (d_t (p_cfg c))) (dcfg (p_cfg c)) (Avg1DPend.pinit F1) (pops c).

Definition ptrace (c : pcase) :=
  model_trace (@Avg1DPend.pstep F1 (ttab (d_t (p_cfg c))) (dcfg (p_cfg c))) pobserve (Avg1DPend.pinit F1) (pops c).

(* ---------------------------------------------------------------------- *)
(* IntegratorLearner with non-committing asks: Model/Integrator.v driven as in
   Run/IntegratorRun.v (same observations, same comparison, same partition
   certificate), plus the operation ask(n, tell_pending=False), whose model is
   BookkeepingIntegrator.ask_nc: the output of the committing ask, the state
   handed back.  The harness records the verdicts / choices the real learner
   made inside the rolled-back call and observes the real learner afterwards. *)
From AV Require Import Model.Integrator Run.IntegratorRun.
From AV Require Proofs.BookkeepingIntegrator.

Inductive iop :=
| IOp (o : Integrator.op float)
| IAskNC (n : nat) (cs : list choice).

Section IRun.
  Variable xi : list (list float).
  Variable repaired : bool.

  Definition istep (s : st float) (o : iop) : st float * out float :=
    match o with
    | IOp o' => fstep xi repaired s o'
    | IAskNC n cs => BookkeepingIntegrator.ask_nc float fnumeqb (fpoints xi) repaired PrimFloat.zero s n cs
    end.

  Definition icase := (float * float * nat * list (iop * eout * option obs))%type.

  Fixpoint ifirst_mismatch (seen : bool) (s : st float) (k : nat) (l : list (iop * eout * option obs)) : option nat :=
    match l with
    | [] => None
    | (o, eo, eb) :: l' =>
        let '(s', out) := istep s o in
        if out_eqb out eo && match eb with Some b => obs_eqb (observe s') b | None => true end &&
           (halted s' || cert_ok seen s')
        then ifirst_mismatch (seen || has_estimate s') s' (S k) l' else Some k
    end.

  Definition icheck (c : icase) : option nat :=
    let '(lo, hi, maxiv, steps) := c in
    if xi_ok xi then ifirst_mismatch false (finit xi repaired lo hi maxiv) 0 steps else Some 0.

  (* number of non-committing asks in the case *)
  Definition inc_asks (c : icase) : nat :=
    let '(_, _, _, steps) := c in
    count_true (fun x => match fst (fst x) with IAskNC _ _ => true | IOp _ => false end) steps.
End IRun.
