(* Correspondence driver for the runner model: used by generated cases files.
   Points are naturals (the harness interns the learner's points), values are
   integers (interned), the learner is SCRIPTED: its answers to successive
   ask calls are the ones recorded from the real learner, so the model is run
   as an acceptor of the recorded trace. *)
From Coq Require Import ZArith.
From AV Require Import Base.Prelude Model.Runner.

Definition P := nat.
Definition V := Z.
Definition L := list (list nat).      (* the answers still to be given *)

Definition scripted : learner P V L :=
  mklearner (fun l _ => match l with a :: r => (a, r) | [] => ([], []) end)
            (fun l _ _ => l) (fun l => l).

(* observable actions of one step, chronological *)
Inductive oev := OAsk (n : nat) (pts : list nat) | OSubmit (fid : nat) (x : nat)
               | OTell (x : nat) (y : Z) | ORemove.

Definition project (e : tev P V) : list oev :=
  match e with
  | TAsk n ret => [OAsk n (map snd ret)]
  | TSubmit fid _ x => [OSubmit fid x]
  | TTell _ x y => [OTell x y]
  | TRemove => [ORemove]
  | TDone _ _ _ => []
  | TCancel _ => []
  end.

Definition oev_eqb (a b : oev) : bool :=
  match a, b with
  | OAsk n p, OAsk m q => Nat.eqb n m && list_eqb Nat.eqb p q
  | OSubmit f x, OSubmit g y => Nat.eqb f g && Nat.eqb x y
  | OTell x y, OTell x' y' => Nat.eqb x x' && Z.eqb y y'
  | ORemove, ORemove => true
  | _, _ => false
  end.

(* why the run stopped, with the failed pid replaced by its point *)
Inductive owhy := WGoal | WCancelled | WFailed (x : option nat) | WNoWorkers.
Inductive ophase := PAtGoal | PInWait | PStopping | PStopped (w : owhy) (cleaned : bool).

Record obs := mkobs {
  o_phase : ophase;
  o_pend : list (nat * nat);
  o_retry : list (nat * nat);
  o_tbs : list nat;
  o_idp : list (nat * nat);
  o_log : list (logent P V);
  o_cancelled : list nat            (* sorted, duplicate-free *)
}.

Definition why_obs (s : rst P V L) (w : why) : owhy :=
  match w with
  | GoalMet => WGoal | Cancelled => WCancelled | NoWorkers => WNoWorkers
  | Failed pid => WFailed (aget pid (idp s))
  end.

Definition phase_obs (s : rst P V L) : ophase :=
  match ph s with
  | AtGoal => PAtGoal | InWait => PInWait | Stopping _ => PStopping
  | Stopped w c => PStopped (why_obs s w) c
  end.

Definition cancelled_fids (s : rst P V L) : list nat :=
  fold_left (fun acc e => match e with TCancel f => nat_insert f acc | _ => acc end) (tr s) [].

Definition observe (s : rst P V L) : obs :=
  mkobs (phase_obs s) (pend s) (retry s) (akeys (tbs s)) (idp s) (log s) (cancelled_fids s).

Definition owhy_eqb (a b : owhy) : bool :=
  match a, b with
  | WGoal, WGoal | WCancelled, WCancelled | WNoWorkers, WNoWorkers => true
  | WFailed x, WFailed y => option_eqb Nat.eqb x y
  | _, _ => false
  end.

Definition ophase_eqb (a b : ophase) : bool :=
  match a, b with
  | PAtGoal, PAtGoal | PInWait, PInWait | PStopping, PStopping => true
  | PStopped w c, PStopped w' c' => owhy_eqb w w' && Bool.eqb c c'
  | _, _ => false
  end.

Definition logent_eqb (a b : logent P V) : bool :=
  match a, b with
  | LAsk n, LAsk m => Nat.eqb n m
  | LTell x y, LTell x' y' => Nat.eqb x x' && Z.eqb y y'
  | _, _ => false
  end.

Definition obs_eqb (a b : obs) : bool :=
  ophase_eqb (o_phase a) (o_phase b) &&
  list_eqb (pair_eqb Nat.eqb Nat.eqb) (o_pend a) (o_pend b) &&
  list_eqb (pair_eqb Nat.eqb Nat.eqb) (o_retry a) (o_retry b) &&
  list_eqb Nat.eqb (o_tbs a) (o_tbs b) &&
  list_eqb (pair_eqb Nat.eqb Nat.eqb) (o_idp a) (o_idp b) &&
  list_eqb logent_eqb (o_log a) (o_log b) &&
  list_eqb Nat.eqb (o_cancelled a) (o_cancelled b).

Definition step_out (c : cfg) (s : rst P V L) (e : ev V) : rst P V L * list oev :=
  let s' := rstep scripted c s e in
  (s', flat_map project (rev (firstn (length (tr s') - length (tr s)) (tr s')))).

(* configuration, scripted answers, steps *)
(* configuration, scripted answers, observation of the initial state, steps *)
Definition case := (cfg * L * obs * list (ev V * list oev * option obs))%type.

(* step index of the first disagreement; 0 also stands for the initial state *)
Definition check (c : case) : option nat :=
  let '(cf, answers, o0, steps) := c in
  if obs_eqb (observe (init P V cf answers)) o0
  then first_mismatch (step_out cf) observe (list_eqb oev_eqb) obs_eqb (init P V cf answers) 0 steps
  else Some 0.

Definition events (c : case) : list (ev V) := map (fun x => fst (fst x)) (snd c).

Definition final (c : case) : rst P V L :=
  let '(cf, answers, _, _) := c in reach scripted cf answers (events c).

(* non-vacuity measures evaluated on the generated cases *)
Definition ends_stopped (c : case) : bool :=
  match ph (final c) with Stopped _ _ => true | _ => false end.

Definition no_err (c : case) : bool :=
  forallb (fun e => match e with TDone _ _ Err => false | _ => true end) (tr (final c)).

Definition stopped_no_err (c : case) : bool := ends_stopped c && no_err c.

Definition trace (c : case) :=
  let '(cf, answers, _, steps) := c in
  model_trace (step_out cf) observe (init P V cf answers) (map (fun x => fst (fst x)) steps).
