(* Correspondence driver for Model/SaveFS.v: used by generated cases files.
   A case is one real run of adaptive.utils.save under a fault plan: the file
   system before, the plan, the data handed to each f.write call, and what was
   observed (outcome, call trace oldest first, files and directories after).
   Paths are relative to the scratch root; the temp path actually used by the
   code is renamed to fname ++ "." ++ pid with pid = "PID". *)
From Coq Require Import String Ascii NArith.
From AV Require Import Base.Prelude Model.SaveFS.

Definition res_eqb (a b : res) : bool :=
  match a, b with
  | ROk, ROk | RFail, RFail | RDie, RDie | RTrue, RTrue | RFalse, RFalse => true
  | _, _ => false
  end.

Definition outcome_eqb (a b : outcome) : bool :=
  match a, b with
  | Returned x, Returned y => Bool.eqb x y
  | Raised x, Raised y => syscall_eqb x y
  | Died, Died => true
  | _, _ => false
  end.

Definition event_eqb (a b : event) : bool :=
  syscall_eqb (ev_sc a) (ev_sc b) && String.eqb (ev_p1 a) (ev_p1 b) &&
  String.eqb (ev_p2 a) (ev_p2 b) && Nat.eqb (ev_n a) (ev_n b) && res_eqb (ev_res a) (ev_res b).

Definition bytes_eqb : bytes -> bytes -> bool := list_eqb N.eqb.

Definition files_sub (a b : list (path * bytes)) : bool :=
  forallb (fun pb => option_eqb bytes_eqb (alookup (fst pb) b) (Some (snd pb))) a.
Definition files_eqb (a b : list (path * bytes)) : bool :=
  files_sub a b && files_sub b a && Nat.eqb (List.length a) (List.length b).
Definition dirs_sub (a b : list path) : bool := forallb (fun d => existsb (String.eqb d) b) a.
Definition dirs_eqb (a b : list path) : bool := dirs_sub a b && dirs_sub b a.

Record case := mkcase {
  c_fname : string;
  c_pid : string;
  c_plan : list decision;          (* decision for call i; Ok beyond the end *)
  c_chunks : list bytes;           (* arguments of the successive f.write calls *)
  c_files0 : list (path * bytes);
  c_dirs0 : list path;
  c_out : outcome;
  c_trace : list event;            (* oldest first *)
  c_files1 : list (path * bytes);
  c_dirs1 : list path
}.

Definition env_of (plan : list decision) : env := fun i => nth i plan Ok.

Definition run_model (c : case) : result :=
  save_py (env_of (c_plan c)) (c_fname c) (c_pid c) (c_chunks c) (mkfs (c_files0 c) (c_dirs0 c)).

(* None = agreement; Some 1 trace, Some 0 outcome, Some 2 files, Some 3 directories *)
Definition check (c : case) : option nat :=
  let r := run_model c in
  if negb (list_eqb event_eqb (rev (r_trace r)) (c_trace c)) then Some 1
  else if negb (outcome_eqb (r_out r) (c_out c)) then Some 0
  else if negb (files_eqb (files (r_fs r)) (c_files1 c)) then Some 2
  else if negb (dirs_eqb (dirs (r_fs r)) (c_dirs1 c)) then Some 3
  else None.

(* the conclusion of C14_atomic_py evaluated on what the implementation left
   behind (old or exactly new; every other file except the temp file as before) *)
Definition observed_atomic (c : case) : bool :=
  let dst := c_fname c in
  let tmp := tmp_name dst (c_pid c) in
  let now := alookup dst (c_files1 c) in
  (option_eqb bytes_eqb now (alookup dst (c_files0 c)) ||
   option_eqb bytes_eqb now (Some (concat (c_chunks c)))) &&
  forallb (fun pb => String.eqb (fst pb) dst || String.eqb (fst pb) tmp ||
                     option_eqb bytes_eqb (alookup (fst pb) (c_files0 c)) (Some (snd pb)))
          (c_files1 c) &&
  forallb (fun pb => String.eqb (fst pb) dst || String.eqb (fst pb) tmp ||
                     option_eqb bytes_eqb (alookup (fst pb) (c_files1 c)) (Some (snd pb)))
          (c_files0 c).

(* diagnostics for replay files: what the model says *)
Definition model_says (c : case) :=
  let r := run_model c in
  (r_out r, rev (r_trace r), map (fun pb => (fst pb, List.length (snd pb))) (files (r_fs r)), dirs (r_fs r)).

(* size of the model's decision tree for a configuration: the number of
   distinct fault plans (one decision in {Ok, Fail n, Die n} per reached call;
   for a write of m bytes n ranges over 0, 1, m/2, m-1 and, when [more], m and
   m+7), used to confirm that the enumeration of the real code is exhaustive *)
Definition lens_of (more : bool) (m : nat) : list nat :=
  nodup Nat.eq_dec ([0; 1; Nat.div2 m; m - 1] ++ (if more then [m; m + 7] else [])).

Fixpoint plans (fuel : nat) (more : bool) (fname pid : string) (chunks : list bytes) (s : fs)
         (plan : list decision) : nat :=
  match fuel with
  | 0 => 0
  | S f =>
      let r := save_py (env_of plan) fname pid chunks s in
      let tr := rev (r_trace r) in
      (* positions reached beyond the forced prefix were decided Ok *)
      1 + fold_left (fun acc j =>
            let pre := plan ++ repeat Ok (j - List.length plan) in
            let ns := match nth_error tr j with
                      | Some ev => match ev_sc ev with SWrite => lens_of more (ev_n ev) | _ => [0] end
                      | None => [0]
                      end in
            fold_left (fun acc n => acc + 1 (* Die n: a leaf *) + plans f more fname pid chunks s (pre ++ [Fail n]))
                      ns acc)
          (seq (List.length plan) (List.length tr - List.length plan)) 0
  end.
