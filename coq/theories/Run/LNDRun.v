(* Correspondence driver for the LearnerND model (used by generated cases
   files): losses are binary64 floats, the oracles are finite tables recorded
   from the real run.  Boolean tables are evaluated twice, once with default
   [false] and once with [true] for a question that was never asked of the
   implementation; both runs must reproduce the observations.  Float tables
   default to NaN, which can never agree with an observed loss. *)
From Coq Require Import ZArith PrimFloat.
From AV Require Import Base.Prelude Base.FloatUtil Model.Tri Model.LND Run.TriRun.

Definition key2 := (nat * simplex)%type.
Definition key2_eqb (a b : key2) : bool := Nat.eqb (fst a) (fst b) && simplex_eqb (snd a) (snd b).
Definition ss_eqb (a b : simplex * simplex) : bool := simplex_eqb (fst a) (fst b) && simplex_eqb (snd a) (snd b).

Fixpoint lookup {K V} (eqb : K -> K -> bool) (k : K) (l : list (K * V)) : option V :=
  match l with
  | [] => None
  | (k', v) :: l' => if eqb k k' then Some v else lookup eqb k l'
  end.
Definition get {K V} (eqb : K -> K -> bool) (dflt : V) (l : list (K * V)) (k : K) : V :=
  match lookup eqb k l with Some v => v | None => dflt end.

Record renv := mkrenv {
  r_inb : list (nat * bool);
  r_tris : list (option (list simplex));
  r_choose : list nat;
  r_main : rorc;
  r_hint : option simplex;
  r_rescale : bool;
  r_loss : list (simplex * float);
  r_vol : list (simplex * float);
  r_svol : list ((simplex * simplex) * float);
  r_pis : list (key2 * bool);
  r_sub : list (key2 * rorc);
  r_locate : list (nat * simplex);
  r_order : list nat
}.

Definition no_orc : rorc := mkr [] [] [] [] [].

Definition to_env (r : renv) (dflt : bool) : env float :=
  mkenv (get Nat.eqb dflt (r_inb r)) (r_tris r) (r_choose r) (to_orc (r_main r) dflt) (r_hint r) (r_rescale r)
        (get simplex_eqb PrimFloat.nan (r_loss r)) (get simplex_eqb PrimFloat.nan (r_vol r))
        (fun a b => get ss_eqb PrimFloat.nan (r_svol r) (a, b))
        (fun p s => get key2_eqb dflt (r_pis r) (p, s))
        (fun p s => to_orc (get key2_eqb no_orc (r_sub r) (p, s)) dflt)
        (get Nat.eqb [] (r_locate r)) (r_order r).

Inductive rop :=
| RTell (p : nat) (r : renv)
| RTellPending (p : nat) (r : renv)
| RAsk (n : nat) (r : renv)
| RRemoveUnfinished
| RTouch (r : renv).

Definition to_op (dflt : bool) (x : rop) : op float :=
  match x with
  | RTell p r => Tell p (to_env r dflt)
  | RTellPending p r => TellPending p (to_env r dflt)
  | RAsk n r => Ask n (to_env r dflt)
  | RRemoveUnfinished => RemoveUnfinished
  | RTouch r => Touch (to_env r dflt)
  end.

(* static part of a case *)
Record cfg := mkcfg {
  c_dim : nat;
  c_corners : list nat;
  c_repaired : bool;
  c_fix12 : bool;
  c_rnd : list (float * Z)        (* round(loss, 8) of every loss that entered the queue, in units of 1e-8 *)
}.

Definition frnd (c : cfg) (x : float) : Z := get PrimFloat.eqb 0%Z (c_rnd c) x.

Section Run.
  Variable c : cfg.
  Definition mstep := @step float PrimFloat.mul PrimFloat.div PrimFloat.abs PrimFloat.infinity (frnd c)
                            (c_dim c) (c_corners c) (c_repaired c) (c_fix12 c).
  Definition mloss := @loss float PrimFloat.infinity PrimFloat.ltb.

  Record lobs := mklobs {
    ob_data : list nat;
    ob_pend : list nat;
    ob_tri : option (list nat * list simplex);
    ob_losses : list (simplex * float);
    ob_subs : list (simplex * (list nat * list simplex));
    ob_queue : list (float * simplex * option simplex);
    ob_loss : float
  }.

  Definition observe (s : lnd float) : lobs :=
    mklobs (l_data s) (l_pend s)
           (match l_tri s with Some t => Some (verts t, simplices t) | None => None end)
           (l_losses s)
           (map (fun kv => (fst kv, (verts (snd kv), simplices (snd kv)))) (l_subs s))
           (l_queue s) (mloss s).

  Definition fl_eqb (a b : simplex * float) : bool := simplex_eqb (fst a) (fst b) && fnumeqb (snd a) (snd b).
  Definition incl_b {A} (e : A -> A -> bool) (a b : list A) : bool := forallb (fun x => existsb (e x) b) a.
  Definition set_eqb {A} (e : A -> A -> bool) (a b : list A) : bool :=
    incl_b e a b && incl_b e b a && Nat.eqb (length a) (length b).
  Definition tri_eqb (a b : list nat * list simplex) : bool :=
    list_eqb Nat.eqb (fst a) (fst b) && sset_eqb (snd a) (snd b).
  Definition sub_eqb (a b : simplex * (list nat * list simplex)) : bool :=
    simplex_eqb (fst a) (fst b) && tri_eqb (snd a) (snd b).
  Definition qe_eqb (a b : float * simplex * option simplex) : bool :=
    let '(l1, s1, u1) := a in let '(l2, s2, u2) := b in
    fnumeqb l1 l2 && simplex_eqb s1 s2 && option_eqb simplex_eqb u1 u2.

  Definition lobs_eqb (a b : lobs) : bool :=
    list_eqb Nat.eqb (ob_data a) (ob_data b) &&
    list_eqb Nat.eqb (ob_pend a) (ob_pend b) &&
    option_eqb tri_eqb (ob_tri a) (ob_tri b) &&
    set_eqb fl_eqb (ob_losses a) (ob_losses b) &&
    set_eqb sub_eqb (ob_subs a) (ob_subs b) &&
    list_eqb qe_eqb (ob_queue a) (ob_queue b) &&
    fnumeqb (ob_loss a) (ob_loss b).

  Definition err_eqb (a b : err) : bool :=
    match a, b with
    | EAlready, EAlready | ENoSimplex, ENoSimplex | EOther, EOther => true
    | _, _ => false
    end.
  Definition lout_eqb (a b : out float) : bool :=
    match a, b with
    | ORet p1, ORet p2 => list_eqb (pair_eqb Nat.eqb fnumeqb) p1 p2
    | OErr e1, OErr e2 => err_eqb e1 e2
    | _, _ => false
    end.

  Fixpoint first_mismatch_l (s1 s2 : lnd float) (k : nat) (l : list (rop * out float * option lobs)) : option nat :=
    match l with
    | [] => None
    | (x, eo, eb) :: l' =>
        let '(s1', o1) := mstep s1 (to_op false x) in
        let '(s2', o2) := mstep s2 (to_op true x) in
        (* an operation that raised stopped in the middle of an iteration over a Python set: only the
           run in which unasked predicates answer [false] is comparable *)
        if lout_eqb o1 eo && (match eo with OErr _ => true | _ => lout_eqb o2 eo end) &&
           match eb with Some b => lobs_eqb (observe s1') b && lobs_eqb (observe s2') b | None => true end
        then first_mismatch_l s1' s2' (S k) l' else Some k
    end.

  Fixpoint legal_l (s : lnd float) (l : list rop) : bool :=
    match l with
    | [] => true
    | x :: l' => legal_op (c_corners c) s (to_op false x) && legal_l (fst (mstep s (to_op false x))) l'
    end.

  Fixpoint trace_l (s : lnd float) (l : list rop) : list (out float * lobs) :=
    match l with
    | [] => []
    | x :: l' => let '(s', o) := mstep s (to_op false x) in (o, observe s') :: trace_l s' l'
    end.
End Run.

Definition case := (cfg * list (rop * out float * option lobs))%type.
Definition check (c : case) : option nat := first_mismatch_l (fst c) (init_lnd float) (init_lnd float) 0 (snd c).
(* the hypotheses of the C04 theorems: the history is legal and the ghost flag is still set at the end
   (no operation raised, every chosen point subdivided its simplex) *)
Fixpoint final_l (c : cfg) (s : lnd float) (l : list rop) : lnd float :=
  match l with
  | [] => s
  | x :: l' => final_l c (fst (mstep c s (to_op false x))) l'
  end.
Definition is_legal (c : case) : bool :=
  legal_l (fst c) (init_lnd float) (map (fun x => fst (fst x)) (snd c)) &&
  l_ok (final_l (fst c) (init_lnd float) (map (fun x => fst (fst x)) (snd c))).
Definition trace (c : case) := trace_l (fst c) (init_lnd float) (map (fun x => fst (fst x)) (snd c)).
