(* Correspondence drivers for the averaging-learner models; used by generated
   cases files only.  Everything runs in IEEE doubles (Coq primitive floats). *)
From Coq Require Import ZArith PrimFloat.
From AV Require Import Base.Prelude Base.FloatUtil Model.AvgNum.
From AV Require Model.Avg Model.Avg1D.

Definition ofeqb := option_eqb feqb.

(* ------------------------------------------------------------------ *)
(* AverageLearner: bit-exact *)
Record aobs := mkaobs {
  o_data : list (nat * float);          (* dict order *)
  o_pend : list nat;                    (* sorted *)
  o_npoints : nat;
  o_sum_f : float;
  o_sum_f_sq : float;
  o_mean : option float;                (* None = ZeroDivisionError *)
  o_std : float;
  o_loss_real : option float;
  o_loss_exp : option float
}.

Inductive rop :=
| RAsk (n : nat) (commit : bool) (hint : list nat)
| RTell (seed : nat) (v : float)
| RTellPending (seed : nat)
| RRemove.

Inductive rout := RDone | RAsked (pts : list nat) (imp : float) | RErr.

Record acase := mkacase {
  a_atol : float; a_rtol : float; a_min : nat; a_guard : bool;
  a_sqx : list (float * float);         (* recorded exceptions of x ** 2 = x * x *)
  a_steps : list (rop * rout * option aobs)
}.

Section ARun.
  Variable sqx : list (float * float).
  Let F := FloatOps sqx.

  Definition aop (o : rop) : Avg.op F :=
    match o with
    | RAsk n c h => Avg.Ask n c h
    | RTell s v => Avg.Tell F s v
    | RTellPending s => Avg.TellPending s
    | RRemove => Avg.RemoveUnfinished
    end.

  Definition aout (o : rout) : Avg.out F :=
    match o with
    | RDone => Avg.Done
    | RAsked p i => Avg.Asked F p i
    | RErr => Avg.Err
    end.

  Definition aout_eqb (a b : Avg.out F) : bool :=
    match a, b with
    | Avg.Done, Avg.Done => true
    | Avg.Err, Avg.Err => true
    | Avg.Asked _ p i, Avg.Asked _ q j => list_eqb Nat.eqb p q && feqb i j
    | _, _ => false
    end.

  Definition aobserve (c : Avg.cfg F) (s : Avg.st F) : aobs :=
    mkaobs (Avg.data s) (Avg.pend s) (Avg.npoints s) (Avg.sum_f s) (Avg.sum_f_sq s)
           (Avg.mean s) (Avg.std c s) (Avg.loss c s true) (Avg.loss c s false).

  Definition acheck_steps (c : Avg.cfg F) (l : list (rop * rout * option aobs)) : option nat :=
    first_mismatch (Avg.step c) (aobserve c) aout_eqb
      (fun a b =>
         list_eqb (pair_eqb Nat.eqb feqb) (o_data a) (o_data b) &&
         list_eqb Nat.eqb (o_pend a) (o_pend b) &&
         Nat.eqb (o_npoints a) (o_npoints b) &&
         feqb (o_sum_f a) (o_sum_f b) && feqb (o_sum_f_sq a) (o_sum_f_sq b) &&
         ofeqb (o_mean a) (o_mean b) && feqb (o_std a) (o_std b) &&
         ofeqb (o_loss_real a) (o_loss_real b) && ofeqb (o_loss_exp a) (o_loss_exp b))
      (Avg.init F) 0
      (map (fun x => (aop (fst (fst x)), aout (snd (fst x)), snd x)) l).

  Definition atrace_steps (c : Avg.cfg F) (l : list rop) :=
    model_trace (Avg.step c) (aobserve c) (Avg.init F) (map aop l).
End ARun.

Definition acfg (c : acase) : Avg.cfg (FloatOps (a_sqx c)) :=
  Avg.mkcfg (FloatOps (a_sqx c)) (a_atol c) (a_rtol c) (a_min c) (a_guard c).

Definition acheck (c : acase) : option nat := acheck_steps (a_sqx c) (acfg c) (a_steps c).
Definition atrace (c : acase) := atrace_steps (a_sqx c) (acfg c) (map (fun x => fst (fst x)) (a_steps c)).

(* how many states along the case have npoints >= min_npoints (the hypothesis
   of C16_std / C16_loss_formula): non-vacuity measure *)
Definition a_reaches_min (c : acase) : bool :=
  existsb (fun x => match snd x with
                    | Some o => Nat.max (a_min c) 2 <=? o_npoints o
                    | None => false end) (a_steps c).

(* ------------------------------------------------------------------ *)
(* AverageLearner1D: means, counts, samples, undersampled flags bit-exact;
   [error] to 1e-12 relative (Python's compensated sum(), libm pow) *)
Definition F1 := FloatOps [].
Definition fclose (a b : float) : bool :=
  if PrimFloat.is_nan a then PrimFloat.is_nan b
  else if PrimFloat.eqb a b then true
  else PrimFloat.leb (PrimFloat.abs (PrimFloat.sub a b))
         (PrimFloat.mul 0x1.19799812dea11p-40%float
            (if PrimFloat.ltb (PrimFloat.abs a) (PrimFloat.abs b) then PrimFloat.abs b else PrimFloat.abs a)).

Definition pt_eqb (p q : Avg1D.pt F1) : bool :=
  feqb (Avg1D.px p) (Avg1D.px q) &&
  list_eqb (pair_eqb Nat.eqb feqb) (Avg1D.samples p) (Avg1D.samples q) &&
  feqb (Avg1D.pmean p) (Avg1D.pmean q) &&
  Nat.eqb (Avg1D.pcount p) (Avg1D.pcount q) &&
  fclose (Avg1D.perr p) (Avg1D.perr q) &&
  Bool.eqb (Avg1D.under p) (Avg1D.under q).

Definition dout_eqb (a b : Avg1D.out F1) : bool :=
  match a, b with
  | Avg1D.Done, Avg1D.Done => true
  | Avg1D.Err, Avg1D.Err => true
  | @Avg1D.Asked _ p, @Avg1D.Asked _ q => list_eqb (pair_eqb Nat.eqb feqb) p q
  | _, _ => false
  end.

(* constructors at the float instance, for the generated cases files *)
Definition dAsk (n : nat) (hint : list (nat * float)) : Avg1D.op F1 := @Avg1D.Ask F1 n hint.
Definition dTell (seed : nat) (x y : float) : Avg1D.op F1 := @Avg1D.Tell F1 seed x y.
Definition dTellManyAt (x : float) (l : list (nat * float)) (m : float) : Avg1D.op F1 := @Avg1D.TellManyAt F1 x l m.
Definition dTellMany (l : list (nat * float * float)) (hints : list float) : Avg1D.op F1 := @Avg1D.TellMany F1 l hints.
Definition dDone : Avg1D.out F1 := @Avg1D.Done F1.
Definition dErr : Avg1D.out F1 := @Avg1D.Err F1.
Definition dAsked (p : list (nat * float)) : Avg1D.out F1 := @Avg1D.Asked F1 p.
Definition dpt (x : float) (smp : list (nat * float)) (m : float) (n : nat) (e : float) (u : bool) : Avg1D.pt F1 :=
  @Avg1D.mkpt F1 x smp m n e u.

Definition ttab (t : list (nat * float)) (df : nat) : float :=
  match find (fun e => Nat.eqb (fst e) df) t with
  | Some e => snd e
  | None => PrimFloat.nan
  end.

Record dcase := mkdcase {
  d_lo : float; d_hi : float; d_min : nat; d_ns : float; d_dedup : bool;
  d_t : list (nat * float);             (* df -> t.ppf(1 - alpha, df) *)
  d_steps : list (Avg1D.op F1 * Avg1D.out F1 * option (list (Avg1D.pt F1)))
}.

Definition dcfg (c : dcase) : Avg1D.cfg F1 :=
  Avg1D.mkcfg F1 (d_lo c) (d_hi c) (d_min c) (d_ns c) (d_dedup c).

Definition dcheck (c : dcase) : option nat :=
  first_mismatch (@Avg1D.step F1 (ttab (d_t c)) (dcfg c)) (fun s => s) dout_eqb (list_eqb pt_eqb)
    (Avg1D.init F1) 0 (d_steps c).

Definition dlegal (c : dcase) : bool :=
  @Avg1D.legal F1 (ttab (d_t c)) (dcfg c) (Avg1D.init F1) (map (fun x => fst (fst x)) (d_steps c)).

Definition dtrace (c : dcase) :=
  model_trace (@Avg1D.step F1 (ttab (d_t c)) (dcfg c)) (fun s => s) (Avg1D.init F1)
    (map (fun x => fst (fst x)) (d_steps c)).
