(* Correspondence driver for the Learner1D model, executed with IEEE doubles.
   The learner's loss function is a table of the answers recorded from the
   real run, keyed by the exact (scaled) arguments the implementation passed. *)
From Coq Require Import ZArith PrimFloat.
From AV Require Import Base.Prelude Base.FloatUtil Model.L1D.

Definition two52 : float := 0x1p+52%float.
Definition ftrunc (x : float) : float :=
  let ax := PrimFloat.abs x in
  if PrimFloat.leb two52 ax then x
  else
    let t := PrimFloat.sub (PrimFloat.add ax two52) two52 in
    let t' := if PrimFloat.ltb ax t then PrimFloat.sub t PrimFloat.one else t in
    if PrimFloat.ltb x PrimFloat.zero then PrimFloat.opp t' else t'.
Definition e12 : float := 0x1.d1a94a2p+39%float.   (* 1e12 *)
Definition fround12 (l : float) : float :=
  PrimFloat.div (ftrunc (PrimFloat.add (PrimFloat.mul l e12) 0x1p-1%float)) e12.

Notation FY := (Y float).

Definition oeq {A} (e : A -> A -> bool) := option_eqb e.
Definition Y_eqb (a b : FY) : bool :=
  match a, b with
  | YS x, YS y => fnumeqb x y
  | YV x, YV y => list_eqb fnumeqb x y
  | _, _ => false
  end.

Definition table := list ((list (option float) * list (option FY)) * float).
Definition missing_sentinel : float := (PrimFloat.opp 0x1.23456789abcdep+1000)%float.

Fixpoint lookup (t : table) (xs : list (option float)) (ys : list (option FY)) : float :=
  match t with
  | [] => missing_sentinel
  | ((kx, ky), v) :: t' =>
      if list_eqb (oeq fnumeqb) kx xs && list_eqb (oeq Y_eqb) ky ys then v else lookup t' xs ys
  end.

Section WithTable.
  Variable T : table.
  Variable P : params float.

  Definition fstep :=
    @step float PrimFloat.add PrimFloat.sub PrimFloat.mul PrimFloat.div PrimFloat.ltb PrimFloat.eqb
          PrimFloat.zero PrimFloat.one PrimFloat.infinity PrimFloat.neg_infinity
          PrimFloat.is_nan PrimFloat.is_infinity fround12 nat2f (lookup T) P.
  Definition finit := @init float PrimFloat.sub PrimFloat.zero PrimFloat.infinity PrimFloat.neg_infinity P.
  Definition floss :=
    @loss float PrimFloat.sub PrimFloat.div PrimFloat.ltb PrimFloat.eqb PrimFloat.infinity
          PrimFloat.is_nan PrimFloat.is_infinity fround12 P.
End WithTable.

Record obs := mkobs {
  o_data : list (float * FY);
  o_pend : list float;
  o_los : list ((float * float) * float);
  o_losc : list ((float * float) * float);
  o_loss_real : float;
  o_loss_exp : float
}.

Definition observe (P : params float) (s : st float) : obs :=
  mkobs (data s) (pend s) (los s) (losc s) (floss P s true) (floss P s false).

Definition ivl_eqb (a b : (float * float) * float) : bool :=
  fnumeqb (fst (fst a)) (fst (fst b)) && fnumeqb (snd (fst a)) (snd (fst b)) && fnumeqb (snd a) (snd b).

Definition obs_eqb (a b : obs) : bool :=
  list_eqb (pair_eqb fnumeqb Y_eqb) (o_data a) (o_data b) &&
  list_eqb fnumeqb (o_pend a) (o_pend b) &&
  list_eqb ivl_eqb (o_los a) (o_los b) &&
  list_eqb ivl_eqb (o_losc a) (o_losc b) &&
  fnumeqb (o_loss_real a) (o_loss_real b) &&
  fnumeqb (o_loss_exp a) (o_loss_exp b).

Definition out := (list float * list float)%type.
Definition out_eqb (a b : out) : bool :=
  list_eqb fnumeqb (fst a) (fst b) && list_eqb fnumeqb (snd a) (snd b).

Record case := mkcase {
  c_params : params float;
  c_table : table;
  c_steps : list (op float * out * option obs)
}.

Definition check (c : case) : option nat :=
  first_mismatch (fstep (c_table c) (c_params c)) (observe (c_params c)) out_eqb obs_eqb
                 (finit (c_params c)) 0 (c_steps c).

Definition trace (c : case) :=
  model_trace (fstep (c_table c) (c_params c)) (observe (c_params c)) (finit (c_params c))
              (map (fun x => fst (fst x)) (c_steps c)).
