(* Evaluates, inside Coq, the [legal] predicate of the C01 theorems on the
   generated float histories (the non-vacuity count in the evidence). *)
From Coq Require Import ZArith PrimFloat.
From AV Require Import Base.Prelude Base.FloatUtil Model.L1D Run.L1DRun Proofs.L1DBatch.

Definition is_legal (c : case) : bool :=
  @L1DBatch.legal float PrimFloat.add PrimFloat.sub PrimFloat.mul PrimFloat.div PrimFloat.ltb PrimFloat.eqb
    PrimFloat.zero PrimFloat.one PrimFloat.infinity PrimFloat.neg_infinity
    PrimFloat.is_nan PrimFloat.is_infinity fround12 nat2f (lookup (c_table c)) (c_params c)
    (finit (c_params c)) (map (fun x => fst (fst x)) (c_steps c)).
