(* Correspondence driver for the IntegratorLearner model (used by generated
   cases files).  Abscissae are IEEE doubles; the rule abscissae are computed by
   the model exactly as _Interval.points does,
       (a + b) / 2 + (b - a) * xi[depth] / 2,
   from the node table [xi] the harness exports from integrator_coeffs on every
   run.  Equality of abscissae is Python's == on floats. *)
From Coq Require Import PrimFloat.
From AV Require Import Base.Prelude Base.FloatUtil Model.Integrator.

Definition two : float := 0x1p+1%float.

Definition fpoints (xi : list (list float)) (a b : float) (d : nat) : list float :=
  let c := PrimFloat.div (PrimFloat.add a b) two in
  let w := PrimFloat.sub b a in
  map (fun x => PrimFloat.add c (PrimFloat.div (PrimFloat.mul w x) two)) (nth d xi []).

(* the node tables are nested (every second node of the next depth) with the
   expected sizes: the structural fact the proofs assume of [points] *)
Fixpoint every_second (l : list float) : list float :=
  match l with
  | x :: _ :: l' => x :: every_second l'
  | l' => l'
  end.
Definition xi_ok (xi : list (list float)) : bool :=
  list_eqb Nat.eqb (map (@length float) xi) [5; 9; 17; 33] &&
  match xi with
  | [x0; x1; x2; x3] =>
      list_eqb fnumeqb (every_second x1) x0 && list_eqb fnumeqb (every_second x2) x1 &&
      list_eqb fnumeqb (every_second x3) x2 &&
      fnumeqb (nth 2 x0 one) zero && fnumeqb (nth 4 x1 one) zero &&
      fnumeqb (nth 8 x2 one) zero && fnumeqb (nth 16 x3 one) zero
  | _ => false
  end.

Section Run.
  Variable xi : list (list float).
  Variable repaired : bool.

  Definition fst_ := st float.
  Definition fstep : st float -> op float -> st float * out float :=
    @step float fnumeqb (fpoints xi) repaired PrimFloat.zero.
  Definition finit (lo hi : float) (maxiv : nat) : st float :=
    @init float fnumeqb (fpoints xi) repaired PrimFloat.zero lo hi maxiv.

  (* [o_bounds] and [o_pending] are sent by the harness on every 8th step and on
     the last one only (file size); the cheap components on every step *)
  Record obs := mkobs {
    o_live : list (nat * nat);                     (* (id, depth) of self.ivals, sorted by id *)
    o_approx : option (list nat);                  (* ids of approximating_intervals, sorted *)
    o_npoints : nat;
    o_npending : nat;
    o_bounds : option (list (float * float));      (* (a, b) of the live intervals, same order *)
    o_pending : option (list float)
  }.

  Definition sort_ids (l : list nat) : list nat := fold_left (fun acc i => nat_insert i acc) l [].

  Definition observe (s : st float) : obs :=
    mkobs (map (fun i => (i, depth (get PrimFloat.zero s i))) (sort_ids (live s)))
          (option_map sort_ids (approximating_intervals PrimFloat.zero s))
          (npoints s)
          (length (pending s))
          (Some (map (fun i => let iv := get PrimFloat.zero s i in (a iv, b iv)) (sort_ids (live s))))
          (Some (pending s)).

  Definition fmem (x : float) (l : list float) : bool := existsb (fnumeqb x) l.
  Definition fset_eqb (l1 l2 : list float) : bool :=
    Nat.eqb (length l1) (length l2) && forallb (fun x => fmem x l2) l1 && forallb (fun x => fmem x l1) l2.

  Definition obs_eqb (m e : obs) : bool :=
    list_eqb (pair_eqb Nat.eqb Nat.eqb) (o_live m) (o_live e) &&
    option_eqb (list_eqb Nat.eqb) (o_approx m) (o_approx e) &&
    Nat.eqb (o_npoints m) (o_npoints e) &&
    Nat.eqb (o_npending m) (o_npending e) &&
    match o_bounds e, o_bounds m with
    | Some be, Some bm => list_eqb (pair_eqb fnumeqb fnumeqb) bm be
    | _, _ => true
    end &&
    match o_pending e, o_pending m with
    | Some pe, Some pm => fset_eqb pm pe
    | _, _ => true
    end.

  Definition err_code (e : err) : nat :=
    match e with
    | ENone => 0 | EValue => 1 | ERuntime => 2 | EDivergent => 3 | EInternal _ => 4
    | EMissing => 5 | EHalted => 6
    end.

  (* expected output: points returned by ask, error kind *)
  Definition eout := (list float * nat)%type.
  Definition out_eqb (m : out float) (e : eout) : bool :=
    list_eqb fnumeqb (fst m) (fst e) && Nat.eqb (err_code (snd m)) (snd e).

  (* a case: lower bound, upper bound, max_ivals, steps *)
  Definition case := (float * float * nat * list (op float * eout * option obs))%type.

  (* the estimate's intervals form a cover of the root (Proofs: then they are a
     contiguous partition), and once non-empty they stay non-empty *)
  Definition cert_ok (seen : bool) (s : st float) : bool :=
    match approximating_intervals PrimFloat.zero s with
    | Some (k :: Sl) => partition_cert PrimFloat.zero s (k :: Sl)
    | Some [] => negb seen
    | None => false
    end.
  Definition has_estimate (s : st float) : bool :=
    match approximating_intervals PrimFloat.zero s with Some (_ :: _) => true | _ => false end.

  Fixpoint first_mismatch_i (seen : bool) (s : st float) (k : nat) (l : list (op float * eout * option obs)) : option nat :=
    match l with
    | [] => None
    | (o, eo, eb) :: l' =>
        let '(s', out) := fstep s o in
        if out_eqb out eo && match eb with Some b => obs_eqb (observe s') b | None => true end &&
           (halted s' || cert_ok seen s')
        then first_mismatch_i (seen || has_estimate s') s' (S k) l' else Some k
    end.

  Definition check (c : case) : option nat :=
    let '(lo, hi, maxiv, steps) := c in
    if xi_ok xi then first_mismatch_i false (finit lo hi maxiv) 0 steps else Some 0.

  Definition final (c : case) : st float :=
    let '(lo, hi, maxiv, steps) := c in
    fold_left (fun s o => fst (fstep s o)) (map (fun x => fst (fst x)) steps) (finit lo hi maxiv).

  (* the hypotheses of the theorems hold on this run: every interval ever
     created is non-degenerate and its midpoint lies strictly inside *)
  Definition is_legal (c : case) : bool :=
    xi_ok xi &&
    forallb (fun iv => PrimFloat.ltb (a iv) (b iv) &&
                       PrimFloat.ltb (a iv) (mid (fpoints xi) iv) && PrimFloat.ltb (mid (fpoints xi) iv) (b iv))
            (ivs (final c)).

  (* diagnostics: what the model says at each step *)
  Fixpoint trace_i (s : st float) (l : list (op float)) : list (nat * nat * obs) :=
    match l with
    | [] => []
    | o :: l' => let '(s', out) := fstep s o in
                 (length (fst out), (match snd out with EInternal k => 40 + k | e => err_code e end), observe s') :: trace_i s' l'
    end.
  Definition trace (c : case) :=
    let '(lo, hi, maxiv, steps) := c in trace_i (finit lo hi maxiv) (map (fun x => fst (fst x)) steps).
End Run.
