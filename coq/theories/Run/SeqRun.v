(* Correspondence driver for the SequenceLearner model: used by generated
   cases files.  Values are integer tags chosen by the harness. *)
From Coq Require Import ZArith PrimFloat.
From AV Require Import Base.Prelude Base.FloatUtil Model.Seq.

Record obs := mkobs {
  o_data : list (nat * Z);
  o_pend : list nat;
  o_npoints : nat;
  o_done : bool;
  o_loss_real : float;
  o_loss_exp : float;
  o_result : option (list Z)
}.

Definition loss_f (s : st Z) (real : bool) : float :=
  if done s then PrimFloat.zero
  else PrimFloat.div (Z2f (loss_num s real)) (nat2f (ntotal s)).

Definition observe (s : st Z) : obs :=
  mkobs (data s) (pend s) (npoints s) (done s) (loss_f s true) (loss_f s false) (result s).

Definition obs_eqb (a b : obs) : bool :=
  list_eqb (pair_eqb Nat.eqb Z.eqb) (o_data a) (o_data b) &&
  list_eqb Nat.eqb (o_pend a) (o_pend b) &&
  Nat.eqb (o_npoints a) (o_npoints b) &&
  Bool.eqb (o_done a) (o_done b) &&
  fnumeqb (o_loss_real a) (o_loss_real b) &&
  fnumeqb (o_loss_exp a) (o_loss_exp b) &&
  option_eqb (list_eqb Z.eqb) (o_result a) (o_result b).

Definition case := (nat * list (op Z * list nat * option obs))%type.

Definition check (c : case) : option nat :=
  first_mismatch (@step Z) observe (list_eqb Nat.eqb) obs_eqb (init Z (fst c)) 0 (snd c).

Definition is_legal (c : case) : bool := legal (init Z (fst c)) (map (fun x => fst (fst x)) (snd c)).

Definition trace (c : case) := model_trace (@step Z) observe (init Z (fst c)) (map (fun x => fst (fst x)) (snd c)).
