(* Correspondence driver for Model/DataSaver.v over a recorded child; used by
   the generated cases files of C18.  A full result is (picked value, tag);
   the picker of the model run is [fst]. *)
From Coq Require Import ZArith PrimFloat List.
From AV Require Import Base.Prelude Base.FloatUtil Model.GenericLearner Model.DataSaver Run.OracleChild.

Definition R := (float * Z)%type.

Record obs := mkobs {
  o_extra : list (pt * R);                 (* extra_data in insertion order *)
  o_npoints : nat;
  o_pending : list pt;
  o_data : option (list (pt * float));
  o_loss_r : float;
  o_loss_e : float;
  o_bad : bool
}.

Definition observe (s : dst OL R) : obs :=
  mkobs (extra s) (getattr (npoints OL) s) (getattr (pending OL) s)
        (Some (getattr (data OL) s)) (loss s true) (loss s false) (bad (child s)).

Definition obs_eqb (m e : obs) : bool :=
  list_eqb (fun a b => pt_eqb (fst a) (fst b) && fnumeqb (fst (snd a)) (fst (snd b))
                       && Z.eqb (snd (snd a)) (snd (snd b))) (o_extra m) (o_extra e) &&
  Nat.eqb (o_npoints m) (o_npoints e) &&
  list_eqb pt_eqb (o_pending m) (o_pending e) &&
  match o_data e, o_data m with
  | Some de, Some dm => list_eqb (fun a b => pt_eqb (fst a) (fst b) && fnumeqb (snd a) (snd b)) dm de
  | None, _ => true
  | _, _ => false
  end &&
  fnumeqb (o_loss_r m) (o_loss_r e) && fnumeqb (o_loss_e m) (o_loss_e e) &&
  Bool.eqb (o_bad m) (o_bad e).

Definition out_eqb (m e : lout OL) : bool :=
  match m, e with
  | LOAsk p v, LOAsk p' v' => list_eqb pt_eqb p p' && list_eqb fnumeqb v v'
  | LOLoss v, LOLoss v' => fnumeqb v v'
  | LONone, LONone => true
  | _, _ => false
  end.

(* The histories of the correspondence extend the DataSaver's own operations ([op], the subject of
   C18_bisimulation / C18_extra_data) by the two other ways its state changes:
   - [XSetData e]: load / copy_from / _set_data INTO the saver in its present state (which may already
     hold results) of a state whose extra_data was [e] -- Model/DataSaver.set_data, the subject of
     C18_roundtrip; the wrapped learner's own _set_data is a recorded call ([CSetData]);
   - [XInner c]: a call made on the wrapped learner directly, bypassing the DataSaver (data fed to
     saver.learner): the DataSaver's own fields do not change. *)
Inductive xop :=
| XOp (o : op OL R)
| XSetData (e : list (pt * R))
| XInner (c : ccall).

Definition xstep (s : dst OL R) (o : xop) : dst OL R * lout OL :=
  match o with
  | XOp o => step fst s o
  | XSetData e => (set_data s (tt, e), LONone)
  | XInner c => (@DataSaver.mk OL R (snd (advance (child s) c)) (extra s), LONone)
  end.

Definition xrun (s : dst OL R) (h : list xop) : dst OL R := fold_left (fun s o => fst (xstep s o)) h s.

Definition case := ((list entry * snap) * list (xop * lout OL * option obs))%type.

Definition init_of (c : case) : dst OL R := DataSaver.init OL R (child0 (fst (fst c)) (snd (fst c))).

Definition check (c : case) : option nat :=
  first_mismatch xstep observe out_eqb obs_eqb (init_of c) 0 (snd c).

Definition is_legal (c : case) : bool :=
  negb (bad (child (xrun (init_of c) (map (fun x => fst (fst x)) (snd c))))).

(* on histories of DataSaver operations only, [xrun] is the model's [run] *)
Lemma xrun_ops : forall (h : list (op OL R)) (s : dst OL R), xrun s (map XOp h) = run fst s h.
Proof. induction h as [|o h IH]; intro s; [reflexivity|]. exact (IH (fst (step fst s o))). Qed.
