(* Correspondence driver for Model/DataSaver.v over a recorded child; used by
   the generated cases files of C18.  A full result is (picked value, tag);
   the picker of the model run is [fst]. *)
From Coq Require Import ZArith PrimFloat.
From AV Require Import Base.Prelude Base.FloatUtil Model.GenericLearner Model.DataSaver Run.OracleChild.

Definition R := (float * Z)%type.

Record obs := mkobs {
  o_extra : list (pt * R);                 (* extra_data in insertion order *)
  o_npoints : nat;
  o_pending : list pt;
  o_data : option (list (pt * float));
  o_loss_r : float;
  o_loss_e : float;
  o_bad : bool
}.

Definition observe (s : dst OL R) : obs :=
  mkobs (extra s) (getattr (npoints OL) s) (getattr (pending OL) s)
        (Some (getattr (data OL) s)) (loss s true) (loss s false) (bad (child s)).

Definition obs_eqb (m e : obs) : bool :=
  list_eqb (fun a b => pt_eqb (fst a) (fst b) && fnumeqb (fst (snd a)) (fst (snd b))
                       && Z.eqb (snd (snd a)) (snd (snd b))) (o_extra m) (o_extra e) &&
  Nat.eqb (o_npoints m) (o_npoints e) &&
  list_eqb pt_eqb (o_pending m) (o_pending e) &&
  match o_data e, o_data m with
  | Some de, Some dm => list_eqb (fun a b => pt_eqb (fst a) (fst b) && fnumeqb (snd a) (snd b)) dm de
  | None, _ => true
  | _, _ => false
  end &&
  fnumeqb (o_loss_r m) (o_loss_r e) && fnumeqb (o_loss_e m) (o_loss_e e) &&
  Bool.eqb (o_bad m) (o_bad e).

Definition out_eqb (m e : lout OL) : bool :=
  match m, e with
  | LOAsk p v, LOAsk p' v' => list_eqb pt_eqb p p' && list_eqb fnumeqb v v'
  | LOLoss v, LOLoss v' => fnumeqb v v'
  | LONone, LONone => true
  | _, _ => false
  end.

Definition case := ((list entry * snap) * list (op OL R * lout OL * option obs))%type.

Definition init_of (c : case) : dst OL R := DataSaver.init OL R (child0 (fst (fst c)) (snd (fst c))).

Definition check (c : case) : option nat :=
  first_mismatch (@step OL R fst) observe out_eqb obs_eqb (init_of c) 0 (snd c).

Definition is_legal (c : case) : bool :=
  negb (bad (child (run fst (init_of c) (map (fun x => fst (fst x)) (snd c))))).
