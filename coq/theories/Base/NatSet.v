(* Lemmas about sorted duplicate-free lists of naturals used as sets. *)
From AV Require Import Base.Prelude.
From Coq Require Import Sorted.

Definition sorted (l : list nat) : Prop := StronglySorted lt l.

Lemma sorted_nil : sorted []. Proof. constructor. Qed.

Lemma sorted_cons_inv x l : sorted (x :: l) -> sorted l /\ Forall (lt x) l.
Proof. intros H; inversion H; auto. Qed.

Lemma sorted_NoDup l : sorted l -> NoDup l.
Proof.
  induction l as [|x l IH]; intros H; [constructor|].
  apply sorted_cons_inv in H as [Hs Hf]. constructor; auto.
  intros Hin. rewrite Forall_forall in Hf. specialize (Hf _ Hin). lia.
Qed.

Lemma nat_mem_In x l : nat_mem x l = true <-> In x l.
Proof.
  unfold nat_mem. rewrite existsb_exists. split.
  - intros [y [Hy He]]. apply Nat.eqb_eq in He. subst; auto.
  - intros H. exists x. split; auto. apply Nat.eqb_refl.
Qed.

Lemma nat_insert_In x y l : In y (nat_insert x l) <-> y = x \/ In y l.
Proof.
  induction l as [|z l IH]; cbn [nat_insert In].
  - intuition.
  - destruct (Nat.ltb_spec x z) as [E1|E1]; [cbn [In]; intuition|].
    destruct (Nat.eqb_spec x z) as [E2|E2].
    + subst. cbn [In]. intuition.
    + cbn [In]. rewrite IH. intuition.
Qed.

Lemma nat_insert_sorted x l : sorted l -> sorted (nat_insert x l).
Proof.
  induction l as [|z l IH]; cbn [nat_insert]; intros H.
  - repeat constructor.
  - destruct (Nat.ltb_spec x z) as [E1|E1].
    + constructor; auto. constructor; auto.
      apply sorted_cons_inv in H as [_ Hf]. apply Forall_impl with (P:=lt z); [intros; lia|exact Hf].
    + destruct (Nat.eqb_spec x z) as [E2|E2]; auto.
      apply sorted_cons_inv in H as [Hs Hf]. constructor; [apply IH; exact Hs|].
      rewrite Forall_forall in *. intros y Hy. apply nat_insert_In in Hy as [->|Hy]; [lia|auto].
Qed.

Lemma nat_remove_In x y l : In y (nat_remove x l) <-> In y l /\ y <> x.
Proof.
  induction l as [|z l IH]; cbn [nat_remove In]; [intuition|].
  destruct (Nat.eqb_spec x z) as [E|E].
  - subst. rewrite IH. intuition (subst; auto; try congruence).
  - cbn [In]. rewrite IH. intuition (subst; auto; try congruence).
Qed.

Lemma nat_remove_sorted x l : sorted l -> sorted (nat_remove x l).
Proof.
  induction l as [|z l IH]; cbn [nat_remove]; intros H; [constructor|].
  apply sorted_cons_inv in H as [Hs Hf].
  destruct (Nat.eqb_spec x z); [apply IH; exact Hs|]. constructor; [apply IH; exact Hs|].
  rewrite Forall_forall in *. intros y Hy. apply nat_remove_In in Hy as [Hy _]. auto.
Qed.

Lemma nat_remove_notin x l : ~ In x l -> nat_remove x l = l.
Proof.
  induction l as [|z l IH]; cbn [nat_remove In]; intros H; auto.
  destruct (Nat.eqb_spec x z) as [E|E].
  - subst. intuition.
  - f_equal. apply IH. intuition.
Qed.

Lemma fold_insert_In (add : list nat) : forall base y,
  In y (fold_left (fun acc i => nat_insert i acc) add base) <-> In y add \/ In y base.
Proof.
  induction add as [|a add IH]; cbn; intros base y; [intuition|].
  rewrite IH, nat_insert_In. intuition.
Qed.

Lemma fold_insert_sorted (add : list nat) : forall base,
  sorted base -> sorted (fold_left (fun acc i => nat_insert i acc) add base).
Proof.
  induction add as [|a add IH]; cbn; intros base H; auto.
  apply IH. apply nat_insert_sorted; auto.
Qed.

Lemma seq_sorted n s : sorted (seq s n).
Proof.
  revert s; induction n as [|n IH]; intros s; cbn; [constructor|].
  constructor; [apply IH|]. apply Forall_forall. intros y Hy. apply in_seq in Hy. lia.
Qed.

(* Two sorted lists with the same elements are equal. *)
Lemma sorted_ext l1 : forall l2, sorted l1 -> sorted l2 ->
  (forall x, In x l1 <-> In x l2) -> l1 = l2.
Proof.
  induction l1 as [|a l1 IH]; intros [|b l2] H1 H2 Hx.
  - reflexivity.
  - exfalso. apply (proj2 (Hx b)). left; auto.
  - exfalso. apply (proj1 (Hx a)). left; auto.
  - apply sorted_cons_inv in H1 as [Hs1 Hf1]. apply sorted_cons_inv in H2 as [Hs2 Hf2].
    rewrite Forall_forall in Hf1, Hf2.
    assert (a = b).
    { destruct (proj1 (Hx a) (or_introl eq_refl)) as [->|Ha]; auto.
      destruct (proj2 (Hx b) (or_introl eq_refl)) as [->|Hb]; auto.
      specialize (Hf1 _ Hb). specialize (Hf2 _ Ha). lia. }
    subst b. f_equal. apply IH; auto.
    intros x. split; intros Hin.
    + destruct (proj1 (Hx x) (or_intror Hin)) as [<-|]; auto. specialize (Hf1 _ Hin). lia.
    + destruct (proj2 (Hx x) (or_intror Hin)) as [<-|]; auto. specialize (Hf2 _ Hin). lia.
Qed.

Lemma In_firstn {A} (y : A) n : forall l, In y (firstn n l) -> In y l.
Proof.
  induction n as [|n IH]; intros [|a l]; cbn; try tauto.
  intros [->|H]; auto.
Qed.

Lemma firstn_sorted n l : sorted l -> sorted (firstn n l).
Proof.
  revert n; induction l as [|a l IH]; intros [|n] H; cbn; try constructor.
  - apply IH. apply sorted_cons_inv in H; tauto.
  - apply sorted_cons_inv in H as [_ Hf]. rewrite Forall_forall in *.
    intros y Hy. apply Hf. eapply In_firstn; eauto.
Qed.

Lemma NoDup_app_disj {A} (l1 l2 : list A) :
  NoDup l1 -> NoDup l2 -> (forall x, In x l1 -> ~ In x l2) -> NoDup (l1 ++ l2).
Proof.
  induction l1 as [|a l1 IH]; cbn [app]; intros H1 H2 Hd; [exact H2|].
  inversion H1 as [|? ? Hna H1']; subst. constructor.
  - rewrite in_app_iff. intros [H|H]; [contradiction|]. apply (Hd a); [left; reflexivity|exact H].
  - apply IH; auto. intros x Hx. apply Hd. right; exact Hx.
Qed.
