(* Membership is preserved by the insertion sort of Model/L1D.v. *)
From AV Require Import Base.Prelude Model.L1D.

Lemma sort_insert_In {A} (lt' : A -> A -> bool) a l (y : A) : In y (sort_insert lt' a l) <-> y = a \/ In y l.
Proof.
  induction l as [|b l IH]; cbn [sort_insert In]; [intuition|].
  destruct (lt' b a); cbn [In]; [rewrite IH|]; intuition.
Qed.

Lemma sort_by_In {A} (lt' : A -> A -> bool) l (y : A) : In y (sort_by lt' l) <-> In y l.
Proof.
  unfold sort_by.
  assert (H : forall acc, In y (fold_left (fun acc0 e => sort_insert lt' e acc0) l acc) <-> In y l \/ In y acc).
  { induction l as [|a l IH]; intros acc; cbn [fold_left In]; [tauto|].
    rewrite IH, sort_insert_In. intuition. }
  rewrite H. cbn [In]. tauto.
Qed.
