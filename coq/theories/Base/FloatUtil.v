(* Helpers for models that execute in IEEE-754 binary64 (Coq primitive floats).
   Only PrimFloat / Uint63 are imported (not Floats), so no axiom enters. *)
From Coq Require Import ZArith PrimFloat Uint63.
From Coq Require Import List. Import ListNotations.

Definition Z2f (z : Z) : float :=
  match z with
  | Z0 => PrimFloat.zero
  | Zpos _ => PrimFloat.of_uint63 (Uint63.of_Z z)
  | Zneg p => PrimFloat.opp (PrimFloat.of_uint63 (Uint63.of_Z (Zpos p)))
  end.
Definition nat2f (n : nat) : float := Z2f (Z.of_nat n).

(* bit-for-bit style equality: nan = nan, +0 <> -0 is NOT distinguished by
   PrimFloat.eqb, so compare the sign of 1/x as well *)
Definition feqb (a b : float) : bool :=
  if PrimFloat.is_nan a then PrimFloat.is_nan b
  else PrimFloat.eqb a b &&
       Bool.eqb (PrimFloat.ltb (PrimFloat.div PrimFloat.one a) PrimFloat.zero)
                (PrimFloat.ltb (PrimFloat.div PrimFloat.one b) PrimFloat.zero).

(* numeric equality (Python's ==, except nan = nan) *)
Definition fnumeqb (a b : float) : bool :=
  if PrimFloat.is_nan a then PrimFloat.is_nan b else PrimFloat.eqb a b.
