(* Common definitions for every model: generic step-by-step comparison of a
   model against recorded observations of the implementation (used only by
   the generated cases files), and a few list utilities.  No axioms. *)
From Coq Require Export List Arith Bool Lia PeanoNat.
Export ListNotations.

Set Implicit Arguments.

(* ------------------------------------------------------------------ *)
(* Correspondence driver.  A case is an initial state plus a list of
   (operation, output recorded from the implementation, optional observation
   of the implementation's state after the operation).  [first_mismatch] returns
   the index of the first step at which the model disagrees. *)
Section Compare.
  Variables St Op Out Obs : Type.
  Variable step : St -> Op -> St * Out.
  Variable obs : St -> Obs.
  Variable out_eqb : Out -> Out -> bool.
  Variable obs_eqb : Obs -> Obs -> bool.

  (* the expected observation is optional: [None] = the harness did not look
     at the implementation's state after this step (e.g. inside a batch) *)
  Fixpoint first_mismatch (s : St) (k : nat) (l : list (Op * Out * option Obs)) : option nat :=
    match l with
    | [] => None
    | (o, eo, eb) :: l' =>
        let '(s', out) := step s o in
        if out_eqb out eo && match eb with Some b => obs_eqb (obs s') b | None => true end
        then first_mismatch s' (S k) l' else Some k
    end.

  (* what the model says at step [k] (for diagnostics in replay files) *)
  Fixpoint model_trace (s : St) (l : list Op) : list (Out * Obs) :=
    match l with
    | [] => []
    | o :: l' => let '(s', out) := step s o in (out, obs s') :: model_trace s' l'
    end.
End Compare.

Fixpoint mismatches_aux {A} (chk : A -> option nat) (k : nat) (cs : list A) : list (nat * nat) :=
  match cs with
  | [] => []
  | c :: cs' => match chk c with
                | Some i => (k, i) :: mismatches_aux chk (S k) cs'
                | None => mismatches_aux chk (S k) cs'
                end
  end.
Definition mismatches {A} (chk : A -> option nat) (cs : list A) := mismatches_aux chk 0 cs.

Fixpoint count_true {A} (p : A -> bool) (l : list A) : nat :=
  match l with [] => 0 | x :: l' => (if p x then 1 else 0) + count_true p l' end.

(* ------------------------------------------------------------------ *)
(* equality tests on containers *)
Fixpoint list_eqb {A} (e : A -> A -> bool) (l1 l2 : list A) : bool :=
  match l1, l2 with
  | [], [] => true
  | x :: l1', y :: l2' => e x y && list_eqb e l1' l2'
  | _, _ => false
  end.

Definition option_eqb {A} (e : A -> A -> bool) (a b : option A) : bool :=
  match a, b with
  | None, None => true
  | Some x, Some y => e x y
  | _, _ => false
  end.

Definition pair_eqb {A B} (ea : A -> A -> bool) (eb : B -> B -> bool) (p q : A * B) : bool :=
  ea (fst p) (fst q) && eb (snd p) (snd q).

Lemma list_eqb_spec {A} (e : A -> A -> bool) :
  (forall x y, e x y = true <-> x = y) ->
  forall l1 l2, list_eqb e l1 l2 = true <-> l1 = l2.
Proof.
  intros He l1; induction l1 as [|x l1 IH]; intros [|y l2]; cbn; try (split; congruence).
  rewrite andb_true_iff, He, IH. split; [intros [-> ->]; reflexivity | intros H; inversion H; auto].
Qed.

(* ------------------------------------------------------------------ *)
(* sorted lists of naturals used as sets *)
Fixpoint nat_insert (x : nat) (l : list nat) : list nat :=
  match l with
  | [] => [x]
  | y :: l' => if x <? y then x :: l
               else if x =? y then l
               else y :: nat_insert x l'
  end.

Fixpoint nat_remove (x : nat) (l : list nat) : list nat :=
  match l with
  | [] => []
  | y :: l' => if x =? y then nat_remove x l' else y :: nat_remove x l'
  end.

Definition nat_mem (x : nat) (l : list nat) : bool := existsb (Nat.eqb x) l.
