(* Round trips (property C13): _get_data / _set_data (used by save/load,
   copy_from and, inside __getstate__/__setstate__, by pickling) as pure
   functions on the models.  The byte layer (cloudpickle, gzip, the file) is
   the identity in the model.

   SequenceLearner: _get_data = data; _set_data on a fresh learner = tell_many
   of all items.  With nothing pending the whole state is a function of the
   data, so the restored state EQUALS the original.
   Averaging specification: the four attributes are copied verbatim.
   Learner1D: see Proofs/OrderL1D.v ([l1d_data_roundtrip]). *)
From AV Require Import Base.Prelude Base.NatSet Model.AvgSpec Model.Seq Proofs.SeqProofs Proofs.OrderProofs.
From Coq Require Import Sorted Permutation ZArith.

Section SeqRoundtrip.
  Variable V : Type.
  Notation st := (Seq.st V).
  Implicit Types (s : st) (d : list (nat * V)).

  Definition seq_get_data s : list (nat * V) := data s.
  Definition seq_set_data s d : st := match d with [] => s | _ => seq_tell_many s d end.

  Definition dset1 d (p : nat * V) := data_set (fst p) (snd p) d.
  Definition rem1 (t : list nat) (p : nat * V) := nat_remove (fst p) t.

  Lemma fold_tell_fields (l : list (nat * V)) : forall s,
    seq_tell_many s l = mk (ntotal s) (fold_left rem1 l (todo s)) (fold_left rem1 l (pend s))
                           (fold_left dset1 l (data s)).
  Proof.
    induction l as [|p l IH]; intros s; unfold seq_tell_many in *; cbn [fold_left].
    - destruct s; reflexivity.
    - rewrite IH. unfold tell1, tell; cbn [ntotal todo pend data]. reflexivity.
  Qed.

  Lemma data_set_append i v d : Forall (fun k => k < i) (map fst d) -> data_set i v d = d ++ [(i, v)].
  Proof.
    induction d as [|[k u] d IH]; cbn [data_set map fst app]; intros H; [reflexivity|].
    inversion H as [|? ? Hk Hf]; subst.
    destruct (Nat.ltb_spec i k); [lia|]. destruct (Nat.eqb_spec i k); [lia|].
    rewrite IH by exact Hf. reflexivity.
  Qed.

  Lemma sorted_app_lt (l1 : list nat) x (l2 : list nat) : sorted (l1 ++ x :: l2) -> Forall (fun k => k < x) l1.
  Proof.
    induction l1 as [|k l1 IH]; cbn [app]; intros H; [constructor|].
    apply sorted_cons_inv in H as [Hs Hf]. constructor; [|apply IH; exact Hs].
    rewrite Forall_forall in Hf. apply Hf. apply in_or_app. right. left. reflexivity.
  Qed.

  Lemma fold_dset_rebuild (l : list (nat * V)) : forall acc, sorted (map fst (acc ++ l)) ->
    fold_left dset1 l acc = acc ++ l.
  Proof.
    induction l as [|[i v] l IH]; intros acc H; cbn [fold_left]; [rewrite app_nil_r; reflexivity|].
    change (dset1 acc (i, v)) with (data_set i v acc). rewrite data_set_append.
    - rewrite IH; rewrite <- app_assoc; [reflexivity|exact H].
    - rewrite map_app in H. cbn [map fst] in H. eapply sorted_app_lt. exact H.
  Qed.

  Lemma fold_rem_In (l : list (nat * V)) : forall t i,
    In i (fold_left rem1 l t) <-> In i t /\ ~ In i (map fst l).
  Proof.
    induction l as [|p l IH]; intros t i; cbn [fold_left map In]; [tauto|].
    rewrite IH. change (rem1 t p) with (nat_remove (fst p) t). rewrite nat_remove_In. intuition.
  Qed.

  Lemma fold_rem_sorted (l : list (nat * V)) : forall t, sorted t -> sorted (fold_left rem1 l t).
  Proof.
    induction l as [|p l IH]; intros t H; cbn [fold_left]; [exact H|]. apply IH. apply nat_remove_sorted. exact H.
  Qed.

  Lemma fold_rem_nil (l : list (nat * V)) : fold_left rem1 l [] = [].
  Proof. induction l as [|p l IH]; cbn [fold_left]; [reflexivity|exact IH]. Qed.

  (* with nothing pending, an invariant-satisfying state is determined by its data *)
  Theorem seq_roundtrip_inv s : Inv s -> pend s = [] ->
    seq_set_data (init V (ntotal s)) (seq_get_data s) = s.
  Proof.
    intros HI Hp. unfold seq_get_data.
    assert (E : seq_tell_many (init V (ntotal s)) (data s) = s).
    { rewrite fold_tell_fields. cbn [init ntotal todo pend data].
      rewrite fold_rem_nil, (fold_dset_rebuild (data s) []) by (apply (inv_keys_sorted _ _ HI)).
      cbn [app].
      assert (Et : fold_left rem1 (data s) (seq 0 (ntotal s)) = todo s).
      { apply sorted_ext.
        - apply fold_rem_sorted, seq_sorted.
        - apply (inv_todo_sorted _ _ HI).
        - intros i. rewrite fold_rem_In, in_seq. fold (keys s). split.
          + intros [Hlt Hk]. assert (Hi : i < ntotal s) by lia.
            apply (inv_cover _ _ HI) in Hi as [Ht|[Hpd|Hk']]; [exact Ht| |contradiction].
            rewrite Hp in Hpd. destruct Hpd.
          + intros Ht. split; [|apply (inv_td _ _ HI); exact Ht].
            assert (i < ntotal s) by (apply (inv_cover _ _ HI); left; exact Ht). lia. }
      rewrite Et. destruct s as [n t p d]. cbn in *. subst p. reflexivity. }
    unfold seq_set_data. destruct (data s) eqn:Ed; [|exact E].
    cbn in E. exact E.
  Qed.

  Theorem seq_roundtrip n (h : list (op V)) :
    legal (init V n) h = true -> pend (reach V n h) = [] ->
    seq_set_data (init V n) (seq_get_data (reach V n h)) = reach V n h.
  Proof.
    intros Hl Hp. pose proof (seq_roundtrip_inv _ (partition_inv V n h Hl) Hp) as H.
    unfold reach in *. rewrite ntotal_run in H. exact H.
  Qed.
End SeqRoundtrip.

Section AvgRoundtrip.
  Variable num : Type.
  Variables (add mul : num -> num -> num) (zero : num).
  Notation st := (AvgSpec.st num).
  Notation init := (AvgSpec.init zero).
  Notation is_canon := (OrderProofs.is_canon add mul zero).

  (* the four attributes survive; with nothing pending the state is equal *)
  Theorem avg_roundtrip (s : st) : AvgSpec.pend s = [] ->
    AvgSpec.set_data init (AvgSpec.get_data s) = s.
  Proof. destruct s as [d p n sf sq]; cbn. intros ->. reflexivity. Qed.

  Theorem avg_roundtrip_fields (s : st) :
    let r := AvgSpec.set_data init (AvgSpec.get_data s) in
    AvgSpec.data r = AvgSpec.data s /\ AvgSpec.npoints r = AvgSpec.npoints s /\
    AvgSpec.sum_f r = AvgSpec.sum_f s /\ AvgSpec.sum_f_sq r = AvgSpec.sum_f_sq s.
  Proof. destruct s; cbn. repeat split. Qed.
End AvgRoundtrip.

(* ------------------------------------------------------------------ *)
(* The wrappers hand the payload of their children through unchanged:
   DataSaver._get_data = (learner._get_data(), extra_data),
   BalancingLearner._get_data = [child._get_data() for child in learners];
   _set_data distributes it again.  Whatever round-trip property the children
   have is inherited, and extra_data is restored verbatim. *)
Section Wrappers.
  Variables (C B D E : Type).              (* child state, child payload, child observable, extra data *)
  Variables (cget : C -> B) (cset : C -> B -> C) (cnew : C -> C) (cobs : C -> D).
  Variable good : C -> Prop.
  Hypothesis child_roundtrip : forall c, good c -> cobs (cset (cnew c) (cget c)) = cobs c.

  (* DataSaver *)
  Definition ds_get (s : C * E) : B * E := (cget (fst s), snd s).
  Definition ds_set (s : C * E) (p : B * E) : C * E := (cset (fst s) (fst p), snd p).
  Definition ds_new (empty : E) (s : C * E) : C * E := (cnew (fst s), empty).

  Theorem datasaver_roundtrip empty (s : C * E) : good (fst s) ->
    cobs (fst (ds_set (ds_new empty s) (ds_get s))) = cobs (fst s) /\
    snd (ds_set (ds_new empty s) (ds_get s)) = snd s.
  Proof. intros H. destruct s as [c e]; cbn in *. split; [apply child_roundtrip; exact H|reflexivity]. Qed.

  (* BalancingLearner *)
  Definition bl_get (cs : list C) : list B := map cget cs.
  Definition bl_set (cs : list C) (bs : list B) : list C := map (fun p => cset (fst p) (snd p)) (combine cs bs).
  Definition bl_new (cs : list C) : list C := map cnew cs.

  Theorem balancing_roundtrip (cs : list C) : Forall good cs ->
    map cobs (bl_set (bl_new cs) (bl_get cs)) = map cobs cs.
  Proof.
    unfold bl_set, bl_new, bl_get. induction cs as [|c cs IH]; intros H; [reflexivity|].
    inversion H as [|? ? Hc Hcs]; subst. cbn [map combine fst snd].
    rewrite (child_roundtrip c Hc), (IH Hcs). reflexivity.
  Qed.

  (* no child is skipped: the restored wrapper has as many children *)
  Theorem balancing_roundtrip_length (cs : list C) :
    length (bl_set (bl_new cs) (bl_get cs)) = length cs.
  Proof. unfold bl_set, bl_new, bl_get. rewrite map_length, combine_length, !map_length. apply Nat.min_id. Qed.
End Wrappers.
Arguments ds_get {C B E}. Arguments ds_set {C B E}. Arguments ds_new {C E}.
Arguments bl_get {C B}. Arguments bl_set {C B}. Arguments bl_new {C}.
