(* With _recompute_losses_factor = 1 the loss table of the Learner1D model is
   a FUNCTION OF THE DATA: any two legal histories -- whatever the order of the
   tells, incremental or batched, whatever was asked, marked pending or
   discarded in between -- that end with the same data have the same
   neighbours, the same y-scale, the same loss table and (given the same
   missing end points) the same loss(real=True).  (C11 for the loss table,
   C01 "exact when set to 1".)   Scalar outputs, no NaN.

   Ingredients: Proofs/L1DBracket.v (factor 1 => every stored loss is get_loss
   of the current state), and two more invariants proved here:
   KInv  the evaluated neighbours are exactly the keys of the data;
   MInv  the y bounding box is the (attained) minimum and maximum of the data
         values -- for the incremental updates and for the batch rebuild. *)
From AV Require Import Base.Prelude Base.SortLemmas Model.L1D Proofs.L1DOrder Proofs.L1DMaps
  Proofs.L1DStruct Proofs.L1DLoss Proofs.L1DValues Proofs.L1DBatch Proofs.L1DBracket.
Set Implicit Arguments.

Section Canonical.
  Variable num : Type.
  Variables (add sub mul div : num -> num -> num).
  Variables (ltb eqb : num -> num -> bool).
  Variables (zero one inf neg_inf : num).
  Variables (is_nan is_inf : num -> bool).
  Variable round12 : num -> num.
  Variable of_nat : nat -> num.
  Variable L : list (option num) -> list (option (Y num)) -> num.
  Variable P : params num.
  Hypothesis OL : OrdLaws ltb eqb.
  Hypothesis NoNaN : forall z, is_nan z = false.

  Notation st := (st num).
  Notation ival := (num * num)%type.
  Notation le := (le ltb).
  Notation insert := (@insert num ltb eqb).
  Notation dget := (@dget num eqb).
  Notation dset := (@dset num ltb eqb).
  Notation lget := (@lget num eqb).
  Notation keys := (@keys num).
  Notation SInv := (@SInv num ltb eqb).
  Notation VInv := (@VInv num sub mul div ltb eqb zero one L P).
  Notation BInv := (@BInv num sub mul div ltb eqb zero one L P).
  Notation DScal := (@DScal num).
  Notation Inv := (@Inv num sub mul div ltb eqb zero one L P).
  Notation BFull := (@BFull num sub mul div ltb eqb zero one L P).
  Notation get_loss := (@get_loss num sub div ltb eqb zero one L P).
  Notation update_interp := (@update_interp num sub mul div ltb eqb zero one L P).
  Notation update_losses := (@update_losses num sub mul div ltb eqb zero one inf L P).
  Notation update_scale := (@update_scale num sub ltb zero inf neg_inf is_nan).
  Notation tell := (@tell num sub mul div ltb eqb zero one inf neg_inf is_nan is_inf round12 L P).
  Notation tell_pending := (@tell_pending num sub mul div ltb eqb zero one inf L P).
  Notation tell_many_batch := (@tell_many_batch num sub mul div ltb eqb zero one inf is_nan L P).
  Notation step := (@step num add sub mul div ltb eqb zero one inf neg_inf is_nan is_inf round12 of_nat L P).
  Notation run := (@run num add sub mul div ltb eqb zero one inf neg_inf is_nan is_inf round12 of_nat L P).
  Notation init := (@init num sub zero inf neg_inf P).
  Notation in_bounds := (L1D.in_bounds ltb eqb P).
  Notation legal_op := (@L1DBatch.legal_op num sub mul div ltb eqb zero one inf is_nan L P).
  Notation legal := (@L1DBatch.legal num add sub mul div ltb eqb zero one inf neg_inf is_nan is_inf round12 of_nat L P).
  Notation scalar_op := (@scalar_op num).
  Notation loss := (@L1D.loss num sub div ltb eqb inf is_nan is_inf round12 P).
  Notation missing_bounds := (@missing_bounds num eqb P).
  Notation dkeys := (@dkeys num).

  (* ---------------- the quantifier domain ---------------- *)
  (* scalar values between the two infinities that initialise the bounding box *)
  Definition bounded_y (y : Y num) : bool :=
    match y with YS v => negb (ltb inf v) && negb (ltb v neg_inf) | YV _ => false end.

  Definition batch_path (s : st) (xys : list (num * Y num)) (force : bool) : bool :=
    negb (negb force && negb ((length (data s) <? 2 * length xys) && (2 <? length xys))).

  Definition some_data (xys : list (num * Y num)) (d : list (num * Y num)) : bool :=
    match xys with [] => match d with [] => false | _ :: _ => true end | _ :: _ => true end.

  (* a batched tell that leaves the learner without any data is an error in the
     code (min of an empty array) *)
  Definition canon_op (s : st) (o : op num) : bool :=
    match o with
    | Tell _ y => bounded_y y
    | TellMany xys force =>
        forallb (fun xy => bounded_y (snd xy)) xys &&
        (negb (batch_path s xys force) || some_data xys (data s))
    | _ => true
    end.

  Fixpoint clegal (s : st) (h : list (op num)) : bool :=
    match h with
    | [] => true
    | o :: h' => legal_op s o && canon_op s o && clegal (fst (step s o)) h'
    end.

  Lemma bounded_is_ys y : bounded_y y = true -> is_ys y = true.
  Proof. destruct y; [reflexivity|discriminate]. Qed.

  Lemma canon_scalar s o : canon_op s o = true -> scalar_op o = true.
  Proof.
    destruct o as [x y|x|xys force| |n c]; cbn; try reflexivity; [apply bounded_is_ys|].
    intros H. apply andb_true_iff in H as [H _]. rewrite forallb_forall in *.
    intros xy Hxy. apply bounded_is_ys, H, Hxy.
  Qed.

  Lemma clegal_legal h : forall s, clegal s h = true -> legal s h = true /\ forallb scalar_op h = true.
  Proof.
    induction h as [|o h IH]; intros s H; [split; reflexivity|].
    cbn [clegal] in H. apply andb_true_iff in H as [H H3]. apply andb_true_iff in H as [H1 H2].
    destruct (IH _ H3) as [I1 I2]. cbn [L1DBatch.legal forallb]. rewrite H1, I1, I2, (canon_scalar _ _ H2). split; reflexivity.
  Qed.

  (* ---------------- KInv: neighbours = keys of the data ---------------- *)
  Definition KInv (s : st) : Prop := nb s = dkeys (data s).

  Lemma dkeys_dset x (y : Y num) d : dget x d = None -> dkeys (dset x y d) = insert x (dkeys d).
  Proof.
    unfold L1DBatch.dkeys. induction d as [|[k v] d IH]; cbn [L1D.dget L1D.dset L1D.insert map fst]; intros H; [reflexivity|].
    destruct (eqb x k) eqn:E; [discriminate|]. destruct (ltb x k); cbn [map fst]; [reflexivity|].
    f_equal. apply IH. exact H.
  Qed.

  (* ---------------- MInv: the box is the min / max of the data ---------------- *)
  Definition MM (d : list (num * Y num)) (b0 b1 : num) : Prop :=
    (forall x v, In (x, YS v) d -> le b0 v /\ le v b1) /\
    (exists x, In (x, YS b0) d) /\ (exists x, In (x, YS b1) d).

  Definition MInv (s : st) : Prop :=
    (data s = [] /\ bby s = (YS inf, YS neg_inf) /\ sy s = zero) \/
    (exists b0 b1, bby s = (YS b0, YS b1) /\ MM (data s) b0 b1).

  Lemma minv_fields (s s' : st) : data s' = data s -> bby s' = bby s -> sy s' = sy s -> MInv s -> MInv s'.
  Proof. intros E1 E2 E3 H. unfold MInv in *. rewrite E1, E2, E3. exact H. Qed.

  Lemma MM_unique d b0 b1 c0 c1 : MM d b0 b1 -> MM d c0 c1 -> b0 = c0 /\ b1 = c1.
  Proof.
    intros [B [[x0 B0] [x1 B1]]] [C [[z0 C0] [z1 C1]]]. split; apply (le_antisym OL).
    - exact (proj1 (B _ _ C0)).
    - exact (proj1 (C _ _ B0)).
    - exact (proj2 (C _ _ B1)).
    - exact (proj2 (B _ _ C1)).
  Qed.

  Lemma dset_In_new x (y : Y num) d : In (x, y) (dset x y d).
  Proof.
    induction d as [|[k v] d IH]; cbn [L1D.dset]; [left; reflexivity|].
    destruct (ltb x k); [left; reflexivity|]. destruct (eqb x k); [left; reflexivity|right; exact IH].
  Qed.

  Lemma dset_In_old x (y : Y num) d z w : dget x d = None -> In (z, w) d -> In (z, w) (dset x y d).
  Proof.
    induction d as [|[k v] d IH]; cbn [L1D.dget L1D.dset]; intros Hd Hin; [destruct Hin|].
    destruct (eqb x k) eqn:E; [discriminate|]. destruct (ltb x k); [right; exact Hin|].
    destruct Hin as [Hin|Hin]; [left; exact Hin|right; apply IH; assumption].
  Qed.

  Lemma pmin_top v : ltb inf v = false -> L1D.pmin ltb inf v = v.
  Proof.
    intros H. unfold L1D.pmin. destruct (ltb v inf) eqn:E; [reflexivity|].
    destruct (trichotomy OL v inf) as [T|[T|T]]; unfold L1DOrder.lt in *; congruence.
  Qed.
  Lemma pmax_bot v : ltb v neg_inf = false -> L1D.pmax ltb neg_inf v = v.
  Proof.
    intros H. unfold L1D.pmax. destruct (ltb neg_inf v) eqn:E; [reflexivity|].
    destruct (trichotomy OL v neg_inf) as [T|[T|T]]; unfold L1DOrder.lt in *; congruence.
  Qed.

  Lemma tell_minv (s : st) x v : SInv s -> VInv s -> in_bounds x = true -> bounded_y (YS v) = true ->
    MInv s -> MInv (tell s x (YS v)).
  Proof.
    intros HI HV Hb Hbd HM.
    destruct (dget x (data s)) as [w|] eqn:Hd.
    { unfold L1D.tell. rewrite Hd. exact HM. }
    cbn [bounded_y] in Hbd. apply andb_true_iff in Hbd as [Hb1 Hb2]. apply negb_true_iff in Hb1, Hb2.
    assert (HG : forall iv, In iv (keys (los s)) -> exists g, ScaleOK mul ltb P s g /\
              lget iv (los s) = Some (loss_of sub div ltb eqb zero one L P (nb s) (data s) (sx s) g (fst iv) (snd iv)))
      by exact (v_vals HV).
    pose proof (@tell_values_gen num add sub mul div ltb eqb zero one inf neg_inf is_nan is_inf round12 L P OL
                  (ScaleOK mul ltb P s) s x (YS v) HI (v_box HV) (v_sx HV) Hb Hd HG) as HT.
    cbn zeta in HT. destruct HT as [T1 [_ [T3 _]]].
    right. destruct HM as [[He [Hby _]]|[b0 [b1 [Hby [HB [[x0 H0] [x1 H1]]]]]]].
    - destruct (@update_scale_scalar num sub ltb zero inf neg_inf is_nan s x v _ _ Hby) as [Eby _].
      rewrite Eby, (pmin_top Hb1), (pmax_bot Hb2) in T1.
      exists v, v. split; [exact T1|]. rewrite T3, He. cbn [L1D.dset].
      split; [|split; exists x; left; reflexivity].
      intros z w [Hin|[]]. inversion Hin; subst. split; apply (le_refl OL).
    - destruct (@update_scale_scalar num sub ltb zero inf neg_inf is_nan s x v _ _ Hby) as [Eby _].
      rewrite Eby in T1. eexists _, _. split; [exact T1|]. rewrite T3. split; [|split].
      + intros z w Hin. apply (dset_In_inv) in Hin as [Hin|Hin].
        * inversion Hin; subst. split; [apply (pmin_le_r OL)|apply (pmax_ge_r OL)].
        * destruct (HB _ _ Hin) as [A1 A2]. split.
          -- eapply (le_trans OL); [apply (pmin_le_l OL)|exact A1].
          -- eapply (le_trans OL); [exact A2|apply (pmax_ge_l OL)].
      + unfold L1D.pmin. destruct (ltb v b0); [exists x; apply dset_In_new|exists x0; apply dset_In_old; assumption].
      + unfold L1D.pmax. destruct (ltb b1 v); [exists x; apply dset_In_new|exists x1; apply dset_In_old; assumption].
  Qed.

  (* ---- the batch rebuild: min / max over the whole data ---- *)
  Lemma np_min2_pmin a b : L1D.np_min2 ltb is_nan a b = L1D.pmin ltb a b.
  Proof. unfold L1D.np_min2, L1D.pmin. rewrite !NoNaN. reflexivity. Qed.
  Lemma np_max2_pmax a b : L1D.np_max2 ltb is_nan a b = L1D.pmax ltb a b.
  Proof. unfold L1D.np_max2, L1D.pmax. rewrite !NoNaN. reflexivity. Qed.

  Lemma col_fold_YS (f : num -> num -> num) v0 vs :
    L1D.col_fold f (map (@YS num) (v0 :: vs)) = [fold_left f vs v0].
  Proof.
    cbn [map L1D.col_fold L1D.y_components]. revert v0.
    induction vs as [|a vs IH]; intros v0; cbn [map fold_left]; [reflexivity|].
    cbn [L1D.y_components L1D.map2]. apply IH.
  Qed.

  Lemma fold_min_spec vs : forall v0, let m := fold_left (L1D.np_min2 ltb is_nan) vs v0 in
    In m (v0 :: vs) /\ forall w, In w (v0 :: vs) -> le m w.
  Proof.
    induction vs as [|a vs IH]; intros v0; cbn [fold_left]; cbn zeta.
    - split; [left; reflexivity|]. intros w [<-|[]]. apply (le_refl OL).
    - rewrite np_min2_pmin. destruct (IH (L1D.pmin ltb v0 a)) as [H1 H2]. cbn zeta in H1, H2. split.
      + destruct H1 as [H1|H1]; [|right; right; exact H1].
        rewrite <- H1. unfold L1D.pmin. destruct (ltb a v0); [right; left; reflexivity|left; reflexivity].
      + assert (Hp : le (fold_left (L1D.np_min2 ltb is_nan) vs (L1D.pmin ltb v0 a)) (L1D.pmin ltb v0 a))
          by (apply H2; left; reflexivity).
        intros w [<-|[<-|Hw]].
        * eapply (le_trans OL); [exact Hp|apply (pmin_le_l OL)].
        * eapply (le_trans OL); [exact Hp|apply (pmin_le_r OL)].
        * apply H2. right; exact Hw.
  Qed.

  Lemma fold_max_spec vs : forall v0, let m := fold_left (L1D.np_max2 ltb is_nan) vs v0 in
    In m (v0 :: vs) /\ forall w, In w (v0 :: vs) -> le w m.
  Proof.
    induction vs as [|a vs IH]; intros v0; cbn [fold_left]; cbn zeta.
    - split; [left; reflexivity|]. intros w [<-|[]]. apply (le_refl OL).
    - rewrite np_max2_pmax. destruct (IH (L1D.pmax ltb v0 a)) as [H1 H2]. cbn zeta in H1, H2. split.
      + destruct H1 as [H1|H1]; [|right; right; exact H1].
        rewrite <- H1. unfold L1D.pmax. destruct (ltb v0 a); [right; left; reflexivity|left; reflexivity].
      + assert (Hp : le (L1D.pmax ltb v0 a) (fold_left (L1D.np_max2 ltb is_nan) vs (L1D.pmax ltb v0 a)))
          by (apply H2; left; reflexivity).
        intros w [<-|[<-|Hw]].
        * eapply (le_trans OL); [apply (pmax_ge_l OL)|exact Hp].
        * eapply (le_trans OL); [apply (pmax_ge_r OL)|exact Hp].
        * apply H2. right; exact Hw.
  Qed.

  Lemma dscal_values (d : list (num * Y num)) : DScal d -> exists vs, map snd d = map (@YS num) vs.
  Proof.
    induction d as [|[x y] d IH]; intros HD; [exists []; reflexivity|].
    destruct (HD x y (or_introl eq_refl)) as [v ->].
    destruct IH as [vs Hvs]; [intros z w Hz; apply (HD z w); right; exact Hz|].
    exists (v :: vs). cbn [map snd]. rewrite Hvs. reflexivity.
  Qed.

  Lemma batch_minv (s : st) (xys : list (num * Y num)) :
    let r := tell_many_batch s xys in
    DScal (data r) -> data r <> [] -> MInv r.
  Proof.
    cbn zeta. intros Hds Hne.
    destruct (batch_fields add sub mul div ltb eqb zero one inf is_nan is_inf round12 L P s xys) as [F1 [F2 _]]. cbn zeta in F1, F2.
    set (r := tell_many_batch s xys) in *.
    rewrite <- F1 in F2.
    destruct (dscal_values Hds) as [vs Hvs]. rewrite Hvs in F2.
    destruct vs as [|v0 vs].
    { exfalso. apply Hne. destruct (data r); [reflexivity|discriminate]. }
    rewrite !col_fold_YS in F2. cbn [map L1D.wrap_like] in F2.
    right. eexists _, _. split; [exact F2|].
    destruct (fold_min_spec vs v0) as [M1 M2]. destruct (fold_max_spec vs v0) as [X1 X2]. cbn zeta in *.
    assert (Hmem : forall w, In w (v0 :: vs) <-> exists x, In (x, YS w) (data r)).
    { intros w. split.
      - intros Hw. assert (Hy : In (YS w) (map snd (data r))) by (rewrite Hvs; apply in_map; exact Hw).
        apply in_map_iff in Hy as [[x y] [Hy Hin]]. cbn [snd] in Hy. subst y. exists x. exact Hin.
      - intros [x Hin]. assert (Hy : In (YS w) (map snd (data r))) by (apply in_map_iff; exists (x, YS w); auto).
        rewrite Hvs in Hy. apply in_map_iff in Hy as [w' [Hw' Hin']]. inversion Hw'; subst. exact Hin'. }
    split; [|split].
    - intros x w Hin. assert (Hw : In w (v0 :: vs)) by (apply Hmem; eauto). split; [apply M2|apply X2]; exact Hw.
    - apply Hmem. exact M1.
    - apply Hmem. exact X1.
  Qed.

  (* ---------------- mgrx (the x-scale of the loss managers) ---------------- *)
  Lemma mgrx_fold_interp ivs : forall s : st, mgrx (fold_left update_interp ivs s) = mgrx s.
  Proof.
    induction ivs as [|[a b] ivs IH]; intros s; cbn [fold_left]; [reflexivity|]. rewrite IH. reflexivity.
  Qed.

  Lemma mgrx_update_losses (s : st) x real : mgrx (update_losses s x real) = mgrx s.
  Proof.
    unfold L1D.update_losses.
    destruct (L1D.find_neighbors ltb x (nb s)) as [xl xr].
    destruct (L1D.find_neighbors ltb x (nbc s)) as [a b].
    destruct real.
    - repeat match goal with
             | |- context[if ?c then _ else _] => destruct c
             end; cbn [mgrx L1D.with_los]; rewrite ?mgrx_fold_interp; reflexivity.
    - destruct xl as [l0|], xr as [r0|]; cbn [negb andb];
        try (destruct (lget (l0, r0) (los (L1D.with_los s (los s) (L1D.lpop_opt eqb a b (losc s))))));
        repeat match goal with
               | |- context[if ?c then _ else _] => destruct c
               end; reflexivity.
  Qed.

  Lemma mgrx_update_scale (s : st) x (y : Y num) : mgrx (update_scale s x y) = mgrx s.
  Proof.
    unfold L1D.update_scale. destruct y as [v|vs]; [reflexivity|].
    destruct (bby s) as [[m|m] [M|M]]; reflexivity.
  Qed.

  Lemma mgrx_tell (s : st) x (y : Y num) : mgrx (tell s x y) = mgrx s.
  Proof.
    unfold L1D.tell. destruct (dget x (data s)); [reflexivity|].
    destruct (negb (in_bounds x)); [reflexivity|].
    match goal with |- context[if ?c then _ else _] => destruct c end; cbn [mgrx].
    - unfold L1D.sweep. rewrite mgrx_fold_interp, mgrx_update_losses, mgrx_update_scale. reflexivity.
    - rewrite mgrx_update_losses, mgrx_update_scale. reflexivity.
  Qed.

  (* ---------------- the combined invariant along histories ---------------- *)
  Definition CFull (s : st) : Prop :=
    BFull s /\ KInv s /\ MInv s /\ mgrx s = sub (hi P) (lo P).

  Lemma cfull_init : CFull init.
  Proof.
    split; [apply (bfull_init add sub mul div ltb eqb zero one inf neg_inf is_nan is_inf round12 L P)|].
    split; [reflexivity|]. split; [left; cbn; auto|reflexivity].
  Qed.

  Lemma tell_cfull (s : st) x v : CFull s -> in_bounds x = true -> bounded_y (YS v) = true ->
    CFull (tell s x (YS v)).
  Proof.
    intros [HB [HK [HM HG]]] Hb Hbd.
    pose proof (@step_binv num add sub mul div ltb eqb zero one inf neg_inf is_nan is_inf round12 of_nat L P OL s
                  (Tell x (YS v)) HB Hb eq_refl) as HB'. cbn [L1D.step fst] in HB'.
    destruct HB as [[HI [HD HV]] HBi].
    split; [exact HB'|]. split; [|split; [apply tell_minv; assumption|rewrite mgrx_tell; exact HG]].
    unfold KInv. destruct (dget x (data s)) as [w|] eqn:Hd.
    - rewrite (tell_known sub mul div ltb eqb zero one inf neg_inf is_nan is_inf round12 L P s x (YS v) Hd). exact HK.
    - rewrite (nb_tell add sub mul div zero one inf neg_inf is_nan is_inf round12 L P OL x (YS v) HI Hb Hd).
      rewrite (data_tell add sub mul div zero one inf neg_inf is_nan is_inf round12 L P OL x (YS v) HI Hb Hd).
      rewrite dkeys_dset by exact Hd. rewrite HK. reflexivity.
  Qed.

  Lemma tell_pending_cfull (s : st) x : CFull s -> CFull (tell_pending s x).
  Proof.
    intros [HB [HK [HM HG]]].
    pose proof (@step_binv num add sub mul div ltb eqb zero one inf neg_inf is_nan is_inf round12 of_nat L P OL s
                  (TellPending x) HB eq_refl eq_refl) as HB'. cbn [L1D.step fst] in HB'.
    split; [exact HB'|].
    unfold L1D.tell_pending in *. destruct (dget x (data s)); [repeat split; assumption|].
    set (s1 := L1D.mk _ _ _ _ _ _ _ _ _ _ _ _) in *.
    destruct (update_losses_false_frame add sub mul div ltb eqb zero one inf is_nan is_inf round12 L P s1 x)
      as [F1 [F2 [F3 [F4 F5]]]].
    split; [unfold KInv; rewrite F3, F1; exact HK|].
    split; [|rewrite mgrx_update_losses; exact HG].
    eapply minv_fields; [..|exact HM].
    - rewrite F1. reflexivity.
    - rewrite (update_losses_bby add sub mul div ltb eqb zero one inf is_nan is_inf round12 L P). reflexivity.
    - rewrite (update_losses_sy add sub mul div ltb eqb zero one inf is_nan is_inf round12 L P). reflexivity.
  Qed.

  Lemma fold_dset_nonempty (xys : list (num * Y num)) : forall d,
    some_data xys d = true ->
    fold_left (fun d xy => dset (fst xy) (snd xy) d) xys d <> [].
  Proof.
    induction xys as [|xy xys IH]; intros d H; cbn [fold_left].
    - destruct d; [discriminate|discriminate].
    - apply IH. unfold some_data. destruct xys; [|reflexivity].
      destruct (dset (fst xy) (snd xy) d) eqn:E; [exfalso; exact (dset_nonempty _ _ _ _ _ E)|reflexivity].
  Qed.

  Lemma step_cfull (s : st) o : CFull s -> legal_op s o = true -> canon_op s o = true -> CFull (fst (step s o)).
  Proof.
    intros HC Hl Hc.
    destruct o as [x y|x|xys force| |n c].
    - cbn [L1D.step fst L1DBatch.legal_op canon_op] in *. destruct y as [v|vs]; [|discriminate].
      apply tell_cfull; assumption.
    - cbn [L1D.step fst]. apply tell_pending_cfull. exact HC.
    - pose proof HC as [HB [HK [HM HG]]].
      pose proof (@step_binv num add sub mul div ltb eqb zero one inf neg_inf is_nan is_inf round12 of_nat L P OL s
                    (TellMany xys force) HB Hl (canon_scalar _ _ Hc)) as HB'.
      cbn [L1D.step fst L1DBatch.legal_op canon_op] in *. unfold batch_path in Hc. unfold L1D.tell_many in *.
      apply andb_true_iff in Hc as [Hbd Hne].
      destruct (negb force && negb ((length (data s) <? 2 * length xys) && (2 <? length xys))) eqn:Ec.
      + clear Ec Hne HB' HB HK HM HG. revert s HC Hl.
        induction xys as [|[x y] xys IH]; intros s HC Hl; cbn [fold_left]; [exact HC|].
        cbn [forallb fst snd] in Hl, Hbd. apply andb_true_iff in Hl as [Hl1 Hl2]. apply andb_true_iff in Hbd as [Hb1 Hb2].
        destruct y as [v|vs]; [|discriminate]. cbn [fst snd].
        apply IH; [exact Hb2|apply tell_cfull; assumption|exact Hl2].
      + cbn [negb orb] in Hne.
        destruct HB as [[HI [HD HV]] HBi].
        destruct (batch_inv add sub mul div zero one inf is_nan is_inf round12 of_nat L P OL xys HI HD) as [R1 [R2 [R3 [R4 R5]]]].
        destruct (batch_fields add sub mul div ltb eqb zero one inf is_nan is_inf round12 L P s xys) as [F1 [F2 [F3 [F4 F5]]]].
        cbn zeta in *. set (r := tell_many_batch s xys) in *.
        split; [exact HB'|]. split; [unfold KInv, L1DBatch.dkeys; rewrite F4, F1; reflexivity|]. split.
        * apply batch_minv.
          -- destruct HB' as [_ [b0 [b1 [ob [_ [Hds _]]]]]]. exact Hds.
          -- fold r. rewrite F1. apply fold_dset_nonempty. exact Hne.
        * rewrite F5, R5. unfold L1DBatch.box_ok in Hl. apply andb_true_iff in Hl as [B1 B2].
          apply (eqb_eq OL) in B1, B2. rewrite B1, B2. reflexivity.
    - cbn [L1D.step fst]. destruct HC as [HB [HK [HM HG]]].
      pose proof (@step_binv num add sub mul div ltb eqb zero one inf neg_inf is_nan is_inf round12 of_nat L P OL s
                    RemoveUnfinished HB eq_refl eq_refl) as HB'. cbn [L1D.step fst] in HB'.
      split; [exact HB'|]. split; [exact HK|]. split; [|exact HG].
      eapply minv_fields; [..|exact HM]; reflexivity.
    - cbn [L1D.step]. unfold L1D.ask. cbn [fst]. destruct c; [|exact HC].
      generalize (fst (L1D.ask_points add sub mul div ltb eqb zero inf is_nan is_inf round12 of_nat P s n)).
      intros pts. clear Hl Hc. revert s HC. induction pts as [|p pts IH]; intros s HC; cbn [fold_left]; [exact HC|].
      apply IH. apply tell_pending_cfull. exact HC.
  Qed.

  Theorem cfull_inv h : forall (s : st), CFull s -> clegal s h = true -> CFull (run s h).
  Proof.
    induction h as [|o h IH]; intros s HC Hl; [exact HC|].
    change (run s (o :: h)) with (run (fst (step s o)) h).
    cbn [clegal] in Hl. apply andb_true_iff in Hl as [Hl H3]. apply andb_true_iff in Hl as [H1 H2].
    apply IH; [apply step_cfull; assumption|exact H3].
  Qed.

  (* ---------------- the theorem ---------------- *)
  Theorem losses_function_of_data : SubLaws sub ltb zero -> (forall x, mul (factor P) x = x) ->
    forall h1 h2, clegal init h1 = true -> clegal init h2 = true ->
    let s := run init h1 in let t := run init h2 in
    data s = data t ->
    nb s = nb t /\ sy s = sy t /\ los s = los t /\
    (missing_bounds s = missing_bounds t -> loss s true = loss t true).
  Proof.
    intros SL Hone h1 h2 Hl1 Hl2 s t Ed.
    destruct (cfull_inv h1 cfull_init Hl1) as [[[HIs [_ HVs]] [c0 [c1 [ob1 HBs]]]] [HKs [HMs HGs]]].
    destruct (cfull_inv h2 cfull_init Hl2) as [[[HIt [_ HVt]] [d0 [d1 [ob2 HBt]]]] [HKt [HMt HGt]]].
    fold s in HIs, HVs, HBs, HKs, HMs, HGs. fold t in HIt, HVt, HBt, HKt, HMt, HGt.
    destruct (clegal_legal _ _ Hl1) as [L1 S1]. destruct (clegal_legal _ _ Hl2) as [L2 S2].
    pose proof (fun iv => @factor1_exact num add sub mul div ltb eqb zero one inf neg_inf is_nan is_inf round12 of_nat L P OL SL Hone h1 L1 S1 iv) as X1.
    pose proof (fun iv => @factor1_exact num add sub mul div ltb eqb zero one inf neg_inf is_nan is_inf round12 of_nat L P OL SL Hone h2 L2 S2 iv) as X2.
    cbn zeta in X1, X2. fold s in X1. fold t in X2.
    assert (En : nb s = nb t) by (unfold KInv in *; rewrite HKs, HKt, Ed; reflexivity).
    assert (Ey : sy s = sy t).
    { destruct HMs as [[E1 [_ Z1]]|[b0 [b1 [Y1 M1]]]]; destruct HMt as [[E2 [_ Z2]]|[e0 [e1 [Y2 M2]]]].
      - rewrite Z1, Z2. reflexivity.
      - exfalso. destruct M2 as [_ [[x Hx] _]]. rewrite <- Ed, E1 in Hx. destruct Hx.
      - exfalso. destruct M1 as [_ [[x Hx] _]]. rewrite Ed, E2 in Hx. destruct Hx.
      - rewrite Ed in M1. destruct (MM_unique M1 M2) as [-> ->].
        destruct HBs as [Y1' [_ [[Q|Q] _]]]; [destruct M1 as [_ [[x Hx] _]]; rewrite <- Ed, Q in Hx; destruct Hx|].
        destruct HBt as [Y2' [_ [[R|R] _]]]; [destruct M2 as [_ [[x Hx] _]]; rewrite R in Hx; destruct Hx|].
        rewrite Y1 in Y1'. rewrite Y2 in Y2'. inversion Y1'; inversion Y2'; subst. rewrite Q, R. reflexivity. }
    assert (Ex : sx s = sx t) by (rewrite (v_sx HVs), (v_sx HVt); reflexivity).
    assert (El : los s = los t).
    { apply (ksorted_ext OL); [exact (s_los_sorted HIs)|exact (s_los_sorted HIt)|].
      intros iv. destruct (In_dec_ival OL iv (keys (los s))) as [Hin|Hnin].
      - assert (Hin' : In iv (keys (los t))) by (apply (s_los_keys HIt); rewrite <- En; apply (s_los_keys HIs); exact Hin).
        rewrite (X1 iv Hin), (X2 iv Hin'). f_equal.
        change (loss_of sub div ltb eqb zero one L P (nb s) (data s) (sx s) (sy s) (fst iv) (snd iv) =
                loss_of sub div ltb eqb zero one L P (nb t) (data t) (sx t) (sy t) (fst iv) (snd iv)).
        rewrite En, Ed, Ex, Ey. reflexivity.
      - assert (Hnin' : ~ In iv (keys (los t))) by (intros H; apply Hnin; apply (s_los_keys HIs); rewrite En; apply (s_los_keys HIt); exact H).
        apply (lget_None OL) in Hnin. apply (lget_None OL) in Hnin'. rewrite Hnin, Hnin'. reflexivity. }
    split; [exact En|]. split; [exact Ey|]. split; [exact El|].
    intros Em. unfold L1D.loss. rewrite Em, El, HGs, HGt. reflexivity.
  Qed.

  (* ================= vector outputs of one length k ================= *)
  Notation lle := (lle ltb).
  Notation BInvV := (@BInvV num sub mul div ltb eqb zero one is_nan L P).
  Notation VFull := (@VFull num sub mul div ltb eqb zero one is_nan L P).
  Notation DVec := (@DVec num).
  Notation vector_op := (@vector_op num).
  Notation is_yv := (@is_yv num).
  Notation nanmin := (L1D.nanmin ltb is_nan).
  Notation nanmax := (L1D.nanmax ltb is_nan).
  Notation map2 := (@L1D.map2 num).

  Definition canon_op_v (k : nat) (s : st) (o : op num) : bool :=
    match o with
    | Tell _ y => is_yv k y
    | TellMany xys force =>
        forallb (fun xy => is_yv k (snd xy)) xys &&
        (negb (batch_path s xys force) || some_data xys (data s))
    | _ => true
    end.

  Fixpoint clegal_v (k : nat) (s : st) (h : list (op num)) : bool :=
    match h with
    | [] => true
    | o :: h' => legal_op s o && canon_op_v k s o && clegal_v k (fst (step s o)) h'
    end.

  Lemma canon_v_vector k s o : canon_op_v k s o = true -> vector_op k o = true.
  Proof.
    destruct o as [x y|x|xys force| |n c]; cbn; try reflexivity; [auto|].
    intros H. apply andb_true_iff in H as [H _]. exact H.
  Qed.

  Lemma clegal_v_legal k h : forall s, clegal_v k s h = true -> legal s h = true /\ forallb (vector_op k) h = true.
  Proof.
    induction h as [|o h IH]; intros s H; [split; reflexivity|].
    cbn [clegal_v] in H. apply andb_true_iff in H as [H H3]. apply andb_true_iff in H as [H1 H2].
    destruct (IH _ H3) as [I1 I2]. cbn [L1DBatch.legal forallb]. rewrite H1, I1, I2, (canon_v_vector _ _ _ H2). split; reflexivity.
  Qed.

  (* ---- componentwise lemmas ---- *)
  Lemma lle_nth a : forall b j, lle a b -> j < length a -> le (nth j a zero) (nth j b zero).
  Proof.
    induction a as [|x a IH]; intros b j H Hj; [cbn in Hj; lia|].
    inversion H as [|? y ? b' Hxy Hab]; subst. destruct j as [|j]; cbn [nth]; [exact Hxy|].
    apply IH; [exact Hab|cbn in Hj; lia].
  Qed.

  Lemma nth_lle a : forall b, length a = length b ->
    (forall j, j < length a -> le (nth j a zero) (nth j b zero)) -> lle a b.
  Proof.
    induction a as [|x a IH]; intros [|y b] Hl H; cbn in Hl; try discriminate; [constructor|].
    constructor; [exact (H 0 (Nat.lt_0_succ _))|].
    apply IH; [congruence|]. intros j Hj. apply (H (S j)). cbn. lia.
  Qed.

  Lemma nth_map2 (f : num -> num -> num) a : forall b j, length a = length b -> j < length a ->
    nth j (map2 f a b) zero = f (nth j a zero) (nth j b zero).
  Proof.
    induction a as [|x a IH]; intros [|y b] j Hl Hj; cbn in Hl, Hj; try discriminate; [lia|].
    destruct j as [|j]; cbn [L1D.map2 nth]; [reflexivity|]. apply IH; [congruence|lia].
  Qed.

  Definition MMV (k : nat) (d : list (num * Y num)) (b0 b1 : list num) : Prop :=
    length b0 = k /\ length b1 = k /\
    (forall x vs, In (x, YV vs) d -> lle b0 vs /\ lle vs b1) /\
    (forall j, j < k -> exists x vs, In (x, YV vs) d /\ nth j vs zero = nth j b0 zero) /\
    (forall j, j < k -> exists x vs, In (x, YV vs) d /\ nth j vs zero = nth j b1 zero).

  Definition MInvV (k : nat) (s : st) : Prop :=
    (data s = [] /\ (forall a b, bby s <> (YV a, YV b)) /\ sy s = zero) \/
    (exists b0 b1, bby s = (YV b0, YV b1) /\ data s <> [] /\ MMV k (data s) b0 b1).

  Lemma minvv_fields k (s s' : st) : data s' = data s -> bby s' = bby s -> sy s' = sy s -> MInvV k s -> MInvV k s'.
  Proof. intros E1 E2 E3 H. unfold MInvV in *. rewrite E1, E2, E3. exact H. Qed.

  Lemma MMV_unique k d b0 b1 c0 c1 : MMV k d b0 b1 -> MMV k d c0 c1 -> b0 = c0 /\ b1 = c1.
  Proof.
    intros [Lb0 [Lb1 [B [B0 B1]]]] [Lc0 [Lc1 [C [C0 C1]]]].
    split; apply (nth_ext _ _ zero zero); try congruence; intros j Hj; apply (le_antisym OL).
    - rewrite Lb0 in Hj. destruct (C0 j Hj) as [x [vs [Hin <-]]]. apply lle_nth; [exact (proj1 (B _ _ Hin))|lia].
    - rewrite Lb0 in Hj. destruct (B0 j Hj) as [x [vs [Hin <-]]]. apply lle_nth; [exact (proj1 (C _ _ Hin))|lia].
    - rewrite Lb1 in Hj. destruct (B1 j Hj) as [x [vs [Hin <-]]].
      apply lle_nth; [exact (proj2 (C _ _ Hin))|]. rewrite (lle_length (proj2 (C _ _ Hin))). lia.
    - rewrite Lb1 in Hj. destruct (C1 j Hj) as [x [vs [Hin <-]]].
      apply lle_nth; [exact (proj2 (B _ _ Hin))|]. rewrite (lle_length (proj2 (B _ _ Hin))). lia.
  Qed.

  Lemma tell_minvv k (s : st) x vs : length vs = k -> SInv s -> VInv s -> in_bounds x = true ->
    MInvV k s -> MInvV k (tell s x (YV vs)).
  Proof.
    intros Hk HI HV Hb HM.
    destruct (dget x (data s)) as [w|] eqn:Hd.
    { unfold L1D.tell. rewrite Hd. exact HM. }
    pose proof (@tell_values_gen num add sub mul div ltb eqb zero one inf neg_inf is_nan is_inf round12 L P OL
                  (ScaleOK mul ltb P s) s x (YV vs) HI (v_box HV) (v_sx HV) Hb Hd (v_vals HV)) as HT.
    cbn zeta in HT. destruct HT as [T1 [_ [T3 _]]].
    assert (Hne' : data (tell s x (YV vs)) <> []) by (rewrite T3; apply dset_nonempty).
    right. destruct HM as [[He [Hnv _]]|[b0 [b1 [Hby [_ [Lb0 [Lb1 [HB [H0 H1]]]]]]]]].
    - destruct (@update_scale_first_vector num sub ltb zero inf neg_inf is_nan s x vs Hnv) as [Eby _].
      rewrite Eby in T1. exists vs, vs. split; [exact T1|]. split; [exact Hne'|]. rewrite T3, He. cbn [L1D.dset].
      split; [exact Hk|]. split; [exact Hk|]. split; [|split; intros j Hj; exists x, vs; (split; [left; reflexivity|reflexivity])].
      intros z w [Hin|[]]. inversion Hin; subst. split; apply (lle_refl OL).
    - destruct (@update_scale_vector num sub ltb zero inf neg_inf is_nan s x vs _ _ Hby) as [Eby _].
      rewrite Eby in T1.
      assert (Hl0 : length b0 = length vs) by congruence. assert (Hl1 : length b1 = length vs) by congruence.
      destruct (map2_nanmin_le is_nan OL NoNaN b0 vs Hl0) as [A0 A0v]. destruct (map2_nanmax_ge is_nan OL NoNaN b1 vs Hl1) as [A1 A1v].
      eexists _, _. split; [exact T1|]. split; [exact Hne'|]. rewrite T3.
      split; [rewrite map2_length; congruence|]. split; [rewrite map2_length; congruence|]. split; [|split].
      + intros z w Hin. apply (dset_In_inv) in Hin as [Hin|Hin].
        * inversion Hin; subst. split; assumption.
        * destruct (HB _ _ Hin) as [C1 C2]. split; [exact (lle_trans OL A0 C1)|exact (lle_trans OL C2 A1)].
      + intros j Hj. rewrite (@nth_map2 _ b0 vs j Hl0) by lia. rewrite (nanmin_pmin ltb is_nan NoNaN). unfold L1D.pmin.
        destruct (ltb (nth j vs zero) (nth j b0 zero)).
        * exists x, vs. split; [apply dset_In_new|reflexivity].
        * destruct (H0 j Hj) as [x0 [v0 [Hin E]]]. exists x0, v0. split; [apply dset_In_old; assumption|exact E].
      + intros j Hj. rewrite (@nth_map2 _ b1 vs j Hl1) by lia. rewrite (nanmax_pmax ltb is_nan NoNaN). unfold L1D.pmax.
        destruct (ltb (nth j b1 zero) (nth j vs zero)).
        * exists x, vs. split; [apply dset_In_new|reflexivity].
        * destruct (H1 j Hj) as [x0 [v0 [Hin E]]]. exists x0, v0. split; [apply dset_In_old; assumption|exact E].
  Qed.

  (* ---- the batch rebuild, componentwise ---- *)
  Lemma col_fold_nth k (f : num -> num -> num) (ys : list (Y num)) j : forall acc, length acc = k -> j < k ->
    (forall y, In y ys -> exists vs, y = YV vs /\ length vs = k) ->
    nth j (fold_left (fun acc y' => map2 f acc (L1D.y_components y')) ys acc) zero =
    fold_left f (map (fun y => nth j (L1D.y_components y) zero) ys) (nth j acc zero).
  Proof.
    induction ys as [|y ys IH]; intros acc Hl Hj Hall; cbn [fold_left map]; [reflexivity|].
    destruct (Hall y (or_introl eq_refl)) as [vs [-> Hvs]]. cbn [L1D.y_components].
    rewrite IH; [|rewrite map2_length; congruence|exact Hj|intros y Hy; apply Hall; right; exact Hy].
    rewrite nth_map2 by (try congruence; lia). reflexivity.
  Qed.

  Lemma dvec_values k (d : list (num * Y num)) : DVec k d ->
    forall y, In y (map snd d) -> exists vs, y = YV vs /\ length vs = k.
  Proof. intros HD y Hy. apply in_map_iff in Hy as [[x y'] [<- Hin]]. exact (HD _ _ Hin). Qed.

  Lemma batch_minvv k (s : st) (xys : list (num * Y num)) :
    let r := tell_many_batch s xys in
    DVec k (data r) -> data r <> [] -> MInvV k r.
  Proof.
    cbn zeta. intros Hds Hne.
    destruct (batch_fields add sub mul div ltb eqb zero one inf is_nan is_inf round12 L P s xys) as [F1 [F2 _]]. cbn zeta in F1, F2.
    set (r := tell_many_batch s xys) in *. rewrite <- F1 in F2.
    pose proof (dvec_values Hds) as Hall.
    destruct (data r) as [|[x0 y0] d0] eqn:Ed; [congruence|].
    destruct (Hds x0 y0 (or_introl eq_refl)) as [v0 [-> Hv0]].
    cbn [map snd L1D.wrap_like L1D.col_fold] in F2. change (L1D.y_components (YV v0)) with v0 in F2.
    right. rewrite Ed. eexists _, _. split; [exact F2|]. split; [discriminate|].
    assert (Hall' : forall y, In y (map snd d0) -> exists vs, y = YV vs /\ length vs = k)
      by (intros y Hy; apply Hall; right; exact Hy).
    assert (Hmem : forall vs, In (YV vs) (map snd ((x0, YV v0) :: d0)) <-> exists x, In (x, YV vs) ((x0, YV v0) :: d0)).
    { intros vs. split.
      - intros Hy. apply in_map_iff in Hy as [[x y] [Hy Hin]]. cbn [snd] in Hy. subst y. exists x. exact Hin.
      - intros [x Hin]. apply in_map_iff. exists (x, YV vs). auto. }
    set (mn := fold_left (fun acc y' => map2 (L1D.np_min2 ltb is_nan) acc (L1D.y_components y')) (map snd d0) v0).
    set (mx := fold_left (fun acc y' => map2 (L1D.np_max2 ltb is_nan) acc (L1D.y_components y')) (map snd d0) v0).
    assert (Lmn : length mn = k).
    { pose proof (@col_fold_length num k (L1D.np_min2 ltb is_nan) (map snd ((x0, YV v0) :: d0)) Hall) as H. apply H. discriminate. }
    assert (Lmx : length mx = k).
    { pose proof (@col_fold_length num k (L1D.np_max2 ltb is_nan) (map snd ((x0, YV v0) :: d0)) Hall) as H. apply H. discriminate. }
    assert (Hn : forall j, j < k -> nth j mn zero =
              fold_left (L1D.np_min2 ltb is_nan) (map (fun y => nth j (L1D.y_components y) zero) (map snd d0)) (nth j v0 zero))
      by (intros j Hj; unfold mn; rewrite (col_fold_nth (k := k)); auto).
    assert (Hx : forall j, j < k -> nth j mx zero =
              fold_left (L1D.np_max2 ltb is_nan) (map (fun y => nth j (L1D.y_components y) zero) (map snd d0)) (nth j v0 zero))
      by (intros j Hj; unfold mx; rewrite (col_fold_nth (k := k)); auto).
    (* every data vector, componentwise, is in the list the fold ran over *)
    assert (Hin_j : forall x vs j, In (x, YV vs) ((x0, YV v0) :: d0) ->
              In (nth j vs zero) (nth j v0 zero :: map (fun y => nth j (L1D.y_components y) zero) (map snd d0))).
    { intros x vs j [Hin|Hin]; [inversion Hin; left; reflexivity|right].
      apply in_map_iff. exists (YV vs). split; [reflexivity|]. apply in_map_iff. exists (x, YV vs). auto. }
    assert (Hout_j : forall j w, In w (nth j v0 zero :: map (fun y => nth j (L1D.y_components y) zero) (map snd d0)) ->
              exists x vs, In (x, YV vs) ((x0, YV v0) :: d0) /\ nth j vs zero = w).
    { intros j w [<-|Hw]; [exists x0, v0; split; [left; reflexivity|reflexivity]|].
      apply in_map_iff in Hw as [y [<- Hy]]. apply in_map_iff in Hy as [[x y'] [<- Hin]]. cbn [snd].
      destruct (Hds x y' (or_intror Hin)) as [vs [-> _]]. exists x, vs. split; [right; exact Hin|reflexivity]. }
    split; [exact Lmn|]. split; [exact Lmx|]. split; [|split].
    - intros x vs Hin. destruct (Hds _ _ Hin) as [vs' [E Hl]]. inversion E; subst vs'. split.
      + apply nth_lle; [congruence|]. intros j Hj. rewrite Lmn in Hj. rewrite (Hn j Hj).
        apply (proj2 (fold_min_spec _ _)). eapply Hin_j; eauto.
      + apply nth_lle; [congruence|]. intros j Hj. rewrite Hl in Hj. rewrite (Hx j Hj).
        apply (proj2 (fold_max_spec _ _)). eapply Hin_j; eauto.
    - intros j Hj. rewrite (Hn j Hj). destruct (Hout_j j _ (proj1 (fold_min_spec _ _))) as [x [vs [Hin E]]]. eauto.
    - intros j Hj. rewrite (Hx j Hj). destruct (Hout_j j _ (proj1 (fold_max_spec _ _))) as [x [vs [Hin E]]]. eauto.
  Qed.

  (* ---- the combined invariant ---- *)
  Definition VCFull (k : nat) (s : st) : Prop :=
    VFull k s /\ KInv s /\ MInvV k s /\ mgrx s = sub (hi P) (lo P).

  Lemma vcfull_init k : VCFull k init.
  Proof.
    split; [apply (vfull_init add sub mul div ltb eqb zero one inf neg_inf is_nan is_inf round12 L P)|].
    split; [reflexivity|]. split; [left; cbn; repeat split; intros; discriminate|reflexivity].
  Qed.

  Lemma tell_vcfull k (s : st) x vs : VCFull k s -> in_bounds x = true -> length vs = k ->
    VCFull k (tell s x (YV vs)).
  Proof.
    intros [HB [HK [HM HG]]] Hb Hk.
    assert (Hv : vector_op k (Tell x (YV vs)) = true) by (cbn; apply Nat.eqb_eq; exact Hk).
    pose proof (@step_binvv num add sub mul div ltb eqb zero one inf neg_inf is_nan is_inf round12 of_nat L P OL k s
                  (Tell x (YV vs)) NoNaN HB Hb Hv) as HB'. cbn [L1D.step fst] in HB'.
    destruct HB as [[HI [HD HV]] HBi].
    split; [exact HB'|]. split; [|split; [apply tell_minvv; assumption|rewrite mgrx_tell; exact HG]].
    unfold KInv. destruct (dget x (data s)) as [w|] eqn:Hd.
    - rewrite (tell_known sub mul div ltb eqb zero one inf neg_inf is_nan is_inf round12 L P s x (YV vs) Hd). exact HK.
    - rewrite (nb_tell add sub mul div zero one inf neg_inf is_nan is_inf round12 L P OL x (YV vs) HI Hb Hd).
      rewrite (data_tell add sub mul div zero one inf neg_inf is_nan is_inf round12 L P OL x (YV vs) HI Hb Hd).
      rewrite dkeys_dset by exact Hd. rewrite HK. reflexivity.
  Qed.

  Lemma tell_pending_vcfull k (s : st) x : VCFull k s -> VCFull k (tell_pending s x).
  Proof.
    intros [HB [HK [HM HG]]].
    pose proof (@step_binvv num add sub mul div ltb eqb zero one inf neg_inf is_nan is_inf round12 of_nat L P OL k s
                  (TellPending x) NoNaN HB eq_refl eq_refl) as HB'. cbn [L1D.step fst] in HB'.
    split; [exact HB'|].
    unfold L1D.tell_pending in *. destruct (dget x (data s)); [repeat split; assumption|].
    set (s1 := L1D.mk _ _ _ _ _ _ _ _ _ _ _ _) in *.
    destruct (update_losses_false_frame add sub mul div ltb eqb zero one inf is_nan is_inf round12 L P s1 x)
      as [F1 [F2 [F3 [F4 F5]]]].
    split; [unfold KInv; rewrite F3, F1; exact HK|].
    split; [|rewrite mgrx_update_losses; exact HG].
    eapply minvv_fields; [..|exact HM].
    - rewrite F1. reflexivity.
    - rewrite (update_losses_bby add sub mul div ltb eqb zero one inf is_nan is_inf round12 L P). reflexivity.
    - rewrite (update_losses_sy add sub mul div ltb eqb zero one inf is_nan is_inf round12 L P). reflexivity.
  Qed.

  Lemma step_vcfull k (s : st) o : VCFull k s -> legal_op s o = true -> canon_op_v k s o = true ->
    VCFull k (fst (step s o)).
  Proof.
    intros HC Hl Hc.
    destruct o as [x y|x|xys force| |n c].
    - cbn [L1D.step fst L1DBatch.legal_op canon_op_v] in *. destruct y as [v|vs]; [discriminate|].
      cbn [L1DBatch.is_yv] in Hc. apply Nat.eqb_eq in Hc. apply tell_vcfull; assumption.
    - cbn [L1D.step fst]. apply tell_pending_vcfull. exact HC.
    - pose proof HC as [HB [HK [HM HG]]].
      pose proof (@step_binvv num add sub mul div ltb eqb zero one inf neg_inf is_nan is_inf round12 of_nat L P OL k s
                    (TellMany xys force) NoNaN HB Hl (canon_v_vector _ _ _ Hc)) as HB'.
      cbn [L1D.step fst L1DBatch.legal_op canon_op_v] in *. unfold batch_path in Hc. unfold L1D.tell_many in *.
      apply andb_true_iff in Hc as [Hbd Hne].
      destruct (negb force && negb ((length (data s) <? 2 * length xys) && (2 <? length xys))) eqn:Ec.
      + clear Ec Hne HB' HB HK HM HG. revert s HC Hl.
        induction xys as [|[x y] xys IH]; intros s HC Hl; cbn [fold_left]; [exact HC|].
        cbn [forallb fst snd] in Hl, Hbd. apply andb_true_iff in Hl as [Hl1 Hl2]. apply andb_true_iff in Hbd as [Hb1 Hb2].
        destruct y as [v|vs]; [discriminate|]. cbn [fst snd L1DBatch.is_yv] in *. apply Nat.eqb_eq in Hb1.
        apply IH; [exact Hb2|apply tell_vcfull; assumption|exact Hl2].
      + cbn [negb orb] in Hne.
        destruct HB as [[HI [HD HV]] HBi].
        destruct (batch_inv add sub mul div zero one inf is_nan is_inf round12 of_nat L P OL xys HI HD) as [R1 [R2 [R3 [R4 R5]]]].
        destruct (batch_fields add sub mul div ltb eqb zero one inf is_nan is_inf round12 L P s xys) as [F1 [F2 [F3 [F4 F5]]]].
        cbn zeta in *. set (r := tell_many_batch s xys) in *.
        split; [exact HB'|]. split; [unfold KInv, L1DBatch.dkeys; rewrite F4, F1; reflexivity|]. split.
        * apply batch_minvv.
          -- destruct HB' as [_ [Hds _]]. exact Hds.
          -- fold r. rewrite F1. apply fold_dset_nonempty. exact Hne.
        * rewrite F5, R5. unfold L1DBatch.box_ok in Hl. apply andb_true_iff in Hl as [B1 B2].
          apply (eqb_eq OL) in B1, B2. rewrite B1, B2. reflexivity.
    - cbn [L1D.step fst]. destruct HC as [HB [HK [HM HG]]].
      pose proof (@step_binvv num add sub mul div ltb eqb zero one inf neg_inf is_nan is_inf round12 of_nat L P OL k s
                    RemoveUnfinished NoNaN HB eq_refl eq_refl) as HB'. cbn [L1D.step fst] in HB'.
      split; [exact HB'|]. split; [exact HK|]. split; [|exact HG].
      eapply minvv_fields; [..|exact HM]; reflexivity.
    - cbn [L1D.step]. unfold L1D.ask. cbn [fst]. destruct c; [|exact HC].
      generalize (fst (L1D.ask_points add sub mul div ltb eqb zero inf is_nan is_inf round12 of_nat P s n)).
      intros pts. clear Hl Hc. revert s HC. induction pts as [|p pts IH]; intros s HC; cbn [fold_left]; [exact HC|].
      apply IH. apply tell_pending_vcfull. exact HC.
  Qed.

  Theorem vcfull_inv k h : forall (s : st), VCFull k s -> clegal_v k s h = true -> VCFull k (run s h).
  Proof.
    induction h as [|o h IH]; intros s HC Hl; [exact HC|].
    change (run s (o :: h)) with (run (fst (step s o)) h).
    cbn [clegal_v] in Hl. apply andb_true_iff in Hl as [Hl H3]. apply andb_true_iff in Hl as [H1 H2].
    apply IH; [apply step_vcfull; assumption|exact H3].
  Qed.

  Theorem losses_function_of_data_v : SubLaws sub ltb zero -> (forall x, mul (factor P) x = x) ->
    forall k h1 h2, clegal_v k init h1 = true -> clegal_v k init h2 = true ->
    let s := run init h1 in let t := run init h2 in
    data s = data t ->
    nb s = nb t /\ sy s = sy t /\ los s = los t /\
    (missing_bounds s = missing_bounds t -> loss s true = loss t true).
  Proof.
    intros SL Hone k h1 h2 Hl1 Hl2 s t Ed.
    destruct (@vcfull_inv k h1 init (vcfull_init k) Hl1) as [[[HIs [_ HVs]] [_ [_ HBs]]] [HKs [HMs HGs]]].
    destruct (@vcfull_inv k h2 init (vcfull_init k) Hl2) as [[[HIt [_ HVt]] [_ [_ HBt]]] [HKt [HMt HGt]]].
    fold s in HIs, HVs, HBs, HKs, HMs, HGs. fold t in HIt, HVt, HBt, HKt, HMt, HGt.
    destruct (clegal_v_legal _ _ _ Hl1) as [L1 S1]. destruct (clegal_v_legal _ _ _ Hl2) as [L2 S2].
    pose proof (fun iv => @factor1_exact_v num add sub mul div ltb eqb zero one inf neg_inf is_nan is_inf round12 of_nat L P OL NoNaN SL Hone k h1 L1 S1 iv) as X1.
    pose proof (fun iv => @factor1_exact_v num add sub mul div ltb eqb zero one inf neg_inf is_nan is_inf round12 of_nat L P OL NoNaN SL Hone k h2 L2 S2 iv) as X2.
    cbn zeta in X1, X2. fold s in X1. fold t in X2.
    assert (En : nb s = nb t) by (unfold KInv in *; rewrite HKs, HKt, Ed; reflexivity).
    assert (Ey : sy s = sy t).
    { destruct HMs as [[E1 [_ Z1]]|[b0 [b1 [Y1 [N1 M1]]]]]; destruct HMt as [[E2 [_ Z2]]|[e0 [e1 [Y2 [N2 M2]]]]].
      - rewrite Z1, Z2. reflexivity.
      - exfalso. apply N2. rewrite <- Ed. exact E1.
      - exfalso. apply N1. rewrite Ed. exact E2.
      - rewrite Ed in M1. destruct (MMV_unique M1 M2) as [-> ->].
        destruct HBs as [[Q _]|[c0 [c1 [ob1 [Y1' [_ [_ [Q _]]]]]]]]; [contradiction|].
        destruct HBt as [[R _]|[d0 [d1 [ob2 [Y2' [_ [_ [R _]]]]]]]]; [contradiction|].
        rewrite Y1 in Y1'. rewrite Y2 in Y2'. inversion Y1'; inversion Y2'; subst. rewrite Q, R. reflexivity. }
    assert (Ex : sx s = sx t) by (rewrite (v_sx HVs), (v_sx HVt); reflexivity).
    assert (El : los s = los t).
    { apply (ksorted_ext OL); [exact (s_los_sorted HIs)|exact (s_los_sorted HIt)|].
      intros iv. destruct (In_dec_ival OL iv (keys (los s))) as [Hin|Hnin].
      - assert (Hin' : In iv (keys (los t))) by (apply (s_los_keys HIt); rewrite <- En; apply (s_los_keys HIs); exact Hin).
        rewrite (X1 iv Hin), (X2 iv Hin'). f_equal.
        change (loss_of sub div ltb eqb zero one L P (nb s) (data s) (sx s) (sy s) (fst iv) (snd iv) =
                loss_of sub div ltb eqb zero one L P (nb t) (data t) (sx t) (sy t) (fst iv) (snd iv)).
        rewrite En, Ed, Ex, Ey. reflexivity.
      - assert (Hnin' : ~ In iv (keys (los t))) by (intros H; apply Hnin; apply (s_los_keys HIs); rewrite En; apply (s_los_keys HIt); exact H).
        apply (lget_None OL) in Hnin. apply (lget_None OL) in Hnin'. rewrite Hnin, Hnin'. reflexivity. }
    split; [exact En|]. split; [exact Ey|]. split; [exact El|].
    intros Em. unfold L1D.loss. rewrite Em, El, HGs, HGt. reflexivity.
  Qed.
End Canonical.
