(* The done_leaves propagation of _Interval.complete_process keeps every
   interval's done_leaves either empty, or absorbed by the parent (None), or the
   leaf set of a cover of the interval (property C07, partition clause). *)
From AV Require Import Base.Prelude Base.NatSet Model.Integrator Proofs.IntegratorProofs.

Section Partition.
  Variable X : Type.
  Variable eqb : X -> X -> bool.
  Variable points : X -> X -> nat -> list X.
  Variable repaired : bool.
  Variable dflt : X.

  Notation st := (st X).
  Notation ival := (ival X).
  Notation getF := (get dflt).
  Notation plF := (propagate_leaves dflt).
  Notation acF := (absorb_child dflt).
  Notation cpF := (complete_process dflt).

  Implicit Types (s : st) (c i j k l r m p t x w : nat) (L S : list nat) (v : option (list nat)).

  (* ---------------------------------------------------------------- *)
  (** projections *)
  Definition dlS s c := done_leaves (getF s c).
  Definition kids s c := children (getF s c).
  Definition par s c := parent (getF s c).
  Definition isN s c := dlS s c = None.
  Definition isNE s c := exists k S, dlS s c = Some (k :: S).       (* holds a non-empty set *)
  Definition absorbed s c := exists l r, kids s c = [l; r] /\ isN s l /\ isN s r.
  Definition seteq S L := forall k, In k S <-> In k L.

  Lemma isN_dec s c : isN s c \/ ~ isN s c.
  Proof. unfold isN. destruct (dlS s c); [right; discriminate|left; reflexivity]. Qed.

  (* the tree *)
  Definition TP s : Prop :=
    1 <= length (ivs s) /\ par s 0 = None /\
    (forall c l r, c < length (ivs s) -> kids s c = [l; r] ->
       c < l /\ l < length (ivs s) /\ c < r /\ r < length (ivs s) /\ l <> r /\
       par s l = Some c /\ par s r = Some c) /\
    (forall c, c < length (ivs s) -> kids s c = [] \/ exists l r, kids s c = [l; r]) /\
    (forall c p, c < length (ivs s) -> par s c = Some p -> p < c /\ In c (kids s p)).

  (* the leaves currently used for [c]: descend while both children are absorbed *)
  Inductive UR s : nat -> list nat -> Prop :=
  | UR_leaf c : ~ absorbed s c -> UR s c [c]
  | UR_node c l r Ll Lr :
      kids s c = [l; r] -> isN s l -> isN s r -> UR s l Ll -> UR s r Lr -> UR s c (Ll ++ Lr).

  Inductive Below s : nat -> nat -> Prop :=
  | Below_self x : Below s x x
  | Below_l x l r m : kids s x = [l; r] -> isN s l -> isN s r -> Below s l m -> Below s x m
  | Below_r x l r m : kids s x = [l; r] -> isN s l -> isN s r -> Below s r m -> Below s x m.

  Lemma UR_nonempty s c L : UR s c L -> L <> [].
  Proof.
    induction 1 as [c H|c l r Ll Lr Hk Hl Hr H1 IH1 H2 IH2]; [discriminate|].
    destruct Ll; [contradiction|discriminate].
  Qed.

  Lemma UR_leaves s c L k : UR s c L -> In k L -> ~ absorbed s k.
  Proof.
    induction 1 as [c H|c l r Ll Lr Hk Hl Hr H1 IH1 H2 IH2]; intros Hin.
    - destruct Hin as [<-|[]]. exact H.
    - apply in_app_iff in Hin as [Hin|Hin]; auto.
  Qed.

  Lemma UR_In_Below s x L m : UR s x L -> In m L -> Below s x m.
  Proof.
    induction 1 as [c H|c l r Ll Lr Hk Hl Hr H1 IH1 H2 IH2]; intros Hin.
    - destruct Hin as [<-|[]]. constructor.
    - apply in_app_iff in Hin as [Hin|Hin]; [eapply Below_l|eapply Below_r]; eauto.
  Qed.

  Lemma UR_inv_leaf s c L : UR s c L -> ~ absorbed s c -> L = [c].
  Proof.
    intros H Hn. inversion H; subst; [reflexivity|]. exfalso. apply Hn. exists l, r. auto.
  Qed.

  Lemma UR_inv_node s c L l r :
    UR s c L -> kids s c = [l; r] -> isN s l -> isN s r ->
    exists Ll Lr, UR s l Ll /\ UR s r Lr /\ L = Ll ++ Lr.
  Proof.
    intros H Hk Hl Hr. inversion H as [c0 Hn|c0 l0 r0 Ll Lr Hk0 Hl0 Hr0 H1 H2]; subst.
    - exfalso. apply Hn. exists l, r. auto.
    - rewrite Hk in Hk0. inversion Hk0; subst. eauto.
  Qed.

  (* a derivation only looks at the children lists of the nodes it passes and at
     whether those children are absorbed *)
  Lemma UR_transfer s s' x L :
    UR s x L ->
    (forall m, Below s x m -> kids s' m = kids s m /\
                              forall k, In k (kids s m) -> (isN s' k <-> isN s k)) ->
    UR s' x L.
  Proof.
    induction 1 as [c H|c l r Ll Lr Hk Hl Hr H1 IH1 H2 IH2]; intros Hsame.
    - apply UR_leaf. intros (l & r & Hk & Hl & Hr). apply H.
      destruct (Hsame c (Below_self s c)) as [Ek Hst]. rewrite Ek in Hk.
      exists l, r. rewrite Hk in Hst. repeat split; auto; apply Hst; cbn; auto.
    - destruct (Hsame c (Below_self s c)) as [Ek Hst]. rewrite Hk in Hst.
      eapply UR_node; [rewrite Ek; exact Hk| | | |].
      + apply Hst; cbn; auto.
      + apply Hst; cbn; auto.
      + apply IH1. intros m Hm. apply Hsame. eapply Below_l; eauto.
      + apply IH2. intros m Hm. apply Hsame. eapply Below_r; eauto.
  Qed.

  Lemma Below_range s x m : TP s -> x < length (ivs s) -> Below s x m -> x <= m /\ m < length (ivs s).
  Proof.
    intros (_ & _ & T1 & _) Hx HB. induction HB as [x|x l r m Hk Hl Hr HB IH|x l r m Hk Hl Hr HB IH].
    - lia.
    - destruct (T1 x l r Hx Hk) as (A1 & A2 & A3 & A4 & _). specialize (IH A2). lia.
    - destruct (T1 x l r Hx Hk) as (A1 & A2 & A3 & A4 & _). specialize (IH A4). lia.
  Qed.

  (* a node strictly below [x] is absorbed-into (None), its parent is below [x] too *)
  Lemma Below_parent s x m :
    TP s -> x < length (ivs s) -> Below s x m -> x <> m ->
    isN s m /\ exists p, par s m = Some p /\ Below s x p /\ absorbed s p.
  Proof.
    intros HT Hx HB. pose proof HT as (_ & _ & T1 & _).
    induction HB as [x|x l r m Hk Hl Hr HB IH|x l r m Hk Hl Hr HB IH]; intros Hne.
    - contradiction.
    - destruct (T1 x l r Hx Hk) as (A1 & A2 & A3 & A4 & A5 & A6 & A7).
      destruct (Nat.eq_dec l m) as [<-|Hlm].
      + split; [exact Hl|]. exists x. repeat split; auto; [constructor|exists l, r; auto].
      + destruct (IH A2 Hlm) as (B1 & p & B2 & B3 & B4). split; [exact B1|].
        exists p. repeat split; auto. eapply Below_l; eauto.
    - destruct (T1 x l r Hx Hk) as (A1 & A2 & A3 & A4 & A5 & A6 & A7).
      destruct (Nat.eq_dec r m) as [<-|Hrm].
      + split; [exact Hr|]. exists x. repeat split; auto; [constructor|exists l, r; auto].
      + destruct (IH A4 Hrm) as (B1 & p & B2 & B3 & B4). split; [exact B1|].
        exists p. repeat split; auto. eapply Below_r; eauto.
  Qed.

  Lemma UR_Cover s c L : UR s c L -> Cover dflt s c L.
  Proof.
    induction 1 as [c H|c l r Ll Lr Hk Hl Hr H1 IH1 H2 IH2]; [constructor|].
    econstructor; eauto.
  Qed.


  (* ---------------------------------------------------------------- *)
  (** the invariant *)
  Definition D1 s := forall c k S, c < length (ivs s) -> dlS s c = Some (k :: S) ->
                                   exists L, UR s c L /\ seteq (k :: S) L.
  Definition D2 s := forall c l r, c < length (ivs s) -> kids s c = [l; r] -> (isN s l <-> isN s r).
  Definition D3 s := forall c l r, c < length (ivs s) -> kids s c = [l; r] -> isN s l -> dlS s c <> Some [].
  Definition D4at s c := forall l r, kids s c = [l; r] -> ~ (isNE s l /\ isNE s r).
  Definition D5 s := forall c, c < length (ivs s) -> isN s c -> par s c <> None.
  (* [p]: the one node whose two children may both hold a non-empty set (the
     loop is about to merge them) *)
  Definition DIx s (p : option nat) :=
    D1 s /\ D2 s /\ D3 s /\ D5 s /\ forall c, c < length (ivs s) -> Some c <> p -> D4at s c.
  Definition DI s := DIx s None.

  (* ---------------------------------------------------------------- *)
  (** one assignment of done_leaves *)
  Definition set_dl s c v := upd s c (fun iv => iv_set_dl iv v).

  Lemma dlS_set_dl s c v x :
    dlS (set_dl s c v) x = if (x =? c) && (c <? length (ivs s)) then v else dlS s x.
  Proof. unfold dlS, set_dl. rewrite get_upd. destruct (_ && _); reflexivity. Qed.

  Lemma kids_set_dl s c v x : kids (set_dl s c v) x = kids s x.
  Proof. unfold kids, set_dl. rewrite get_upd. destruct (_ && _); reflexivity. Qed.

  Lemma par_set_dl s c v x : par (set_dl s c v) x = par s x.
  Proof. unfold par, set_dl. rewrite get_upd. destruct (_ && _); reflexivity. Qed.

  Lemma len_set_dl s c v : length (ivs (set_dl s c v)) = length (ivs s).
  Proof. apply length_upd. Qed.

  Definition addall S acc := fold_left (fun ac x => nat_add x ac) S acc.

  Lemma addall_In S : forall acc k, In k (addall S acc) <-> In k S \/ In k acc.
  Proof.
    induction S as [|a0 S IH]; intros acc k; cbn [addall fold_left In]; [tauto|].
    unfold addall in IH. rewrite IH, nat_add_In. intuition.
  Qed.

  (* the state and the accumulated set after `for child in ival.children` *)
  Lemma absorb_two s base l r :
    l <> r -> l < length (ivs s) -> r < length (ivs s) ->
    exists s1 acc, fold_left acF [l; r] (s, base) = (s1, acc) /\
      length (ivs s1) = length (ivs s) /\
      (forall x, kids s1 x = kids s x) /\ (forall x, par s1 x = par s x) /\
      dlS s1 l = None /\ dlS s1 r = None /\
      (forall x, x <> l -> x <> r -> dlS s1 x = dlS s x) /\
      (forall k, In k acc <-> In k base \/ (exists S, dlS s l = Some S /\ In k S)
                                       \/ (exists S, dlS s r = Some S /\ In k S)).
  Proof.
    intros Hne Hl Hr. cbn [fold_left absorb_child].
    apply Nat.ltb_lt in Hl as Hl'. apply Nat.ltb_lt in Hr as Hr'.
    destruct (done_leaves (getF s l)) as [Sl|] eqn:El; cbn [absorb_child].
    - change (upd s l (fun iv => iv_set_dl iv None)) with (set_dl s l None).
      assert (Er : done_leaves (getF (set_dl s l None) r) = dlS s r).
      { change (dlS (set_dl s l None) r = dlS s r). rewrite dlS_set_dl.
        destruct (Nat.eqb_spec r l); [congruence|reflexivity]. }
      rewrite Er. destruct (dlS s r) as [Sr|] eqn:Er0.
      + change (upd (set_dl s l None) r (fun iv => iv_set_dl iv None)) with (set_dl (set_dl s l None) r None).
        eexists _, _. split; [reflexivity|].
        split; [rewrite !len_set_dl; reflexivity|].
        split; [intros x; rewrite !kids_set_dl; reflexivity|].
        split; [intros x; rewrite !par_set_dl; reflexivity|].
        split; [rewrite !dlS_set_dl, len_set_dl, Nat.eqb_refl, Hl'; destruct (Nat.eqb_spec l r); [congruence|reflexivity]|].
        split; [rewrite !dlS_set_dl, len_set_dl, Nat.eqb_refl, Hr'; reflexivity|].
        split.
        * intros x Hxl Hxr. rewrite !dlS_set_dl.
          destruct (Nat.eqb_spec x r); [congruence|]. destruct (Nat.eqb_spec x l); [congruence|]. reflexivity.
        * intros k. fold (addall Sl base). fold (addall Sr (addall Sl base)). rewrite !addall_In.
          unfold dlS. rewrite El. split.
          -- intros [H|[H|H]]; [right; right; exists Sr; auto|right; left; exists Sl; auto|left; auto].
          -- intros [H|[(S0 & E & H)|(S0 & E & H)]]; [auto|inversion E; subst; auto|inversion E; subst; auto].
      + eexists _, _. split; [reflexivity|].
        split; [rewrite !len_set_dl; reflexivity|].
        split; [intros x; rewrite !kids_set_dl; reflexivity|].
        split; [intros x; rewrite !par_set_dl; reflexivity|].
        split; [rewrite !dlS_set_dl, Nat.eqb_refl, Hl'; reflexivity|].
        split; [rewrite !dlS_set_dl; destruct (Nat.eqb_spec r l); [congruence|exact Er0]|].
        split.
        * intros x Hxl Hxr. rewrite !dlS_set_dl. destruct (Nat.eqb_spec x l); [congruence|]. reflexivity.
        * intros k. fold (addall Sl base). rewrite !addall_In. unfold dlS. rewrite El. split.
          -- intros [H|H]; [right; left; exists Sl; auto|left; auto].
          -- intros [H|[(S0 & E & H)|(S0 & E & H)]]; [auto|inversion E; subst; auto|].
             unfold dlS in Er0. congruence.
    - destruct (done_leaves (getF s r)) as [Sr|] eqn:Er0.
      + change (upd s r (fun iv => iv_set_dl iv None)) with (set_dl s r None).
        eexists _, _. split; [reflexivity|].
        split; [rewrite !len_set_dl; reflexivity|].
        split; [intros x; rewrite !kids_set_dl; reflexivity|].
        split; [intros x; rewrite !par_set_dl; reflexivity|].
        split; [rewrite !dlS_set_dl; destruct (Nat.eqb_spec l r); [congruence|exact El]|].
        split; [rewrite !dlS_set_dl, Nat.eqb_refl, Hr'; reflexivity|].
        split.
        * intros x Hxl Hxr. rewrite !dlS_set_dl. destruct (Nat.eqb_spec x r); [congruence|]. reflexivity.
        * intros k. fold (addall Sr base). rewrite !addall_In. unfold dlS. rewrite Er0. split.
          -- intros [H|H]; [right; right; exists Sr; auto|left; auto].
          -- intros [H|[(S0 & E & H)|(S0 & E & H)]]; [auto| |inversion E; subst; auto].
             congruence.
      + exists s, base. split; [reflexivity|].
        repeat split; auto.
        intros [H|[(S0 & E & H)|(S0 & E & H)]]; [auto| |]; unfold dlS in E; congruence.
  Qed.


  (* ---------------------------------------------------------------- *)
  (** one iteration of the `while ival is not None` loop *)
  Definition base_of s j : list nat := match dlS s j with Some S0 => S0 | None => [] end.

  Definition okchild s c := isN s c \/ isNE s c.

  Lemma okchild_spec s c :
    forallb (fun c => dl_nonempty (getF s c)) (filter (fun c => is_some (done_leaves (getF s c))) [c]) = true
    <-> okchild s c.
  Proof.
    unfold okchild, isN, isNE, dlS. cbn [filter]. destruct (done_leaves (getF s c)) as [[|k S0]|] eqn:E; cbn.
    - unfold dl_nonempty. rewrite E. split; [discriminate|]. intros [H|(k & S0 & H)]; discriminate.
    - unfold dl_nonempty. rewrite E. split; [|reflexivity]. intros _. right. eauto.
    - split; auto.
  Qed.

  Lemma cond_spec s l r :
    forallb (fun c => dl_nonempty (getF s c)) (filter (fun c => is_some (done_leaves (getF s c))) [l; r]) = true
    <-> okchild s l /\ okchild s r.
  Proof.
    rewrite <- !okchild_spec. cbn [filter].
    destruct (is_some (done_leaves (getF s l))), (is_some (done_leaves (getF s r))); cbn [forallb];
      rewrite ?andb_true_r, ?andb_true_iff; tauto.
  Qed.

  Record StepSpec s j l r old s2 newset : Prop := {
    ss_len : length (ivs s2) = length (ivs s);
    ss_kids : forall x, kids s2 x = kids s x;
    ss_par : forall x, par s2 x = par s x;
    ss_j : dlS s2 j = Some newset;
    ss_l : dlS s2 l = None;
    ss_r : dlS s2 r = None;
    ss_other : forall x, x <> j -> x <> l -> x <> r -> dlS s2 x = dlS s x;
    ss_set : forall k, In k newset <->
               (In k (base_of s j) \/ (exists S, dlS s l = Some S /\ In k S) \/ (exists S, dlS s r = Some S /\ In k S))
               /\ ~ In k (j :: old)
  }.

  Lemma pl_step fuel s j old l r :
    j < length (ivs s) -> kids s j = [l; r] -> l <> r -> l <> j -> r <> j ->
    l < length (ivs s) -> r < length (ivs s) ->
    (~ (okchild s l /\ okchild s r) /\ plF (S fuel) s (Some j) old = s) \/
    (okchild s l /\ okchild s r /\
     exists s2 newset, plF (S fuel) s (Some j) old = plF fuel s2 (par s j) (j :: old) /\
                       StepSpec s j l r old s2 newset).
  Proof.
    intros Hj Hk Hlr Hlj Hrj Hl Hr. cbn [propagate_leaves].
    change (children (getF s j)) with (kids s j). rewrite Hk.
    destruct (forallb _ _) eqn:Ec.
    - right. apply cond_spec in Ec as [O1 O2]. split; [exact O1|]. split; [exact O2|].
      destruct (@absorb_two s (base_of s j) l r Hlr Hl Hr) as (s1 & acc & E & A1 & A2 & A3 & A4 & A5 & A6 & A7).
      change (match done_leaves (getF s j) with Some l0 => l0 | None => [] end) with (base_of s j).
      rewrite E.
      eexists _, _. split; [reflexivity|].
      change (upd s1 j (fun iv => iv_set_dl iv (Some (filter (fun x => negb (nat_mem x (j :: old))) acc))))
        with (set_dl s1 j (Some (filter (fun x => negb (nat_mem x (j :: old))) acc))).
      assert (Hj1 : (j <? length (ivs s1)) = true) by (apply Nat.ltb_lt; lia).
      constructor.
      + rewrite len_set_dl. exact A1.
      + intros x. rewrite kids_set_dl. apply A2.
      + intros x. rewrite par_set_dl. apply A3.
      + rewrite dlS_set_dl, Nat.eqb_refl, Hj1. reflexivity.
      + rewrite dlS_set_dl. destruct (Nat.eqb_spec l j); [congruence|exact A4].
      + rewrite dlS_set_dl. destruct (Nat.eqb_spec r j); [congruence|exact A5].
      + intros x H1 H2 H3. rewrite dlS_set_dl. destruct (Nat.eqb_spec x j); [congruence|]. apply A6; auto.
      + intros k. rewrite filter_In, A7, negb_true_iff. split.
        * intros [H1 H2]. split; [exact H1|]. rewrite <- nat_mem_In. congruence.
        * intros [H1 H2]. split; [exact H1|]. destruct (nat_mem k (j :: old)) eqn:E0; [|reflexivity].
          apply nat_mem_In in E0. contradiction.
    - left. split; [|reflexivity]. intros H. apply cond_spec in H. congruence.
  Qed.


  (* ---------------------------------------------------------------- *)
  (** transfer of derivations between states with the same tree *)

  Lemma UR_ext s s' x L :
    (forall y, kids s' y = kids s y) -> (forall y, isN s' y <-> isN s y) -> UR s x L -> UR s' x L.
  Proof.
    intros Hk Hn H. eapply UR_transfer; [exact H|]. intros m _. split; [apply Hk|]. intros k _. apply Hn.
  Qed.

  Lemma absorbed_ext s s' x :
    (forall y, kids s' y = kids s y) -> (forall y, isN s' y <-> isN s y) -> absorbed s x -> absorbed s' x.
  Proof. intros Hk Hn (l & r & A & B & C). exists l, r. rewrite Hk. repeat split; auto; apply Hn; auto. Qed.

  (* nodes whose status changed hang below a node that the derivation cannot pass *)
  Lemma UR_transfer_chg s s' x L :
    TP s -> x < length (ivs s) -> UR s x L ->
    (forall y, kids s' y = kids s y) ->
    (forall k, (isN s' k <-> isN s k) \/ (exists q, par s k = Some q /\ ~ Below s x q)) ->
    UR s' x L.
  Proof.
    intros HT Hx HU Hk Hchg. eapply UR_transfer; [exact HU|]. intros m Hm. split; [apply Hk|].
    intros k Hin. destruct (Hchg k) as [H|(q & Hq & Hnb)]; [exact H|]. exfalso. apply Hnb.
    destruct (@Below_range _ _ _ HT Hx Hm) as [_ Hmn]. pose proof HT as (_ & _ & T1 & T4 & _).
    destruct (T4 m Hmn) as [E|(a1 & b1 & E)]; rewrite E in Hin; [destruct Hin|].
    destruct (T1 m a1 b1 Hmn E) as (_ & _ & _ & _ & _ & Pa & Pb).
    destruct Hin as [<-|[<-|[]]]; congruence.
  Qed.

  (* replacing the leaf [t] by the list [Lt] *)
  Definition subst t Lt L : list nat := flat_map (fun m => if m =? t then Lt else [m]) L.

  Lemma subst_app t Lt L1 L2 : subst t Lt (L1 ++ L2) = subst t Lt L1 ++ subst t Lt L2.
  Proof. apply flat_map_app. Qed.

  Lemma subst_In t Lt L k : In k (subst t Lt L) <-> (In k L /\ k <> t) \/ (In t L /\ In k Lt).
  Proof.
    unfold subst. rewrite in_flat_map. split.
    - intros (m & Hm & Hk). destruct (Nat.eqb_spec m t) as [->|Hne]; [right; auto|].
      destruct Hk as [<-|[]]. left; auto.
    - intros [[H1 H2]|[H1 H2]].
      + exists k. split; [exact H1|]. destruct (Nat.eqb_spec k t); [contradiction|left; reflexivity].
      + exists t. split; [exact H1|]. rewrite Nat.eqb_refl. exact H2.
  Qed.

  Lemma subst_notin t Lt L : ~ In t L -> subst t Lt L = L.
  Proof.
    induction L as [|m L IH]; cbn [subst flat_map]; intros H; [reflexivity|].
    destruct (Nat.eqb_spec m t) as [->|Hne]; [exfalso; apply H; left; reflexivity|].
    cbn [app]. f_equal. apply IH. intros Hin. apply H. right; exact Hin.
  Qed.

  (* [s'] is [sa] after the two children of [t] were absorbed *)
  Lemma U_subst sa s' t Lt x L :
    TP sa ->
    (forall y, kids s' y = kids sa y) ->
    (forall y, isN sa y -> isN s' y) ->
    (forall y, isN s' y -> ~ isN sa y -> par sa y = Some t) ->
    UR s' t Lt ->
    x < length (ivs sa) -> UR sa x L -> UR s' x (subst t Lt L).
  Proof.
    intros HT Hk Hmono Hchg HUt Hx HU. pose proof HT as (_ & _ & T1 & _).
    induction HU as [c H|c l r Ll Lr Hkc Hl Hr H1 IH1 H2 IH2].
    - cbn [subst flat_map]. rewrite app_nil_r. destruct (Nat.eqb_spec c t) as [->|Hne]; [exact HUt|].
      apply UR_leaf. intros (l & r & A & B & C). rewrite Hk in A.
      destruct (isN_dec sa l) as [Nl|Nl]; [destruct (isN_dec sa r) as [Nr|Nr]|].
      + apply H. exists l, r. auto.
      + destruct (T1 c l r Hx A) as (_ & _ & _ & _ & _ & _ & Pr). specialize (Hchg r C Nr). congruence.
      + destruct (T1 c l r Hx A) as (_ & _ & _ & _ & _ & Pl & _). specialize (Hchg l B Nl). congruence.
    - destruct (T1 c l r Hx Hkc) as (_ & Hln & _ & Hrn & _).
      rewrite subst_app. eapply UR_node; [rewrite Hk; exact Hkc|apply Hmono; exact Hl|apply Hmono; exact Hr| |]; auto.
  Qed.

  Lemma TP_same s s' :
    length (ivs s') = length (ivs s) -> (forall x, kids s' x = kids s x) -> (forall x, par s' x = par s x) ->
    TP s -> TP s'.
  Proof.
    intros El Ek Ep (T0 & T1 & T2 & T3 & T4). unfold TP. rewrite El, Ep.
    refine (conj T0 (conj T1 (conj _ (conj _ _)))).
    - intros c l r Hc Hk. rewrite Ek in Hk. rewrite !Ep. apply T2; auto.
    - intros c Hc. rewrite Ek. apply T3; auto.
    - intros c p Hc Hp. rewrite Ep in Hp. rewrite Ek. apply T4; auto.
  Qed.


  (* ---------------------------------------------------------------- *)
  (** facts about one step *)
  Definition sameTree s s' : Prop :=
    length (ivs s') = length (ivs s) /\ (forall x, kids s' x = kids s x) /\ (forall x, par s' x = par s x).

  Lemma sameTree_refl s : sameTree s s. Proof. repeat split. Qed.
  Lemma sameTree_trans s1 s2 s3 : sameTree s1 s2 -> sameTree s2 s3 -> sameTree s1 s3.
  Proof.
    intros (A1 & A2 & A3) (B1 & B2 & B3). split; [congruence|]. split; intros x; [rewrite B2|rewrite B3]; auto.
  Qed.

  Definition Post s s' : Prop := sameTree s s' /\ TP s' /\ DI s' /\ (isNE s 0 -> isNE s' 0).

  Lemma isNE_notN s c : isNE s c -> ~ isN s c.
  Proof. intros (k & S0 & H) Hn. unfold isN in Hn. congruence. Qed.

  Lemma parent_kids s c j :
    TP s -> c < length (ivs s) -> par s c = Some j ->
    j < c /\ j < length (ivs s) /\ exists l r, kids s j = [l; r] /\ (c = l \/ c = r) /\
      j < l /\ l < length (ivs s) /\ j < r /\ r < length (ivs s) /\ l <> r /\
      par s l = Some j /\ par s r = Some j.
  Proof.
    intros (T0 & T1 & T2 & T3 & T4) Hc Hp. destruct (T4 c j Hc Hp) as [Hjc Hin].
    assert (Hj : j < length (ivs s)) by lia. split; [exact Hjc|]. split; [exact Hj|].
    destruct (T3 j Hj) as [E|(l & r & E)]; rewrite E in Hin; [destruct Hin|].
    exists l, r. split; [exact E|]. split; [destruct Hin as [<-|[<-|[]]]; auto|].
    apply T2; auto.
  Qed.

  Section Step.
    Variables (s s2 : st) (j l r : nat) (old newset : list nat).
    Hypothesis HT : TP s.
    Hypothesis Hj : j < length (ivs s).
    Hypothesis Hk : kids s j = [l; r].
    Hypothesis HS : StepSpec s j l r old s2 newset.

    Lemma step_tree : sameTree s s2.
    Proof. destruct HS. repeat split; auto. Qed.

    Lemma step_TP : TP s2.
    Proof. destruct HS. eapply TP_same; eauto. Qed.

    Lemma step_facts :
      j < l /\ l < length (ivs s) /\ j < r /\ r < length (ivs s) /\ l <> r /\ par s l = Some j /\ par s r = Some j.
    Proof. destruct HT as (_ & _ & T1 & _). apply T1; auto. Qed.

    Lemma step_isN x : isN s2 x <-> x = l \/ x = r \/ (x <> j /\ isN s x).
    Proof.
      destruct HS. destruct step_facts as (A1 & _ & A3 & _). unfold isN. split.
      - intros H. destruct (Nat.eq_dec x l); [auto|]. destruct (Nat.eq_dec x r); [auto|].
        destruct (Nat.eq_dec x j) as [->|]; [congruence|]. right; right. split; auto. rewrite <- ss_other0; auto.
      - intros [->|[->|[H1 H2]]]; auto.
        destruct (Nat.eq_dec x l) as [->|]; [auto|]. destruct (Nat.eq_dec x r) as [->|]; [auto|].
        rewrite ss_other0; auto.
    Qed.

    Lemma step_isNE x : isNE s2 x -> x = j \/ (x <> l /\ x <> r /\ isNE s x).
    Proof.
      destruct HS. intros (k & S0 & H). destruct (Nat.eq_dec x j); [auto|]. right.
      destruct (Nat.eq_dec x l) as [->|]; [congruence|]. destruct (Nat.eq_dec x r) as [->|]; [congruence|].
      repeat split; auto. exists k, S0. rewrite <- ss_other0; auto.
    Qed.

    Lemma step_isNE_back x : x <> j -> x <> l -> x <> r -> isNE s x -> isNE s2 x.
    Proof. destruct HS. intros A B C (k & S0 & H). exists k, S0. rewrite ss_other0; auto. Qed.

    Lemma step_root : isNE s 0 -> (j = 0 -> newset <> []) -> isNE s2 0.
    Proof.
      destruct HS. destruct step_facts as (A1 & _ & A3 & _). intros H Hn.
      destruct (Nat.eq_dec j 0) as [E|E].
      - subst j. destruct newset as [|k S0]; [exfalso; apply Hn; auto|]. exists k, S0. exact ss_j0.
      - apply step_isNE_back; auto; lia.
    Qed.
  End Step.
  Arguments ss_len {s j l r old s2 newset}. Arguments ss_kids {s j l r old s2 newset}.
  Arguments ss_par {s j l r old s2 newset}. Arguments ss_j {s j l r old s2 newset}.
  Arguments ss_l {s j l r old s2 newset}. Arguments ss_r {s j l r old s2 newset}.
  Arguments ss_other {s j l r old s2 newset}. Arguments ss_set {s j l r old s2 newset}.
  Arguments step_tree {s s2 j l r old newset}. Arguments step_TP {s s2 j l r old newset}.
  Arguments step_facts {s j l r}. Arguments step_isN {s s2 j l r old newset}.
  Arguments step_isNE {s s2 j l r old newset}. Arguments step_isNE_back {s s2 j l r old newset}.
  Arguments step_root {s s2 j l r old newset}.
  Arguments UR_In_Below {s x L m}. Arguments UR_leaves {s c L k}. Arguments UR_nonempty {s c L}.
  Arguments Below_range {s x m}. Arguments Below_parent {s x m}. Arguments UR_inv_leaf {s c L}.
  Arguments UR_inv_node {s c L l r}. Arguments UR_Cover {s c L}. Arguments parent_kids {s c j}.
  Arguments UR_ext {s s' x L}. Arguments UR_transfer_chg {s s' x L}. Arguments U_subst {sa s' t Lt x L}.
  Arguments absorbed_ext {s s' x}. Arguments TP_same {s s'}.


  (* ---------------------------------------------------------------- *)
  (** loop invariants *)
  Record PM s c old : Prop := {
    pm_tp : TP s;
    pm_c : c < length (ivs s);
    pm_ne : isNE s c;
    pm_di : DIx s (par s c);
    pm_old : forall w, In w old -> absorbed s w /\ c <= w
  }.

  Lemma DI_break s j l r :
    DIx s (Some j) -> kids s j = [l; r] -> ~ (isNE s l /\ isNE s r) -> DI s.
  Proof.
    intros (A1 & A2 & A3 & A5 & A4) Hk Hn. refine (conj A1 (conj A2 (conj A3 (conj A5 _)))).
    intros c Hc _. destruct (Nat.eq_dec c j) as [->|Hne].
    - intros l0 r0 E. rewrite Hk in E. inversion E; subst. exact Hn.
    - apply A4; auto. congruence.
  Qed.

  (* the set assigned to [j] when both children hold covers *)
  Lemma P_newset s s2 j l r old newset Ll Lr :
    TP s -> j < length (ivs s) -> kids s j = [l; r] ->
    StepSpec s j l r old s2 newset ->
    (forall k, In k (base_of s j) -> k = j) ->
    (exists Sl, dlS s l = Some Sl /\ seteq Sl Ll) -> (exists Sr, dlS s r = Some Sr /\ seteq Sr Lr) ->
    UR s l Ll -> UR s r Lr ->
    (forall w, In w old -> absorbed s w) ->
    seteq newset (Ll ++ Lr).
  Proof.
    intros HT Hj Hk HS Hbase (Sl & El & Ql) (Sr & Er & Qr) Ul Ur Hold k.
    destruct (step_facts HT Hj Hk) as (A1 & A2 & A3 & A4 & _).
    rewrite (ss_set HS), in_app_iff. split.
    - intros [[H|[(S0 & E & H)|(S0 & E & H)]] Hn].
      + exfalso. apply Hn. left. symmetry. apply Hbase, H.
      + left. apply Ql. congruence.
      + right. apply Qr. congruence.
    - intros H. split.
      + destruct H as [H|H]; [right; left; exists Sl; split; auto; apply Ql; auto|right; right; exists Sr; split; auto; apply Qr; auto].
      + intros [<-|Hw].
        * destruct H as [H|H].
          -- destruct (Below_range HT A2 (UR_In_Below Ul H)). lia.
          -- destruct (Below_range HT A4 (UR_In_Below Ur H)). lia.
        * destruct H as [H|H]; [apply (UR_leaves Ul H)|apply (UR_leaves Ur H)]; apply Hold, Hw.
  Qed.


  Lemma sub_transfer s s' j l r x L :
    TP s -> j < length (ivs s) -> kids s j = [l; r] -> (x = l \/ x = r) ->
    (forall y, kids s' y = kids s y) ->
    (forall k, k <> j -> k <> l -> k <> r -> (isN s' k <-> isN s k)) ->
    UR s x L -> UR s' x L.
  Proof.
    intros HT Hj Hk Hx Hkk Hst HU. destruct (step_facts HT Hj Hk) as (A1 & A2 & A3 & A4 & A5 & A6 & A7).
    assert (Hxn : x < length (ivs s)) by (destruct Hx; subst; auto).
    assert (Hjx : j < x) by (destruct Hx; subst; auto).
    eapply UR_transfer; [exact HU|]. intros m Hm. split; [apply Hkk|]. intros k Hin.
    destruct (Below_range HT Hxn Hm) as [Hxm Hmn]. pose proof HT as (_ & _ & T1 & T3 & _).
    destruct (T3 m Hmn) as [E|(a1 & b1 & E)]; rewrite E in Hin; [destruct Hin|].
    destruct (T1 m a1 b1 Hmn E) as (B1 & _ & B3 & _ & _ & Pa & Pb).
    apply Hst; destruct Hin as [<-|[<-|[]]]; try lia; intros ->; try congruence;
      try (rewrite A6 in Pa; inversion Pa; lia); try (rewrite A7 in Pa; inversion Pa; lia);
      try (rewrite A6 in Pb; inversion Pb; lia); try (rewrite A7 in Pb; inversion Pb; lia).
  Qed.

  Lemma other_transfer s s' j l r x L :
    TP s -> j < length (ivs s) -> kids s j = [l; r] -> x < length (ivs s) -> x <> j -> ~ isN s j ->
    (forall y, kids s' y = kids s y) ->
    (forall k, k <> l -> k <> r -> (isN s' k <-> isN s k)) ->
    UR s x L -> UR s' x L.
  Proof.
    intros HT Hj Hk Hx Hne HnN Hkk Hst HU. destruct (step_facts HT Hj Hk) as (A1 & A2 & A3 & A4 & A5 & A6 & A7).
    apply (UR_transfer_chg HT Hx HU Hkk). intros k.
    destruct (Nat.eq_dec k l) as [->|Hl]; [right; exists j; split; auto; intros HB; destruct (Below_parent HT Hx HB Hne); auto|].
    destruct (Nat.eq_dec k r) as [->|Hr]; [right; exists j; split; auto; intros HB; destruct (Below_parent HT Hx HB Hne); auto|].
    left. apply Hst; auto.
  Qed.

  Lemma old_transfer s s' j l r c w :
    TP s -> j < length (ivs s) -> kids s j = [l; r] -> j < c -> c <= w -> w < length (ivs s) ->
    ~ isN s l -> ~ isN s r ->
    (forall y, kids s' y = kids s y) ->
    (forall k, k <> j -> k <> l -> k <> r -> (isN s' k <-> isN s k)) ->
    absorbed s w -> absorbed s' w.
  Proof.
    intros HT Hj Hk Hjc Hcw Hwn Nl Nr Hkk Hst (a1 & b1 & E & Na & Nb).
    pose proof HT as (_ & _ & T1 & _). destruct (T1 w a1 b1 Hwn E) as (B1 & _ & B3 & _).
    exists a1, b1. rewrite Hkk. split; [exact E|].
    split; apply Hst; auto; try lia; intros ->; contradiction.
  Qed.


  Lemma absorbed_range s w : absorbed s w -> w < length (ivs s).
  Proof.
    intros (a1 & b1 & E & _). destruct (Nat.lt_ge_cases w (length (ivs s))) as [H|H]; [exact H|].
    unfold kids in E. rewrite get_overflow in E by exact H. discriminate.
  Qed.

  Lemma D1_get s c : D1 s -> c < length (ivs s) -> isNE s c ->
    exists Sc Lc, dlS s c = Some Sc /\ seteq Sc Lc /\ UR s c Lc.
  Proof. intros HD Hc (k & S0 & E). destruct (HD c k S0 Hc E) as (L & U & Q). eauto. Qed.

  Arguments D1_get {s c}. Arguments absorbed_range {s w}. Arguments sub_transfer {s s' j l r x L}.
  Arguments other_transfer {s s' j l r x L}. Arguments old_transfer {s s' j l r c w}.
  Arguments P_newset {s s2 j l r old newset Ll Lr}. Arguments DI_break {s j l r}. Arguments isNE_notN {s c}.

  (* P-mode, both children hold covers, [j] itself is not absorbed: merge into [j] *)
  Lemma PM_absorb_nonN s s2 c j l r old newset :
    PM s c old -> par s c = Some j -> kids s j = [l; r] -> (c = l \/ c = r) ->
    ~ isN s j -> isNE s l -> isNE s r -> StepSpec s j l r old s2 newset ->
    PM s2 j (j :: old) /\ newset <> [].
  Proof.
    intros [HT Hc Hne HDI Hold] Hp Hk Hcl NNj NEl NEr HS.
    destruct (parent_kids HT Hc Hp) as (Hjc & Hj & _).
    destruct (step_facts HT Hj Hk) as (A1 & A2 & A3 & A4 & A5 & A6 & A7).
    rewrite Hp in HDI. destruct HDI as (HD1 & HD2 & HD3 & HD5 & HD4).
    destruct (D1_get HD1 A2 NEl) as (Sl & Ll & El & Ql & Ul).
    destruct (D1_get HD1 A4 NEr) as (Sr & Lr & Er & Qr & Ur).
    assert (Nl : ~ isN s l) by (apply isNE_notN; auto). assert (Nr : ~ isN s r) by (apply isNE_notN; auto).
    assert (Hnabs : ~ absorbed s j).
    { intros (a1 & b1 & E & Na & _). rewrite Hk in E. inversion E; subst. contradiction. }
    assert (Hbase : forall k, In k (base_of s j) -> k = j).
    { intros k Hin. unfold base_of in Hin. destruct (dlS s j) as [[|k0 S0]|] eqn:Ej; [destruct Hin| |destruct Hin].
      destruct (HD1 j k0 S0 Hj Ej) as (L & U & Q). rewrite (UR_inv_leaf U Hnabs) in Q.
      apply Q in Hin. destruct Hin as [<-|[]]. reflexivity. }
    assert (Hset : seteq newset (Ll ++ Lr)).
    { apply (P_newset HT Hj Hk HS Hbase (ex_intro _ Sl (conj El Ql)) (ex_intro _ Sr (conj Er Qr)) Ul Ur).
      intros w Hw. apply Hold, Hw. }
    pose proof (step_tree HS) as (Tl & Tk & Tp). pose proof (step_TP HT HS) as HT2.
    assert (HstN : forall k, k <> j -> k <> l -> k <> r -> (isN s2 k <-> isN s k)).
    { intros k B1 B2 B3. rewrite (step_isN HT Hj Hk HS). tauto. }
    assert (U2l : UR s2 l Ll) by (apply (sub_transfer HT Hj Hk (or_introl eq_refl) Tk HstN Ul)).
    assert (U2r : UR s2 r Lr) by (apply (sub_transfer HT Hj Hk (or_intror eq_refl) Tk HstN Ur)).
    assert (N2l : isN s2 l) by (apply (step_isN HT Hj Hk HS); auto).
    assert (N2r : isN s2 r) by (apply (step_isN HT Hj Hk HS); auto).
    assert (N2j : ~ isN s2 j) by (unfold isN; rewrite (ss_j HS); discriminate).
    assert (K2j : kids s2 j = [l; r]) by (rewrite Tk; exact Hk).
    assert (U2j : UR s2 j (Ll ++ Lr)) by (exact (@UR_node s2 j l r Ll Lr K2j N2l N2r U2l U2r)).
    assert (Hnn : newset <> []).
    { intros ->. pose proof (UR_nonempty U2j) as Hn. destruct (Ll ++ Lr) as [|k0 L0]; [contradiction|].
      destruct (Hset k0) as [_ H]. destruct H. left; reflexivity. }
    split; [|exact Hnn].
    constructor.
    - exact HT2.
    - rewrite Tl. exact Hj.
    - destruct newset as [|k0 S0]; [contradiction|]. exists k0, S0. exact (ss_j HS).
    - rewrite Tp. refine (conj _ (conj _ (conj _ (conj _ _)))).
      + (* D1 *) intros x k0 S0 Hx Ex. rewrite Tl in Hx. destruct (Nat.eq_dec x j) as [->|Hxj].
        * exists (Ll ++ Lr). split; [exact U2j|]. rewrite (ss_j HS) in Ex. inversion Ex; subst. exact Hset.
        * assert (Hxl : x <> l) by (intros ->; unfold isN in N2l; congruence).
          assert (Hxr : x <> r) by (intros ->; unfold isN in N2r; congruence).
          rewrite (ss_other HS) in Ex by auto. destruct (HD1 x k0 S0 Hx Ex) as (L & U & Q).
          exists L. split; [|exact Q]. refine (other_transfer HT Hj Hk Hx Hxj NNj Tk _ U).
          intros k B2 B3. destruct (Nat.eq_dec k j) as [->|B1]; [tauto|apply HstN; auto].
      + (* D2 *) intros x a1 b1 Hx Ex. rewrite Tl in Hx. rewrite Tk in Ex.
        destruct (Nat.eq_dec x j) as [->|Hxj]; [rewrite Hk in Ex; inversion Ex; subst; tauto|].
        pose proof HT as (_ & _ & T1 & _). destruct (T1 x a1 b1 Hx Ex) as (_ & _ & _ & _ & _ & Pa & Pb).
        assert (a1 <> l /\ a1 <> r /\ b1 <> l /\ b1 <> r) as (C1 & C2 & C3 & C4) by (repeat split; intros ->; congruence).
        rewrite !(step_isN HT Hj Hk HS). specialize (HD2 x a1 b1 Hx Ex).
        destruct (Nat.eq_dec a1 j) as [->|]; destruct (Nat.eq_dec b1 j) as [->|]; tauto.
      + (* D3 *) intros x a1 b1 Hx Ex Na. rewrite Tl in Hx. rewrite Tk in Ex.
        destruct (Nat.eq_dec x j) as [->|Hxj].
        * rewrite (ss_j HS). destruct newset; [contradiction|discriminate].
        * destruct (Nat.eq_dec x l) as [->|Hxl]; [rewrite (ss_l HS); discriminate|].
          destruct (Nat.eq_dec x r) as [->|Hxr]; [rewrite (ss_r HS); discriminate|].
          rewrite (ss_other HS) by auto.
          pose proof HT as (_ & _ & T1 & _). destruct (T1 x a1 b1 Hx Ex) as (_ & _ & _ & _ & _ & Pa & Pb).
          apply (HD3 x a1 b1 Hx Ex). apply (step_isN HT Hj Hk HS) in Na.
          destruct Na as [->|[->|[_ Na]]]; [congruence|congruence|exact Na].
      + (* D5 *) intros x Hx Nx. rewrite Tl in Hx. rewrite Tp. apply (step_isN HT Hj Hk HS) in Nx.
        destruct Nx as [->|[->|[_ Nx]]]; [congruence|congruence|apply HD5; auto].
      + (* D4 *) intros x Hx Hxp a1 b1 Ex [Ea Eb]. rewrite Tl in Hx. rewrite Tk in Ex.
        destruct (Nat.eq_dec x j) as [->|Hxj].
        * rewrite Hk in Ex. inversion Ex; subst. apply (isNE_notN Ea). exact N2l.
        * pose proof HT as (_ & _ & T1 & _). destruct (T1 x a1 b1 Hx Ex) as (_ & _ & _ & _ & _ & Pa & Pb).
          apply (step_isNE HS) in Ea. apply (step_isNE HS) in Eb.
          destruct Ea as [->|(_ & _ & Ea)]; [apply Hxp; congruence|].
          destruct Eb as [->|(_ & _ & Eb)]; [apply Hxp; congruence|].
          apply (HD4 x Hx) with (l := a1) (r := b1); auto. congruence.
    - (* old *) intros w [<-|Hw].
      + split; [|lia]. exists l, r. rewrite Tk. auto.
      + destruct (Hold w Hw) as [Ha Hcw]. split; [|lia].
        refine (old_transfer HT Hj Hk Hjc Hcw (absorbed_range Ha) Nl Nr Tk HstN Ha).
  Qed.


  (* T-mode: [c] transiently holds the new leaves [Lt] of the old leaf [t]; [sa]
     is the state just before the children of [t] were absorbed *)
  Record TM s c old sa t Lt : Prop := {
    tm_tp : TP s;
    tm_tpa : TP sa;
    tm_c : c < length (ivs s);
    tm_le : c <= t;
    tm_tree : sameTree sa s;
    tm_set : exists Sc, dlS s c = Some Sc /\ seteq Sc Lt;
    tm_cN : isN sa c;
    tm_kt : exists lt rt, kids s t = [lt; rt] /\ isN s lt /\ isN s rt /\ ~ isN sa lt /\ ~ isN sa rt /\
              (forall x, x <> c -> x <> lt -> x <> rt -> dlS s x = dlS sa x);
    tm_tN : isN sa t;
    tm_disa : DIx sa (Some t);
    tm_ur : UR (set_dl s c None) t Lt;
    tm_reach : forall L, UR sa c L -> In t L;
    tm_nonN : forall x L, x < length (ivs s) -> ~ isN sa x -> UR sa x L -> In t L -> Below sa x c /\ x <> c;
    tm_old : In t old /\ forall w, In w old -> absorbed (set_dl s c None) w /\ c <= w
  }.

  Lemma isN_set_dl_None s c x : isN (set_dl s c None) x <-> x = c \/ isN s x.
  Proof.
    unfold isN. rewrite dlS_set_dl. destruct (Nat.eqb_spec x c) as [->|Hne]; cbn [andb].
    - destruct (Nat.ltb_spec c (length (ivs s))); [tauto|].
      split; [auto|]. intros _. unfold dlS. rewrite get_overflow by assumption. reflexivity.
    - split; [auto|]. intros [H|H]; [contradiction|exact H].
  Qed.

  (* P-mode reaches an absorbed node [j] whose two children hold covers: T-mode starts *)
  Lemma PM_absorb_N s s2 c j l r old newset :
    PM s c old -> par s c = Some j -> kids s j = [l; r] -> (c = l \/ c = r) ->
    isN s j -> isNE s l -> isNE s r -> StepSpec s j l r old s2 newset ->
    exists Lt, TM s2 j (j :: old) s j Lt /\ newset <> [].
  Proof.
    intros [HT Hc Hne HDI Hold] Hp Hk Hcl Nj NEl NEr HS.
    destruct (parent_kids HT Hc Hp) as (Hjc & Hj & _).
    destruct (step_facts HT Hj Hk) as (A1 & A2 & A3 & A4 & A5 & A6 & A7).
    rewrite Hp in HDI. pose proof HDI as (HD1 & HD2 & HD3 & HD5 & HD4).
    destruct (D1_get HD1 A2 NEl) as (Sl & Ll & El & Ql & Ul).
    destruct (D1_get HD1 A4 NEr) as (Sr & Lr & Er & Qr & Ur).
    assert (Nl : ~ isN s l) by (apply isNE_notN; auto). assert (Nr : ~ isN s r) by (apply isNE_notN; auto).
    assert (Hnabs : ~ absorbed s j).
    { intros (a1 & b1 & E & Na & _). rewrite Hk in E. inversion E; subst. contradiction. }
    assert (Hbase : forall k, In k (base_of s j) -> k = j).
    { intros k Hin. unfold base_of in Hin. unfold isN in Nj. rewrite Nj in Hin. destruct Hin. }
    assert (Hset : seteq newset (Ll ++ Lr)).
    { apply (P_newset HT Hj Hk HS Hbase (ex_intro _ Sl (conj El Ql)) (ex_intro _ Sr (conj Er Qr)) Ul Ur).
      intros w Hw. apply Hold, Hw. }
    pose proof (step_tree HS) as (Tl & Tk & Tp). pose proof (step_TP HT HS) as HT2.
    set (s0 := set_dl s2 j None).
    assert (Tk0 : forall y, kids s0 y = kids s y) by (intros y; unfold s0; rewrite kids_set_dl; apply Tk).
    assert (HstN : forall k, k <> j -> k <> l -> k <> r -> (isN s0 k <-> isN s k)).
    { intros k B1 B2 B3. unfold s0. rewrite isN_set_dl_None, (step_isN HT Hj Hk HS). tauto. }
    assert (U0l : UR s0 l Ll) by (apply (sub_transfer HT Hj Hk (or_introl eq_refl) Tk0 HstN Ul)).
    assert (U0r : UR s0 r Lr) by (apply (sub_transfer HT Hj Hk (or_intror eq_refl) Tk0 HstN Ur)).
    assert (N2l : isN s2 l) by (apply (step_isN HT Hj Hk HS); auto).
    assert (N2r : isN s2 r) by (apply (step_isN HT Hj Hk HS); auto).
    assert (N0l : isN s0 l) by (apply isN_set_dl_None; auto).
    assert (N0r : isN s0 r) by (apply isN_set_dl_None; auto).
    assert (K0j : kids s0 j = [l; r]) by (rewrite Tk0; exact Hk).
    assert (U0j : UR s0 j (Ll ++ Lr)) by (exact (@UR_node s0 j l r Ll Lr K0j N0l N0r U0l U0r)).
    assert (Hnn : newset <> []).
    { intros ->. pose proof (UR_nonempty U0j) as Hn. destruct (Ll ++ Lr) as [|k0 L0]; [contradiction|].
      destruct (Hset k0) as [_ H]. destruct H. left; reflexivity. }
    exists (Ll ++ Lr). split; [|exact Hnn].
    constructor.
    - exact HT2.
    - exact HT.
    - rewrite Tl. exact Hj.
    - lia.
    - repeat split; auto.
    - exists newset. split; [exact (ss_j HS)|exact Hset].
    - exact Nj.
    - exists l, r. rewrite Tk. repeat split; auto. intros x B1 B2 B3. apply (ss_other HS); auto.
    - exact Nj.
    - exact HDI.
    - exact U0j.
    - intros L U. rewrite (UR_inv_leaf U Hnabs). left; reflexivity.
    - intros x L Hx NNx U Hin. split; [exact (UR_In_Below U Hin)|]. intros ->. contradiction.
    - split; [left; reflexivity|]. intros w [<-|Hw].
      + split; [|lia]. exists l, r. auto.
      + destruct (Hold w Hw) as [Ha Hcw]. split; [|lia].
        refine (old_transfer HT Hj Hk Hjc Hcw (absorbed_range Ha) Nl Nr Tk0 HstN Ha).
  Qed.


  Arguments isN_set_dl_None {s c x}.

  Record TMsetup s c sa t Lt g l r c' Sc : Prop := {
    tu_kids : kids s g = [l; r];
    tu_lr : (l = c /\ r = c') \/ (l = c' /\ r = c);
    tu_gc : g < c;
    tu_g : g < length (ivs s);
    tu_ne : c' <> c;
    tu_c' : c' < length (ivs s);
    tu_c'N : isN s c';
    tu_c'Na : isN sa c';
    tu_gdl : dlS s g = dlS sa g;
    tu_Sc : dlS s c = Some Sc;
    tu_ScLt : seteq Sc Lt;
    tu_Scne : Sc <> [];
    tu_okl : okchild s l;
    tu_okr : okchild s r;
    tu_parts : forall k, ((exists S0, dlS s l = Some S0 /\ In k S0) \/ (exists S0, dlS s r = Some S0 /\ In k S0)) <-> In k Sc
  }.

  Lemma TM_setup s c old sa t Lt g :
    TM s c old sa t Lt -> par s c = Some g ->
    exists l r c' Sc, TMsetup s c sa t Lt g l r c' Sc.
  Proof.
    intros [HT HTa Hc Hle (Tl & Tk & Tp) (Sc & ESc & QSc) NcA (lt & rt & Kt & Nlt & Nrt & NAlt & NArt & Hsame) NtA HDa Ut Hreach HnonN Hold] Hp.
    destruct (parent_kids HT Hc Hp) as (Hgc & Hg & l & r & Hk & Hcl & A1 & A2 & A3 & A4 & A5 & A6 & A7).
    destruct HDa as (HD1 & HD2 & HD3 & HD5 & HD4).
    assert (Hta : t < length (ivs s)).
    { destruct (Nat.lt_ge_cases t (length (ivs s))) as [H|H]; [exact H|].
      unfold kids in Kt. rewrite get_overflow in Kt by exact H. discriminate. }
    pose proof HT as (_ & _ & T1 & _). destruct (T1 t lt rt Hta Kt) as (B1 & _ & B3 & _ & _ & Plt & Prt).
    assert (Hg' : g < length (ivs sa)) by (rewrite <- Tl; exact Hg).
    assert (Hka : kids sa g = [l; r]) by (rewrite <- Tk; exact Hk).
    specialize (HD2 g l r Hg' Hka).
    assert (Sne : Sc <> []).
    { intros ->. pose proof (UR_nonempty Ut) as Hn. destruct Lt as [|k0 L0]; [contradiction|].
      destruct (QSc k0) as [_ H]. destruct H. left; reflexivity. }
    assert (NEc : isNE s c) by (destruct Sc as [|k0 S0]; [contradiction|]; exists k0, S0; exact ESc).
    assert (Hgd : dlS s g = dlS sa g) by (apply Hsame; lia).
    destruct Hcl as [-> | ->].
    - (* c = l *) exists l, r, r, Sc.
      assert (NrA : isN sa r) by (apply HD2; exact NcA).
      assert (Hr1 : r <> lt) by (intros ->; rewrite A7 in Plt; inversion Plt; lia).
      assert (Hr2 : r <> rt) by (intros ->; rewrite A7 in Prt; inversion Prt; lia).
      assert (Nr : isN s r) by (unfold isN; rewrite Hsame; auto).
      constructor; auto.
      + right. exact NEc.
      + left. exact Nr.
      + intros k. split.
        * intros [(S0 & E & H)|(S0 & E & H)]; [congruence|unfold isN in Nr; congruence].
        * intros H. left. exists Sc. auto.
    - (* c = r *) exists l, r, l, Sc.
      assert (NlA : isN sa l) by (apply HD2; exact NcA).
      assert (Hl1 : l <> lt) by (intros ->; rewrite A6 in Plt; inversion Plt; lia).
      assert (Hl2 : l <> rt) by (intros ->; rewrite A6 in Prt; inversion Prt; lia).
      assert (Nl : isN s l) by (unfold isN; rewrite Hsame; auto).
      constructor; auto.
      + left. exact Nl.
      + right. exact NEc.
      + intros k. split.
        * intros [(S0 & E & H)|(S0 & E & H)]; [unfold isN in Nl; congruence|congruence].
        * intros H. right. exists Sc. auto.
  Qed.


  Arguments TM_setup {s c old sa t Lt g}.

  (* T-mode passes an absorbed node [g] *)
  Lemma TM_up s s2 c old sa t Lt g l r c' Sc newset :
    TM s c old sa t Lt -> par s c = Some g -> TMsetup s c sa t Lt g l r c' Sc ->
    isN sa g -> StepSpec s g l r old s2 newset ->
    TM s2 g (g :: old) sa t Lt /\ newset <> [].
  Proof.
    intros HTM Hp SU NgA HS. pose proof HTM as [HT HTa Hc Hle (Tl & Tk & Tp) _ NcA (lt & rt & Kt & Nlt & Nrt & NAlt & NArt & Hsame) NtA HDa Ut Hreach HnonN [Htold Hold]].
    destruct SU as [Hk Hlr Hgc Hg Hne Hc' Nc' Nc'A Hgd ESc QSc Sne Okl Okr Hparts].
    pose proof (step_tree HS) as (Sl & Sk & Sp). pose proof (step_TP HT HS) as HT2.
    assert (Ng : isN s g) by (unfold isN; rewrite Hgd; exact NgA).
    assert (Hlrc : forall x, x = l \/ x = r <-> x = c \/ x = c').
    { intros x. destruct Hlr as [[-> ->]|[-> ->]]; tauto. }
    set (s0 := set_dl s c None). set (s20 := set_dl s2 g None).
    assert (HN : forall x, isN s20 x <-> isN s0 x).
    { intros x. unfold s20, s0. rewrite !isN_set_dl_None, (step_isN HT Hg Hk HS).
      specialize (Hlrc x). split.
      - intros [E|[E|[E|[_ E]]]]; [right; rewrite E; exact Ng| | |right; exact E].
        + destruct (proj1 Hlrc (or_introl E)) as [E'|E']; [left; exact E'|right; rewrite E'; exact Nc'].
        + destruct (proj1 Hlrc (or_intror E)) as [E'|E']; [left; exact E'|right; rewrite E'; exact Nc'].
      - intros [E|E].
        + right. destruct (proj2 Hlrc (or_introl E)); auto.
        + destruct (Nat.eq_dec x g) as [E1|E1]; [left; exact E1|right; right; right; auto]. }
    assert (HK : forall y, kids s20 y = kids s0 y).
    { intros y. unfold s20, s0. rewrite !kids_set_dl. apply Sk. }
    assert (Hta : t < length (ivs s)).
    { destruct (Nat.lt_ge_cases t (length (ivs s))) as [H|H]; [exact H|].
      unfold kids in Kt. rewrite get_overflow in Kt by exact H. discriminate. }
    pose proof HT as (_ & _ & T1 & _). destruct (T1 t lt rt Hta Kt) as (B1 & _ & B3 & _ & _ & Plt & Prt).
    assert (Habs_g : absorbed s0 g).
    { exists l, r. unfold s0. rewrite kids_set_dl. split; [exact Hk|].
      rewrite !isN_set_dl_None. destruct Hlr as [[-> ->]|[-> ->]]; auto. }
    assert (Hset : seteq newset Lt).
    { intros k. rewrite (ss_set HS), Hparts. unfold base_of. unfold isN in Ng. rewrite Ng. split.
      - intros [[[]|H] _]. apply QSc, H.
      - intros H. split; [right; apply QSc, H|]. pose proof (UR_leaves Ut H) as Hna.
        intros [<-|Hw]; [contradiction|]. apply Hna, Hold, Hw. }
    assert (Hnn : newset <> []).
    { intros ->. pose proof (UR_nonempty Ut) as Hn. destruct Lt as [|k0 L0]; [contradiction|].
      destruct (Hset k0) as [_ H]. destruct H. left; reflexivity. }
    split; [|exact Hnn].
    constructor.
    - exact HT2.
    - exact HTa.
    - rewrite Sl. exact Hg.
    - lia.
    - split; [congruence|]. split; intros x; [rewrite Sk|rewrite Sp]; auto.
    - exists newset. split; [exact (ss_j HS)|exact Hset].
    - exact NgA.
    - exists lt, rt. rewrite Sk. split; [exact Kt|].
      assert (Hlt_g : lt <> g /\ rt <> g) by lia.
      split; [apply (step_isN HT Hg Hk HS); right; right; split; [lia|exact Nlt]|].
      split; [apply (step_isN HT Hg Hk HS); right; right; split; [lia|exact Nrt]|].
      split; [exact NAlt|]. split; [exact NArt|].
      intros x Hx1 Hx2 Hx3. destruct (Nat.eq_dec x c) as [->|Hxc].
      + assert (E : dlS s2 c = None) by (destruct Hlr as [[<- _]|[_ <-]]; [exact (ss_l HS)|exact (ss_r HS)]).
        rewrite E. symmetry. exact NcA.
      + destruct (Nat.eq_dec x c') as [->|Hxc'].
        * assert (E : dlS s2 c' = None) by (destruct Hlr as [[_ <-]|[<- _]]; [exact (ss_r HS)|exact (ss_l HS)]).
          rewrite E. symmetry. exact Nc'A.
        * rewrite (ss_other HS); [apply Hsame; auto|auto| |]; intros ->; destruct Hlr as [[? ?]|[? ?]]; congruence.
    - exact NtA.
    - exact HDa.
    - apply (UR_ext (s := s0)); [exact HK|exact HN|exact Ut].
    - intros L U. destruct HDa as (_ & HD2 & _).
      assert (Hka : kids sa g = [l; r]) by (rewrite <- Tk; exact Hk).
      assert (NlA : isN sa l) by (destruct Hlr as [[-> _]|[-> _]]; auto).
      assert (NrA : isN sa r) by (destruct Hlr as [[_ ->]|[_ ->]]; auto).
      destruct (UR_inv_node U Hka NlA NrA) as (Ll & Lr & U1 & U2 & ->). apply in_app_iff.
      destruct Hlr as [[-> _]|[_ ->]]; [left|right]; apply Hreach; assumption.
    - intros x L Hx NNx U Hin. rewrite Sl in Hx. destruct (HnonN x L Hx NNx U Hin) as [HB Hxc].
      assert (Hxa : x < length (ivs sa)) by (rewrite <- Tl; exact Hx).
      destruct (Below_parent HTa Hxa HB Hxc) as (_ & p & Pp & HBp & _).
      rewrite <- Tp, Hp in Pp. inversion Pp; subst p. split; [exact HBp|]. intros ->. contradiction.
    - split; [right; exact Htold|]. intros w [<-|Hw].
      + split; [|lia]. apply (absorbed_ext (s := s0)); [exact HK|exact HN|exact Habs_g].
      + destruct (Hold w Hw) as [Ha Hcw]. split; [|lia].
        apply (absorbed_ext (s := s0)); [exact HK|exact HN|exact Ha].
  Qed.


  (* T-mode reaches the interval [g] that holds the stale cover: replace the leaf [t] *)
  Lemma TM_end s s2 c old sa t Lt g l r c' Sc newset :
    TM s c old sa t Lt -> par s c = Some g -> TMsetup s c sa t Lt g l r c' Sc ->
    ~ isN sa g -> StepSpec s g l r old s2 newset ->
    PM s2 g (g :: old) /\ newset <> [].
  Proof.
    intros HTM Hp SU NNgA HS. pose proof HTM as [HT HTa Hc Hle (Tl & Tk & Tp) _ NcA (lt & rt & Kt & Nlt & Nrt & NAlt & NArt & Hsame) NtA HDa Ut Hreach HnonN [Htold Hold]].
    destruct SU as [Hk Hlr Hgc Hg Hne Hc' Nc' Nc'A Hgd ESc QSc Sne Okl Okr Hparts].
    pose proof (step_tree HS) as (Sl & Sk & Sp). pose proof (step_TP HT HS) as HT2.
    pose proof HDa as (HD1 & HD2 & HD3 & HD5 & HD4).
    assert (NNg : ~ isN s g) by (unfold isN; rewrite Hgd; exact NNgA).
    assert (Hlrc : forall x, x = l \/ x = r <-> x = c \/ x = c').
    { intros x. destruct Hlr as [[-> ->]|[-> ->]]; tauto. }
    set (s0 := set_dl s c None).
    assert (HN : forall x, isN s2 x <-> isN s0 x).
    { intros x. unfold s0. rewrite isN_set_dl_None, (step_isN HT Hg Hk HS). specialize (Hlrc x). split.
      - intros [E|[E|[_ E]]]; [ | |right; exact E].
        + destruct (proj1 Hlrc (or_introl E)) as [E'|E']; [left; exact E'|right; rewrite E'; exact Nc'].
        + destruct (proj1 Hlrc (or_intror E)) as [E'|E']; [left; exact E'|right; rewrite E'; exact Nc'].
      - intros [E|E].
        + destruct (proj2 Hlrc (or_introl E)); auto.
        + right; right. split; [intros ->; contradiction|exact E]. }
    assert (HK : forall y, kids s2 y = kids s0 y).
    { intros y. unfold s0. rewrite kids_set_dl. apply Sk. }
    assert (Hta : t < length (ivs s)).
    { destruct (Nat.lt_ge_cases t (length (ivs s))) as [H|H]; [exact H|].
      unfold kids in Kt. rewrite get_overflow in Kt by exact H. discriminate. }
    pose proof HT as (_ & _ & T1 & _). destruct (T1 t lt rt Hta Kt) as (B1 & _ & B3 & _ & B5 & Plt & Prt).
    assert (Hga : g < length (ivs sa)) by (rewrite <- Tl; exact Hg).
    assert (Hka : kids sa g = [l; r]) by (rewrite <- Tk; exact Hk).
    assert (NlA : isN sa l) by (destruct Hlr as [[-> _]|[-> _]]; auto).
    assert (NrA : isN sa r) by (destruct Hlr as [[_ ->]|[_ ->]]; auto).
    (* the stale cover held by g *)
    assert (HgNE : isNE sa g).
    { specialize (HD3 g l r Hga Hka NlA). unfold isN in NNgA. destruct (dlS sa g) as [[|k0 S0]|] eqn:Eg.
      - congruence.
      - exists k0, S0. exact Eg.
      - contradiction. }
    destruct (D1_get HD1 Hga HgNE) as (SA & La & ESA & QSA & UA).
    assert (HtLa : In t La).
    { destruct (UR_inv_node UA Hka NlA NrA) as (Ll & Lr & U1 & U2 & ->). apply in_app_iff.
      destruct Hlr as [[-> _]|[_ ->]]; [left|right]; apply Hreach; assumption. }
    (* relation between sa and s0 *)
    assert (K0a : forall y, kids s0 y = kids sa y) by (intros y; unfold s0; rewrite kids_set_dl; apply Tk).
    assert (Hmono : forall y, isN sa y -> isN s0 y).
    { intros y Ny. unfold s0. apply isN_set_dl_None. destruct (Nat.eq_dec y c) as [->|Hyc]; [left; reflexivity|right].
      destruct (Nat.eq_dec y lt) as [->|]; [exact Nlt|]. destruct (Nat.eq_dec y rt) as [->|]; [exact Nrt|].
      unfold isN. rewrite Hsame; auto. }
    assert (Hchg : forall y, isN s0 y -> ~ isN sa y -> par sa y = Some t).
    { intros y Ny NNy. unfold s0 in Ny. apply isN_set_dl_None in Ny. destruct Ny as [->|Ny]; [contradiction|].
      destruct (Nat.eq_dec y lt) as [->|H1]; [rewrite <- Tp; exact Plt|].
      destruct (Nat.eq_dec y rt) as [->|H2]; [rewrite <- Tp; exact Prt|].
      exfalso. apply NNy. unfold isN. rewrite <- Hsame; auto. intros ->. contradiction. }
    assert (Usub : forall x L, x < length (ivs sa) -> UR sa x L -> UR s0 x (subst t Lt L)).
    { intros x L Hx U. exact (U_subst HTa K0a Hmono Hchg Ut Hx U). }
    assert (U0g : UR s0 g (subst t Lt La)) by (apply Usub; auto).
    assert (U2g : UR s2 g (subst t Lt La)) by (apply (UR_ext (s := s0)); [exact HK|exact HN|exact U0g]).
    assert (Habs_g : absorbed s0 g).
    { exists l, r. unfold s0. rewrite kids_set_dl. split; [exact Hk|].
      rewrite !isN_set_dl_None. destruct Hlr as [[-> ->]|[-> ->]]; auto. }
    assert (Hset : seteq newset (subst t Lt La)).
    { intros k. rewrite (ss_set HS), Hparts, subst_In. unfold base_of. rewrite Hgd, ESA. split.
      - intros [[H|H] Hn].
        + left. split; [apply QSA, H|]. intros ->. apply Hn. right. exact Htold.
        + right. split; [exact HtLa|apply QSc, H].
      - intros H. split.
        + destruct H as [[H _]|[_ H]]; [left; apply QSA, H|right; apply QSc, H].
        + assert (Hin : In k (subst t Lt La)) by (apply subst_In; exact H).
          pose proof (UR_leaves U0g Hin) as Hna. intros [<-|Hw]; [contradiction|]. apply Hna, Hold, Hw. }
    assert (Hnn : newset <> []).
    { intros ->. pose proof (UR_nonempty U2g) as Hn. destruct (subst t Lt La) as [|k0 L0]; [contradiction|].
      destruct (Hset k0) as [_ H]. destruct H. left; reflexivity. }
    (* statuses of s2 relative to sa *)
    assert (H1 : forall x, isN s2 x <-> isN sa x \/ x = lt \/ x = rt).
    { intros x. rewrite HN. unfold s0. rewrite isN_set_dl_None. split.
      - intros [->|Nx]; [left; exact NcA|].
        destruct (Nat.eq_dec x lt); [auto|]. destruct (Nat.eq_dec x rt); [auto|].
        destruct (Nat.eq_dec x c) as [->|]; [left; exact NcA|]. left. unfold isN. rewrite <- Hsame; auto.
      - intros [Nx|[-> | ->]]; [|right; exact Nlt|right; exact Nrt].
        destruct (Nat.eq_dec x c); [left; assumption|right].
        destruct (Nat.eq_dec x lt) as [->|]; [exact Nlt|]. destruct (Nat.eq_dec x rt) as [->|]; [exact Nrt|].
        unfold isN. rewrite Hsame; auto. }
    assert (H2 : forall x, isNE s2 x -> x <> g -> isNE sa x /\ dlS s2 x = dlS sa x).
    { intros x Hx Hxg. destruct (step_isNE HS x Hx) as [->|(Hxl & Hxr & (k0 & S0 & E))]; [contradiction|].
      assert (Hxc : x <> c) by (intros ->; destruct Hlr as [[? ?]|[? ?]]; congruence).
      assert (Hxlt : x <> lt) by (intros ->; unfold isN in Nlt; congruence).
      assert (Hxrt : x <> rt) by (intros ->; unfold isN in Nrt; congruence).
      split; [exists k0, S0; rewrite <- Hsame; auto|]. rewrite (ss_other HS); auto. }
    assert (Ka : forall y, kids s2 y = kids sa y) by (intros y; rewrite Sk; apply Tk).
    assert (Pa : forall y, par s2 y = par sa y) by (intros y; rewrite Sp; apply Tp).
    assert (Pta : par sa lt = Some t /\ par sa rt = Some t) by (rewrite <- !Tp; auto).
    destruct Pta as [Plta Prta].
    pose proof HTa as (_ & _ & T1a & _).
    split; [|exact Hnn].
    constructor.
    - exact HT2.
    - rewrite Sl. exact Hg.
    - destruct newset as [|k0 S0]; [contradiction|]. exists k0, S0. exact (ss_j HS).
    - refine (conj _ (conj _ (conj _ (conj _ _)))).
      + (* D1 *) intros x k0 S0 Hx Ex. rewrite Sl in Hx. destruct (Nat.eq_dec x g) as [->|Hxg].
        * exists (subst t Lt La). split; [exact U2g|]. rewrite (ss_j HS) in Ex. inversion Ex; subst. exact Hset.
        * assert (Hxa : x < length (ivs sa)) by (rewrite <- Tl; exact Hx).
          assert (HxNE : isNE s2 x) by (exists k0, S0; exact Ex).
          destruct (H2 x HxNE Hxg) as [NEa Ed]. rewrite Ed in Ex.
          destruct (HD1 x k0 S0 Hxa Ex) as (L & U & Q). exists L. split; [|exact Q].
          assert (Hnt : ~ In t L).
          { intros Hin. destruct (HnonN x L Hx (isNE_notN NEa) U Hin) as [HB Hxc].
            destruct (Below_parent HTa Hxa HB Hxc) as (_ & p & Pp & HBp & _).
            rewrite <- Tp, Hp in Pp. inversion Pp; subst p.
            destruct (Below_parent HTa Hxa HBp Hxg) as (Ng' & _). contradiction. }
          rewrite <- (@subst_notin t Lt L Hnt). apply (UR_ext (s := s0)); [exact HK|exact HN|]. apply Usub; auto.
      + (* D2 *) intros x a1 b1 Hx Ex. rewrite Sl, Tl in Hx. rewrite Ka in Ex.
        destruct (T1a x a1 b1 Hx Ex) as (_ & _ & _ & _ & _ & Pa1 & Pb1).
        rewrite !H1. destruct (Nat.eq_dec x t) as [->|Hxt].
        * rewrite <- Tk, Kt in Ex. inversion Ex; subst. tauto.
        * assert (a1 <> lt /\ a1 <> rt /\ b1 <> lt /\ b1 <> rt) as (C1 & C2 & C3 & C4)
            by (repeat split; intros ->; congruence).
          specialize (HD2 x a1 b1 Hx Ex). tauto.
      + (* D3 *) intros x a1 b1 Hx Ex Na. rewrite Sl, Tl in Hx. rewrite Ka in Ex.
        destruct (T1a x a1 b1 Hx Ex) as (_ & _ & _ & _ & _ & Pa1 & Pb1).
        destruct (Nat.eq_dec x g) as [->|Hxg]; [rewrite (ss_j HS); destruct newset; [contradiction|discriminate]|].
        destruct (Nat.eq_dec x l) as [->|Hxl]; [rewrite (ss_l HS); discriminate|].
        destruct (Nat.eq_dec x r) as [->|Hxr]; [rewrite (ss_r HS); discriminate|].
        rewrite (ss_other HS) by auto.
        destruct (Nat.eq_dec x lt) as [->|Hxlt]; [unfold isN in Nlt; rewrite Nlt; discriminate|].
        destruct (Nat.eq_dec x rt) as [->|Hxrt]; [unfold isN in Nrt; rewrite Nrt; discriminate|].
        assert (Hxc : x <> c) by (intros ->; destruct Hlr as [[? ?]|[? ?]]; congruence).
        rewrite Hsame by auto. apply H1 in Na. destruct Na as [Na|[->| ->]].
        * exact (HD3 x a1 b1 Hx Ex Na).
        * assert (x = t) by congruence. subst x. unfold isN in NtA. rewrite NtA. discriminate.
        * assert (x = t) by congruence. subst x. unfold isN in NtA. rewrite NtA. discriminate.
      + (* D5 *) intros x Hx Nx. rewrite Sl, Tl in Hx. rewrite Pa. apply H1 in Nx.
        destruct Nx as [Nx|[->| ->]]; [apply HD5; auto|congruence|congruence].
      + (* D4, everywhere *) intros x Hx _ a1 b1 Ex [Ea Eb]. rewrite Sl, Tl in Hx. rewrite Ka in Ex.
        destruct (T1a x a1 b1 Hx Ex) as (Q1 & _ & Q3 & _ & Q5 & Pa1 & Pb1).
        assert (Hxt : x <> t).
        { intros ->. rewrite <- Tk, Kt in Ex. inversion Ex; subst.
          apply (isNE_notN Ea). apply H1. auto. }
        assert (NEa1 : isNE sa a1).
        { destruct (Nat.eq_dec a1 g) as [->|Hag]; [exact HgNE|]. apply (H2 a1 Ea Hag). }
        assert (NEb1 : isNE sa b1).
        { destruct (Nat.eq_dec b1 g) as [->|Hbg]; [exact HgNE|]. apply (H2 b1 Eb Hbg). }
        apply (HD4 x Hx) with (l := a1) (r := b1); auto. congruence.
    - intros w [<-|Hw].
      + split; [|lia]. exists l, r. rewrite Sk. split; [exact Hk|]. split; [exact (ss_l HS)|exact (ss_r HS)].
      + destruct (Hold w Hw) as [Ha Hcw]. split; [|lia].
        apply (absorbed_ext (s := s0)); [exact HK|exact HN|exact Ha].
  Qed.


  Arguments PM_absorb_N {s s2 c j l r old newset}. Arguments PM_absorb_nonN {s s2 c j l r old newset}.
  Arguments TM_up {s s2 c old sa t Lt g l r c' Sc newset}. Arguments TM_end {s s2 c old sa t Lt g l r c' Sc newset}.

  Lemma Post_trans s s2 s' :
    sameTree s s2 -> (isNE s 0 -> isNE s2 0) -> Post s2 s' -> Post s s'.
  Proof.
    intros HT Hr (A & B & C & D). refine (conj _ (conj B (conj C _))); [eapply sameTree_trans; eauto|auto].
  Qed.

  Theorem loop_ok : forall fuel,
    (forall s c old, PM s c old -> c < fuel -> Post s (plF fuel s (par s c) old)) /\
    (forall s c old sa t Lt, TM s c old sa t Lt -> c < fuel -> Post s (plF fuel s (par s c) old)).
  Proof.
    induction fuel as [|fuel [IHP IHT]]; [split; intros; lia|].
    split.
    - (* P-mode *)
      intros s c old HPM Hcf. pose proof HPM as [HT Hc Hne HDI Hold].
      destruct (par s c) as [j|] eqn:Hp.
      2:{ cbn [propagate_leaves]. refine (conj (sameTree_refl s) (conj HT (conj HDI _))). auto. }
      destruct (parent_kids HT Hc Hp) as (Hjc & Hj & l & r & Hk & Hcl & A1 & A2 & A3 & A4 & A5 & A6 & A7).
      pose proof HDI as (HD1 & HD2 & HD3 & HD5 & HD4).
      assert (NNc : ~ isN s c) by (apply isNE_notN; exact Hne).
      assert (NNlr : ~ isN s l /\ ~ isN s r).
      { specialize (HD2 j l r Hj Hk). destruct Hcl as [-> | ->]; tauto. }
      destruct NNlr as [NNl NNr].
      assert (Hlj : l <> j) by lia. assert (Hrj : r <> j) by lia.
      destruct (@pl_step fuel s j old l r Hj Hk A5 Hlj Hrj A2 A4) as [[Hnok E]|(Ol & Or & s2 & newset & E & HS)]; rewrite E.
      + (* one child still holds nothing: stop *)
        refine (conj (sameTree_refl s) (conj HT (conj _ (fun H => H)))).
        apply (DI_break HDI Hk). intros [El Er]. apply Hnok. split; right; assumption.
      + assert (NEl : isNE s l) by (destruct Ol; [contradiction|assumption]).
        assert (NEr : isNE s r) by (destruct Or; [contradiction|assumption]).
        assert (Hjf : j < fuel) by lia.
        destruct (isN_dec s j) as [Nj|NNj].
        * destruct (PM_absorb_N HPM Hp Hk Hcl Nj NEl NEr HS) as (Lt & HTM & Hnn).
          apply (@Post_trans s s2 _ (step_tree HS)); [intros H0; apply (step_root HT Hj Hk HS H0); intros _; exact Hnn|].
          rewrite <- (ss_par HS). apply (IHT _ _ _ _ _ _ HTM Hjf).
        * destruct (PM_absorb_nonN HPM Hp Hk Hcl NNj NEl NEr HS) as (HPM2 & Hnn).
          apply (@Post_trans s s2 _ (step_tree HS)); [intros H0; apply (step_root HT Hj Hk HS H0); intros _; exact Hnn|].
          rewrite <- (ss_par HS). apply (IHP _ _ _ HPM2 Hjf).
    - (* T-mode *)
      intros s c old sa t Lt HTM Hcf. pose proof HTM as [HT HTa Hc Hle (Tl & Tk & Tp) _ NcA _ _ HDa _ _ _ _].
      destruct (par s c) as [g|] eqn:Hp.
      2:{ exfalso. destruct HDa as (_ & _ & _ & HD5 & _). apply (HD5 c); [rewrite <- Tl; exact Hc|exact NcA|].
          rewrite <- Tp. exact Hp. }
      destruct (TM_setup HTM Hp) as (l & r & c' & Sc & SU).
      pose proof SU as [Hk Hlr Hgc Hg Hne Hc' Nc' Nc'A Hgd ESc QSc Sne Okl Okr Hparts].
      destruct (step_facts HT Hg Hk) as (A1 & A2 & A3 & A4 & A5 & A6 & A7).
      assert (Hlg : l <> g) by lia. assert (Hrg : r <> g) by lia.
      destruct (@pl_step fuel s g old l r Hg Hk A5 Hlg Hrg A2 A4) as [[Hnok E]|(Ol & Or & s2 & newset & E & HS)]; rewrite E.
      + exfalso. apply Hnok. split; assumption.
      + assert (Hgf : g < fuel) by lia.
        destruct (isN_dec sa g) as [NgA|NNgA].
        * destruct (TM_up HTM Hp SU NgA HS) as (HTM2 & Hnn).
          apply (@Post_trans s s2 _ (step_tree HS)); [intros H0; apply (step_root HT Hg Hk HS H0); intros _; exact Hnn|].
          rewrite <- (ss_par HS). apply (IHT _ _ _ _ _ _ HTM2 Hgf).
        * destruct (TM_end HTM Hp SU NNgA HS) as (HPM2 & Hnn).
          apply (@Post_trans s s2 _ (step_tree HS)); [intros H0; apply (step_root HT Hg Hk HS H0); intros _; exact Hnn|].
          rewrite <- (ss_par HS). apply (IHP _ _ _ HPM2 Hgf).
  Qed.


  (* ---------------------------------------------------------------- *)
  (** complete_process keeps the invariant *)
  Definition TD s : Prop := TP s /\ DI s.

  (* frames that keep the tree and every done_leaves *)
  Definition FD s s' : Prop :=
    length (ivs s') = length (ivs s) /\
    forall x, kids s' x = kids s x /\ par s' x = par s x /\ dlS s' x = dlS s x.

  Lemma FD_refl s : FD s s. Proof. split; [reflexivity|]. intros x; repeat split. Qed.
  Lemma FD_trans s1 s2 s3 : FD s1 s2 -> FD s2 s3 -> FD s1 s3.
  Proof.
    intros [A1 A2] [B1 B2]. split; [congruence|]. intros x.
    destruct (A2 x) as (C1 & C2 & C3). destruct (B2 x) as (E1 & E2 & E3). repeat split; congruence.
  Qed.

  Lemma DI_FD s s' : FD s s' -> TD s -> TD s'.
  Proof.
    intros [Hl HF] [HT (HD1 & HD2 & HD3 & HD5 & HD4)].
    assert (Hk : forall x, kids s' x = kids s x) by (intros x; apply HF).
    assert (Hp : forall x, par s' x = par s x) by (intros x; apply HF).
    assert (Hd : forall x, dlS s' x = dlS s x) by (intros x; apply HF).
    assert (HN : forall x, isN s' x <-> isN s x) by (intros x; unfold isN; rewrite Hd; tauto).
    assert (HE : forall x, isNE s' x <-> isNE s x) by (intros x; unfold isNE; rewrite Hd; tauto).
    split; [apply (TP_same Hl Hk Hp HT)|].
    refine (conj _ (conj _ (conj _ (conj _ _)))).
    - intros c k S0 Hc E. rewrite Hl in Hc. rewrite Hd in E. destruct (HD1 c k S0 Hc E) as (L & U & Q).
      exists L. split; [|exact Q]. apply (UR_ext Hk HN U).
    - intros c l r Hc E. rewrite Hl in Hc. rewrite Hk in E. rewrite !HN. apply (HD2 c l r Hc E).
    - intros c l r Hc E Nl. rewrite Hl in Hc. rewrite Hk in E. rewrite Hd. apply (HD3 c l r Hc E). apply HN, Nl.
    - intros c Hc Nc. rewrite Hl in Hc. rewrite Hp. apply HD5; auto. apply HN, Nc.
    - intros c Hc Hne l r E [El Er]. rewrite Hl in Hc. rewrite Hk in E.
      apply (HD4 c Hc Hne l r E). split; apply HE; assumption.
  Qed.

  Lemma FD_upd s i f :
    (forall iv, children (f iv) = children iv /\ parent (f iv) = parent iv /\ done_leaves (f iv) = done_leaves iv) ->
    FD s (upd s i f).
  Proof.
    intros Hf. split; [apply length_upd|]. intros x. unfold kids, par, dlS. rewrite get_upd.
    destruct (_ && _); [apply Hf|repeat split].
  Qed.

  Lemma FD_same_ivs s s' : ivs s' = ivs s -> FD s s'.
  Proof. intros E. unfold FD, kids, par, dlS, get. rewrite E. split; [reflexivity|]. intros x; repeat split. Qed.

  (* the state right after `self.done_leaves = {self}` satisfies the P-mode invariant *)
  Lemma PM_start s i :
    TD s -> dlS s i = Some [] -> PM (set_dl s i (Some [i])) i [].
  Proof.
    intros [HT (HD1 & HD2 & HD3 & HD5 & HD4)] Ei.
    assert (Hi : i < length (ivs s)).
    { destruct (Nat.lt_ge_cases i (length (ivs s))) as [H|H]; [exact H|].
      unfold dlS in Ei. rewrite get_overflow in Ei by exact H. discriminate. }
    set (s' := set_dl s i (Some [i])).
    assert (Hl : length (ivs s') = length (ivs s)) by apply len_set_dl.
    assert (Hk : forall x, kids s' x = kids s x) by (intros x; apply kids_set_dl).
    assert (Hp : forall x, par s' x = par s x) by (intros x; apply par_set_dl).
    assert (Hd : forall x, x <> i -> dlS s' x = dlS s x).
    { intros x Hx. unfold s'. rewrite dlS_set_dl. destruct (Nat.eqb_spec x i); [contradiction|reflexivity]. }
    assert (Hdi : dlS s' i = Some [i]).
    { unfold s'. rewrite dlS_set_dl, Nat.eqb_refl. apply Nat.ltb_lt in Hi. rewrite Hi. reflexivity. }
    assert (HN : forall x, isN s' x <-> isN s x).
    { intros x. unfold isN. destruct (Nat.eq_dec x i) as [E0|Hx]; [rewrite E0, Hdi, Ei; split; discriminate|rewrite Hd; tauto]. }
    assert (HE : forall x, isNE s' x -> x = i \/ isNE s x).
    { intros x (k & S0 & E). destruct (Nat.eq_dec x i); [auto|right]. exists k, S0. rewrite <- Hd; auto. }
    assert (HT' : TP s') by (apply (TP_same Hl Hk Hp HT)).
    constructor.
    - exact HT'.
    - rewrite Hl. exact Hi.
    - exists i, []. exact Hdi.
    - refine (conj _ (conj _ (conj _ (conj _ _)))).
      + intros c k S0 Hc E. rewrite Hl in Hc. destruct (Nat.eq_dec c i) as [->|Hci].
        * rewrite Hdi in E. injection E as E1 E2. rewrite <- E1, <- E2. exists [i]. split; [|intros k0; tauto].
          apply UR_leaf. intros (l & r & Ek & Nl & Nr). rewrite Hk in Ek. apply HN in Nl.
          exact (HD3 i l r Hi Ek Nl Ei).
        * rewrite Hd in E by exact Hci. destruct (HD1 c k S0 Hc E) as (L & U & Q). exists L. split; [|exact Q].
          apply (UR_ext Hk HN U).
      + intros c l r Hc E. rewrite Hl in Hc. rewrite Hk in E. rewrite !HN. apply (HD2 c l r Hc E).
      + intros c l r Hc E Nl. rewrite Hl in Hc. rewrite Hk in E. apply HN in Nl.
        destruct (Nat.eq_dec c i) as [->|Hci]; [rewrite Hdi; discriminate|]. rewrite Hd by exact Hci.
        apply (HD3 c l r Hc E Nl).
      + intros c Hc Nc. rewrite Hl in Hc. rewrite Hp. apply HD5; auto. apply HN, Nc.
      + intros c Hc Hne l r E [El Er]. rewrite Hl in Hc. rewrite Hk in E. rewrite Hp in Hne.
        pose proof HT as (_ & _ & T1 & _). destruct (T1 c l r Hc E) as (_ & _ & _ & _ & _ & Pl & Pr).
        apply HE in El. apply HE in Er.
        destruct El as [-> |El]; [apply Hne; congruence|]. destruct Er as [-> |Er]; [apply Hne; congruence|].
        apply (HD4 c Hc) with (l := l) (r := r); auto. discriminate.
    - intros w [].
  Qed.


  Arguments PM_start {s i}. Arguments DI_FD {s s'}. Arguments FD_trans {s1 s2 s3}.

  Definition RM s s' : Prop := isNE s 0 -> isNE s' 0.

  Lemma RM_FD s s' : FD s s' -> RM s s'.
  Proof. intros [_ HF] (k & S0 & E). exists k, S0. destruct (HF 0) as (_ & _ & ->). exact E. Qed.

  Lemma cp_TD s i d : TD s -> TD (fst (fst (cpF s i d))) /\ RM s (fst (fst (cpF s i d))).
  Proof.
    intros HTD. unfold complete_process.
    destruct (negb _); [split; [exact HTD|intros H; exact H]|].
    set (s1 := upd s i _).
    assert (F1 : FD s s1) by (apply FD_upd; intros iv; repeat split).
    destruct (orc s1) as [|v0 o']; [split; [apply (DI_FD F1 HTD)|apply RM_FD, F1]|].
    set (s2 := set_orc s1 o').
    assert (F2 : FD s s2) by (apply (FD_trans F1); apply FD_same_ivs; reflexivity).
    pose proof (DI_FD F2 HTD) as HTD2.
    destruct (_ && _); [split; [exact HTD2|apply RM_FD, F2]|].
    destruct v0 as [fs rm|]; [|split; [exact HTD2|apply RM_FD, F2]].
    cbn [fst]. destruct (done_leaves (getF s2 i)) as [[|k0 S0]|] eqn:Ei; try (split; [exact HTD2|apply RM_FD, F2]).
    change (upd s2 i (fun iv => iv_set_dl iv (Some [i]))) with (set_dl s2 i (Some [i])).
    pose proof (PM_start HTD2 Ei) as HPM.
    assert (Ep : parent (getF s i) = par (set_dl s2 i (Some [i])) i).
    { rewrite par_set_dl. destruct F2 as [_ HF]. destruct (HF i) as (_ & -> & _). reflexivity. }
    rewrite Ep.
    assert (Hi : i < length (ivs s2)) by (destruct HPM as [_ Hc _ _ _]; rewrite len_set_dl in Hc; exact Hc).
    destruct (loop_ok (length (ivs s2))) as [LP _].
    destruct (LP _ _ _ HPM Hi) as (_ & HT' & HD' & HR').
    split; [split; assumption|].
    intros H0. apply HR'. apply (@RM_FD s s2 F2) in H0. destruct H0 as (k & S0 & E0). exists k, S0.
    rewrite dlS_set_dl. destruct (Nat.eqb_spec 0 i) as [<-|]; [|exact E0].
    unfold dlS in E0. congruence.
  Qed.


  (* ---------------------------------------------------------------- *)
  (** the invariant along every history *)
  Notation discF := (discard_ival repaired).
  Notation prF := (propagate_removed repaired dflt).
  Notation qsF := (queue_split repaired).
  Notation tdF := (tell_depths eqb points repaired dflt).
  Notation tiF := (tell_ival eqb points repaired dflt).
  Notation tellF := (tell eqb points repaired dflt).
  Notation apF := (add_point eqb points repaired dflt).
  Notation aiF := (add_ival eqb points repaired dflt).
  Notation splitF := (split points dflt).
  Notation mirF := (max_ivals_rule repaired).
  Notation fsF := (fill_stack eqb points repaired dflt).
  Notation alF := (ask_loop eqb points repaired dflt).
  Notation askF := (ask eqb points repaired dflt).
  Notation stepF := (step eqb points repaired dflt).
  Notation runF := (run eqb points repaired dflt).
  Notation initF := (init eqb points repaired dflt).

  (* [s0]: a reference state; once its first interval holds a cover, so does every later state *)
  Arguments RM_FD {s s'}. Arguments cp_TD {s}.
  Definition GP s0 s : Prop := TD s /\ RM s0 s.

  Lemma GP_FD s0 s s' : FD s s' -> GP s0 s -> GP s0 s'.
  Proof. intros HF [H1 H2]. split; [apply (DI_FD HF H1)|]. intros H. apply (RM_FD HF), H2, H. Qed.

  Lemma GP_same s0 s s' : ivs s' = ivs s -> GP s0 s -> GP s0 s'.
  Proof. intros E. apply GP_FD, FD_same_ivs, E. Qed.

  Lemma GP_cp s0 s i d : GP s0 s -> GP s0 (fst (fst (cpF s i d))).
  Proof. intros [H1 H2]. destruct (cp_TD i d H1) as [A B]. split; [exact A|]. intros H. apply B, H2, H. Qed.

  Lemma GP_discard s0 s i : GP s0 s -> GP s0 (discF s i).
  Proof. apply GP_same. unfold discard_ival. destruct repaired; reflexivity. Qed.

  Lemma GP_propagate_removed s0 fuel : forall s i, GP s0 s -> GP s0 (prF fuel s i).
  Proof.
    induction fuel as [|fuel IH]; intros s i HG; cbn [propagate_removed]; [exact HG|].
    apply (@fold_left_inv X _ (GP s0)); [intros; apply IH; assumption|].
    apply GP_discard. eapply GP_FD; [|exact HG]. apply FD_upd. intros iv; repeat split.
  Qed.

  Lemma GP_queue_split s0 s i : GP s0 s -> GP s0 (fst (qsF s i)).
  Proof.
    apply GP_same. unfold queue_split.
    destruct repaired; [destruct (_ && _)|destruct (nat_mem _ _)]; reflexivity.
  Qed.

  Lemma GP_tell_depths s0 i ds : forall s, GP s0 s -> GP s0 (fst (tdF s i ds)).
  Proof.
    induction ds as [|d ds IH]; intros s HG; cbn [tell_depths]; [exact HG|].
    destruct (refinement_complete _ _ _ _); [|apply IH; exact HG].
    pose proof (@GP_cp s0 s i d HG) as H1.
    destruct (cpF s i d) as [[s1 e] [fs rm]]. cbn [fst] in H1.
    destruct e; try exact H1.
    apply (@bind_inv X (GP s0)); [|intros s2 H2; apply IH; exact H2].
    destruct rm; cbn [fst]; [apply GP_propagate_removed; exact H1|].
    destruct (_ && _); [apply GP_queue_split; exact H1|exact H1].
  Qed.

  Lemma GP_tell_ival s0 (y : X) s i : GP s0 s -> GP s0 (fst (tiF y s i)).
  Proof.
    intros HG. unfold tell_ival. apply GP_tell_depths. eapply GP_FD; [|exact HG].
    apply FD_upd. intros iv; repeat split.
  Qed.

  Lemma GP_tell s0 s (y : X) : GP s0 s -> GP s0 (fst (tellF s y)).
  Proof.
    intros HG. unfold tell. destruct (negb _); [exact HG|].
    apply (@foldM_inv X _ (GP s0)); [intros; apply GP_tell_ival; assumption|].
    eapply GP_same; [|exact HG]. reflexivity.
  Qed.

  Lemma GP_add_point s0 i s (y : X) : GP s0 s -> GP s0 (fst (apF i s y)).
  Proof.
    intros HG. unfold add_point. set (s1 := set_xmap s _).
    assert (H1 : GP s0 s1) by (eapply GP_same; [|exact HG]; reflexivity).
    destruct (memX eqb y (data s1)); [apply GP_tell; exact H1|].
    destruct (memX eqb y (pending s1)); [exact H1|]. eapply GP_same; [|exact H1]. reflexivity.
  Qed.

  Lemma GP_add_ival s0 s i : GP s0 s -> GP s0 (fst (aiF s i)).
  Proof.
    intros HG. unfold add_ival. apply (@bind_inv X (GP s0)).
    - apply (@foldM_inv X _ (GP s0)); [intros; apply GP_add_point; assumption|exact HG].
    - intros s1 H1. eapply GP_same; [|exact H1]. reflexivity.
  Qed.


  (* derivations survive changes of the children of nodes that are not absorbed *)
  Lemma UR_transfer2 s s' x L :
    UR s x L ->
    (forall m, Below s x m ->
       (~ absorbed s m -> ~ absorbed s' m) /\
       (forall l r, kids s m = [l; r] -> isN s l -> isN s r -> kids s' m = [l; r] /\ isN s' l /\ isN s' r)) ->
    UR s' x L.
  Proof.
    induction 1 as [c H|c l r Ll Lr Hk Hl Hr H1 IH1 H2 IH2]; intros Hsame.
    - apply UR_leaf. apply (Hsame c (Below_self s c)). exact H.
    - destruct (Hsame c (Below_self s c)) as [_ Hn]. destruct (Hn l r Hk Hl Hr) as (K' & Nl' & Nr').
      eapply UR_node; eauto.
      + apply IH1. intros m Hm. apply Hsame. eapply Below_l; eauto.
      + apply IH2. intros m Hm. apply Hsame. eapply Below_r; eauto.
  Qed.

  Lemma GP_split s0 s i :
    GP s0 s -> i < length (ivs s) -> kids s i = [] -> GP s0 (fst (splitF s i)).
  Proof.
    intros [[HT (HD1 & HD2 & HD3 & HD5 & HD4)] HR] Hi Hki.
    set (n := length (ivs s)).
    unfold split. cbn [fst].
    set (s1 := upd s i _).
    assert (Hlen1 : length (ivs s1) = n) by apply length_upd.
    set (nl := mkI _ _ 0 _ (Some i) [] [] (Some []) None false).
    set (nr := mkI _ _ 0 _ (Some i) [] [] (Some []) None false).
    set (s' := set_ivs s1 _).
    assert (Hlen' : length (ivs s') = S (S n)).
    { unfold s'. cbn [ivs set_ivs]. rewrite app_length, Hlen1. cbn. lia. }
    assert (Hold : forall x, x < n -> getF s' x = getF s1 x) by (intros x Hx; apply get_app_old; lia).
    assert (Hnl : getF s' n = nl).
    { unfold s', get. cbn [ivs set_ivs]. rewrite app_nth2 by lia. rewrite Hlen1, Nat.sub_diag. reflexivity. }
    assert (Hnr : getF s' (S n) = nr).
    { unfold s', get. cbn [ivs set_ivs]. rewrite app_nth2 by lia. rewrite Hlen1.
      replace (S n - n) with 1 by lia. reflexivity. }
    assert (Hbig : forall x, S (S n) <= x -> getF s' x = dummy dflt) by (intros x Hx; apply get_overflow; lia).
    assert (Hko : forall x, x < n -> x <> i -> kids s' x = kids s x).
    { intros x Hx Hne. unfold kids. rewrite Hold by exact Hx. unfold s1. rewrite get_upd.
      destruct (Nat.eqb_spec x i); [contradiction|reflexivity]. }
    assert (Hki' : kids s' i = [n; S n]).
    { unfold kids. rewrite Hold by exact Hi. unfold s1. rewrite get_upd, Nat.eqb_refl.
      apply Nat.ltb_lt in Hi as Hi'. unfold n in Hi'. rewrite Hi'. reflexivity. }
    assert (Hpo : forall x, x < n -> par s' x = par s x).
    { intros x Hx. unfold par. rewrite Hold by exact Hx. unfold s1. rewrite get_upd. destruct (_ && _); reflexivity. }
    assert (Hdo : forall x, x < n -> dlS s' x = dlS s x).
    { intros x Hx. unfold dlS. rewrite Hold by exact Hx. unfold s1. rewrite get_upd. destruct (_ && _); reflexivity. }
    assert (Hnew : forall x, x = n \/ x = S n -> kids s' x = [] /\ par s' x = Some i /\ dlS s' x = Some []).
    { intros x [-> | ->]; unfold kids, par, dlS; [rewrite Hnl|rewrite Hnr]; repeat split. }
    assert (Hdum : forall x, S (S n) <= x -> kids s' x = [] /\ par s' x = None /\ dlS s' x = None).
    { intros x Hx. unfold kids, par, dlS. rewrite Hbig by exact Hx. repeat split. }
    pose proof HT as (T0 & T1 & T2 & T3 & T4). fold n in T0, T2, T3, T4.
    assert (HNo : forall x, x < n -> (isN s' x <-> isN s x)) by (intros x Hx; unfold isN; rewrite Hdo; tauto).
    assert (HNnew : ~ isN s' n /\ ~ isN s' (S n)).
    { unfold isN. destruct (Hnew n (or_introl eq_refl)) as (_ & _ & ->). destruct (Hnew (S n) (or_intror eq_refl)) as (_ & _ & ->).
      split; discriminate. }
    assert (HEo : forall x, isNE s' x -> x < n /\ isNE s x).
    { intros x (k & S0 & E). destruct (Nat.lt_ge_cases x n) as [Hx|Hx]; [split; auto; exists k, S0; rewrite <- Hdo; auto|].
      exfalso. destruct (Nat.eq_dec x n) as [->|]; [destruct (Hnew n (or_introl eq_refl)) as (_ & _ & E'); congruence|].
      destruct (Nat.eq_dec x (S n)) as [->|]; [destruct (Hnew (S n) (or_intror eq_refl)) as (_ & _ & E'); congruence|].
      destruct (Hdum x) as (_ & _ & E'); [lia|congruence]. }
    assert (HT' : TP s').
    { unfold TP. rewrite Hlen'. refine (conj _ (conj _ (conj _ (conj _ _)))).
      - lia.
      - rewrite Hpo by lia. exact T1.
      - intros c l r Hc Ek. destruct (Nat.lt_ge_cases c n) as [Hcn|Hcn].
        + destruct (Nat.eq_dec c i) as [->|Hci].
          * rewrite Hki' in Ek. inversion Ek; subst l r.
            destruct (Hnew n (or_introl eq_refl)) as (_ & P1 & _). destruct (Hnew (S n) (or_intror eq_refl)) as (_ & P2 & _).
            repeat split; auto; lia.
          * rewrite Hko in Ek by auto. destruct (T2 c l r Hcn Ek) as (A1 & A2 & A3 & A4 & A5 & A6 & A7).
            rewrite !Hpo by auto. repeat split; auto; lia.
        + exfalso. destruct (Nat.eq_dec c n) as [->|]; [destruct (Hnew n (or_introl eq_refl)) as (E' & _); congruence|].
          destruct (Nat.eq_dec c (S n)) as [->|]; [destruct (Hnew (S n) (or_intror eq_refl)) as (E' & _); congruence|]. lia.
      - intros c Hc. destruct (Nat.lt_ge_cases c n) as [Hcn|Hcn].
        + destruct (Nat.eq_dec c i) as [->|Hci]; [right; eauto|]. rewrite Hko by auto. apply T3; auto.
        + left. destruct (Nat.eq_dec c n) as [->|]; [apply Hnew; auto|].
          destruct (Nat.eq_dec c (S n)) as [->|]; [apply Hnew; auto|]. lia.
      - intros c p Hc Ep. destruct (Nat.lt_ge_cases c n) as [Hcn|Hcn].
        + rewrite Hpo in Ep by auto. destruct (T4 c p Hcn Ep) as [B1 B2]. split; [exact B1|].
          destruct (Nat.eq_dec p i) as [->|Hpi]; [rewrite Hki in B2; destruct B2|]. rewrite Hko by (auto; lia). exact B2.
        + assert (Hcc : c = n \/ c = S n) by lia. destruct (Hnew c Hcc) as (_ & P1 & _). rewrite P1 in Ep. inversion Ep; subst p.
          split; [lia|]. rewrite Hki'. destruct Hcc as [-> | ->]; cbn; auto. }
    split; [split; [exact HT'|]|].
    - refine (conj _ (conj _ (conj _ (conj _ _)))).
      + (* D1 *) intros c k S0 Hc E. assert (NEc : isNE s' c) by (exists k, S0; exact E).
        destruct (HEo c NEc) as [Hcn _]. rewrite Hdo in E by exact Hcn.
        destruct (HD1 c k S0 Hcn E) as (L & U & Q). exists L. split; [|exact Q].
        apply (@UR_transfer2 s s' c L U). intros m Hm. destruct (Below_range HT Hcn Hm) as [_ Hmn]. fold n in Hmn. split.
        * intros Hna (l & r & Ek & Nl & Nr). destruct (Nat.eq_dec m i) as [->|Hmi].
          -- rewrite Hki' in Ek. inversion Ek; subst l r. apply (proj1 HNnew). exact Nl.
          -- rewrite Hko in Ek by auto. destruct (T2 m l r Hmn Ek) as (_ & A2 & _ & A4 & _).
             apply Hna. exists l, r. split; [exact Ek|]. split; apply HNo; auto.
        * intros l r Ek Nl Nr. assert (Hmi : m <> i) by (intros ->; congruence).
          destruct (T2 m l r Hmn Ek) as (_ & A2 & _ & A4 & _).
          rewrite Hko by auto. split; [exact Ek|]. split; apply HNo; auto.
      + (* D2 *) intros c l r Hc Ek. rewrite Hlen' in Hc. destruct (Nat.lt_ge_cases c n) as [Hcn|Hcn].
        * destruct (Nat.eq_dec c i) as [->|Hci]; [rewrite Hki' in Ek; inversion Ek; subst; tauto|].
          rewrite Hko in Ek by auto. destruct (T2 c l r Hcn Ek) as (_ & A2 & _ & A4 & _).
          rewrite !HNo by auto. apply (HD2 c l r Hcn Ek).
        * exfalso. assert (Hcc : c = n \/ c = S n) by lia. destruct (Hnew c Hcc) as (E' & _). congruence.
      + (* D3 *) intros c l r Hc Ek Nl. rewrite Hlen' in Hc. destruct (Nat.lt_ge_cases c n) as [Hcn|Hcn].
        * destruct (Nat.eq_dec c i) as [->|Hci]; [rewrite Hki' in Ek; inversion Ek; subst; exfalso; apply (proj1 HNnew); exact Nl|].
          rewrite Hko in Ek by auto. destruct (T2 c l r Hcn Ek) as (_ & A2 & _ & A4 & _).
          rewrite Hdo by auto. apply (HD3 c l r Hcn Ek). apply HNo; auto.
        * exfalso. assert (Hcc : c = n \/ c = S n) by lia. destruct (Hnew c Hcc) as (E' & _). congruence.
      + (* D5 *) intros c Hc Nc. rewrite Hlen' in Hc. destruct (Nat.lt_ge_cases c n) as [Hcn|Hcn].
        * rewrite Hpo by auto. apply HD5; auto. apply HNo; auto.
        * assert (Hcc : c = n \/ c = S n) by lia. destruct (Hnew c Hcc) as (_ & -> & _). discriminate.
      + (* D4 *) intros c Hc _ l r Ek [El Er]. destruct (HEo l El) as [Hln El']. destruct (HEo r Er) as [Hrn Er'].
        rewrite Hlen' in Hc. destruct (Nat.lt_ge_cases c n) as [Hcn|Hcn].
        * destruct (Nat.eq_dec c i) as [->|Hci]; [rewrite Hki' in Ek; inversion Ek; subst; lia|].
          rewrite Hko in Ek by auto. apply (HD4 c Hcn) with (l := l) (r := r); auto. discriminate.
        * assert (Hcc : c = n \/ c = S n) by lia. destruct (Hnew c Hcc) as (E' & _). congruence.
    - intros H0. destruct (HR H0) as (k & S0 & E). exists k, S0. rewrite Hdo by lia. exact E.
  Qed.


  Section WithSpec.
    Hypothesis eqb_spec : forall x y : X, eqb x y = true <-> x = y.
    Notation XLs := (XL X eqb points dflt).

    Lemma XL_bound s i : XLs s -> In i (live s) \/ In i (prio s) -> i < length (ivs s).
    Proof. intros [_ H]. apply H. Qed.

    Lemma GP_fill_stack s0 s (ch : choice) : XLs s -> GP s0 s -> GP s0 (fst (fsF s ch)).
    Proof.
      intros HX HG. unfold fill_stack.
      set (s1 := set_orc s _).
      assert (HG1 : GP s0 s1) by (eapply GP_same; [|exact HG]; reflexivity).
      destruct (match prio s1 with [] => _ | _ => _ end) as [[[i force] s2]|] eqn:Esel; [|exact HG1].
      assert (H2 : GP s0 s2 /\ i < length (ivs s2)).
      { destruct (prio s1) as [|k rest] eqn:Ep.
        - destruct (nat_mem (c_pick ch) (live s1)) eqn:Em; inversion Esel; subst i s2.
          split; [exact HG1|]. apply (@XL_bound s); [exact HX|]. left. apply nat_mem_In. exact Em.
        - inversion Esel; subst i s2. split; [eapply GP_same; [|exact HG1]; reflexivity|].
          apply (@XL_bound s); [exact HX|]. right. change (prio s) with (prio s1). rewrite Ep. left; reflexivity. }
      destruct H2 as [HG2 Hi].
      destruct (is_nil (children (getF s2 i))) eqn:Ech; cbn [negb]; [|exact HG2].
      assert (Hki : kids s2 i = []) by (unfold kids; destruct (children (getF s2 i)); [reflexivity|discriminate]).
      apply (@bind_inv X (GP s0)); [|intros s4 H4; destruct (is_nil (orc s4)); exact H4].
      apply (@bind_inv X (GP s0)).
      2:{ intros s4 H4. eapply GP_same; [|exact H4]. unfold max_ivals_rule.
          destruct (_ <? _); destruct (c_maxrm ch) as [j|]; try reflexivity.
          destruct (nat_mem j (live s4)); [|reflexivity]. cbn [fst]. unfold discard_ival. destruct repaired; reflexivity. }
      assert (HRL : forall s3, ivs (fst (remove_live s3 i)) = ivs s3).
      { intros s3. unfold remove_live. destruct (nat_mem i (live s3)); reflexivity. }
      destruct (c_minsep ch); [eapply GP_same; [apply HRL|exact HG2]|].
      destruct (_ || _).
      - assert (HG3 : GP s0 (fst (remove_live s2 i))) by (eapply GP_same; [apply HRL|exact HG2]).
        pose proof (HRL s2) as E3. destruct (remove_live s2 i) as [s3 e3]. cbn [fst] in *.
        destruct e3; cbn [bind]; try exact HG3.
        assert (HG4 : GP s0 (fst (splitF s3 i))).
        { apply GP_split; [exact HG3|rewrite E3; exact Hi|]. unfold kids, get. rewrite E3. exact Hki. }
        destruct (splitF s3 i) as [s4 kids4]. cbn [fst] in HG4.
        apply (@foldM_inv X _ (GP s0)); [intros; apply GP_add_ival; assumption|exact HG4].
      - apply GP_add_ival. eapply GP_FD; [|exact HG2]. apply FD_upd. intros iv; repeat split.
    Qed.

    Lemma GP_ask_loop s0 cs : forall s nleft acc, XLs s -> GP s0 s -> GP s0 (fst (fst (alF s nleft cs acc))).
    Proof.
      induction cs as [|ch cs IH]; intros s nleft acc HX HG; cbn [ask_loop].
      - destruct (nleft =? 0); [exact HG|]. destruct (_ && _); exact HG.
      - destruct (nleft =? 0); [exact HG|]. destruct (_ && _); [exact HG|].
        pose proof (@GP_fill_stack s0 s ch HX HG) as H1.
        pose proof (@XL_fill_stack X eqb points repaired dflt eqb_spec s ch HX) as HX1.
        destruct (fsF s ch) as [s1 e]. cbn [fst] in *.
        destruct e; try exact H1. unfold pop_from_stack. apply IH.
        + eapply XL_same; [| | | |exact HX1]; reflexivity.
        + eapply GP_same; [|exact H1]. reflexivity.
    Qed.

    Lemma GP_step s0 s o : XLs s -> GP s0 s -> GP s0 (fst (stepF s o)).
    Proof.
      intros HX HG. unfold step. destruct (halted s); [exact HG|].
      destruct o as [n cs|y vs].
      - unfold ask, pop_from_stack.
        pose proof (@GP_ask_loop s0 cs (set_stack s (skipn n (stack s))) (n - length (firstn n (stack s))) (firstn n (stack s))) as H1.
        destruct (alF _ _ cs _) as [[s1 e] out]. cbn [fst] in H1.
        assert (H2 : GP s0 s1).
        { apply H1; [eapply XL_same; [| | | |exact HX]; reflexivity|eapply GP_same; [|exact HG]; reflexivity]. }
        destruct e; cbn [fst]; (eapply GP_same; [|exact H2]; reflexivity).
      - assert (H2 : GP s0 (fst (tellF (set_orc s vs) y))).
        { apply GP_tell. eapply GP_same; [|exact HG]. reflexivity. }
        destruct (tellF (set_orc s vs) y) as [s1 e]. cbn [fst] in H2.
        destruct e; cbn [fst]; try exact HG; try (eapply GP_same; [|exact H2]; reflexivity).
        destruct (is_nil _); cbn [fst]; (eapply GP_same; [|exact H2]; reflexivity).
    Qed.

    Lemma GP_run s0 h : forall s, XLs s -> GP s0 s -> GP s0 (runF s h).
    Proof.
      induction h as [|o h IH]; intros s HX HG; cbn [run fold_left]; [exact HG|].
      apply IH; [apply XL_step; assumption|apply GP_step; assumption].
    Qed.

    Lemma TD_init lo hi maxiv : TD (initF lo hi maxiv).
    Proof.
      unfold init.
      set (s00 := mkS [mkI lo hi 2 1 None [] [] (Some []) None false] [] [] [] [] [] [] maxiv [] false).
      assert (H0 : GP s00 s00).
      { split; [|intros H; exact H]. split.
        - unfold TP. cbn. refine (conj _ (conj eq_refl (conj _ (conj _ _)))); try lia.
          + intros c l r Hc E. assert (c = 0) by lia. subst. discriminate.
          + intros c Hc. left. assert (c = 0) by lia. subst. reflexivity.
          + intros c p Hc E. assert (c = 0) by lia. subst. discriminate.
        - refine (conj _ (conj _ (conj _ (conj _ _)))).
          + intros c k S0 Hc E. cbn in Hc. assert (c = 0) by lia. subst. discriminate.
          + intros c l r Hc E. cbn in Hc. assert (c = 0) by lia. subst. discriminate.
          + intros c l r Hc E. cbn in Hc. assert (c = 0) by lia. subst. discriminate.
          + intros c Hc Nc. cbn in Hc. assert (c = 0) by lia. subst. discriminate.
          + intros c Hc _ l r E. cbn in Hc. assert (c = 0) by lia. subst. discriminate. }
      apply (@GP_add_ival s00 s00 0 H0).
    Qed.

    (* the estimate of the first interval is always empty or the leaf set of a cover,
       and once it is non-empty it stays non-empty *)
    Theorem estimate_is_cover lo hi maxiv h :
      let s := runF (initF lo hi maxiv) h in
      exists Sl, approximating_intervals dflt s = Some Sl /\
        (Sl = [] \/ exists L, Cover dflt s 0 L /\ seteq Sl L).
    Proof.
      intros s.
      assert (HG : GP (initF lo hi maxiv) s).
      { apply GP_run; [apply XL_init; exact eqb_spec|]. split; [apply TD_init|intros H; exact H]. }
      destruct HG as [[HT (HD1 & _ & _ & HD5 & _)] _]. pose proof HT as (T0 & T1 & _).
      unfold approximating_intervals. change (done_leaves (getF s 0)) with (dlS s 0).
      destruct (dlS s 0) as [[|k S0]|] eqn:E.
      - exists []. auto.
      - exists (k :: S0). split; [reflexivity|right]. destruct (HD1 0 k S0 T0 E) as (L & U & Q).
        exists L. split; [apply UR_Cover; exact U|exact Q].
      - exfalso. apply (HD5 0 T0 E). exact T1.
    Qed.

    Theorem estimate_stays lo hi maxiv h1 h2 :
      let s1 := runF (initF lo hi maxiv) h1 in
      isNE s1 0 -> isNE (runF s1 h2) 0.
    Proof.
      intros s1 H.
      assert (HX : XLs s1) by (apply XL_run, XL_init; exact eqb_spec).
      assert (HG : GP (initF lo hi maxiv) s1).
      { apply GP_run; [apply XL_init; exact eqb_spec|]. split; [apply TD_init|intros H0; exact H0]. }
      destruct HG as [HTD _].
      assert (HG2 : GP s1 (runF s1 h2)) by (apply GP_run; [exact HX|split; [exact HTD|intros H0; exact H0]]).
      destruct HG2 as [_ HR]. apply HR, H.
    Qed.
  End WithSpec.


  (* the partition clause of C07: with every interval of the arena non-degenerate
     ([strict], decidable on a run), the estimate is empty or, read from left to
     right, a chain of intervals from lo to hi *)
  Section Chain.
    Hypothesis eqb_spec : forall x y : X, eqb x y = true <-> x = y.
    Variable lt : X -> X -> Prop.
    Hypothesis lt_trans : forall a1 a2 a3 : X, lt a1 a2 -> lt a2 a3 -> lt a1 a3.

    Theorem partition_full lo hi maxiv h :
      let s := run eqb points repaired dflt (init eqb points repaired dflt lo hi maxiv) h in
      strict dflt lt s ->
      exists Sl, approximating_intervals dflt s = Some Sl /\
        (Sl = [] \/
         exists L, Cover dflt s 0 L /\ (forall k, In k Sl <-> In k L) /\ L <> [] /\
                   chain lt lo (map (ab dflt s) L) hi /\
                   Sorted.StronglySorted lt (map fst (map (ab dflt s) L))).
    Proof.
      intros s Hst. destruct (estimate_is_cover eqb_spec lo hi maxiv h) as (Sl & E & H).
      exists Sl. split; [exact E|]. destruct H as [->|(L & HC & Q)]; [left; reflexivity|right].
      assert (HT : TW dflt s lo hi) by (apply TW_run, TW_init).
      destruct (@cover_is_partition X dflt lt s lo hi 0 L HT Hst HC) as [Hne Hch]; [destruct HT; lia|].
      destruct HT as (T1 & T2 & T3 & T5). rewrite T2, T3 in Hch.
      exists L. repeat split; auto; try apply Q. eapply chain_sorted; eauto.
    Qed.
  End Chain.

End Partition.

Arguments isNE {X}. Arguments seteq S L : simpl never.
