(* Bookkeeping lemmas for properties C09 / C10 about Model/Integrator.v
   (IntegratorLearner's bookkeeping: interval tree, stack, pending_points, the
   KEYS of data, x_mapping; every numeric decision is an answer of the
   environment, so the statements hold for every integrand and tolerance).
   Both variants of the code ([repaired]), every history, every oracle answer.
   Axiom-free.

   C09.  IntegratorLearner.ask(n, tell_pending=False) is (since /repo commit
   5fc0973)   with restore(self): return self._ask_and_tell_pending(n)
   where restore takes a deep copy of the learner's whole __dict__ and puts it
   back on leaving the block, also when the call raises.  Its model is
   [ask_nc]: the OUTPUT of the committing ask on a state that is handed back
   unchanged.  That [ask_nc] is the identity on the state is therefore by
   construction of the definition; the theorem says nothing about the
   completeness of the real snapshot (decided by the twin oracle and by the
   correspondence of harness/avh/props/c09.py, which observes the real learner
   after non-committing asks) nor about floating-point summation order
   (finding C09:F28; numerics are not in this model).  The integrator has no
   tell_pending(point); the commit clause is read as the checks read it: the
   points returned by a committing ask are pending (until told).

   C10.  Values are not modelled (data = its keys): "each with the value it was
   told" and the re-tell clause (the integrator overwrites and re-processes)
   are not claimed -- names carry _partial where a clause is cut down.
   remove_unfinished is `pass` in the code: the model has no such operation. *)
From AV Require Import Base.Prelude Base.NatSet Model.Integrator Proofs.IntegratorProofs.

Section IntBK.
  Variable X : Type.
  Variable eqb : X -> X -> bool.
  Variable points : X -> X -> nat -> list X.
  Variable repaired : bool.
  Variable dflt : X.
  Hypothesis eqb_spec : forall x y, eqb x y = true <-> x = y.

  Notation st := (st X).
  Notation tellF := (tell eqb points repaired dflt).
  Notation tiF := (tell_ival eqb points repaired dflt).
  Notation apF := (add_point eqb points repaired dflt).
  Notation aiF := (add_ival eqb points repaired dflt).
  Notation fsF := (fill_stack eqb points repaired dflt).
  Notation alF := (ask_loop eqb points repaired dflt).
  Notation askF := (ask eqb points repaired dflt).
  Notation stepF := (step eqb points repaired dflt).
  Notation runF := (run eqb points repaired dflt).
  Notation outsF := (outs eqb points repaired dflt).
  Notation initF := (init eqb points repaired dflt).
  Notation memF := (memX eqb).
  Notation addF := (addX eqb).
  Notation remF := (remX eqb).
  Notation ptsF := (@pts X).
  Implicit Types (s : st) (x y : X) (i n : nat) (e : err) (h : list (op X)).

  (* ---------------- containers ---------------- *)
  Lemma mem_In x l : memF x l = true <-> In x l.
  Proof.
    unfold memX. rewrite existsb_exists. split.
    - intros [z [Hz He]]. apply eqb_spec in He. subst; exact Hz.
    - intros H. exists x. split; [exact H|]. apply eqb_spec. reflexivity.
  Qed.
  Lemma mem_false x l : memF x l = false <-> ~ In x l.
  Proof. rewrite <- mem_In. destruct (memF x l); split; congruence. Qed.
  Lemma add_In x y l : In y (addF x l) <-> y = x \/ In y l.
  Proof.
    unfold addX. destruct (memF x l) eqn:E.
    - apply mem_In in E. split; [auto|]. intros [->|H]; auto.
    - rewrite in_app_iff. cbn [In]. split; [intros [H|[H|[]]]; auto|intros [H|H]; auto].
  Qed.
  Lemma add_NoDup x l : NoDup l -> NoDup (addF x l).
  Proof.
    intros H. unfold addX. destruct (memF x l) eqn:E; [exact H|]. apply mem_false in E.
    apply NoDup_app_disj; [exact H|repeat constructor; cbn; tauto|]. intros z Hz [<-|[]]. contradiction.
  Qed.
  Lemma add_mem_same x l : In x l -> addF x l = l.
  Proof. intros H. unfold addX. apply mem_In in H. rewrite H. reflexivity. Qed.
  Lemma rem_In x y l : In y (remF x l) <-> In y l /\ y <> x.
  Proof.
    unfold remX. rewrite filter_In. split; intros [H1 H2]; split; auto.
    - intros ->. assert (E : eqb x x = true) by (apply eqb_spec; reflexivity). rewrite E in H2. discriminate.
    - destruct (eqb x y) eqn:E; [|reflexivity]. apply eqb_spec in E. congruence.
  Qed.
  Lemma rem_notin x l : ~ In x l -> remF x l = l.
  Proof.
    intros H. unfold remX. induction l as [|a l IH]; cbn [filter]; [reflexivity|].
    destruct (eqb x a) eqn:E; cbn [negb].
    - apply eqb_spec in E. subst. exfalso. apply H. left; reflexivity.
    - f_equal. apply IH. intros Hin. apply H. right; exact Hin.
  Qed.

  (* ================= a generic invariant of (stack, pending, data, x_mapping) ================= *)
  Section PtsInv.
    Variable Q : st -> Prop.
    Variable C : X -> Prop.                 (* side condition on the abscissa of a tell *)
    Hypothesis Q_same : forall s s', ptsF s' = ptsF s -> Q s -> Q s'.
    Hypothesis Q_tell_pre : forall s x, Q s -> (In x (data s) \/ C x) ->
      Q (set_pending (set_data s (addF x (data s))) (remF x (pending s))).
    Hypothesis Q_push : forall s x, Q s -> ~ In x (data s) -> ~ In x (pending s) ->
      Q (set_stack (set_pending s (pending s ++ [x])) (stack s ++ [x])).
    Hypothesis Q_xmap : forall s m, Q s -> Q (set_xmap s m).
    Hypothesis Q_pop : forall s n, Q s -> Q (set_stack s (skipn n (stack s))).

    Lemma Q_tell s x : Q s -> (In x (data s) \/ C x) -> Q (fst (tellF s x)).
    Proof.
      intros HQ Hc. unfold tell. destruct (negb _); [exact HQ|].
      apply (foldM_inv X Q).
      - intros s' i. apply Q_same. apply pts_tell_ival.
      - apply Q_tell_pre; assumption.
    Qed.

    Lemma Q_add_point i s x : Q s -> Q (fst (apF i s x)).
    Proof.
      intros HQ. unfold add_point. set (s1 := set_xmap s _).
      assert (HQ1 : Q s1) by (apply Q_xmap; exact HQ).
      destruct (memF x (data s1)) eqn:Ed; [apply Q_tell; [exact HQ1|left; apply mem_In; exact Ed]|].
      destruct (memF x (pending s1)) eqn:Ep; [exact HQ1|].
      cbn [fst]. apply Q_push; [exact HQ1|apply mem_false; exact Ed|apply mem_false; exact Ep].
    Qed.

    Lemma Q_add_ival s i : Q s -> Q (fst (aiF s i)).
    Proof.
      intros HQ. unfold add_ival. apply bind_inv.
      - apply (foldM_inv X Q); [|exact HQ]. intros s' x. apply Q_add_point.
      - intros s' HQ'. cbn [fst]. eapply Q_same; [|exact HQ']. reflexivity.
    Qed.

    Lemma Q_fill_stack s c : Q s -> Q (fst (fsF s c)).
    Proof.
      intros HQ. unfold fill_stack. set (s0 := set_orc s _).
      assert (HQ0 : Q s0) by (eapply Q_same; [|exact HQ]; reflexivity).
      destruct (match prio s0 with [] => _ | _ => _ end) as [[[i force] s1]|] eqn:Esel; [|exact HQ0].
      assert (HQ1 : Q s1).
      { destruct (prio s0) as [|k rest]; [destruct (nat_mem _ _)|]; inversion Esel; subst; try exact HQ0.
        eapply Q_same; [|exact HQ0]. reflexivity. }
      destruct (negb _); [exact HQ1|].
      apply bind_inv; [|intros s4 H4; destruct (is_nil _); exact H4].
      apply bind_inv; [|intros s4 H4; eapply Q_same; [apply pts_max_ivals_rule|exact H4]].
      destruct (c_minsep c); [eapply Q_same; [apply pts_remove_live|exact HQ1]|].
      destruct (_ || _).
      - apply bind_inv; [eapply Q_same; [apply pts_remove_live|exact HQ1]|].
        intros s2 HQ2. unfold split. cbn iota beta.
        apply (foldM_inv X Q); [intros; apply Q_add_ival; assumption|].
        eapply Q_same; [|exact HQ2]. reflexivity.
      - apply Q_add_ival. eapply Q_same; [|exact HQ1]. apply pts_upd.
    Qed.

    Lemma Q_pop_from s n : Q s -> Q (fst (pop_from_stack s n)).
    Proof. intros HQ. unfold pop_from_stack. cbn [fst]. apply Q_pop. exact HQ. Qed.

    Lemma Q_ask_loop cs : forall s nleft acc, Q s -> Q (fst (fst (alF s nleft cs acc))).
    Proof.
      induction cs as [|c cs IH]; intros s nleft acc HQ; cbn [ask_loop].
      - destruct (nleft =? 0); [exact HQ|]. destruct (_ && _); exact HQ.
      - destruct (nleft =? 0); [exact HQ|]. destruct (_ && _); [exact HQ|].
        pose proof (Q_fill_stack s c HQ) as H1. destruct (fsF s c) as [s1 e]. cbn [fst] in H1.
        destruct e; try exact H1.
        pose proof (Q_pop_from s1 nleft H1) as H2. destruct (pop_from_stack s1 nleft) as [s2 pts']. cbn [fst] in H2.
        apply IH. exact H2.
    Qed.

    Lemma Q_ask s n cs : Q s -> Q (fst (fst (askF s n cs))).
    Proof.
      intros HQ. unfold ask. pose proof (Q_pop_from s n HQ) as H1.
      destruct (pop_from_stack s n) as [s1 pts']. cbn [fst] in H1. apply Q_ask_loop. exact H1.
    Qed.

    Definition op_ok (o : op X) : Prop := match o with Tell x _ => C x | Ask _ _ => True end.

    Lemma Q_step s (o : op X) : Q s -> (match o with Tell x _ => In x (data s) \/ C x | Ask _ _ => True end) ->
      Q (fst (stepF s o)).
    Proof.
      intros HQ Hc. unfold step. destruct (halted s); [exact HQ|].
      destruct o as [n cs|x vs].
      - pose proof (Q_ask s n cs HQ) as HA. destruct (askF s n cs) as [[s1 e] out]. cbn [fst] in HA.
        destruct e; cbn [fst]; (eapply Q_same; [|exact HA]); reflexivity.
      - assert (HT : Q (fst (tellF (set_orc s vs) x))).
        { apply Q_tell; [eapply Q_same; [|exact HQ]; reflexivity|exact Hc]. }
        destruct (tellF (set_orc s vs) x) as [s1 e]. cbn [fst] in HT.
        destruct e; cbn [fst]; try exact HQ; try (eapply Q_same; [|exact HT]; reflexivity).
        destruct (is_nil _); cbn [fst]; (eapply Q_same; [|exact HT]); reflexivity.
    Qed.

    Lemma Q_run h : forall s, Q s -> Forall op_ok h -> Q (runF s h).
    Proof.
      induction h as [|o h IH]; intros s HQ Hh; [exact HQ|].
      inversion Hh as [|? ? Ho Hh']; subst.
      change (runF s (o :: h)) with (runF (fst (stepF s o)) h). apply IH; [|exact Hh'].
      apply Q_step; [exact HQ|]. destruct o; [exact I|right; exact Ho].
    Qed.

    Lemma Q_init lo hi maxiv : Q (mkS [mkI lo hi 2 1 None [] [] (Some []) None false] [] [] [] [] [] [] maxiv [] false) ->
      Q (initF lo hi maxiv).
    Proof. intros H. unfold init. apply Q_add_ival. exact H. Qed.

    Lemma Q_reach lo hi maxiv h :
      Q (mkS [mkI lo hi 2 1 None [] [] (Some []) None false] [] [] [] [] [] [] maxiv [] false) ->
      Forall op_ok h -> Q (runF (initF lo hi maxiv) h).
    Proof. intros H0 Hh. apply Q_run; [apply Q_init; exact H0|exact Hh]. Qed.
  End PtsInv.

  (* ================= C10: data / pending bookkeeping invariant, ALL histories ================= *)
  (* keys of data duplicate-free; data and pending_points disjoint *)
  Definition BInv s : Prop := NoDup (data s) /\ (forall x, In x (pending s) -> ~ In x (data s)).

  Lemma BInv_holds lo hi maxiv h : BInv (runF (initF lo hi maxiv) h).
  Proof.
    apply (Q_reach BInv (fun _ => True)).
    - intros s s' E [H1 H2]. unfold pts in E. inversion E as [[E1 E2 E3 E4]]. unfold BInv. rewrite E2, E3. auto.
    - intros s x [H1 H2] _. split; cbn [data pending set_data set_pending].
      + apply add_NoDup. exact H1.
      + intros z Hz. apply rem_In in Hz as [Hz Hn]. rewrite add_In. intros [E|Hd]; [contradiction|]. exact (H2 z Hz Hd).
    - intros s x [H1 H2] Hd Hp. split; cbn [data pending set_stack set_pending]; [exact H1|].
      intros z Hz. apply in_app_iff in Hz as [Hz|[<-|[]]]; [apply H2; exact Hz|exact Hd].
    - intros s m H. exact H.
    - intros s n H. exact H.
    - split; cbn; [constructor|tauto].
    - apply Forall_forall. intros o _. destruct o; exact I.
  Qed.

  (* data only ever holds told abscissae *)
  Definition tolds h : list X := flat_map (fun o => match o with Tell x _ => [x] | Ask _ _ => [] end) h.

  Lemma data_only_told lo hi maxiv h y : In y (data (runF (initF lo hi maxiv) h)) -> In y (tolds h).
  Proof.
    revert y. apply (Q_reach (fun s => forall y, In y (data s) -> In y (tolds h)) (fun x => In x (tolds h))).
    - intros s s' E H. unfold pts in E. inversion E as [[E1 E2 E3 E4]]. rewrite E3. exact H.
    - intros s x H Hc y. cbn [data set_data set_pending]. rewrite add_In. intros [->|Hy]; [|apply H; exact Hy].
      destruct Hc as [Hd|Hc]; [apply H; exact Hd|exact Hc].
    - intros s x H _ _. exact H.
    - intros s m H. exact H.
    - intros s n H. exact H.
    - cbn. tauto.
    - apply Forall_forall. intros o Ho. destruct o as [n cs|x vs]; [exact I|].
      cbn [op_ok]. unfold tolds. apply in_flat_map. exists (Tell x vs). split; [exact Ho|left; reflexivity].
  Qed.

  (* ---------------- what one tell does to data / pending ---------------- *)
  Lemma pts_foldM_tell_ival x l : forall s, ptsF (fst (foldM (tiF x) l s)) = ptsF s.
  Proof.
    intros s. apply (foldM_inv X (fun s' => ptsF s' = ptsF s)); [|reflexivity].
    intros s' i H. rewrite pts_tell_ival. exact H.
  Qed.

  Lemma tell_accepted s x : xmap_mem eqb x (xmap s) = true ->
    ptsF (fst (tellF s x)) = (stack s, remF x (pending s), addF x (data s), xmap s).
  Proof. intros H. unfold tell. rewrite H. cbn [negb]. rewrite pts_foldM_tell_ival. reflexivity. Qed.

  Lemma tell_rejected s x : xmap_mem eqb x (xmap s) = false -> tellF s x = (s, EValue).
  Proof. intros H. unfold tell. rewrite H. reflexivity. Qed.

  Lemma tell_depths_no_evalue i ds : forall s, snd (tell_depths eqb points repaired dflt s i ds) <> EValue.
  Proof.
    induction ds as [|d0 ds IHd]; intros a0; cbn [tell_depths]; [discriminate|].
    destruct (refinement_complete _ _ _ _); [|apply IHd].
    unfold complete_process.
    destruct (negb _); [cbn; discriminate|].
    destruct (orc _) as [|v o']; [cbn; discriminate|].
    destruct (_ && _).
    { cbn [bind fst snd]. apply IHd. }
    destruct v as [fs rm|]; [|cbn; discriminate].
    destruct rm; cbn [bind].
    { apply IHd. }
    destruct (fs && _); [|apply IHd].
    unfold queue_split. destruct repaired; [destruct (_ && _); cbn [bind]; apply IHd|].
    destruct (nat_mem _ _); cbn [bind]; [apply IHd|cbn; discriminate].
  Qed.

  Lemma foldM_no_evalue x l : forall s, snd (foldM (tiF x) l s) <> EValue.
  Proof.
    induction l as [|i l IH]; intros a; cbn [foldM]; [discriminate|].
    pose proof (tell_depths_no_evalue i) as Hti. unfold tell_ival at 1.
    match goal with |- context [tell_depths _ _ _ _ ?a0 i ?ds] => specialize (Hti ds a0);
      destruct (tell_depths eqb points repaired dflt a0 i ds) as [a' e'] end.
    cbn [snd] in Hti. destruct e'; cbn [bind snd]; try exact Hti; try discriminate. apply IH.
  Qed.

  (* told and accepted: in data, not pending; rejected (ValueError) or halted: nothing changes *)
  Theorem int_tell_bookkeeping s x vs :
    halted s = false ->
    (xmap_mem eqb x (xmap s) = false /\ stepF s (Tell x vs) = (s, ([], EValue))) \/
    (xmap_mem eqb x (xmap s) = true /\ snd (snd (stepF s (Tell x vs))) <> EValue /\
     In x (data (fst (stepF s (Tell x vs)))) /\ ~ In x (pending (fst (stepF s (Tell x vs)))) /\
     (forall y, In y (data (fst (stepF s (Tell x vs)))) <-> y = x \/ In y (data s)) /\
     (forall y, In y (pending (fst (stepF s (Tell x vs)))) <-> In y (pending s) /\ y <> x) /\
     stack (fst (stepF s (Tell x vs))) = stack s).
  Proof.
    intros Hh. destruct (xmap_mem eqb x (xmap s)) eqn:Ex.
    - right. split; [reflexivity|].
      assert (Hp : ptsF (fst (tellF (set_orc s vs) x)) = (stack s, remF x (pending s), addF x (data s), xmap s)).
      { apply (tell_accepted (set_orc s vs) x). exact Ex. }
      assert (He : snd (tellF (set_orc s vs) x) <> EValue).
      { unfold tell. cbn [xmap set_orc]. rewrite Ex. cbn [negb]. apply foldM_no_evalue. }
      unfold step. rewrite Hh.
      destruct (tellF (set_orc s vs) x) as [s1 e1]. cbn [fst snd] in Hp, He.
      unfold pts in Hp. inversion Hp as [[P1 P2 P3 P4]].
      assert (Hne : (match e1 with ENone => if is_nil (orc s1) then ENone else EMissing | _ => e1 end) <> EValue).
      { destruct e1; try discriminate; [destruct (is_nil _); discriminate|exact He]. }
      destruct (match e1 with ENone => if is_nil (orc s1) then ENone else EMissing | _ => e1 end) eqn:Ee;
        try congruence; cbn [fst snd data pending stack set_halted set_orc]; rewrite ?P1, ?P2, ?P3;
        (split; [discriminate|]); (split; [apply add_In; left; reflexivity|]);
        (split; [rewrite rem_In; tauto|]); (split; [intros y0; apply add_In|]); (split; [intros y0; apply rem_In|reflexivity]).
    - left. split; [reflexivity|]. unfold step. rewrite Hh, (tell_rejected (set_orc s vs) x Ex). reflexivity.
  Qed.

  (* data never loses a point *)
  Lemma data_mono_run y h : forall s, In y (data s) -> In y (data (runF s h)).
  Proof.
    intros s H0. apply (Q_run (fun s => In y (data s)) (fun _ => True)); try exact H0.
    - intros s1 s' E H. unfold pts in E. inversion E as [[E1 E2 E3 E4]]. rewrite E3. exact H.
    - intros s1 x H _. cbn [data set_data set_pending]. apply add_In. right; exact H.
    - intros s1 x H _ _. exact H.
    - intros s1 m H. exact H.
    - intros s1 n H. exact H.
    - apply Forall_forall. intros o _. destruct o; exact I.
  Qed.

  (* every accepted tell is (and stays) in data *)
  Theorem int_told_in_data lo hi maxiv h1 y vs h2 :
    let s1 := runF (initF lo hi maxiv) h1 in
    halted s1 = false -> xmap_mem eqb y (xmap s1) = true ->
    In y (data (runF (initF lo hi maxiv) (h1 ++ Tell y vs :: h2))).
  Proof.
    intros s1 Hh Hx. unfold run. rewrite fold_left_app. cbn [fold_left]. fold (runF (initF lo hi maxiv) h1). fold s1.
    apply data_mono_run.
    destruct (int_tell_bookkeeping s1 y vs Hh) as [[E _]|[_ [_ [H _]]]]; [congruence|exact H].
  Qed.

  (* ================= C10: asked is pending until told (ALL histories) ================= *)
  Lemma PInv_run h : forall H s, PInv X H s -> PInv X (H ++ handed (outsF s h)) (runF s h).
  Proof.
    induction h as [|o h IH]; intros H s HP; cbn [outs handed map concat].
    - rewrite app_nil_r. exact HP.
    - change (runF s (o :: h)) with (runF (fst (stepF s o)) h).
      rewrite app_assoc. apply IH. apply PInv_step; assumption.
  Qed.

  Theorem int_asked_is_pending lo hi maxiv h x :
    In x (handed (outsF (initF lo hi maxiv) h)) -> ~ In x (tolds h) ->
    In x (pending (runF (initF lo hi maxiv) h)).
  Proof.
    intros Hin Hnt.
    destruct (PInv_run h [] (initF lo hi maxiv) (PInv_init X eqb points repaired dflt eqb_spec lo hi maxiv)) as [_ H2].
    cbn [app] in H2. destruct (H2 x) as [Hp|Hd]; [apply in_app_iff; left; exact Hin|exact Hp|].
    exfalso. apply Hnt. eapply data_only_told; eauto.
  Qed.

  (* ================= C10: re-tell, on the point-level bookkeeping ================= *)
  Theorem int_retell_points_partial s x :
    BInv s -> In x (data s) -> ptsF (fst (tellF s x)) = ptsF s.
  Proof.
    intros [H1 H2] Hd. destruct (xmap_mem eqb x (xmap s)) eqn:Ex.
    - rewrite (tell_accepted s x Ex). unfold pts. rewrite (add_mem_same x _ Hd), rem_notin; [reflexivity|].
      intros Hp. exact (H2 x Hp Hd).
    - rewrite (tell_rejected s x Ex). reflexivity.
  Qed.

  (* ================= C09 ================= *)
  Definition ask_nc s n (cs : list choice) : st * out X := (s, snd (stepF s (Ask n cs))).

  Theorem int_ask_noop s n cs :
    fst (ask_nc s n cs) = s /\
    (forall h, runF (fst (ask_nc s n cs)) h = runF s h) /\
    snd (ask_nc (fst (ask_nc s n cs)) n cs) = snd (ask_nc s n cs) /\
    snd (ask_nc s n cs) = snd (stepF s (Ask n cs)).
  Proof. repeat split. Qed.

  (* the points of a committing ask are pending right afterwards unless they had
     been told while still queued; and they are new: never handed out before *)
  Lemma nodup_app_disj (l1 l2 : list X) x : NoDup (l1 ++ l2) -> In x l1 -> In x l2 -> False.
  Proof.
    induction l1 as [|a l1 IH]; cbn [app In]; [tauto|]. intros Hn [->|H1] H2.
    - inversion Hn as [|? ? Hna _]; subst. apply Hna. apply in_app_iff. right; exact H2.
    - inversion Hn; subst. apply IH; assumption.
  Qed.

  Lemma handed_snoc h (o : op X) : forall s0,
    handed (outsF s0 (h ++ [o])) = handed (outsF s0 h) ++ fst (snd (stepF (runF s0 h) o)).
  Proof.
    induction h as [|o' h IH]; intros s0.
    - cbn [app outs handed map concat run fold_left]. rewrite app_nil_r. reflexivity.
    - cbn [app outs handed map concat]. change (runF s0 (o' :: h)) with (runF (fst (stepF s0 o')) h).
      unfold handed in IH. rewrite IH, app_assoc. reflexivity.
  Qed.

  Theorem int_ask_commit lo hi maxiv h n cs x :
    let s := runF (initF lo hi maxiv) h in
    In x (fst (snd (stepF s (Ask n cs)))) ->
    ~ In x (handed (outsF (initF lo hi maxiv) h)) /\
    (~ In x (tolds h) -> In x (pending (fst (stepF s (Ask n cs))))).
  Proof.
    intros s Hin.
    pose proof (handed_snoc h (Ask n cs) (initF lo hi maxiv)) as Hout. fold s in Hout.
    split.
    - pose proof (no_double_handout X eqb points repaired dflt eqb_spec lo hi maxiv (h ++ [Ask n cs])) as Hnd.
      rewrite Hout in Hnd. intros Hh. exact (nodup_app_disj _ _ x Hnd Hh Hin).
    - intros Hnt.
      assert (Hrun : fst (stepF s (Ask n cs)) = runF (initF lo hi maxiv) (h ++ [Ask n cs])).
      { unfold s, run. rewrite fold_left_app. reflexivity. }
      rewrite Hrun. apply int_asked_is_pending.
      + rewrite Hout. apply in_app_iff. right. exact Hin.
      + unfold tolds in *. rewrite flat_map_app. cbn [flat_map app]. rewrite app_nil_r. exact Hnt.
  Qed.
End IntBK.
Arguments BInv {X} s.

(* a small exact instance for closed examples: abscissae are naturals, the rule
   of depth d on (a, b) has 2^(d+2)+1 equidistant nodes (as in Props/C07.v) *)
Definition ex_pts (a b d : nat) : list nat :=
  map (fun k => a + k * 2 ^ (3 - d) * ((b - a) / 32)) (seq 0 (2 ^ (Nat.min d 3 + 2) + 1)).
