(* Property C08: uniqueness of interpolation in the Legendre basis, for ANY set of
   n <= 33 pairwise distinct rational nodes.  Consequences: the coefficients of
   the interpolant are determined by the node values alone, and an exact RIGHT
   inverse of the Legendre matrix (V Vinv = I, what `scipy.linalg.inv` aims at)
   is the left inverse the theorems of Proofs/QuadProofs.v ask for. *)
From Coq Require Import QArith Qcanon List Arith Bool Lia.
From AV Require Import Model.QuadAlg Proofs.QuadProofs.
Import ListNotations.
Local Open Scope Qc_scope.

Implicit Types (p q : poly) (c d : vec) (x r t : Qc) (k j n : nat).

(* nodes 0 .. n-1 pairwise distinct *)
Definition distinct (n : nat) (xi : vec) : Prop :=
  forall i j, (i < n)%nat -> (j < n)%nat -> xi i = xi j -> i = j.

(* V Vinv = I on indices < n *)
Definition right_inverse (n : nat) (Vinv V : mat) : Prop :=
  forall i k, (i < n)%nat -> (k < n)%nat -> mm n V Vinv i k = delta i k.

(* synthetic division by (x - r) *)
Fixpoint pquot (p : poly) (r : Qc) : poly :=
  match p with
  | [] => []
  | _ :: p' => match p' with
               | [] => []
               | _ => peval p' r :: pquot p' r
               end
  end.

Lemma pquot_spec p r t : peval p t = (t - r) * peval (pquot p r) t + peval p r.
Proof.
  induction p as [|u p IH].
  - cbn [pquot peval]. ring.
  - destruct p as [|v p].
    + cbn [pquot peval]. ring.
    + change (pquot (u :: v :: p) r) with (peval (v :: p) r :: pquot (v :: p) r).
      change (peval (u :: v :: p) t) with (u + t * peval (v :: p) t).
      change (peval (u :: v :: p) r) with (u + r * peval (v :: p) r).
      change (peval (peval (v :: p) r :: pquot (v :: p) r) t)
        with (peval (v :: p) r + t * peval (pquot (v :: p) r) t).
      rewrite IH. ring.
Qed.

Lemma length_pquot p r : length (pquot p r) = pred (length p).
Proof.
  induction p as [|u p IH].
  - reflexivity.
  - destruct p as [|v p].
    + reflexivity.
    + change (pquot (u :: v :: p) r) with (peval (v :: p) r :: pquot (v :: p) r).
      cbn [length] in *. rewrite IH. reflexivity.
Qed.

(* a polynomial of degree < n with n distinct roots vanishes everywhere *)
Lemma roots_zero n : forall p (xi : vec),
  (length p <= n)%nat -> distinct n xi -> (forall i, (i < n)%nat -> peval p (xi i) = 0) ->
  forall t, peval p t = 0.
Proof.
  induction n as [|n IH]; intros p xi Hl Hd Hr t.
  - destruct p; [reflexivity | cbn [length] in Hl; lia].
  - set (r := xi n). set (q := pquot p r).
    assert (Hq : forall s, peval q s = 0).
    { apply (IH q xi).
      - unfold q. rewrite length_pquot. lia.
      - intros i j Hi Hj E. apply Hd; try lia. exact E.
      - intros i Hi. assert (E := pquot_spec p r (xi i)).
        rewrite (Hr i) in E by lia. unfold r in E. rewrite (Hr n) in E by lia.
        fold r in E. fold q in E.
        assert (N : xi i - r <> 0).
        { intro Z. assert (xi i = xi n) by (unfold r in Z; rewrite <- (Qcplus_0_r (xi n)), <- Z; ring).
          apply Hd in H; lia. }
        assert (M : (xi i - r) * peval q (xi i) = 0)
          by (transitivity ((xi i - r) * peval q (xi i) + 0); [ring | symmetry; exact E]).
        destruct (Qcmult_integral _ _ M) as [A|A]; [contradiction | exact A]. }
    rewrite (pquot_spec p r t). fold q. rewrite Hq. unfold r. rewrite (Hr n) by lia. ring.
Qed.

Lemma of_nat_inj i j : of_nat i = of_nat j -> i = j.
Proof.
  unfold of_nat. intro H. apply Q2Qc_eq_iff in H. unfold Qeq in H. cbn in H. lia.
Qed.

(* a polynomial function that vanishes everywhere has all coefficients 0 *)
Lemma pointwise_zero_coef p : (forall t, peval p t = 0) -> forall k, coef p k = 0.
Proof.
  induction p as [|u p IH]; intros H k.
  - apply coef_nil.
  - assert (U : u = 0). { specialize (H 0). cbn [peval] in H. rewrite <- H. ring. }
    assert (P : forall t, peval p t = 0).
    { apply (roots_zero (length p) p (fun i => of_nat (S i))).
      - lia.
      - intros i j _ _ E. apply of_nat_inj in E. lia.
      - intros i _. specialize (H (of_nat (S i))). cbn [peval] in H. rewrite U in H.
        assert (M : of_nat (S i) * peval p (of_nat (S i)) = 0) by (rewrite <- H; ring).
        destruct (Qcmult_integral _ _ M) as [A|A]; [destruct (of_nat_S_neq0 i A) | exact A]. }
    destruct k as [|k].
    + rewrite coef_cons_0. exact U.
    + rewrite coef_cons_S. apply IH. exact P.
Qed.

Lemma length_lincomb n c : (n <= NMAX)%nat -> (length (lincomb n c) <= n)%nat.
Proof.
  induction n as [|n IH]; intro H.
  - cbn. lia.
  - cbn [lincomb]. rewrite length_padd, length_pscale.
    destruct (leg_shape n) as [Ln _]; [lia |]. rewrite Ln. specialize (IH ltac:(lia)). lia.
Qed.

(* P_0 .. P_(n-1) are linearly independent *)
Lemma lincomb_zero n d : (n <= NMAX)%nat ->
  (forall j, coef (lincomb n d) j = 0) -> forall k, (k < n)%nat -> d k = 0.
Proof.
  induction n as [|n IH]; intros Hn H k Hk.
  - lia.
  - destruct (leg_shape n) as [Ln Nz]; [lia |].
    assert (Dn : d n = 0).
    { assert (E := H n). cbn [lincomb] in E. rewrite coef_padd, coef_pscale in E.
      rewrite (coef_overflow (lincomb n d) n) in E by (apply length_lincomb; lia).
      assert (M : d n * coef (leg n) n = 0) by (rewrite <- E; ring).
      destruct (Qcmult_integral _ _ M) as [A|A]; [exact A | contradiction]. }
    destruct (Nat.eq_dec k n) as [E|E]; [subst k; exact Dn |].
    apply IH; try lia.
    intro j. specialize (H j). cbn [lincomb] in H. rewrite coef_padd, coef_pscale, Dn in H.
    rewrite <- H. ring.
Qed.

(* the interpolant through n distinct nodes has unique Legendre coefficients *)
Lemma interpolation_unique n (xi : vec) c c' :
  (n <= NMAX)%nat -> distinct n xi ->
  (forall j, (j < n)%nat -> mv n (Vmat xi) c j = mv n (Vmat xi) c' j) ->
  forall k, (k < n)%nat -> c k = c' k.
Proof.
  intros Hn Hd Hv k Hk.
  set (d := fun i => c i - c' i).
  assert (Z : forall t, peval (lincomb n d) t = 0).
  { apply (roots_zero n _ xi).
    - apply length_lincomb. exact Hn.
    - exact Hd.
    - intros j Hj. rewrite values_lincomb. unfold mv, d.
      transitivity (mv n (Vmat xi) c j - mv n (Vmat xi) c' j).
      + unfold mv. rewrite <- (Qcmult_1_l (sum n (fun j0 => Vmat xi j j0 * c' j0))) at 1.
        replace (sum n (fun j0 => Vmat xi j j0 * c j0) - 1 * sum n (fun j0 => Vmat xi j j0 * c' j0))
          with (sum n (fun j0 => Vmat xi j j0 * c j0) + (- (1)) * sum n (fun j0 => Vmat xi j j0 * c' j0)) by ring.
        rewrite <- sum_scal, <- sum_add. apply sum_ext. intros i _. ring.
      + rewrite Hv by exact Hj. ring. }
  assert (D := lincomb_zero n d Hn (pointwise_zero_coef _ Z) k Hk).
  unfold d in D. rewrite <- (Qcplus_0_r (c' k)), <- D. ring.
Qed.

(* for distinct nodes a right inverse of the Legendre matrix is a left inverse *)
Lemma right_inverse_is_left n (xi : vec) (Vinv : mat) :
  (n <= NMAX)%nat -> distinct n xi ->
  right_inverse n Vinv (Vmat xi) -> left_inverse n Vinv (Vmat xi).
Proof.
  intros Hn Hd R i k Hi Hk.
  apply (interpolation_unique n xi (fun i0 => mm n Vinv (Vmat xi) i0 k) (fun i0 => delta i0 k) Hn Hd); [| exact Hi].
  intros j Hj. unfold mv, mm.
  transitivity (sum n (fun l => sum n (fun i0 => Vmat xi j i0 * Vinv i0 l * Vmat xi l k))).
  { rewrite sum_swap. apply sum_ext. intros i0 _. rewrite <- sum_scal. apply sum_ext. intros l _. ring. }
  transitivity (sum n (fun l => delta j l * Vmat xi l k)).
  { apply sum_ext. intros l Hl. rewrite <- (R j l Hj Hl). unfold mm.
    rewrite (Qcmult_comm (sum n _)), <- sum_scal. apply sum_ext. intros i0 _. ring. }
  rewrite sum_delta by exact Hj.
  symmetry. transitivity (sum n (fun i0 => delta k i0 * Vmat xi j i0)).
  - apply sum_ext. intros i0 _. unfold delta. rewrite (Nat.eqb_sym i0 k). ring.
  - apply sum_delta. exact Hk.
Qed.

(* the example rules of QuadProofs have distinct nodes *)
Lemma ex_distinct5 : distinct 5 ex_nodes5.
Proof.
  intros i j Hi Hj.
  do 5 (destruct i as [|i]; [do 5 (destruct j as [|j]; [vm_compute; intro E; solve [reflexivity | discriminate E] |]); lia |]).
  lia.
Qed.

(* headline form: ANY n <= 33 pairwise distinct nodes and the exact inverse of
   their Legendre matrix (given as a right inverse) *)
Lemma igral_exact_poly_distinct n (xi : vec) (Vinv : mat) a b p :
  (n <= NMAX)%nat -> distinct n xi -> right_inverse n Vinv (Vmat xi) -> (length p <= n)%nat ->
  calc_igral a b (coeffs n Vinv (fun j => peval p (node_ab a b xi j))) = pint p a b.
Proof.
  intros Hn Hd R Hp. apply igral_exact_poly; [exact Hn | | exact Hp].
  apply right_inverse_is_left; assumption.
Qed.
