(* Values of the loss table of the Learner1D model: every stored loss is the
   loss function applied to the CURRENT data (neighbourhood in the current
   points, current x-scale) at a y-scale that is the scale of the last full
   recomputation or at most [factor] times it.  (C01) *)
From AV Require Import Base.Prelude Base.SortLemmas Model.L1D
  Proofs.L1DOrder Proofs.L1DMaps Proofs.L1DWindow Proofs.L1DStruct Proofs.L1DLoss.
From Coq Require Import Sorted.
Set Implicit Arguments.

Section Values.
  Variable num : Type.
  Variables (add sub mul div : num -> num -> num).
  Variables (ltb eqb : num -> num -> bool).
  Variables (zero one inf neg_inf : num).
  Variables (is_nan is_inf : num -> bool).
  Variable round12 : num -> num.
  Variable of_nat : nat -> num.
  Variable L : list (option num) -> list (option (Y num)) -> num.
  Variable P : params num.
  Hypothesis OL : OrdLaws ltb eqb.

  Notation st := (st num).
  Notation ival := (num * num)%type.
  Notation insert := (@insert num ltb eqb).
  Notation dget := (@dget num eqb).
  Notation dset := (@dset num ltb eqb).
  Notation lget := (@lget num eqb).
  Notation index_of := (@index_of num eqb).
  Notation point_at := (@point_at num P).
  Notation get_intervals := (@get_intervals num eqb P).
  Notation get_loss := (@get_loss num sub div ltb eqb zero one L P).
  Notation lt := (lt ltb).
  Notation sorted := (sorted ltb).
  Notation adj := (adj ltb).

  (* ---------------- the loss function on explicit arguments ---------------- *)
  Definition nbhd (l : list num) (a : num) : list (option num) :=
    map (point_at l (index_of a l)) (seq 0 (2 * nn P + 2)).

  Definition scale_y_at (g : num) (y : Y num) : Y num :=
    let ys := if eqb g zero then one else g in
    match y with
    | YS v => YS (div v ys)
    | YV vs => YV (map (fun v => div v ys) vs)
    end.

  Definition loss_of (l : list num) (d : list (num * Y num)) (sxv g : num) (a b : num) : num :=
    if ltb (sub b a) (dx_eps P) then zero
    else
      let xs := nbhd l a in
      let ys := map (fun ox => match ox with Some x => dget x d | None => None end) xs in
      L (map (option_map (fun x => div x sxv)) xs) (map (option_map (scale_y_at g)) ys).

  Lemma get_loss_loss_of (s : st) a b : get_loss s a b = loss_of (nb s) (data s) (sx s) (sy s) a b.
  Proof. reflexivity. Qed.

  (* ---------------- splitting a sorted list at a new point ---------------- *)
  Lemma insert_split l x : sorted l -> ~ In x l ->
    exists p q, l = p ++ q /\ insert x l = p ++ x :: q /\
                (forall z, In z p -> lt z x) /\ (forall z, In z q -> lt x z).
  Proof.
    induction l as [|c l IH]; intros Hs Hn.
    - exists [], []. cbn. repeat split; intros z [].
    - cbn [L1D.insert]. destruct (ltb x c) eqn:E1.
      + exists [], (c :: l). cbn [app]. repeat split; [intros z []|].
        intros z [<-|Hz]; [exact E1|]. eapply (lt_trans OL); [exact E1|]. eapply sorted_head_lt; eauto.
      + destruct (eqb x c) eqn:E2; [apply (eqb_eq OL) in E2; subst; exfalso; apply Hn; left; reflexivity|].
        pose proof (sorted_inv Hs) as [Hs' _].
        destruct (IH Hs' (fun H => Hn (or_intror H))) as [p [q [El [Ei [Hp Hq]]]]].
        exists (c :: p), q. cbn [app]. rewrite <- El, Ei. repeat split; [|exact Hq].
        intros z [<-|Hz]; [|apply Hp; exact Hz].
        destruct (trichotomy OL c x) as [H|[H|H]]; [exact H| |].
        * subst. rewrite (eqb_refl OL) in E2. discriminate.
        * unfold L1DOrder.lt in H. congruence.
  Qed.

  Lemma sorted_NoDup l : sorted l -> NoDup l.
  Proof.
    induction l as [|c l IH]; intros Hs; [constructor|].
    pose proof (sorted_inv Hs) as [Hs' Hf]. rewrite Forall_forall in Hf.
    constructor; [|apply IH; exact Hs']. intros Hin. exact (lt_irrefl OL (Hf _ Hin)).
  Qed.

  Lemma index_of_nth l a j : NoDup l -> nth_error l j = Some a -> index_of a l = j.
  Proof.
    revert j; induction l as [|c l IH]; intros j Hnd Hj; [destruct j; discriminate|].
    inversion Hnd as [|? ? Hc Hnd']; subst. destruct j as [|j]; cbn [nth_error] in Hj.
    - inversion Hj; subst. cbn [L1D.index_of]. rewrite (eqb_refl OL). reflexivity.
    - cbn [L1D.index_of]. destruct (eqb a c) eqn:E.
      + apply (eqb_eq OL) in E. subst. exfalso. apply Hc. eapply nth_error_In; eauto.
      + f_equal. apply IH; assumption.
  Qed.

  (* ---------------- the frame lemma for neighbourhoods ---------------- *)
  Lemma nbhd_insert_frame l x a b : sorted l -> ~ In x l ->
    adj (insert x l) (a, b) -> a <> x -> b <> x ->
    ~ In (a, b) (get_intervals x (insert x l)) ->
    nbhd (insert x l) a = nbhd l a.
  Proof.
    intros Hs Hn Hadj Hax Hbx Hnw.
    destruct (@insert_split l x Hs Hn) as [p [q [El [Ei [Hp Hq]]]]].
    assert (Hs1 : sorted (insert x l)) by (apply (insert_sorted OL); exact Hs).
    pose proof (proj2 (pairs_adj OL Hs1 (a, b)) Hadj) as Hin.
    destruct (pairs_split _ _ _ Hin) as [p' [q' E']].
    set (j := length p').
    assert (Hxp : ~ In x p) by (intros H; exact (lt_irrefl OL (Hp _ H))).
    assert (Hix : index_of x (insert x l) = length p).
    { rewrite Ei. apply (@index_of_app _ _ (eqb_eq OL)). exact Hxp. }
    assert (Hja : nth_error (insert x l) j = Some a).
    { rewrite E'. unfold j. rewrite nth_error_app2 by lia. rewrite Nat.sub_diag. reflexivity. }
    assert (Hjb : nth_error (insert x l) (S j) = Some b).
    { rewrite E'. unfold j. rewrite nth_error_app2 by lia. replace (S (length p') - length p') with 1 by lia. reflexivity. }
    assert (Hlen : j + 2 <= length (insert x l)).
    { rewrite E', app_length. cbn [length]. unfold j. lia. }
    assert (Hi1 : index_of a (insert x l) = j) by (apply index_of_nth; [apply sorted_NoDup; exact Hs1|exact Hja]).
    (* not in the window *)
    assert (Hout : j + (nn P) + 1 < length p \/ length p + nn P < j).
    { destruct (Nat.lt_ge_cases (j + nn P + 1) (length p)) as [H|H]; [left; exact H|].
      destruct (Nat.lt_ge_cases (length p + nn P) j) as [H'|H']; [right; exact H'|].
      exfalso. apply Hnw. unfold L1D.get_intervals. rewrite Hix.
      generalize (length (insert x l)) Hlen. intros len0 Hlen0. rewrite E'.
      apply slice_has; fold j.
      - lia.
      - apply Nat.min_glb; [exact Hlen0|lia]. }
    assert (Hll : length (insert x l) = S (length l)).
    { rewrite Ei, El, !app_length. cbn [length]. lia. }
    unfold nbhd. apply map_ext_in. intros k Hk. apply in_seq in Hk.
    destruct Hout as [HA|HB].
    - (* a lies in p, far left of x *)
      assert (Hjl : nth_error l j = Some a).
      { rewrite El, nth_error_app1 by lia. rewrite Ei, nth_error_app1 in Hja by lia. exact Hja. }
      assert (Hi0 : index_of a l = j) by (apply index_of_nth; [apply sorted_NoDup; exact Hs|exact Hjl]).
      rewrite Hi1, Hi0. unfold L1D.point_at. destruct (j + k <? nn P) eqn:E; [reflexivity|].
      apply Nat.ltb_ge in E. rewrite Ei, El, !nth_error_app1 by lia. reflexivity.
    - (* a lies in q, far right of x *)
      assert (Hjl : nth_error l (j - 1) = Some a).
      { replace (j - 1) with (length p + (j - length p - 1)) by lia. rewrite El.
        rewrite <- (nth_error_insert_right p q x). rewrite <- Ei.
        replace (length p + 1 + (j - length p - 1)) with j by lia. exact Hja. }
      assert (Hi0 : index_of a l = j - 1) by (apply index_of_nth; [apply sorted_NoDup; exact Hs|exact Hjl]).
      rewrite Hi1, Hi0. unfold L1D.point_at.
      assert (E1 : j + k <? nn P = false) by (apply Nat.ltb_ge; lia).
      assert (E2 : j - 1 + k <? nn P = false) by (apply Nat.ltb_ge; lia).
      rewrite E1, E2.
      replace (j + k - nn P) with (length p + 1 + (j + k - nn P - length p - 1)) by lia.
      replace (j - 1 + k - nn P) with (length p + (j + k - nn P - length p - 1)) by lia.
      rewrite Ei, El. apply nth_error_insert_right.
  Qed.

  (* ---------------- values through update_interp / update_losses ---------------- *)
  Notation update_interp := (@update_interp num sub mul div ltb eqb zero one L P).
  Notation update_losses := (@update_losses num sub mul div ltb eqb zero one inf L P).
  Notation update_scale := (@update_scale num sub ltb zero inf neg_inf is_nan).
  Notation sweep := (@sweep num sub mul div ltb eqb zero one is_nan is_inf round12 L P).
  Notation tell := (@tell num sub mul div ltb eqb zero one inf neg_inf is_nan is_inf round12 L P).
  Notation tell_pending := (@tell_pending num sub mul div ltb eqb zero one inf L P).
  Notation find_neighbors := (@find_neighbors num ltb).
  Notation lpop_opt := (@lpop_opt num eqb).
  Notation ksorted := (@ksorted num ltb eqb).
  Notation okey := (@okey num).

  Lemma fold_interp_other ivs : forall (s : st) (iv : ival), ~ In iv ivs ->
    lget iv (los (fold_left update_interp ivs s)) = lget iv (los s).
  Proof.
    induction ivs as [|i1 ivs IH]; intros s iv Hn; cbn [fold_left]; [reflexivity|].
    rewrite IH; [|intros H; apply Hn; right; exact H].
    destruct i1 as [p q]. cbn [L1D.update_interp L1D.with_los los].
    rewrite (lget_lset OL). destruct (L1D.ival_eqb eqb iv (p, q)) eqn:E; [|reflexivity].
    apply (ival_eqb_eq OL) in E. exfalso. apply Hn. left. symmetry; exact E.
  Qed.

  Lemma fold_interp_scalars ivs : forall (s : st),
    let s' := fold_left update_interp ivs s in
    bbx s' = bbx s /\ bby s' = bby s /\ sx s' = sx s /\ sy s' = sy s /\ osy s' = osy s /\ mgrx s' = mgrx s.
  Proof.
    induction ivs as [|[p q] ivs IH]; intros s; cbn [fold_left]; [cbn; tauto|].
    specialize (IH (update_interp s (p, q))). cbn zeta in *. destruct IH as [H1 [H2 [H3 [H4 [H5 H6]]]]].
    rewrite H1, H2, H3, H4, H5, H6. cbn. tauto.
  Qed.

  Lemma update_losses_true_values (s : st) x : ksorted (los s) ->
    let xl := fst (find_neighbors x (nb s)) in
    let xr := snd (find_neighbors x (nb s)) in
    let s' := update_losses s x true in
    (sx s' = sx s /\ sy s' = sy s /\ osy s' = osy s /\ bbx s' = bbx s) /\
    (forall iv, ~ okey xl xr iv -> In iv (get_intervals x (nb s)) ->
        lget iv (los s') = Some (get_loss s (fst iv) (snd iv))) /\
    (forall iv, ~ okey xl xr iv -> ~ In iv (get_intervals x (nb s)) ->
        lget iv (los s') = lget iv (los s)).
  Proof.
    intros Hkl. unfold L1D.update_losses.
    destruct (find_neighbors x (nb s)) as [xl xr]. destruct (find_neighbors x (nbc s)) as [a b].
    cbn [fst snd]. cbn zeta.
    set (s1 := L1D.with_los s (los s) (lpop_opt a b (losc s))).
    change (nb s1) with (nb s).
    set (ivs := get_intervals x (nb s)).
    destruct (fold_interp_scalars ivs s1) as [S1 [S2 [S3 [S4 [S5 S6]]]]].
    destruct (fold_interp add sub mul div zero one is_nan is_inf round12 L P OL ivs s1) as [_ [_ [_ [_ [_ [_ [K7 _]]]]]]].
    specialize (K7 Hkl).
    set (s2 := fold_left update_interp ivs s1) in *.
    assert (Hval : forall iv, ~ okey xl xr iv ->
              lget iv (lpop_opt xl xr (los s2)) = lget iv (los s2)).
    { intros iv Hne. unfold L1D.lpop_opt. destruct xl as [l|], xr as [r|]; try reflexivity.
      rewrite (lget_lpop OL (l, r) iv K7). destruct (L1D.ival_eqb eqb iv (l, r)) eqn:E; [|reflexivity].
      apply (ival_eqb_eq OL) in E. exfalso. apply Hne. cbn. exact E. }
    assert (Hscal : forall t : st, sx t = sx s2 -> sy t = sy s2 -> osy t = osy s2 -> bbx t = bbx s2 ->
              sx t = sx s /\ sy t = sy s /\ osy t = osy s /\ bbx t = bbx s).
    { intros t E1 E2 E3 E4. rewrite E1, E2, E3, E4, S3, S4, S5, S1. cbn. tauto. }
    destruct xl as [l|], xr as [r|]; cbn [negb andb L1D.with_los los sx sy osy bbx];
      (split; [apply Hscal; reflexivity|]); split; intros iv Hne Hin; rewrite (Hval iv Hne).
    all: try (destruct (fold_interp_values sub mul div zero one L P OL ivs s1 iv Hin) as [H _]; fold s2 in H; rewrite H; reflexivity).
    all: unfold s2; rewrite (fold_interp_other ivs s1 iv Hin); reflexivity.
  Qed.

  (* ---------------- the values invariant ---------------- *)
  Notation keys := (@keys num).
  Notation SInv := (@SInv num ltb eqb).
  Notation in_bounds := (L1D.in_bounds ltb eqb P).

  Definition ScaleOK (s : st) (g : num) : Prop :=
    g = osy s \/ ltb (mul (factor P) (osy s)) g = false.

  Record VInv (s : st) : Prop := {
    v_box : bbx s = (lo P, hi P);
    v_sx : sx s = sub (hi P) (lo P);
    v_vals : forall iv, In iv (keys (los s)) -> exists g, ScaleOK s g /\
               lget iv (los s) = Some (loss_of (nb s) (data s) (sx s) g (fst iv) (snd iv))
  }.

  Lemma vinv_init : VInv (@init num sub zero inf neg_inf P).
  Proof. constructor; cbn; [reflexivity|reflexivity|intros iv []]. Qed.

  Lemma update_scale_box (s : st) x (y : Y num) : bbx s = (lo P, hi P) -> in_bounds x = true ->
    bbx (update_scale s x y) = (lo P, hi P) /\ sx (update_scale s x y) = sub (hi P) (lo P) /\
    osy (update_scale s x y) = osy s.
  Proof.
    intros Hb Hx. unfold L1D.in_bounds in Hx. apply andb_true_iff in Hx as [H1 H2].
    apply (leb_spec add sub mul div zero is_nan is_inf round12 OL) in H1, H2.
    assert (E1 : L1D.pmin ltb (lo P) x = lo P).
    { unfold L1D.pmin. destruct (ltb x (lo P)) eqn:E; [|reflexivity]. exfalso.
      destruct H1 as [H1|H1]; [exact (lt_asym OL H1 E)|subst; exact (lt_irrefl OL E)]. }
    assert (E2 : L1D.pmax ltb (hi P) x = hi P).
    { unfold L1D.pmax. destruct (ltb (hi P) x) eqn:E; [|reflexivity]. exfalso.
      destruct H2 as [H2|H2]; [exact (lt_asym OL H2 E)|subst; exact (lt_irrefl OL E)]. }
    unfold L1D.update_scale. rewrite Hb. cbn [fst snd]. rewrite E1, E2.
    destruct y as [v|vs]; [cbn; tauto|]. destruct (bby s) as [[m1|m1] [m2|m2]]; cbn; tauto.
  Qed.

  Lemma nbhd_In l a z : In (Some z) (nbhd l a) -> In z l.
  Proof.
    unfold nbhd. intros H. apply in_map_iff in H as [k [Hk _]]. unfold L1D.point_at in Hk.
    destruct (_ <? _); [discriminate|]. eapply nth_error_In; eauto.
  Qed.

  Lemma loss_of_frame l x (y : Y num) d sxv g a b : sorted l -> ~ In x l ->
    adj (insert x l) (a, b) -> a <> x -> b <> x ->
    ~ In (a, b) (get_intervals x (insert x l)) ->
    loss_of (insert x l) (dset x y d) sxv g a b = loss_of l d sxv g a b.
  Proof.
    intros Hs Hn Hadj Hax Hbx Hnw. unfold loss_of.
    rewrite (nbhd_insert_frame Hs Hn Hadj Hax Hbx Hnw).
    destruct (ltb (sub b a) (dx_eps P)); [reflexivity|]. f_equal. f_equal.
    apply map_ext_in. intros [z|] Hz; [|reflexivity].
    rewrite (dget_dset OL). destruct (eqb z x) eqn:E; [|reflexivity].
    apply (eqb_eq OL) in E. subst z. exfalso. apply Hn. eapply nbhd_In; eauto.
  Qed.

  Lemma sweep_facts (s : st) :
    (forall iv, In iv (keys (los (sweep s))) <-> In iv (keys (los s))) /\
    nb (sweep s) = nb s /\ data (sweep s) = data s /\ sx (sweep s) = sx s /\ sy (sweep s) = sy s /\
    bbx (sweep s) = bbx s.
  Proof.
    unfold L1D.sweep. set (order := rev (map fst (sort_by _ (los s)))).
    assert (Hord : forall k, In k order -> In k (keys (los s))).
    { intros k Hk. unfold order in Hk. apply in_rev in Hk. apply in_map_iff in Hk as [e [<- He]].
      apply sort_by_In in He. unfold L1DMaps.keys. apply in_map. exact He. }
    destruct (fold_interp add sub mul div zero one is_nan is_inf round12 L P OL order s)
      as [H1 [H2 [H3 [H4 [H5 _]]]]].
    destruct (fold_interp_scalars order s) as [S1 [S2 [S3 [S4 _]]]].
    repeat split; auto.
    - intros H. apply H5 in H as [H|H]; auto.
    - intros H. apply H5. right; exact H.
  Qed.

  Lemma tell_vinv (s : st) x (y : Y num) : SInv s -> VInv s -> in_bounds x = true -> VInv (tell s x y).
  Proof.
    intros HI HV Hb. unfold L1D.tell. destruct (dget x (data s)) as [v|] eqn:Hd; [exact HV|].
    rewrite Hb. cbn [negb].
    set (s1 := L1D.mk (data _) (pend _) (insert x (nb _)) (insert x (nbc _)) (los _) (losc _)
                      (bbx _) (bby _) (sx _) (sy _) (osy _) (mgrx _)).
    cbn [data pend nb nbc los losc bbx bby sx sy osy mgrx] in s1.
    set (s2 := update_scale s1 x y).
    destruct (update_scale_frame add sub mul div ltb zero inf neg_inf is_nan is_inf round12 s1 x y)
      as [U1 [U2 [U3 [U4 [U5 U6]]]]]. fold s2 in U1, U2, U3, U4, U5, U6.
    destruct (@update_scale_box s1 x y (v_box HV) Hb) as [B1 [B2 B3]]. fold s2 in B1, B2, B3.
    assert (Hxnb : ~ In x (nb s)) by (intros Hin; apply (s_real HI) in Hin; congruence).
    assert (Hkl : ksorted (los s2)) by (rewrite U5; exact (s_los_sorted HI)).
    assert (Hkc : ksorted (losc s2)) by (rewrite U6; exact (s_losc_sorted HI)).
    pose proof (@update_losses_true num add sub mul div ltb eqb zero one inf is_nan is_inf round12 L P OL s2 x Hkl Hkc) as HU.
    cbn zeta in HU. destruct HU as [V1 [V2 [V3 [V4 [V5 [V6 [V7 V8]]]]]]].
    pose proof (@update_losses_true_values s2 x Hkl) as HW. cbn zeta in HW.
    destruct HW as [[W1 [W2 [W3 W4]]] [Wa Wb]].
    assert (Hnb1 : sorted (nb s2)) by (rewrite U3; apply (insert_sorted OL), (s_nb HI)).
    destruct (find_neighbors_spec OL x Hnb1) as [Hl1 Hr1].
    set (s3 := update_losses s2 x true) in *.
    set (xl := fst (find_neighbors x (nb s2))) in *. set (xr := snd (find_neighbors x (nb s2))) in *.
    rewrite U3 in Hl1, Hr1. cbn [nb s1] in Hl1, Hr1.
    pose proof (is_left_insert_inv OL _ _ _ Hl1) as Hl0. pose proof (is_right_insert_inv OL _ _ _ Hr1) as Hr0.
    (* values after update_losses, allowing the current scale *)
    assert (HV3 : forall iv, In iv (keys (los s3)) -> exists g,
              (g = sy s3 \/ ScaleOK s3 g) /\
              lget iv (los s3) = Some (loss_of (nb s3) (data s3) (sx s3) g (fst iv) (snd iv))).
    { intros iv Hk. apply V7 in Hk as [Hk Hne].
      destruct (In_dec_ival OL iv (get_intervals x (nb s2))) as [Hin|Hnin].
      - exists (sy s3). split; [left; reflexivity|]. rewrite (Wa iv Hne Hin), get_loss_loss_of.
        rewrite V3, V1, W1, W2. reflexivity.
      - destruct Hk as [Hk|Hk]; [contradiction|]. rewrite U5 in Hk. cbn [los s1] in Hk.
        destruct (v_vals HV iv Hk) as [g [Hg Hv]]. exists g. split.
        + right. unfold ScaleOK in *. rewrite W3, B3. exact Hg.
        + rewrite (Wb iv Hne Hnin), U5. cbn [los s1]. rewrite Hv. f_equal.
          rewrite V3, V1, W1, U3, U1, B2, (v_sx HV). cbn [nb data s1].
          destruct iv as [a b]; cbn [fst snd].
          pose proof (proj1 (s_los_keys HI (a, b)) Hk) as Hadj0.
          symmetry. apply loss_of_frame; [exact (s_nb HI)|exact Hxnb| | | |].
          * apply (@adj_insert_gen _ _ _ OL (nb s) x _ _ (a, b) (s_nb HI) Hl0 Hr0). left. split; [exact Hadj0|].
            intros Hok. apply Hne. apply (okey_spec add sub mul div zero is_nan is_inf round12). exact Hok.
          * intros ->. apply Hxnb. apply Hadj0.
          * intros ->. apply Hxnb. apply Hadj0.
          * rewrite U3 in Hnin. exact Hnin. }
    assert (HB3 : bbx s3 = (lo P, hi P) /\ sx s3 = sub (hi P) (lo P)).
    { rewrite W4, W1. split; assumption. }
    destruct (ltb (mul (factor P) (osy s3)) (sy s3)) eqn:Esw.
    - (* full recomputation *)
      destruct (sweep_facts s3) as [Hkeys [N1 [N2 [N3 [N4 N5]]]]].
      constructor; cbn [bbx sx los nb data osy].
      + rewrite N5. tauto.
      + rewrite N3. tauto.
      + intros iv Hk. exists (sy (sweep s3)). split; [left; reflexivity|].
        apply Hkeys in Hk.
        rewrite (sweep_resets_all sub mul div zero one is_nan is_inf round12 L P OL s3 iv Hk).
        rewrite get_loss_loss_of. reflexivity.
    - constructor; [tauto|tauto|]. intros iv Hk. destruct (HV3 iv Hk) as [g [[->|Hg] Hv]].
      + exists (sy s3). split; [right; exact Esw|exact Hv].
      + exists g. split; [exact Hg|exact Hv].
  Qed.

  Lemma vinv_fields (s s' : st) :
    nb s' = nb s -> data s' = data s -> los s' = los s -> sx s' = sx s -> osy s' = osy s ->
    bbx s' = bbx s -> VInv s -> VInv s'.
  Proof.
    intros E1 E2 E3 E4 E5 E6 [H1 H2 H3]. constructor; unfold ScaleOK; rewrite ?E1, ?E2, ?E3, ?E4, ?E5, ?E6; assumption.
  Qed.

  Lemma update_losses_false_scalars (s : st) x :
    let s' := update_losses s x false in
    sx s' = sx s /\ osy s' = osy s /\ bbx s' = bbx s.
  Proof.
    unfold L1D.update_losses.
    destruct (find_neighbors x (nb s)) as [xl xr]. destruct (find_neighbors x (nbc s)) as [a b].
    destruct xl as [l|], xr as [r|]; cbn [negb andb];
      try destruct (lget (l, r) _); cbn; tauto.
  Qed.

  Lemma tell_pending_vinv (s : st) x : VInv s -> VInv (tell_pending s x).
  Proof.
    intros HV. unfold L1D.tell_pending. destruct (dget x (data s)); [exact HV|].
    set (s1 := L1D.mk _ _ _ _ _ _ _ _ _ _ _ _).
    destruct (update_losses_false_frame add sub mul div ltb eqb zero one inf is_nan is_inf round12 L P s1 x)
      as [F1 [F2 [F3 [F4 F5]]]].
    destruct (update_losses_false_scalars s1 x) as [G1 [G2 G3]].
    eapply vinv_fields; [..|exact HV]; [rewrite F3|rewrite F1|rewrite F5|rewrite G1|rewrite G2|rewrite G3]; reflexivity.
  Qed.

  Lemma fold_tell_pending_vinv pts : forall (s : st), VInv s -> VInv (fold_left tell_pending pts s).
  Proof.
    induction pts as [|p pts IH]; intros s HV; cbn [fold_left]; [exact HV|].
    apply IH, tell_pending_vinv, HV.
  Qed.

  Notation step := (@step num add sub mul div ltb eqb zero one inf neg_inf is_nan is_inf round12 of_nat L P).
  Notation run := (@run num add sub mul div ltb eqb zero one inf neg_inf is_nan is_inf round12 of_nat L P).
  Notation legal := (@legal num add sub mul div ltb eqb zero one inf neg_inf is_nan is_inf round12 of_nat L P).
  Notation legal_op := (@legal_op num ltb eqb P).

  Lemma step_inv (s : st) o : SInv s /\ VInv s -> legal_op s o = true -> SInv (fst (step s o)) /\ VInv (fst (step s o)).
  Proof.
    intros [HI HV] Hl. split; [apply (step_sinv add sub mul div zero one inf neg_inf is_nan is_inf round12 of_nat L P OL); assumption|].
    destruct o as [x y|x|xys force| |n c]; cbn [L1D.step fst L1DStruct.legal_op] in *.
    - apply tell_vinv; assumption.
    - apply tell_pending_vinv; exact HV.
    - apply andb_true_iff in Hl as [Hl Hb]. unfold L1D.tell_many. rewrite Hl.
      clear Hl. revert s HI HV. induction xys as [|xy xys IH]; intros s HI HV; cbn [fold_left]; [exact HV|].
      cbn [forallb] in Hb. apply andb_true_iff in Hb as [Hb1 Hb2].
      apply IH; [exact Hb2| |apply tell_vinv; assumption].
      apply (tell_sinv add sub mul div zero one inf neg_inf is_nan is_inf round12 L P OL); assumption.
    - eapply vinv_fields; [..|exact HV]; reflexivity.
    - unfold L1D.ask. cbn [fst]. destruct c; [|exact HV]. apply fold_tell_pending_vinv. exact HV.
  Qed.

  Theorem values_inv h : forall (s : st), SInv s /\ VInv s -> legal s h = true -> SInv (run s h) /\ VInv (run s h).
  Proof.
    induction h as [|o h IH]; intros s HIV Hl; [exact HIV|].
    change (run s (o :: h)) with (run (fst (step s o)) h).
    cbn [L1DStruct.legal] in Hl. apply andb_true_iff in Hl as [Hl1 Hl2].
    apply IH; [apply step_inv; assumption|exact Hl2].
  Qed.

  (* ---------------- the reported loss ---------------- *)
  Notation loss := (@loss num sub div ltb eqb inf is_nan is_inf round12 P).
  Notation missing_bounds := (@missing_bounds num eqb P).
  Notation finite_loss2 := (@finite_loss2 num sub div is_nan is_inf round12).

  (* loss(real=True) of a reachable state: the loss function's value on a pair
     of neighbouring evaluated points of the current data (at an admissible
     y-scale), whose sort key is not smaller than that of the (likewise
     characterised) value of any other neighbouring pair *)
  Theorem reported_loss (s : st) : SInv s -> VInv s -> missing_bounds s = [] -> los s <> [] ->
    exists a b g, adj (nb s) (a, b) /\ ScaleOK s g /\
      loss s true = loss_of (nb s) (data s) (sx s) g a b /\
      forall a' b', adj (nb s) (a', b') -> exists g', ScaleOK s g' /\
        ltb (finite_loss2 (a, b) (loss s true) (mgrx s))
            (finite_loss2 (a', b') (loss_of (nb s) (data s) (sx s) g' a' b') (mgrx s)) = false.
  Proof.
    intros HI HV Hm Hne.
    destruct (loss_is_max sub div inf is_nan is_inf round12 P OL s true) as [_ H].
    destruct (H Hm Hne) as [[[a b] v] [Hin [Hl Hmax]]]. cbn [snd] in Hl.
    assert (Hk : In (a, b) (keys (los s))) by (unfold L1DMaps.keys; apply in_map_iff; exists ((a, b), v); auto).
    destruct (v_vals HV _ Hk) as [g [Hg Hv]]. cbn [fst snd] in Hv.
    rewrite (In_lget OL _ _ (s_los_sorted HI) Hin) in Hv. inversion Hv as [Ev].
    exists a, b, g. split; [apply (s_los_keys HI); exact Hk|]. split; [exact Hg|]. split; [congruence|].
    intros a' b' Hadj. apply (s_los_keys HI) in Hadj.
    destruct (v_vals HV _ Hadj) as [g' [Hg' Hv']]. cbn [fst snd] in Hv'. exists g'. split; [exact Hg'|].
    assert (Hin' : In ((a', b'), loss_of (nb s) (data s) (sx s) g' a' b') (los s)).
    { clear - Hv' OL. induction (los s) as [|[k w] m IH]; cbn [L1D.lget] in Hv'; [discriminate|].
      destruct (L1D.ival_eqb eqb (a', b') k) eqn:E.
      - apply (ival_eqb_eq OL) in E. subst k. inversion Hv'. left; reflexivity.
      - right. apply IH. exact Hv'. }
    specialize (Hmax _ Hin'). unfold fl in Hmax. cbn [fst snd] in Hmax. rewrite Hl. exact Hmax.
  Qed.
End Values.
