(* Values of the loss table of the Learner1D model: every stored loss is the
   loss function applied to the CURRENT data (neighbourhood in the current
   points, current x-scale) at a y-scale that is the scale of the last full
   recomputation or at most [factor] times it.  (C01) *)
From AV Require Import Base.Prelude Base.SortLemmas Model.L1D
  Proofs.L1DOrder Proofs.L1DMaps Proofs.L1DWindow Proofs.L1DStruct Proofs.L1DLoss.
From Coq Require Import Sorted.
Set Implicit Arguments.

Section Values.
  Variable num : Type.
  Variables (add sub mul div : num -> num -> num).
  Variables (ltb eqb : num -> num -> bool).
  Variables (zero one inf neg_inf : num).
  Variables (is_nan is_inf : num -> bool).
  Variable round12 : num -> num.
  Variable of_nat : nat -> num.
  Variable L : list (option num) -> list (option (Y num)) -> num.
  Variable P : params num.
  Hypothesis OL : OrdLaws ltb eqb.

  Notation st := (st num).
  Notation ival := (num * num)%type.
  Notation insert := (@insert num ltb eqb).
  Notation dget := (@dget num eqb).
  Notation dset := (@dset num ltb eqb).
  Notation lget := (@lget num eqb).
  Notation index_of := (@index_of num eqb).
  Notation point_at := (@point_at num P).
  Notation get_intervals := (@get_intervals num eqb P).
  Notation get_loss := (@get_loss num sub div ltb eqb zero one L P).
  Notation lt := (lt ltb).
  Notation sorted := (sorted ltb).
  Notation adj := (adj ltb).

  (* ---------------- the loss function on explicit arguments ---------------- *)
  Definition nbhd (l : list num) (a : num) : list (option num) :=
    map (point_at l (index_of a l)) (seq 0 (2 * nn P + 2)).

  Definition scale_y_at (g : num) (y : Y num) : Y num :=
    let ys := if eqb g zero then one else g in
    match y with
    | YS v => YS (div v ys)
    | YV vs => YV (map (fun v => div v ys) vs)
    end.

  Definition loss_of (l : list num) (d : list (num * Y num)) (sxv g : num) (a b : num) : num :=
    if ltb (sub b a) (dx_eps P) then zero
    else
      let xs := nbhd l a in
      let ys := map (fun ox => match ox with Some x => dget x d | None => None end) xs in
      L (map (option_map (fun x => div x sxv)) xs) (map (option_map (scale_y_at g)) ys).

  Lemma get_loss_loss_of (s : st) a b : get_loss s a b = loss_of (nb s) (data s) (sx s) (sy s) a b.
  Proof. reflexivity. Qed.

  (* ---------------- splitting a sorted list at a new point ---------------- *)
  Lemma insert_split l x : sorted l -> ~ In x l ->
    exists p q, l = p ++ q /\ insert x l = p ++ x :: q /\
                (forall z, In z p -> lt z x) /\ (forall z, In z q -> lt x z).
  Proof.
    induction l as [|c l IH]; intros Hs Hn.
    - exists [], []. cbn. repeat split; intros z [].
    - cbn [L1D.insert]. destruct (ltb x c) eqn:E1.
      + exists [], (c :: l). cbn [app]. repeat split; [intros z []|].
        intros z [<-|Hz]; [exact E1|]. eapply (lt_trans OL); [exact E1|]. eapply sorted_head_lt; eauto.
      + destruct (eqb x c) eqn:E2; [apply (eqb_eq OL) in E2; subst; exfalso; apply Hn; left; reflexivity|].
        pose proof (sorted_inv Hs) as [Hs' _].
        destruct (IH Hs' (fun H => Hn (or_intror H))) as [p [q [El [Ei [Hp Hq]]]]].
        exists (c :: p), q. cbn [app]. rewrite <- El, Ei. repeat split; [|exact Hq].
        intros z [<-|Hz]; [|apply Hp; exact Hz].
        destruct (trichotomy OL c x) as [H|[H|H]]; [exact H| |].
        * subst. rewrite (eqb_refl OL) in E2. discriminate.
        * unfold L1DOrder.lt in H. congruence.
  Qed.

  Lemma sorted_NoDup l : sorted l -> NoDup l.
  Proof.
    induction l as [|c l IH]; intros Hs; [constructor|].
    pose proof (sorted_inv Hs) as [Hs' Hf]. rewrite Forall_forall in Hf.
    constructor; [|apply IH; exact Hs']. intros Hin. exact (lt_irrefl OL (Hf _ Hin)).
  Qed.

  Lemma index_of_nth l a j : NoDup l -> nth_error l j = Some a -> index_of a l = j.
  Proof.
    revert j; induction l as [|c l IH]; intros j Hnd Hj; [destruct j; discriminate|].
    inversion Hnd as [|? ? Hc Hnd']; subst. destruct j as [|j]; cbn [nth_error] in Hj.
    - inversion Hj; subst. cbn [L1D.index_of]. rewrite (eqb_refl OL). reflexivity.
    - cbn [L1D.index_of]. destruct (eqb a c) eqn:E.
      + apply (eqb_eq OL) in E. subst. exfalso. apply Hc. eapply nth_error_In; eauto.
      + f_equal. apply IH; assumption.
  Qed.

  (* ---------------- the frame lemma for neighbourhoods ---------------- *)
  Lemma nbhd_insert_frame l x a b : sorted l -> ~ In x l ->
    adj (insert x l) (a, b) -> a <> x -> b <> x ->
    ~ In (a, b) (get_intervals x (insert x l)) ->
    nbhd (insert x l) a = nbhd l a.
  Proof.
    intros Hs Hn Hadj Hax Hbx Hnw.
    destruct (@insert_split l x Hs Hn) as [p [q [El [Ei [Hp Hq]]]]].
    assert (Hs1 : sorted (insert x l)) by (apply (insert_sorted OL); exact Hs).
    pose proof (proj2 (pairs_adj OL Hs1 (a, b)) Hadj) as Hin.
    destruct (pairs_split _ _ _ Hin) as [p' [q' E']].
    set (j := length p').
    assert (Hxp : ~ In x p) by (intros H; exact (lt_irrefl OL (Hp _ H))).
    assert (Hix : index_of x (insert x l) = length p).
    { rewrite Ei. apply (@index_of_app _ _ (eqb_eq OL)). exact Hxp. }
    assert (Hja : nth_error (insert x l) j = Some a).
    { rewrite E'. unfold j. rewrite nth_error_app2 by lia. rewrite Nat.sub_diag. reflexivity. }
    assert (Hjb : nth_error (insert x l) (S j) = Some b).
    { rewrite E'. unfold j. rewrite nth_error_app2 by lia. replace (S (length p') - length p') with 1 by lia. reflexivity. }
    assert (Hlen : j + 2 <= length (insert x l)).
    { rewrite E', app_length. cbn [length]. unfold j. lia. }
    assert (Hi1 : index_of a (insert x l) = j) by (apply index_of_nth; [apply sorted_NoDup; exact Hs1|exact Hja]).
    (* not in the window *)
    assert (Hout : j + (nn P) + 1 < length p \/ length p + nn P < j).
    { destruct (Nat.lt_ge_cases (j + nn P + 1) (length p)) as [H|H]; [left; exact H|].
      destruct (Nat.lt_ge_cases (length p + nn P) j) as [H'|H']; [right; exact H'|].
      exfalso. apply Hnw. unfold L1D.get_intervals. rewrite Hix.
      generalize (length (insert x l)) Hlen. intros len0 Hlen0. rewrite E'.
      apply slice_has; fold j.
      - lia.
      - apply Nat.min_glb; [exact Hlen0|lia]. }
    assert (Hll : length (insert x l) = S (length l)).
    { rewrite Ei, El, !app_length. cbn [length]. lia. }
    unfold nbhd. apply map_ext_in. intros k Hk. apply in_seq in Hk.
    destruct Hout as [HA|HB].
    - (* a lies in p, far left of x *)
      assert (Hjl : nth_error l j = Some a).
      { rewrite El, nth_error_app1 by lia. rewrite Ei, nth_error_app1 in Hja by lia. exact Hja. }
      assert (Hi0 : index_of a l = j) by (apply index_of_nth; [apply sorted_NoDup; exact Hs|exact Hjl]).
      rewrite Hi1, Hi0. unfold L1D.point_at. destruct (j + k <? nn P) eqn:E; [reflexivity|].
      apply Nat.ltb_ge in E. rewrite Ei, El, !nth_error_app1 by lia. reflexivity.
    - (* a lies in q, far right of x *)
      assert (Hjl : nth_error l (j - 1) = Some a).
      { replace (j - 1) with (length p + (j - length p - 1)) by lia. rewrite El.
        rewrite <- (nth_error_insert_right p q x). rewrite <- Ei.
        replace (length p + 1 + (j - length p - 1)) with j by lia. exact Hja. }
      assert (Hi0 : index_of a l = j - 1) by (apply index_of_nth; [apply sorted_NoDup; exact Hs|exact Hjl]).
      rewrite Hi1, Hi0. unfold L1D.point_at.
      assert (E1 : j + k <? nn P = false) by (apply Nat.ltb_ge; lia).
      assert (E2 : j - 1 + k <? nn P = false) by (apply Nat.ltb_ge; lia).
      rewrite E1, E2.
      replace (j + k - nn P) with (length p + 1 + (j + k - nn P - length p - 1)) by lia.
      replace (j - 1 + k - nn P) with (length p + (j + k - nn P - length p - 1)) by lia.
      rewrite Ei, El. apply nth_error_insert_right.
  Qed.

  (* ---------------- values through update_interp / update_losses ---------------- *)
  Notation update_interp := (@update_interp num sub mul div ltb eqb zero one L P).
  Notation update_losses := (@update_losses num sub mul div ltb eqb zero one inf L P).
  Notation update_scale := (@update_scale num sub ltb zero inf neg_inf is_nan).
  Notation sweep := (@sweep num sub mul div ltb eqb zero one is_nan is_inf round12 L P).
  Notation tell := (@tell num sub mul div ltb eqb zero one inf neg_inf is_nan is_inf round12 L P).
  Notation tell_pending := (@tell_pending num sub mul div ltb eqb zero one inf L P).
  Notation find_neighbors := (@find_neighbors num ltb).
  Notation lpop_opt := (@lpop_opt num eqb).
  Notation ksorted := (@ksorted num ltb eqb).
  Notation okey := (@okey num).

  Lemma fold_interp_other ivs : forall (s : st) (iv : ival), ~ In iv ivs ->
    lget iv (los (fold_left update_interp ivs s)) = lget iv (los s).
  Proof.
    induction ivs as [|i1 ivs IH]; intros s iv Hn; cbn [fold_left]; [reflexivity|].
    rewrite IH; [|intros H; apply Hn; right; exact H].
    destruct i1 as [p q]. cbn [L1D.update_interp L1D.with_los los].
    rewrite (lget_lset OL). destruct (L1D.ival_eqb eqb iv (p, q)) eqn:E; [|reflexivity].
    apply (ival_eqb_eq OL) in E. exfalso. apply Hn. left. symmetry; exact E.
  Qed.

  Lemma fold_interp_scalars ivs : forall (s : st),
    let s' := fold_left update_interp ivs s in
    bbx s' = bbx s /\ bby s' = bby s /\ sx s' = sx s /\ sy s' = sy s /\ osy s' = osy s /\ mgrx s' = mgrx s.
  Proof.
    induction ivs as [|[p q] ivs IH]; intros s; cbn [fold_left]; [cbn; tauto|].
    specialize (IH (update_interp s (p, q))). cbn zeta in *. destruct IH as [H1 [H2 [H3 [H4 [H5 H6]]]]].
    rewrite H1, H2, H3, H4, H5, H6. cbn. tauto.
  Qed.

  Lemma update_losses_true_values (s : st) x : ksorted (los s) ->
    let xl := fst (find_neighbors x (nb s)) in
    let xr := snd (find_neighbors x (nb s)) in
    let s' := update_losses s x true in
    (sx s' = sx s /\ sy s' = sy s /\ osy s' = osy s /\ bbx s' = bbx s) /\
    (forall iv, ~ okey xl xr iv -> In iv (get_intervals x (nb s)) ->
        lget iv (los s') = Some (get_loss s (fst iv) (snd iv))) /\
    (forall iv, ~ okey xl xr iv -> ~ In iv (get_intervals x (nb s)) ->
        lget iv (los s') = lget iv (los s)).
  Proof.
    intros Hkl. unfold L1D.update_losses.
    destruct (find_neighbors x (nb s)) as [xl xr]. destruct (find_neighbors x (nbc s)) as [a b].
    cbn [fst snd]. cbn zeta.
    set (s1 := L1D.with_los s (los s) (lpop_opt a b (losc s))).
    change (nb s1) with (nb s).
    set (ivs := get_intervals x (nb s)).
    destruct (fold_interp_scalars ivs s1) as [S1 [S2 [S3 [S4 [S5 S6]]]]].
    destruct (fold_interp add sub mul div zero one is_nan is_inf round12 L P OL ivs s1) as [_ [_ [_ [_ [_ [_ [K7 _]]]]]]].
    specialize (K7 Hkl).
    set (s2 := fold_left update_interp ivs s1) in *.
    assert (Hval : forall iv, ~ okey xl xr iv ->
              lget iv (lpop_opt xl xr (los s2)) = lget iv (los s2)).
    { intros iv Hne. unfold L1D.lpop_opt. destruct xl as [l|], xr as [r|]; try reflexivity.
      rewrite (lget_lpop OL (l, r) iv K7). destruct (L1D.ival_eqb eqb iv (l, r)) eqn:E; [|reflexivity].
      apply (ival_eqb_eq OL) in E. exfalso. apply Hne. cbn. exact E. }
    assert (Hscal : forall t : st, sx t = sx s2 -> sy t = sy s2 -> osy t = osy s2 -> bbx t = bbx s2 ->
              sx t = sx s /\ sy t = sy s /\ osy t = osy s /\ bbx t = bbx s).
    { intros t E1 E2 E3 E4. rewrite E1, E2, E3, E4, S3, S4, S5, S1. cbn. tauto. }
    destruct xl as [l|], xr as [r|]; cbn [negb andb L1D.with_los los sx sy osy bbx];
      (split; [apply Hscal; reflexivity|]); split; intros iv Hne Hin; rewrite (Hval iv Hne).
    all: try (destruct (fold_interp_values sub mul div zero one L P OL ivs s1 iv Hin) as [H _]; fold s2 in H; rewrite H; reflexivity).
    all: unfold s2; rewrite (fold_interp_other ivs s1 iv Hin); reflexivity.
  Qed.

  (* ---------------- the values invariant ---------------- *)
  Notation keys := (@keys num).
  Notation SInv := (@SInv num ltb eqb).
  Notation in_bounds := (L1D.in_bounds ltb eqb P).

  Definition ScaleOK (s : st) (g : num) : Prop :=
    g = osy s \/ ltb (mul (factor P) (osy s)) g = false.

  Record VInv (s : st) : Prop := {
    v_box : bbx s = (lo P, hi P);
    v_sx : sx s = sub (hi P) (lo P);
    v_vals : forall iv, In iv (keys (los s)) -> exists g, ScaleOK s g /\
               lget iv (los s) = Some (loss_of (nb s) (data s) (sx s) g (fst iv) (snd iv))
  }.

  Lemma vinv_init : VInv (@init num sub zero inf neg_inf P).
  Proof. constructor; cbn; [reflexivity|reflexivity|intros iv []]. Qed.

  Lemma update_scale_box (s : st) x (y : Y num) : bbx s = (lo P, hi P) -> in_bounds x = true ->
    bbx (update_scale s x y) = (lo P, hi P) /\ sx (update_scale s x y) = sub (hi P) (lo P) /\
    osy (update_scale s x y) = osy s.
  Proof.
    intros Hb Hx. unfold L1D.in_bounds in Hx. apply andb_true_iff in Hx as [H1 H2].
    apply (leb_spec add sub mul div zero is_nan is_inf round12 OL) in H1, H2.
    assert (E1 : L1D.pmin ltb (lo P) x = lo P).
    { unfold L1D.pmin. destruct (ltb x (lo P)) eqn:E; [|reflexivity]. exfalso.
      destruct H1 as [H1|H1]; [exact (lt_asym OL H1 E)|subst; exact (lt_irrefl OL E)]. }
    assert (E2 : L1D.pmax ltb (hi P) x = hi P).
    { unfold L1D.pmax. destruct (ltb (hi P) x) eqn:E; [|reflexivity]. exfalso.
      destruct H2 as [H2|H2]; [exact (lt_asym OL H2 E)|subst; exact (lt_irrefl OL E)]. }
    unfold L1D.update_scale. rewrite Hb. cbn [fst snd]. rewrite E1, E2.
    destruct y as [v|vs]; [cbn; tauto|]. destruct (bby s) as [[m1|m1] [m2|m2]]; cbn; tauto.
  Qed.

  Lemma nbhd_In l a z : In (Some z) (nbhd l a) -> In z l.
  Proof.
    unfold nbhd. intros H. apply in_map_iff in H as [k [Hk _]]. unfold L1D.point_at in Hk.
    destruct (_ <? _); [discriminate|]. eapply nth_error_In; eauto.
  Qed.

  Lemma loss_of_frame l x (y : Y num) d sxv g a b : sorted l -> ~ In x l ->
    adj (insert x l) (a, b) -> a <> x -> b <> x ->
    ~ In (a, b) (get_intervals x (insert x l)) ->
    loss_of (insert x l) (dset x y d) sxv g a b = loss_of l d sxv g a b.
  Proof.
    intros Hs Hn Hadj Hax Hbx Hnw. unfold loss_of.
    rewrite (nbhd_insert_frame Hs Hn Hadj Hax Hbx Hnw).
    destruct (ltb (sub b a) (dx_eps P)); [reflexivity|]. f_equal. f_equal.
    apply map_ext_in. intros [z|] Hz; [|reflexivity].
    rewrite (dget_dset OL). destruct (eqb z x) eqn:E; [|reflexivity].
    apply (eqb_eq OL) in E. subst z. exfalso. apply Hn. eapply nbhd_In; eauto.
  Qed.

  Lemma sweep_facts (s : st) :
    (forall iv, In iv (keys (los (sweep s))) <-> In iv (keys (los s))) /\
    nb (sweep s) = nb s /\ data (sweep s) = data s /\ sx (sweep s) = sx s /\ sy (sweep s) = sy s /\
    bbx (sweep s) = bbx s.
  Proof.
    unfold L1D.sweep. set (order := rev (map fst (sort_by _ (los s)))).
    assert (Hord : forall k, In k order -> In k (keys (los s))).
    { intros k Hk. unfold order in Hk. apply in_rev in Hk. apply in_map_iff in Hk as [e [<- He]].
      apply sort_by_In in He. unfold L1DMaps.keys. apply in_map. exact He. }
    destruct (fold_interp add sub mul div zero one is_nan is_inf round12 L P OL order s)
      as [H1 [H2 [H3 [H4 [H5 _]]]]].
    destruct (fold_interp_scalars order s) as [S1 [S2 [S3 [S4 _]]]].
    repeat split; auto.
    - intros H. apply H5 in H as [H|H]; auto.
    - intros H. apply H5. right; exact H.
  Qed.

  Lemma tell_vinv (s : st) x (y : Y num) : SInv s -> VInv s -> in_bounds x = true -> VInv (tell s x y).
  Proof.
    intros HI HV Hb. unfold L1D.tell. destruct (dget x (data s)) as [v|] eqn:Hd; [exact HV|].
    rewrite Hb. cbn [negb].
    set (s1 := L1D.mk (data _) (pend _) (insert x (nb _)) (insert x (nbc _)) (los _) (losc _)
                      (bbx _) (bby _) (sx _) (sy _) (osy _) (mgrx _)).
    cbn [data pend nb nbc los losc bbx bby sx sy osy mgrx] in s1.
    set (s2 := update_scale s1 x y).
    destruct (update_scale_frame add sub mul div ltb zero inf neg_inf is_nan is_inf round12 s1 x y)
      as [U1 [U2 [U3 [U4 [U5 U6]]]]]. fold s2 in U1, U2, U3, U4, U5, U6.
    destruct (@update_scale_box s1 x y (v_box HV) Hb) as [B1 [B2 B3]]. fold s2 in B1, B2, B3.
    assert (Hxnb : ~ In x (nb s)) by (intros Hin; apply (s_real HI) in Hin; congruence).
    assert (Hkl : ksorted (los s2)) by (rewrite U5; exact (s_los_sorted HI)).
    assert (Hkc : ksorted (losc s2)) by (rewrite U6; exact (s_losc_sorted HI)).
    pose proof (@update_losses_true num add sub mul div ltb eqb zero one inf is_nan is_inf round12 L P OL s2 x Hkl Hkc) as HU.
    cbn zeta in HU. destruct HU as [V1 [V2 [V3 [V4 [V5 [V6 [V7 V8]]]]]]].
    pose proof (@update_losses_true_values s2 x Hkl) as HW. cbn zeta in HW.
    destruct HW as [[W1 [W2 [W3 W4]]] [Wa Wb]].
    assert (Hnb1 : sorted (nb s2)) by (rewrite U3; apply (insert_sorted OL), (s_nb HI)).
    destruct (find_neighbors_spec OL x Hnb1) as [Hl1 Hr1].
    set (s3 := update_losses s2 x true) in *.
    set (xl := fst (find_neighbors x (nb s2))) in *. set (xr := snd (find_neighbors x (nb s2))) in *.
    rewrite U3 in Hl1, Hr1. cbn [nb s1] in Hl1, Hr1.
    pose proof (is_left_insert_inv OL _ _ _ Hl1) as Hl0. pose proof (is_right_insert_inv OL _ _ _ Hr1) as Hr0.
    (* values after update_losses, allowing the current scale *)
    assert (HV3 : forall iv, In iv (keys (los s3)) -> exists g,
              (g = sy s3 \/ ScaleOK s3 g) /\
              lget iv (los s3) = Some (loss_of (nb s3) (data s3) (sx s3) g (fst iv) (snd iv))).
    { intros iv Hk. apply V7 in Hk as [Hk Hne].
      destruct (In_dec_ival OL iv (get_intervals x (nb s2))) as [Hin|Hnin].
      - exists (sy s3). split; [left; reflexivity|]. rewrite (Wa iv Hne Hin), get_loss_loss_of.
        rewrite V3, V1, W1, W2. reflexivity.
      - destruct Hk as [Hk|Hk]; [contradiction|]. rewrite U5 in Hk. cbn [los s1] in Hk.
        destruct (v_vals HV iv Hk) as [g [Hg Hv]]. exists g. split.
        + right. unfold ScaleOK in *. rewrite W3, B3. exact Hg.
        + rewrite (Wb iv Hne Hnin), U5. cbn [los s1]. rewrite Hv. f_equal.
          rewrite V3, V1, W1, U3, U1, B2, (v_sx HV). cbn [nb data s1].
          destruct iv as [a b]; cbn [fst snd].
          pose proof (proj1 (s_los_keys HI (a, b)) Hk) as Hadj0.
          symmetry. apply loss_of_frame; [exact (s_nb HI)|exact Hxnb| | | |].
          * apply (@adj_insert_gen _ _ _ OL (nb s) x _ _ (a, b) (s_nb HI) Hl0 Hr0). left. split; [exact Hadj0|].
            intros Hok. apply Hne. apply (okey_spec add sub mul div zero is_nan is_inf round12). exact Hok.
          * intros ->. apply Hxnb. apply Hadj0.
          * intros ->. apply Hxnb. apply Hadj0.
          * rewrite U3 in Hnin. exact Hnin. }
    assert (HB3 : bbx s3 = (lo P, hi P) /\ sx s3 = sub (hi P) (lo P)).
    { rewrite W4, W1. split; assumption. }
    destruct (ltb (mul (factor P) (osy s3)) (sy s3)) eqn:Esw.
    - (* full recomputation *)
      destruct (sweep_facts s3) as [Hkeys [N1 [N2 [N3 [N4 N5]]]]].
      constructor; cbn [bbx sx los nb data osy].
      + rewrite N5. tauto.
      + rewrite N3. tauto.
      + intros iv Hk. exists (sy (sweep s3)). split; [left; reflexivity|].
        apply Hkeys in Hk.
        rewrite (sweep_resets_all sub mul div zero one is_nan is_inf round12 L P OL s3 iv Hk).
        rewrite get_loss_loss_of. reflexivity.
    - constructor; [tauto|tauto|]. intros iv Hk. destruct (HV3 iv Hk) as [g [[->|Hg] Hv]].
      + exists (sy s3). split; [right; exact Esw|exact Hv].
      + exists g. split; [exact Hg|exact Hv].
  Qed.

  Lemma vinv_fields (s s' : st) :
    nb s' = nb s -> data s' = data s -> los s' = los s -> sx s' = sx s -> osy s' = osy s ->
    bbx s' = bbx s -> VInv s -> VInv s'.
  Proof.
    intros E1 E2 E3 E4 E5 E6 [H1 H2 H3]. constructor; unfold ScaleOK; rewrite ?E1, ?E2, ?E3, ?E4, ?E5, ?E6; assumption.
  Qed.

  Lemma update_losses_false_scalars (s : st) x :
    let s' := update_losses s x false in
    sx s' = sx s /\ osy s' = osy s /\ bbx s' = bbx s.
  Proof.
    unfold L1D.update_losses.
    destruct (find_neighbors x (nb s)) as [xl xr]. destruct (find_neighbors x (nbc s)) as [a b].
    destruct xl as [l|], xr as [r|]; cbn [negb andb];
      try destruct (lget (l, r) _); cbn; tauto.
  Qed.

  Lemma tell_pending_vinv (s : st) x : VInv s -> VInv (tell_pending s x).
  Proof.
    intros HV. unfold L1D.tell_pending. destruct (dget x (data s)); [exact HV|].
    set (s1 := L1D.mk _ _ _ _ _ _ _ _ _ _ _ _).
    destruct (update_losses_false_frame add sub mul div ltb eqb zero one inf is_nan is_inf round12 L P s1 x)
      as [F1 [F2 [F3 [F4 F5]]]].
    destruct (update_losses_false_scalars s1 x) as [G1 [G2 G3]].
    eapply vinv_fields; [..|exact HV]; [rewrite F3|rewrite F1|rewrite F5|rewrite G1|rewrite G2|rewrite G3]; reflexivity.
  Qed.

  Lemma fold_tell_pending_vinv pts : forall (s : st), VInv s -> VInv (fold_left tell_pending pts s).
  Proof.
    induction pts as [|p pts IH]; intros s HV; cbn [fold_left]; [exact HV|].
    apply IH, tell_pending_vinv, HV.
  Qed.

  Notation step := (@step num add sub mul div ltb eqb zero one inf neg_inf is_nan is_inf round12 of_nat L P).
  Notation run := (@run num add sub mul div ltb eqb zero one inf neg_inf is_nan is_inf round12 of_nat L P).
  Notation legal := (@legal num add sub mul div ltb eqb zero one inf neg_inf is_nan is_inf round12 of_nat L P).
  Notation legal_op := (@legal_op num ltb eqb P).

  Lemma step_inv (s : st) o : SInv s /\ VInv s -> legal_op s o = true -> SInv (fst (step s o)) /\ VInv (fst (step s o)).
  Proof.
    intros [HI HV] Hl. split; [apply (step_sinv add sub mul div zero one inf neg_inf is_nan is_inf round12 of_nat L P OL); assumption|].
    destruct o as [x y|x|xys force| |n c]; cbn [L1D.step fst L1DStruct.legal_op] in *.
    - apply tell_vinv; assumption.
    - apply tell_pending_vinv; exact HV.
    - apply andb_true_iff in Hl as [Hl Hb]. unfold L1D.tell_many. rewrite Hl.
      clear Hl. revert s HI HV. induction xys as [|xy xys IH]; intros s HI HV; cbn [fold_left]; [exact HV|].
      cbn [forallb] in Hb. apply andb_true_iff in Hb as [Hb1 Hb2].
      apply IH; [exact Hb2| |apply tell_vinv; assumption].
      apply (tell_sinv add sub mul div zero one inf neg_inf is_nan is_inf round12 L P OL); assumption.
    - eapply vinv_fields; [..|exact HV]; reflexivity.
    - unfold L1D.ask. cbn [fst]. destruct c; [|exact HV]. apply fold_tell_pending_vinv. exact HV.
  Qed.

  Theorem values_inv h : forall (s : st), SInv s /\ VInv s -> legal s h = true -> SInv (run s h) /\ VInv (run s h).
  Proof.
    induction h as [|o h IH]; intros s HIV Hl; [exact HIV|].
    change (run s (o :: h)) with (run (fst (step s o)) h).
    cbn [L1DStruct.legal] in Hl. apply andb_true_iff in Hl as [Hl1 Hl2].
    apply IH; [apply step_inv; assumption|exact Hl2].
  Qed.


  (* ---------------- the generic form of [tell_vinv] ----------------
     The same argument with an arbitrary predicate [G] on the y-scales at which
     the stored losses were computed; used by Proofs/L1DBracket.v to track the
     bounding box behind every scale. *)
  Lemma update_scale_reads (s t : st) x (y : Y num) :
    bbx s = bbx t -> bby s = bby t -> osy s = osy t ->
    bby (update_scale s x y) = bby (update_scale t x y) /\
    sy (update_scale s x y) = sy (update_scale t x y) /\
    osy (update_scale s x y) = osy (update_scale t x y).
  Proof.
    intros E1 E2 E3. unfold L1D.update_scale. rewrite E1, E2, E3.
    destruct y as [v|vs]; [cbn; tauto|]. destruct (bby t) as [[m1|m1] [m2|m2]]; cbn; tauto.
  Qed.

  Lemma update_losses_bby (s : st) x r : bby (update_losses s x r) = bby s.
  Proof.
    unfold L1D.update_losses.
    destruct (find_neighbors x (nb s)) as [xl xr]. destruct (find_neighbors x (nbc s)) as [a b].
    set (s1 := L1D.with_los s (los s) (lpop_opt a b (losc s))).
    destruct r.
    - destruct (fold_interp_scalars (get_intervals x (nb s1)) s1) as [_ [S2 _]]. cbn zeta in S2.
      destruct xl as [l|], xr as [r|]; cbn [negb andb L1D.with_los bby]; rewrite S2; reflexivity.
    - destruct xl as [l|], xr as [r|]; cbn [negb andb];
        try destruct (lget (l, r) _); reflexivity.
  Qed.

  Lemma sweep_bby (s : st) : bby (sweep s) = bby s.
  Proof.
    unfold L1D.sweep. set (order := rev _).
    destruct (fold_interp_scalars order s) as [_ [S2 _]]. exact S2.
  Qed.

  Lemma tell_values_gen (G : num -> Prop) (s : st) x (y : Y num) :
    SInv s -> bbx s = (lo P, hi P) -> sx s = sub (hi P) (lo P) -> in_bounds x = true ->
    dget x (data s) = None ->
    (forall iv, In iv (keys (los s)) -> exists g, G g /\
        lget iv (los s) = Some (loss_of (nb s) (data s) (sx s) g (fst iv) (snd iv))) ->
    let s2 := update_scale s x y in
    let s' := tell s x y in
    bby s' = bby s2 /\ sy s' = sy s2 /\ data s' = dset x y (data s) /\
    (if ltb (mul (factor P) (osy s)) (sy s2)
     then osy s' = sy s2 /\ forall iv, In iv (keys (los s')) ->
            lget iv (los s') = Some (loss_of (nb s') (data s') (sx s') (sy s2) (fst iv) (snd iv))
     else osy s' = osy s /\ forall iv, In iv (keys (los s')) -> exists g, (g = sy s2 \/ G g) /\
            lget iv (los s') = Some (loss_of (nb s') (data s') (sx s') g (fst iv) (snd iv))).
  Proof.
    intros HI Hbox Hsx Hb Hd HG. cbn zeta. unfold L1D.tell. rewrite Hd, Hb. cbn [negb].
    set (s1 := L1D.mk (data _) (pend _) (insert x (nb _)) (insert x (nbc _)) (los _) (losc _)
                      (bbx _) (bby _) (sx _) (sy _) (osy _) (mgrx _)).
    cbn [data pend nb nbc los losc bbx bby sx sy osy mgrx] in s1.
    destruct (@update_scale_reads s1 s x y eq_refl eq_refl eq_refl) as [R1 [R2 R3]].
    rewrite <- R1, <- R2.
    set (s2 := update_scale s1 x y) in *.
    destruct (update_scale_frame add sub mul div ltb zero inf neg_inf is_nan is_inf round12 s1 x y)
      as [U1 [U2 [U3 [U4 [U5 U6]]]]]. fold s2 in U1, U2, U3, U4, U5, U6.
    destruct (@update_scale_box s1 x y Hbox Hb) as [B1 [B2 B3]]. fold s2 in B1, B2, B3.
    assert (Hxnb : ~ In x (nb s)) by (intros Hin; apply (s_real HI) in Hin; congruence).
    assert (Hkl : ksorted (los s2)) by (rewrite U5; exact (s_los_sorted HI)).
    assert (Hkc : ksorted (losc s2)) by (rewrite U6; exact (s_losc_sorted HI)).
    pose proof (@update_losses_true num add sub mul div ltb eqb zero one inf is_nan is_inf round12 L P OL s2 x Hkl Hkc) as HU.
    cbn zeta in HU. destruct HU as [V1 [V2 [V3 [V4 [V5 [V6 [V7 V8]]]]]]].
    pose proof (@update_losses_true_values s2 x Hkl) as HW. cbn zeta in HW.
    destruct HW as [[W1 [W2 [W3 W4]]] [Wa Wb]].
    pose proof (update_losses_bby s2 x true) as Wy.
    assert (Hnb1 : sorted (nb s2)) by (rewrite U3; apply (insert_sorted OL), (s_nb HI)).
    destruct (find_neighbors_spec OL x Hnb1) as [Hl1 Hr1].
    set (s3 := update_losses s2 x true) in *.
    set (xl := fst (find_neighbors x (nb s2))) in *. set (xr := snd (find_neighbors x (nb s2))) in *.
    rewrite U3 in Hl1, Hr1. cbn [nb s1] in Hl1, Hr1.
    pose proof (is_left_insert_inv OL _ _ _ Hl1) as Hl0. pose proof (is_right_insert_inv OL _ _ _ Hr1) as Hr0.
    assert (HV3 : forall iv, In iv (keys (los s3)) -> exists g,
              (g = sy s2 \/ G g) /\
              lget iv (los s3) = Some (loss_of (nb s3) (data s3) (sx s3) g (fst iv) (snd iv))).
    { intros iv Hk. apply V7 in Hk as [Hk Hne].
      destruct (In_dec_ival OL iv (get_intervals x (nb s2))) as [Hin|Hnin].
      - exists (sy s2). split; [left; reflexivity|]. rewrite (Wa iv Hne Hin), get_loss_loss_of.
        rewrite V3, V1, W1. reflexivity.
      - destruct Hk as [Hk|Hk]; [contradiction|]. rewrite U5 in Hk. cbn [los s1] in Hk.
        destruct (HG iv Hk) as [g [Hg Hv]]. exists g. split; [right; exact Hg|].
        rewrite (Wb iv Hne Hnin), U5. cbn [los s1]. rewrite Hv. f_equal.
        rewrite V3, V1, W1, U3, U1, B2, Hsx. cbn [nb data s1].
        destruct iv as [a b]; cbn [fst snd].
        pose proof (proj1 (s_los_keys HI (a, b)) Hk) as Hadj0.
        symmetry. apply loss_of_frame; [exact (s_nb HI)|exact Hxnb| | | |].
        + apply (@adj_insert_gen _ _ _ OL (nb s) x _ _ (a, b) (s_nb HI) Hl0 Hr0). left. split; [exact Hadj0|].
          intros Hok. apply Hne. apply (okey_spec add sub mul div zero is_nan is_inf round12). exact Hok.
        + intros ->. apply Hxnb. apply Hadj0.
        + intros ->. apply Hxnb. apply Hadj0.
        + rewrite U3 in Hnin. exact Hnin. }
    assert (Ho3 : osy s3 = osy s) by (rewrite W3, B3; reflexivity).
    assert (Hd3 : data s3 = dset x y (data s)) by (rewrite V1, U1; reflexivity).
    rewrite Ho3, W2.
    destruct (ltb (mul (factor P) (osy s)) (sy s2)) eqn:Esw.
    - destruct (sweep_facts s3) as [Hkeys [N1 [N2 [N3 [N4 N5]]]]].
      cbn [bby sy data osy los nb sx].
      rewrite sweep_bby, N4, N2, Wy, W2, Hd3. repeat split.
      intros iv Hk. apply Hkeys in Hk.
      rewrite (sweep_resets_all sub mul div zero one is_nan is_inf round12 L P OL s3 iv Hk).
      rewrite get_loss_loss_of. rewrite N2, N4, W2, Hd3. reflexivity.
    - split; [exact Wy|]. split; [exact W2|]. split; [exact Hd3|]. split; [exact Ho3|exact HV3].
  Qed.


  (* ---------------- the scale bracket (scalar outputs) ----------------
     Behind every y-scale at which a stored loss was computed there is a
     bounding box of the values: it lies between the box of the last full
     recomputation and the current box.  Pure order reasoning; the numeric
     reading (osy <= g <= sy) needs monotonicity of [sub] and is drawn in
     Proofs/L1DBracket.v. *)
  Definition le (a b : num) : Prop := ltb b a = false.

  Lemma le_refl a : le a a.
  Proof. unfold le. destruct (ltb a a) eqn:E; [exfalso; exact (lt_irrefl OL E)|reflexivity]. Qed.

  Lemma le_trans a b c : le a b -> le b c -> le a c.
  Proof.
    unfold le. intros H1 H2. destruct (ltb c a) eqn:E; [|reflexivity]. exfalso.
    destruct (trichotomy OL a b) as [H|[H|H]].
    - assert (Hcb : lt c b) by (eapply (lt_trans OL); eauto). unfold L1DOrder.lt in Hcb. congruence.
    - subst. congruence.
    - unfold L1DOrder.lt in H. congruence.
  Qed.

  Lemma pmin_le_l a b : le (L1D.pmin ltb a b) a.
  Proof.
    unfold L1D.pmin, le. destruct (ltb b a) eqn:E; [|apply le_refl].
    destruct (ltb a b) eqn:E2; [exfalso; exact (lt_asym OL E E2)|reflexivity].
  Qed.
  Lemma pmin_le_r a b : le (L1D.pmin ltb a b) b.
  Proof. unfold L1D.pmin, le. destruct (ltb b a) eqn:E; [apply le_refl|exact E]. Qed.
  Lemma pmax_ge_l a b : le a (L1D.pmax ltb a b).
  Proof.
    unfold L1D.pmax, le. destruct (ltb a b) eqn:E; [|apply le_refl].
    destruct (ltb b a) eqn:E2; [exfalso; exact (lt_asym OL E E2)|reflexivity].
  Qed.
  Lemma pmax_ge_r a b : le b (L1D.pmax ltb a b).
  Proof. unfold L1D.pmax, le. destruct (ltb a b) eqn:E; [apply le_refl|exact E]. Qed.

  Definition DScal (d : list (num * Y num)) : Prop := forall x y, In (x, y) d -> exists v, y = YS v.

  Lemma dset_In_inv x (y : Y num) d z w : In (z, w) (dset x y d) -> (z, w) = (x, y) \/ In (z, w) d.
  Proof.
    induction d as [|[c yc] d IH]; cbn [L1D.dset]; [intros [H|[]]; left; symmetry; exact H|].
    destruct (ltb x c); [intros [H|H]; [left; symmetry; exact H|right; exact H]|].
    destruct (eqb x c).
    - intros [H|H]; [left; symmetry; exact H|right; right; exact H].
    - intros [H|H]; [right; left; exact H|]. apply IH in H as [H|H]; [left; exact H|right; right; exact H].
  Qed.

  Lemma dscal_dset x v d : DScal d -> DScal (dset x (YS v) d).
  Proof.
    intros HD z w Hin. apply dset_In_inv in Hin as [H|H]; [inversion H; eauto|eapply HD; eauto].
  Qed.

  Lemma dset_nonempty x (y : Y num) d : dset x y d <> [].
  Proof. destruct d as [|[c yc] d]; cbn [L1D.dset]; [discriminate|]. destruct (ltb x c); [discriminate|]. destruct (eqb x c); discriminate. Qed.

  Definition Nest (ob : option (num * num)) (m0 m1 : num) : Prop :=
    match ob with Some (o0, o1) => le m0 o0 /\ le o1 m1 | None => le m0 m1 end.

  (* b0 b1: the current box; ob: the box of the last full recomputation *)
  Definition BInvAt (s : st) (b0 b1 : num) (ob : option (num * num)) : Prop :=
    bby s = (YS b0, YS b1) /\
    DScal (data s) /\
    (data s = [] \/ sy s = sub b1 b0) /\
    match ob with Some (o0, o1) => osy s = sub o1 o0 /\ le b0 o0 /\ le o1 b1 | None => osy s = zero end /\
    ScaleOK s (sy s) /\
    forall iv, In iv (keys (los s)) -> exists m0 m1,
      le b0 m0 /\ le m1 b1 /\ Nest ob m0 m1 /\
      lget iv (los s) = Some (loss_of (nb s) (data s) (sx s) (sub m1 m0) (fst iv) (snd iv)).

  Definition BInv (s : st) : Prop := exists b0 b1 ob, BInvAt s b0 b1 ob.

  Lemma binv_init : BInv (@init num sub zero inf neg_inf P).
  Proof.
    exists inf, neg_inf, None. unfold BInvAt. cbn. repeat split; auto.
    - intros x y [].
    - left; reflexivity.
    - intros iv [].
  Qed.

  Lemma binv_fields (s s' : st) :
    nb s' = nb s -> data s' = data s -> los s' = los s -> sx s' = sx s -> sy s' = sy s -> osy s' = osy s ->
    bby s' = bby s -> BInv s -> BInv s'.
  Proof.
    intros E1 E2 E3 E4 E5 E6 E7 [b0 [b1 [ob H]]]. exists b0, b1, ob. unfold BInvAt, ScaleOK in *.
    rewrite E1, E2, E3, E4, E5, E6, E7. exact H.
  Qed.

  Lemma update_scale_scalar (s : st) x v b0 b1 : bby s = (YS b0, YS b1) ->
    bby (update_scale s x (YS v)) = (YS (L1D.pmin ltb b0 v), YS (L1D.pmax ltb b1 v)) /\
    sy (update_scale s x (YS v)) = sub (L1D.pmax ltb b1 v) (L1D.pmin ltb b0 v).
  Proof. intros H. unfold L1D.update_scale. rewrite H. cbn. split; reflexivity. Qed.

  Lemma tell_binv (s : st) x v : SInv s -> VInv s -> in_bounds x = true -> BInv s -> BInv (tell s x (YS v)).
  Proof.
    intros HI HV Hb [b0 [b1 [ob [Hby [Hds [Hsy [Hob [Hsc Hvals]]]]]]]].
    destruct (dget x (data s)) as [w|] eqn:Hd.
    { unfold L1D.tell. rewrite Hd. exists b0, b1, ob. repeat split; assumption. }
    set (G := fun g => exists m0 m1, le b0 m0 /\ le m1 b1 /\ Nest ob m0 m1 /\ g = sub m1 m0).
    assert (HG : forall iv, In iv (keys (los s)) -> exists g, G g /\
              lget iv (los s) = Some (loss_of (nb s) (data s) (sx s) g (fst iv) (snd iv))).
    { intros iv Hk. destruct (Hvals iv Hk) as [m0 [m1 [H1 [H2 [H3 H4]]]]].
      exists (sub m1 m0). split; [exists m0, m1; auto|exact H4]. }
    pose proof (@tell_values_gen G s x (YS v) HI (v_box HV) (v_sx HV) Hb Hd HG) as HT. cbn zeta in HT.
    destruct (@update_scale_scalar s x v b0 b1 Hby) as [Eby Esy].
    set (c0 := L1D.pmin ltb b0 v) in *. set (c1 := L1D.pmax ltb b1 v) in *.
    assert (Hc0 : le c0 b0) by apply pmin_le_l. assert (Hc1 : le b1 c1) by apply pmax_ge_l.
    assert (Hc01 : le c0 c1) by (eapply le_trans; [apply pmin_le_r|apply pmax_ge_r]).
    destruct HT as [T1 [T2 [T3 T4]]]. rewrite Eby in T1. rewrite Esy in T2, T4.
    set (s' := tell s x (YS v)) in *.
    destruct (ltb (mul (factor P) (osy s)) (sub c1 c0)) eqn:Esw.
    - destruct T4 as [T4 T5]. exists c0, c1, (Some (c0, c1)). unfold BInvAt.
      split; [exact T1|]. split; [rewrite T3; apply dscal_dset; exact Hds|].
      split; [right; exact T2|]. split; [split; [exact T4|split; apply le_refl]|].
      split; [left; rewrite T2, T4; reflexivity|].
      intros iv Hk. exists c0, c1. split; [apply le_refl|]. split; [apply le_refl|].
      split; [split; apply le_refl|]. exact (T5 iv Hk).
    - destruct T4 as [T4 T5]. exists c0, c1, ob. unfold BInvAt.
      split; [exact T1|]. split; [rewrite T3; apply dscal_dset; exact Hds|].
      split; [right; exact T2|]. split.
      { destruct ob as [[o0 o1]|].
        - destruct Hob as [O1 [O2 O3]]. split; [rewrite T4; exact O1|].
          split; [exact (le_trans Hc0 O2)|exact (le_trans O3 Hc1)].
        - rewrite T4. exact Hob. }
      split; [right; rewrite T2, T4; exact Esw|].
      intros iv Hk. destruct (T5 iv Hk) as [g [[->|[m0 [m1 [H1 [H2 [H3 ->]]]]]] Hv]].
      + exists c0, c1. split; [apply le_refl|]. split; [apply le_refl|]. split; [|exact Hv].
        destruct ob as [[o0 o1]|]; cbn [Nest]; [|exact Hc01].
        destruct Hob as [_ [O2 O3]]. split; [exact (le_trans Hc0 O2)|exact (le_trans O3 Hc1)].
      + exists m0, m1. split; [exact (le_trans Hc0 H1)|]. split; [exact (le_trans H2 Hc1)|]. split; [exact H3|exact Hv].
  Qed.

  Lemma update_losses_sy (s : st) x r : sy (update_losses s x r) = sy s.
  Proof.
    unfold L1D.update_losses.
    destruct (find_neighbors x (nb s)) as [xl xr]. destruct (find_neighbors x (nbc s)) as [a b].
    set (s1 := L1D.with_los s (los s) (lpop_opt a b (losc s))).
    destruct r.
    - destruct (fold_interp_scalars (get_intervals x (nb s1)) s1) as [_ [_ [_ [S4 _]]]]. cbn zeta in S4.
      destruct xl as [l|], xr as [r|]; cbn [negb andb L1D.with_los sy]; rewrite S4; reflexivity.
    - destruct xl as [l|], xr as [r|]; cbn [negb andb];
        try destruct (lget (l, r) _); reflexivity.
  Qed.

  Lemma tell_pending_binv (s : st) x : BInv s -> BInv (tell_pending s x).
  Proof.
    intros HB. unfold L1D.tell_pending. destruct (dget x (data s)); [exact HB|].
    set (s1 := L1D.mk _ _ _ _ _ _ _ _ _ _ _ _).
    destruct (update_losses_false_frame add sub mul div ltb eqb zero one inf is_nan is_inf round12 L P s1 x)
      as [F1 [F2 [F3 [F4 F5]]]].
    destruct (update_losses_false_scalars s1 x) as [G1 [G2 G3]].
    eapply binv_fields; [..|exact HB];
      [rewrite F3|rewrite F1|rewrite F5|rewrite G1|rewrite update_losses_sy|rewrite G2|rewrite update_losses_bby]; reflexivity.
  Qed.

  Lemma fold_tell_pending_binv pts : forall (s : st), BInv s -> BInv (fold_left tell_pending pts s).
  Proof.
    induction pts as [|p pts IH]; intros s HB; cbn [fold_left]; [exact HB|].
    apply IH, tell_pending_binv, HB.
  Qed.


  (* ---------------- the scale bracket, vector outputs ----------------
     Same invariant with componentwise boxes; needs that no value is NaN
     (np.nanmin / np.max treat NaN specially) and that all values have the
     same length k. *)
  Notation nanmin := (L1D.nanmin ltb is_nan).
  Notation nanmax := (L1D.nanmax ltb is_nan).
  Notation arr_max := (L1D.arr_max ltb zero is_nan).
  Notation map2 := (@L1D.map2 num).

  Definition lle (l m : list num) : Prop := Forall2 le l m.

  Lemma lle_refl l : lle l l.
  Proof. induction l; constructor; [apply le_refl|assumption]. Qed.

  Lemma lle_trans l m n : lle l m -> lle m n -> lle l n.
  Proof.
    intros H; revert n; induction H as [|a b l m Hab Hlm IH]; intros n Hn; inversion Hn; subst; constructor.
    - eapply le_trans; eauto.
    - apply IH; assumption.
  Qed.

  Lemma lle_length l m : lle l m -> length l = length m.
  Proof. induction 1; cbn; congruence. Qed.

  Lemma map2_length (f : num -> num -> num) a : forall b, length a = length b -> length (map2 f a b) = length a.
  Proof. induction a as [|x a IH]; intros [|y b] H; cbn in *; try congruence. f_equal. apply IH. congruence. Qed.

  Section NoNaN.
    Hypothesis NoNaN : forall x, is_nan x = false.

    Lemma nanmin_pmin a b : nanmin a b = L1D.pmin ltb a b.
    Proof. unfold L1D.nanmin, L1D.pmin. rewrite !NoNaN. reflexivity. Qed.
    Lemma nanmax_pmax a b : nanmax a b = L1D.pmax ltb a b.
    Proof. unfold L1D.nanmax, L1D.pmax. rewrite !NoNaN. reflexivity. Qed.

    Lemma map2_nanmin_le a : forall b, length a = length b ->
      lle (map2 nanmin a b) a /\ lle (map2 nanmin a b) b.
    Proof.
      induction a as [|x a IH]; intros [|y b] H; cbn in *; try congruence; [split; constructor|].
      destruct (IH b) as [H1 H2]; [congruence|]. rewrite nanmin_pmin.
      split; constructor; auto using pmin_le_l, pmin_le_r.
    Qed.

    Lemma map2_nanmax_ge a : forall b, length a = length b ->
      lle a (map2 nanmax a b) /\ lle b (map2 nanmax a b).
    Proof.
      induction a as [|x a IH]; intros [|y b] H; cbn in *; try congruence; [split; constructor|].
      destruct (IH b) as [H1 H2]; [congruence|]. rewrite nanmax_pmax.
      split; constructor; auto using pmax_ge_l, pmax_ge_r.
    Qed.
  End NoNaN.

  Definition DVec (k : nat) (d : list (num * Y num)) : Prop :=
    forall x y, In (x, y) d -> exists vs, y = YV vs /\ length vs = k.

  Lemma dvec_dset k x vs d : length vs = k -> DVec k d -> DVec k (dset x (YV vs) d).
  Proof.
    intros Hk HD z w Hin. apply dset_In_inv in Hin as [H|H]; [inversion H; eauto|eapply HD; eauto].
  Qed.

  Definition scv (mn mx : list num) : num := arr_max (map2 sub mx mn).

  Definition NestV (ob : option (list num * list num)) (m0 m1 : list num) : Prop :=
    match ob with Some (o0, o1) => lle m0 o0 /\ lle o1 m1 | None => lle m0 m1 end.

  Definition BInvVAt (k : nat) (s : st) (b0 b1 : list num) (ob : option (list num * list num)) : Prop :=
    bby s = (YV b0, YV b1) /\ length b0 = k /\ length b1 = k /\
    sy s = scv b0 b1 /\
    match ob with Some (o0, o1) => osy s = scv o0 o1 /\ lle b0 o0 /\ lle o1 b1 | None => osy s = zero end /\
    forall iv, In iv (keys (los s)) -> exists m0 m1,
      lle b0 m0 /\ lle m1 b1 /\ NestV ob m0 m1 /\
      lget iv (los s) = Some (loss_of (nb s) (data s) (sx s) (scv m0 m1) (fst iv) (snd iv)).

  Definition BInvV (k : nat) (s : st) : Prop :=
    DVec k (data s) /\ ScaleOK s (sy s) /\
    ((data s = [] /\ (forall a b, bby s <> (YV a, YV b)) /\ osy s = zero) \/
     exists b0 b1 ob, BInvVAt k s b0 b1 ob).

  Lemma binvv_init k : BInvV k (@init num sub zero inf neg_inf P).
  Proof.
    split; [intros x y []|]. split; [left; reflexivity|]. left. cbn. repeat split; intros; discriminate.
  Qed.

  Lemma binvv_fields k (s s' : st) :
    nb s' = nb s -> data s' = data s -> los s' = los s -> sx s' = sx s -> sy s' = sy s -> osy s' = osy s ->
    bby s' = bby s -> BInvV k s -> BInvV k s'.
  Proof.
    intros E1 E2 E3 E4 E5 E6 E7 H. unfold BInvV, BInvVAt, ScaleOK in *.
    rewrite E1, E2, E3, E4, E5, E6, E7. exact H.
  Qed.

  Lemma update_scale_vector (s : st) x vs b0 b1 : bby s = (YV b0, YV b1) ->
    bby (update_scale s x (YV vs)) = (YV (map2 nanmin b0 vs), YV (map2 nanmax b1 vs)) /\
    sy (update_scale s x (YV vs)) = scv (map2 nanmin b0 vs) (map2 nanmax b1 vs).
  Proof. intros H. unfold L1D.update_scale. rewrite H. cbn. split; reflexivity. Qed.

  Lemma update_scale_first_vector (s : st) x vs : (forall a b, bby s <> (YV a, YV b)) ->
    bby (update_scale s x (YV vs)) = (YV vs, YV vs) /\ sy (update_scale s x (YV vs)) = scv vs vs.
  Proof.
    intros H. unfold L1D.update_scale. destruct (bby s) as [[m1|m1] [m2|m2]] eqn:E; cbn; try (split; reflexivity).
    exfalso. exact (H _ _ eq_refl).
  Qed.

  Lemma no_keys_of_no_data (s : st) : SInv s -> data s = [] -> forall iv, ~ In iv (keys (los s)).
  Proof.
    intros HI Hd [a b] Hk. apply (s_los_keys HI) in Hk. destruct Hk as [Ha _]. cbn [fst] in Ha.
    apply (s_real HI) in Ha. rewrite Hd in Ha. apply Ha. reflexivity.
  Qed.

  Lemma tell_binvv k (s : st) x vs : (forall z, is_nan z = false) -> length vs = k ->
    SInv s -> VInv s -> in_bounds x = true -> BInvV k s -> BInvV k (tell s x (YV vs)).
  Proof.
    intros NoNaN Hk HI HV Hb HB.
    destruct (dget x (data s)) as [w|] eqn:Hd.
    { unfold L1D.tell. rewrite Hd. exact HB. }
    destruct HB as [Hds [Hsc [[Hemp [Hnv Ho]]|[b0 [b1 [ob [Hby [Hl0 [Hl1 [Hsy [Hob Hvals]]]]]]]]]]].
    - (* the first value *)
      set (G := fun _ : num => False).
      assert (HG : forall iv, In iv (keys (los s)) -> exists g, G g /\
                lget iv (los s) = Some (loss_of (nb s) (data s) (sx s) g (fst iv) (snd iv))).
      { intros iv Hk'. exfalso. exact (@no_keys_of_no_data s HI Hemp iv Hk'). }
      pose proof (@tell_values_gen G s x (YV vs) HI (v_box HV) (v_sx HV) Hb Hd HG) as HT. cbn zeta in HT.
      destruct (@update_scale_first_vector s x vs Hnv) as [Eby Esy].
      destruct HT as [T1 [T2 [T3 T4]]]. rewrite Eby in T1. rewrite Esy in T2, T4.
      set (s' := tell s x (YV vs)) in *.
      split; [rewrite T3; apply dvec_dset; assumption|].
      destruct (ltb (mul (factor P) (osy s)) (scv vs vs)) eqn:Esw; destruct T4 as [T4 T5].
      + split; [left; rewrite T2, T4; reflexivity|]. right. exists vs, vs, (Some (vs, vs)). unfold BInvVAt.
        split; [exact T1|]. split; [exact Hk|]. split; [exact Hk|]. split; [exact T2|].
        split; [split; [exact T4|split; apply lle_refl]|].
        intros iv Hk'. exists vs, vs. split; [apply lle_refl|]. split; [apply lle_refl|].
        split; [split; apply lle_refl|exact (T5 iv Hk')].
      + split; [right; rewrite T2, T4; exact Esw|]. right. exists vs, vs, None. unfold BInvVAt.
        split; [exact T1|]. split; [exact Hk|]. split; [exact Hk|]. split; [exact T2|].
        split; [rewrite T4; exact Ho|].
        intros iv Hk'. destruct (T5 iv Hk') as [g [[->|[]] Hv]].
        exists vs, vs. split; [apply lle_refl|]. split; [apply lle_refl|]. split; [apply lle_refl|exact Hv].
    - set (G := fun g => exists m0 m1, lle b0 m0 /\ lle m1 b1 /\ NestV ob m0 m1 /\ g = scv m0 m1).
      assert (HG : forall iv, In iv (keys (los s)) -> exists g, G g /\
                lget iv (los s) = Some (loss_of (nb s) (data s) (sx s) g (fst iv) (snd iv))).
      { intros iv Hk'. destruct (Hvals iv Hk') as [m0 [m1 [H1 [H2 [H3 H4]]]]].
        exists (scv m0 m1). split; [exists m0, m1; auto|exact H4]. }
      pose proof (@tell_values_gen G s x (YV vs) HI (v_box HV) (v_sx HV) Hb Hd HG) as HT. cbn zeta in HT.
      destruct (@update_scale_vector s x vs b0 b1 Hby) as [Eby Esy].
      assert (Hlen0 : length b0 = length vs) by congruence. assert (Hlen1 : length b1 = length vs) by congruence.
      destruct (map2_nanmin_le NoNaN b0 vs Hlen0) as [Hc0 Hc0v]. destruct (map2_nanmax_ge NoNaN b1 vs Hlen1) as [Hc1 Hc1v].
      set (c0 := map2 nanmin b0 vs) in *. set (c1 := map2 nanmax b1 vs) in *.
      assert (Hc01 : lle c0 c1) by (eapply lle_trans; eauto).
      assert (Hk0 : length c0 = k) by (unfold c0; rewrite map2_length; congruence).
      assert (Hk1 : length c1 = k) by (unfold c1; rewrite map2_length; congruence).
      destruct HT as [T1 [T2 [T3 T4]]]. rewrite Eby in T1. rewrite Esy in T2, T4.
      set (s' := tell s x (YV vs)) in *.
      split; [rewrite T3; apply dvec_dset; assumption|].
      destruct (ltb (mul (factor P) (osy s)) (scv c0 c1)) eqn:Esw; destruct T4 as [T4 T5].
      + split; [left; rewrite T2, T4; reflexivity|]. right. exists c0, c1, (Some (c0, c1)). unfold BInvVAt.
        split; [exact T1|]. split; [exact Hk0|]. split; [exact Hk1|]. split; [exact T2|].
        split; [split; [exact T4|split; apply lle_refl]|].
        intros iv Hk'. exists c0, c1. split; [apply lle_refl|]. split; [apply lle_refl|].
        split; [split; apply lle_refl|exact (T5 iv Hk')].
      + split; [right; rewrite T2, T4; exact Esw|]. right. exists c0, c1, ob. unfold BInvVAt.
        split; [exact T1|]. split; [exact Hk0|]. split; [exact Hk1|]. split; [exact T2|]. split.
        { destruct ob as [[o0 o1]|].
          - destruct Hob as [O1 [O2 O3]]. split; [rewrite T4; exact O1|].
            split; [exact (lle_trans Hc0 O2)|exact (lle_trans O3 Hc1)].
          - rewrite T4. exact Hob. }
        intros iv Hk'. destruct (T5 iv Hk') as [g [[->|[m0 [m1 [H1 [H2 [H3 ->]]]]]] Hv]].
        * exists c0, c1. split; [apply lle_refl|]. split; [apply lle_refl|]. split; [|exact Hv].
          destruct ob as [[o0 o1]|]; cbn [NestV]; [|exact Hc01].
          destruct Hob as [_ [O2 O3]]. split; [exact (lle_trans Hc0 O2)|exact (lle_trans O3 Hc1)].
        * exists m0, m1. split; [exact (lle_trans Hc0 H1)|]. split; [exact (lle_trans H2 Hc1)|]. split; [exact H3|exact Hv].
  Qed.

  Lemma tell_pending_binvv k (s : st) x : BInvV k s -> BInvV k (tell_pending s x).
  Proof.
    intros HB. unfold L1D.tell_pending. destruct (dget x (data s)); [exact HB|].
    set (s1 := L1D.mk _ _ _ _ _ _ _ _ _ _ _ _).
    destruct (update_losses_false_frame add sub mul div ltb eqb zero one inf is_nan is_inf round12 L P s1 x)
      as [F1 [F2 [F3 [F4 F5]]]].
    destruct (update_losses_false_scalars s1 x) as [G1 [G2 G3]].
    eapply binvv_fields; [..|exact HB];
      [rewrite F3|rewrite F1|rewrite F5|rewrite G1|rewrite update_losses_sy|rewrite G2|rewrite update_losses_bby]; reflexivity.
  Qed.

  Lemma fold_tell_pending_binvv k pts : forall (s : st), BInvV k s -> BInvV k (fold_left tell_pending pts s).
  Proof.
    induction pts as [|p pts IH]; intros s HB; cbn [fold_left]; [exact HB|].
    apply IH, tell_pending_binvv, HB.
  Qed.

  (* ---------------- the reported loss ---------------- *)
  Notation loss := (@loss num sub div ltb eqb inf is_nan is_inf round12 P).
  Notation missing_bounds := (@missing_bounds num eqb P).
  Notation finite_loss2 := (@finite_loss2 num sub div is_nan is_inf round12).

  (* loss(real=True) of a reachable state: the loss function's value on a pair
     of neighbouring evaluated points of the current data (at an admissible
     y-scale), whose sort key is not smaller than that of the (likewise
     characterised) value of any other neighbouring pair *)
  Theorem reported_loss (s : st) : SInv s -> VInv s -> missing_bounds s = [] -> los s <> [] ->
    exists a b g, adj (nb s) (a, b) /\ ScaleOK s g /\
      loss s true = loss_of (nb s) (data s) (sx s) g a b /\
      forall a' b', adj (nb s) (a', b') -> exists g', ScaleOK s g' /\
        ltb (finite_loss2 (a, b) (loss s true) (mgrx s))
            (finite_loss2 (a', b') (loss_of (nb s) (data s) (sx s) g' a' b') (mgrx s)) = false.
  Proof.
    intros HI HV Hm Hne.
    destruct (loss_is_max sub div inf is_nan is_inf round12 P OL s true) as [_ H].
    destruct (H Hm Hne) as [[[a b] v] [Hin [Hl Hmax]]]. cbn [snd] in Hl.
    assert (Hk : In (a, b) (keys (los s))) by (unfold L1DMaps.keys; apply in_map_iff; exists ((a, b), v); auto).
    destruct (v_vals HV _ Hk) as [g [Hg Hv]]. cbn [fst snd] in Hv.
    rewrite (In_lget OL _ _ (s_los_sorted HI) Hin) in Hv. inversion Hv as [Ev].
    exists a, b, g. split; [apply (s_los_keys HI); exact Hk|]. split; [exact Hg|]. split; [congruence|].
    intros a' b' Hadj. apply (s_los_keys HI) in Hadj.
    destruct (v_vals HV _ Hadj) as [g' [Hg' Hv']]. cbn [fst snd] in Hv'. exists g'. split; [exact Hg'|].
    assert (Hin' : In ((a', b'), loss_of (nb s) (data s) (sx s) g' a' b') (los s)).
    { clear - Hv' OL. induction (los s) as [|[k w] m IH]; cbn [L1D.lget] in Hv'; [discriminate|].
      destruct (L1D.ival_eqb eqb (a', b') k) eqn:E.
      - apply (ival_eqb_eq OL) in E. subst k. inversion Hv'. left; reflexivity.
      - right. apply IH. exact Hv'. }
    specialize (Hmax _ Hin'). unfold fl in Hmax. cbn [fst snd] in Hmax. rewrite Hl. exact Hmax.
  Qed.
End Values.
