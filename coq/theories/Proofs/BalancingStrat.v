(* What each strategy of the BalancingLearner model serves. *)
From AV Require Import Base.Prelude Model.GenericLearner Model.Balancing
  Proofs.BalancingProofs Proofs.BalancingOrder Proofs.BalancingCoh.
Set Implicit Arguments.

Lemma nth_error_combine A B (l1 : list A) (l2 : list B) : forall j,
  nth_error (combine l1 l2) j =
  match nth_error l1 j, nth_error l2 j with Some a, Some b => Some (a, b) | _, _ => None end.
Proof.
  revert l2; induction l1 as [|a l1 IH]; intros [|b l2] [|j]; cbn [combine nth_error]; auto.
  - destruct (nth_error l1 j); reflexivity.
Qed.

Lemma nth_error_nth A (l : list A) j d x : nth_error l j = Some x -> nth j l d = x.
Proof. revert j; induction l as [|a l IH]; intros [|j] H; cbn in *; try discriminate; [congruence|auto]. Qed.

Section Strat.
  Variable L : Learner.
  Implicit Types (s pre : bst L) (k : state L) (i j n : nat) (tp : list nat) (e : sel L).

  (* ---------------- loops ---------------- *)
  Lemma loopn_out (body : body_t L) n : forall s tp,
    failed (fst (loopn body n s tp)) = false ->
    snd (loopn body n s tp) = map snd (loop_trace body n s tp) /\
    length (loop_trace body n s tp) = n.
  Proof.
    induction n as [|n IH]; intros s tp H; cbn [loopn loop_trace] in *; [auto|].
    destruct (body s tp) as [s1 [[tp' e]|]]; [|discriminate H].
    specialize (IH s1 tp'). destruct (loopn body n s1 tp') as [s2 r]. cbn [fst snd] in *.
    destruct (IH H) as [H1 H2]. cbn [map length]. rewrite H1, H2. auto.
  Qed.

  Lemma loop_trace_inv (body : body_t L) (J : bst L -> list nat -> Prop) :
    (forall s tp s1 tp' e, J s tp -> body s tp = (s1, Some (tp', e)) -> J s1 tp') ->
    forall n s tp, J s tp ->
    forall pre tpp e, In ((pre, tpp), e) (loop_trace body n s tp) ->
    J pre tpp /\ exists s1 tp', body pre tpp = (s1, Some (tp', e)).
  Proof.
    intros HJ. induction n as [|n IH]; intros s tp Hs pre tpp e Hin; cbn [loop_trace] in Hin; [destruct Hin|].
    destruct (body s tp) as [s1 [[tp' e']|]] eqn:E; [|destruct Hin].
    destruct Hin as [Hin|Hin].
    - inversion Hin; subst. split; [exact Hs|eauto].
    - eapply IH; [|exact Hin]. eapply HJ; eauto.
  Qed.

  Lemma loopn_inv (body : body_t L) (J : bst L -> Prop) :
    (forall s tp s1 r, J s -> body s tp = (s1, Some r) -> J s1) ->
    forall n s tp, J s -> failed (fst (loopn body n s tp)) = true \/ J (fst (loopn body n s tp)).
  Proof.
    intros Hb. induction n as [|n IH]; intros s tp HJ; cbn [loopn].
    - right. exact HJ.
    - destruct (body s tp) as [s1 [[tp' e]|]] eqn:E.
      + specialize (IH s1 tp' (Hb _ _ _ _ HJ E)). destruct (loopn body n s1 tp') as [s2 r]. exact IH.
      + left. reflexivity.
  Qed.

  (* ---------------- a generic invariant along legal histories ---------------- *)
  Section Inv.
    Variable rep : bool.
    Variable J : bst L -> Prop.
    Hypothesis J_tell : forall s i x y, J s -> J (tell s i x y).
    Hypothesis J_tp : forall s i x, J s -> J (tell_pending rep s i x).
    Hypothesis J_body : forall st s tp s1 r, J s -> body_of rep st s tp = (s1, Some r) -> J s1.
    Hypothesis J_loss : forall s real, J s -> J (fst (bloss s real)).
    Hypothesis J_rem : forall s, J s -> J (bremove_unfinished rep s).
    Hypothesis J_strat : forall s st, J s -> J (set_strategy s st).

    Lemma step_state_inv s o : legal_op o = true -> J s ->
      failed (step_state rep s o) = true \/ J (step_state rep s o).
    Proof.
      intros Hl HJ. destruct o as [n c|i x y|i x|real| |st]; cbn [step_state]; auto.
      cbn [legal_op] in Hl. subst c. unfold bask. destruct (n =? 0); [right; exact HJ|].
      unfold ask_and_tell. apply loopn_inv; [|exact HJ]. intros; eapply J_body; eauto.
    Qed.

    Lemma run_inv h : forall s, legal h = true -> (failed s = true \/ J s) ->
      failed (run rep s h) = true \/ J (run rep s h).
    Proof.
      induction h as [|o h IH]; intros s Hl HJ; [exact HJ|].
      cbn [legal forallb] in Hl. apply andb_true_iff in Hl as [Hl1 Hl2].
      rewrite run_cons. apply IH; [exact Hl2|]. rewrite step_fst.
      destruct (failed s) eqn:Ef; [left; exact Ef|].
      destruct HJ as [HJ|HJ]; [discriminate HJ|]. apply step_state_inv; assumption.
    Qed.
  End Inv.

  (* ---------------- shapes ---------------- *)
  Lemma tell_pending_shape rep s i x :
    length (kids (tell_pending rep s i x)) = length (kids s) /\
    cyc (tell_pending rep s i x) = cyc s /\ strat (tell_pending rep s i x) = strat s.
  Proof.
    unfold tell_pending. destruct (nth_error (kids s) i); cbn [kids cyc strat with_kids fail]; auto.
    rewrite length_list_set. auto.
  Qed.

  Lemma tell_shape s i x y :
    length (kids (tell s i x y)) = length (kids s) /\ cyc (tell s i x y) = cyc s.
  Proof.
    unfold tell. destruct (nth_error (kids s) i); cbn [kids cyc with_kids fail]; auto.
    rewrite length_list_set. auto.
  Qed.

  Lemma losses_shape s real :
    kids (fst (losses s real)) = kids s /\ cyc (fst (losses s real)) = cyc s /\
    acache (fst (losses s real)) = acache s.
  Proof. unfold losses. destruct (losses_aux L real (kids s) 0 _). cbn. auto. Qed.

  Lemma serve_spec rep s i tp' s1 tp'' i' p v :
    serve rep s i tp' = (s1, Some (tp'', ((i', p), v))) ->
    i' = i /\ tp'' = tp' /\ length (kids s1) = length (kids s) /\ cyc s1 = cyc s /\
    exists k a ps vs, nth_error (kids s) i = Some k /\
      a = (p :: ps, v :: vs) /\
      match acache s i with Some a' => a' = a | None => fst (ask L k 1 true) = a end.
  Proof.
    unfold serve. destruct (nth_error (kids s) i) as [k|] eqn:Ek; [|intros H; discriminate H].
    destruct (acache s i) as [a'|] eqn:Ea.
    - destruct a' as [[|p0 ps] [|v0 vs]]; try (intros H; discriminate H).
      intros H; inversion H; subst; clear H.
      match goal with |- context [tell_pending rep ?s2 ?ii ?pp] =>
        destruct (tell_pending_shape rep s2 ii pp) as [H1 [H2 _]] end.
      cbn [kids cyc with_kids with_acache] in H1, H2. rewrite length_list_set in H1.
      repeat split; auto. exists k, (p :: ps, v :: vs), ps, vs. auto.
    - destruct (ask L k 1 true) as [a k'] eqn:Eask.
      destruct a as [[|p0 ps] [|v0 vs]]; try (intros H; discriminate H).
      intros H; inversion H; subst; clear H.
      match goal with |- context [tell_pending rep ?s2 ?ii ?pp] =>
        destruct (tell_pending_shape rep s2 ii pp) as [H1 [H2 _]] end.
      cbn [kids cyc with_kids with_acache] in H1, H2. rewrite length_list_set in H1.
      repeat split; auto. exists k, (p :: ps, v :: vs), ps, vs. rewrite Eask. auto.
  Qed.

  (* ---------------- 'npoints' ---------------- *)
  Lemma np_body_spec rep s tp s1 tp' i p v :
    np_body rep s tp = (s1, Some (tp', ((i, p), v))) ->
    tp' = list_inc i tp /\ length (kids s1) = length (kids s) /\
    exists t, nth_error tp i = Some t /\
              (forall j tj, nth_error tp j = Some tj -> t <= tj) /\
              (forall j tj, j < i -> nth_error tp j = Some tj -> t < tj).
  Proof.
    unfold np_body. destruct (argmax (fun a b => a <? b) tp) as [i0|] eqn:E; [|intros H; discriminate H].
    intros H. apply serve_spec in H as [-> [-> [Hl _]]].
    split; [reflexivity|]. split; [exact Hl|]. apply argmin_spec. exact E.
  Qed.

  (* ---------------- 'cycle' ---------------- *)
  Lemma cycle_body_spec rep s tp s1 tp' i p v :
    cycle_body rep s tp = (s1, Some (tp', ((i, p), v))) ->
    i = cyc s /\ cyc s1 = S (cyc s) mod length (kids s) /\ length (kids s1) = length (kids s) /\
    cyc s < length (kids s).
  Proof.
    unfold cycle_body. destruct (kids s) as [|k0 ks0] eqn:EK; [intros H; discriminate H|].
    rewrite <- EK. destruct (nth_error (kids s) (cyc s)) as [k|] eqn:Ek; [|intros H; discriminate H].
    destruct (ask L k 1 true) as [a k'].
    destruct a as [[|p0 ps] [|v0 vs]]; try (intros H; discriminate H).
    intros H; inversion H; subst; clear H.
    match goal with |- context [tell_pending rep ?s2 ?ii ?pp] =>
      destruct (tell_pending_shape rep s2 ii pp) as [H1 [H2 _]] end.
    cbn [kids cyc with_kids] in H1, H2. rewrite length_list_set in H1.
    repeat split; auto. apply nth_error_Some. congruence.
  Qed.

  Lemma cycle_loop rep n : forall s tp,
    failed (fst (loopn (cycle_body rep) n s tp)) = false ->
    map (fun e => fst (fst e)) (snd (loopn (cycle_body rep) n s tp)) =
      map (fun t => (cyc s + t) mod length (kids s)) (seq 0 n) /\
    (cyc s < length (kids s) -> cyc (fst (loopn (cycle_body rep) n s tp)) = (cyc s + n) mod length (kids s)) /\
    length (kids (fst (loopn (cycle_body rep) n s tp))) = length (kids s).
  Proof.
    induction n as [|n IH]; intros s tp H; cbn [loopn] in *.
    - cbn [fst snd map seq]. split; [reflexivity|]. split; [|reflexivity].
      intros Hc. rewrite Nat.add_0_r. symmetry. apply Nat.mod_small. exact Hc.
    - destruct (cycle_body rep s tp) as [s1 [[tp' [[i p] v]]|]] eqn:E; [|discriminate H].
      apply cycle_body_spec in E as [-> [E2 [E3 E4]]].
      specialize (IH s1 tp'). destruct (loopn (cycle_body rep) n s1 tp') as [s2 r]. cbn [fst snd] in *.
      destruct (IH H) as [H1 [H2 H3]].
      assert (Hpos : length (kids s) <> 0) by lia.
      assert (Hc1 : cyc s1 < length (kids s1)).
      { rewrite E2, E3. apply Nat.mod_upper_bound. exact Hpos. }
      rewrite E3 in *. split; [|split; [intros _|exact H3]].
      + cbn [map fst seq]. rewrite <- seq_shift, map_map, H1. f_equal.
        * rewrite Nat.add_0_r. symmetry. apply Nat.mod_small. exact E4.
        * apply map_ext. intros t. rewrite E2, Nat.add_mod_idemp_l by exact Hpos.
          f_equal. lia.
      + rewrite (H2 Hc1), E2, Nat.add_mod_idemp_l by exact Hpos. f_equal. lia.
  Qed.
End Strat.

Lemma nth_error_map' A B (f : A -> B) l : forall j, nth_error (map f l) j = option_map f (nth_error l j).
Proof. induction l as [|a l IH]; intros [|j]; cbn [map nth_error option_map]; auto. Qed.

(* ------------------------------------------------------------------ *)
(* shapes preserved by every body, for both values of [repaired] *)
Section Shapes.
  Variable L : Learner.
  Implicit Types (s : bst L) (tp : list nat).

  Lemma imp_scan_length tp : forall ks i c,
    length (fst (fst (@imp_scan L ks i c tp))) = length ks.
  Proof.
    induction ks as [|k ks IH]; intros i c; cbn [imp_scan]; [reflexivity|].
    destruct (match c i with Some a => (a, k) | None => ask L k 1 false end) as [a k'].
    destruct a as [[|p ps] [|v vs]]; cbn [fst length]; try reflexivity.
    match goal with |- context [imp_scan ks (S i) ?cc tp] =>
      specialize (IH (S i) cc); destruct (imp_scan ks (S i) cc tp) as [[ks'' c''] r] end.
    cbn [fst length] in *. rewrite IH. reflexivity.
  Qed.

  Lemma body_shape rep st s tp s1 tp' i p v :
    body_of rep st s tp = (s1, Some (tp', ((i, p), v))) ->
    length (kids s1) = length (kids s) /\
    (st <> SCycle -> cyc s1 = cyc s /\ tp' = list_inc i tp) /\
    (st = SCycle -> i = cyc s /\ cyc s1 = S (cyc s) mod length (kids s) /\ cyc s < length (kids s)).
  Proof.
    destruct st; cbn [body_of]; intros H.
    - unfold imp_body in H. pose proof (imp_scan_length tp (kids s) 0 (acache s)) as Hlen.
      destruct (imp_scan (kids s) 0 (acache s) tp) as [[ks c] rr]. cbn [fst] in Hlen.
      destruct rr as [es|]; [|discriminate H].
      destruct (pymax _ es) as [[[i0 p0] [v0 t0]]|]; [|discriminate H].
      inversion H; subst; clear H.
      match goal with |- context [tell_pending rep ?s2 ?ii ?pp] =>
        destruct (tell_pending_shape rep s2 ii pp) as [H1 [H2 _]] end.
      cbn [kids cyc with_kids with_acache] in H1, H2.
      split; [congruence|]. split; [auto|intros H; discriminate H].
    - unfold loss_body in H. destruct (losses_shape s false) as [H1 [H2 _]].
      destruct (losses s false) as [s0 vs]. cbn [fst] in *.
      destruct (argmax _ _) as [i0|]; [|discriminate H].
      apply serve_spec in H as [-> [-> [Hl [Hc _]]]].
      split; [congruence|]. split; [intros _; split; [congruence|reflexivity]|intros H; discriminate H].
    - apply np_body_spec in H as Hs. unfold np_body in H.
      destruct (argmax _ tp) as [i0|]; [|discriminate H].
      apply serve_spec in H as [-> [-> [Hl [Hc _]]]].
      split; [exact Hl|]. split; [auto|intros H; discriminate H].
    - apply cycle_body_spec in H as [H1 [H2 [H3 H4]]].
      split; [exact H3|]. split; [intros H; contradiction|auto].
  Qed.

  (* along legal histories the number of children is constant and _cycle
     stays a valid index *)
  Definition ShapeInv (N : nat) s : Prop := length (kids s) = N /\ cyc s < N.

  Lemma shape_inv rep ks st h :
    ks <> [] -> legal h = true ->
    failed (run rep (init L ks st) h) = false ->
    ShapeInv (length ks) (run rep (init L ks st) h).
  Proof.
    intros Hne Hl Hf.
    assert (Hpos : 0 < length ks) by (destruct ks; [contradiction|cbn; lia]).
    destruct (@run_inv L rep (ShapeInv (length ks))) with (h := h) (s := init L ks st) as [H|H];
      try exact Hl; try congruence.
    - intros s i x y [H1 H2]. destruct (tell_shape s i x y) as [E1 E2]. split; congruence.
    - intros s i x [H1 H2]. destruct (tell_pending_shape rep s i x) as [E1 [E2 _]]. split; congruence.
    - intros st0 s tp s1 [tp' [[i p] v]] [H1 H2] Hb.
      apply body_shape in Hb as [E1 [E2 E3]]. split; [congruence|].
      destruct (strategy_eqb st0 SCycle) eqn:Es.
      + destruct st0; try discriminate Es. destruct (E3 eq_refl) as [_ [E4 _]].
        rewrite E4, H1. apply Nat.mod_upper_bound. lia.
      + destruct E2 as [E2 _]; [intros ->; discriminate Es|congruence].
    - intros s real [H1 H2]. unfold bloss. destruct (losses_shape s real) as [E1 [E2 _]].
      destruct (losses s real) as [s0 vs]. cbn [fst] in *.
      destruct (pymax _ vs); unfold ShapeInv; cbn [fst fail kids cyc]; rewrite ?E1, ?E2; split; assumption.
    - intros s [H1 H2]. unfold bremove_unfinished.
      destruct rep; unfold ShapeInv; cbn [kids cyc with_kids]; rewrite map_length; split; assumption.
    - intros s st0 [H1 H2]. unfold set_strategy, ShapeInv. cbn [kids cyc]. split; [exact H1|].
      destruct st0; assumption.
    - right. split; [reflexivity|exact Hpos].
  Qed.

  (* ask's answer is the list of items selected by the successive iterations *)
  Lemma bask_trace rep s n :
    failed (fst (bask rep s n true)) = false ->
    snd (bask rep s n true) = map snd (loop_trace (body_of rep (strat s)) n s (total_points s)) /\
    length (snd (bask rep s n true)) = n.
  Proof.
    unfold bask. destruct (Nat.eqb_spec n 0) as [->|Hn]; [intros _; split; reflexivity|].
    unfold ask_and_tell. intros H. destruct (loopn_out _ _ _ _ H) as [H1 H2].
    split; [exact H1|]. rewrite H1, map_length. exact H2.
  Qed.

  (* 'cycle': ask(n) serves _cycle, _cycle+1, ... (mod number of children) *)
  Lemma cycle_ask rep s n :
    strat s = SCycle -> cyc s < length (kids s) ->
    failed (fst (bask rep s n true)) = false ->
    map (fun e => fst (fst e)) (snd (bask rep s n true)) =
      map (fun t => (cyc s + t) mod length (kids s)) (seq 0 n) /\
    cyc (fst (bask rep s n true)) = (cyc s + n) mod length (kids s).
  Proof.
    intros Hs Hc. unfold bask. destruct (Nat.eqb_spec n 0) as [->|Hn].
    - intros _. cbn [fst snd map seq]. split; [reflexivity|].
      rewrite Nat.add_0_r. symmetry. apply Nat.mod_small. exact Hc.
    - unfold ask_and_tell. rewrite Hs. cbn [body_of]. intros H.
      destruct (cycle_loop rep n s (total_points s) H) as [H1 [H2 _]]. auto.
  Qed.

  (* total_points of an iteration = total_points at the start of the call +
     the number of points served to each child so far in this call *)
  Lemma trace_counts (body : body_t L) :
    (forall s tp s1 tp' e, body s tp = (s1, Some (tp', e)) -> tp' = list_inc (fst (fst e)) tp) ->
    forall n s tp0 m pre tp e,
    nth_error (loop_trace body n s tp0) m = Some ((pre, tp), e) ->
    tp = fold_left (fun t i => list_inc i t)
                   (map (fun x => fst (fst (snd x))) (firstn m (loop_trace body n s tp0))) tp0.
  Proof.
    intros Hb. induction n as [|n IH]; intros s tp0 m pre tp e Hn; cbn [loop_trace] in *.
    - destruct m; discriminate Hn.
    - destruct (body s tp0) as [s1 [[tp' e']|]] eqn:E; [|destruct m; discriminate Hn].
      destruct m as [|m]; cbn [nth_error firstn map fold_left snd fst] in *.
      + inversion Hn; subst. reflexivity.
      + rewrite (IH _ _ _ _ _ _ Hn). rewrite (Hb _ _ _ _ _ E). reflexivity.
  Qed.
End Shapes.

(* ------------------------------------------------------------------ *)
(* the strategies that read the caches, on the repaired model *)
Section StratCoh.
  Variable L : Learner.
  Hypothesis Hnc : forall k : state L, snd (ask L k 1 false) = k.
  Hypothesis NL : NumLaws L.
  Implicit Types (s pre : bst L) (tp : list nat).

  Lemma loss_body_spec s tp s1 tp' i p v :
    Coh s -> length tp = length (kids s) ->
    loss_body true s tp = (s1, Some (tp', ((i, p), v))) ->
    exists ki, nth_error (kids s) i = Some ki /\
      forall j kj, nth_error (kids s) j = Some kj ->
        kgt L (loss L kj false, nth j tp 0) (loss L ki false, nth i tp 0) = false.
  Proof.
    intros HC Hlen. unfold loss_body. destruct (losses_spec false HC) as [H1 [H2 H3]].
    destruct (losses s false) as [s0 vs]. cbn [fst snd] in *. subst vs.
    destruct (argmax _ _) as [i0|] eqn:E; [|intros H; discriminate H].
    intros H. apply serve_spec in H as [-> _].
    apply argmax_spec in E; [|apply (kgt_asym NL)|apply (kgt_ntrans NL)].
    destruct E as [key [E1 [E2 _]]].
    rewrite nth_error_combine, nth_error_map' in E1.
    destruct (nth_error (kids s) i0) as [ki|] eqn:Eki; [|discriminate E1]. cbn [option_map] in E1.
    destruct (nth_error tp i0) as [ti|] eqn:Eti; [|discriminate E1]. inversion E1; subst key; clear E1.
    exists ki. split; [reflexivity|]. intros j kj Hj.
    assert (Hjl : j < length tp) by (rewrite Hlen; apply nth_error_Some; congruence).
    destruct (nth_error tp j) as [tj|] eqn:Etj; [|apply nth_error_None in Etj; lia].
    rewrite (nth_error_nth _ _ 0 Eti), (nth_error_nth _ _ 0 Etj).
    apply (E2 j). rewrite nth_error_combine, nth_error_map', Hj, Etj. reflexivity.
  Qed.

  Lemma imp_body_spec s tp s1 tp' i p v :
    Coh s ->
    imp_body true s tp = (s1, Some (tp', ((i, p), v))) ->
    exists ki ps vs, nth_error (kids s) i = Some ki /\
      fst (ask L ki 1 false) = (p :: ps, v :: vs) /\
      forall j kj pj psj vj vsj, nth_error (kids s) j = Some kj ->
        fst (ask L kj 1 false) = (pj :: psj, vj :: vsj) ->
        kgt L (vj, nth j tp 0) (v, nth i tp 0) = false.
  Proof.
    intros HC. unfold imp_body.
    destruct (@imp_scan_spec L Hnc (kids s) tp (kids s) 0 (acache s)) as [H1 [H2 H3]].
    - reflexivity.
    - intros j a Ha. destruct (HC j) as [_ [_ H]]. apply H. exact Ha.
    - destruct (imp_scan (kids s) 0 (acache s) tp) as [[ks c] rr]. cbn [fst snd] in *. subst ks.
      destruct rr as [es|]; [|intros H; discriminate H].
      destruct (H3 es eq_refl) as [Hl Hn]. clear H3.
      destruct (pymax _ es) as [[[i0 p0] [v0 t0]]|] eqn:E; [|intros H; discriminate H].
      intros H; inversion H; subst; clear H.
      apply pymax_spec in E.
      2:{ intros a b. apply (kgt_asym NL). }
      2:{ intros a b c0. apply (kgt_ntrans NL). }
      destruct E as [Hin Hmax].
      apply In_nth_error in Hin as [t Ht].
      assert (Htl : t < length (kids s)) by (rewrite <- Hl; apply nth_error_Some; congruence).
      destruct (nth_error (kids s) t) as [kt|] eqn:Ekt; [|apply nth_error_None in Ekt; lia].
      destruct (Hn t kt Ekt) as [p' [ps' [v' [vs' [Ea Ee]]]]].
      rewrite Ht in Ee. cbn [Nat.add] in Ee. inversion Ee; subst; clear Ee.
      exists kt, ps', vs'. split; [exact Ekt|]. split; [exact Ea|].
      intros j kj pj psj vj vsj Hj Haj.
      destruct (Hn j kj Hj) as [pj' [psj' [vj' [vsj' [Eaj Eej]]]]].
      rewrite Haj in Eaj. inversion Eaj; subst; clear Eaj. cbn [Nat.add] in Eej.
      apply nth_error_In in Eej. apply (Hmax _ Eej).
  Qed.

  (* per-iteration invariant inside one ask *)
  Definition IterInv s tp : Prop := Coh s /\ length tp = length (kids s).

  Lemma iter_inv_body st s tp s1 tp' e :
    IterInv s tp -> body_of true st s tp = (s1, Some (tp', e)) -> st <> SCycle -> IterInv s1 tp'.
  Proof.
    intros [HC Hl] Hb Hst. split; [eapply body_coh; eauto|].
    destruct e as [[i p] v]. apply body_shape in Hb as [E1 [E2 _]].
    destruct (E2 Hst) as [_ ->]. rewrite length_list_inc. congruence.
  Qed.

  Lemma loss_strategy s n pre tp i p v :
    Coh s ->
    In ((pre, tp), ((i, p), v)) (loop_trace (loss_body true) n s (total_points s)) ->
    exists ki, nth_error (kids pre) i = Some ki /\
      forall j kj, nth_error (kids pre) j = Some kj ->
        kgt L (loss L kj false, nth j tp 0) (loss L ki false, nth i tp 0) = false.
  Proof.
    intros HC Hin.
    destruct (@loop_trace_inv L (loss_body true) IterInv) with (n := n) (s := s) (tp := total_points s)
      (pre := pre) (tpp := tp) (e := ((i, p), v)) as [[HCp Hlp] [s1 [tp' Hb]]]; auto.
    - intros s0 tp0 s1 tp' e HJ Hb. apply (@iter_inv_body SLoss s0 tp0 s1 tp' e HJ Hb). discriminate.
    - split; [exact HC|]. unfold total_points. apply map_length.
    - eapply loss_body_spec; eauto.
  Qed.

  Lemma improvement_strategy s n pre tp i p v :
    Coh s ->
    In ((pre, tp), ((i, p), v)) (loop_trace (imp_body true) n s (total_points s)) ->
    exists ki ps vs, nth_error (kids pre) i = Some ki /\
      fst (ask L ki 1 false) = (p :: ps, v :: vs) /\
      forall j kj pj psj vj vsj, nth_error (kids pre) j = Some kj ->
        fst (ask L kj 1 false) = (pj :: psj, vj :: vsj) ->
        kgt L (vj, nth j tp 0) (v, nth i tp 0) = false.
  Proof.
    intros HC Hin.
    destruct (@loop_trace_inv L (imp_body true) IterInv) with (n := n) (s := s) (tp := total_points s)
      (pre := pre) (tpp := tp) (e := ((i, p), v)) as [[HCp Hlp] [s1 [tp' Hb]]]; auto.
    - intros s0 tp0 s1 tp' e HJ Hb. apply (@iter_inv_body SImp s0 tp0 s1 tp' e HJ Hb). discriminate.
    - split; [exact HC|]. unfold total_points. apply map_length.
    - eapply imp_body_spec; eauto.
  Qed.
End StratCoh.

Section StratNp.
  Variable L : Learner.
  Lemma npoints_strategy rep (s : bst L) n pre tp i p v :
    In ((pre, tp), ((i, p), v)) (loop_trace (np_body rep) n s (total_points s)) ->
    exists t, nth_error tp i = Some t /\
              (forall j tj, nth_error tp j = Some tj -> t <= tj) /\
              (forall j tj, j < i -> nth_error tp j = Some tj -> t < tj).
  Proof.
    intros Hin.
    destruct (@loop_trace_inv L (np_body rep) (fun _ _ => True)) with (n := n) (s := s) (tp := total_points s)
      (pre := pre) (tpp := tp) (e := ((i, p), v)) as [_ [s1 [tp' Hb]]]; auto.
    apply np_body_spec in Hb as [_ [_ H]]. exact H.
  Qed.
End StratNp.
