(* Lemmas about Model/Avg.v.
   Part 1 (Section Generic): for every number structure (hence also for the
   IEEE instance that is executed) -- bookkeeping invariant, first value per
   seed, fresh seeds, the inf / error cases of std and loss.  Axiom-free.
   Part 2 (Section Real): the same model text instantiated with Coq's reals:
   mean, corrected sample standard deviation, loss formula. *)
From Coq Require Import Permutation.
From AV Require Import Base.Prelude Base.NatSet Model.AvgNum Model.Avg.

(* ------------------------------------------------------------------ *)
(* list facts *)
Lemma filter_split_length {A} (f : A -> bool) (l : list A) :
  length (filter f l) + length (filter (fun x => negb (f x)) l) = length l.
Proof.
  induction l as [|a l IH]; cbn [filter length]; [reflexivity|].
  destruct (f a); cbn [negb length]; lia.
Qed.

Lemma NoDup_firstn {A} n : forall (l : list A), NoDup l -> NoDup (firstn n l).
Proof.
  induction n as [|n IH]; intros [|a l] H; cbn [firstn]; try constructor.
  - inversion H; subst. intros Hin. apply In_firstn in Hin. contradiction.
  - inversion H; subst. apply IH. assumption.
Qed.

Lemma filter_all {A} (f : A -> bool) (l : list A) : (forall x, In x l -> f x = true) -> filter f l = l.
Proof.
  induction l as [|a l IH]; cbn [filter]; intros H; [reflexivity|].
  rewrite (H a (or_introl eq_refl)). f_equal. apply IH. intros x Hx. apply H. right; exact Hx.
Qed.

Lemma existsb_false_forall {A} (f : A -> bool) (l : list A) :
  existsb f l = false -> forall x, In x l -> f x = false.
Proof.
  intros H x Hx. destruct (f x) eqn:E; [|reflexivity].
  assert (existsb f l = true) by (apply existsb_exists; eauto). congruence.
Qed.

(* [reorder hint l] is a permutation of [l] *)
Lemma reorder_In hint l x : In x (reorder hint l) <-> In x l.
Proof.
  unfold reorder. rewrite in_app_iff, nodup_In, !filter_In, nat_mem_In.
  split.
  - intros [[_ H]|[H _]]; exact H.
  - intros H.
    destruct (nat_mem x (nodup Nat.eq_dec (filter (fun x0 => nat_mem x0 l) hint))) eqn:E.
    + left. apply nat_mem_In in E. apply nodup_In in E. apply filter_In in E. tauto.
    + right. split; [exact H|reflexivity].
Qed.

Lemma reorder_NoDup hint l : NoDup l -> NoDup (reorder hint l).
Proof.
  intros H. unfold reorder. apply NoDup_app_disj.
  - apply NoDup_nodup.
  - apply NoDup_filter. exact H.
  - intros x Hx Hf. apply filter_In in Hf as [_ Hf].
    apply nat_mem_In in Hx. rewrite Hx in Hf. discriminate.
Qed.

Lemma reorder_perm hint l : NoDup l -> Permutation l (reorder hint l).
Proof.
  intros H. apply NoDup_Permutation; [exact H|apply reorder_NoDup; exact H|].
  intros x. symmetry. apply reorder_In.
Qed.

Lemma reorder_prefix pts l :
  NoDup pts -> (forall p, In p pts -> In p l) ->
  firstn (length pts) (reorder pts l) = pts.
Proof.
  intros Hn Hin. unfold reorder.
  rewrite (filter_all (fun x => nat_mem x l) pts) by (intros x Hx; apply nat_mem_In; auto).
  rewrite (nodup_fixed_point Nat.eq_dec Hn).
  rewrite firstn_app, Nat.sub_diag, firstn_all. cbn [firstn]. apply app_nil_r.
Qed.

(* ------------------------------------------------------------------ *)
Section Generic.
  Variable N : NumOps.
  Implicit Types (s : st N) (c : cfg N) (h : list (op N)).

  Record Inv s : Prop := mkInv {
    inv_nodup : NoDup (keys s);
    inv_npoints : npoints s = length (data s);
    inv_sum : sum_f s = suml N (values s);
    inv_sumsq : sum_f_sq s = suml N (map (n_sq N) (values s));
    inv_pend : sorted (pend s)
  }.
  Arguments inv_nodup {s}. Arguments inv_npoints {s}. Arguments inv_sum {s}.
  Arguments inv_sumsq {s}. Arguments inv_pend {s}.

  Lemma suml_snoc l v : suml N (l ++ [v]) = n_add N (suml N l) v.
  Proof. unfold suml. rewrite fold_left_app. reflexivity. Qed.

  Lemma known_In s k : known s k = true <-> In k (keys s).
  Proof. unfold known. apply nat_mem_In. Qed.

  Lemma inv_init : Inv (init N).
  Proof. constructor; cbn; try reflexivity; constructor. Qed.

  Lemma inv_tell s k v : Inv s -> Inv (tell s k v).
  Proof.
    intros [H1 H2 H3 H4 H5]. unfold tell. destruct (known s k) eqn:E; [constructor; assumption|].
    constructor; cbn [data pend sum_f sum_f_sq npoints].
    - unfold keys. cbn [data]. rewrite map_app. cbn [map fst].
      apply NoDup_app_disj; [exact H1|repeat constructor; cbn; tauto|].
      intros x Hx [<-|[]]. apply known_In in Hx. congruence.
    - rewrite app_length. cbn [length]. lia.
    - unfold values in *. cbn [data]. rewrite map_app. cbn [map snd]. rewrite suml_snoc, H3. reflexivity.
    - unfold values in *. cbn [data]. rewrite !map_app. cbn [map snd]. rewrite suml_snoc, H4. reflexivity.
    - apply nat_remove_sorted. exact H5.
  Qed.

  Lemma inv_tell_pending s k : Inv s -> Inv (tell_pending s k).
  Proof.
    intros [H1 H2 H3 H4 H5]. constructor; cbn [tell_pending data pend sum_f sum_f_sq npoints]; try assumption.
    apply nat_insert_sorted. exact H5.
  Qed.

  Lemma inv_fold_pending pts : forall s, Inv s -> Inv (fold_left (@tell_pending N) pts s).
  Proof. induction pts as [|p pts IH]; cbn [fold_left]; intros s H; auto using inv_tell_pending. Qed.

  Lemma fold_pending_data pts : forall s, data (fold_left (@tell_pending N) pts s) = data s.
  Proof. induction pts as [|p pts IH]; cbn [fold_left]; intros s; [reflexivity|]. rewrite IH. reflexivity. Qed.

  Lemma fold_pending_pend pts : forall s,
    pend (fold_left (@tell_pending N) pts s) = fold_left (fun acc i => nat_insert i acc) pts (pend s).
  Proof. induction pts as [|p pts IH]; cbn [fold_left]; intros s; [reflexivity|]. rewrite IH. reflexivity. Qed.

  Lemma inv_remove s : Inv s -> Inv (remove_unfinished s).
  Proof. intros [H1 H2 H3 H4 H5]. constructor; cbn; try assumption. constructor. Qed.

  Lemma ask_state c s n commit hint :
    fst (ask c s n commit hint) = s \/
    fst (ask c s n commit hint) = fold_left (@tell_pending N) (ask_points s n hint) s.
  Proof.
    unfold ask. destruct n as [|n]; [left; reflexivity|].
    destruct (loss_improvement c s (S n)); [|left; reflexivity].
    destruct commit; [right|left]; reflexivity.
  Qed.

  Lemma inv_step c s o : Inv s -> Inv (fst (step c s o)).
  Proof.
    intros H. destruct o as [n commit hint|k v|k|]; cbn [step fst].
    - destruct (ask_state c s n commit hint) as [-> | ->]; [exact H|apply inv_fold_pending; exact H].
    - apply inv_tell; exact H.
    - apply inv_tell_pending; exact H.
    - apply inv_remove; exact H.
  Qed.

  Lemma run_cons c s o h : run c s (o :: h) = run c (fst (step c s o)) h.
  Proof. reflexivity. Qed.

  Lemma inv_run c h : forall s, Inv s -> Inv (run c s h).
  Proof. induction h as [|o h IH]; intros s H; [exact H|]. rewrite run_cons. apply IH, inv_step, H. Qed.

  Lemma inv_reach c h : Inv (reach c h).
  Proof. apply inv_run, inv_init. Qed.

  (* ---- data holds the first value told per seed ---- *)
  Lemma lookup_app seed (d : list (nat * num N)) k v :
    lookup N seed (d ++ [(k, v)]) =
    match lookup N seed d with Some w => Some w | None => if seed =? k then Some v else None end.
  Proof.
    induction d as [|[k' v'] d IH]; cbn [lookup app]; [reflexivity|].
    destruct (seed =? k'); [reflexivity|exact IH].
  Qed.

  Lemma lookup_known s k : known s k = true -> exists v, lookup N k (data s) = Some v.
  Proof.
    rewrite known_In. unfold keys. induction (data s) as [|[k' v'] d IH]; cbn [map fst In lookup]; [tauto|].
    intros [->|H]; [rewrite Nat.eqb_refl; eauto|].
    destruct (k =? k'); eauto.
  Qed.

  Lemma step_data_non_tell c s o :
    (forall k v, o <> Tell N k v) -> data (fst (step c s o)) = data s.
  Proof.
    intros H. destruct o as [n commit hint|k v|k|]; cbn [step fst]; try reflexivity.
    - destruct (ask_state c s n commit hint) as [-> | ->]; [reflexivity|apply fold_pending_data].
    - exfalso. eapply H; reflexivity.
  Qed.

  Lemma first_value c h : forall s seed,
    lookup N seed (data (run c s h)) =
    match lookup N seed (data s) with Some v => Some v | None => first_told h seed end.
  Proof.
    induction h as [|o h IH]; intros s seed.
    - cbn. destruct (lookup N seed (data s)); reflexivity.
    - rewrite run_cons, IH.
      destruct o as [n commit hint|k v|k|].
      1,3,4: rewrite step_data_non_tell by congruence; reflexivity.
      cbn [step fst first_told]. unfold tell. destruct (known s k) eqn:E.
      + destruct (Nat.eqb_spec seed k) as [->|Hne]; [|reflexivity].
        destruct (lookup_known s k E) as [w ->]. reflexivity.
      + cbn [data]. rewrite lookup_app. destruct (lookup N seed (data s)); [reflexivity|].
        destruct (seed =? k); reflexivity.
  Qed.

  (* ---- ask hands out fresh seeds ---- *)
  Lemma taken_In s p : taken s p = true <-> In p (keys s) \/ In p (pend s).
  Proof. unfold taken. rewrite orb_true_iff, known_In, nat_mem_In. tauto. Qed.

  Lemma candidates_enough s n : Inv s -> n <= length (candidates s n).
  Proof.
    intros H. unfold candidates.
    pose proof (filter_split_length (taken s) (seq 0 (n_requested s + n))) as Hs.
    rewrite seq_length in Hs.
    assert (length (filter (taken s) (seq 0 (n_requested s + n))) <= n_requested s).
    { unfold n_requested. rewrite (inv_npoints H).
      replace (length (data s)) with (length (keys s)) by (unfold keys; apply map_length).
      rewrite <- app_length. apply NoDup_incl_length.
      - apply NoDup_filter, seq_NoDup.
      - intros p Hp. apply filter_In in Hp as [_ Hp]. apply taken_In in Hp. apply in_app_iff. exact Hp. }
    lia.
  Qed.

  Lemma ask_points_fresh s n hint : Inv s ->
    length (ask_points s n hint) = n /\ NoDup (ask_points s n hint) /\
    forall p, In p (ask_points s n hint) -> ~ In p (keys s) /\ ~ In p (pend s).
  Proof.
    intros H. unfold ask_points.
    assert (Hnt : forall p, taken s p = false -> ~ In p (keys s) /\ ~ In p (pend s)).
    { intros p Hp. split; intros Hin; assert (taken s p = true) by (apply taken_In; tauto); congruence. }
    destruct (existsb (taken s) (seq (n_requested s) n)) eqn:E.
    - pose proof (candidates_enough s n H) as Hlen.
      assert (Hnd : NoDup (candidates s n)) by (apply NoDup_filter, seq_NoDup).
      rewrite (Permutation_length (reorder_perm hint _ Hnd)) in Hlen.
      split; [apply firstn_length_le; exact Hlen|]. split.
      + apply NoDup_firstn, reorder_NoDup, Hnd.
      + intros p Hp. apply In_firstn in Hp. apply reorder_In in Hp.
        apply filter_In in Hp as [_ Hp]. apply Hnt. destruct (taken s p); [discriminate|reflexivity].
    - split; [apply seq_length|]. split; [apply seq_NoDup|].
      intros p Hp. apply Hnt. eapply existsb_false_forall; eauto.
  Qed.

  (* every admissible answer of the fallback branch is produced by some hint *)
  Lemma ask_points_any_choice s n pts :
    existsb (taken s) (seq (n_requested s) n) = true ->
    NoDup pts -> length pts = n -> (forall p, In p pts -> In p (candidates s n)) ->
    ask_points s n pts = pts.
  Proof.
    intros E Hn Hl Hin. unfold ask_points. rewrite E. rewrite <- Hl at 1. apply reorder_prefix; assumption.
  Qed.

  Lemma loss_real_some c s : loss c s true <> None.
  Proof.
    unfold loss, loss_n, mean, min_npoints.
    destruct (npoints s <? Nat.max (min_npoints_arg c) 2) eqn:E; cbn [orb]; [discriminate|].
    apply Nat.ltb_ge in E.
    destruct (npoints s) as [|k] eqn:En; [lia|].
    cbn [Nat.eqb andb]. rewrite andb_false_r. discriminate.
  Qed.

  Lemma loss_n_some_pos c s n : 0 < npoints s -> loss_n c s n <> None.
  Proof.
    intros Hp. unfold loss_n, mean. destruct (npoints s) as [|k]; [lia|]. cbn [Nat.eqb].
    destruct ((n <? min_npoints c) || (guard c && false)); discriminate.
  Qed.

  (* ask(n) with n >= 1 never raises (np.isfinite(inf) is false) *)
  Lemma ask_answers c s n commit hint : n_finite N (n_inf N) = false -> 1 <= n ->
    exists imp, snd (ask c s n commit hint) = Asked N (ask_points s n hint) imp.
  Proof.
    intros Hfin Hn. unfold ask. destruct n as [|n]; [lia|].
    assert (exists li, loss_improvement c s (S n) = Some li) as [li ->].
    { unfold loss_improvement. destruct (loss c s true) as [l|] eqn:E; [|exfalso; eapply loss_real_some; eauto].
      destruct (n_finite N l) eqn:Ef; [|eauto].
      destruct (loss_n c s (npoints s + S n)) eqn:E2; [eauto|].
      exfalso. revert E2. apply loss_n_some_pos.
      (* a finite loss means at least min_npoints >= 2 values *)
      destruct (npoints s) as [|k] eqn:En; [|lia].
      unfold loss, loss_n in E. rewrite En in E.
      assert (Hm : (0 <? min_npoints c) = true) by (apply Nat.ltb_lt; unfold min_npoints; lia).
      rewrite Hm in E. cbn [orb] in E. congruence. }
    eexists. reflexivity.
  Qed.

  (* whatever ask returns are the points of [ask_points]; a committing ask marks them pending *)
  Lemma ask_returns c s n commit hint pts imp :
    snd (ask c s n commit hint) = Asked N pts imp -> pts = ask_points s n hint.
  Proof.
    unfold ask. destruct n as [|n].
    - (* ask(0) answers ([], []) *)
      cbn [snd]. intros H. inversion H. unfold ask_points. cbn [seq existsb]. reflexivity.
    - destruct (loss_improvement c s (S n)); [|discriminate].
      cbn [snd]. intros H. inversion H. reflexivity.
  Qed.

  Lemma ask_commits c s n hint pts imp p :
    snd (ask c s n true hint) = Asked N pts imp ->
    In p pts -> In p (pend (fst (ask c s n true hint))).
  Proof.
    intros Hs Hp. pose proof (ask_returns _ _ _ _ _ _ _ Hs) as ->. revert Hs Hp. unfold ask.
    destruct n as [|n]; [intros _ Hp; exfalso; unfold ask_points in Hp; cbn [seq existsb] in Hp; exact Hp|intros Hs Hp].
    revert Hs.
    destruct (loss_improvement c s (S n)); [|discriminate]. intros _.
    cbn [fst]. rewrite fold_pending_pend. apply fold_insert_In. left; exact Hp.
  Qed.

  (* ---- the undefined cases, for every number structure ---- *)
  Lemma std_undefined c s : npoints s < min_npoints c -> std c s = n_inf N.
  Proof. intros H. unfold std. apply Nat.ltb_lt in H. rewrite H. reflexivity. Qed.

  Lemma loss_undefined c s (real : bool) :
    (if real then npoints s else n_requested s) < min_npoints c -> loss c s real = Some (n_inf N).
  Proof. intros H. unfold loss, loss_n. apply Nat.ltb_lt in H. rewrite H. reflexivity. Qed.

  Lemma loss_exp_raises_iff c s :
    loss c s false = None <-> guard c = false /\ npoints s = 0 /\ min_npoints c <= length (pend s).
  Proof.
    unfold loss, loss_n, mean, n_requested.
    destruct (npoints s) as [|k]; cbn [Nat.eqb plus].
    - rewrite andb_true_r. destruct (length (pend s) <? min_npoints c) eqn:E; cbn [orb].
      + apply Nat.ltb_lt in E. split; [discriminate|intros [_ [_ ?]]; lia].
      + apply Nat.ltb_ge in E. destruct (guard c); split; try discriminate; try tauto.
        intros [? _]; discriminate.
    - rewrite andb_false_r.
      match goal with |- context [if ?b then _ else _] => destruct b end; (split; [discriminate|intros [_ [? _]]; lia]).
  Qed.

  Lemma loss_total_repaired c s (real : bool) : guard c = true -> loss c s real <> None.
  Proof.
    intros Hg. destruct real; [apply loss_real_some|].
    intros H. apply loss_exp_raises_iff in H. destruct H as [H _]. congruence.
  Qed.

  Lemma loss_total_refuted (a r : num N) :
    let c := mkcfg N a r 2 false in
    loss c (reach c [TellPending 0; TellPending 1]) false = None.
  Proof. reflexivity. Qed.
End Generic.
Arguments Inv {N} s.
Arguments inv_nodup {N s}. Arguments inv_npoints {N s}. Arguments inv_sum {N s}.
Arguments inv_sumsq {N s}. Arguments inv_pend {N s}.

(* ------------------------------------------------------------------ *)
(* The model over the real numbers *)
From Coq Require Import Reals Lra.

Definition Rltb (a b : R) : bool := if Rlt_dec a b then true else false.
Definition Rleb (a b : R) : bool := if Rle_dec a b then true else false.
Definition Reqb (a b : R) : bool := if Req_EM_T a b then true else false.

(* [infR] stands for the value the code calls inf; the theorems hold for any choice *)
Definition ROps (infR : R) : NumOps :=
  mkNumOps 0%R infR Rplus Rminus Rmult Rdiv sqrt (fun x => (x * x)%R) Rabs
           Rltb Rleb Reqb (fun _ => true) INR.

Fixpoint sumR (l : list R) : R := match l with [] => 0%R | x :: l' => (x + sumR l')%R end.
(* sample mean, corrected sample variance *)
Definition meanR (l : list R) : R := (sumR l / INR (length l))%R.
Definition sqdevR (l : list R) (m : R) : R := sumR (map (fun y => ((y - m) * (y - m))%R) l).
Definition varR (l : list R) : R := (sqdevR l (meanR l) / INR (length l - 1))%R.

Local Open Scope R_scope.

Lemma fold_left_Rplus l : forall a, fold_left Rplus l a = a + sumR l.
Proof. induction l as [|x l IH]; cbn [fold_left sumR]; intros a; [lra|]. rewrite IH. lra. Qed.

Lemma suml_R infR l : suml (ROps infR) l = sumR l.
Proof. unfold suml. cbn. rewrite fold_left_Rplus. lra. Qed.

Lemma sumR_app l1 l2 : sumR (l1 ++ l2) = sumR l1 + sumR l2.
Proof. induction l1 as [|a l1 IH]; cbn [app sumR]; [lra|]. rewrite IH. lra. Qed.

Lemma sqdev_expand l m :
  sqdevR l m = sumR (map (fun y => y * y) l) - 2 * m * sumR l + INR (length l) * (m * m).
Proof.
  unfold sqdevR. induction l as [|y l IH]; [cbn; lra|].
  cbn [map sumR length]. rewrite S_INR, IH. ring.
Qed.

Lemma sqdev_nonneg l m : 0 <= sqdevR l m.
Proof.
  unfold sqdevR. induction l as [|y l IH]; cbn [map sumR]; [lra|].
  pose proof (Rle_0_sqr (y - m)) as H. unfold Rsqr in H. lra.
Qed.

(* sum of squares - n * mean^2 = sum of squared deviations from the mean *)
Lemma moment_identity l : l <> [] ->
  sumR (map (fun y => y * y) l) - INR (length l) * (meanR l * meanR l) = sqdevR l (meanR l).
Proof.
  intros Hl. rewrite sqdev_expand. unfold meanR.
  assert (INR (length l) <> 0) by (apply not_0_INR; destruct l; [congruence|discriminate]).
  field. exact H.
Qed.

Lemma pymax_R infR a b : pymax (ROps infR) a b = Rmax a b.
Proof.
  unfold pymax. cbn. unfold Rltb, Rmax. destruct (Rlt_dec a b), (Rle_dec a b); try reflexivity; lra.
Qed.

Local Close Scope R_scope.

Section Real.
  Variable infR : R.
  Notation RN := (ROps infR).
  Implicit Types (s : st RN) (c : cfg RN).

  Lemma mean_R s : Inv s -> 0 < npoints s -> mean s = Some (meanR (values s)).
  Proof.
    intros H Hp. unfold mean, mean_val. destruct (npoints s) as [|k] eqn:E; [lia|]. cbn [Nat.eqb].
    rewrite (inv_sum H), suml_R. unfold meanR, values. rewrite map_length, <- (inv_npoints H), E. reflexivity.
  Qed.

  Lemma mean_val_R s : Inv s -> mean_val s = meanR (values s).
  Proof.
    intros H. unfold mean_val. rewrite (inv_sum H), suml_R. unfold meanR, values.
    rewrite map_length, <- (inv_npoints H). reflexivity.
  Qed.

  Lemma std_R c s : Inv s -> min_npoints c <= npoints s -> std c s = sqrt (varR (values s)).
  Proof.
    intros H Hn. unfold std. apply Nat.ltb_ge in Hn as Hb. rewrite Hb.
    assert (Hlen : @length R (values s) = npoints s) by (unfold values; rewrite map_length, (inv_npoints H); reflexivity).
    assert (Hne : values s <> []).
    { intros E. rewrite E in Hlen. cbn in Hlen. unfold min_npoints in Hn. lia. }
    assert (Hnum : std_numerator s = sqdevR (values s) (meanR (values s))).
    { unfold std_numerator. rewrite (inv_sumsq H), suml_R, (mean_val_R s H).
      cbn [n_sub n_mul n_of_nat n_sq ROps]. rewrite <- Hlen. apply (moment_identity _ Hne). }
    rewrite Hnum. cbn [n_ltb n_zero n_sqrt n_div n_of_nat ROps].
    unfold Rltb. destruct (Rlt_dec (sqdevR (values s) (meanR (values s))) 0%R) as [Hlt|_].
    - pose proof (sqdev_nonneg (values s) (meanR (values s))). lra.
    - unfold varR; rewrite Hlen. reflexivity.
  Qed.

  (* the standard error relative to the tolerances *)
  Definition loss_spec c (sd m : R) (n : nat) : R :=
    let se := (sd / sqrt (INR n))%R in
    Rmax (se / atol c)%R (if Req_EM_T m 0%R then (se / rtol c)%R else (se / rtol c / Rabs m)%R).

  Lemma loss_R c s (real : bool) : Inv s -> min_npoints c <= npoints s ->
    loss c s real =
    Some (loss_spec c (std c s) (meanR (values s)) (if real then npoints s else npoints s + length (pend s))).
  Proof.
    intros H Hn. unfold loss, loss_n, n_requested.
    assert (Hp : 0 < npoints s) by (unfold min_npoints in Hn; lia).
    set (n := if real then npoints s else npoints s + length (pend s)).
    assert (Hnn : (n <? min_npoints c) = false) by (apply Nat.ltb_ge; subst n; destruct real; lia).
    assert (Hz : (npoints s =? 0) = false) by (apply Nat.eqb_neq; lia).
    replace (if real then npoints s else npoints s + length (pend s)) with n by reflexivity.
    rewrite Hnn, Hz, andb_false_r. cbn [orb]. rewrite (mean_R s H Hp).
    f_equal. rewrite pymax_R. unfold loss_spec. cbn [n_div n_sqrt n_of_nat n_eqb n_zero n_abs ROps].
    unfold Reqb. destruct (Req_EM_T (meanR (values s)) 0%R); reflexivity.
  Qed.
End Real.
