(* Proofs about the traced loss kernels of learner1D.py, learnerND.py and
   learner2D.py (gen/Prims.v). *)
From Coq Require Import Reals Lra Psatz Bool.
From AV Require Import Model.PrimsBase Model.PrimsSpec Proofs.PrimsLemmas Proofs.PrimsGeom Proofs.PrimsVolume.
From AVGen Require Import Prims.
Local Open Scope R_scope.

Ltac abs_into D :=
  repeat match goal with |- context [Rabs ?x] =>
    tryif constr_eq x D then fail else
    first [ replace x with D by (unfold det2, det3; ring)
          | replace x with (- D) by (unfold det2, det3; ring); rewrite (Rabs_Ropp D) ] end.
(* rewrite every [sqrt x] of the goal whose argument equals t into [sqrt t] *)
Ltac sqrt_into t :=
  repeat match goal with |- context [sqrt ?x] =>
    tryif constr_eq x t then fail else replace x with t by (unfold sq; ring) end.

Ltac pair_eq := repeat match goal with |- (_, _) = (_, _) => f_equal end.

(* ---- learner1D ---- *)
Lemma l1_uniform_loss_spec : forall x0 x1 y0 y1, l1_uniform_loss x0 x1 y0 y1 = x1 - x0.
Proof. intros; unfold l1_uniform_loss; ring. Qed.

Lemma l1_default_loss_spec : forall x0 x1 y0 y1,
  l1_default_loss x0 x1 y0 y1 = hyp (x1 - x0) (y1 - y0).
Proof.
  intros; unfold l1_default_loss, hyp; cbv zeta.
  sqrt_into ((x1 - x0) * (x1 - x0) + (y1 - y0) * (y1 - y0)). reflexivity.
Qed.

Lemma l1_default_loss_v2_spec : forall x0 x1 y00 y01 y10 y11,
  l1_default_loss_v2 x0 x1 y00 y01 y10 y11 = Rmax (hyp (x1 - x0) (y10 - y00)) (hyp (x1 - x0) (y11 - y01)).
Proof.
  intros; unfold l1_default_loss_v2, hyp; cbv zeta.
  rewrite !Rabs_sq.
  set (A := (x1 - x0) * (x1 - x0) + (y10 - y00) * (y10 - y00)).
  set (B := (x1 - x0) * (x1 - x0) + (y11 - y01) * (y11 - y01)).
  repeat match goal with |- context [sqrt ?x] =>
    tryif first [constr_eq x A | constr_eq x B] then fail else
    first [replace x with A by (unfold A; ring) | replace x with B by (unfold B; ring)] end.
  unfold Rmax; rcase; destruct (Rle_dec (sqrt A) (sqrt B)); lra.
Qed.

Lemma l1_abs_min_log_loss_spec : forall x0 x1 y0 y1,
  l1_abs_min_log_loss x0 x1 y0 y1 = hyp (x1 - x0) (ln (Rabs y1) - ln (Rabs y0)).
Proof.
  intros; unfold l1_abs_min_log_loss, hyp; cbv zeta.
  sqrt_into ((x1 - x0) * (x1 - x0) + (ln (Rabs y1) - ln (Rabs y0)) * (ln (Rabs y1) - ln (Rabs y0))).
  reflexivity.
Qed.

Lemma l1_triangle_loss_full_spec : forall x0 x1 x2 x3 y0 y1 y2 y3,
  l1_triangle_loss_full x0 x1 x2 x3 y0 y1 y2 y3
  = (tri_area x0 y0 x1 y1 x2 y2 + tri_area x1 y1 x2 y2 x3 y3) / 2.
Proof.
  intros; unfold l1_triangle_loss_full, tri_area; cbv zeta.
  abs_into (det2 (x1 - x0) (y1 - y0) (x2 - x0) (y2 - y0)).
  abs_into (det2 (x2 - x1) (y2 - y1) (x3 - x1) (y3 - y1)).
  field.
Qed.

Lemma l1_triangle_loss_left_spec : forall x1 x2 x3 y1 y2 y3,
  l1_triangle_loss_left x1 x2 x3 y1 y2 y3 = tri_area x1 y1 x2 y2 x3 y3.
Proof.
  intros; unfold l1_triangle_loss_left, tri_area; cbv zeta.
  abs_into (det2 (x2 - x1) (y2 - y1) (x3 - x1) (y3 - y1)). field.
Qed.

Lemma l1_triangle_loss_right_spec : forall x0 x1 x2 y0 y1 y2,
  l1_triangle_loss_right x0 x1 x2 y0 y1 y2 = tri_area x0 y0 x1 y1 x2 y2.
Proof.
  intros; unfold l1_triangle_loss_right, tri_area; cbv zeta.
  abs_into (det2 (x1 - x0) (y1 - y0) (x2 - x0) (y2 - y0)). field.
Qed.

Lemma l1_triangle_loss_none_spec : forall x1 x2 y1 y2,
  l1_triangle_loss_none x1 x2 y1 y2 = x2 - x1.
Proof. intros; unfold l1_triangle_loss_none; ring. Qed.

(* vector-valued function: area of the triangle in R^3 through Cayley-Menger *)
Lemma l1_triangle_loss_v2_spec : forall x0 x1 x2 y00 y01 y10 y11 y20 y21,
  l1_triangle_loss_v2 x0 x1 x2 y00 y01 y10 y11 y20 y21
  = Val (sqrt (tri_area2_3 x0 y00 y01 x1 y10 y11 x2 y20 y21)).
Proof.
  intros. pose proof (tri_area2_3_nonneg x0 y00 y01 x1 y10 y11 x2 y20 y21).
  unfold l1_triangle_loss_v2. cbv zeta.
  match goal with |- context [Rltb ?v 0] =>
    replace v with (tri_area2_3 x0 y00 y01 x1 y10 y11 x2 y20 y21)
      by (unfold tri_area2_3, det2, sq; field) end.
  destruct (Rltb_spec (tri_area2_3 x0 y00 y01 x1 y10 y11 x2 y20 y21) 0); [exfalso; lra|].
  f_equal; field.
Qed.

Lemma l1_curvature_loss_spec : forall af ef hf x0 x1 x2 x3 y0 y1 y2 y3,
  l1_curvature_loss af ef hf x0 x1 x2 x3 y0 y1 y2 y3
  = af * sqrt ((tri_area x0 y0 x1 y1 x2 y2 + tri_area x1 y1 x2 y2 x3 y3) / 2)
    + ef * hyp (x2 - x1) (y2 - y1) + hf * (x2 - x1).
Proof.
  intros; unfold l1_curvature_loss, tri_area, hyp; cbv zeta.
  abs_into (det2 (x1 - x0) (y1 - y0) (x2 - x0) (y2 - y0)).
  abs_into (det2 (x2 - x1) (y2 - y1) (x3 - x1) (y3 - y1)).
  reflexivity.
Qed.

Lemma l1_resolution_loss_spec : forall mn mx x0 x1 y0 y1,
  (x1 - x0 < mn -> l1_resolution_loss mn mx x0 x1 y0 y1 = Val 0) /\
  (mn <= x1 - x0 -> mx < x1 - x0 -> l1_resolution_loss mn mx x0 x1 y0 y1 = PInf) /\
  (mn <= x1 - x0 -> x1 - x0 <= mx ->
   l1_resolution_loss mn mx x0 x1 y0 y1 = Val (hyp (x1 - x0) (y1 - y0))).
Proof.
  intros; unfold l1_resolution_loss, hyp; cbv zeta.
  sqrt_into ((x1 - x0) * (x1 - x0) + (y1 - y0) * (y1 - y0)).
  rcase; repeat split; intros; try reflexivity; exfalso; lra.
Qed.

(* linspace(a, b, n): the n-1 interior points a + k (b-a)/n *)
(* n = 1: the empty list, which the translator prints as 0 *)
Lemma l1_linspace1_spec : forall a b, l1_linspace1 a b = 0.
Proof. reflexivity. Qed.
Lemma l1_linspace2_spec : forall a b, l1_linspace2 a b = a + 1 * (b - a) / 2.
Proof. intros; unfold l1_linspace2; field. Qed.
Lemma l1_linspace3_spec : forall a b,
  l1_linspace3 a b = (a + 1 * (b - a) / 3, a + 2 * (b - a) / 3).
Proof. intros; unfold l1_linspace3; cbv zeta; pair_eq; field. Qed.
Lemma l1_linspace4_spec : forall a b,
  l1_linspace4 a b = (a + 1 * (b - a) / 4, a + 2 * (b - a) / 4, a + 3 * (b - a) / 4).
Proof. intros; unfold l1_linspace4; cbv zeta; pair_eq; field. Qed.
Lemma l1_linspace5_spec : forall a b,
  l1_linspace5 a b = (a + 1 * (b - a) / 5, a + 2 * (b - a) / 5, a + 3 * (b - a) / 5, a + 4 * (b - a) / 5).
Proof. intros; unfold l1_linspace5; cbv zeta; pair_eq; field. Qed.
Lemma l1_linspace8_spec : forall a b,
  l1_linspace8 a b = (a + 1 * (b - a) / 8, a + 2 * (b - a) / 8, a + 3 * (b - a) / 8, a + 4 * (b - a) / 8,
                      a + 5 * (b - a) / 8, a + 6 * (b - a) / 8, a + 7 * (b - a) / 8).
Proof. intros; unfold l1_linspace8; cbv zeta; pair_eq; field. Qed.

(* equally spaced, including the distance to both end points (n = 4 shown) *)
Lemma l1_linspace4_equispaced : forall a b,
  let '(u, v, w) := l1_linspace4 a b in
  u - a = (b - a) / 4 /\ v - u = (b - a) / 4 /\ w - v = (b - a) / 4 /\ b - w = (b - a) / 4.
Proof. intros; rewrite l1_linspace4_spec; repeat split; field. Qed.

(* ---- learnerND ---- *)
Lemma nd_uniform_loss2_spec : forall ax ay bx b_y cx cy y0 y1 y2 scale,
  nd_uniform_loss2 ax ay bx b_y cx cy y0 y1 y2 scale = tri_area ax ay bx b_y cx cy.
Proof.
  intros; unfold nd_uniform_loss2, tri_area; cbv zeta.
  abs_into (det2 (bx - ax) (b_y - ay) (cx - ax) (cy - ay)). field.
Qed.

Lemma nd_default_loss2_spec : forall ax ay bx b_y cx cy y0 y1 y2 scale,
  nd_default_loss2 ax ay bx b_y cx cy y0 y1 y2 scale
  = Val (sqrt (tri_area2_3 ax ay y0 bx b_y y1 cx cy y2)).
Proof.
  intros. pose proof (tri_area2_3_nonneg ax ay y0 bx b_y y1 cx cy y2).
  unfold nd_default_loss2. cm_tac (tri_area2_3 ax ay y0 bx b_y y1 cx cy y2).
Qed.

Lemma nd_default_loss2v_spec : forall ax ay bx b_y cx cy y00 y01 y10 y11 y20 y21 scale,
  nd_default_loss2v ax ay bx b_y cx cy y00 y01 y10 y11 y20 y21 scale
  = Val (sqrt (tri_area2_4 ax ay y00 y01 bx b_y y10 y11 cx cy y20 y21)).
Proof.
  intros. pose proof (tri_area2_4_nonneg ax ay y00 y01 bx b_y y10 y11 cx cy y20 y21).
  unfold nd_default_loss2v. cm_tac (tri_area2_4 ax ay y00 y01 bx b_y y10 y11 cx cy y20 y21).
Qed.

(* choose_point_in_simplex, 2-d, no transform: centroid when the circumcentre passes
   the point-in-simplex test (with the float constants -1e-8 and fl(1+1e-8)), else the
   mid-point of a longest edge (first maximum in numpy's argmax order) *)
Lemma sqrt_dist_pos a b : a <> 0 \/ b <> 0 -> 0 < sqrt (a * a + b * b).
Proof. intros H. apply sqrt_lt_R0. destruct H; nra. Qed.

Lemma nd_choose_point2_spec : forall ax ay bx b_y cx cy s t,
  det2 (bx - ax) (b_y - ay) (cx - ax) (cy - ay) <> 0 ->
  let '((ox, oy), _) := fast_2d_circumcircle ax ay bx b_y cx cy in
  ox = ax + s * (bx - ax) + t * (cx - ax) ->
  oy = ay + s * (b_y - ay) + t * (cy - ay) ->
  let nice := - eps8 <= s /\ s <= one_eps8 /\ - eps8 <= t /\ s + t <= one_eps8 in
  let dab := sqrt (dist2_2 ax ay bx b_y) in
  let dac := sqrt (dist2_2 ax ay cx cy) in
  let dbc := sqrt (dist2_2 bx b_y cx cy) in
  let r := nd_choose_point2 ax ay bx b_y cx cy in
  (nice -> r = ((ax + bx + cx) / 3, (ay + b_y + cy) / 3)) /\
  (~ nice ->
     (r = (mid ax bx, mid ay b_y) /\ dac <= dab /\ dbc <= dab) \/
     (r = (mid ax cx, mid ay cy) /\ dab <= dac /\ dbc <= dac) \/
     (r = (mid bx cx, mid b_y cy) /\ dab <= dbc /\ dac <= dbc)).
Proof.
  intros ax ay bx b_y cx cy s t H. unfold det2 in H.
  unfold fast_2d_circumcircle, nd_choose_point2, dist2_2, sq, mid; cbv beta iota zeta.
  intros Hox Hoy. rewrite Hox, Hoy. clear Hox Hoy.
  assert (Pab : 0 < sqrt ((ax - bx) * (ax - bx) + (ay - b_y) * (ay - b_y))).
  { apply sqrt_dist_pos. destruct (Req_dec (ax - bx) 0) as [E1|]; [|tauto].
    destruct (Req_dec (ay - b_y) 0) as [E2|]; [|tauto]. exfalso; apply H.
    replace bx with ax by lra. replace b_y with ay by lra. ring. }
  assert (Pac : 0 < sqrt ((ax - cx) * (ax - cx) + (ay - cy) * (ay - cy))).
  { apply sqrt_dist_pos. destruct (Req_dec (ax - cx) 0) as [E1|]; [|tauto].
    destruct (Req_dec (ay - cy) 0) as [E2|]; [|tauto]. exfalso; apply H.
    replace cx with ax by lra. replace cy with ay by lra. ring. }
  assert (Pbc : 0 < sqrt ((bx - cx) * (bx - cx) + (b_y - cy) * (b_y - cy))).
  { apply sqrt_dist_pos. destruct (Req_dec (bx - cx) 0) as [E1|]; [|tauto].
    destruct (Req_dec (b_y - cy) 0) as [E2|]; [|tauto]. exfalso; apply H.
    replace cx with bx by lra. replace cy with b_y by lra. ring. }
  set (dab := sqrt ((ax - bx) * (ax - bx) + (ay - b_y) * (ay - b_y))) in *.
  set (dac := sqrt ((ax - cx) * (ax - cx) + (ay - cy) * (ay - cy))) in *.
  set (dbc := sqrt ((bx - cx) * (bx - cx) + (b_y - cy) * (b_y - cy))) in *.
  clearbody dab dac dbc.
  repeat match goal with
  | |- context [Rltb ?x (IZR _ / IZR _)] =>
      tryif first [constr_eq x s | constr_eq x t] then fail else
      first [replace x with s by (field; lra) | replace x with t by (field; lra)]
  | |- context [Rleb (IZR _ / IZR _) ?x] =>
      tryif first [constr_eq x s | constr_eq x t] then fail else
      first [replace x with s by (field; lra) | replace x with t by (field; lra)]
  end.
  unfold eps8, one_eps8.
  split; rcase; intros N;
    (first [ exfalso; lra
           | pair_eq; field
           | left; split; [pair_eq; field | lra]
           | right; left; split; [pair_eq; field | lra]
           | right; right; split; [pair_eq; field | lra] ]).
Qed.

(* ---- learner2D ---- *)
Lemma l2_areas_spec : forall ax ay bx b_y cx cy, l2_areas ax ay bx b_y cx cy = tri_area ax ay bx b_y cx cy.
Proof.
  intros; unfold l2_areas, tri_area; cbv zeta.
  abs_into (det2 (bx - ax) (b_y - ay) (cx - ax) (cy - ay)). field.
Qed.

Lemma l2_uniform_loss_spec : forall ax ay bx b_y cx cy,
  l2_uniform_loss ax ay bx b_y cx cy = sqrt (tri_area ax ay bx b_y cx cy).
Proof.
  intros; unfold l2_uniform_loss, tri_area; cbv zeta.
  abs_into (det2 (bx - ax) (b_y - ay) (cx - ax) (cy - ay)). reflexivity.
Qed.
