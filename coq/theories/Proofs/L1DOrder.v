(* Order-theoretic lemmas for the Learner1D model: sorted lists of abstract
   numbers, neighbours, adjacency (= consecutive pairs), interval-keyed maps. *)
From AV Require Import Base.Prelude Model.L1D.
From Coq Require Import Sorted.
Set Implicit Arguments.

Section Order.
  Variable num : Type.
  Variables (ltb eqb : num -> num -> bool).

  (* the order laws: [eqb] decides equality, [ltb] is a strict total order *)
  Record OrdLaws : Prop := {
    eqb_eq : forall x y, eqb x y = true <-> x = y;
    ltb_irrefl : forall x, ltb x x = false;
    ltb_trans : forall x y z, ltb x y = true -> ltb y z = true -> ltb x z = true;
    ltb_total : forall x y, ltb x y = false -> ltb y x = false -> x = y
  }.
  Hypothesis OL : OrdLaws.

  Definition lt (x y : num) : Prop := ltb x y = true.
  Definition sorted (l : list num) : Prop := StronglySorted lt l.

  Notation insert := (@insert num ltb eqb).
  Notation mem := (@mem num eqb).
  Notation find_left := (@find_left num ltb).
  Notation find_right := (@find_right num ltb).
  Notation pairs := (@pairs num).

  Lemma eqb_refl x : eqb x x = true.
  Proof. apply (eqb_eq OL). reflexivity. Qed.

  Lemma eqb_neq x y : eqb x y = false <-> x <> y.
  Proof.
    split.
    - intros H E. apply (eqb_eq OL) in E. congruence.
    - intros H. destruct (eqb x y) eqn:E; [|reflexivity]. apply (eqb_eq OL) in E. contradiction.
  Qed.

  Lemma lt_irrefl x : ~ lt x x.
  Proof. unfold lt. rewrite (ltb_irrefl OL). discriminate. Qed.

  Lemma lt_trans x y z : lt x y -> lt y z -> lt x z.
  Proof. apply (ltb_trans OL). Qed.

  Lemma lt_asym x y : lt x y -> ~ lt y x.
  Proof. intros H1 H2. apply (@lt_irrefl x). eapply lt_trans; eauto. Qed.

  Lemma lt_neq x y : lt x y -> x <> y.
  Proof. intros H ->. exact (lt_irrefl H). Qed.

  Lemma trichotomy x y : lt x y \/ x = y \/ lt y x.
  Proof.
    unfold lt. destruct (ltb x y) eqn:E1; [left; reflexivity|].
    destruct (ltb y x) eqn:E2; [right; right; reflexivity|].
    right; left. apply (ltb_total OL); assumption.
  Qed.

  Lemma mem_In x l : mem x l = true <-> In x l.
  Proof.
    induction l as [|y l IH]; cbn [L1D.mem In]; [split; [discriminate|tauto]|].
    rewrite orb_true_iff, IH, (eqb_eq OL). split; intros [H|H]; auto.
  Qed.

  Lemma sorted_inv x l : sorted (x :: l) -> sorted l /\ Forall (lt x) l.
  Proof. intros H; inversion H; auto. Qed.

  Lemma sorted_cons x l : sorted l -> (forall y, In y l -> lt x y) -> sorted (x :: l).
  Proof. intros Hs Hf. constructor; [exact Hs|]. apply Forall_forall. exact Hf. Qed.

  Lemma sorted_head_lt x l y : sorted (x :: l) -> In y l -> lt x y.
  Proof. intros H Hy. apply sorted_inv in H as [_ Hf]. rewrite Forall_forall in Hf. auto. Qed.

  Lemma In_dec_num (x : num) (l : list num) : In x l \/ ~ In x l.
  Proof. destruct (mem x l) eqn:E; [left; apply mem_In; exact E|right; intros H; apply mem_In in H; congruence]. Qed.

  (* ---------------- insert ---------------- *)
  Lemma insert_In x y l : In y (insert x l) <-> y = x \/ In y l.
  Proof.
    induction l as [|z l IH]; cbn [L1D.insert In].
    - intuition.
    - destruct (ltb x z) eqn:E1; [cbn [In]; intuition|].
      destruct (eqb x z) eqn:E2.
      + apply (eqb_eq OL) in E2. subst. cbn [In]. intuition.
      + cbn [In]. rewrite IH. intuition.
  Qed.

  Lemma insert_sorted x l : sorted l -> sorted (insert x l).
  Proof.
    induction l as [|z l IH]; cbn [L1D.insert]; intros H.
    - apply sorted_cons; [constructor|intros y []].
    - destruct (ltb x z) eqn:E1.
      + apply sorted_cons; [exact H|]. intros y [<-|Hy]; [exact E1|].
        eapply lt_trans; [exact E1|]. eapply sorted_head_lt; eauto.
      + destruct (eqb x z) eqn:E2; [exact H|].
        pose proof (sorted_inv H) as [Hs Hf].
        apply sorted_cons; [apply IH; exact Hs|].
        intros y Hy. apply insert_In in Hy as [->|Hy].
        * destruct (trichotomy z x) as [Hl|[He|Hl]]; [exact Hl| |].
          -- subst. rewrite eqb_refl in E2. discriminate.
          -- unfold lt in Hl. congruence.
        * rewrite Forall_forall in Hf. auto.
  Qed.

  Lemma insert_id x l : sorted l -> In x l -> insert x l = l.
  Proof.
    induction l as [|z l IH]; cbn [L1D.insert In]; intros Hs Hin; [tauto|].
    destruct Hin as [->|Hin].
    - rewrite (ltb_irrefl OL), eqb_refl. reflexivity.
    - pose proof (sorted_head_lt _ Hs Hin) as Hzx.
      destruct (ltb x z) eqn:E1; [exfalso; eapply lt_asym; eauto|].
      destruct (eqb x z) eqn:E2; [reflexivity|].
      f_equal. apply IH; [apply sorted_inv in Hs; tauto|exact Hin].
  Qed.

  (* ---------------- neighbours ---------------- *)
  (* order-theoretic specification of the nearest element left / right of x *)
  Definition is_left (l : list num) (x : num) (o : option num) : Prop :=
    match o with
    | Some a => In a l /\ lt a x /\ forall c, In c l -> lt c x -> c = a \/ lt c a
    | None => forall c, In c l -> ~ lt c x
    end.
  Definition is_right (l : list num) (x : num) (o : option num) : Prop :=
    match o with
    | Some b => In b l /\ lt x b /\ forall c, In c l -> lt x c -> c = b \/ lt b c
    | None => forall c, In c l -> ~ lt x c
    end.

  Lemma find_right_spec x l : sorted l -> is_right l x (find_right x l).
  Proof.
    induction l as [|z l IH]; cbn [L1D.find_right]; intros Hs.
    - intros c [].
    - destruct (ltb x z) eqn:E.
      + split; [left; reflexivity|]. split; [exact E|].
        intros c [<-|Hc] _; [left; reflexivity|]. right. eapply sorted_head_lt; eauto.
      + pose proof (sorted_inv Hs) as [Hs' _]. specialize (IH Hs').
        destruct (find_right x l) as [b|]; cbn [is_right] in *.
        * destruct IH as [Hb [Hxb Hmin]]. split; [right; exact Hb|]. split; [exact Hxb|].
          intros c [<-|Hc] Hxc; [unfold lt in Hxc; congruence|auto].
        * intros c [<-|Hc]; [unfold lt; congruence|auto].
  Qed.

  Lemma find_left_spec_gen x l : forall acc, sorted l ->
    (forall c, In c l -> match acc with Some a => lt a c | None => True end) ->
    match acc with Some a => lt a x | None => True end ->
    match find_left x l acc with
    | Some a => (In a l \/ acc = Some a) /\ lt a x /\
                forall c, In c l -> lt c x -> c = a \/ lt c a
    | None => acc = None /\ forall c, In c l -> ~ lt c x
    end.
  Proof.
    induction l as [|z l IH]; cbn [L1D.find_left]; intros acc Hs Hacc Hax.
    - destruct acc as [a|]; [|split; [reflexivity|intros c []]].
      split; [right; reflexivity|]. split; [exact Hax|intros c []].
    - pose proof (sorted_inv Hs) as [Hs' Hf]. rewrite Forall_forall in Hf.
      destruct (ltb z x) eqn:E.
      + specialize (IH (Some z) Hs' (fun c Hc => Hf c Hc) E).
        destruct (find_left x l (Some z)) as [a|]; [|destruct IH; discriminate].
        destruct IH as [Ha [Hax' Hmax]]. split; [|split; [exact Hax'|]].
        * destruct Ha as [Ha|Ha]; [left; right; exact Ha|inversion Ha; subst; left; left; reflexivity].
        * intros c [<-|Hc] Hcx; [|auto].
          destruct Ha as [Ha|Ha]; [right; apply Hf; exact Ha|inversion Ha; left; reflexivity].
      + (* z >= x: nothing further left of x *)
        assert (Hno : forall c, In c (z :: l) -> ~ lt c x).
        { intros c [<-|Hc] Hcx; [unfold lt in Hcx; congruence|].
          assert (lt z c) by auto. assert (lt z x) by (eapply lt_trans; eauto). unfold lt in *; congruence. }
        destruct acc as [a|].
        * split; [right; reflexivity|]. split; [exact Hax|]. intros c Hc Hcx. exfalso. eapply Hno; eauto.
        * split; [reflexivity|exact Hno].
  Qed.

  Lemma find_left_spec x l : sorted l -> is_left l x (find_left x l None).
  Proof.
    intros Hs. pose proof (@find_left_spec_gen x l None Hs (fun _ _ => I) I) as H.
    destruct (find_left x l None) as [a|]; cbn [is_left].
    - destruct H as [[Ha|Ha] [H1 H2]]; [|discriminate]. auto.
    - destruct H as [_ H]. exact H.
  Qed.

  (* neighbours do not see x itself *)
  Lemma is_left_insert l x o : is_left l x o -> is_left (insert x l) x o.
  Proof.
    destruct o as [a|]; cbn [is_left].
    - intros [Ha [Hax Hm]]. split; [apply insert_In; right; exact Ha|]. split; [exact Hax|].
      intros c Hc Hcx. apply insert_In in Hc as [->|Hc]; [exfalso; eapply lt_irrefl; eauto|auto].
    - intros H c Hc Hcx. apply insert_In in Hc as [->|Hc]; [eapply lt_irrefl; eauto|eapply H; eauto].
  Qed.
  Lemma is_right_insert l x o : is_right l x o -> is_right (insert x l) x o.
  Proof.
    destruct o as [a|]; cbn [is_right].
    - intros [Ha [Hax Hm]]. split; [apply insert_In; right; exact Ha|]. split; [exact Hax|].
      intros c Hc Hcx. apply insert_In in Hc as [->|Hc]; [exfalso; eapply lt_irrefl; eauto|auto].
    - intros H c Hc Hcx. apply insert_In in Hc as [->|Hc]; [eapply lt_irrefl; eauto|eapply H; eauto].
  Qed.

  Lemma is_left_unique l x o1 o2 : is_left l x o1 -> is_left l x o2 -> o1 = o2.
  Proof.
    destruct o1 as [a|], o2 as [b|]; cbn [is_left]; intros H1 H2; try reflexivity.
    - destruct H1 as [Ha [Hax Hm1]], H2 as [Hb [Hbx Hm2]].
      destruct (Hm1 b Hb Hbx) as [->|Hba]; [reflexivity|].
      destruct (Hm2 a Ha Hax) as [->|Hab]; [reflexivity|]. exfalso. eapply lt_asym; eauto.
    - destruct H1 as [Ha [Hax _]]. exfalso. eapply H2; eauto.
    - destruct H2 as [Hb [Hbx _]]. exfalso. eapply H1; eauto.
  Qed.
  Lemma is_right_unique l x o1 o2 : is_right l x o1 -> is_right l x o2 -> o1 = o2.
  Proof.
    destruct o1 as [a|], o2 as [b|]; cbn [is_right]; intros H1 H2; try reflexivity.
    - destruct H1 as [Ha [Hax Hm1]], H2 as [Hb [Hbx Hm2]].
      destruct (Hm1 b Hb Hbx) as [->|Hba]; [reflexivity|].
      destruct (Hm2 a Ha Hax) as [->|Hab]; [reflexivity|]. exfalso. eapply lt_asym; eauto.
    - destruct H1 as [Ha [Hax _]]. exfalso. eapply H2; eauto.
    - destruct H2 as [Hb [Hbx _]]. exfalso. eapply H1; eauto.
  Qed.

  (* ---------------- adjacency = consecutive pairs ---------------- *)
  Definition adj (l : list num) (iv : num * num) : Prop :=
    In (fst iv) l /\ In (snd iv) l /\ lt (fst iv) (snd iv) /\
    forall c, In c l -> ~ (lt (fst iv) c /\ lt c (snd iv)).

  Lemma pairs_adj l : sorted l -> forall iv, In iv (pairs l) <-> adj l iv.
  Proof.
    induction l as [|a l IH]; intros Hs iv.
    - cbn. split; [tauto|intros [[] _]].
    - destruct l as [|b l'].
      + cbn [L1D.pairs In]. split; [tauto|].
        intros [H1 [H2 [H3 _]]]. cbn [In] in H1, H2.
        destruct H1 as [H1|[]], H2 as [H2|[]]. rewrite <- H1, <- H2 in H3. exact (lt_irrefl H3).
      + change (pairs (a :: b :: l')) with ((a, b) :: pairs (b :: l')). cbn [In].
        pose proof (sorted_inv Hs) as [Hs' Hf]. rewrite Forall_forall in Hf.
        rewrite (IH Hs'). split.
        * intros [<-|[H1 [H2 [H3 H4]]]].
          -- cbn [fst snd]. split; [left; reflexivity|]. split; [right; left; reflexivity|].
             split; [apply Hf; left; reflexivity|].
             intros c [<-|[<-|Hc]] [Hac Hcb]; [eapply lt_irrefl; eauto|eapply lt_irrefl; eauto|].
             assert (lt b c) by (eapply sorted_head_lt; eauto). eapply lt_asym; eauto.
          -- split; [right; exact H1|]. split; [right; exact H2|]. split; [exact H3|].
             intros c [<-|Hc] [Hac Hcb]; [|eapply H4; eauto].
             assert (lt a (fst iv)) by (apply Hf; exact H1). eapply lt_asym; eauto.
        * intros [H1 [H2 [H3 H4]]]. destruct iv as [p q]; cbn [fst snd] in *.
          destruct H1 as [<-|H1].
          -- (* p = a: then q = b *)
             left. f_equal. destruct H2 as [<-|H2]; [exfalso; eapply lt_irrefl; eauto|].
             destruct H2 as [<-|H2]; [reflexivity|]. exfalso.
             apply (H4 b); [right; left; reflexivity|]. split; [apply Hf; left; reflexivity|].
             eapply sorted_head_lt; eauto.
          -- right. split; [exact H1|]. split.
             ++ destruct H2 as [<-|H2]; [|exact H2]. exfalso.
                assert (lt a p) by (apply Hf; exact H1). eapply lt_asym; eauto.
             ++ split; [exact H3|]. intros c Hc. apply H4. right; exact Hc.
  Qed.

  (* adjacency after inserting a new point x between its neighbours *)
  Lemma adj_insert l x ol or iv : sorted l -> ~ In x l ->
    is_left l x ol -> is_right l x or ->
    (adj (insert x l) iv <->
       (adj l iv /\ ~ (ol = Some (fst iv) /\ or = Some (snd iv)))
       \/ (ol = Some (fst iv) /\ snd iv = x)
       \/ (fst iv = x /\ or = Some (snd iv))).
  Proof.
    intros Hs Hnx Hl Hr. destruct iv as [p q]; cbn [fst snd]. unfold adj; cbn [fst snd]. split.
    - intros [Hp [Hq [Hpq Hno]]].
      apply insert_In in Hp. apply insert_In in Hq.
      destruct Hp as [->|Hp], Hq as [->|Hq].
      + exfalso. eapply lt_irrefl; eauto.
      + right; right. split; [reflexivity|].
        apply (@is_right_unique l x _ _); [exact Hr|]. cbn [is_right].
        split; [exact Hq|]. split; [exact Hpq|]. intros c Hc Hxc.
        destruct (trichotomy c q) as [Hcq|[->|Hqc]]; [|left; reflexivity|right; exact Hqc].
        exfalso. apply (Hno c); [apply insert_In; right; exact Hc|]. split; assumption.
      + right; left. split; [|reflexivity].
        apply (@is_left_unique l x _ _); [exact Hl|]. cbn [is_left].
        split; [exact Hp|]. split; [exact Hpq|]. intros c Hc Hcx.
        destruct (trichotomy c p) as [Hcp|[->|Hpc]]; [right; exact Hcp|left; reflexivity|].
        exfalso. apply (Hno c); [apply insert_In; right; exact Hc|]. split; assumption.
      + left. split.
        * split; [exact Hp|]. split; [exact Hq|]. split; [exact Hpq|].
          intros c Hc. apply Hno. apply insert_In. right; exact Hc.
        * intros [El Er]. subst ol or. cbn [is_left is_right] in Hl, Hr.
          apply (Hno x); [apply insert_In; left; reflexivity|]. split; [apply Hl|apply Hr].
    - intros [[[Hp [Hq [Hpq Hno]]] Hne]|[[El Eq]|[Ep Er]]].
      + split; [apply insert_In; right; exact Hp|]. split; [apply insert_In; right; exact Hq|].
        split; [exact Hpq|]. intros c Hc [Hpc Hcq]. apply insert_In in Hc as [->|Hc]; [|eapply Hno; eauto].
        apply Hne. split.
        * apply (@is_left_unique l x _ _); [exact Hl|]. cbn [is_left].
          split; [exact Hp|]. split; [exact Hpc|]. intros c Hc Hcx.
          destruct (trichotomy c p) as [Hcp|[->|Hpc']]; [right; exact Hcp|left; reflexivity|].
          exfalso. apply (Hno c Hc). split; [exact Hpc'|eapply lt_trans; eauto].
        * apply (@is_right_unique l x _ _); [exact Hr|]. cbn [is_right].
          split; [exact Hq|]. split; [exact Hcq|]. intros c Hc Hxc.
          destruct (trichotomy c q) as [Hcq'|[->|Hqc]]; [|left; reflexivity|right; exact Hqc].
          exfalso. apply (Hno c Hc). split; [eapply lt_trans; eauto|exact Hcq'].
      + subst ol q. cbn [is_left] in Hl. destruct Hl as [Hp [Hpx Hm]].
        split; [apply insert_In; right; exact Hp|]. split; [apply insert_In; left; reflexivity|].
        split; [exact Hpx|]. intros c Hc [Hpc Hcx]. apply insert_In in Hc as [->|Hc]; [eapply lt_irrefl; eauto|].
        destruct (Hm c Hc Hcx) as [->|Hcp]; [eapply lt_irrefl; eauto|eapply lt_asym; eauto].
      + subst or p. cbn [is_right] in Hr. destruct Hr as [Hq [Hxq Hm]].
        split; [apply insert_In; left; reflexivity|]. split; [apply insert_In; right; exact Hq|].
        split; [exact Hxq|]. intros c Hc [Hxc Hcq]. apply insert_In in Hc as [->|Hc]; [eapply lt_irrefl; eauto|].
        destruct (Hm c Hc Hxc) as [->|Hqc]; [eapply lt_irrefl; eauto|eapply lt_asym; eauto].
  Qed.
End Order.

Section Order2.
  Variable num : Type.
  Variables (ltb eqb : num -> num -> bool).
  Hypothesis OL : OrdLaws ltb eqb.
  Notation lt := (lt ltb).
  Notation sorted := (sorted ltb).
  Notation insert := (@insert num ltb eqb).
  Notation adj := (adj ltb).
  Notation is_left := (is_left ltb).
  Notation is_right := (is_right ltb).

  Lemma is_left_insert_inv l x o : is_left (insert x l) x o -> is_left l x o.
  Proof.
    destruct o as [a|]; cbn [L1DOrder.is_left].
    - intros [Ha [Hax Hm]]. apply (insert_In OL) in Ha as [->|Ha]; [exfalso; exact (lt_irrefl OL Hax)|].
      split; [exact Ha|]. split; [exact Hax|]. intros c Hc. apply Hm. apply (insert_In OL). right; exact Hc.
    - intros H c Hc. apply H. apply (insert_In OL). right; exact Hc.
  Qed.
  Lemma is_right_insert_inv l x o : is_right (insert x l) x o -> is_right l x o.
  Proof.
    destruct o as [a|]; cbn [L1DOrder.is_right].
    - intros [Ha [Hax Hm]]. apply (insert_In OL) in Ha as [->|Ha]; [exfalso; exact (lt_irrefl OL Hax)|].
      split; [exact Ha|]. split; [exact Hax|]. intros c Hc. apply Hm. apply (insert_In OL). right; exact Hc.
    - intros H c Hc. apply H. apply (insert_In OL). right; exact Hc.
  Qed.

  (* the neighbours of x are adjacent to x once x is in the list, and to each
     other when it is not *)
  Lemma left_adj l x a : In x l -> is_left l x (Some a) -> adj l (a, x).
  Proof.
    intros Hx [Ha [Hax Hm]]. split; [exact Ha|]. split; [exact Hx|]. split; [exact Hax|].
    cbn [fst snd]. intros c Hc [Hac Hcx]. destruct (Hm c Hc Hcx) as [->|Hca].
    - exact (lt_irrefl OL Hac).
    - exact (lt_asym OL Hac Hca).
  Qed.
  Lemma right_adj l x b : In x l -> is_right l x (Some b) -> adj l (x, b).
  Proof.
    intros Hx [Hb [Hxb Hm]]. split; [exact Hx|]. split; [exact Hb|]. split; [exact Hxb|].
    cbn [fst snd]. intros c Hc [Hxc Hcb]. destruct (Hm c Hc Hxc) as [->|Hbc].
    - exact (lt_irrefl OL Hcb).
    - exact (lt_asym OL Hcb Hbc).
  Qed.
  Lemma neighbours_adj l x a b : ~ In x l -> is_left l x (Some a) -> is_right l x (Some b) -> adj l (a, b).
  Proof.
    intros Hx [Ha [Hax Hma]] [Hb [Hxb Hmb]]. split; [exact Ha|]. split; [exact Hb|].
    split; [eapply lt_trans; eauto|]. cbn [fst snd]. intros c Hc [Hac Hcb].
    destruct (trichotomy OL c x) as [Hcx|[->|Hxc]]; [|contradiction|].
    - destruct (Hma c Hc Hcx) as [->|Hca]; [exact (lt_irrefl OL Hac)|exact (lt_asym OL Hac Hca)].
    - destruct (Hmb c Hc Hxc) as [->|Hbc]; [exact (lt_irrefl OL Hcb)|exact (lt_asym OL Hcb Hbc)].
  Qed.

  (* adjacency after [insert x], whether or not x was already present *)
  Lemma adj_insert_gen l x ol or iv : sorted l ->
    is_left l x ol -> is_right l x or ->
    (adj (insert x l) iv <->
       (adj l iv /\ ~ (ol = Some (fst iv) /\ or = Some (snd iv)))
       \/ (ol = Some (fst iv) /\ snd iv = x)
       \/ (fst iv = x /\ or = Some (snd iv))).
  Proof.
    intros Hs Hl Hr.
    destruct (In_dec_num OL x l) as [Hin|Hn]; [|apply adj_insert; assumption].
    rewrite (@insert_id _ _ _ OL x l Hs Hin). destruct iv as [p q]; cbn [fst snd]. split.
    - intros Ha. left. split; [exact Ha|]. intros [-> ->].
      destruct Hl as [_ [Hpx _]], Hr as [_ [Hxq _]]. destruct Ha as [_ [_ [_ Hno]]].
      apply (Hno x Hin). cbn [fst snd]. split; assumption.
    - intros [[Ha _]|[[-> ->]|[-> ->]]]; [exact Ha|apply left_adj; assumption|apply right_adj; assumption].
  Qed.
End Order2.
