(* Order irrelevance (property C11): what a learner knows depends on the set
   of results, not on the order in which they arrive.

   Part 1: a generic lemma -- a left fold of a step function over a list is
           invariant under permutations of the list when the steps of
           pairwise related elements commute.
   Part 2: SequenceLearner (Model/Seq.v).
   Part 3: the averaging specification (Model/AvgSpec.v).
   Part 4: Learner1D (Model/L1D.v), data-level components. *)
From AV Require Import Base.Prelude Base.NatSet Model.AvgSpec Model.Seq Proofs.SeqProofs.
From Coq Require Import Sorted Permutation ZArith QArith Qcanon.

(* ================================================================== *)
(* Part 1: folds over permuted lists                                   *)
Section FoldPerm.
  Variables (S A : Type) (f : S -> A -> S).
  Variable R : A -> A -> Prop.
  Hypothesis R_sym : forall a b, R a b -> R b a.
  Hypothesis comm : forall s a b, R a b -> f (f s a) b = f (f s b) a.

  Fixpoint Pairwise (l : list A) : Prop :=
    match l with [] => True | a :: l' => Forall (R a) l' /\ Pairwise l' end.

  Lemma Pairwise_perm l1 l2 : Permutation l1 l2 -> Pairwise l1 -> Pairwise l2.
  Proof.
    induction 1 as [|x l l' HP IH|x y l|l l' l'' HP1 IH1 HP2 IH2]; cbn [Pairwise]; auto.
    - intros [H1 H2]. split; [|auto].
      rewrite Forall_forall in *. intros z Hz. apply H1. eapply Permutation_in; [apply Permutation_sym; exact HP|exact Hz].
    - intros [H1 [H2 H3]]. inversion H1 as [|? ? Hyx H1']; subst.
      split; [constructor; [apply R_sym; exact Hyx|exact H2]|]. split; assumption.
  Qed.

  Lemma fold_perm l1 l2 : Permutation l1 l2 -> Pairwise l1 ->
    forall s, fold_left f l1 s = fold_left f l2 s.
  Proof.
    induction 1 as [|x l l' HP IH|x y l|l l' l'' HP1 IH1 HP2 IH2]; intros HW s; cbn [fold_left].
    - reflexivity.
    - destruct HW as [_ HW]. apply IH; exact HW.
    - destruct HW as [H1 _]. inversion H1 as [|? ? Hyx _]; subst. rewrite (comm s _ _ Hyx). reflexivity.
    - rewrite IH1; [|exact HW]. apply IH2. eapply Pairwise_perm; eauto.
  Qed.
End FoldPerm.
Arguments Pairwise {A} R l.

(* distinct keys give pairwise distinct elements *)
Lemma NoDup_keys_Pairwise {A K} (key : A -> K) (l : list A) :
  NoDup (map key l) -> Pairwise (fun a b => key a <> key b) l.
Proof.
  induction l as [|a l IH]; cbn [map Pairwise]; intros H; [exact I|].
  inversion H as [|? ? Hn Hd]; subst. split; [|apply IH; exact Hd].
  apply Forall_forall. intros b Hb E. apply Hn. rewrite E. apply in_map. exact Hb.
Qed.

Lemma Pairwise_impl {A} (R1 R2 : A -> A -> Prop) (l : list A) :
  (forall a b, R1 a b -> R2 a b) -> Pairwise R1 l -> Pairwise R2 l.
Proof.
  intros H. induction l as [|a l IH]; cbn [Pairwise]; [auto|].
  intros [H1 H2]. split; [eapply Forall_impl; [|exact H1]; intros; auto|auto].
Qed.

Lemma Pairwise_and {A} (R1 R2 : A -> A -> Prop) (l : list A) :
  Pairwise R1 l -> Pairwise R2 l -> Pairwise (fun a b => R1 a b /\ R2 a b) l.
Proof.
  induction l as [|a l IH]; cbn [Pairwise]; [auto|].
  intros [H1 H2] [H3 H4]. split; [|auto].
  rewrite Forall_forall in *. intros b Hb. split; auto.
Qed.

(* ================================================================== *)
(* Part 2: SequenceLearner                                              *)
Ltac natcmp :=
  repeat match goal with
  | |- context[Nat.ltb ?a ?b] => destruct (Nat.ltb_spec a b)
  | |- context[Nat.eqb ?a ?b] => destruct (Nat.eqb_spec a b)
  end.

Lemma nat_remove_comm i j l : nat_remove i (nat_remove j l) = nat_remove j (nat_remove i l).
Proof.
  induction l as [|k l IH]; cbn [nat_remove]; [reflexivity|].
  destruct (Nat.eqb_spec j k) as [E1|E1], (Nat.eqb_spec i k) as [E2|E2]; cbn [nat_remove];
    try (rewrite (proj2 (Nat.eqb_eq j k) E1)); try (rewrite (proj2 (Nat.eqb_eq i k) E2));
    try (rewrite (proj2 (Nat.eqb_neq j k) E1)); try (rewrite (proj2 (Nat.eqb_neq i k) E2));
    try rewrite IH; reflexivity.
Qed.

Section SeqOrder.
  Variable V : Type.
  Notation st := (Seq.st V).
  Implicit Types (s : st) (d : list (nat * V)).

  Lemma data_set_comm i v j w d : i <> j ->
    data_set i v (data_set j w d) = data_set j w (data_set i v d).
  Proof.
    intros Hne. induction d as [|[k u] d IH]; cbn [data_set].
    - natcmp; try lia; reflexivity.
    - destruct (Nat.ltb_spec j k), (Nat.ltb_spec i k); cbn [data_set]; natcmp; try lia; try reflexivity;
        cbn [data_set]; natcmp; try lia; try reflexivity; try (rewrite IH; reflexivity).
  Qed.

  (* one result: the pair (index, value) *)
  Definition tell1 s (p : nat * V) : st := tell s (fst p) (snd p).
  (* BaseLearner.tell_many, which SequenceLearner inherits: a loop over tell *)
  Definition seq_tell_many s (l : list (nat * V)) : st := fold_left tell1 l s.
  Definition tells (l : list (nat * V)) : list (op V) := map (fun p => Tell (fst p) (snd p)) l.

  Lemma tell_comm s i v j w : i <> j -> tell (tell s i v) j w = tell (tell s j w) i v.
  Proof.
    intros Hne. unfold tell; cbn [ntotal todo pend data]. f_equal.
    - apply nat_remove_comm.
    - apply nat_remove_comm.
    - apply data_set_comm. congruence.
  Qed.

  Lemma run_tells l : forall s, run s (tells l) = seq_tell_many s l.
  Proof.
    induction l as [|p l IH]; intros s; [reflexivity|].
    cbn [tells map]. rewrite run_cons. cbn [step fst]. apply IH.
  Qed.

  Theorem seq_order_irrelevant s (l1 l2 : list (nat * V)) :
    NoDup (map fst l1) -> Permutation l1 l2 ->
    run s (tells l1) = run s (tells l2) /\ run s (tells l1) = seq_tell_many s l2.
  Proof.
    intros Hnd HP.
    assert (E : seq_tell_many s l1 = seq_tell_many s l2).
    { unfold seq_tell_many.
      apply fold_perm with (R := fun a b : nat * V => fst a <> fst b); auto.
      - intros s' [i v] [j w] Hne. unfold tell1; cbn [fst snd] in *. apply tell_comm. congruence.
      - apply NoDup_keys_Pairwise. exact Hnd. }
    rewrite !run_tells. split; exact E.
  Qed.
End SeqOrder.
Arguments tell1 {V}. Arguments seq_tell_many {V}. Arguments tells {V}.

(* ================================================================== *)
(* Part 3: averaging specification                                      *)
Record AddLaws (num : Type) (add : num -> num -> num) : Prop := {
  al_comm : forall a b, add a b = add b a;
  al_assoc : forall a b c, add a (add b c) = add (add a b) c
}.

Arguments AddLaws {num} add.
Arguments al_comm {num add}. Arguments al_assoc {num add}.
Lemma AddLaws_Z : AddLaws Z.add.
Proof. split; intros; lia. Qed.
Lemma AddLaws_Qc : AddLaws Qcplus.
Proof. split; intros; ring. Qed.

Section AvgOrder.
  Variable num : Type.
  Variables (add mul : num -> num -> num) (zero : num).
  Hypothesis AL : AddLaws add.

  Notation st := (AvgSpec.st num).
  Notation tell := (AvgSpec.tell add mul).
  Notation tell_many := (AvgSpec.tell_many add mul).
  Notation init := (AvgSpec.init zero).
  Notation canon := (AvgSpec.canon add mul zero).
  Notation sum_of := (AvgSpec.sum_of add zero).
  Implicit Types (s : st) (d : list (nat * num)).

  Lemma add_right_comm a b c : add (add a b) c = add (add a c) b.
  Proof. rewrite <- !(al_assoc AL). f_equal. apply (al_comm AL). Qed.

  Lemma known_data_set n m v d : n <> m -> known n (data_set m v d) = known n d.
  Proof.
    intros Hne. unfold known.
    destruct (nat_mem n (map fst (data_set m v d))) eqn:E1, (nat_mem n (map fst d)) eqn:E2; auto.
    - apply nat_mem_In in E1. apply data_set_keys_In in E1 as [E1|E1]; [congruence|].
      apply nat_mem_In in E1. congruence.
    - apply nat_mem_In in E2. assert (H : In n (map fst (data_set m v d))) by (apply data_set_keys_In; auto).
      apply nat_mem_In in H. congruence.
  Qed.

  Lemma known_data_set_same n v d : known n (data_set n v d) = true.
  Proof. unfold known. apply nat_mem_In. apply data_set_keys_In. auto. Qed.

  Lemma avg_tell_comm s n v m w : n <> m -> tell (tell s n v) m w = tell (tell s m w) n v.
  Proof.
    intros Hne. unfold AvgSpec.tell.
    destruct (known n (AvgSpec.data s)) eqn:Kn, (known m (AvgSpec.data s)) eqn:Km;
      cbn [AvgSpec.data AvgSpec.pend AvgSpec.npoints AvgSpec.sum_f AvgSpec.sum_f_sq];
      rewrite ?Kn, ?Km; cbn [AvgSpec.data AvgSpec.pend AvgSpec.npoints AvgSpec.sum_f AvgSpec.sum_f_sq];
      rewrite ?known_data_set by congruence; rewrite ?Kn, ?Km; try reflexivity.
    f_equal.
    - apply data_set_comm. congruence.
    - apply nat_remove_comm.
    - apply add_right_comm.
    - apply add_right_comm.
  Qed.

  (* a result for a seed that is already known is ignored: the first value is kept *)
  Lemma avg_repeated_ignored s n v : known n (AvgSpec.data s) = true -> tell s n v = s.
  Proof. intros H. unfold AvgSpec.tell. rewrite H. reflexivity. Qed.

  Lemma avg_second_tell_ignored s n v w : tell (tell s n v) n w = tell s n v.
  Proof.
    unfold AvgSpec.tell at 2 3. destruct (known n (AvgSpec.data s)) eqn:K.
    - apply avg_repeated_ignored. exact K.
    - apply avg_repeated_ignored. cbn [AvgSpec.data]. apply known_data_set_same.
  Qed.

  Theorem avg_order_irrelevant s (l1 l2 : list (nat * num)) :
    NoDup (map fst l1) -> Permutation l1 l2 -> tell_many s l1 = tell_many s l2.
  Proof.
    intros Hnd HP. unfold AvgSpec.tell_many.
    apply fold_perm with (R := fun a b : nat * num => fst a <> fst b); auto.
    - intros s' [i v] [j w] Hne. cbn [fst snd] in *. apply avg_tell_comm. congruence.
    - apply NoDup_keys_Pairwise. exact Hnd.
  Qed.

  (* ---- the accumulators are the sums over the data: the state is a function
     of (data, pending) ---- *)
  Lemma sum_data_set (g : num -> num) n v d : ~ In n (map fst d) ->
    sum_of (map g (map snd (data_set n v d))) = add (sum_of (map g (map snd d))) (g v).
  Proof.
    induction d as [|[k u] d IH]; cbn [data_set map fst snd In]; intros Hn.
    - cbn. apply (al_comm AL).
    - destruct (Nat.ltb_spec n k) as [E1|E1].
      + cbn [map snd AvgSpec.sum_of fold_right]. apply (al_comm AL).
      + destruct (Nat.eqb_spec n k) as [E2|E2]; [exfalso; apply Hn; left; congruence|].
        cbn [map snd AvgSpec.sum_of fold_right].
        change (fold_right add zero ?l) with (sum_of l).
        rewrite IH by tauto. apply (al_assoc AL).
  Qed.

  Lemma length_data_set n v d : ~ In n (map fst d) -> length (data_set n v d) = S (length d).
  Proof.
    induction d as [|[k u] d IH]; cbn [data_set map fst In length]; intros Hn; [reflexivity|].
    destruct (Nat.ltb_spec n k); [reflexivity|].
    destruct (Nat.eqb_spec n k); [exfalso; apply Hn; left; congruence|].
    cbn [length]. rewrite IH by tauto. reflexivity.
  Qed.

  Definition is_canon s : Prop := s = canon (AvgSpec.data s) (AvgSpec.pend s).

  Lemma is_canon_init : is_canon init.
  Proof. reflexivity. Qed.

  Lemma is_canon_fields s : is_canon s ->
    AvgSpec.npoints s = length (AvgSpec.data s) /\
    AvgSpec.sum_f s = sum_of (map snd (AvgSpec.data s)) /\
    AvgSpec.sum_f_sq s = sum_of (map (fun v => mul v v) (map snd (AvgSpec.data s))).
  Proof. unfold is_canon. destruct s as [d p n sf sq]; cbn. intros H. inversion H; subst. auto. Qed.

  Lemma is_canon_tell s n v : is_canon s -> is_canon (tell s n v).
  Proof.
    intros H. unfold AvgSpec.tell.
    destruct (known n (AvgSpec.data s)) eqn:K; [exact H|].
    assert (Hn : ~ In n (map fst (AvgSpec.data s))).
    { intros Hin. apply nat_mem_In in Hin. unfold known in K. congruence. }
    destruct (is_canon_fields s H) as [E1 [E2 E3]].
    unfold is_canon. cbn [AvgSpec.data AvgSpec.pend]. unfold AvgSpec.canon.
    rewrite (length_data_set n v _ Hn).
    pose proof (sum_data_set (fun x => x) n v (AvgSpec.data s) Hn) as H1. rewrite !map_id in H1.
    rewrite H1. rewrite (sum_data_set (fun v => mul v v) n v (AvgSpec.data s) Hn).
    rewrite E1, E2, E3. reflexivity.
  Qed.

  Lemma is_canon_tell_pending s n : is_canon s -> is_canon (AvgSpec.tell_pending s n).
  Proof.
    intros H. destruct (is_canon_fields s H) as [E1 [E2 E3]].
    unfold is_canon, AvgSpec.tell_pending. cbn [AvgSpec.data AvgSpec.pend]. unfold AvgSpec.canon.
    rewrite E1, E2, E3. reflexivity.
  Qed.

  Lemma is_canon_tell_many l : forall s, is_canon s -> is_canon (tell_many s l).
  Proof.
    induction l as [|p l IH]; intros s H; [exact H|].
    cbn [AvgSpec.tell_many fold_left]. apply IH. apply is_canon_tell. exact H.
  Qed.

  (* data after telling a list of results: the pending set loses the told seeds *)
  Theorem avg_state_function_of_data s l : is_canon s ->
    tell_many s l = canon (AvgSpec.data (tell_many s l)) (AvgSpec.pend (tell_many s l)).
  Proof. intros H. apply (is_canon_tell_many l s H). Qed.
End AvgOrder.
