(* Proofs about the traced volume kernels: learnerND.volume,
   Triangulation.volume, simplex_volume_in_embedding (Heron and
   Cayley-Menger branches) -- gen/Prims.v. *)
From Coq Require Import Reals Lra Psatz.
From AV Require Import Model.PrimsBase Model.PrimsSpec Proofs.PrimsLemmas Proofs.PrimsGeom.
From AVGen Require Import Prims.
Local Open Scope R_scope.

Lemma Rabs_eq_or a b : a = b \/ a = - b -> Rabs a = Rabs b.
Proof. intros [->| ->]; [reflexivity|apply Rabs_Ropp]. Qed.

(* goal  f args = Rabs D / k  (or any expression with [Rabs D] as an atom):
   rewrite the argument of the first Rabs of the goal into D, then arithmetic *)
Ltac abs_norm D :=
  match goal with |- context [Rabs ?x] =>
    first [ replace x with D by (unfold det2, det3; ring)
          | replace x with (- D) by (unfold det2, det3; ring); rewrite (Rabs_Ropp D) ] end;
  try reflexivity; try field; try lra.

(* ---- learnerND.volume = |det (v_i - v_last)| / d! ---- *)
Lemma nd_volume1_spec : forall a b, nd_volume1 a b = Rabs (a - b) / 1.
Proof. intros; unfold nd_volume1. abs_norm (a - b). Qed.

Lemma nd_volume2_spec : forall ax ay bx b_y cx cy,
  nd_volume2 ax ay bx b_y cx cy = Rabs (det2 (ax - cx) (ay - cy) (bx - cx) (b_y - cy)) / 2.
Proof. intros; unfold nd_volume2. abs_norm (det2 (ax - cx) (ay - cy) (bx - cx) (b_y - cy)). Qed.

Lemma nd_volume3_spec : forall ax ay az bx b_y bz cx cy cz dx dy dz,
  nd_volume3 ax ay az bx b_y bz cx cy cz dx dy dz =
  Rabs (det3 (ax - dx) (ay - dy) (az - dz) (bx - dx) (b_y - dy) (bz - dz) (cx - dx) (cy - dy) (cz - dz)) / 6.
Proof.
  intros; unfold nd_volume3.
  abs_norm (det3 (ax - dx) (ay - dy) (az - dz) (bx - dx) (b_y - dy) (bz - dz) (cx - dx) (cy - dy) (cz - dz)).
Qed.

(* Triangulation.volume (vectors relative to the FIRST vertex) agrees *)
Lemma tri_volume2_spec : forall ax ay bx b_y cx cy,
  tri_volume2 ax ay bx b_y cx cy = Rabs (det2 (bx - ax) (b_y - ay) (cx - ax) (cy - ay)) / 2.
Proof. intros; unfold tri_volume2. abs_norm (det2 (bx - ax) (b_y - ay) (cx - ax) (cy - ay)). Qed.

Lemma tri_volume3_spec : forall ax ay az bx b_y bz cx cy cz dx dy dz,
  tri_volume3 ax ay az bx b_y bz cx cy cz dx dy dz =
  Rabs (det3 (bx - ax) (b_y - ay) (bz - az) (cx - ax) (cy - ay) (cz - az) (dx - ax) (dy - ay) (dz - az)) / 6.
Proof.
  intros; unfold tri_volume3.
  abs_norm (det3 (bx - ax) (b_y - ay) (bz - az) (cx - ax) (cy - ay) (cz - az) (dx - ax) (dy - ay) (dz - az)).
Qed.

Lemma tri_volume2_is_nd : forall ax ay bx b_y cx cy,
  tri_volume2 ax ay bx b_y cx cy = nd_volume2 ax ay bx b_y cx cy.
Proof.
  intros; rewrite tri_volume2_spec, nd_volume2_spec. f_equal. apply Rabs_eq_or.
  unfold det2; first [left; ring | right; ring].
Qed.

Lemma tri_volume3_is_nd : forall ax ay az bx b_y bz cx cy cz dx dy dz,
  tri_volume3 ax ay az bx b_y bz cx cy cz dx dy dz = nd_volume3 ax ay az bx b_y bz cx cy cz dx dy dz.
Proof.
  intros; rewrite tri_volume3_spec, nd_volume3_spec. f_equal. apply Rabs_eq_or.
  unfold det3; first [left; ring | right; ring].
Qed.

(* ---- invariances ---- *)
Ltac vol_eq := f_equal; apply Rabs_eq_or; unfold det2, det3; first [left; ring | right; ring].

(* relabelling of vertices: the adjacent transpositions generate all permutations *)
Lemma nd_volume1_swap : forall a b, nd_volume1 a b = nd_volume1 b a.
Proof. intros; rewrite !nd_volume1_spec; vol_eq. Qed.

Lemma nd_volume2_swap01 : forall ax ay bx b_y cx cy,
  nd_volume2 ax ay bx b_y cx cy = nd_volume2 bx b_y ax ay cx cy.
Proof. intros; rewrite !nd_volume2_spec; vol_eq. Qed.
Lemma nd_volume2_swap12 : forall ax ay bx b_y cx cy,
  nd_volume2 ax ay bx b_y cx cy = nd_volume2 ax ay cx cy bx b_y.
Proof. intros; rewrite !nd_volume2_spec; vol_eq. Qed.

Lemma nd_volume3_swap01 : forall ax ay az bx b_y bz cx cy cz dx dy dz,
  nd_volume3 ax ay az bx b_y bz cx cy cz dx dy dz = nd_volume3 bx b_y bz ax ay az cx cy cz dx dy dz.
Proof. intros; rewrite !nd_volume3_spec; vol_eq. Qed.
Lemma nd_volume3_swap12 : forall ax ay az bx b_y bz cx cy cz dx dy dz,
  nd_volume3 ax ay az bx b_y bz cx cy cz dx dy dz = nd_volume3 ax ay az cx cy cz bx b_y bz dx dy dz.
Proof. intros; rewrite !nd_volume3_spec; vol_eq. Qed.
Lemma nd_volume3_swap23 : forall ax ay az bx b_y bz cx cy cz dx dy dz,
  nd_volume3 ax ay az bx b_y bz cx cy cz dx dy dz = nd_volume3 ax ay az bx b_y bz dx dy dz cx cy cz.
Proof. intros; rewrite !nd_volume3_spec; vol_eq. Qed.

(* translation *)
Lemma nd_volume1_translate : forall a b t, nd_volume1 (a + t) (b + t) = nd_volume1 a b.
Proof. intros; rewrite !nd_volume1_spec; vol_eq. Qed.
Lemma nd_volume2_translate : forall ax ay bx b_y cx cy tx ty,
  nd_volume2 (ax + tx) (ay + ty) (bx + tx) (b_y + ty) (cx + tx) (cy + ty) = nd_volume2 ax ay bx b_y cx cy.
Proof. intros; rewrite !nd_volume2_spec; vol_eq. Qed.
Lemma nd_volume3_translate : forall ax ay az bx b_y bz cx cy cz dx dy dz tx ty tz,
  nd_volume3 (ax + tx) (ay + ty) (az + tz) (bx + tx) (b_y + ty) (bz + tz)
             (cx + tx) (cy + ty) (cz + tz) (dx + tx) (dy + ty) (dz + tz)
  = nd_volume3 ax ay az bx b_y bz cx cy cz dx dy dz.
Proof. intros; rewrite !nd_volume3_spec; vol_eq. Qed.

(* homogeneous of degree d *)
Lemma nd_volume1_scale : forall k a b, nd_volume1 (k * a) (k * b) = Rabs k * nd_volume1 a b.
Proof.
  intros; rewrite !nd_volume1_spec.
  replace (k * a - k * b) with (k * (a - b)) by ring. rewrite Rabs_mult. field.
Qed.
Lemma nd_volume2_scale : forall k ax ay bx b_y cx cy,
  nd_volume2 (k * ax) (k * ay) (k * bx) (k * b_y) (k * cx) (k * cy)
  = Rabs k ^ 2 * nd_volume2 ax ay bx b_y cx cy.
Proof.
  intros; rewrite !nd_volume2_spec.
  replace (det2 (k * ax - k * cx) (k * ay - k * cy) (k * bx - k * cx) (k * b_y - k * cy))
    with (k * (k * det2 (ax - cx) (ay - cy) (bx - cx) (b_y - cy))) by (unfold det2; ring).
  rewrite !Rabs_mult. field.
Qed.
Lemma nd_volume3_scale : forall k ax ay az bx b_y bz cx cy cz dx dy dz,
  nd_volume3 (k * ax) (k * ay) (k * az) (k * bx) (k * b_y) (k * bz)
             (k * cx) (k * cy) (k * cz) (k * dx) (k * dy) (k * dz)
  = Rabs k ^ 3 * nd_volume3 ax ay az bx b_y bz cx cy cz dx dy dz.
Proof.
  intros; rewrite !nd_volume3_spec.
  match goal with |- Rabs ?l / 6 = _ * (Rabs ?r / 6) =>
    replace l with (k * (k * (k * r))) by (unfold det3; ring) end.
  rewrite !Rabs_mult. field.
Qed.

(* rigid motions of the plane: rotation (c,s) and the reflection composed with it *)
Lemma nd_volume2_rotate : forall c s ax ay bx b_y cx cy, c * c + s * s = 1 ->
  nd_volume2 (c * ax - s * ay) (s * ax + c * ay) (c * bx - s * b_y) (s * bx + c * b_y)
             (c * cx - s * cy) (s * cx + c * cy)
  = nd_volume2 ax ay bx b_y cx cy.
Proof.
  intros c s ax ay bx b_y cx cy H; rewrite !nd_volume2_spec. f_equal. f_equal.
  match goal with |- _ = ?r => transitivity ((c * c + s * s) * r); [unfold det2; ring | rewrite H; ring] end.
Qed.
Lemma nd_volume2_reflect : forall c s ax ay bx b_y cx cy, c * c + s * s = 1 ->
  nd_volume2 (c * ax + s * ay) (s * ax - c * ay) (c * bx + s * b_y) (s * bx - c * b_y)
             (c * cx + s * cy) (s * cx - c * cy)
  = nd_volume2 ax ay bx b_y cx cy.
Proof.
  intros c s ax ay bx b_y cx cy H; rewrite !nd_volume2_spec. f_equal. apply Rabs_eq_or. right.
  match goal with |- _ = - ?r => transitivity (- ((c * c + s * s) * r)); [unfold det2; ring | rewrite H; ring] end.
Qed.

(* rotations of space about the coordinate axes (they generate SO(3)) and a mirror *)
Lemma nd_volume3_rotate_z : forall c s ax ay az bx b_y bz cx cy cz dx dy dz, c * c + s * s = 1 ->
  nd_volume3 (c * ax - s * ay) (s * ax + c * ay) az (c * bx - s * b_y) (s * bx + c * b_y) bz
             (c * cx - s * cy) (s * cx + c * cy) cz (c * dx - s * dy) (s * dx + c * dy) dz
  = nd_volume3 ax ay az bx b_y bz cx cy cz dx dy dz.
Proof.
  intros c s ax ay az bx b_y bz cx cy cz dx dy dz H; rewrite !nd_volume3_spec. f_equal. f_equal.
  match goal with |- _ = ?r => transitivity ((c * c + s * s) * r); [unfold det3; ring | rewrite H; ring] end.
Qed.
Lemma nd_volume3_rotate_x : forall c s ax ay az bx b_y bz cx cy cz dx dy dz, c * c + s * s = 1 ->
  nd_volume3 ax (c * ay - s * az) (s * ay + c * az) bx (c * b_y - s * bz) (s * b_y + c * bz)
             cx (c * cy - s * cz) (s * cy + c * cz) dx (c * dy - s * dz) (s * dy + c * dz)
  = nd_volume3 ax ay az bx b_y bz cx cy cz dx dy dz.
Proof.
  intros c s ax ay az bx b_y bz cx cy cz dx dy dz H; rewrite !nd_volume3_spec. f_equal. f_equal.
  match goal with |- _ = ?r => transitivity ((c * c + s * s) * r); [unfold det3; ring | rewrite H; ring] end.
Qed.
Lemma nd_volume3_rotate_y : forall c s ax ay az bx b_y bz cx cy cz dx dy dz, c * c + s * s = 1 ->
  nd_volume3 (c * ax + s * az) ay (c * az - s * ax) (c * bx + s * bz) b_y (c * bz - s * bx)
             (c * cx + s * cz) cy (c * cz - s * cx) (c * dx + s * dz) dy (c * dz - s * dx)
  = nd_volume3 ax ay az bx b_y bz cx cy cz dx dy dz.
Proof.
  intros c s ax ay az bx b_y bz cx cy cz dx dy dz H; rewrite !nd_volume3_spec. f_equal. f_equal.
  match goal with |- _ = ?r => transitivity ((c * c + s * s) * r); [unfold det3; ring | rewrite H; ring] end.
Qed.
Lemma nd_volume3_mirror : forall ax ay az bx b_y bz cx cy cz dx dy dz,
  nd_volume3 ax ay (- az) bx b_y (- bz) cx cy (- cz) dx dy (- dz)
  = nd_volume3 ax ay az bx b_y bz cx cy cz dx dy dz.
Proof. intros; rewrite !nd_volume3_spec; vol_eq. Qed.

(* ---- simplex_volume_in_embedding ---- *)
Lemma tri_area2_3_nonneg : forall a0 a1 a2 b0 b1 b2 c0 c1 c2, 0 <= tri_area2_3 a0 a1 a2 b0 b1 b2 c0 c1 c2.
Proof.
  intros; unfold tri_area2_3, sq.
  match goal with |- 0 <= (?a * ?a + ?b * ?b + ?c * ?c) / 4 =>
    generalize a, b, c; intros; nra end.
Qed.

Lemma sum6sq_nonneg a b c d e f : 0 <= (a * a + b * b + c * c + d * d + e * e + f * f) / 4.
Proof. nra. Qed.

(* Lagrange's identity: the Gram determinant is a sum of squares of 2x2 minors *)
Lemma tri_area2_4_nonneg : forall a0 a1 a2 a3 b0 b1 b2 b3 c0 c1 c2 c3,
  0 <= tri_area2_4 a0 a1 a2 a3 b0 b1 b2 b3 c0 c1 c2 c3.
Proof.
  intros; unfold tri_area2_4, dot4, sq.
  set (u0 := b0 - a0); set (u1 := b1 - a1); set (u2 := b2 - a2); set (u3 := b3 - a3).
  set (v0 := c0 - a0); set (v1 := c1 - a1); set (v2 := c2 - a2); set (v3 := c3 - a3).
  replace ((u0 * u0 + u1 * u1 + u2 * u2 + u3 * u3) * (v0 * v0 + v1 * v1 + v2 * v2 + v3 * v3)
           - (u0 * v0 + u1 * v1 + u2 * v2 + u3 * v3) * (u0 * v0 + u1 * v1 + u2 * v2 + u3 * v3))
    with ((u0*v1-u1*v0)*(u0*v1-u1*v0) + (u0*v2-u2*v0)*(u0*v2-u2*v0) + (u0*v3-u3*v0)*(u0*v3-u3*v0)
          + (u1*v2-u2*v1)*(u1*v2-u2*v1) + (u1*v3-u3*v1)*(u1*v3-u3*v1) + (u2*v3-u3*v2)*(u2*v3-u3*v2)) by ring.
  apply sum6sq_nonneg.
Qed.

(* Cayley-Menger kernels: the traced "vol_square" equals G >= 0, so the
   negative branches are dead and the result is Val (sqrt G) *)
Ltac cm_tac G :=
  cbv zeta;
  match goal with |- context [Rltb ?v 0] =>
    replace v with G by (unfold tri_area2_3, tri_area2_4, dot4, det2, det3, sq; field) end;
  destruct (Rltb_spec G 0); [exfalso; lra | reflexivity].

Lemma sve_cm2_spec : forall a0 a1 a2 b0 b1 b2,
  sve_cm2 a0 a1 a2 b0 b1 b2 = Val (sqrt (dist2_3 a0 a1 a2 b0 b1 b2)).
Proof.
  intros. assert (0 <= dist2_3 a0 a1 a2 b0 b1 b2) by (unfold dist2_3, sq; apply sum_sq_nonneg3).
  unfold sve_cm2. unfold dist2_3 in *. cm_tac (sq (a0 - b0) + sq (a1 - b1) + sq (a2 - b2)).
Qed.

Lemma sve_cm3_spec : forall a0 a1 a2 b0 b1 b2 c0 c1 c2,
  sve_cm3 a0 a1 a2 b0 b1 b2 c0 c1 c2 = Val (sqrt (tri_area2_3 a0 a1 a2 b0 b1 b2 c0 c1 c2)).
Proof.
  intros. pose proof (tri_area2_3_nonneg a0 a1 a2 b0 b1 b2 c0 c1 c2).
  unfold sve_cm3. cm_tac (tri_area2_3 a0 a1 a2 b0 b1 b2 c0 c1 c2).
Qed.

Lemma sve_cm3_in4_spec : forall a0 a1 a2 a3 b0 b1 b2 b3 c0 c1 c2 c3,
  sve_cm3_in4 a0 a1 a2 a3 b0 b1 b2 b3 c0 c1 c2 c3
  = Val (sqrt (tri_area2_4 a0 a1 a2 a3 b0 b1 b2 b3 c0 c1 c2 c3)).
Proof.
  intros. pose proof (tri_area2_4_nonneg a0 a1 a2 a3 b0 b1 b2 b3 c0 c1 c2 c3).
  unfold sve_cm3_in4. cm_tac (tri_area2_4 a0 a1 a2 a3 b0 b1 b2 b3 c0 c1 c2 c3).
Qed.

Lemma sve_cm4_spec : forall a0 a1 a2 b0 b1 b2 c0 c1 c2 d0 d1 d2,
  sve_cm4 a0 a1 a2 b0 b1 b2 c0 c1 c2 d0 d1 d2
  = Val (Rabs (det3 (b0 - a0) (b1 - a1) (b2 - a2) (c0 - a0) (c1 - a1) (c2 - a2) (d0 - a0) (d1 - a1) (d2 - a2)) / 6).
Proof.
  intros.
  set (D := det3 (b0 - a0) (b1 - a1) (b2 - a2) (c0 - a0) (c1 - a1) (c2 - a2) (d0 - a0) (d1 - a1) (d2 - a2)).
  assert (H : 0 <= (D / 6) * (D / 6)) by nra.
  replace (Rabs D / 6) with (sqrt ((D / 6) * (D / 6))).
  2:{ rewrite (sqrt_sq_abs ((D / 6) * (D / 6)) (D / 6) eq_refl).
      unfold Rdiv. rewrite Rabs_mult. rewrite (Rabs_pos_eq (/ 6)) by lra. reflexivity. }
  unfold sve_cm4. subst D. cm_tac
   ((det3 (b0 - a0) (b1 - a1) (b2 - a2) (c0 - a0) (c1 - a1) (c2 - a2) (d0 - a0) (d1 - a1) (d2 - a2) / 6) *
    (det3 (b0 - a0) (b1 - a1) (b2 - a2) (c0 - a0) (c1 - a1) (c2 - a2) (d0 - a0) (d1 - a1) (d2 - a2) / 6)).
Qed.

(* Heron branch: three vertices in the plane *)
Lemma sve_heron_spec : forall ax ay bx b_y cx cy,
  sve_heron ax ay bx b_y cx cy = Rabs (det2 (bx - ax) (b_y - ay) (cx - ax) (cy - ay)) / 2.
Proof.
  intros. unfold sve_heron; cbv zeta.
  set (D := det2 (bx - ax) (b_y - ay) (cx - ax) (cy - ay)).
  replace (Rabs D / 2) with (Rabs (D / 2)).
  2:{ unfold Rdiv. rewrite Rabs_mult. rewrite (Rabs_pos_eq (/ 2)) by lra. reflexivity. }
  apply sqrt_sq_abs.
  repeat match goal with |- context [sqrt ?x] =>
    let a := fresh "l" in let H := fresh "Hl" in
    assert (H : sqrt x * sqrt x = x) by (apply sqrt_sqrt; apply sum_sq_nonneg2);
    set (a := sqrt x) in *; clearbody a end.
  subst D; unfold det2.
  match goal with H1 : ?a * ?a = _, H2 : ?b * ?b = _, H3 : ?c * ?c = _ |- _ =>
    transitivity ((2 * (a * a) * (b * b) + 2 * (b * b) * (c * c) + 2 * (c * c) * (a * a)
                   - (a * a) * (a * a) - (b * b) * (b * b) - (c * c) * (c * c)) / 16);
    [field | rewrite H1, H2, H3; field] end.
Qed.
