(* Values of losses_combined: a piece of an evaluated interval cut by pending
   points carries the interval's loss in proportion to its width; a piece is
   infinite exactly where no evaluated point exists on one side.  (C01) *)
From AV Require Import Base.Prelude Base.SortLemmas Model.L1D
  Proofs.L1DOrder Proofs.L1DMaps Proofs.L1DWindow Proofs.L1DStruct Proofs.L1DLoss Proofs.L1DValues.
From Coq Require Import Sorted.
Set Implicit Arguments.

Section Combined.
  Variable num : Type.
  Variables (add sub mul div : num -> num -> num).
  Variables (ltb eqb : num -> num -> bool).
  Variables (zero one inf neg_inf : num).
  Variables (is_nan is_inf : num -> bool).
  Variable round12 : num -> num.
  Variable of_nat : nat -> num.
  Variable L : list (option num) -> list (option (Y num)) -> num.
  Variable P : params num.
  Hypothesis OL : OrdLaws ltb eqb.

  Notation st := (st num).
  Notation ival := (num * num)%type.
  Notation insert := (@insert num ltb eqb).
  Notation dget := (@dget num eqb).
  Notation lget := (@lget num eqb).
  Notation lset := (@lset num ltb eqb).
  Notation walk := (@walk num sub mul div ltb eqb).
  Notation get_loss := (@get_loss num sub div ltb eqb zero one L P).
  Notation update_interp := (@update_interp num sub mul div ltb eqb zero one L P).
  Notation lt := (lt ltb).
  Notation sorted := (sorted ltb).
  Notation adj := (adj ltb).
  Notation ksorted := (@ksorted num ltb eqb).
  Notation keys := (@keys num).
  Notation inside := (@inside num ltb eqb).

  Definition le (a b : num) : Prop := lt a b \/ a = b.

  (* the share of a piece k of the interval (a, b) whose loss is v *)
  Definition interp (k : ival) (a b v : num) : num := div (mul (sub (snd k) (fst k)) v) (sub b a).

  (* ---------------- conditional folds of lset ---------------- *)
  Lemma cond_fold_lset (c : ival -> bool) (f : ival -> num) ps : forall m k,
    let r := fold_left (fun m pq => if c pq then lset pq (f pq) m else m) ps m in
    (In k ps -> c k = true -> lget k r = Some (f k)) /\
    (~ (In k ps /\ c k = true) -> lget k r = lget k m).
  Proof.
    induction ps as [|pq ps IH]; intros m k; cbn [fold_left]; cbn zeta.
    - split; [intros []|reflexivity].
    - destruct (IH (if c pq then lset pq (f pq) m else m) k) as [H1 H2]. cbn zeta in *. split.
      + intros Hin Hc. destruct (In_dec_ival OL k ps) as [Hi|Hn]; [apply H1; assumption|].
        destruct Hin as [->|Hin]; [|contradiction].
        rewrite H2 by tauto. rewrite Hc, (lget_lset OL), (ival_eqb_refl OL). reflexivity.
      + intros Hn. rewrite H2 by (intros [Hi Hc]; apply Hn; split; [right; exact Hi|exact Hc]).
        destruct (c pq) eqn:Ec; [|reflexivity]. rewrite (lget_lset OL).
        destruct (L1D.ival_eqb eqb k pq) eqn:E; [|reflexivity].
        apply (ival_eqb_eq OL) in E. subst pq. exfalso. apply Hn. split; [left; reflexivity|exact Ec].
  Qed.

  Lemma lget_walk a xr loss dx ks m k :
    (In k (L1D.pairs ks) -> inside a xr k -> lget k (walk a xr loss dx ks m) = Some (div (mul (sub (snd k) (fst k)) loss) dx)) /\
    (~ (In k (L1D.pairs ks) /\ inside a xr k) -> lget k (walk a xr loss dx ks m) = lget k m).
  Proof.
    unfold L1D.walk.
    exact (cond_fold_lset (fun pq => L1D.leb ltb eqb a (fst pq) && ltb (fst pq) xr)
             (fun pq => div (mul (sub (snd pq) (fst pq)) loss) dx) (L1D.pairs ks) m k).
  Qed.

  (* ---------------- one re-interpolation step ---------------- *)
  Lemma update_interp_losc (s : st) (iv k : ival) :
    (In k (L1D.pairs (nbc s)) -> inside (fst iv) (snd iv) k ->
       lget k (losc (update_interp s iv)) = Some (interp k (fst iv) (snd iv) (get_loss s (fst iv) (snd iv)))) /\
    (~ (In k (L1D.pairs (nbc s)) /\ inside (fst iv) (snd iv) k) ->
       lget k (losc (update_interp s iv)) = lget k (losc s)).
  Proof.
    destruct iv as [a b]. cbn [L1D.update_interp L1D.with_los losc fst snd]. unfold interp.
    apply lget_walk.
  Qed.

  Lemma fold_interp_losc ivs : forall (s : st) (k : ival),
    let s' := fold_left update_interp ivs s in
    ((exists iv, In iv ivs /\ In k (L1D.pairs (nbc s)) /\ inside (fst iv) (snd iv) k) ->
       exists iv, In iv ivs /\ inside (fst iv) (snd iv) k /\
         lget k (losc s') = Some (interp k (fst iv) (snd iv) (get_loss s (fst iv) (snd iv)))) /\
    ((forall iv, In iv ivs -> ~ (In k (L1D.pairs (nbc s)) /\ inside (fst iv) (snd iv) k)) ->
       lget k (losc s') = lget k (losc s)).
  Proof.
    induction ivs as [|i0 ivs IH]; intros s k; cbn [fold_left]; cbn zeta.
    - split; [intros [iv [[] _]]|reflexivity].
    - destruct (IH (update_interp s i0) k) as [H1 H2]. cbn zeta in *.
      assert (Hnbc : nbc (update_interp s i0) = nbc s) by (destruct i0; reflexivity).
      assert (Hg : forall a b, get_loss (update_interp s i0) a b = get_loss s a b) by (intros; destruct i0; reflexivity).
      rewrite Hnbc in H1, H2.
      (* does a later interval match? *)
      assert (Hdec : (exists iv, In iv ivs /\ In k (L1D.pairs (nbc s)) /\ inside (fst iv) (snd iv) k) \/
                     (forall iv, In iv ivs -> ~ (In k (L1D.pairs (nbc s)) /\ inside (fst iv) (snd iv) k))).
      { clear IH H1 H2. induction ivs as [|i1 ivs IH']; [right; intros iv []|].
        destruct IH' as [[iv [Hi H]]|Hn]; [left; exists iv; split; [right; exact Hi|exact H]|].
        destruct (In_dec_ival OL k (L1D.pairs (nbc s))) as [Hp|Hp].
        - unfold L1DStruct.inside. destruct (L1D.leb ltb eqb (fst i1) (fst k) && ltb (fst k) (snd i1)) eqn:E.
          + left. exists i1. split; [left; reflexivity|]. split; [exact Hp|exact E].
          + right. intros iv [<-|Hi]; [intros [_ H]; unfold L1DStruct.inside in H; congruence|apply Hn; exact Hi].
        - right. intros iv _ [H _]. contradiction. }
      split.
      + intros [iv [Hin [Hp Hi]]]. destruct Hdec as [Hlater|Hnone].
        * destruct (H1 Hlater) as [iv' [Hin' [Hi' Hv]]]. exists iv'. split; [right; exact Hin'|].
          split; [exact Hi'|]. rewrite Hv, Hg. reflexivity.
        * destruct Hin as [<-|Hin]; [|exfalso; exact (Hnone iv Hin (conj Hp Hi))].
          exists i0. split; [left; reflexivity|]. split; [exact Hi|].
          rewrite (H2 Hnone). apply update_interp_losc; assumption.
      + intros Hn. rewrite H2 by (intros iv Hi; apply Hn; right; exact Hi).
        apply update_interp_losc. apply Hn. left; reflexivity.
  Qed.

  (* ---------------- order helpers ---------------- *)
  Lemma le_refl a : le a a. Proof. right; reflexivity. Qed.
  Lemma lt_le a b : lt a b -> le a b. Proof. left; assumption. Qed.
  Lemma le_lt_trans a b c : le a b -> lt b c -> lt a c.
  Proof. intros [H| ->] H2; [exact (lt_trans OL H H2)|exact H2]. Qed.
  Lemma lt_le_trans a b c : lt a b -> le b c -> lt a c.
  Proof. intros H [H2| <-]; [exact (lt_trans OL H H2)|exact H]. Qed.
  Lemma not_le_lt a b : ~ le a b -> lt b a.
  Proof. intros H. destruct (trichotomy OL a b) as [H'|[H'|H']]; [exfalso; apply H; left; exact H'|exfalso; apply H; right; exact H'|exact H']. Qed.
  Lemma le_not_lt a b : le a b -> ~ lt b a.
  Proof. intros [H| ->] H'; [exact (lt_asym OL H H')|exact (lt_irrefl OL H')]. Qed.

  Lemma adj_snd_le l k b : adj l k -> In b l -> lt (fst k) b -> le (snd k) b.
  Proof.
    intros [_ [_ [_ Hno]]] Hb Hlt. destruct (trichotomy OL (snd k) b) as [H|[H|H]]; [left; exact H|right; exact H|].
    exfalso. exact (Hno b Hb (conj Hlt H)).
  Qed.
  Lemma adj_fst_ge l k a : adj l k -> In a l -> lt a (snd k) -> le a (fst k).
  Proof.
    intros [_ [_ [_ Hno]]] Ha Hlt. destruct (trichotomy OL a (fst k)) as [H|[H|H]]; [left; exact H|right; exact H|].
    exfalso. exact (Hno a Ha (conj H Hlt)).
  Qed.

  Lemma inside_spec a b k : inside a b k <-> le a (fst k) /\ lt (fst k) b.
  Proof.
    unfold L1DStruct.inside. rewrite andb_true_iff.
    rewrite (leb_spec add sub mul div zero is_nan is_inf round12 OL). unfold le. tauto.
  Qed.

  (* ---------------- the invariant ---------------- *)
  Definition COK (l : list num) (m : list (ival * num)) (k : ival) (val : num) : Prop :=
    (exists a b v, adj l (a, b) /\ le a (fst k) /\ le (snd k) b /\ lget (a, b) m = Some v /\
        (val = interp k a b v \/ (k = (a, b) /\ val = v)))
    \/ (((forall a, In a l -> ~ le a (fst k)) \/ (forall b, In b l -> ~ le (snd k) b)) /\ val = inf).

  Definition CInv (s : st) : Prop :=
    forall k val, adj (nbc s) k -> lget k (losc s) = Some val -> COK (nb s) (los s) k val.

  Lemma cinv_init : CInv (@init num sub zero inf neg_inf P).
  Proof. intros k val [[] _]. Qed.

  Lemma cinv_remove_unfinished (s : st) : CInv (L1D.remove_unfinished s).
  Proof.
    intros k val Hadj Hv. cbn [L1D.remove_unfinished nbc losc nb los] in *.
    left. exists (fst k), (snd k), val. destruct k as [p q]; cbn [fst snd] in *.
    split; [exact Hadj|]. split; [apply le_refl|]. split; [apply le_refl|]. split; [exact Hv|].
    right. split; reflexivity.
  Qed.

  (* ---------------- pending point: what update_losses writes ---------------- *)
  Notation set_opt := (@set_opt num ltb eqb).
  Notation lpop_opt := (@lpop_opt num eqb).
  Notation find_neighbors := (@find_neighbors num ltb).
  Notation update_losses := (@update_losses num sub mul div ltb eqb zero one inf L P).
  Notation tell_pending := (@tell_pending num sub mul div ltb eqb zero one inf L P).
  Notation SInv := (@SInv num ltb eqb).
  Notation is_left := (is_left ltb).
  Notation is_right := (is_right ltb).

  Lemma lget_set_opt A B v (m : list (ival * num)) k :
    lget k (set_opt A B v m) =
    match A, B with
    | Some a', Some b' => if L1D.ival_eqb eqb k (a', b') then Some v else lget k m
    | _, _ => lget k m
    end.
  Proof. unfold L1D.set_opt. destruct A, B; try reflexivity. apply (lget_lset OL). Qed.

  Lemma lget_lpop_opt A B (m : list (ival * num)) k : ksorted m ->
    lget k (lpop_opt A B m) =
    match A, B with
    | Some a', Some b' => if L1D.ival_eqb eqb k (a', b') then None else lget k m
    | _, _ => lget k m
    end.
  Proof. intros Hs. unfold L1D.lpop_opt. destruct A, B; try reflexivity. apply (lget_lpop OL); exact Hs. Qed.

  Definition odef (o : option num) (d : num) : num := match o with Some v => v | None => d end.

  Lemma update_losses_false_losc (s : st) x :
    losc (update_losses s x false) =
    let xl := fst (find_neighbors x (nb s)) in let xr := snd (find_neighbors x (nb s)) in
    let a := fst (find_neighbors x (nbc s)) in let b := snd (find_neighbors x (nbc s)) in
    match xl, xr with
    | Some l, Some r =>
        match lget (l, r) (los s) with
        | Some loss =>
            set_opt (Some x) b (div (mul (sub (odef b x) x) loss) (sub r l))
              (set_opt a (Some x) (div (mul (sub x (odef a x)) loss) (sub r l)) (lpop_opt a b (losc s)))
        | None => lpop_opt a b (losc s)
        end
    | _, _ => set_opt (Some x) b inf (set_opt a (Some x) inf (lpop_opt a b (losc s)))
    end.
  Proof.
    unfold L1D.update_losses.
    destruct (find_neighbors x (nb s)) as [xl xr]. destruct (find_neighbors x (nbc s)) as [a b].
    cbn [fst snd]. cbn zeta.
    destruct xl as [l|], xr as [r|]; cbn [negb andb L1D.with_los los losc]; try reflexivity.
    destruct (lget (l, r) (los s)) as [loss|]; cbn [L1D.with_los los losc]; [|reflexivity].
    destruct a, b; reflexivity.
  Qed.

  Lemma strip_sets x k a b v1 v2 (m : list (ival * num)) : ksorted m ->
    k <> (odef a x, x) -> k <> (x, odef b x) -> ~ (a = Some (fst k) /\ b = Some (snd k)) ->
    lget k (set_opt (Some x) b v2 (set_opt a (Some x) v1 (lpop_opt a b m))) = lget k m.
  Proof.
    intros Hs H1 H2 H3. rewrite !lget_set_opt, (lget_lpop_opt a b k Hs).
    destruct a as [a'|], b as [b'|]; cbn [odef] in *.
    - apply (ival_eqb_neq OL) in H1, H2. rewrite H1, H2.
      destruct (L1D.ival_eqb eqb k (a', b')) eqn:E; [|reflexivity].
      apply (ival_eqb_eq OL) in E. subst k. exfalso. apply H3. split; reflexivity.
    - apply (ival_eqb_neq OL) in H1. rewrite H1. reflexivity.
    - apply (ival_eqb_neq OL) in H2. rewrite H2. reflexivity.
    - reflexivity.
  Qed.

  Lemma cinv_tell_pending (s : st) x : SInv s -> CInv s -> dget x (data s) = None -> CInv (tell_pending s x).
  Proof.
    intros HI HC Hd. unfold L1D.tell_pending. rewrite Hd.
    set (s1 := L1D.mk (data s) (insert x (pend s)) (nb s) (insert x (nbc s)) (los s) (losc s)
                      (bbx s) (bby s) (sx s) (sy s) (osy s) (mgrx s)).
    destruct (update_losses_false_frame add sub mul div ltb eqb zero one inf is_nan is_inf round12 L P s1 x)
      as [_ [_ [F3 [F4 F5]]]].
    assert (Hxnb : ~ In x (nb s)) by (intros Hin; apply (s_real HI) in Hin; congruence).
    assert (Hnbc1 : sorted (insert x (nbc s))) by (apply (insert_sorted OL), (s_nbc HI)).
    destruct (find_neighbors_spec OL x (s_nb HI)) as [Hl Hr].
    destruct (find_neighbors_spec OL x Hnbc1) as [Ha Hb].
    apply (is_left_insert_inv OL) in Ha. apply (is_right_insert_inv OL) in Hb.
    intros k val Hadj Hv. rewrite F4 in Hadj. rewrite F3, F5. cbn [nbc nb los s1] in *.
    rewrite (update_losses_false_losc s1 x) in Hv. cbn zeta in Hv. cbn [nb nbc los losc s1] in Hv.
    set (xl := fst (find_neighbors x (nb s))) in *. set (xr := snd (find_neighbors x (nb s))) in *.
    set (a := fst (find_neighbors x (insert x (nbc s)))) in *. set (b := snd (find_neighbors x (insert x (nbc s)))) in *.
    pose proof (s_losc_sorted HI) as Hks.
    (* where does k sit? *)
    apply (@adj_insert_gen _ _ _ OL (nbc s) x a b k (s_nbc HI) Ha Hb) in Hadj.
    assert (Hreal_le : forall l, xl = Some l -> a <> None /\ forall a', a = Some a' -> le l a').
    { intros l El. rewrite El in Hl. destruct Hl as [Hlin [Hlx _]].
      assert (Hlc : In l (nbc s)) by (apply (s_comb HI); left; exact Hlin).
      destruct a as [a'|]; [split; [discriminate|]|exfalso; exact (Ha l Hlc Hlx)].
      intros a'' E; inversion E; subst a''. destruct Ha as [_ [_ Hmax]].
      destruct (Hmax l Hlc Hlx) as [->|H]; [apply le_refl|left; exact H]. }
    assert (Hreal_ge : forall r, xr = Some r -> b <> None /\ forall b', b = Some b' -> le b' r).
    { intros r Er. rewrite Er in Hr. destruct Hr as [Hrin [Hxr _]].
      assert (Hrc : In r (nbc s)) by (apply (s_comb HI); left; exact Hrin).
      destruct b as [b'|]; [split; [discriminate|]|exfalso; exact (Hb r Hrc Hxr)].
      intros b'' E; inversion E; subst b''. destruct Hb as [_ [_ Hmin]].
      destruct (Hmin r Hrc Hxr) as [->|H]; [apply le_refl|left; exact H]. }
    destruct (L1D.ival_eqb eqb k (odef a x, x)) eqn:Eka; [destruct a as [a'|] eqn:Ea|].
    - (* k = (a', x): the left piece *)
      apply (ival_eqb_eq OL) in Eka. cbn [odef] in Eka. subst k.
      destruct Ha as [Hain [Hax _]].
      destruct xl as [l|] eqn:Exl, xr as [r|] eqn:Exr.
      + assert (Hlr : adj (nb s) (l, r)) by (eapply (neighbours_adj OL); eauto).
        apply (s_los_keys HI) in Hlr. apply (In_keys_lget OL) in Hlr.
        destruct (lget (l, r) (los s)) as [loss|] eqn:Eloss; [|congruence].
        rewrite lget_set_opt, lget_set_opt in Hv.
        assert (Hne : L1D.ival_eqb eqb (a', x) (x, odef b x) = false).
        { apply (ival_eqb_neq OL). intros E; inversion E; subst. exact (lt_irrefl OL Hax). }
        destruct b as [b'|]; cbn [odef] in *; [rewrite Hne in Hv|]; rewrite (ival_eqb_refl OL) in Hv; inversion Hv; subst val.
        all: left; exists l, r, loss; split; [eapply (neighbours_adj OL); eauto|]; cbn [fst snd].
        all: split; [apply (proj2 (Hreal_le l eq_refl)); reflexivity|].
        all: split; [left; apply Hr|]; split; [exact Eloss|left; reflexivity].
      + rewrite lget_set_opt, lget_set_opt in Hv.
        assert (Hne : forall b', L1D.ival_eqb eqb (a', x) (x, b') = false).
        { intros b'. apply (ival_eqb_neq OL). intros E; inversion E; subst. exact (lt_irrefl OL Hax). }
        destruct b as [b'|]; [rewrite Hne in Hv|]; rewrite (ival_eqb_refl OL) in Hv; inversion Hv; subst val.
        all: right; split; [|reflexivity]; right; cbn [fst snd]; intros c Hc Hle.
        all: destruct Hle as [Hlt| ->]; [exact (Hr c Hc Hlt)|exact (Hxnb Hc)].
      + rewrite lget_set_opt, lget_set_opt in Hv.
        assert (Hne : forall b', L1D.ival_eqb eqb (a', x) (x, b') = false).
        { intros b'. apply (ival_eqb_neq OL). intros E; inversion E; subst. exact (lt_irrefl OL Hax). }
        destruct b as [b'|]; [rewrite Hne in Hv|]; rewrite (ival_eqb_refl OL) in Hv; inversion Hv; subst val.
        all: right; split; [|reflexivity]; left; cbn [fst snd]; intros c Hc Hle.
        all: exact (Hl c Hc (le_lt_trans Hle Hax)).
      + rewrite lget_set_opt, lget_set_opt in Hv.
        assert (Hne : forall b', L1D.ival_eqb eqb (a', x) (x, b') = false).
        { intros b'. apply (ival_eqb_neq OL). intros E; inversion E; subst. exact (lt_irrefl OL Hax). }
        destruct b as [b'|]; [rewrite Hne in Hv|]; rewrite (ival_eqb_refl OL) in Hv; inversion Hv; subst val.
        all: right; split; [|reflexivity]; left; cbn [fst snd]; intros c Hc Hle.
        all: exact (Hl c Hc (le_lt_trans Hle Hax)).
    - (* a = None but k = (x, x): impossible, k is an adjacent pair *)
      apply (ival_eqb_eq OL) in Eka. cbn [odef] in Eka. subst k. exfalso.
      destruct Hadj as [[[_ [_ [H _]]] _]|[[E _]|[_ E]]]; cbn [fst snd] in *; try discriminate.
      + exact (lt_irrefl OL H).
      + rewrite E in Hb. destruct Hb as [_ [H _]]. exact (lt_irrefl OL H).
    - destruct (L1D.ival_eqb eqb k (x, odef b x)) eqn:Ekb; [destruct b as [b'|] eqn:Eb|].
      + (* k = (x, b'): the right piece *)
        apply (ival_eqb_eq OL) in Ekb. cbn [odef] in Ekb. subst k.
        destruct Hb as [Hbin [Hxb _]].
        assert (Hv' : forall v1 v2, lget (x, b') (set_opt (Some x) (Some b') v2 (set_opt a (Some x) v1 (lpop_opt a (Some b') (losc s)))) = Some v2).
        { intros v1 v2. rewrite lget_set_opt, (ival_eqb_refl OL). reflexivity. }
        destruct xl as [l|] eqn:Exl, xr as [r|] eqn:Exr.
        * assert (Hlr : adj (nb s) (l, r)) by (eapply (neighbours_adj OL); eauto).
          pose proof Hlr as Hlr'. apply (s_los_keys HI) in Hlr'. apply (In_keys_lget OL) in Hlr'.
          destruct (lget (l, r) (los s)) as [loss|] eqn:Eloss; [|congruence].
          rewrite Hv' in Hv. inversion Hv; subst val. cbn [odef].
          left. exists l, r, loss. split; [exact Hlr|]. cbn [fst snd].
          split; [left; apply Hl|]. split; [apply (proj2 (Hreal_ge r eq_refl)); reflexivity|].
          split; [exact Eloss|left; reflexivity].
        * rewrite Hv' in Hv. inversion Hv; subst val.
          right. split; [|reflexivity]. right. cbn [fst snd]. intros c Hc Hle.
          exact (Hr c Hc (lt_le_trans Hxb Hle)).
        * rewrite Hv' in Hv. inversion Hv; subst val.
          right. split; [|reflexivity]. left. cbn [fst snd]. intros c Hc Hle.
          destruct Hle as [Hlt| ->]; [exact (Hl c Hc Hlt)|exact (Hxnb Hc)].
        * rewrite Hv' in Hv. inversion Hv; subst val.
          right. split; [|reflexivity]. left. cbn [fst snd]. intros c Hc Hle.
          destruct Hle as [Hlt| ->]; [exact (Hl c Hc Hlt)|exact (Hxnb Hc)].
      + apply (ival_eqb_eq OL) in Ekb. cbn [odef] in Ekb. subst k. exfalso.
        destruct Hadj as [[[_ [_ [H _]]] _]|[[E _]|[_ E]]]; cbn [fst snd] in *.
        * exact (lt_irrefl OL H).
        * rewrite E in Ha. destruct Ha as [_ [H _]]. exact (lt_irrefl OL H).
        * discriminate.
      + (* an old piece *)
        apply (ival_eqb_neq OL) in Eka, Ekb.
        assert (Hold : adj (nbc s) k /\ ~ (a = Some (fst k) /\ b = Some (snd k))).
        { destruct Hadj as [H|[[E1 E2]|[E1 E2]]]; [exact H| |]; exfalso.
          - apply Eka. destruct k as [p q]; cbn [fst snd] in *. subst q. rewrite E1. reflexivity.
          - apply Ekb. destruct k as [p q]; cbn [fst snd] in *. subst p. rewrite E2. reflexivity. }
        destruct Hold as [Hk0 Hne].
        assert (Hlook : lget k (losc s) = Some val).
        { destruct xl as [l|] eqn:Exl, xr as [r|] eqn:Exr; try (rewrite (strip_sets _ _ Hks Eka Ekb Hne) in Hv; exact Hv).
          assert (Hlr : adj (nb s) (l, r)) by (eapply (neighbours_adj OL); eauto).
          apply (s_los_keys HI) in Hlr. apply (In_keys_lget OL) in Hlr.
          destruct (lget (l, r) (los s)) as [loss|]; [|congruence].
          rewrite (strip_sets _ _ Hks Eka Ekb Hne) in Hv. exact Hv. }
        exact (HC k val Hk0 Hlook).
  Qed.

  (* ---------------- the rescale sweep ---------------- *)
  Notation sweep := (@sweep num sub mul div ltb eqb zero one is_nan is_inf round12 L P).
  Notation get_intervals := (@get_intervals num eqb P).

  Lemma inside_dec ivs (nbcl : list num) k :
    (exists iv, In iv ivs /\ In k (L1D.pairs nbcl) /\ inside (fst iv) (snd iv) k) \/
    (forall iv, In iv ivs -> ~ (In k (L1D.pairs nbcl) /\ inside (fst iv) (snd iv) k)).
  Proof.
    induction ivs as [|i1 ivs IH]; [right; intros iv []|].
    destruct IH as [[iv [Hi H]]|Hn]; [left; exists iv; split; [right; exact Hi|exact H]|].
    destruct (In_dec_ival OL k (L1D.pairs nbcl)) as [Hp|Hp].
    - unfold L1DStruct.inside. destruct (L1D.leb ltb eqb (fst i1) (fst k) && ltb (fst k) (snd i1)) eqn:E.
      + left. exists i1. split; [left; reflexivity|]. split; [exact Hp|exact E].
      + right. intros iv [<-|Hi]; [intros [_ H]; unfold L1DStruct.inside in H; congruence|apply Hn; exact Hi].
    - right. intros iv _ [H _]. contradiction.
  Qed.

  (* a piece enclosed by an evaluated interval lies inside it *)
  Lemma enclosed_inside k a b : lt (fst k) (snd k) -> le a (fst k) -> le (snd k) b -> inside a b k.
  Proof. intros H1 H2 H3. apply inside_spec. split; [exact H2|exact (lt_le_trans H1 H3)]. Qed.

  Lemma cinv_sweep (s : st) : SInv s -> CInv s -> CInv (sweep s).
  Proof.
    intros HI HC.
    destruct (sweep_facts add sub mul div zero one is_nan is_inf round12 L P OL s) as [Hkeys [N1 _]].
    pose proof (sweep_sinv add sub mul div zero one is_nan is_inf round12 L P OL HI) as HI4.
    intros k val Hadj Hv.
    assert (Hnbc : nbc (sweep s) = nbc s).
    { unfold L1D.sweep. destruct (fold_interp add sub mul div zero one is_nan is_inf round12 L P OL
                  (rev (map fst (sort_by (L1D.key2_ltb sub div ltb eqb is_nan is_inf round12 (mgrx s)) (los s)))) s) as [_ [_ [_ [H _]]]]. exact H. }
    rewrite Hnbc in Hadj. rewrite N1.
    unfold L1D.sweep in Hv |- *.
    set (order := rev (map fst (sort_by _ (los s)))) in *.
    assert (Hord : forall iv, In iv order <-> In iv (keys (los s))).
    { intros iv. unfold order. rewrite <- in_rev. unfold L1DMaps.keys. split.
      - intros H. apply in_map_iff in H as [e [<- He]]. apply sort_by_In in He. apply in_map. exact He.
      - intros H. apply in_map_iff in H as [e [<- He]]. apply in_map. apply sort_by_In. exact He. }
    destruct (fold_interp_losc order s k) as [FA FB]. cbn zeta in FA, FB.
    destruct (inside_dec order (nbc s) k) as [Hex|Hno].
    - destruct (FA Hex) as [iv [Hin [Hi Hval]]]. rewrite Hval in Hv. inversion Hv; subst val.
      apply Hord in Hin. pose proof Hin as Hadjiv. apply (s_los_keys HI) in Hadjiv.
      left. exists (fst iv), (snd iv), (get_loss s (fst iv) (snd iv)).
      destruct iv as [a b]; cbn [fst snd] in *. split; [exact Hadjiv|].
      apply inside_spec in Hi as [Hi1 Hi2]. split; [exact Hi1|]. split.
      + apply (adj_snd_le Hadj); [apply (s_comb HI); left; apply Hadjiv|exact Hi2].
      + split; [|left; reflexivity].
        pose proof (sweep_resets_all sub mul div zero one is_nan is_inf round12 L P OL s (a, b) Hin) as Hr.
        unfold L1D.sweep in Hr. fold order in Hr. cbn [fst snd] in Hr. rewrite Hr. f_equal.
        destruct (fold_interp_values sub mul div zero one L P OL order s (a, b) (proj2 (Hord _) Hin)) as [_ Hg].
        apply Hg.
    - rewrite (FB Hno) in Hv. destruct (HC k val Hadj Hv) as [[a [b [v [Hab [H1 [H2 _]]]]]]|Hinf].
      + exfalso. apply (Hno (a, b)); [apply Hord, (s_los_keys HI); exact Hab|].
        split; [apply (pairs_adj OL (s_nbc HI)); exact Hadj|]. cbn [fst snd].
        apply enclosed_inside; [apply Hadj|exact H1|exact H2].
      + right. exact Hinf.
  Qed.

  (* ---------------- an evaluated point ---------------- *)
  Notation update_scale := (@update_scale num sub ltb zero inf neg_inf is_nan).
  Notation tell_core := (@tell_core num sub mul div ltb eqb zero one inf neg_inf is_nan L P).
  Notation dset := (@dset num ltb eqb).
  Notation remove := (@remove num eqb).

  Lemma update_losses_true_losc (s : st) x :
    losc (update_losses s x true) =
    let xl := fst (find_neighbors x (nb s)) in let xr := snd (find_neighbors x (nb s)) in
    let a := fst (find_neighbors x (nbc s)) in let b := snd (find_neighbors x (nbc s)) in
    let s' := fold_left update_interp (get_intervals x (nb s)) (L1D.with_los s (los s) (lpop_opt a b (losc s))) in
    let m := lpop_opt xl xr (losc s') in
    let m1 := match xl with None => set_opt a (Some x) inf m | Some _ => m end in
    match xr with None => set_opt (Some x) b inf m1 | Some _ => m1 end.
  Proof.
    unfold L1D.update_losses.
    destruct (find_neighbors x (nb s)) as [xl xr]. destruct (find_neighbors x (nbc s)) as [a b].
    cbn [fst snd]. cbn zeta. destruct xl, xr; reflexivity.
  Qed.

  Lemma cinv_tell_core (s : st) x (y : Y num) : SInv s -> CInv s -> dget x (data s) = None ->
    CInv (tell_core s x y).
  Proof.
    intros HI HC Hd. unfold L1DStruct.tell_core.
    set (s1 := L1D.mk (dset x y (data s)) (remove x (pend s)) (insert x (nb s)) (insert x (nbc s))
                      (los s) (losc s) (bbx s) (bby s) (sx s) (sy s) (osy s) (mgrx s)).
    set (s2 := update_scale s1 x y).
    destruct (update_scale_frame add sub mul div ltb zero inf neg_inf is_nan is_inf round12 s1 x y)
      as [U1 [U2 [U3 [U4 [U5 U6]]]]]. fold s2 in U1, U2, U3, U4, U5, U6.
    assert (Hxnb : ~ In x (nb s)) by (intros Hin; apply (s_real HI) in Hin; congruence).
    assert (Hkl : ksorted (los s2)) by (rewrite U5; exact (s_los_sorted HI)).
    assert (Hkc : ksorted (losc s2)) by (rewrite U6; exact (s_losc_sorted HI)).
    pose proof (@update_losses_true num add sub mul div ltb eqb zero one inf is_nan is_inf round12 L P OL s2 x Hkl Hkc) as HU.
    cbn zeta in HU. destruct HU as [V1 [V2 [V3 [V4 _]]]].
    pose proof (@update_losses_true_values num add sub mul div ltb eqb zero one inf is_nan is_inf round12 L P OL s2 x Hkl) as HW.
    cbn zeta in HW. destruct HW as [_ [Wa Wb]].
    assert (Hs1 : sorted (insert x (nb s))) by (apply (insert_sorted OL), (s_nb HI)).
    assert (Hsc1 : sorted (insert x (nbc s))) by (apply (insert_sorted OL), (s_nbc HI)).
    assert (Hx1 : In x (insert x (nb s))) by (apply (insert_In OL); left; reflexivity).
    assert (Hxc1 : In x (insert x (nbc s))) by (apply (insert_In OL); left; reflexivity).
    assert (Hsub1 : forall c, In c (insert x (nb s)) -> In c (insert x (nbc s))).
    { intros c Hc. apply (insert_In OL) in Hc. apply (insert_In OL).
      destruct Hc as [->|Hc]; [left; reflexivity|right; apply (s_comb HI); left; exact Hc]. }
    intros k val Hadj Hv. rewrite V4, U4 in Hadj. rewrite V3, U3. cbn [nb nbc s1] in Hadj |- *.
    rewrite (update_losses_true_losc s2 x) in Hv. cbn zeta in Hv.
    rewrite U3, U4, U5, U6 in Hv. cbn [nb nbc los losc s1] in Hv.
    rewrite U3 in Wa, Wb. cbn [nb s1] in Wa, Wb.
    destruct (find_neighbors_spec OL x Hs1) as [Hl1 Hr1]. destruct (find_neighbors_spec OL x Hsc1) as [Ha1 Hb1].
    set (xl := fst (find_neighbors x (insert x (nb s)))) in *.
    set (xr := snd (find_neighbors x (insert x (nb s)))) in *.
    set (a := fst (find_neighbors x (insert x (nbc s)))) in *.
    set (b := snd (find_neighbors x (insert x (nbc s)))) in *.
    pose proof (is_left_insert_inv OL _ _ _ Hl1) as Hl0. pose proof (is_right_insert_inv OL _ _ _ Hr1) as Hr0.
    pose proof (is_left_insert_inv OL _ _ _ Ha1) as Ha0. pose proof (is_right_insert_inv OL _ _ _ Hb1) as Hb0.
    set (ivs := get_intervals x (insert x (nb s))) in *.
    set (s1' := L1D.with_los s2 (los s) (lpop_opt a b (losc s))) in *.
    set (s' := fold_left update_interp ivs s1') in *.
    assert (Hnbc1' : nbc s1' = insert x (nbc s)) by (cbn [s1' L1D.with_los nbc]; rewrite U4; reflexivity).
    destruct (fold_interp_losc ivs s1' k) as [FA FB]. cbn zeta in FA, FB. fold s' in FA, FB.
    rewrite Hnbc1' in FA, FB.
    assert (Hgl : forall p q, get_loss s1' p q = get_loss s2 p q) by reflexivity.
    assert (Hkp : In k (L1D.pairs (insert x (nbc s)))) by (apply (pairs_adj OL Hsc1); exact Hadj).
    assert (Hklt : lt (fst k) (snd k)) by apply Hadj.
    assert (Hks' : ksorted (losc s')).
    { destruct (fold_interp add sub mul div zero one is_nan is_inf round12 L P OL ivs s1') as [_ [_ [_ [_ [_ [_ [_ H]]]]]]].
      apply H. cbn [s1' L1D.with_los losc]. apply lpop_opt_ksorted. exact (s_losc_sorted HI). }
    (* k is neither of the two popped keys *)
    assert (Hnot_lr : ~ (xl = Some (fst k) /\ xr = Some (snd k))).
    { intros [El Er]. rewrite El in Hl0. rewrite Er in Hr0.
      destruct Hl0 as [_ [H1 _]], Hr0 as [_ [H2 _]].
      exact (adj_not_around Hadj Hxc1 H1 H2). }
    assert (Hnot_ab : ~ (a = Some (fst k) /\ b = Some (snd k))).
    { intros [Ea Eb]. rewrite Ea in Ha0. rewrite Eb in Hb0.
      destruct Ha0 as [_ [H1 _]], Hb0 as [_ [H2 _]].
      exact (adj_not_around Hadj Hxc1 H1 H2). }
    assert (Hivs_adj : forall iv, In iv ivs -> adj (insert x (nb s)) iv).
    { intros iv Hin. eapply get_intervals_sub; eauto. }
    assert (Hivs_ok : forall iv, In iv ivs -> ~ okey xl xr iv).
    { intros iv Hin Hok. apply (okey_spec add sub mul div zero is_nan is_inf round12) in Hok as [El Er].
      rewrite El in Hl0. rewrite Er in Hr0. destruct Hl0 as [_ [H1 _]], Hr0 as [_ [H2 _]].
      exact (adj_not_around (Hivs_adj iv Hin) Hx1 H1 H2). }
    assert (Hpop : forall A B (m : list (ival * num)), ksorted m -> ~ (A = Some (fst k) /\ B = Some (snd k)) ->
              lget k (lpop_opt A B m) = lget k m).
    { intros A B m Hm Hne. rewrite (lget_lpop_opt A B k Hm). destruct A as [a'|], B as [b'|]; try reflexivity.
      destruct (L1D.ival_eqb eqb k (a', b')) eqn:E; [|reflexivity].
      apply (ival_eqb_eq OL) in E. subst k. exfalso. apply Hne. split; reflexivity. }
    destruct (inside_dec ivs (insert x (nbc s)) k) as [Hex|Hno].
    - (* Case A: k lies inside a recomputed interval *)
      destruct (FA Hex) as [iv [Hin [Hi Hval]]]. rewrite Hgl in Hval.
      pose proof (Hivs_adj iv Hin) as Hadjiv. destruct iv as [p q]; cbn [fst snd] in *.
      apply inside_spec in Hi as [Hi1 Hi2].
      assert (Hq : le (snd k) q).
      { apply (adj_snd_le Hadj); [apply Hsub1; apply Hadjiv|exact Hi2]. }
      assert (Hfinal : val = interp k p q (get_loss s2 p q)).
      { assert (Hna : xl = None -> ~ okey a (Some x) k).
        { intros Exl Hok. apply (okey_spec add sub mul div zero is_nan is_inf round12) in Hok as [Ea Ex].
          inversion Ex as [Ex']. rewrite Exl in Hl0.
          destruct Hadjiv as [Hp _]; cbn [fst] in Hp. apply (insert_In OL) in Hp as [->|Hp].
          - rewrite <- Ex' in Hklt. exact (le_not_lt Hi1 Hklt).
          - apply (Hl0 p Hp). rewrite Ex'. exact (le_lt_trans Hi1 Hklt). }
        assert (Hnb : xr = None -> ~ okey (Some x) b k).
        { intros Exr Hok. apply (okey_spec add sub mul div zero is_nan is_inf round12) in Hok as [Ex Eb].
          inversion Ex as [Ex']. rewrite Exr in Hr0.
          destruct Hadjiv as [_ [Hq' _]]; cbn [snd] in Hq'. apply (insert_In OL) in Hq' as [->|Hq'].
          - rewrite <- Ex' in Hi2. exact (lt_irrefl OL Hi2).
          - apply (Hr0 q Hq'). rewrite Ex'. exact Hi2. }
        assert (Hm : lget k (lpop_opt xl xr (losc s')) = Some (interp k p q (get_loss s2 p q))).
        { rewrite (Hpop xl xr _ Hks' Hnot_lr). exact Hval. }
        destruct xl as [l|] eqn:Exl, xr as [r|] eqn:Exr.
        + rewrite Hm in Hv. inversion Hv; reflexivity.
        + rewrite lget_set_opt in Hv. destruct b as [b'|].
          * destruct (L1D.ival_eqb eqb k (x, b')) eqn:E.
            -- apply (ival_eqb_eq OL) in E. exfalso. apply (Hnb eq_refl). cbn. exact E.
            -- rewrite Hm in Hv. inversion Hv; reflexivity.
          * rewrite Hm in Hv. inversion Hv; reflexivity.
        + rewrite lget_set_opt in Hv. destruct a as [a'|].
          * destruct (L1D.ival_eqb eqb k (a', x)) eqn:E.
            -- apply (ival_eqb_eq OL) in E. exfalso. apply (Hna eq_refl). cbn. exact E.
            -- rewrite Hm in Hv. inversion Hv; reflexivity.
          * rewrite Hm in Hv. inversion Hv; reflexivity.
        + rewrite !lget_set_opt in Hv.
          assert (E1 : match b with Some b' => L1D.ival_eqb eqb k (x, b') = false | None => True end).
          { destruct b as [b'|]; [|exact I]. apply (ival_eqb_neq OL). intros E. apply (Hnb eq_refl). cbn. exact E. }
          assert (E2 : match a with Some a' => L1D.ival_eqb eqb k (a', x) = false | None => True end).
          { destruct a as [a'|]; [|exact I]. apply (ival_eqb_neq OL). intros E. apply (Hna eq_refl). cbn. exact E. }
          destruct b as [b'|], a as [a'|]; rewrite ?E1, ?E2 in Hv; rewrite Hm in Hv; inversion Hv; reflexivity. }
      left. exists p, q, (get_loss s2 p q). split; [exact Hadjiv|]. split; [exact Hi1|]. split; [exact Hq|].
      split; [|left; exact Hfinal].
      exact (Wa (p, q) (Hivs_ok _ Hin) Hin).
    - (* Case B: k lies inside no recomputed interval *)
      assert (Hbase : lget k (lpop_opt xl xr (losc s')) = lget k (losc s)).
      { rewrite (Hpop xl xr _ Hks' Hnot_lr), (FB Hno). cbn [s1' L1D.with_los losc].
        apply Hpop; [exact (s_losc_sorted HI)|exact Hnot_ab]. }
      assert (HnoI : forall iv, In iv ivs -> ~ inside (fst iv) (snd iv) k).
      { intros iv Hin Hi. exact (Hno iv Hin (conj Hkp Hi)). }
      assert (Hleft_iv : forall l, xl = Some l -> In (l, x) ivs).
      { intros l El. apply (get_intervals_left add sub mul div zero is_nan is_inf round12 P OL Hs1).
        apply (left_adj OL); [exact Hx1|]. rewrite <- El. exact Hl1. }
      assert (Hright_iv : forall r, xr = Some r -> In (x, r) ivs).
      { intros r Er. apply (get_intervals_right add sub mul div zero is_nan is_inf round12 P OL Hs1).
        apply (right_adj OL); [exact Hx1|]. rewrite <- Er. exact Hr1. }
      assert (Hreal_le : forall l a', xl = Some l -> a = Some a' -> le l a').
      { intros l a' El Ea. rewrite El in Hl0. rewrite Ea in Ha0. destruct Hl0 as [Hlin [Hlx _]].
        assert (Hlc : In l (nbc s)) by (apply (s_comb HI); left; exact Hlin).
        destruct Ha0 as [_ [_ Hmax]]. destruct (Hmax l Hlc Hlx) as [->|H]; [apply le_refl|left; exact H]. }
      assert (Hreal_ge : forall r b', xr = Some r -> b = Some b' -> le b' r).
      { intros r b' Er Eb. rewrite Er in Hr0. rewrite Eb in Hb0. destruct Hr0 as [Hrin [Hxr _]].
        assert (Hrc : In r (nbc s)) by (apply (s_comb HI); left; exact Hrin).
        destruct Hb0 as [_ [_ Hmin]]. destruct (Hmin r Hrc Hxr) as [->|H]; [apply le_refl|left; exact H]. }
      destruct (L1D.ival_eqb eqb k (odef a x, x)) eqn:Eka.
      + (* k = (a', x) *)
        apply (ival_eqb_eq OL) in Eka. destruct a as [a'|] eqn:Ea; cbn [odef] in Eka; subst k; cbn [fst snd] in *;
          [|exfalso; exact (lt_irrefl OL Hklt)].
        destruct xl as [l|] eqn:Exl.
        * exfalso. apply (HnoI (l, x) (Hleft_iv l eq_refl)). cbn [fst snd]. apply inside_spec. cbn [fst].
          split; [exact (Hreal_le l a' eq_refl eq_refl)|exact Hklt].
        * assert (Hval : val = inf).
          { destruct xr as [r|]; rewrite ?lget_set_opt in Hv.
            - rewrite (ival_eqb_refl OL) in Hv. inversion Hv; reflexivity.
            - destruct b as [b'|].
              + assert (E : L1D.ival_eqb eqb (a', x) (x, b') = false).
                { apply (ival_eqb_neq OL). intros E; inversion E; subst. exact (lt_irrefl OL Hklt). }
                rewrite E, (ival_eqb_refl OL) in Hv. inversion Hv; reflexivity.
              + rewrite (ival_eqb_refl OL) in Hv. inversion Hv; reflexivity. }
          right. split; [|exact Hval]. left. intros c Hc Hle. apply (insert_In OL) in Hc as [->|Hc].
          -- exact (le_not_lt Hle Hklt).
          -- exact (Hl0 c Hc (le_lt_trans Hle Hklt)).
      + destruct (L1D.ival_eqb eqb k (x, odef b x)) eqn:Ekb.
        * (* k = (x, b') *)
          apply (ival_eqb_eq OL) in Ekb. destruct b as [b'|] eqn:Eb; cbn [odef] in Ekb; subst k; cbn [fst snd] in *;
            [|exfalso; exact (lt_irrefl OL Hklt)].
          destruct xr as [r|] eqn:Exr.
          -- exfalso. apply (HnoI (x, r) (Hright_iv r eq_refl)). cbn [fst snd]. apply inside_spec. cbn [fst].
             split; [apply le_refl|]. destruct Hr0 as [_ [H _]]. exact H.
          -- assert (Hval : val = inf).
             { rewrite lget_set_opt, (ival_eqb_refl OL) in Hv. inversion Hv; reflexivity. }
             right. split; [|exact Hval]. right. intros c Hc Hle. apply (insert_In OL) in Hc as [->|Hc].
             ++ exact (le_not_lt Hle Hklt).
             ++ exact (Hr0 c Hc (lt_le_trans Hklt Hle)).
        * (* an old piece *)
          apply (ival_eqb_neq OL) in Eka, Ekb.
          assert (Hlook : lget k (losc s) = Some val).
          { rewrite <- Hbase.
            assert (E1 : forall v m, lget k (set_opt a (Some x) v m) = lget k m).
            { intros v m. rewrite lget_set_opt. destruct a as [a'|]; [|reflexivity]. cbn [odef] in Eka.
              apply (ival_eqb_neq OL) in Eka. rewrite Eka. reflexivity. }
            assert (E2 : forall v m, lget k (set_opt (Some x) b v m) = lget k m).
            { intros v m. rewrite lget_set_opt. destruct b as [b'|]; [|reflexivity]. cbn [odef] in Ekb.
              apply (ival_eqb_neq OL) in Ekb. rewrite Ekb. reflexivity. }
            destruct xl, xr; rewrite ?E2, ?E1 in Hv; exact Hv. }
          assert (Hk0 : adj (nbc s) k).
          { apply (@adj_insert_gen _ _ _ OL (nbc s) x a b k (s_nbc HI) Ha0 Hb0) in Hadj.
            destruct Hadj as [[H _]|[[E1 E2]|[E1 E2]]]; [exact H| |]; exfalso.
            - apply Eka. destruct k as [p q]; cbn [fst snd] in *. subst q. rewrite E1. reflexivity.
            - apply Ekb. destruct k as [p q]; cbn [fst snd] in *. subst p. rewrite E2. reflexivity. }
          destruct (HC k val Hk0 Hlook) as [[a0 [b0 [v0 [Hab [H1 [H2 [Hv0 Hform]]]]]]]|[Halt Hinf]].
          -- (* enclosed before: still enclosed by the same interval *)
             assert (Hne : ~ okey xl xr (a0, b0)).
             { intros Hok. apply (okey_spec add sub mul div zero is_nan is_inf round12) in Hok as [El Er].
               cbn [fst snd] in El, Er.
               destruct (trichotomy OL x (fst k)) as [Hx|[Hx|Hx]].
               - apply (HnoI (x, b0) (Hright_iv b0 Er)). cbn [fst snd].
                 apply enclosed_inside; [exact Hklt|left; exact Hx|exact H2].
               - apply (HnoI (x, b0) (Hright_iv b0 Er)). cbn [fst snd].
                 apply enclosed_inside; [exact Hklt|right; exact Hx|exact H2].
               - assert (Hsx : le (snd k) x) by (apply (adj_snd_le Hadj); assumption).
                 apply (HnoI (a0, x) (Hleft_iv a0 El)). cbn [fst snd].
                 apply enclosed_inside; [exact Hklt|exact H1|exact Hsx]. }
             assert (Hab1 : adj (insert x (nb s)) (a0, b0)).
             { apply (@adj_insert_gen _ _ _ OL (nb s) x xl xr (a0, b0) (s_nb HI) Hl0 Hr0). left. split; [exact Hab|].
               intros H. apply Hne. apply (okey_spec add sub mul div zero is_nan is_inf round12). exact H. }
             assert (Hnin : ~ In (a0, b0) ivs).
             { intros Hin. apply (HnoI (a0, b0) Hin). cbn [fst snd]. apply enclosed_inside; assumption. }
             left. exists a0, b0, v0. split; [exact Hab1|]. split; [exact H1|]. split; [exact H2|].
             split; [|exact Hform]. rewrite (Wb (a0, b0) Hne Hnin), U5. exact Hv0.
          -- (* no evaluated point on one side before *)
             right. split; [|exact Hinf]. destruct Halt as [HL|HR].
             ++ destruct (trichotomy OL x (fst k)) as [Hx|[Hx|Hx]].
                ** (* x < fst k: x is a new point below the piece *)
                   destruct xr as [r|] eqn:Exr.
                   { exfalso. apply (HnoI (x, r) (Hright_iv r eq_refl)). cbn [fst snd]. apply inside_spec.
                     split; [left; exact Hx|]. destruct Hr0 as [Hrin _]. apply not_le_lt. apply HL. exact Hrin. }
                   { right. intros c Hc Hle. apply (insert_In OL) in Hc as [->|Hc].
                     - exact (le_not_lt Hle (lt_trans OL Hx Hklt)).
                     - apply (Hr0 c Hc). exact (lt_le_trans (lt_trans OL Hx Hklt) Hle). }
                ** destruct xr as [r|] eqn:Exr.
                   { exfalso. apply (HnoI (x, r) (Hright_iv r eq_refl)). cbn [fst snd]. apply inside_spec.
                     split; [right; exact Hx|]. destruct Hr0 as [Hrin _]. apply not_le_lt. apply HL. exact Hrin. }
                   { right. intros c Hc Hle. apply (insert_In OL) in Hc as [->|Hc].
                     - rewrite Hx in Hle. exact (le_not_lt Hle Hklt).
                     - apply (Hr0 c Hc). rewrite Hx. exact (lt_le_trans Hklt Hle). }
                ** left. intros c Hc Hle. apply (insert_In OL) in Hc as [->|Hc].
                   { exact (le_not_lt Hle Hx). }
                   { exact (HL c Hc Hle). }
             ++ destruct (trichotomy OL (snd k) x) as [Hx|[Hx|Hx]].
                ** destruct xl as [l|] eqn:Exl.
                   { exfalso. apply (HnoI (l, x) (Hleft_iv l eq_refl)). cbn [fst snd]. apply inside_spec.
                     destruct Hl0 as [Hlin _].
                     assert (Hls : lt l (snd k)) by (apply not_le_lt; apply HR; exact Hlin).
                     split; [|exact (lt_trans OL Hklt Hx)].
                     apply (adj_fst_ge Hadj); [apply Hsub1; apply (insert_In OL); right; exact Hlin|exact Hls]. }
                   { left. intros c Hc Hle. apply (insert_In OL) in Hc as [->|Hc].
                     - exact (le_not_lt Hle (lt_trans OL Hklt Hx)).
                     - apply (Hl0 c Hc). exact (le_lt_trans Hle (lt_trans OL Hklt Hx)). }
                ** destruct xl as [l|] eqn:Exl.
                   { exfalso. apply (HnoI (l, x) (Hleft_iv l eq_refl)). cbn [fst snd]. apply inside_spec.
                     destruct Hl0 as [Hlin _].
                     assert (Hls : lt l (snd k)) by (apply not_le_lt; apply HR; exact Hlin).
                     split; [|rewrite <- Hx; exact Hklt].
                     apply (adj_fst_ge Hadj); [apply Hsub1; apply (insert_In OL); right; exact Hlin|exact Hls]. }
                   { left. intros c Hc Hle. apply (insert_In OL) in Hc as [->|Hc].
                     - rewrite <- Hx in Hle. exact (le_not_lt Hle Hklt).
                     - apply (Hl0 c Hc). rewrite <- Hx. exact (le_lt_trans Hle Hklt). }
                ** right. intros c Hc Hle. apply (insert_In OL) in Hc as [->|Hc].
                   { exact (le_not_lt Hle Hx). }
                   { exact (HR c Hc Hle). }
  Qed.

  (* ---------------- operations and histories ---------------- *)
  Notation tell := (@tell num sub mul div ltb eqb zero one inf neg_inf is_nan is_inf round12 L P).
  Notation step := (@step num add sub mul div ltb eqb zero one inf neg_inf is_nan is_inf round12 of_nat L P).
  Notation run := (@run num add sub mul div ltb eqb zero one inf neg_inf is_nan is_inf round12 of_nat L P).
  Notation legal := (@L1DStruct.legal num add sub mul div ltb eqb zero one inf neg_inf is_nan is_inf round12 of_nat L P).
  Notation legal_op := (@L1DStruct.legal_op num ltb eqb P).
  Notation in_bounds := (L1D.in_bounds ltb eqb P).

  Lemma cinv_fields (s s' : st) :
    nb s' = nb s -> nbc s' = nbc s -> los s' = los s -> losc s' = losc s -> CInv s -> CInv s'.
  Proof. intros E1 E2 E3 E4 HC k val. rewrite E1, E2, E3, E4. apply HC. Qed.

  Lemma cinv_tell (s : st) x (y : Y num) : SInv s -> CInv s -> in_bounds x = true -> CInv (tell s x y).
  Proof.
    intros HI HC Hb. destruct (dget x (data s)) as [v|] eqn:Hd.
    - rewrite (tell_known sub mul div ltb eqb zero one inf neg_inf is_nan is_inf round12 L P s x y Hd). exact HC.
    - rewrite (tell_unfold sub mul div ltb eqb zero one inf neg_inf is_nan is_inf round12 L P s x y Hd Hb).
      pose proof (tell_core_sinv add sub mul div zero one inf neg_inf is_nan is_inf round12 L P OL x y HI Hd) as HI3.
      pose proof (@cinv_tell_core s x y HI HC Hd) as HC3.
      destruct (ltb _ _); [|exact HC3].
      eapply cinv_fields; [..|exact (cinv_sweep HI3 HC3)]; reflexivity.
  Qed.

  Lemma step_cinv (s : st) o : SInv s -> CInv s -> legal_op s o = true -> CInv (fst (step s o)).
  Proof.
    intros HI HC Hl. destruct o as [x y|x|xys force| |n c]; cbn [L1D.step fst L1DStruct.legal_op] in *.
    - apply cinv_tell; assumption.
    - destruct (dget x (data s)) as [v|] eqn:E.
      + rewrite (tell_pending_known sub mul div ltb eqb zero one inf L P s x E). exact HC.
      + apply cinv_tell_pending; assumption.
    - apply andb_true_iff in Hl as [Hl Hb]. unfold L1D.tell_many. rewrite Hl. clear Hl.
      revert s HI HC. induction xys as [|xy xys IH]; intros s HI HC; cbn [fold_left]; [exact HC|].
      cbn [forallb] in Hb. apply andb_true_iff in Hb as [Hb1 Hb2].
      apply IH; [exact Hb2| |apply cinv_tell; assumption].
      apply (tell_sinv add sub mul div zero one inf neg_inf is_nan is_inf round12 L P OL); assumption.
    - apply cinv_remove_unfinished.
    - unfold L1D.ask. cbn [fst]. destruct c; [|exact HC].
      generalize (fst (L1D.ask_points add sub mul div ltb eqb zero inf is_nan is_inf round12 of_nat P s n)).
      intros pts. revert s HI HC. induction pts as [|p pts IH]; intros s HI HC; cbn [fold_left]; [exact HC|].
      destruct (dget p (data s)) as [v|] eqn:E.
      + rewrite (tell_pending_known sub mul div ltb eqb zero one inf L P s p E). apply IH; assumption.
      + apply IH; [apply (tell_pending_sinv add sub mul div zero one inf is_nan is_inf round12 L P OL); assumption|].
        apply cinv_tell_pending; assumption.
  Qed.

  Theorem combined_inv h : forall (s : st), SInv s -> CInv s -> legal s h = true -> CInv (run s h).
  Proof.
    induction h as [|o h IH]; intros s HI HC Hl; [exact HC|].
    change (run s (o :: h)) with (run (fst (step s o)) h).
    cbn [L1DStruct.legal] in Hl. apply andb_true_iff in Hl as [Hl1 Hl2].
    apply IH; [|apply step_cinv; assumption|exact Hl2].
    apply (step_sinv add sub mul div zero one inf neg_inf is_nan is_inf round12 of_nat L P OL); assumption.
  Qed.
End Combined.
