(* Bookkeeping lemmas for properties C09 / C10 about Model/LND.v (LearnerND's
   bookkeeping on the combinatorial triangulation model; points are ids, every
   geometric / numeric decision is an oracle answer carried by the operation,
   so the statements hold for every function, loss and predicate outcome).
   All variants of the code ([repaired], [fix12]).  Axiom-free.

   C09.  LearnerND.ask(n, tell_pending=False) is "with restore(self): return
   self._ask_and_tell_pending(n)": its model is [ask_nc] -- the output of the
   committing ask, the state handed back -- and that it is the identity on the
   state is by construction (the real snapshot is what the twin oracle of
   harness/avh/props/c09.py examines).  The commit clause is proved for data
   and the pending set only (_partial): the committing ask also consumes
   entries of _simplex_queue, which ask(n, False) + tell_pending(each) leaves
   in the queue as outdated entries -- observably different exactly in the
   situations of finding C09:F29 (outdated entries revived), so equality of the
   whole state / of later answers is false of the code and not claimed.

   C10.  Values are not modelled (data = the told points in order of first
   tell).  LearnerND.loss ignores its [real] flag, the model has one loss. *)
From Coq Require Import ZArith.
From AV Require Import Base.Prelude Base.NatSet Model.Tri Model.LND Proofs.LNDProofs.

Section LNDBK.
  Variable L : Type.
  Variables (lmul ldiv : L -> L -> L) (labs : L -> L) (linf : L).
  Variable rnd : L -> Z.
  Variable lltb : L -> L -> bool.
  Variable d : nat.
  Variable corners : list nat.
  Variables repaired fix12 : bool.

  Notation lnd := (lnd L).
  Notation env := (env L).
  Notation op := (op L).
  Notation touch := (touch lmul ldiv rnd d fix12).
  Notation recall := (recompute_all lmul ldiv rnd d fix12).
  Notation updl := (update_losses lmul ldiv rnd d fix12).
  Notation tellp := (tell_pending lmul ldiv rnd d fix12).
  Notation askone := (ask_one lmul ldiv labs linf rnd d corners fix12).
  Notation askn := (ask_n lmul ldiv labs linf rnd d corners fix12).
  Notation tell := (tell lmul ldiv rnd d fix12).
  Notation rmu := (remove_unfinished rnd repaired).
  Notation step := (step lmul ldiv labs linf rnd d corners repaired fix12).
  Notation run := (run lmul ldiv labs linf rnd d corners repaired fix12).
  Notation touch_dataF := (touch_data L lmul ldiv labs linf rnd lltb d fix12).
  Notation updl_specF := (updl_spec L lmul ldiv labs linf rnd lltb d fix12).
  Notation recall_specF := (recall_spec L lmul ldiv labs linf rnd lltb d fix12).
  Notation loop_keepsF := (tellp_loop_keeps L lmul ldiv rnd d).
  Notation askone_postF := (askone_post L lmul ldiv labs linf rnd lltb d corners fix12).
  Notation askone_noneF := (askone_none L lmul ldiv labs linf rnd d corners fix12).
  Implicit Types (s : lnd) (E : env) (p : nat) (h : list op).

  Definition dp s := (l_data s, l_pend s).

  Lemma dp_eq s (a b : list nat) : dp s = (a, b) -> l_data s = a /\ l_pend s = b.
  Proof. unfold dp. intros H. inversion H. split; reflexivity. Qed.

  (* ---------------- tell_pending ---------------- *)
  Lemma tellp_dp E s p hint :
    dp (tellp E s p hint) =
    (l_data s, if failed s then l_pend s else if e_inb E p then nat_insert p (l_pend s) else l_pend s).
  Proof.
    unfold tell_pending, dp. destruct (failed s); [reflexivity|].
    destruct (e_inb E p); cbn [negb]; [|reflexivity].
    set (s0 := set_pend s (nat_insert p (l_pend s))).
    destruct (touch_dataF s0 E) as [D1 D2].
    destruct (l_tri (touch E s0)) as [t|]; [|rewrite D1, D2; reflexivity].
    destruct (match hint with Some h0 => h0 | None => e_locate E p end) as [|v0 sx]; [rewrite D1, D2; reflexivity|].
    match goal with |- context [fold_left ?f ?l ?a] => destruct (loop_keepsF E p l a) as (_ & _ & K3 & K4 & _) end.
    rewrite K3, K4, D1, D2. reflexivity.
  Qed.

  (* ---------------- tell ---------------- *)
  Lemma tell_known E s p : nat_mem p (l_data s) = true -> tell E s p = s.
  Proof. intros H. unfold LND.tell. rewrite H. reflexivity. Qed.

  Lemma tell_new_dp E s p : nat_mem p (l_data s) = false ->
    dp (tell E s p) = (l_data s ++ [p], nat_remove p (l_pend s)).
  Proof.
    intros H. unfold LND.tell, dp. rewrite H.
    set (s0 := set_pend s (nat_remove p (l_pend s))).
    destruct (touch_dataF s0 E) as [D1 D2]. set (s1 := touch E s0) in *.
    set (s2 := set_data s1 (l_data s1 ++ [p])).
    assert (B : l_data s2 = l_data s ++ [p] /\ l_pend s2 = nat_remove p (l_pend s)).
    { unfold s2. cbn [l_data l_pend set_data]. rewrite D1, D2. split; reflexivity. }
    destruct B as [B1 B2].
    destruct (e_inb E p); cbn [negb]; [|rewrite B1, B2; reflexivity].
    set (s3 := if e_rescale E then recall E s2 else s2).
    assert (B3 : l_data s3 = l_data s2 /\ l_pend s3 = l_pend s2).
    { unfold s3. destruct (e_rescale E); [|split; reflexivity].
      destruct (recall_specF [] s2 E) as (A1 & A2 & _). cbv zeta in *. split; assumption. }
    destruct B3 as [C1 C2].
    destruct (l_tri s1); cbn [negb]; [|rewrite C1, C2, B1, B2; reflexivity].
    destruct (l_tri s3) as [t3|]; [|rewrite C1, C2, B1, B2; reflexivity].
    destruct (add_point d t3 p (e_hint E) (e_main E)) as [t' o].
    destruct o as [dl ad|why|].
    - destruct (updl_specF E (set_tri s3 (Some t')) dl ad) as (_ & U2 & U3 & _). cbv zeta in *.
      rewrite U2, U3. cbn [l_data l_pend set_tri]. rewrite C1, C2, B1, B2. reflexivity.
    - destruct why; cbn [l_data l_pend set_err set_tri]; rewrite C1, C2, B1, B2; reflexivity.
    - cbn [l_data l_pend set_err set_tri]. rewrite C1, C2, B1, B2. reflexivity.
  Qed.

  (* ---------------- steps ---------------- *)
  Lemma dp_load s E : dp (load s E) = dp s.
  Proof. reflexivity. Qed.
  Lemma dp_finish s pts : dp (fst (finish s pts)) = dp s.
  Proof. unfold finish. destruct (l_err s); reflexivity. Qed.
  Lemma failed_load s E : failed (load s E) = false.
  Proof. reflexivity. Qed.

  Lemma step_tell_dp s p E :
    dp (fst (step s (Tell p E))) =
    if nat_mem p (l_data s) then dp s else (l_data s ++ [p], nat_remove p (l_pend s)).
  Proof.
    cbn [LND.step]. rewrite dp_finish. destruct (nat_mem p (l_data s)) eqn:Em.
    - rewrite tell_known by exact Em. reflexivity.
    - rewrite tell_new_dp by exact Em. reflexivity.
  Qed.

  Lemma step_tell_pending_dp s p E :
    dp (fst (step s (TellPending p E))) =
    (l_data s, if e_inb E p then nat_insert p (l_pend s) else l_pend s).
  Proof. cbn [LND.step]. rewrite dp_finish, tellp_dp, failed_load. reflexivity. Qed.

  Lemma step_remove_dp s : dp (fst (step s RemoveUnfinished)) = (l_data s, []).
  Proof.
    cbn [LND.step]. rewrite dp_finish. destruct (rmu_keeps L rnd repaired s) as (_ & _ & A3 & _ & _ & A6 & _).
    cbv zeta in *. unfold dp. rewrite A3, A6. reflexivity.
  Qed.

  Lemma step_touch_dp s E : dp (fst (step s (Touch E))) = dp s.
  Proof. cbn [LND.step]. rewrite dp_finish. destruct (touch_dataF (load s E) E) as [D1 D2]. unfold dp. rewrite D1, D2. reflexivity. Qed.

  (* ---------------- ask ---------------- *)
  (* one point handed out: it is marked pending (if inside the bounds), data untouched *)
  Lemma askone_some_dp E s s' p l0 : askone E s = (s', Some (p, l0)) ->
    dp s' = (l_data s, if e_inb E p then nat_insert p (l_pend s) else l_pend s) /\
    (In p corners /\ ~ In p (l_data s) \/ free_corners corners s = []).
  Proof.
    unfold ask_one. destruct (failed s) eqn:Ef; [discriminate|].
    destruct (free_corners corners s) as [|c fc] eqn:Efc.
    - destruct (touch_dataF s E) as [D1 D2].
      destruct (l_tri (touch E s)) as [t|].
      + destruct (pop_highest (touch E s) (l_queue (touch E s))) as [[[[loss sp] u] q']|]; [|discriminate].
        unfold next_choice. cbn [l_choose set_queue].
        destruct (l_choose (touch E s)) as [|q r]; [cbn [failed l_err set_err]; discriminate|].
        set (s2 := set_choose (set_queue (touch E s) q') r).
        destruct (failed s2) eqn:Ef2; [discriminate|].
        assert (Hdp : dp (tellp E s2 q (Some sp)) = (l_data s, if e_inb E q then nat_insert q (l_pend s) else l_pend s)).
        { rewrite tellp_dp, Ef2. cbn [l_data l_pend s2 set_choose set_queue]. rewrite D1, D2. reflexivity. }
        intros H. injection H as Hs' Hp' Hl'. rewrite <- Hs', <- Hp'. split; [|right; reflexivity].
        destruct u; [exact Hdp|]. destruct (shas sp (l_subs (tellp E s2 q (Some sp)))); exact Hdp.
      + unfold next_choice. destruct (l_choose (touch E s)) as [|q r]; [cbn [failed l_err set_err]; discriminate|].
        set (s2 := set_choose (touch E s) r).
        destruct (failed s2) eqn:Ef2; [discriminate|].
        intros H. injection H as Hs' Hp' Hl'. rewrite <- Hs', <- Hp'. split; [|right; reflexivity].
        rewrite tellp_dp, Ef2. cbn [l_data l_pend s2 set_choose]. rewrite D1, D2. reflexivity.
    - intros H. injection H as Hs' Hp' Hl'. rewrite <- Hs', <- Hp'. split.
      + rewrite tellp_dp, Ef. reflexivity.
      + left. assert (Hin : In c (free_corners corners s)) by (rewrite Efc; left; reflexivity).
        unfold free_corners in Hin. apply filter_In in Hin as [H1 H2]. split; [exact H1|].
        apply andb_true_iff in H2 as [H2 _]. apply negb_true_iff in H2. intros Hd. apply nat_mem_In in Hd. congruence.
  Qed.

  Lemma askn_dp E : forall n s acc s' out, askn E n s acc = (s', out) -> l_err s' = None ->
    exists news, out = rev acc ++ news /\ l_data s' = l_data s /\
      (forall x, In x (l_pend s') <-> In x (l_pend s) \/ (In x (map fst news) /\ e_inb E x = true)) /\
      (forall x, In x (map fst news) -> In x corners \/ free_corners corners s' = [] \/ True).
  Proof.
    induction n as [|n IH]; intros s acc s' out; cbn [ask_n].
    - intros H _. inversion H; subst. exists []. rewrite app_nil_r. repeat split; cbn; tauto.
    - destruct (askone E s) as [s1 [[p l0]|]] eqn:E1.
      + destruct (failed s1) eqn:Ef1.
        { intros H He. inversion H; subst. apply failed_err in He. congruence. }
        intros H He. destruct (IH s1 ((p, l0) :: acc) s' out H He) as [news [H1 [H2 [H3 _]]]].
        destruct (askone_some_dp E s s1 p l0 E1) as [Hdp _]. destruct (dp_eq _ _ _ Hdp) as [Hd Hp].
        exists ((p, l0) :: news). cbn [rev] in H1. rewrite <- app_assoc in H1. cbn [app] in H1.
        split; [exact H1|]. split; [congruence|]. split; [|intros; right; right; exact I].
        intros x. rewrite H3, Hp. cbn [map fst In].
        destruct (e_inb E p) eqn:Ei.
        * rewrite nat_insert_In. split.
          -- intros [[->|Hx]|[Hx Hb]]; auto.
          -- intros [Hx|[[<-|Hx] Hb]]; auto.
        * split.
          -- intros [Hx|[Hx Hb]]; auto.
          -- intros [Hx|[[<-|Hx] Hb]]; auto. congruence.
      + intros H He. inversion H; subst. exfalso. exact (askone_noneF E s s' E1 He).
  Qed.

  (* ================= C10 / C09: one committing ask ================= *)
  Theorem lnd_ask_dp s n E s' pts :
    step s (Ask n E) = (s', ORet pts) ->
    l_data s' = l_data s /\
    (forall x, In x (l_pend s') <-> In x (l_pend s) \/ (In x (map fst pts) /\ e_inb E x = true)).
  Proof.
    cbn [LND.step]. destruct (askn E n (load s E) []) as [s1 out] eqn:Ea.
    unfold finish. destruct (l_err s1) eqn:Ee; [discriminate|].
    intros H. inversion H; subst; clear H.
    destruct (askn_dp E n (load s E) [] s' pts Ea Ee) as [news [H1 [H2 [H3 _]]]].
    cbn [rev app] in H1. subst pts. split; [exact H2|exact H3].
  Qed.

  (* ================= C09 ================= *)
  Definition ask_nc s n E : lnd * out L := (s, snd (step s (Ask n E))).

  Theorem lnd_ask_noop s n E :
    fst (ask_nc s n E) = s /\
    (forall h, run (fst (ask_nc s n E)) h = run s h) /\
    snd (ask_nc (fst (ask_nc s n E)) n E) = snd (ask_nc s n E) /\
    snd (ask_nc s n E) = snd (step s (Ask n E)).
  Proof. repeat split. Qed.

  (* tell_pending of each point of an answer, each call with its own oracle *)
  Definition mark_ops (pes : list (nat * env)) : list op := map (fun pe => TellPending (fst pe) (snd pe)) pes.

  Lemma run_cons s (o : op) h : run s (o :: h) = run (fst (step s o)) h.
  Proof. reflexivity. Qed.

  Lemma mark_ops_dp pes : forall s,
    l_data (run s (mark_ops pes)) = l_data s /\
    (forall x, In x (l_pend (run s (mark_ops pes))) <->
               In x (l_pend s) \/ exists E, In (x, E) pes /\ e_inb E x = true).
  Proof.
    induction pes as [|[p E] pes IH]; intros s.
    - cbn. split; [reflexivity|]. intros x. split; [auto|intros [H|[E [[] _]]]; exact H].
    - cbn [mark_ops map fst snd]. rewrite run_cons. fold (mark_ops pes).
      destruct (IH (fst (step s (TellPending p E)))) as [H1 H2].
      pose proof (step_tell_pending_dp s p E) as Hdp. destruct (dp_eq _ _ _ Hdp) as [Hd Hp].
      split; [rewrite H1; exact Hd|]. intros x. rewrite H2, Hp. cbn [In].
      destruct (e_inb E p) eqn:Ei.
      + rewrite nat_insert_In. split.
        * intros [[->|Hx]|[E' [Hin Hb]]]; [right; exists E; auto|auto|right; exists E'; auto].
        * intros [Hx|[E' [[Heq|Hin] Hb]]]; [auto|inversion Heq; subst; auto|right; exists E'; auto].
      + split.
        * intros [Hx|[E' [Hin Hb]]]; [auto|right; exists E'; auto].
        * intros [Hx|[E' [[Heq|Hin] Hb]]]; [auto|inversion Heq; subst; congruence|right; exists E'; auto].
  Qed.

  (* data and the pending SET after ask(n, True) = after ask(n, False) +
     tell_pending(each returned point), when every returned point is inside the
     bounds for the oracles of both runs *)
  Theorem lnd_ask_commit_dp_partial s n E s' pts (pes : list (nat * env)) :
    step s (Ask n E) = (s', ORet pts) -> map fst pes = map fst pts ->
    (forall x, In x (map fst pts) -> e_inb E x = true) ->
    (forall x E', In (x, E') pes -> e_inb E' x = true) ->
    snd (ask_nc s n E) = ORet pts /\
    l_data s' = l_data (run (fst (ask_nc s n E)) (mark_ops pes)) /\
    (forall x, In x (l_pend s') <-> In x (l_pend (run (fst (ask_nc s n E)) (mark_ops pes)))).
  Proof.
    intros Hs Hm Hin1 Hin2. destruct (lnd_ask_dp s n E s' pts Hs) as [A1 A2].
    destruct (mark_ops_dp pes s) as [B1 B2]. cbn [ask_nc fst snd]. rewrite Hs.
    split; [reflexivity|]. split; [congruence|]. intros x. rewrite A2, B2. split.
    - intros [Hx|[Hx Hb]]; [auto|]. right. rewrite <- Hm in Hx. apply in_map_iff in Hx as [[x' E'] [<- Hx]].
      exists E'. split; [exact Hx|]. eapply Hin2; eauto.
    - intros [Hx|[E' [Hx Hb]]]; [auto|]. right.
      assert (In x (map fst pts)) by (rewrite <- Hm; apply in_map_iff; exists (x, E'); auto). auto.
  Qed.

  (* ================= C10: data ================= *)
  Definition told_ins (acc : list nat) (o : op) : list nat :=
    match o with Tell p _ => if nat_mem p acc then acc else acc ++ [p] | _ => acc end.
  Definition told_list h : list nat := fold_left told_ins h [].

  Lemma step_data s (o : op) : l_data (fst (step s o)) = told_ins (l_data s) o.
  Proof.
    destruct o as [p E|p E|n E| |E]; cbn [told_ins].
    - pose proof (step_tell_dp s p E) as H. destruct (nat_mem p (l_data s)); destruct (dp_eq _ _ _ H) as [Ha _]; exact Ha.
    - pose proof (step_tell_pending_dp s p E) as H. destruct (dp_eq _ _ _ H) as [Ha _]; exact Ha.
    - cbn [LND.step]. destruct (askn E n (load s E) []) as [s1 out] eqn:Ea.
      pose proof (askn_post L lmul ldiv labs linf rnd lltb d corners fix12 E n (load s E) []) as Hp.
      rewrite Ea in Hp. cbn [fst] in Hp. destruct Hp as [Hd _].
      pose proof (dp_finish s1 out) as Hf. destruct (dp_eq _ _ _ Hf) as [Hf1 Hf2]. rewrite Hf1, Hd. reflexivity.
    - pose proof (step_remove_dp s) as H. destruct (dp_eq _ _ _ H) as [Ha _]; exact Ha.
    - pose proof (step_touch_dp s E) as H. destruct (dp_eq _ _ _ H) as [Ha _]; exact Ha.
  Qed.

  (* ALL histories: data = the told points, each once, in order of first tell;
     npoints = len(data) = number of distinct told points *)
  Theorem lnd_data_exact h : forall s, l_data (run s h) = fold_left told_ins h (l_data s).
  Proof.
    induction h as [|o h IH]; intros s; [reflexivity|]. rewrite run_cons, IH, step_data. reflexivity.
  Qed.

  Lemma told_fold_spec h : forall acc, NoDup acc ->
    NoDup (fold_left told_ins h acc) /\
    (forall p, In p (fold_left told_ins h acc) <-> In p acc \/ exists E, In (Tell p E) h).
  Proof.
    induction h as [|o h IH]; intros acc Hn; cbn [fold_left].
    - split; [exact Hn|]. intros p. split; [auto|intros [H|[E []]]; exact H].
    - assert (Hn' : NoDup (told_ins acc o)).
      { destruct o as [p E|p E|n E| |E]; cbn [told_ins]; try exact Hn.
        destruct (nat_mem p acc) eqn:Em; [exact Hn|]. apply NoDup_app_disj; [exact Hn|repeat constructor; cbn; tauto|].
        intros x Hx [<-|[]]. apply nat_mem_In in Hx. congruence. }
      destruct (IH _ Hn') as [H1 H2]. split; [exact H1|]. intros p. rewrite H2. cbn [In].
      destruct o as [q E|q E|n E| |E]; cbn [told_ins];
        try (split; [intros [H|[E0 H]]; [auto|right; exists E0; auto]|intros [H|[E0 [H|H]]]; [auto|discriminate|right; exists E0; auto]]).
      destruct (nat_mem q acc) eqn:Em.
      + apply nat_mem_In in Em. split.
        * intros [H|[E0 H]]; [auto|right; exists E0; auto].
        * intros [H|[E0 [H|H]]]; [auto|inversion H; subst; auto|right; exists E0; auto].
      + rewrite in_app_iff. cbn [In]. split.
        * intros [[H|[<-|[]]]|[E0 H]]; [auto|right; exists E; auto|right; exists E0; auto].
        * intros [H|[E0 [H|H]]]; [auto|inversion H; subst; auto|right; exists E0; auto].
  Qed.

  Theorem lnd_npoints h :
    l_data (run (init_lnd L) h) = told_list h /\ NoDup (told_list h) /\
    (forall p, In p (told_list h) <-> exists E, In (Tell p E) h).
  Proof.
    split; [apply (lnd_data_exact h (init_lnd L))|].
    destruct (told_fold_spec h [] (NoDup_nil _)) as [H1 H2]. split; [exact H1|].
    intros p. unfold told_list. rewrite H2. cbn [In]. tauto.
  Qed.

  (* ================= C10: told is not pending; re-tell; discard ================= *)
  Theorem lnd_told_not_pending s p E :
    (In p (l_data s) -> ~ In p (l_pend s)) -> ~ In p (l_pend (fst (step s (Tell p E)))).
  Proof.
    intros H. pose proof (step_tell_dp s p E) as Hdp.
    destruct (nat_mem p (l_data s)) eqn:Em; destruct (dp_eq _ _ _ Hdp) as [Hd Hp]; rewrite Hp.
    - apply H. apply nat_mem_In. exact Em.
    - rewrite nat_remove_In. tauto.
  Qed.

  Theorem lnd_retell_noop s p E : In p (l_data s) -> tell E s p = s.
  Proof. intros H. apply tell_known. apply nat_mem_In. exact H. Qed.

  Theorem lnd_discard s :
    l_pend (fst (step s RemoveUnfinished)) = [] /\ l_data (fst (step s RemoveUnfinished)) = l_data s /\
    l_subs (fst (step s RemoveUnfinished)) = [].
  Proof.
    pose proof (step_remove_dp s) as H. destruct (dp_eq _ _ _ H) as [H1 H2]. split; [exact H2|]. split; [exact H1|].
    cbn [LND.step]. destruct (rmu_keeps L rnd repaired s) as (_ & _ & _ & _ & _ & _ & A7). cbv zeta in A7.
    unfold finish. destruct (l_err (rmu s)); cbn [fst l_subs set_ok]; exact A7.
  Qed.

  (* ================= C10: data and pending disjoint ================= *)
  Definition Disj s : Prop := forall x, In x (l_pend s) -> ~ In x (l_data s).

  (* tell_pending only of points without a value; every ask answers (does not
     raise) and returns no point that already has a value (finding C10:F24 is
     the negation: without a triangulation the random point is not checked
     against data) *)
  Definition polite_op s (o : op) : Prop :=
    match o with
    | TellPending p _ => ~ In p (l_data s)
    | Ask n E => exists s' pts, step s (Ask n E) = (s', ORet pts) /\ forall x, In x (map fst pts) -> ~ In x (l_data s)
    | _ => True
    end.

  Fixpoint polite s h : Prop :=
    match h with
    | [] => True
    | o :: h' => polite_op s o /\ polite (fst (step s o)) h'
    end.

  Lemma disj_step s (o : op) : Disj s -> polite_op s o -> Disj (fst (step s o)).
  Proof.
    intros HD Hp x. destruct o as [p E|p E|n E| |E].
    - pose proof (step_tell_dp s p E) as Hdp.
      destruct (nat_mem p (l_data s)) eqn:Em; destruct (dp_eq _ _ _ Hdp) as [Hd Hpe]; rewrite Hd, Hpe; [apply HD|].
      rewrite nat_remove_In, in_app_iff. cbn [In]. intros [H1 H2] [H3|[H3|[]]]; [exact (HD x H1 H3)|congruence].
    - pose proof (step_tell_pending_dp s p E) as Hdp. destruct (dp_eq _ _ _ Hdp) as [Hd Hpe]. rewrite Hd, Hpe.
      cbn [polite_op] in Hp. destruct (e_inb E p); [|apply HD].
      rewrite nat_insert_In. intros [->|H]; [exact Hp|apply HD; exact H].
    - destruct Hp as [s' [pts [Es Hf]]]. destruct (lnd_ask_dp s n E s' pts Es) as [A1 A2].
      rewrite Es. cbn [fst]. rewrite A1, A2. intros [H|[H _]]; [apply HD; exact H|apply Hf; exact H].
    - pose proof (step_remove_dp s) as Hdp. destruct (dp_eq _ _ _ Hdp) as [Hd Hpe]. rewrite Hpe. intros [].
    - pose proof (step_touch_dp s E) as Hdp. destruct (dp_eq _ _ _ Hdp) as [Hd Hpe]. rewrite Hd, Hpe. apply HD.
  Qed.

  Theorem lnd_data_pending_disjoint h : forall s, Disj s -> polite s h -> Disj (run s h).
  Proof.
    induction h as [|o h IH]; intros s HD Hp; [exact HD|]. destruct Hp as [Hp1 Hp2].
    rewrite run_cons. apply IH; [apply disj_step; assumption|exact Hp2].
  Qed.

  (* ================= C10: asked is pending until told or discarded ================= *)
  Definition keeps_p (x : nat) (o : op) : bool :=
    match o with
    | RemoveUnfinished => false
    | Tell p _ => negb (p =? x)
    | _ => true
    end.

  Lemma pend_step_mono s (o : op) x : keeps_p x o = true -> (forall n E, o = Ask n E -> exists s' pts, step s o = (s', ORet pts)) ->
    In x (l_pend s) -> In x (l_pend (fst (step s o))).
  Proof.
    intros Hk Hans Hx. destruct o as [p E|p E|n E| |E]; cbn [keeps_p] in Hk; try discriminate.
    - pose proof (step_tell_dp s p E) as Hdp.
      destruct (nat_mem p (l_data s)); destruct (dp_eq _ _ _ Hdp) as [Hd Hpe]; rewrite Hpe; [exact Hx|].
      apply nat_remove_In. split; [exact Hx|]. apply negb_true_iff in Hk. apply Nat.eqb_neq in Hk. congruence.
    - pose proof (step_tell_pending_dp s p E) as Hdp. destruct (dp_eq _ _ _ Hdp) as [Hd Hpe]. rewrite Hpe.
      destruct (e_inb E p); [apply nat_insert_In; right; exact Hx|exact Hx].
    - destruct (Hans n E eq_refl) as [s' [pts Es]]. destruct (lnd_ask_dp s n E s' pts Es) as [_ A2].
      rewrite Es. cbn [fst]. apply A2. left; exact Hx.
    - pose proof (step_touch_dp s E) as Hdp. destruct (dp_eq _ _ _ Hdp) as [Hd Hpe]. rewrite Hpe. exact Hx.
  Qed.

  (* asks that answer (no exception), along a continuation *)
  Fixpoint answering s h : Prop :=
    match h with
    | [] => True
    | o :: h' => (forall n E, o = Ask n E -> exists s' pts, step s o = (s', ORet pts)) /\ answering (fst (step s o)) h'
    end.

  Theorem lnd_asked_is_pending s n E s' pts h x :
    step s (Ask n E) = (s', ORet pts) -> In x (map fst pts) -> e_inb E x = true ->
    forallb (keeps_p x) h = true -> answering s' h -> In x (l_pend (run s' h)).
  Proof.
    intros Es Hx Hb Hk Ha. destruct (lnd_ask_dp s n E s' pts Es) as [_ A2].
    assert (H0 : In x (l_pend s')) by (apply A2; right; auto).
    clear Es A2. revert s' H0 Ha Hk. induction h as [|o h IH]; intros s' H0 Ha Hk; [exact H0|].
    cbn [forallb] in Hk. apply andb_true_iff in Hk as [Hk1 Hk2]. destruct Ha as [Ha1 Ha2].
    rewrite run_cons. apply IH; [|exact Ha2|exact Hk2]. apply pend_step_mono; assumption.
  Qed.
End LNDBK.
Arguments Disj {L} s.
Arguments keeps_p {L} x o.

(* ---------------------------------------------------------------------- *)
(* a small closed instance (triangular domain, integer "losses", as in
   Props/C04.v) for examples and for the witness of finding C10:F24 *)
Definition ex_sub : orc := mkorc [0;1;2] [0;1;2] (fun _ => false) (fun _ => false) (fun _ => true).
Definition ex_env (tris : list (option (list simplex))) (choose : list nat) : env Z :=
  mkenv (fun _ => true) tris choose (mkorc [] [] (fun _ => false) (fun _ => false) (fun _ => false)) None false
        (fun _ => 5%Z) (fun _ => 1%Z) (fun _ _ => 1%Z) (fun _ _ => true) (fun _ _ => ex_sub) (fun _ => []) [].
Definition ex_step := step Z.mul Z.div Z.abs 1000%Z (fun x => x) 2 [0;1;2] true false.
Definition ex_run := run Z.mul Z.div Z.abs 1000%Z (fun x => x) 2 [0;1;2] true false.

(* F24 on the model: the three corners are told but no triangulation could be
   built yet (degenerate data); ask draws the "random" point 1 -- which already
   has a value -- and marks it pending *)
Lemma lnd_ask_hands_out_told_pf :
  let h := [Tell 0 (ex_env [] []); Tell 1 (ex_env [] []); Tell 2 (ex_env [] [])] in
  let s := ex_run (init_lnd Z) h in
  snd (ex_step s (Ask 1 (ex_env [None] [1]))) = ORet [(1, 1000%Z)] /\
  l_data (fst (ex_step s (Ask 1 (ex_env [None] [1])))) = [0; 1; 2] /\
  l_pend (fst (ex_step s (Ask 1 (ex_env [None] [1])))) = [1].
Proof. vm_compute. repeat split. Qed.
