(* circumsphere, general determinant path, dimension 4 (gen/Prims.v circumsphere4).
   Kept in its own file: it is the slowest proof (~30 s) and builds in parallel.
   Method: the squared distances are never expanded; the traced centre is shown
   to satisfy the four LINEAR equations 2 o.(p_i - p_0) = |p_i|^2 - |p_0|^2
   (one `field` each), from which equidistance follows by linear arithmetic. *)
From Coq Require Import Reals Lra Psatz.
From AV Require Import Model.PrimsBase Model.PrimsSpec Proofs.PrimsLemmas Proofs.PrimsGeom.
From AVGen Require Import Prims.
Local Open Scope R_scope.

Lemma circumsphere4_spec : forall a0 a1 a2 a3 b0 b1 b2 b3 c0 c1 c2 c3 d0 d1 d2 d3 e0 e1 e2 e3,
  det4 (b0 - a0) (b1 - a1) (b2 - a2) (b3 - a3) (c0 - a0) (c1 - a1) (c2 - a2) (c3 - a3)
       (d0 - a0) (d1 - a1) (d2 - a2) (d3 - a3) (e0 - a0) (e1 - a1) (e2 - a2) (e3 - a3) <> 0 ->
  let '((o0, o1, o2, o3), r) := circumsphere4 a0 a1 a2 a3 b0 b1 b2 b3 c0 c1 c2 c3 d0 d1 d2 d3 e0 e1 e2 e3 in
  0 <= r /\
  sq (o0 - a0) + sq (o1 - a1) + sq (o2 - a2) + sq (o3 - a3) = r * r /\
  sq (o0 - b0) + sq (o1 - b1) + sq (o2 - b2) + sq (o3 - b3) = r * r /\
  sq (o0 - c0) + sq (o1 - c1) + sq (o2 - c2) + sq (o3 - c3) = r * r /\
  sq (o0 - d0) + sq (o1 - d1) + sq (o2 - d2) + sq (o3 - d3) = r * r /\
  sq (o0 - e0) + sq (o1 - e1) + sq (o2 - e2) + sq (o3 - e3) = r * r.
Proof.
  intros. unfold det4, det3 in H.
  unfold circumsphere4; cbv zeta.
  match goal with |- _ /\ sq (?x0 - _) + sq (?x1 - _) + sq (?x2 - _) + sq (?x3 - _) = _ /\ _ =>
    set (o0 := x0); set (o1 := x1); set (o2 := x2); set (o3 := x3) end.
  assert (Lb : 2 * (o0 * (b0 - a0) + o1 * (b1 - a1) + o2 * (b2 - a2) + o3 * (b3 - a3))
               = (b0*b0+b1*b1+b2*b2+b3*b3) - (a0*a0+a1*a1+a2*a2+a3*a3)).
  { subst o0 o1 o2 o3. field. lra. }
  assert (Lc : 2 * (o0 * (c0 - a0) + o1 * (c1 - a1) + o2 * (c2 - a2) + o3 * (c3 - a3))
               = (c0*c0+c1*c1+c2*c2+c3*c3) - (a0*a0+a1*a1+a2*a2+a3*a3)).
  { subst o0 o1 o2 o3. field. lra. }
  assert (Ld : 2 * (o0 * (d0 - a0) + o1 * (d1 - a1) + o2 * (d2 - a2) + o3 * (d3 - a3))
               = (d0*d0+d1*d1+d2*d2+d3*d3) - (a0*a0+a1*a1+a2*a2+a3*a3)).
  { subst o0 o1 o2 o3. field. lra. }
  assert (Le : 2 * (o0 * (e0 - a0) + o1 * (e1 - a1) + o2 * (e2 - a2) + o3 * (e3 - a3))
               = (e0*e0+e1*e1+e2*e2+e3*e3) - (a0*a0+a1*a1+a2*a2+a3*a3)).
  { subst o0 o1 o2 o3. field. lra. }
  clearbody o0 o1 o2 o3.
  split; [apply sqrt_pos|].
  rewrite sqrt_sqrt by apply sum_sq_nonneg4.
  unfold sq. repeat split; lra.
Qed.

