(* Bookkeeping lemmas for properties C09 / C10 about Model/Balancing.v
   (BalancingLearner over abstract children [L : Learner]), given the
   children's own C09 / C10 as hypotheses.  Axiom-free.

   The non-committing ask.  Model/Balancing.v's [bask _ _ false] mirrors the
   code BEFORE /repo commit 5fc0973 (children restored through
   __getstate__/__setstate__, caches and _cycle not restored: findings F3, F3b;
   C15 only quantifies over committing asks).  Since 5fc0973 the code is

       caches = (dict(_ask_cache), dict(_loss), dict(_pending_loss)); cycle_start = _peek_cycle()
       try:     with restore(each of self.learners): return self._ask_and_tell(n)    # deep copies of the children's __dict__
       finally: put the three caches and the cycle position back

   i.e. the answer of the committing computation on a state that is put back
   afterwards: [bask_nc].  That [bask_nc] returns the state it was given is BY
   CONSTRUCTION of this definition -- the theorem C09_bal_noop says nothing
   about whether the real restore is complete (that is what the twin oracle of
   harness/avh/props/c09.py decides on the real class).  What IS proved:
   the committing ask leaves every child in exactly the state that
   ask(n, False) + tell_pending(each) leaves it in (so data, pending points,
   npoints and -- on cache-coherent states of the repaired model -- both
   losses agree).  The private caches and the 'cycle' position differ between
   the two (marking points pending cannot advance the round robin), so
   equality of LATER answers is not claimed: _partial. *)
From AV Require Import Base.Prelude Model.GenericLearner Model.Balancing
  Proofs.BalancingProofs Proofs.BalancingCoh.
From AV Require Proofs.BalancingProv.

Section Bal.
  Variable L : Learner.
  Implicit Types (s : bst L) (k : state L) (i j n : nat) (tp : list nat) (p : point L)
                 (ks : list (state L)) (r : list (sel L)).

  Definition bask_nc (rep : bool) s n : bst L * list (sel L) :=
    if n =? 0 then (s, []) else (s, snd (ask_and_tell rep s n)).

  (* tell_pending of each selected point, in order *)
  Definition mark_all (rep : bool) r s : bst L :=
    fold_left (fun s e => tell_pending rep s (fst (fst e)) (snd (fst e))) r s.

  (* ================= C09: noop (by construction of [bask_nc]) ================= *)
  Theorem bal_ask_noop rep s n :
    fst (bask_nc rep s n) = s /\
    (forall h, run rep (fst (bask_nc rep s n)) h = run rep s h) /\
    snd (bask_nc rep (fst (bask_nc rep s n)) n) = snd (bask_nc rep s n) /\
    snd (bask_nc rep s n) = snd (bask rep s n true).
  Proof.
    unfold bask_nc, bask. destruct (n =? 0) eqn:E; cbn [fst snd]; rewrite ?E; repeat split.
  Qed.

  (* ================= C09: the committing ask and the children ================= *)
  (* the children's own C09 (for requests of one point) and "marking a point
     pending twice is marking it once" *)
  Hypothesis Hnc : forall k, snd (ask L k 1 false) = k.
  Hypothesis Hc1 : forall k,
    fst (ask L k 1 true) = fst (ask L k 1 false) /\
    snd (ask L k 1 true) = match fst (fst (ask L k 1 false)) with
                           | p :: _ => GenericLearner.tell_pending L k p
                           | [] => k
                           end.
  Hypothesis Hidem : forall k p,
    GenericLearner.tell_pending L (GenericLearner.tell_pending L k p) p = GenericLearner.tell_pending L k p.

  Definition mark ks i p : list (state L) :=
    match nth_error ks i with
    | Some k => list_set i (GenericLearner.tell_pending L k p) ks
    | None => ks
    end.

  Lemma tp_kids rep s i p : kids (tell_pending rep s i p) = mark (kids s) i p.
  Proof. unfold tell_pending, mark. destruct (nth_error (kids s) i); reflexivity. Qed.

  Lemma mark_all_kids rep r : forall s,
    kids (mark_all rep r s) = fold_left (fun ks e => mark ks (fst (fst e)) (snd (fst e))) r (kids s).
  Proof.
    induction r as [|e r IH]; intros s; cbn [mark_all fold_left]; [reflexivity|].
    fold (mark_all rep r (tell_pending rep s (fst (fst e)) (snd (fst e)))). rewrite IH, tp_kids. reflexivity.
  Qed.

  Lemma list_set_twice A i (a b : A) l : list_set i a (list_set i b l) = list_set i a l.
  Proof. revert i. induction l as [|h l IH]; intros [|i]; cbn [list_set]; try reflexivity. rewrite IH. reflexivity. Qed.

  Lemma imp_scan_kids tp : forall ks i c, fst (fst (imp_scan ks i c tp)) = ks.
  Proof.
    induction ks as [|k ks IH]; intros i c; cbn [imp_scan]; [reflexivity|].
    assert (Hk : snd (match c i with Some a => (a, k) | None => ask L k 1 false end) = k).
    { destruct (c i); [reflexivity|apply Hnc]. }
    destruct (match c i with Some a => (a, k) | None => ask L k 1 false end) as [a k']. cbn [snd] in Hk. subst k'.
    destruct a as [[|p ps] [|v vs]]; try reflexivity.
    match goal with |- context [imp_scan ks (S i) ?cc tp] =>
      specialize (IH (S i) cc); destruct (imp_scan ks (S i) cc tp) as [[ks'' c''] rr] end.
    cbn [fst] in *. rewrite IH. reflexivity.
  Qed.

  Lemma serve_kids rep s i tp' s1 tp'' i' p v :
    serve rep s i tp' = (s1, Some (tp'', ((i', p), v))) -> kids s1 = mark (kids s) i' p.
  Proof.
    unfold serve. destruct (nth_error (kids s) i) as [k|] eqn:Ek; [|discriminate].
    destruct (acache s i) as [a|] eqn:Ea.
    - destruct a as [[|p0 ps] [|v0 vs]]; try discriminate.
      intros H; inversion H; subst; clear H. rewrite tp_kids. cbn [kids with_kids with_acache].
      rewrite (list_set_same _ _ Ek). reflexivity.
    - destruct (Hc1 k) as [H1 H2].
      destruct (ask L k 1 true) as [a k'] eqn:Eq. cbn [fst snd] in H1, H2.
      destruct a as [[|p0 ps] [|v0 vs]]; try discriminate.
      intros H; inversion H; subst; clear H. rewrite tp_kids. cbn [kids with_kids with_acache].
      rewrite <- H1. cbn [fst].
      unfold mark. rewrite nth_error_list_set_eq by (apply nth_error_Some; congruence).
      rewrite Ek, list_set_twice, Hidem. reflexivity.
  Qed.

  Lemma losses_kids s real : kids (fst (losses s real)) = kids s.
  Proof. unfold losses. destruct (losses_aux L real (kids s) 0 _). reflexivity. Qed.

  Lemma body_kids rep st s tp s1 tp' i p v :
    body_of rep st s tp = (s1, Some (tp', ((i, p), v))) -> kids s1 = mark (kids s) i p.
  Proof.
    destruct st; cbn [body_of].
    - unfold imp_body. pose proof (imp_scan_kids tp (kids s) 0 (acache s)) as Hk.
      destruct (imp_scan (kids s) 0 (acache s) tp) as [[ks c] rr]. cbn [fst] in Hk. subst ks.
      destruct rr as [es|]; [|discriminate].
      destruct (pymax _ es) as [[[i0 p0] [v0 t0]]|]; [|discriminate].
      intros H; inversion H; subst; clear H. rewrite tp_kids. reflexivity.
    - unfold loss_body. pose proof (losses_kids s false) as Hk.
      destruct (losses s false) as [s0 vs]. cbn [fst] in Hk.
      destruct (argmax _ _) as [i0|]; [|discriminate].
      intros H. rewrite <- Hk. eapply serve_kids; eauto.
    - unfold np_body. destruct (argmax _ tp) as [i0|]; [|discriminate]. apply serve_kids.
    - unfold cycle_body. destruct (kids s) as [|k0 ks0] eqn:EK; [discriminate|]. rewrite <- EK.
      destruct (nth_error (kids s) (cyc s)) as [k|] eqn:Ek; [|discriminate].
      destruct (Hc1 k) as [H1 H2].
      destruct (ask L k 1 true) as [a k'] eqn:Eq. cbn [fst snd] in H1, H2.
      destruct a as [[|p0 ps] [|v0 vs]]; try discriminate.
      intros H; inversion H; subst; clear H. rewrite tp_kids. cbn [kids with_kids].
      rewrite <- H1. cbn [fst].
      unfold mark. rewrite nth_error_list_set_eq by (apply nth_error_Some; congruence).
      rewrite Ek, list_set_twice, Hidem. reflexivity.
  Qed.

  Lemma loopn_kids rep st : forall n s tp,
    failed (fst (loopn (body_of rep st) n s tp)) = false ->
    kids (fst (loopn (body_of rep st) n s tp)) =
    fold_left (fun ks e => mark ks (fst (fst e)) (snd (fst e))) (snd (loopn (body_of rep st) n s tp)) (kids s).
  Proof.
    induction n as [|n IH]; intros s tp; cbn [loopn]; [reflexivity|].
    destruct (body_of rep st s tp) as [s1 [[tp' [[i p] v]]|]] eqn:E.
    - specialize (IH s1 tp'). destruct (loopn (body_of rep st) n s1 tp') as [s2 rr]. cbn [fst snd] in *.
      intros Hf. rewrite (IH Hf). cbn [fold_left fst snd]. rewrite (body_kids _ _ _ _ _ _ _ _ _ E). reflexivity.
    - cbn [fst fail failed]. discriminate.
  Qed.

  (* the committing ask leaves the children exactly as ask(n, False) followed by
     tell_pending of each returned point does *)
  Theorem bal_ask_commit_kids rep s n :
    failed (fst (bask rep s n true)) = false ->
    snd (bask rep s n true) = snd (bask_nc rep s n) /\
    kids (fst (bask rep s n true)) = kids (mark_all rep (snd (bask_nc rep s n)) (fst (bask_nc rep s n))).
  Proof.
    unfold bask, bask_nc. destruct (n =? 0); [intros _; split; reflexivity|].
    cbn [fst snd]. intros Hf. split; [reflexivity|].
    rewrite mark_all_kids. unfold ask_and_tell in *. apply loopn_kids. exact Hf.
  Qed.

  (* hence the aggregated observables agree *)
  Corollary bal_ask_commit_observables rep s n :
    failed (fst (bask rep s n true)) = false ->
    let a := fst (bask rep s n true) in
    let b := mark_all rep (snd (bask_nc rep s n)) (fst (bask_nc rep s n)) in
    bdata a = bdata b /\ bpending a = bpending b /\ bnpoints a = bnpoints b.
  Proof.
    intros Hf. destruct (bal_ask_commit_kids rep s n Hf) as [_ Hk]. cbv zeta.
    unfold bdata, bpending, bnpoints. rewrite Hk. repeat split.
  Qed.

  (* ... and, in the repaired model on cache-coherent states (all states reached
     by legal histories: C15_cache_coherent), both losses *)
  Lemma mark_all_coh r : forall s, Coh s -> Coh (mark_all true r s).
  Proof.
    induction r as [|e r IH]; intros s HC; cbn [mark_all fold_left]; [exact HC|].
    fold (mark_all true r (tell_pending true s (fst (fst e)) (snd (fst e)))). apply IH. apply coh_tell_pending. exact HC.
  Qed.

  Theorem bal_ask_commit_losses s n real :
    Coh s -> failed (fst (bask true s n true)) = false ->
    snd (bloss (fst (bask true s n true)) real) =
    snd (bloss (mark_all true (snd (bask_nc true s n)) (fst (bask_nc true s n))) real).
  Proof.
    intros HC Hf. destruct (bal_ask_commit_kids true s n Hf) as [_ Hk].
    assert (HCa : Coh (fst (bask true s n true))).
    { destruct (@step_state_coh L Hnc s (Ask n true) eq_refl HC) as [H|H]; [cbn [step_state] in H; congruence|exact H]. }
    assert (HCb : Coh (mark_all true (snd (bask_nc true s n)) (fst (bask_nc true s n)))).
    { apply mark_all_coh. destruct (bal_ask_noop true s n) as [-> _]. exact HC. }
    destruct (bloss_spec real HCa) as [_ [_ ->]]. destruct (bloss_spec real HCb) as [_ [_ ->]].
    rewrite Hk. reflexivity.
  Qed.

  (* ================= C10: a point returned by a committing ask is pending ================= *)
  Lemma imp_scan_indices tp : forall ks i c es,
    snd (imp_scan ks i c tp) = Some es -> forall e, In e es -> i <= fst (fst e) < i + length ks.
  Proof.
    induction ks as [|k ks IH]; intros i c es; cbn [imp_scan].
    - cbn [snd]. intros H; inversion H; subst. intros e [].
    - destruct (match c i with Some a => (a, k) | None => ask L k 1 false end) as [a k'].
      destruct a as [[|p ps] [|v vs]]; try (cbn [snd]; discriminate).
      match goal with |- context [imp_scan ks (S i) ?cc tp] =>
        specialize (IH (S i) cc); destruct (imp_scan ks (S i) cc tp) as [[ks'' c''] rr] end.
      cbn [snd] in *. destruct rr as [es'|]; [|discriminate]. cbn [option_map].
      intros H; inversion H; subst; clear H. intros e [<-|He]; cbn [fst length]; [lia|].
      specialize (IH es' eq_refl e He). lia.
  Qed.

  Lemma body_index rep st s tp s1 tp' i p v :
    body_of rep st s tp = (s1, Some (tp', ((i, p), v))) -> i < length (kids s).
  Proof.
    assert (Hserve : forall s0 i0 tp0, serve rep s0 i0 tp0 = (s1, Some (tp', ((i, p), v))) -> i < length (kids s0)).
    { intros s0 i0 tp0. unfold serve. destruct (nth_error (kids s0) i0) as [k|] eqn:Ek; [|discriminate].
      destruct (match acache s0 i0 with Some a => (a, k) | None => ask L k 1 true end) as [a k'].
      destruct a as [[|p0 ps] [|v0 vs]]; try discriminate.
      intros H; inversion H; subst. apply nth_error_Some. congruence. }
    destruct st; cbn [body_of].
    - unfold imp_body. pose proof (imp_scan_indices tp (kids s) 0 (acache s)) as Hi.
      destruct (imp_scan (kids s) 0 (acache s) tp) as [[ks c] rr]. cbn [snd] in Hi.
      destruct rr as [es|]; [|discriminate].
      destruct (pymax _ es) as [[[i0 p0] [v0 t0]]|] eqn:Em; [|discriminate].
      intros H; inversion H; subst; clear H.
      apply BalancingProv.pymax_In in Em. specialize (Hi es eq_refl _ Em). cbn [fst] in Hi. lia.
    - unfold loss_body. pose proof (losses_kids s false) as Hk.
      destruct (losses s false) as [s0 vs]. cbn [fst] in Hk.
      destruct (argmax _ _) as [i0|]; [|discriminate]. intros H. rewrite <- Hk. eapply Hserve; eauto.
    - unfold np_body. destruct (argmax _ tp) as [i0|]; [|discriminate]. apply Hserve.
    - unfold cycle_body. destruct (kids s) as [|k0 ks0] eqn:EK; [discriminate|]. rewrite <- EK.
      destruct (nth_error (kids s) (cyc s)) as [k|] eqn:Ek; [|discriminate].
      destruct (ask L k 1 true) as [a k'].
      destruct a as [[|p0 ps] [|v0 vs]]; try discriminate.
      intros H; inversion H; subst. apply nth_error_Some. congruence.
  Qed.

  Lemma mark_length ks i p : length (mark ks i p) = length ks.
  Proof. unfold mark. destruct (nth_error ks i); [apply length_list_set|reflexivity]. Qed.

  Lemma loopn_indices rep st : forall n s tp e,
    In e (snd (loopn (body_of rep st) n s tp)) -> fst (fst e) < length (kids s).
  Proof.
    induction n as [|n IH]; intros s tp e; cbn [loopn]; [intros []|].
    destruct (body_of rep st s tp) as [s1 [[tp' [[i p] v]]|]] eqn:E; [|intros []].
    specialize (IH s1 tp' e). destruct (loopn (body_of rep st) n s1 tp') as [s2 rr]. cbn [snd] in *.
    intros [<-|He]; [cbn [fst]; eapply body_index; eauto|].
    specialize (IH He). rewrite (body_kids _ _ _ _ _ _ _ _ _ E), mark_length in IH. exact IH.
  Qed.

  (* the children's own "a point marked pending is pending and stays so when other points are marked" *)
  Hypothesis Hpin : forall k p, In p (pending L (GenericLearner.tell_pending L k p)).
  Hypothesis Hpmono : forall k p q, In q (pending L k) -> In q (pending L (GenericLearner.tell_pending L k p)).

  Definition pend_at ks i p : Prop := exists k, nth_error ks i = Some k /\ In p (pending L k).

  Lemma pend_at_mark_same ks i p : i < length ks -> pend_at (mark ks i p) i p.
  Proof.
    intros Hi. unfold mark. destruct (nth_error ks i) as [k|] eqn:E; [|apply nth_error_None in E; lia].
    exists (GenericLearner.tell_pending L k p). split; [apply nth_error_list_set_eq; exact Hi|apply Hpin].
  Qed.

  Lemma pend_at_mark_mono ks i p j q : pend_at ks i p -> pend_at (mark ks j q) i p.
  Proof.
    intros [k [Hk Hp]]. unfold mark. destruct (nth_error ks j) as [kj|] eqn:E; [|exists k; auto].
    destruct (Nat.eq_dec i j) as [->|Hn].
    - exists (GenericLearner.tell_pending L kj q). split.
      + apply nth_error_list_set_eq. apply nth_error_Some. congruence.
      + rewrite Hk in E. inversion E; subst. apply Hpmono. exact Hp.
    - exists k. split; [rewrite nth_error_list_set_neq by exact Hn; exact Hk|exact Hp].
  Qed.

  Lemma fold_mark_pending r : forall ks e,
    (forall e', In e' r -> fst (fst e') < length ks) -> In e r ->
    pend_at (fold_left (fun ks e => mark ks (fst (fst e)) (snd (fst e))) r ks) (fst (fst e)) (snd (fst e)).
  Proof.
    assert (Hmono : forall r ks i p, pend_at ks i p ->
              pend_at (fold_left (fun ks e => mark ks (fst (fst e)) (snd (fst e))) r ks) i p).
    { induction r0 as [|e0 r0 IH0]; intros ks i p H; cbn [fold_left]; [exact H|]. apply IH0. apply pend_at_mark_mono. exact H. }
    induction r as [|e0 r IH]; intros ks e Hlen [].
    - subst e0. cbn [fold_left]. apply Hmono. apply pend_at_mark_same. apply Hlen. left; reflexivity.
    - cbn [fold_left]. apply IH; [|exact H]. intros e' He'. rewrite mark_length. apply Hlen. right; exact He'.
  Qed.

  Theorem bal_asked_is_pending rep s n i p v :
    failed (fst (bask rep s n true)) = false ->
    In ((i, p), v) (snd (bask rep s n true)) -> In (i, p) (bpending (fst (bask rep s n true))).
  Proof.
    intros Hf Hin. destruct (aggregates (fst (bask rep s n true))) as [_ [A _]]. apply A.
    unfold bask in *. destruct (n =? 0); [destruct Hin|].
    unfold ask_and_tell in *. rewrite (loopn_kids _ _ _ _ _ Hf).
    apply (fold_mark_pending _ (kids s) ((i, p), v)); [|exact Hin].
    intros e' He'. eapply loopn_indices; eauto.
  Qed.
End Bal.

(* ====================================================================== *)
(* C10 of the wrapper from C10 of the children *)
Section BalC10.
  Variable L : Learner.
  Implicit Types (s : bst L) (k : state L) (i j n : nat) (p x : point L) (y : value L).

  (* data: tell changes exactly child i, by the child's own tell; the wrapper's
     data is the labelled union (C15_routing + C15_aggregates, combined) *)
  Theorem bal_data_after_tell s i x y k j q v :
    nth_error (kids s) i = Some k ->
    (In (j, (q, v)) (bdata (tell s i x y)) <->
     (j = i /\ In (q, v) (data L (GenericLearner.tell L k x y))) \/ (j <> i /\ In (j, (q, v)) (bdata s))).
  Proof.
    intros Hk. destruct (routing_tell s i x y Hk) as [H1 [H2 _]].
    destruct (aggregates (tell s i x y)) as [A _]. destruct (aggregates s) as [B _].
    rewrite A, B. destruct (Nat.eq_dec j i) as [->|Hj].
    - rewrite H1. split.
      + intros [k' [E Hin]]. inversion E; subst. left. auto.
      + intros [[_ Hin]|[Hn _]]; [eauto|congruence].
    - rewrite (H2 j Hj). split.
      + intros H. right. auto.
      + intros [[E _]|[_ H]]; [congruence|exact H].
  Qed.

  (* told is not pending, given the child's post-condition *)
  Theorem bal_told_not_pending s i x y k :
    nth_error (kids s) i = Some k ->
    ~ In x (pending L (GenericLearner.tell L k x y)) ->
    ~ In (i, x) (bpending (tell s i x y)).
  Proof.
    intros Hk Hc Hin. destruct (routing_tell s i x y Hk) as [H1 _].
    destruct (aggregates (tell s i x y)) as [_ [A _]]. apply A in Hin as [k' [E Hin]].
    rewrite H1 in E. inversion E; subst. contradiction.
  Qed.

  (* npoints = the sum of the children's counts; a tell changes the count of child i only *)
  Theorem bal_npoints s : bnpoints s = list_sum (map (npoints L) (kids s)).
  Proof. reflexivity. Qed.

  (* re-tell: if child i ignores the re-tell, its state -- hence data, pending
     points, npoints -- is unchanged (the wrapper's caches for i are dropped,
     which is invisible on coherent states: C15_cache_coherent) *)
  Theorem bal_retell_noop s i x y k :
    nth_error (kids s) i = Some k -> GenericLearner.tell L k x y = k ->
    kids (tell s i x y) = kids s /\ bdata (tell s i x y) = bdata s /\
    bpending (tell s i x y) = bpending s /\ bnpoints (tell s i x y) = bnpoints s /\
    failed (tell s i x y) = failed s.
  Proof.
    intros Hk He.
    assert (K : kids (tell s i x y) = kids s).
    { rewrite (tell_kids s i x y Hk), He. apply list_set_same. exact Hk. }
    unfold bdata, bpending, bnpoints. rewrite K. repeat split.
    unfold tell. rewrite Hk. reflexivity.
  Qed.

  Lemma agg_nil A (f : state L -> list A) : forall ks i0, (forall k, In k ks -> f k = []) -> @agg L A f i0 ks = [].
  Proof.
    induction ks as [|k ks IH]; intros i0 H; cbn [agg]; [reflexivity|].
    rewrite (H k (or_introl eq_refl)), IH; [reflexivity|]. intros k' Hk'. apply H. right; exact Hk'.
  Qed.

  (* discard: pending empty and (repaired model: caches dropped) both losses
     equal, given the same of every child *)
  Theorem bal_discard rep s :
    (forall k, In k (kids s) -> pending L (remove_unfinished L k) = []) ->
    bpending (bremove_unfinished rep s) = [] /\
    kids (bremove_unfinished rep s) = map (remove_unfinished L) (kids s).
  Proof.
    intros H. assert (K : kids (bremove_unfinished rep s) = map (remove_unfinished L) (kids s)).
    { unfold bremove_unfinished. destruct rep; reflexivity. }
    split; [|exact K]. unfold bpending. rewrite K. apply agg_nil.
    intros k Hk. apply in_map_iff in Hk as [k0 [<- Hk0]]. apply H. exact Hk0.
  Qed.

  Theorem bal_discard_losses s :
    (forall k : state L, snd (ask L k 1 false) = k) ->
    (forall k, In k (kids s) -> loss L (remove_unfinished L k) false = loss L (remove_unfinished L k) true) ->
    snd (bloss (bremove_unfinished true s) false) = snd (bloss (bremove_unfinished true s) true).
  Proof.
    intros Hnc H. pose proof (coh_remove_unfinished s) as HC.
    destruct (bloss_spec false HC) as [_ [_ ->]]. destruct (bloss_spec true HC) as [_ [_ ->]].
    f_equal. cbn [bremove_unfinished kids]. rewrite !map_map. apply map_ext_in. intros k Hk. apply H. exact Hk.
  Qed.
End BalC10.

(* ---------------------------------------------------------------------- *)
(* the hypotheses on the children are satisfiable: the toy learner of
   Model/GenericLearner.v (proposes the smallest free natural) has all three *)
Lemma toy_child_hyps :
  (forall k : state Toy.learner, snd (ask Toy.learner k 1 false) = k) /\
  (forall k : state Toy.learner,
     fst (ask Toy.learner k 1 true) = fst (ask Toy.learner k 1 false) /\
     snd (ask Toy.learner k 1 true) = match fst (fst (ask Toy.learner k 1 false)) with
                                      | p :: _ => GenericLearner.tell_pending Toy.learner k p
                                      | [] => k
                                      end) /\
  (forall (k : state Toy.learner) (p : point Toy.learner),
     GenericLearner.tell_pending Toy.learner (GenericLearner.tell_pending Toy.learner k p) p =
     GenericLearner.tell_pending Toy.learner k p).
Proof.
  split; [|split].
  - intros k. cbn. reflexivity.
  - intros k. cbn. split; reflexivity.
  - intros k p. cbn [GenericLearner.tell_pending Toy.learner]. unfold Toy.t_tell_pending.
    destruct (existsb (Nat.eqb p) (Toy.pend k)) eqn:E; [rewrite E; reflexivity|].
    cbn [Toy.pend]. rewrite existsb_app. cbn [existsb]. rewrite Nat.eqb_refl, orb_true_r. reflexivity.
Qed.

Lemma toy_child_pending_hyps :
  (forall (k : state Toy.learner) (p : point Toy.learner),
     In p (pending Toy.learner (GenericLearner.tell_pending Toy.learner k p))) /\
  (forall (k : state Toy.learner) (p q : point Toy.learner),
     In q (pending Toy.learner k) -> In q (pending Toy.learner (GenericLearner.tell_pending Toy.learner k p))).
Proof.
  split.
  - intros k p. cbn [GenericLearner.tell_pending pending Toy.learner]. unfold Toy.t_tell_pending.
    destruct (existsb (Nat.eqb p) (Toy.pend k)) eqn:E.
    + apply existsb_exists in E as [y [Hy He]]. apply Nat.eqb_eq in He. subst. exact Hy.
    + cbn [Toy.pend]. apply in_app_iff. right. left. reflexivity.
  - intros k p q H. cbn [GenericLearner.tell_pending pending Toy.learner] in *. unfold Toy.t_tell_pending.
    destruct (existsb (Nat.eqb p) (Toy.pend k)); [exact H|]. cbn [Toy.pend]. apply in_app_iff. left. exact H.
Qed.
