(* Proofs about the SequenceLearner model (property C17). *)
From AV Require Import Base.Prelude Base.NatSet Model.Seq.
From Coq Require Import Sorted Permutation ZArith.

Section SeqProofs.
  Variable V : Type.
  Notation st := (st V).
  Notation op := (op V).
  Implicit Types (s : st) (o : op) (h : list op).

  Definition keys (s : st) : list nat := map fst (data s).

  Fixpoint assoc (i : nat) (d : list (nat * V)) : option V :=
    match d with
    | [] => None
    | (j, w) :: d' => if i =? j then Some w else assoc i d'
    end.

  (* ---------------- data_set ---------------- *)
  Lemma data_set_keys_In i v (d : list (nat * V)) y : In y (map fst (data_set i v d)) <-> y = i \/ In y (map fst d).
  Proof.
    induction d as [|[j w] d IH]; cbn [data_set map fst In].
    - intuition.
    - destruct (Nat.ltb_spec i j) as [E1|E1]; [cbn [map fst In]; intuition|].
      destruct (Nat.eqb_spec i j) as [E2|E2].
      + subst. cbn [map fst In]. intuition.
      + cbn [map fst In]. rewrite IH. intuition.
  Qed.

  Lemma data_set_keys_sorted i v (d : list (nat * V)) : sorted (map fst d) -> sorted (map fst (data_set i v d)).
  Proof.
    induction d as [|[j w] d IH]; cbn [data_set map fst]; intros H.
    - repeat constructor.
    - destruct (Nat.ltb_spec i j) as [E1|E1].
      + cbn [map fst]. constructor; [exact H|]. constructor; [exact E1|].
        apply sorted_cons_inv in H as [_ Hf].
        apply Forall_impl with (P := lt j); [intros; lia|exact Hf].
      + apply sorted_cons_inv in H as [Hs Hf].
        destruct (Nat.eqb_spec i j) as [E2|E2].
        * subst. cbn [map fst]. constructor; assumption.
        * cbn [map fst]. constructor; [apply IH; exact Hs|].
          rewrite Forall_forall in *. intros y Hy.
          apply data_set_keys_In in Hy as [->|Hy]; [lia|auto].
  Qed.

  Lemma data_set_assoc i v d k :
    assoc k (data_set i v d) = if k =? i then Some v else assoc k d.
  Proof.
    induction d as [|[j w] d IH]; cbn [data_set assoc].
    - reflexivity.
    - destruct (Nat.ltb_spec i j) as [E1|E1]; [cbn [assoc]; reflexivity|].
      destruct (Nat.eqb_spec i j) as [E2|E2].
      + subst. cbn [assoc]. destruct (Nat.eqb_spec k j); reflexivity.
      + cbn [assoc]. rewrite IH.
        destruct (Nat.eqb_spec k j), (Nat.eqb_spec k i); try reflexivity. congruence.
  Qed.

  Lemma data_set_length_in i v (d : list (nat * V)) :
    sorted (map fst d) -> In i (map fst d) -> length (data_set i v d) = length d.
  Proof.
    induction d as [|[j w] d IH]; cbn [data_set map fst In length]; intros Hs Hin; [tauto|].
    apply sorted_cons_inv in Hs as [Hs Hf]. rewrite Forall_forall in Hf.
    destruct (Nat.ltb_spec i j) as [E1|E1].
    - destruct Hin as [->|Hin]; [lia|]. specialize (Hf _ Hin). lia.
    - destruct (Nat.eqb_spec i j) as [E2|E2]; [reflexivity|].
      cbn [length]. f_equal. apply IH; auto. destruct Hin; [congruence|auto].
  Qed.

  (* ---------------- the invariant ---------------- *)
  Record Inv (s : st) : Prop := {
    inv_todo_sorted : sorted (todo s);
    inv_pend_sorted : sorted (pend s);
    inv_keys_sorted : sorted (keys s);
    inv_cover : forall i, (In i (todo s) \/ In i (pend s) \/ In i (keys s)) <-> i < ntotal s;
    inv_tp : forall i, In i (todo s) -> ~ In i (pend s);
    inv_td : forall i, In i (todo s) -> ~ In i (keys s);
    inv_pd : forall i, In i (pend s) -> ~ In i (keys s)
  }.
  Arguments inv_todo_sorted {s}. Arguments inv_pend_sorted {s}. Arguments inv_keys_sorted {s}.
  Arguments inv_cover {s}. Arguments inv_tp {s}. Arguments inv_td {s}. Arguments inv_pd {s}.

  Lemma inv_init n : Inv (init V n).
  Proof.
    constructor; cbn.
    - apply seq_sorted.
    - constructor.
    - constructor.
    - intros i. rewrite in_seq. intuition lia.
    - intros i _ [].
    - intros i _ [].
    - intros i [].
  Qed.

  Lemma ntotal_step s o : ntotal (fst (step s o)) = ntotal s.
  Proof.
    destruct o as [n c|i v|i|]; cbn; try reflexivity.
    destruct c; [|reflexivity].
    generalize (ask_indices s n). intros l. revert s.
    induction l as [|a l IH]; intros s; cbn; [reflexivity|]. rewrite IH. reflexivity.
  Qed.

  Lemma inv_tell_pending s i :
    Inv s -> i < ntotal s -> ~ In i (keys s) -> Inv (tell_pending s i).
  Proof.
    intros [H1 H2 H3 H4 H5 H6 H7] Hi Hk. constructor; cbn.
    - apply nat_remove_sorted; auto.
    - apply nat_insert_sorted; auto.
    - exact H3.
    - intros j. rewrite nat_remove_In, nat_insert_In. rewrite <- H4.
      destruct (Nat.eq_dec j i) as [->|Hne]; [|tauto].
      split; [intros _; apply H4; exact Hi|intros _; right; left; left; reflexivity].
    - intros j. rewrite nat_remove_In, nat_insert_In. intros [Hj Hne] [He|Hp]; [auto|]. eapply H5; eauto.
    - intros j. rewrite nat_remove_In. intros [Hj _]. auto.
    - intros j. rewrite nat_insert_In. intros [->|Hj]; auto.
  Qed.

  Lemma inv_tell s i v : Inv s -> i < ntotal s -> Inv (tell s i v).
  Proof.
    intros [H1 H2 H3 H4 H5 H6 H7] Hi. constructor; cbn; unfold keys; cbn.
    - apply nat_remove_sorted; auto.
    - apply nat_remove_sorted; auto.
    - apply data_set_keys_sorted; exact H3.
    - intros j. rewrite !nat_remove_In, data_set_keys_In. rewrite <- H4. fold (keys s).
      destruct (Nat.eq_dec j i) as [->|Hne]; [|tauto].
      split; [intros _; apply H4; exact Hi|intros _; right; right; left; reflexivity].
    - intros j. rewrite !nat_remove_In. intros [Hj _] [Hp _]. eapply H5; eauto.
    - intros j. rewrite nat_remove_In, data_set_keys_In. intros [Hj Hne] [He|Hk]; [auto|]. eapply H6; eauto.
    - intros j. rewrite nat_remove_In, data_set_keys_In. intros [Hj Hne] [He|Hk]; [auto|]. eapply H7; eauto.
  Qed.

  Lemma inv_remove_unfinished s : Inv s -> Inv (remove_unfinished s).
  Proof.
    intros [H1 H2 H3 H4 H5 H6 H7]. constructor; cbn.
    - apply fold_insert_sorted; auto.
    - constructor.
    - exact H3.
    - intros j. rewrite fold_insert_In. rewrite <- H4. tauto.
    - intros j _ [].
    - intros j. rewrite fold_insert_In. intros [Hj|Hj]; auto.
    - intros j [].
  Qed.

  Lemma inv_commit l : forall s, Inv s -> (forall i, In i l -> In i (todo s)) -> NoDup l ->
    Inv (fold_left (@tell_pending V) l s).
  Proof.
    induction l as [|a l IH]; intros s HI Hl Hnd; cbn [fold_left]; [exact HI|].
    inversion Hnd as [|? ? Hna Hnd']; subst.
    assert (Ha : In a (todo s)) by (apply Hl; left; reflexivity).
    apply IH; auto.
    - apply inv_tell_pending; auto.
      + apply (inv_cover HI). left; exact Ha.
      + apply (inv_td HI); exact Ha.
    - intros i Hi. cbn. apply nat_remove_In. split; [apply Hl; right; exact Hi|].
      intros ->. contradiction.
  Qed.

  Lemma inv_ask s n c : Inv s -> Inv (fst (ask s n c)).
  Proof.
    intros HI. unfold ask; cbn [fst]. destruct c; [|exact HI].
    apply inv_commit; auto.
    - intros i Hi. eapply In_firstn; exact Hi.
    - apply sorted_NoDup. apply firstn_sorted. apply (inv_todo_sorted HI).
  Qed.

  Lemma inv_step s o : Inv s -> legal_op s o = true -> Inv (fst (step s o)).
  Proof.
    intros HI Hl. destruct o as [n c|i v|i|]; cbn [step fst].
    - apply inv_ask; exact HI.
    - apply inv_tell; auto. cbn in Hl. apply Nat.ltb_lt; exact Hl.
    - cbn in Hl. apply andb_true_iff in Hl as [Hl1 Hl2].
      apply inv_tell_pending; auto; [apply Nat.ltb_lt; exact Hl1|].
      intros Hin. apply nat_mem_In in Hin. unfold keys in Hin. rewrite Hin in Hl2. discriminate.
    - apply inv_remove_unfinished; exact HI.
  Qed.

  Theorem inv_run h : forall s, Inv s -> legal s h = true -> Inv (run s h).
  Proof.
    induction h as [|o h IH]; intros s HI Hl; cbn [run fold_left]; [exact HI|].
    cbn [legal] in Hl. apply andb_true_iff in Hl as [Hl1 Hl2].
    apply IH; [apply inv_step; auto|exact Hl2].
  Qed.

  (* ---------------- ask: increasing prefix of what is left ---------------- *)
  Definition remaining (s : st) : list nat :=
    filter (fun i => negb (nat_mem i (keys s)) && negb (nat_mem i (pend s))) (seq 0 (ntotal s)).

  Lemma filter_sorted (p : nat -> bool) l : sorted l -> sorted (filter p l).
  Proof.
    induction l as [|a l IH]; cbn [filter]; intros H; [constructor|].
    apply sorted_cons_inv in H as [Hs Hf]. destruct (p a); [|apply IH; exact Hs].
    constructor; [apply IH; exact Hs|]. rewrite Forall_forall in *.
    intros y Hy. apply filter_In in Hy as [Hy _]. auto.
  Qed.

  Lemma todo_is_remaining s : Inv s -> todo s = remaining s.
  Proof.
    intros HI. apply sorted_ext.
    - apply (inv_todo_sorted HI).
    - apply filter_sorted, seq_sorted.
    - intros x. unfold remaining. rewrite filter_In, in_seq, andb_true_iff, !negb_true_iff.
      split.
      + intros Hx. split; [split; [lia|apply (inv_cover HI); tauto]|].
        split; apply not_true_is_false; rewrite nat_mem_In;
          [apply (inv_td HI)|apply (inv_tp HI)]; exact Hx.
      + intros [[_ Hlt] [Hk Hp]]. apply (inv_cover HI) in Hlt as [Ht|[Hp'|Hk']]; [exact Ht| |].
        * apply nat_mem_In in Hp'. congruence.
        * apply nat_mem_In in Hk'. congruence.
  Qed.

  (* ---------------- once ---------------- *)
  Definition is_discard (o : op) : bool := match o with RemoveUnfinished => true | _ => false end.

  Lemma todo_commit_subset l : forall s i, In i (todo (fold_left (@tell_pending V) l s)) -> In i (todo s).
  Proof.
    induction l as [|a l IH]; intros s i; cbn [fold_left]; [tauto|].
    intros H. apply IH in H. cbn in H. apply nat_remove_In in H. tauto.
  Qed.

  Lemma todo_commit_removed l : forall s i, In i l -> ~ In i (todo (fold_left (@tell_pending V) l s)).
  Proof.
    induction l as [|a l IH]; intros s i; cbn [fold_left In]; [tauto|].
    intros [->|Hi]; [|apply IH; exact Hi].
    intros H. apply todo_commit_subset in H. cbn in H. apply nat_remove_In in H. tauto.
  Qed.

  Lemma todo_step_subset s o i : is_discard o = false ->
    In i (todo (fst (step s o))) -> In i (todo s).
  Proof.
    destruct o as [n c|j v|j|]; cbn [is_discard step fst]; intros Hd H; try discriminate.
    - unfold ask in H; cbn [fst] in H. destruct c; [apply todo_commit_subset in H|]; exact H.
    - cbn in H. apply nat_remove_In in H. tauto.
    - cbn in H. apply nat_remove_In in H. tauto.
  Qed.

  Lemma todo_run_subset h : forall s i, forallb (fun o => negb (is_discard o)) h = true ->
    In i (todo (run s h)) -> In i (todo s).
  Proof.
    induction h as [|o h IH]; intros s i Hh; cbn [run fold_left]; [tauto|].
    cbn [forallb] in Hh. apply andb_true_iff in Hh as [Ho Hh]. apply negb_true_iff in Ho.
    intros H. apply (IH _ _ Hh) in H. eapply todo_step_subset; eauto.
  Qed.

  (* ---------------- counting ---------------- *)
  Lemma inv_count s : Inv s -> length (todo s) + length (pend s) + npoints s = ntotal s.
  Proof.
    intros HI.
    assert (HP : Permutation (todo s ++ pend s ++ keys s) (seq 0 (ntotal s))).
    { apply NoDup_Permutation.
      - apply NoDup_app_disj; [apply sorted_NoDup, (inv_todo_sorted HI)| |].
        + apply NoDup_app_disj; [apply sorted_NoDup, (inv_pend_sorted HI)|apply sorted_NoDup, (inv_keys_sorted HI)|].
          apply (inv_pd HI).
        + intros x Hx. rewrite in_app_iff. intros [Hp|Hk]; [eapply (inv_tp HI); eauto|eapply (inv_td HI); eauto].
      - apply seq_NoDup.
      - intros x. rewrite !in_app_iff, in_seq. rewrite (inv_cover HI). lia. }
    apply Permutation_length in HP. rewrite !app_length, seq_length in HP.
    unfold npoints. unfold keys in HP. rewrite map_length in HP. lia.
  Qed.

  (* ---------------- data is what was told ---------------- *)
  Definition told_upd (k : nat) (acc : option V) (o : op) : option V :=
    match o with Tell i v => if k =? i then Some v else acc | _ => acc end.
  Definition last_told (h : list op) (k : nat) : option V := fold_left (told_upd k) h None.

  Lemma data_commit l : forall s, data (fold_left (@tell_pending V) l s) = data s.
  Proof. induction l as [|a l IH]; intros s; cbn [fold_left]; [reflexivity|]. rewrite IH. reflexivity. Qed.

  Lemma data_step_assoc s o k :
    assoc k (data (fst (step s o))) = told_upd k (assoc k (data s)) o.
  Proof.
    destruct o as [n c|i v|i|]; cbn [step fst told_upd]; try reflexivity.
    - unfold ask; cbn [fst]. destruct c; [rewrite data_commit|]; reflexivity.
    - cbn. apply data_set_assoc.
  Qed.

  Lemma data_run_assoc h : forall s k,
    assoc k (data (run s h)) = fold_left (told_upd k) h (assoc k (data s)).
  Proof.
    induction h as [|o h IH]; intros s k; [reflexivity|].
    change (run s (o :: h)) with (run (fst (step s o)) h). cbn [fold_left].
    rewrite <- data_step_assoc. apply IH.
  Qed.

  Lemma nth_assoc (d : list (nat * V)) : forall (b0 : nat) k, map fst d = seq b0 (length d) -> k < length d ->
    nth_error (map snd d) k = assoc (b0 + k) d.
  Proof.
    induction d as [|[j w] d IH]; intros b0 k Hk Hlt; cbn [length] in *; [lia|].
    cbn [map fst seq] in Hk. inversion Hk as [[Hj Hk']]. subst j.
    destruct k as [|k]; cbn [map snd nth_error assoc].
    - rewrite Nat.add_0_r, Nat.eqb_refl. reflexivity.
    - destruct (Nat.eqb_spec (b0 + S k) b0); [lia|].
      rewrite (IH (S b0) k Hk'); [|lia]. f_equal. lia.
  Qed.

  (* ================= theorems in the form used by Props/C17.v ================= *)
  Definition reach (n : nat) (h : list op) : st := run (init V n) h.

  Theorem partition_inv n h : legal (init V n) h = true -> Inv (reach n h).
  Proof. intros Hl. apply inv_run; [apply inv_init|exact Hl]. Qed.

  Lemma run_cons s o h : run s (o :: h) = run (fst (step s o)) h.
  Proof. reflexivity. Qed.

  Lemma ntotal_run h : forall s, ntotal (run s h) = ntotal s.
  Proof. induction h as [|o h IH]; intros s; [reflexivity|]. rewrite run_cons, IH. apply ntotal_step. Qed.

  Theorem ask_increasing_prefix n h k c : legal (init V n) h = true ->
    snd (ask (reach n h) k c) = firstn k (remaining (reach n h)).
  Proof. intros Hl. cbn [ask snd]. unfold ask_indices. rewrite todo_is_remaining; [reflexivity|apply partition_inv; exact Hl]. Qed.

  Theorem short_only_at_end n h k : legal (init V n) h = true ->
    length (snd (ask (reach n h) k true)) < k ->
    todo (fst (ask (reach n h) k true)) = [] /\
    snd (ask (reach n h) k true) = remaining (reach n h).
  Proof.
    intros Hl. set (s := reach n h). assert (HI : Inv s) by (apply partition_inv; exact Hl).
    cbn [ask snd fst]. unfold ask_indices. intros Hlen.
    assert (Hall : firstn k (todo s) = todo s).
    { apply firstn_all2. rewrite firstn_length in Hlen. lia. }
    rewrite Hall. split; [|apply todo_is_remaining; exact HI].
    destruct (todo (fold_left (@tell_pending V) (todo s) s)) as [|x l] eqn:E; [reflexivity|exfalso].
    assert (Hx : In x (todo (fold_left (@tell_pending V) (todo s) s))) by (rewrite E; left; reflexivity).
    pose proof (todo_commit_subset _ _ _ Hx) as Hx'.
    apply (todo_commit_removed _ s _ Hx'). exact Hx.
  Qed.

  Theorem once n h1 k1 h2 k2 c i : legal (init V n) h1 = true ->
    forallb (fun o => negb (is_discard o)) h2 = true ->
    In i (snd (ask (reach n h1) k1 true)) ->
    ~ In i (snd (ask (run (fst (ask (reach n h1) k1 true)) h2) k2 c)).
  Proof.
    intros Hl Hnd Hi Hi2. cbn [ask snd fst] in *. unfold ask_indices in Hi2 at 1.
    apply In_firstn in Hi2. apply (todo_run_subset _ _ _ Hnd) in Hi2.
    exact (todo_commit_removed _ _ _ Hi Hi2).
  Qed.

  Theorem done_iff_all n h : legal (init V n) h = true ->
    (done (reach n h) = true <-> forall i, i < n -> In i (keys (reach n h))).
  Proof.
    intros Hl. pose proof (partition_inv _ _ Hl) as HI. set (s := reach n h) in *.
    assert (Hn : ntotal s = n) by (unfold s, reach; rewrite ntotal_run; reflexivity).
    unfold done. split.
    - destruct (todo s) eqn:Et; [|discriminate]. destruct (pend s) eqn:Ep; [|discriminate].
      intros _ i Hi. rewrite <- Hn in Hi. apply (inv_cover HI) in Hi. rewrite Et, Ep in Hi. cbn in Hi. tauto.
    - intros Hall.
      destruct (todo s) as [|x l] eqn:Et.
      + destruct (pend s) as [|y l'] eqn:Ep; [reflexivity|exfalso].
        assert (Hy : In y (pend s)) by (rewrite Ep; left; reflexivity).
        apply (inv_pd HI _ Hy). apply Hall. rewrite <- Hn. apply (inv_cover HI). tauto.
      + exfalso. assert (Hx : In x (todo s)) by (rewrite Et; left; reflexivity).
        apply (inv_td HI _ Hx). apply Hall. rewrite <- Hn. apply (inv_cover HI). tauto.
  Qed.

  Theorem loss_fraction n h : legal (init V n) h = true ->
    loss_num (reach n h) true = Z.of_nat (n - npoints (reach n h)) /\
    loss_num (reach n h) false = Z.of_nat (n - (npoints (reach n h) + length (pend (reach n h)))) /\
    npoints (reach n h) + length (pend (reach n h)) <= n.
  Proof.
    intros Hl. pose proof (partition_inv _ _ Hl) as HI. set (s := reach n h) in *.
    assert (Hn : ntotal s = n) by (unfold s, reach; rewrite ntotal_run; reflexivity).
    pose proof (inv_count _ HI) as Hc. rewrite Hn in Hc.
    unfold loss_num, done. rewrite Hn.
    destruct (todo s) eqn:Et; [destruct (pend s) eqn:Ep|]; cbn [length] in *; repeat split; lia.
  Qed.

  Theorem result_in_order n h : legal (init V n) h = true -> done (reach n h) = true ->
    exists vs, result (reach n h) = Some vs /\ length vs = n /\
               forall k, k < n -> nth_error vs k = last_told h k.
  Proof.
    intros Hl Hd. pose proof (partition_inv _ _ Hl) as HI.
    pose proof (proj1 (done_iff_all _ _ Hl) Hd) as Hall.
    pose proof (loss_fraction _ _ Hl) as [_ [_ Hle]].
    set (s := reach n h) in *.
    assert (Hn : ntotal s = n) by (unfold s, reach; rewrite ntotal_run; reflexivity).
    assert (Hkeys : keys s = seq 0 n).
    { apply sorted_ext; [apply (inv_keys_sorted HI)|apply seq_sorted|].
      intros x. rewrite in_seq. split; [intros Hx|intros Hx; apply Hall; lia].
      split; [lia|]. cbn. rewrite <- Hn. apply (inv_cover HI). tauto. }
    assert (Hlen : length (data s) = n).
    { unfold keys in Hkeys. apply (f_equal (@length nat)) in Hkeys. rewrite map_length, seq_length in Hkeys. exact Hkeys. }
    exists (map snd (data s)). unfold result. rewrite Hd. split; [reflexivity|].
    split; [rewrite map_length; exact Hlen|].
    intros k Hk. rewrite (nth_assoc (data s) 0 k); [|unfold keys in Hkeys; rewrite Hlen; exact Hkeys|lia].
    cbn [Nat.add]. unfold s, reach. rewrite data_run_assoc. reflexivity.
  Qed.
End SeqProofs.

Arguments Inv {V}. Arguments keys {V}. Arguments remaining {V}.
Arguments is_discard {V}. Arguments last_told {V}.
