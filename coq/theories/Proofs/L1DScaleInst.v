(* An inhabitant of the laws of Proofs/L1DScaleProofs.v: the canonical rationals
   extended with +-infinity, scaling = multiplication by a positive rational.
   This closes the C12 theorem for exact arithmetic (the mathematical
   statement).  For IEEE doubles and power-of-two factors the same laws hold
   in the absence of overflow, underflow and NaN abscissae; that is the
   trusted item, and what the twin run of the check validates bit for bit. *)
From Coq Require Import QArith Qcanon.
From AV Require Import Base.Prelude Model.L1D Proofs.L1DScaleProofs.

Local Open Scope Qc_scope.

Inductive xq := Fin (q : Qc) | PInf | NInf.

Definition qlt (a b : Qc) : bool := if Qclt_le_dec a b then true else false.
Definition qeq (a b : Qc) : bool := if Qc_eq_dec a b then true else false.

Lemma qlt_true a b : qlt a b = true <-> a < b.
Proof. unfold qlt. destruct (Qclt_le_dec a b) as [H|H]; split; auto; try discriminate. intros H'. now apply Qcle_not_lt in H. Qed.

Lemma qlt_scale k a b : 0 < k -> qlt (k * a) (k * b) = qlt a b.
Proof.
  intros Hk. destruct (qlt a b) eqn:E.
  - apply qlt_true. apply qlt_true in E. rewrite !(Qcmult_comm k). now apply Qcmult_lt_compat_r.
  - destruct (qlt (k * a) (k * b)) eqn:E'; [|reflexivity].
    apply qlt_true in E'. assert (~ a < b) as N by (intros H; apply qlt_true in H; congruence).
    apply Qcnot_lt_le in N. exfalso. apply (Qclt_not_le _ _ E').
    rewrite !(Qcmult_comm k). apply Qcmult_le_compat_r; [exact N|now apply Qclt_le_weak].
Qed.

Lemma qeq_true a b : qeq a b = true <-> a = b.
Proof. unfold qeq. destruct (Qc_eq_dec a b); split; auto; discriminate. Qed.

Lemma qeq_scale k a b : 0 < k -> qeq (k * a) (k * b) = qeq a b.
Proof.
  intros Hk. assert (k <> 0) as Hk0 by (intros ->; now apply (Qclt_not_le _ _ Hk), Qcle_refl).
  destruct (qeq a b) eqn:E.
  - apply qeq_true in E. subst. now apply qeq_true.
  - destruct (qeq (k * a) (k * b)) eqn:E'; [|reflexivity]. apply qeq_true in E'.
    assert (a = b) as ->.
    { rewrite <- (Qcmult_div_r a k Hk0), <- (Qcmult_div_r b k Hk0). unfold Qcdiv.
      rewrite !Qcmult_assoc, !(Qcmult_comm k), E'. reflexivity. }
    assert (qeq b b = true) by now apply qeq_true. congruence.
Qed.

Definition sgn (q : Qc) : comparison := if qlt 0 q then Gt else if qlt q 0 then Lt else Eq.
Lemma sgn_scale k q : 0 < k -> sgn (k * q) = sgn q.
Proof.
  intros Hk. unfold sgn. replace 0 with (k * 0) at 1 3 by ring.
  now rewrite !(qlt_scale _ _ Hk).
Qed.
Lemma sgn_Eq q : sgn q = Eq -> q = 0.
Proof.
  unfold sgn. destruct (qlt 0 q) eqn:A; [discriminate|]. destruct (qlt q 0) eqn:B; [discriminate|]. intros _.
  assert (~ 0 < q) as N1 by (intros H; apply qlt_true in H; congruence).
  assert (~ q < 0) as N2 by (intros H; apply qlt_true in H; congruence).
  apply Qcle_antisym; [now apply Qcnot_lt_le|now apply Qcnot_lt_le].
Qed.

Definition xzero := Fin 0.
Definition xone := Fin 1.

Definition xadd (a b : xq) : xq :=
  match a, b with
  | Fin p, Fin q => Fin (p + q)
  | Fin _, i => i
  | i, Fin _ => i
  | PInf, PInf => PInf
  | NInf, NInf => NInf
  | _, _ => xzero
  end.
Definition xneg (a : xq) : xq := match a with Fin p => Fin (- p) | PInf => NInf | NInf => PInf end.
Definition xsub (a b : xq) : xq :=
  match a, b with
  | Fin p, Fin q => Fin (p - q)
  | Fin _, i => xneg i
  | i, Fin _ => i
  | PInf, NInf => PInf
  | NInf, PInf => NInf
  | _, _ => xzero
  end.
Definition by_sign (q : Qc) (i : xq) : xq :=
  match sgn q with Gt => i | Lt => xneg i | Eq => xzero end.
Definition xmul (a b : xq) : xq :=
  match a, b with
  | Fin p, Fin q => Fin (p * q)
  | Fin p, i => by_sign p i
  | i, Fin q => by_sign q i
  | PInf, PInf => PInf
  | NInf, NInf => PInf
  | _, _ => NInf
  end.
Definition xdiv (a b : xq) : xq :=
  match a, b with
  | Fin p, Fin q => Fin (p / q)
  | Fin _, _ => xzero
  | i, Fin q => match sgn q with Lt => xneg i | _ => i end
  | _, _ => xzero
  end.
Definition xltb (a b : xq) : bool :=
  match a, b with
  | Fin p, Fin q => qlt p q
  | Fin _, PInf => true
  | NInf, Fin _ => true
  | NInf, PInf => true
  | _, _ => false
  end.
Definition xeqb (a b : xq) : bool :=
  match a, b with
  | Fin p, Fin q => qeq p q
  | PInf, PInf => true
  | NInf, NInf => true
  | _, _ => false
  end.
Definition xis_nan (a : xq) : bool := false.
Definition xis_inf (a : xq) : bool := match a with Fin _ => false | _ => true end.
Definition xof_nat (n : nat) : xq := Fin (Q2Qc (inject_Z (Z.of_nat n))).
(* rounding of the sort key: any function will do for the theorem *)
Definition xround12 (a : xq) : xq := a.

(* scaling by a rational factor *)
Definition scl (k : Qc) (a : xq) : xq := match a with Fin p => Fin (k * p) | i => i end.

Section Laws.
  Variables kx ky : Qc.
  Hypothesis Hkx : 0 < kx.
  Hypothesis Hky : 0 < ky.

  Lemma pos_neq k : 0 < k -> k <> 0.
  Proof. intros Hk ->. now apply (Qclt_not_le _ _ Hk), Qcle_refl. Qed.

  Lemma scl_ltb k a b : 0 < k -> xltb (scl k a) (scl k b) = xltb a b.
  Proof. intros Hk. destruct a, b; cbn; try reflexivity. now apply qlt_scale. Qed.
  Lemma scl_eqb k a b : 0 < k -> xeqb (scl k a) (scl k b) = xeqb a b.
  Proof. intros Hk. destruct a, b; cbn; try reflexivity. now apply qeq_scale. Qed.
  Lemma scl_neg k a : xneg (scl k a) = scl k (xneg a).
  Proof. destruct a; cbn; try reflexivity. f_equal. ring. Qed.
  Lemma scl_zero k : scl k xzero = xzero.
  Proof. cbn. unfold xzero. f_equal. ring. Qed.
  Lemma scl_sub k a b : xsub (scl k a) (scl k b) = scl k (xsub a b).
  Proof. destruct a, b; cbn; try reflexivity; unfold xzero; f_equal; ring. Qed.
  Lemma scl_add k a b : xadd (scl k a) (scl k b) = scl k (xadd a b).
  Proof. destruct a, b; cbn; try reflexivity; unfold xzero; f_equal; ring. Qed.
  Lemma scl_by_sign_l k q i : 0 < k -> by_sign (k * q) i = by_sign q i.
  Proof. intros Hk. unfold by_sign. now rewrite sgn_scale. Qed.
  Lemma scl_by_sign_r k q i : by_sign q (scl k i) = scl k (by_sign q i).
  Proof. unfold by_sign. destruct (sgn q); [now rewrite scl_zero|reflexivity|apply scl_neg]. Qed.
  Lemma scl_inf_id k i : xis_inf i = true -> scl k i = i.
  Proof. now destruct i. Qed.
  Lemma scl_mul_r k a r : 0 < k -> xmul (scl k a) r = scl k (xmul a r).
  Proof.
    intros Hk. destruct a as [p| |], r as [q| |]; cbn -[by_sign]; try reflexivity;
      rewrite ?(scl_by_sign_l _ _ Hk); try (f_equal; ring);
      unfold by_sign; destruct (sgn _); cbn; try reflexivity; unfold xzero; f_equal; ring.
  Qed.
  Lemma scl_mul_l k r a : 0 < k -> xmul r (scl k a) = scl k (xmul r a).
  Proof.
    intros Hk. destruct a as [p| |], r as [q| |]; cbn -[by_sign]; try reflexivity;
      rewrite ?(scl_by_sign_l _ _ Hk); try (f_equal; ring);
      unfold by_sign; destruct (sgn _); cbn; try reflexivity; unfold xzero; f_equal; ring.
  Qed.
  Lemma scl_div_r k a r : xdiv (scl k a) r = scl k (xdiv a r).
  Proof.
    destruct a as [p| |], r as [q| |]; cbn; try reflexivity; unfold xzero, Qcdiv; try (f_equal; ring);
      destruct (sgn q); reflexivity.
  Qed.
  Lemma scl_div k a b : 0 < k -> xdiv (scl k a) (scl k b) = xdiv a b.
  Proof.
    intros Hk. pose proof (pos_neq Hk) as Hk0.
    destruct a as [p| |], b as [q| |]; cbn; try reflexivity; rewrite ?(sgn_scale _ Hk); try reflexivity.
    f_equal. destruct (Qc_eq_dec q 0) as [->|Hq].
    - unfold Qcdiv. replace (k * 0) with 0 by ring. change (/ 0) with 0. ring.
    - field. split; assumption.
  Qed.

  Lemma laws : ScaleLaws xadd xsub xmul xdiv xltb xeqb xzero PInf NInf xis_nan (scl kx) (scl ky).
  Proof.
    constructor; intros;
      auto using scl_ltb, scl_eqb, scl_sub, scl_add, scl_mul_r, scl_mul_l, scl_div_r, scl_div, scl_zero.
  Qed.
End Laws.

Lemma xltb_irrefl a : xltb a a = false.
Proof.
  destruct a; cbn; try reflexivity. destruct (qlt q q) eqn:E; [|reflexivity].
  apply qlt_true in E. exfalso. apply (Qclt_not_le _ _ E), Qcle_refl.
Qed.
Lemma xltb_trans a b c : xltb a b = true -> xltb b c = true -> xltb a c = true.
Proof.
  destruct a, b, c; cbn; try discriminate; try reflexivity.
  intros H1 H2. apply qlt_true in H1, H2. apply qlt_true. eapply Qclt_trans; eauto.
Qed.
Lemma xeqb_eq a b : xeqb a b = true -> a = b.
Proof. destruct a, b; cbn; try discriminate; try reflexivity. intros H. apply qeq_true in H. now subst. Qed.

Lemma ord_laws : OrdLaws xltb xeqb.
Proof. constructor; [exact xltb_irrefl|exact xltb_trans|exact xeqb_eq]. Qed.
