(* An inhabitant of the laws of Proofs/L1DScaleProofs.v: the canonical rationals
   extended with +-infinity, scaling = multiplication by a positive rational.
   This closes the C12 theorem for exact arithmetic (the mathematical
   statement).  For IEEE doubles and power-of-two factors the same laws hold
   in the absence of overflow, underflow and NaN abscissae; that is the
   trusted item, and what the twin run of the check validates bit for bit. *)
From Coq Require Import QArith Qcanon.
From AV Require Import Base.Prelude Model.L1D Proofs.L1DScaleProofs.

Local Open Scope Qc_scope.

Inductive xq := Fin (q : Qc) | PInf | NInf.

Definition qlt (a b : Qc) : bool := if Qclt_le_dec a b then true else false.
Definition qeq (a b : Qc) : bool := if Qc_eq_dec a b then true else false.

Lemma qlt_true a b : qlt a b = true <-> a < b.
Proof. unfold qlt. destruct (Qclt_le_dec a b) as [H|H]; split; auto; try discriminate. intros H'. now apply Qcle_not_lt in H. Qed.

Lemma qlt_scale k a b : 0 < k -> qlt (k * a) (k * b) = qlt a b.
Proof.
  intros Hk. destruct (qlt a b) eqn:E.
  - apply qlt_true. apply qlt_true in E. rewrite !(Qcmult_comm k). now apply Qcmult_lt_compat_r.
  - destruct (qlt (k * a) (k * b)) eqn:E'; [|reflexivity].
    apply qlt_true in E'. assert (~ a < b) as N by (intros H; apply qlt_true in H; congruence).
    apply Qcnot_lt_le in N. exfalso. apply (Qclt_not_le _ _ E').
    rewrite !(Qcmult_comm k). apply Qcmult_le_compat_r; [exact N|now apply Qclt_le_weak].
Qed.

Lemma qeq_true a b : qeq a b = true <-> a = b.
Proof. unfold qeq. destruct (Qc_eq_dec a b); split; auto; discriminate. Qed.

Lemma qeq_scale k a b : 0 < k -> qeq (k * a) (k * b) = qeq a b.
Proof.
  intros Hk. assert (k <> 0) as Hk0 by (intros ->; now apply (Qclt_not_le _ _ Hk), Qcle_refl).
  destruct (qeq a b) eqn:E.
  - apply qeq_true in E. subst. now apply qeq_true.
  - destruct (qeq (k * a) (k * b)) eqn:E'; [|reflexivity]. apply qeq_true in E'.
    assert (a = b) as ->.
    { transitivity ((k * a) / k); [field; exact Hk0|]. rewrite E'. field; exact Hk0. }
    assert (qeq b b = true) by now apply qeq_true. congruence.
Qed.

Definition sgn (q : Qc) : comparison := if qlt 0 q then Gt else if qlt q 0 then Lt else Eq.
Lemma sgn_scale k q : 0 < k -> sgn (k * q) = sgn q.
Proof.
  intros Hk. unfold sgn. assert (E0 : k * 0 = 0) by ring.
  pose proof (qlt_scale k 0 q Hk) as A. pose proof (qlt_scale k q 0 Hk) as B.
  rewrite E0 in A, B. now rewrite A, B.
Qed.
Lemma sgn_Eq q : sgn q = Eq -> q = 0.
Proof.
  unfold sgn. destruct (qlt 0 q) eqn:A; [discriminate|]. destruct (qlt q 0) eqn:B; [discriminate|]. intros _.
  assert (~ 0 < q) as N1 by (intros H; apply qlt_true in H; congruence).
  assert (~ q < 0) as N2 by (intros H; apply qlt_true in H; congruence).
  apply Qcle_antisym; [now apply Qcnot_lt_le|now apply Qcnot_lt_le].
Qed.

Definition xzero := Fin 0.
Definition xone := Fin 1.

Definition xadd (a b : xq) : xq :=
  match a, b with
  | Fin p, Fin q => Fin (p + q)
  | Fin _, i => i
  | i, Fin _ => i
  | PInf, PInf => PInf
  | NInf, NInf => NInf
  | _, _ => xzero
  end.
Definition xneg (a : xq) : xq := match a with Fin p => Fin (- p) | PInf => NInf | NInf => PInf end.
Definition xsub (a b : xq) : xq :=
  match a, b with
  | Fin p, Fin q => Fin (p - q)
  | Fin _, i => xneg i
  | i, Fin _ => i
  | PInf, NInf => PInf
  | NInf, PInf => NInf
  | _, _ => xzero
  end.
Definition by_sign (q : Qc) (i : xq) : xq :=
  match sgn q with Gt => i | Lt => xneg i | Eq => xzero end.
Definition xmul (a b : xq) : xq :=
  match a, b with
  | Fin p, Fin q => Fin (p * q)
  | Fin p, i => by_sign p i
  | i, Fin q => by_sign q i
  | PInf, PInf => PInf
  | NInf, NInf => PInf
  | _, _ => NInf
  end.
Definition xdiv (a b : xq) : xq :=
  match a, b with
  | Fin p, Fin q => Fin (p / q)
  | Fin _, _ => xzero
  | i, Fin q => match sgn q with Lt => xneg i | _ => i end
  | _, _ => xzero
  end.
Definition xltb (a b : xq) : bool :=
  match a, b with
  | Fin p, Fin q => qlt p q
  | Fin _, PInf => true
  | NInf, Fin _ => true
  | NInf, PInf => true
  | _, _ => false
  end.
Definition xeqb (a b : xq) : bool :=
  match a, b with
  | Fin p, Fin q => qeq p q
  | PInf, PInf => true
  | NInf, NInf => true
  | _, _ => false
  end.
Definition xis_nan (a : xq) : bool := false.
Definition xis_inf (a : xq) : bool := match a with Fin _ => false | _ => true end.
Definition xof_nat (n : nat) : xq := Fin (Q2Qc (inject_Z (Z.of_nat n))).
(* rounding of the sort key: any function will do for the theorem *)
Definition xround12 (a : xq) : xq := a.

(* scaling by a rational factor *)
Definition scl (k : Qc) (a : xq) : xq := match a with Fin p => Fin (k * p) | i => i end.

Section Laws.
  Variables kx ky : Qc.
  Hypothesis Hkx : 0 < kx.
  Hypothesis Hky : 0 < ky.

  Lemma pos_neq k : 0 < k -> k <> 0.
  Proof. intros Hk ->. now apply (Qclt_not_le _ _ Hk), Qcle_refl. Qed.

  Lemma scl_ltb k a b : 0 < k -> xltb (scl k a) (scl k b) = xltb a b.
  Proof. intros Hk. destruct a, b; cbn; try reflexivity. now apply qlt_scale. Qed.
  Lemma scl_eqb k a b : 0 < k -> xeqb (scl k a) (scl k b) = xeqb a b.
  Proof. intros Hk. destruct a, b; cbn; try reflexivity. now apply qeq_scale. Qed.
  Lemma scl_neg k a : xneg (scl k a) = scl k (xneg a).
  Proof. destruct a; cbn; try reflexivity. f_equal. ring. Qed.
  Lemma scl_zero k : scl k xzero = xzero.
  Proof. cbn. unfold xzero. f_equal. ring. Qed.
  Lemma scl_sub k a b : xsub (scl k a) (scl k b) = scl k (xsub a b).
  Proof. destruct a, b; cbn; try reflexivity; unfold xzero; f_equal; ring. Qed.
  Lemma scl_add k a b : xadd (scl k a) (scl k b) = scl k (xadd a b).
  Proof. destruct a, b; cbn; try reflexivity; unfold xzero; f_equal; ring. Qed.
  Lemma scl_by_sign_l k q i : 0 < k -> by_sign (k * q) i = by_sign q i.
  Proof. intros Hk. unfold by_sign. now rewrite sgn_scale. Qed.
  Lemma scl_by_sign_r k q i : by_sign q (scl k i) = scl k (by_sign q i).
  Proof. unfold by_sign. destruct (sgn q); [now rewrite scl_zero|apply scl_neg|reflexivity]. Qed.
  Lemma scl_inf_id k i : xis_inf i = true -> scl k i = i.
  Proof. now destruct i. Qed.
  Lemma scl_mul_r k a r : 0 < k -> xmul (scl k a) r = scl k (xmul a r).
  Proof.
    intros Hk. destruct a as [p| |], r as [q| |]; cbn -[by_sign]; try reflexivity;
      rewrite ?(scl_by_sign_l _ _ _ Hk); try (f_equal; ring);
      unfold by_sign; destruct (sgn _); cbn; try reflexivity; unfold xzero; f_equal; ring.
  Qed.
  Lemma scl_mul_l k r a : 0 < k -> xmul r (scl k a) = scl k (xmul r a).
  Proof.
    intros Hk. destruct a as [p| |], r as [q| |]; cbn -[by_sign]; try reflexivity;
      rewrite ?(scl_by_sign_l _ _ _ Hk); try (f_equal; ring);
      unfold by_sign; destruct (sgn _); cbn; try reflexivity; unfold xzero; f_equal; ring.
  Qed.
  Lemma scl_div_r k a r : xdiv (scl k a) r = scl k (xdiv a r).
  Proof.
    destruct a as [p| |], r as [q| |]; cbn; try reflexivity; unfold xzero, Qcdiv; try (f_equal; ring);
      destruct (sgn q); reflexivity.
  Qed.
  Lemma scl_div k a b : 0 < k -> xdiv (scl k a) (scl k b) = xdiv a b.
  Proof.
    intros Hk. pose proof (pos_neq _ Hk) as Hk0.
    destruct a as [p| |], b as [q| |]; cbn; try reflexivity; rewrite ?(sgn_scale _ _ Hk); try reflexivity.
    f_equal. destruct (Qc_eq_dec q 0) as [->|Hq].
    - unfold Qcdiv. replace (k * 0) with 0 by ring. change (/ 0) with 0. ring.
    - field. split; assumption.
  Qed.

  Lemma laws : ScaleLaws xadd xsub xmul xdiv xltb xeqb xzero PInf NInf xis_nan (scl kx) (scl ky).
  Proof.
    constructor; intros;
      auto using scl_ltb, scl_eqb, scl_sub, scl_add, scl_mul_r, scl_mul_l, scl_div_r, scl_div, scl_zero.
  Qed.
End Laws.

Lemma xltb_irrefl a : xltb a a = false.
Proof.
  destruct a; cbn; try reflexivity. destruct (qlt q q) eqn:E; [|reflexivity].
  apply qlt_true in E. exfalso. apply (Qclt_not_le _ _ E), Qcle_refl.
Qed.
Lemma xltb_trans a b c : xltb a b = true -> xltb b c = true -> xltb a c = true.
Proof.
  destruct a, b, c; cbn; try discriminate; try reflexivity.
  intros H1 H2. apply qlt_true in H1, H2. apply qlt_true. eapply Qclt_trans; eauto.
Qed.
Lemma xeqb_eq a b : xeqb a b = true -> a = b.
Proof. destruct a, b; cbn; try discriminate; try reflexivity. intros H. apply qeq_true in H. now subst. Qed.

Lemma xeqb_refl a : xeqb a a = true.
Proof. destruct a; cbn; try reflexivity. now apply qeq_true. Qed.

Lemma ord_laws : OrdLaws xltb xeqb.
Proof. constructor; [exact xltb_irrefl|exact xltb_trans|exact xeqb_eq|exact xeqb_refl]. Qed.

(* ------------------------------------------------------------------ *)
(* The theorem, closed for this number structure: every positive rational
   pair of factors, every loss function satisfying [LossFlat]. *)
Section Closed.
  Variables kx ky : Qc.
  Hypothesis Hkx : 0 < kx.
  Hypothesis Hky : 0 < ky.
  Variable L : list (option xq) -> list (option (Y xq)) -> xq.
  Hypothesis LF : LossFlat xsub xdiv xltb xeqb xzero xone xis_nan L (scl ky).
  Variable P : params xq.

  Notation xrun := (run xadd xsub xmul xdiv xltb xeqb xzero xone PInf NInf xis_nan xis_inf xround12 xof_nat L).
  Notation xtrace := (trace xadd xsub xmul xdiv xltb xeqb xzero xone PInf NInf xis_nan xis_inf xround12 xof_nat L).
  Notation xloss := (loss xsub xdiv xltb xeqb PInf xis_nan xis_inf xround12).
  Notation xinit := (init xsub xzero PInf NInf).
  Notation xlegal := (legal xadd xsub xmul xdiv xltb xeqb xzero xone PInf NInf xis_nan xis_inf xround12 xof_nat L).

  Theorem l1d_scale_equivariant_rational (vec : bool) (h : list (op xq)) :
    xlegal P vec (xinit P) h ->
    let P' := sc_P (scl kx) P in
    let h' := map (sc_op (scl kx) (scl ky)) h in
    xrun P' (xinit P') h' = sc_st (scl kx) (scl ky) (xrun P (xinit P) h)
    /\ xtrace P' (xinit P') h' = map (sc_out (scl kx)) (xtrace P (xinit P) h)
    /\ forall real, xloss P' (xrun P' (xinit P') h') real = xloss P (xrun P (xinit P) h) real.
  Proof.
    intros Hl. exact (@l1d_scale_equivariant _ _ _ _ _ _ _ _ _ _ _ _ _ _ _ _ _ _ _ (laws kx ky Hkx Hky) ord_laws LF vec h Hl).
  Qed.

  (* all histories, tell_many's batch path included (this structure has no NaN) *)
  Theorem l1d_scale_equivariant_rational_full (vec : bool) (h : list (op xq)) :
    shaped vec h ->
    let P' := sc_P (scl kx) P in
    let h' := map (sc_op (scl kx) (scl ky)) h in
    xrun P' (xinit P') h' = sc_st (scl kx) (scl ky) (xrun P (xinit P) h)
    /\ xtrace P' (xinit P') h' = map (sc_out (scl kx)) (xtrace P (xinit P) h)
    /\ forall real, xloss P' (xrun P' (xinit P') h') real = xloss P (xrun P (xinit P) h) real.
  Proof.
    intros Hl.
    exact (@l1d_scale_equivariant_full _ _ _ _ _ _ _ _ _ _ _ _ _ _ _ _ _ _ _ (laws kx ky Hkx Hky) ord_laws LF vec
             (fun _ => eq_refl) h Hl).
  Qed.
End Closed.

(* ------------------------------------------------------------------ *)
(* [LossFlat] is satisfiable by a loss that does depend on the values: the
   square of the default loss (dx^2 + dy^2) of a two-point interval. *)
Definition sq_default_loss (xs : list (option xq)) (ys : list (option (Y xq))) : xq :=
  match xs, ys with
  | [Some x0; Some x1], [Some (YS y0); Some (YS y1)] =>
      xadd (xmul (xsub x1 x0) (xsub x1 x0)) (xmul (xsub y1 y0) (xsub y1 y0))
  | _, _ => xzero
  end.

Lemma xsub_self a : xsub a a = xzero.
Proof. destruct a; cbn; try reflexivity. unfold xzero. f_equal. ring. Qed.

Lemma flat_value mn mx v :
  xltb v mn = false -> xltb mx v = false -> xeqb (xsub mx mn) xzero = true -> v = mn.
Proof.
  destruct mn as [a| |], mx as [b| |], v as [c| |]; cbn; try discriminate; try reflexivity.
  intros H1 H2 H3. apply qeq_true in H3.
  assert (b = a) as -> by (transitivity ((b - a) + a); [ring|rewrite H3; ring]).
  f_equal. apply Qcle_antisym; apply Qcnot_lt_le; intros H; apply qlt_true in H; congruence.
Qed.

Lemma sq_default_loss_flat ky : LossFlat xsub xdiv xltb xeqb xzero xone xis_nan sq_default_loss (scl ky).
Proof.
  intros xs ys B HB. unfold sq_default_loss.
  destruct xs as [|[x0|] [|[x1|] [|? ?]]]; try reflexivity;
  destruct ys as [|[[y0|?]|] [|[[y1|?]|] [|? ?]]]; try reflexivity.
  cbn [map option_map ymap].
  destruct (HB (YS y0)) as [A0 S0]; [now left|]. destruct (HB (YS y1)) as [A1 _]; [right; now left|].
  destruct B as [[mn|?] [mx|?]]; cbn [absorbed] in A0, A1; try contradiction.
  cbn [spread] in S0. destruct A0 as [A0 A0'], A1 as [A1 A1'].
  rewrite (flat_value _ _ _ A0 A0' S0), (flat_value _ _ _ A1 A1' S0). now rewrite !xsub_self.
Qed.

(* a concrete, non-trivial instance: bounds [0,1] scaled by 3/2, values by 5;
   both learners told the end points and asked for one point *)
Example l1d_scale_example :
  let P := mkparams (Fin 0) (Fin 1) (Fin 0) 0 (Fin (Q2Qc 2)) in
  let kx := Q2Qc (3 # 2) in let ky := Q2Qc 5 in
  let h := [Tell (Fin 0) (YS (Fin 0)); Tell (Fin 1) (YS (Fin 1)); Ask 1 true] in
  legal xadd xsub xmul xdiv xltb xeqb xzero xone PInf NInf xis_nan xis_inf xround12 xof_nat
        sq_default_loss P false (init xsub xzero PInf NInf P) h.
Proof. cbn. repeat split. Qed.
