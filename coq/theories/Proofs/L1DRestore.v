(* C13 for Learner1D beyond the data: with _recompute_losses_factor = 1 a
   learner rebuilt from the saved data (BaseLearner.load / copy_from: a fresh
   learner told all items in one tell_many call) has the same loss table, the
   same y-scale and -- when the original had nothing pending -- the same
   loss(real=True) as the original, whatever history produced the original.
   Corollary of Proofs/L1DCanonical.v (losses are a function of the data) and
   Proofs/OrderL1D.v (the data dictionary is rebuilt exactly). *)
From Coq Require Import ZArith Lia.
From AV Require Import Base.Prelude Model.L1D Proofs.L1DOrder Proofs.L1DMaps Proofs.L1DStruct
  Proofs.L1DValues Proofs.L1DBatch Proofs.L1DBracket Proofs.L1DCanonical.
From AV Require Proofs.OrderL1D Proofs.OrderL1DLoss.
Set Implicit Arguments.

Section Restore.
  Variable num : Type.
  Variables (add sub mul div : num -> num -> num).
  Variables (ltb eqb : num -> num -> bool).
  Variables (zero one inf neg_inf : num).
  Variables (is_nan is_inf : num -> bool).
  Variable round12 : num -> num.
  Variable of_nat : nat -> num.
  Variable L : list (option num) -> list (option (Y num)) -> num.
  Variable P : params num.
  Hypothesis OLx : OrderL1D.OrdLaws ltb eqb is_nan.

  Notation st := (st num).
  Notation run := (@run num add sub mul div ltb eqb zero one inf neg_inf is_nan is_inf round12 of_nat L P).
  Notation init := (@init num sub zero inf neg_inf P).
  Notation clegal := (@clegal num add sub mul div ltb eqb zero one inf neg_inf is_nan is_inf round12 of_nat L P).
  Notation clegal_v := (@clegal_v num add sub mul div ltb eqb zero one inf neg_inf is_nan is_inf round12 of_nat L P).
  Notation loss := (@L1D.loss num sub div ltb eqb inf is_nan is_inf round12 P).
  Notation set_data := (@OrderL1D.l1d_set_data num sub mul div ltb eqb zero one inf neg_inf is_nan is_inf round12 L P).
  Notation tell_many := (@L1D.tell_many num sub mul div ltb eqb zero one inf neg_inf is_nan is_inf round12 L P).
  Notation tell1 := (@OrderL1D.tell1 num sub mul div ltb eqb zero one inf neg_inf is_nan is_inf round12 L P).

  Lemma OL : L1DOrder.OrdLaws ltb eqb.
  Proof.
    constructor.
    - apply (OrderL1D.ol_eqb OLx).
    - apply (OrderL1D.ol_irrefl OLx).
    - apply (OrderL1D.ol_trans OLx).
    - apply (OrderL1D.ol_total OLx).
  Qed.
  Lemma NoNaN : forall z, is_nan z = false.
  Proof. exact (OrderL1D.ol_nonan OLx). Qed.

  (* the restore is the one-op history [TellMany data false] *)
  Lemma set_data_run (d : list (num * Y num)) : d <> [] -> set_data init d = run init [TellMany d false].
  Proof. intros H. unfold OrderL1D.l1d_set_data. destruct d; [congruence|reflexivity]. Qed.

  Lemma fold_remove_nil (d : list (num * Y num)) :
    fold_left (fun p xy => L1D.remove eqb (fst xy) p) d (@nil num) = [].
  Proof. induction d as [|xy d IH]; cbn [fold_left L1D.remove]; [reflexivity|exact IH]. Qed.

  Lemma restore_data_pend h : let s := run init h in
    data (set_data init (data s)) = data s /\ pend (set_data init (data s)) = [].
  Proof.
    cbn zeta. set (s := run init h). split.
    - exact (OrderL1D.l1d_data_roundtrip num add sub mul div ltb eqb zero one inf neg_inf is_nan is_inf round12 of_nat L P OLx h).
    - unfold OrderL1D.l1d_set_data. destruct (data s) as [|p d'] eqn:Ed; [reflexivity|]. rewrite <- Ed.
      assert (Hs : OrderL1D.ksorted num ltb (map fst (data s))).
      { apply (OrderL1D.l1d_data_sorted num add sub mul div ltb eqb zero one inf neg_inf is_nan is_inf round12 of_nat L P OLx h init). constructor. }
      assert (Hnd : NoDup (map fst (data s))) by (apply (OrderL1D.ksorted_NoDup num ltb eqb is_nan OLx _ Hs)).
      assert (Hnew : forall x, In x (map fst (data s)) -> L1D.dget eqb x (data init) = None) by (intros; reflexivity).
      destruct (OrderL1D.l1d_batch_data_pend num sub mul div ltb eqb zero one inf neg_inf is_nan is_inf round12 L P OLx init (data s) false Hnd Hnew) as [_ E].
      rewrite E.
      destruct (OrderL1D.incr_data_pend num sub mul div ltb eqb zero one inf neg_inf is_nan is_inf round12 L P OLx (data s) init Hnd Hnew) as [_ E'].
      rewrite E'. apply fold_remove_nil.
  Qed.

  Theorem restored_losses : SubLaws sub ltb zero -> (forall x, mul (factor P) x = x) -> forall h,
    clegal init h = true ->
    let s := run init h in let r := set_data init (data s) in
    clegal init [TellMany (data s) false] = true ->
    data r = data s /\ sy r = sy s /\ los r = los s /\ (pend s = [] -> loss r true = loss s true).
  Proof.
    intros SL F1 h Hl s r Hr.
    destruct (restore_data_pend h) as [Ed Ep]. fold s in Ed, Ep. fold r in Ed, Ep.
    assert (Hcase : data s = [] \/ data s <> []) by (destruct (data s); [left; reflexivity|right; discriminate]).
    destruct Hcase as [Es|Hne].
    { (* nothing to restore: r = init *)
      assert (Er : r = init) by (unfold r; rewrite Es; reflexivity).
      pose proof (@losses_function_of_data num add sub mul div ltb eqb zero one inf neg_inf is_nan is_inf round12 of_nat L P OL NoNaN SL F1
                    [] h eq_refl Hl) as T. cbv zeta in T. fold s in T.
      change (run init []) with init in T. rewrite Er.
      destruct (T (eq_sym Es)) as [_ [Ey [El Em]]].
      split; [rewrite Es; reflexivity|]. split; [exact Ey|]. split; [exact El|].
      intros Hp. apply Em. unfold L1D.missing_bounds. rewrite Es, Hp. reflexivity. }
    assert (Hrun : r = run init [TellMany (data s) false]) by (apply set_data_run; exact Hne).
    pose proof (@losses_function_of_data num add sub mul div ltb eqb zero one inf neg_inf is_nan is_inf round12 of_nat L P OL NoNaN SL F1
                  [TellMany (data s) false] h Hr Hl) as T. cbv zeta in T. rewrite <- Hrun in T. fold s in T.
    destruct (T Ed) as [_ [Ey [El Em]]].
    split; [exact Ed|]. split; [exact Ey|]. split; [exact El|].
    intros Hp. apply Em. unfold L1D.missing_bounds. rewrite Ed, Ep, Hp. reflexivity.
  Qed.
End Restore.
