(* All lemmas about the regenerated kernels gen/Prims.v, re-exported. *)
From AV Require Export Model.PrimsBase Model.PrimsSpec Proofs.PrimsLemmas Proofs.PrimsGeom Proofs.PrimsCircum4
  Proofs.PrimsVolume Proofs.PrimsLoss.
