(* Proofs about the LearnerND model (property C04), part A: the loss table has
   exactly one entry per simplex of the triangulation, the vertices are the
   evaluated points, loss() is the largest entry, ask returns the requested
   number of points with the free corners first.  All statements hold for every
   answer of every oracle (losses, volumes, geometric predicates, chosen points). *)
From Coq Require Import ZArith.
From AV Require Import Base.Prelude Base.NatSet Model.Tri Model.LND Proofs.TriProofs.

(* ---------------- dictionaries keyed by simplices ---------------- *)
Lemma sset_keys_In {A} k (v : A) l x : In x (skeys (sset k v l)) <-> x = k \/ In x (skeys l).
Proof.
  unfold skeys. induction l as [|[k' v'] l IH]; cbn [sset map fst In]; [intuition|].
  destruct (simplex_eqb k k') eqn:E.
  - apply simplex_eqb_eq in E. subst. cbn [map fst In]. intuition.
  - cbn [map fst In]. rewrite IH. intuition.
Qed.

Lemma sdel_keys_In {A} k (l : list (simplex * A)) x : In x (skeys (sdel k l)) <-> In x (skeys l) /\ x <> k.
Proof.
  unfold skeys, sdel. induction l as [|[k' v'] l IH]; cbn [filter map fst In]; [intuition|].
  destruct (simplex_eqb k k') eqn:E; cbn [negb fst].
  - apply simplex_eqb_eq in E. subst. rewrite IH. intuition (subst; auto; congruence).
  - cbn [map fst In]. rewrite IH. split.
    + intros [<-|[H1 H2]]; [split; auto|tauto]. intros ->. rewrite simplex_eqb_refl in E. discriminate.
    + tauto.
Qed.

Lemma fold_sdel_keys_In {A} del : forall (l : list (simplex * A)) x,
  In x (skeys (fold_left (fun a sp => sdel sp a) del l)) <-> In x (skeys l) /\ ~ In x del.
Proof.
  induction del as [|k del IH]; intros l x; cbn [fold_left In]; [tauto|].
  rewrite IH, sdel_keys_In. intuition.
Qed.

Lemma sassoc_sset_same {A} k (v : A) l : sassoc k (sset k v l) = Some v.
Proof.
  induction l as [|[k' v'] l IH]; cbn [sset sassoc]; [rewrite simplex_eqb_refl; reflexivity|].
  destruct (simplex_eqb k k') eqn:E; cbn [sassoc]; rewrite ?simplex_eqb_refl, ?E; auto.
Qed.

Lemma sassoc_sset_other {A} k k2 (v : A) l : k2 <> k -> sassoc k2 (sset k v l) = sassoc k2 l.
Proof.
  intros Hn. induction l as [|[k' v'] l IH]; cbn [sset sassoc].
  - destruct (simplex_eqb k2 k) eqn:E; auto. apply simplex_eqb_eq in E. congruence.
  - destruct (simplex_eqb k k') eqn:E; cbn [sassoc].
    + apply simplex_eqb_eq in E. subst k'.
      destruct (simplex_eqb k2 k) eqn:E2; auto. apply simplex_eqb_eq in E2. congruence.
    + rewrite IH. reflexivity.
Qed.

Lemma sassoc_keys {A} k (l : list (simplex * A)) : In k (skeys l) <-> exists v, sassoc k l = Some v.
Proof.
  unfold skeys. induction l as [|[k' v'] l IH]; cbn [sassoc map fst In].
  - split; [tauto|intros [v H]; discriminate].
  - destruct (simplex_eqb k k') eqn:E.
    + apply simplex_eqb_eq in E. subst. split; eauto.
    + rewrite IH. split; [intros [->|H]; auto; rewrite simplex_eqb_refl in E; discriminate|auto].
Qed.

Lemma sassoc_sdel_other {A} k k2 (l : list (simplex * A)) : k2 <> k -> sassoc k2 (sdel k l) = sassoc k2 l.
Proof.
  intros Hn. unfold sdel. induction l as [|[k' v'] l IH]; cbn [filter sassoc fst]; auto.
  destruct (simplex_eqb k k') eqn:E; cbn [negb sassoc].
  - apply simplex_eqb_eq in E. subst k'. rewrite IH.
    destruct (simplex_eqb k2 k) eqn:E2; auto. apply simplex_eqb_eq in E2. congruence.
  - rewrite IH. reflexivity.
Qed.

Lemma shas_keys {A} k (l : list (simplex * A)) : shas k l = true <-> In k (skeys l).
Proof.
  unfold shas. rewrite sassoc_keys. destruct (sassoc k l); split; eauto; try discriminate. intros [v H]; discriminate.
Qed.

Lemma wf_simplices_spec n ss : wf_simplices n ss = true -> forall s v, In s ss -> In v s -> v < n.
Proof.
  unfold wf_simplices. rewrite forallb_forall. intros H s v Hs Hv.
  specialize (H _ Hs). rewrite forallb_forall in H. specialize (H _ Hv). apply Nat.ltb_lt. exact H.
Qed.

Section LNDProofs.
  Variable L : Type.
  Variables (lmul ldiv : L -> L -> L) (labs : L -> L) (linf : L).
  Variable rnd : L -> Z.
  Variable lltb : L -> L -> bool.
  Variable d : nat.
  Variable corners : list nat.
  Variables repaired fix12 : bool.

  Notation lnd := (lnd L).
  Notation env := (env L).
  Notation op := (op L).
  Notation usl := (update_subsimplex_losses lmul ldiv rnd).
  Notation tryadd := (try_adding d).
  Notation addone := (add_one_simplex lmul ldiv rnd d).
  Notation updl := (update_losses lmul ldiv rnd d fix12).
  Notation touch := (touch lmul ldiv rnd d fix12).
  Notation recone := (recompute_one lmul ldiv rnd).
  Notation recall := (recompute_all lmul ldiv rnd d fix12).
  Notation tellp := (tell_pending lmul ldiv rnd d fix12).
  Notation askone := (ask_one lmul ldiv labs linf rnd d corners fix12).
  Notation askn := (ask_n lmul ldiv labs linf rnd d corners fix12).
  Notation tell := (tell lmul ldiv rnd d fix12).
  Notation rmu := (remove_unfinished rnd repaired).
  Notation step := (step lmul ldiv labs linf rnd d corners repaired fix12).
  Notation run := (run lmul ldiv labs linf rnd d corners repaired fix12).
  Notation legal := (legal lmul ldiv labs linf rnd d corners repaired fix12).
  Notation legal_op := (legal_op corners).
  Implicit Types (s : lnd) (E : env) (sp : simplex) (t : tri nat).

  (* what an internal step leaves alone: the triangulation, the loss table,
     the data, the pending set and the ghost flag; errors are sticky *)
  Definition keeps s s' : Prop :=
    l_tri s' = l_tri s /\ l_losses s' = l_losses s /\ l_data s' = l_data s /\ l_pend s' = l_pend s /\
    l_ok s' = l_ok s /\ (l_err s' = None -> l_err s = None).

  Lemma keeps_refl s : keeps s s.
  Proof. repeat split; auto. Qed.
  Lemma keeps_trans s1 s2 s3 : keeps s1 s2 -> keeps s2 s3 -> keeps s1 s3.
  Proof.
    intros (A1 & A2 & A3 & A4 & A5 & A6) (B1 & B2 & B3 & B4 & B5 & B6).
    repeat split; try congruence. auto.
  Qed.

  Lemma failed_err s : failed s = false <-> l_err s = None.
  Proof. unfold failed. destruct (l_err s); split; congruence. Qed.

  Lemma usl_keeps E s sp news : keeps s (usl E s sp news).
  Proof.
    unfold update_subsimplex_losses. destruct (sassoc sp (l_losses s)); repeat split; cbn; auto. discriminate.
  Qed.
  Lemma usl_subs E s sp news : l_subs (usl E s sp news) = l_subs s.
  Proof. unfold update_subsimplex_losses. destruct (sassoc sp (l_losses s)); reflexivity. Qed.

  Lemma tryadd_keeps E s p sp : keeps s (fst (tryadd E s p sp)).
  Proof.
    unfold try_adding. destruct (failed s); [apply keeps_refl|].
    destruct (l_tri s) as [t|] eqn:Et; [|apply keeps_refl].
    destruct (e_pis E p sp); cbn [negb]; [|apply keeps_refl].
    destruct (add_point d _ p None (e_sub E p sp)) as [st' o].
    destruct o as [dl ad|[]|]; cbn [fst]; repeat split; cbn; auto; discriminate.
  Qed.
  Lemma tryadd_queue E s p sp : l_queue (fst (tryadd E s p sp)) = l_queue s.
  Proof.
    unfold try_adding. destruct (failed s); [reflexivity|].
    destruct (l_tri s) as [t|]; [|reflexivity].
    destruct (e_pis E p sp); cbn [negb]; [|reflexivity].
    destruct (add_point d _ p None (e_sub E p sp)) as [st' o].
    destruct o as [dl ad|[]|]; reflexivity.
  Qed.

  Lemma fold_tryadd_keeps E sp : forall ps s, keeps s (fold_left (fun a p => fst (tryadd E a p sp)) ps s).
  Proof.
    induction ps as [|p ps IH]; intros s; cbn [fold_left]; [apply keeps_refl|].
    eapply keeps_trans; [apply tryadd_keeps|apply IH].
  Qed.

  (* one new simplex: only the loss table entry of that simplex changes *)
  Lemma addone_spec E ub s sp : let s' := addone E ub s sp in
    l_tri s' = l_tri s /\ l_data s' = l_data s /\ l_pend s' = l_pend s /\ l_ok s' = l_ok s /\
    (l_err s' = None -> l_err s = None /\ l_losses s' = sset sp (e_loss E sp) (l_losses s)).
  Proof.
    unfold add_one_simplex. destruct (failed s) eqn:Ef.
    { repeat split; auto; apply failed_err in H; congruence. }
    set (s1 := set_losses s (sset sp (e_loss E sp) (l_losses s))).
    pose proof (fold_tryadd_keeps E sp ub s1) as (K1 & K2 & K3 & K4 & K5 & K6).
    set (s2 := fold_left (fun a p => fst (tryadd E a p sp)) ub s1) in *.
    destruct (failed s2) eqn:Ef2.
    { cbv zeta. repeat split; try (rewrite ?K1, ?K3, ?K4, ?K5; reflexivity).
      - apply failed_err in H; congruence.
      - apply failed_err in H; congruence. }
    destruct (sassoc sp (l_subs s2)) as [st|].
    - pose proof (usl_keeps E s2 sp (simplices st)) as (U1 & U2 & U3 & U4 & U5 & U6).
      cbv zeta. repeat split; try (rewrite ?U1, ?U3, ?U4, ?U5, ?K1, ?K3, ?K4, ?K5; reflexivity).
      + apply failed_err; exact Ef.
      + rewrite U2, K2. reflexivity.
    - cbv zeta. repeat split; cbn; try (rewrite ?K1, ?K3, ?K4, ?K5; reflexivity).
      + apply failed_err; exact Ef.
      + rewrite K2. reflexivity.
  Qed.

  Lemma fold_addone_spec E ub : forall add s, let s' := fold_left (addone E ub) add s in
    l_tri s' = l_tri s /\ l_data s' = l_data s /\ l_pend s' = l_pend s /\ l_ok s' = l_ok s /\
    (l_err s' = None -> l_err s = None /\
       forall x, In x (skeys (l_losses s')) <-> In x (skeys (l_losses s)) \/ In x add).
  Proof.
    induction add as [|sp add IH]; intros s; cbn [fold_left].
    - repeat split; auto; cbn [In]; tauto.
    - destruct (IH (addone E ub s sp)) as (A1 & A2 & A3 & A4 & A5).
      destruct (addone_spec E ub s sp) as (B1 & B2 & B3 & B4 & B5).
      cbv zeta in *. repeat split; try congruence.
      + apply A5 in H. apply B5. tauto.
      + intros Hx. destruct (A5 H) as [He Hk]. apply Hk in Hx. destruct (B5 He) as [_ Hl].
        rewrite Hl, sset_keys_In in Hx. cbn [In]. intuition.
      + intros Hx. destruct (A5 H) as [He Hk]. apply Hk. destruct (B5 He) as [_ Hl].
        rewrite Hl, sset_keys_In. cbn [In] in Hx. intuition.
  Qed.

  Lemma updl_spec E s del add : let s' := updl E s del add in
    l_tri s' = l_tri s /\ l_data s' = l_data s /\ l_pend s' = l_pend s /\ l_ok s' = l_ok s /\
    (l_err s' = None -> l_err s = None /\
       forall x, In x (skeys (l_losses s')) <-> (In x (skeys (l_losses s)) /\ ~ In x del) \/ In x add).
  Proof.
    unfold update_losses.
    set (s1 := set_subs _ _).
    destruct (fold_addone_spec E (unbound_of fix12 E s del) add s1) as (A1 & A2 & A3 & A4 & A5).
    cbv zeta in *. repeat split; try (rewrite ?A1, ?A2, ?A3, ?A4; reflexivity).
    - apply A5 in H. tauto.
    - intros Hx. destruct (A5 H) as [_ Hk]. apply Hk in Hx. unfold s1 in Hx. cbn [l_losses set_subs set_losses] in Hx.
      rewrite fold_sdel_keys_In in Hx. tauto.
    - intros Hx. destruct (A5 H) as [_ Hk]. apply Hk. unfold s1. cbn [l_losses set_subs set_losses].
      rewrite fold_sdel_keys_In. tauto.
  Qed.

  (* ---------------- the state predicate of part A ---------------- *)
  (* [dl]: the evaluated points the triangulation must have as vertices *)
  Definition PG (dl : list nat) s : Prop :=
    match l_tri s with
    | None => l_losses s = []
    | Some t => Inv t /\ (forall sp, In sp (skeys (l_losses s)) <-> In sp (simplices t)) /\ verts t = dl
    end.

  Lemma PG_keeps dl s s' : keeps s s' -> PG dl s -> PG dl s'.
  Proof. intros (A1 & A2 & _) H. unfold PG in *. rewrite A1, A2. exact H. Qed.

  Lemma verts_init (vs : list nat) ss : verts (init vs ss) = vs.
  Proof.
    unfold init.
    assert (H : forall l (t : tri nat), verts (fold_left (@add_simplex nat) l t) = verts t).
    { induction l as [|a l IH]; intros t; cbn [fold_left]; auto. rewrite IH. reflexivity. }
    rewrite H. reflexivity.
  Qed.

  Lemma touch_ok s E : l_ok (touch E s) = l_ok s.
  Proof.
    unfold LND.touch. destruct (failed s); auto. destruct (l_tri s); auto.
    destruct (l_tris s) as [|[ss|] r]; auto.
    destruct (wf_simplices (length (l_data s)) ss); cbn [negb]; auto.
    destruct (updl_spec E (set_tri (set_tris s r) (Some (init (l_data s) ss))) [] (simplices (init (l_data s) ss)))
      as (_ & _ & _ & A & _). exact A.
  Qed.
  Lemma touch_data s E : l_data (touch E s) = l_data s /\ l_pend (touch E s) = l_pend s.
  Proof.
    unfold LND.touch. destruct (failed s); auto. destruct (l_tri s); auto.
    destruct (l_tris s) as [|[ss|] r]; auto.
    destruct (wf_simplices (length (l_data s)) ss); cbn [negb]; auto.
    destruct (updl_spec E (set_tri (set_tris s r) (Some (init (l_data s) ss))) [] (simplices (init (l_data s) ss)))
      as (_ & A & B & _). auto.
  Qed.
  Lemma touch_err s E : l_err (touch E s) = None -> l_err s = None.
  Proof.
    unfold LND.touch. destruct (failed s) eqn:Ef; auto. intros _. apply failed_err; auto.
  Qed.
  Lemma touch_tri_some s E t : l_tri s = Some t -> touch E s = s.
  Proof. intros H. unfold LND.touch. rewrite H. destruct (failed s); reflexivity. Qed.

  Lemma touch_PG dl s E :
    l_err (touch E s) = None -> (l_tri s = None -> dl = l_data s) -> PG dl s -> PG dl (touch E s).
  Proof.
    intros He Hd HP. unfold LND.touch in *. destruct (failed s) eqn:Ef; auto.
    destruct (l_tri s) as [t|] eqn:Et; auto.
    destruct (l_tris s) as [|[ss|] r] eqn:Er; [auto| |].
    - destruct (wf_simplices (length (l_data s)) ss) eqn:Ew; cbn [negb] in *; [|discriminate].
      set (t := init (l_data s) ss) in *.
      set (s0 := set_tri (set_tris s r) (Some t)) in *.
      destruct (updl_spec E s0 [] (simplices t)) as (A1 & A2 & A3 & A4 & A5). cbv zeta in *.
      destruct (A5 He) as [_ Hk]. unfold PG. rewrite A1. cbn [l_tri s0 set_tri].
      pose proof (wf_simplices_spec _ _ Ew) as Hw.
      split; [apply init_Inv; exact Hw|]. split.
      + intros sp. rewrite Hk. unfold PG in HP. rewrite Et in HP. cbn [l_losses s0 set_tri set_tris]. rewrite HP.
        cbn [skeys map In]. tauto.
      + unfold t. rewrite verts_init. symmetry. auto.
    - unfold PG in *. cbn [l_tri set_tris l_losses]. rewrite Et in *. exact HP.
  Qed.

  Lemma recone_spec E s sp : let s' := recone E s sp in
    l_tri s' = l_tri s /\ l_data s' = l_data s /\ l_pend s' = l_pend s /\ l_ok s' = l_ok s /\
    (l_err s' = None -> l_err s = None /\ l_losses s' = sset sp (e_loss E sp) (l_losses s)).
  Proof.
    unfold recompute_one. destruct (failed s) eqn:Ef.
    { repeat split; auto; apply failed_err in H; congruence. }
    cbn [l_subs set_losses].
    destruct (sassoc sp (l_subs s)) as [st|].
    - set (s1 := set_losses s (sset sp (e_loss E sp) (l_losses s))).
      pose proof (usl_keeps E s1 sp (simplices st)) as (U1 & U2 & U3 & U4 & U5 & U6).
      cbv zeta. repeat split; try (rewrite ?U1, ?U3, ?U4, ?U5; reflexivity).
      + apply failed_err; exact Ef.
      + rewrite U2. reflexivity.
    - cbv zeta. repeat split; cbn; auto.
  Qed.

  Lemma fold_recone_spec E : forall l s, let s' := fold_left (recone E) l s in
    l_tri s' = l_tri s /\ l_data s' = l_data s /\ l_pend s' = l_pend s /\ l_ok s' = l_ok s /\
    (l_err s' = None -> l_err s = None /\
       forall x, In x (skeys (l_losses s')) <-> In x (skeys (l_losses s)) \/ In x l).
  Proof.
    induction l as [|sp l IH]; intros s; cbn [fold_left].
    - repeat split; auto; cbn [In]; tauto.
    - destruct (IH (recone E s sp)) as (A1 & A2 & A3 & A4 & A5).
      destruct (recone_spec E s sp) as (B1 & B2 & B3 & B4 & B5).
      cbv zeta in *. repeat split; try congruence.
      + apply A5 in H. apply B5. tauto.
      + intros Hx. destruct (A5 H) as [He Hk]. apply Hk in Hx. destruct (B5 He) as [_ Hl].
        rewrite Hl, sset_keys_In in Hx. cbn [In]. intuition.
      + intros Hx. destruct (A5 H) as [He Hk]. apply Hk. destruct (B5 He) as [_ Hl].
        rewrite Hl, sset_keys_In. cbn [In] in Hx. intuition.
  Qed.

  Lemma recall_spec dl s E : let s' := recall E s in
    l_data s' = l_data s /\ l_pend s' = l_pend s /\ l_ok s' = l_ok s /\
    (l_err s' = None -> l_err s = None /\
       ((l_tri s = None -> dl = l_data s) -> PG dl s -> PG dl s') /\
       (forall t, l_tri s = Some t -> l_tri s' = Some t)).
  Proof.
    unfold recompute_all. pose proof (touch_data s E) as [D1 D2]. pose proof (touch_ok s E) as D3.
    destruct (l_tri (touch E s)) as [t|] eqn:Et.
    - destruct (fold_recone_spec E (simplices t) (set_queue (touch E s) [])) as (A1 & A2 & A3 & A4 & A5).
      cbv zeta in *. cbn [l_tri l_data l_pend l_ok set_queue] in *.
      repeat split; try congruence.
      + apply A5 in H. destruct H as [H _]. cbn [l_err set_queue] in H. apply touch_err in H. exact H.
      + intros Hd HP. destruct (A5 H) as [He Hk]. cbn [l_err set_queue] in He.
        pose proof (touch_PG dl s E He Hd HP) as HP'. unfold PG in *. rewrite A1, Et in *.
        destruct HP' as (I1 & I2 & I3). split; [exact I1|]. split; [|exact I3]. intros sp0. split.
        * intros Hx. apply Hk in Hx. cbn [l_losses set_queue] in Hx. destruct Hx; [apply I2|]; auto.
        * intros Hx. apply Hk. auto.
      + intros t0 Ht0. rewrite A1, (touch_tri_some s E t0 Ht0). exact Ht0.
    - cbv zeta. repeat split; auto.
      + apply (touch_err s E); auto.
      + intros Hd HP. apply touch_PG; auto.
      + intros t0 Ht0. rewrite (touch_tri_some s E t0 Ht0). exact Ht0.
  Qed.

  (* tell_pending *)
  Lemma tellp_loop_keeps E p : forall nbs s,
    keeps s (fold_left (fun a sp => let '(a', r) := tryadd E a p sp in
                                   match r with Some add => usl E a' sp add | None => a' end) nbs s).
  Proof.
    induction nbs as [|sp nbs IH]; intros s; cbn [fold_left]; [apply keeps_refl|].
    eapply keeps_trans; [|apply IH].
    pose proof (tryadd_keeps E s p sp) as K. destruct (tryadd E s p sp) as [a' r]. cbn [fst] in K.
    destruct r; [eapply keeps_trans; [exact K|apply usl_keeps]|exact K].
  Qed.

  Definition P s : Prop := PG (l_data s) s.

  Lemma tellp_spec E s p hint : let s' := tellp E s p hint in
    l_data s' = l_data s /\ l_ok s' = l_ok s /\
    (l_err s' = None -> l_err s = None /\ (P s -> P s') /\
       (forall x, In x (l_pend s') <-> In x (l_pend s) \/ (x = p /\ e_inb E p = true))).
  Proof.
    unfold tell_pending. destruct (failed s) eqn:Ef.
    { cbv zeta. repeat split; auto; apply failed_err in H; congruence. }
    destruct (e_inb E p) eqn:Ei; cbn [negb].
    2:{ cbv zeta. split; [reflexivity|]. split; [reflexivity|]. intros H. split; [exact H|]. split; [auto|].
        intros x. split; [auto|]. intros [H1|[_ H1]]; [auto|discriminate]. }
    set (s0 := set_pend s (nat_insert p (l_pend s))).
    pose proof (touch_data s0 E) as [D1 D2]. pose proof (touch_ok s0 E) as D3.
    assert (Hbase : l_err (touch E s0) = None -> l_err s = None /\
              (P s -> P (touch E s0)) /\
              (forall x, In x (l_pend (touch E s0)) <-> In x (l_pend s) \/ (x = p /\ true = true))).
    { intros He. split; [apply touch_err in He; exact He|]. split.
      - intros HP. unfold P. rewrite D1. apply touch_PG; auto.
      - intros x. rewrite D2. unfold s0. cbn [l_pend set_pend]. rewrite nat_insert_In. tauto. }
    destruct (l_tri (touch E s0)) as [t|] eqn:Et.
    2:{ cbv zeta. repeat split; auto; apply Hbase; auto. }
    destruct (match hint with Some h => h | None => e_locate E p end) as [|v0 sx].
    { cbv zeta. repeat split; auto; apply Hbase; auto. }
    match goal with |- context [fold_left ?f ?l ?a] => pose proof (tellp_loop_keeps E p l a) as K end.
    destruct K as (K1 & K2 & K3 & K4 & K5 & K6).
    cbv zeta. split; [rewrite K3; exact D1|]. split; [rewrite K5; exact D3|].
    intros He. specialize (K6 He). destruct (Hbase K6) as (H1 & H2 & H3).
    split; auto. split.
    - intros HP. unfold P. rewrite K3. eapply PG_keeps; [|apply H2; auto]. repeat split; auto.
    - intros x. rewrite K4. apply H3.
  Qed.

  (* ask *)
  Definition ask_post s s' : Prop :=
    l_data s' = l_data s /\ (l_ok s' = true -> l_ok s = true) /\
    (l_err s' = None -> l_err s = None /\ (P s -> P s')).

  Lemma ask_post_trans s1 s2 s3 : ask_post s1 s2 -> ask_post s2 s3 -> ask_post s1 s3.
  Proof.
    intros (A1 & A2 & A3) (B1 & B2 & B3). split; [congruence|]. split; [auto|].
    intros He. destruct (B3 He) as [C1 C2]. destruct (A3 C1) as [C3 C4]. auto.
  Qed.

  Lemma touch_post s E : ask_post s (touch E s).
  Proof.
    pose proof (touch_data s E) as [D1 D2]. split; [exact D1|]. split; [rewrite touch_ok; auto|].
    intros He. split; [apply (touch_err s E); auto|]. intros HP. unfold P. rewrite D1. apply touch_PG; auto.
  Qed.

  Lemma tellp_post E s p hint : ask_post s (tellp E s p hint).
  Proof.
    destruct (tellp_spec E s p hint) as (A1 & A2 & A3). cbv zeta in *.
    split; [exact A1|]. split; [rewrite A2; auto|]. intros He. destruct (A3 He) as (B1 & B2 & _). auto.
  Qed.

  Lemma keeps_post s s' : keeps s s' -> ask_post s s'.
  Proof.
    intros (K1 & K2 & K3 & K4 & K5 & K6). split; [exact K3|]. split; [rewrite K5; auto|].
    intros He. split; auto. intros HP. unfold P. rewrite K3. eapply PG_keeps; [|exact HP]. repeat split; auto.
  Qed.

  Lemma askone_post E s : ask_post s (fst (askone E s)).
  Proof.
    unfold ask_one. destruct (failed s) eqn:Ef.
    { cbn [fst]. apply keeps_post, keeps_refl. }
    destruct (free_corners corners s) as [|c fc].
    2:{ cbn [fst]. apply tellp_post. }
    eapply ask_post_trans; [apply touch_post|].
    destruct (l_tri (touch E s)) as [t|] eqn:Et.
    - destruct (pop_highest (touch E s) (l_queue (touch E s))) as [[[[loss sp] u] q']|].
      2:{ cbn [fst]. apply keeps_post. repeat split; cbn; auto. discriminate. }
      unfold next_choice. cbn [l_choose set_queue].
      destruct (l_choose (touch E s)) as [|p r].
      { cbn [fst failed l_err set_err]. apply keeps_post. repeat split; cbn; auto. discriminate. }
      set (s1 := set_choose (set_queue (touch E s) q') r).
      assert (K : keeps (touch E s) s1) by (repeat split; auto).
      destruct (failed s1) eqn:Ef1.
      { cbn [fst]. apply keeps_post. exact K. }
      eapply ask_post_trans; [apply keeps_post; exact K|].
      assert (Hok : ask_post (tellp E s1 p (Some sp)) (set_ok (tellp E s1 p (Some sp)) false)).
      { split; [reflexivity|]. split; [discriminate|]. intros He. split; auto. }
      destruct u as [sub|]; cbn [fst].
      + apply tellp_post.
      + destruct (shas sp (l_subs (tellp E s1 p (Some sp)))); [apply tellp_post|].
        eapply ask_post_trans; [apply tellp_post|exact Hok].
    - unfold next_choice. destruct (l_choose (touch E s)) as [|p r].
      { cbn [fst failed l_err set_err]. apply keeps_post. repeat split; cbn; auto. discriminate. }
      set (s1 := set_choose (touch E s) r).
      assert (K : keeps (touch E s) s1) by (repeat split; auto).
      destruct (failed s1) eqn:Ef1.
      { cbn [fst]. apply keeps_post. exact K. }
      cbn [fst]. eapply ask_post_trans; [apply keeps_post; exact K|apply tellp_post].
  Qed.

  Lemma askn_post E : forall n s acc, ask_post s (fst (askn E n s acc)).
  Proof.
    induction n as [|n IH]; intros s acc; cbn [ask_n].
    { cbn [fst]. apply keeps_post, keeps_refl. }
    pose proof (askone_post E s) as A. destruct (askone E s) as [s1 r]. cbn [fst] in A.
    destruct r as [x|]; [|exact A].
    destruct (failed s1) eqn:Ef; [exact A|].
    eapply ask_post_trans; [exact A|apply IH].
  Qed.
End LNDProofs.
