(* Proofs about the LearnerND model (property C04), part A: the loss table has
   exactly one entry per simplex of the triangulation, the vertices are the
   evaluated points, loss() is the largest entry, ask returns the requested
   number of points with the free corners first.  All statements hold for every
   answer of every oracle (losses, volumes, geometric predicates, chosen points). *)
From Coq Require Import ZArith.
From Coq Require Import Sorted.
From AV Require Import Base.Prelude Base.NatSet Model.Tri Model.LND Proofs.TriProofs Proofs.LNDQueue.

(* ---------------- dictionaries keyed by simplices ---------------- *)
Lemma sset_keys_In {A} k (v : A) l x : In x (skeys (sset k v l)) <-> x = k \/ In x (skeys l).
Proof.
  unfold skeys. induction l as [|[k' v'] l IH]; cbn [sset map fst In]; [intuition|].
  destruct (simplex_eqb k k') eqn:E.
  - apply simplex_eqb_eq in E. subst. cbn [map fst In]. intuition.
  - cbn [map fst In]. rewrite IH. intuition.
Qed.

Lemma sdel_keys_In {A} k (l : list (simplex * A)) x : In x (skeys (sdel k l)) <-> In x (skeys l) /\ x <> k.
Proof.
  unfold skeys, sdel. induction l as [|[k' v'] l IH]; cbn [filter map fst In]; [intuition|].
  destruct (simplex_eqb k k') eqn:E; cbn [negb fst].
  - apply simplex_eqb_eq in E. subst. rewrite IH. intuition (subst; auto; congruence).
  - cbn [map fst In]. rewrite IH. split.
    + intros [<-|[H1 H2]]; [split; auto|tauto]. intros ->. rewrite simplex_eqb_refl in E. discriminate.
    + tauto.
Qed.

Lemma fold_sdel_keys_In {A} del : forall (l : list (simplex * A)) x,
  In x (skeys (fold_left (fun a sp => sdel sp a) del l)) <-> In x (skeys l) /\ ~ In x del.
Proof.
  induction del as [|k del IH]; intros l x; cbn [fold_left In]; [tauto|].
  rewrite IH, sdel_keys_In. intuition.
Qed.

Lemma sassoc_sset_same {A} k (v : A) l : sassoc k (sset k v l) = Some v.
Proof.
  induction l as [|[k' v'] l IH]; cbn [sset sassoc]; [rewrite simplex_eqb_refl; reflexivity|].
  destruct (simplex_eqb k k') eqn:E; cbn [sassoc]; rewrite ?simplex_eqb_refl, ?E; auto.
Qed.

Lemma sassoc_sset_other {A} k k2 (v : A) l : k2 <> k -> sassoc k2 (sset k v l) = sassoc k2 l.
Proof.
  intros Hn. induction l as [|[k' v'] l IH]; cbn [sset sassoc].
  - destruct (simplex_eqb k2 k) eqn:E; auto. apply simplex_eqb_eq in E. congruence.
  - destruct (simplex_eqb k k') eqn:E; cbn [sassoc].
    + apply simplex_eqb_eq in E. subst k'.
      destruct (simplex_eqb k2 k) eqn:E2; auto. apply simplex_eqb_eq in E2. congruence.
    + rewrite IH. reflexivity.
Qed.

Lemma sassoc_keys {A} k (l : list (simplex * A)) : In k (skeys l) <-> exists v, sassoc k l = Some v.
Proof.
  unfold skeys. induction l as [|[k' v'] l IH]; cbn [sassoc map fst In].
  - split; [tauto|intros [v H]; discriminate].
  - destruct (simplex_eqb k k') eqn:E.
    + apply simplex_eqb_eq in E. subst. split; eauto.
    + rewrite IH. split; [intros [->|H]; auto; rewrite simplex_eqb_refl in E; discriminate|auto].
Qed.

Lemma sassoc_sdel_other {A} k k2 (l : list (simplex * A)) : k2 <> k -> sassoc k2 (sdel k l) = sassoc k2 l.
Proof.
  intros Hn. unfold sdel. induction l as [|[k' v'] l IH]; cbn [filter sassoc fst]; auto.
  destruct (simplex_eqb k k') eqn:E; cbn [negb sassoc].
  - apply simplex_eqb_eq in E. subst k'. rewrite IH.
    destruct (simplex_eqb k2 k) eqn:E2; auto. apply simplex_eqb_eq in E2. congruence.
  - rewrite IH. reflexivity.
Qed.

Lemma shas_keys {A} k (l : list (simplex * A)) : shas k l = true <-> In k (skeys l).
Proof.
  unfold shas. rewrite sassoc_keys. destruct (sassoc k l); split; eauto; try discriminate. intros [v H]; discriminate.
Qed.

Lemma sadd_NoDup s l : NoDup l -> NoDup (sadd s l).
Proof.
  intros H. unfold sadd. destruct (smem s l) eqn:E; auto.
  apply NoDup_app_disj; auto.
  - constructor; [intros []|constructor].
  - intros x Hx [<-|[]]. apply smem_false in E. contradiction.
Qed.

Lemma dedup_spec l : (forall x, In x (dedup l) <-> In x l) /\ NoDup (dedup l).
Proof.
  unfold dedup.
  assert (H : forall l acc, (forall x, In x (fold_left (fun a y => sadd y a) l acc) <-> In x acc \/ In x l) /\
                            (NoDup acc -> NoDup (fold_left (fun a y => sadd y a) l acc))).
  { clear l. induction l as [|y l IH]; intros acc; cbn [fold_left In]; [split; [intros x; tauto|auto]|].
    destruct (IH (sadd y acc)) as [H1 H2]. split.
    - intros x. rewrite H1, sadd_In. intuition (subst; auto).
    - intros Hn. apply H2. apply sadd_NoDup; auto. }
  destruct (H l []) as [H1 H2]. split; [intros x; rewrite H1; cbn [In]; tauto|apply H2; constructor].
Qed.

Lemma wf_simplices_spec n ss : wf_simplices n ss = true -> forall s v, In s ss -> In v s -> v < n.
Proof.
  unfold wf_simplices. rewrite forallb_forall. intros H s v Hs Hv.
  specialize (H _ Hs). rewrite forallb_forall in H. specialize (H _ Hv). apply Nat.ltb_lt. exact H.
Qed.

Section LNDProofs.
  Variable L : Type.
  Variables (lmul ldiv : L -> L -> L) (labs : L -> L) (linf : L).
  Variable rnd : L -> Z.
  Variable lltb : L -> L -> bool.
  Variable d : nat.
  Variable corners : list nat.
  Variables repaired fix12 : bool.

  Notation lnd := (lnd L).
  Notation env := (env L).
  Notation op := (op L).
  Notation usl := (update_subsimplex_losses lmul ldiv rnd).
  Notation tryadd := (try_adding d).
  Notation addone := (add_one_simplex lmul ldiv rnd d).
  Notation updl := (update_losses lmul ldiv rnd d fix12).
  Notation touch := (touch lmul ldiv rnd d fix12).
  Notation recone := (recompute_one lmul ldiv rnd).
  Notation recall := (recompute_all lmul ldiv rnd d fix12).
  Notation tellp := (tell_pending lmul ldiv rnd d fix12).
  Notation askone := (ask_one lmul ldiv labs linf rnd d corners fix12).
  Notation askn := (ask_n lmul ldiv labs linf rnd d corners fix12).
  Notation tell := (tell lmul ldiv rnd d fix12).
  Notation rmu := (remove_unfinished rnd repaired).
  Notation step := (step lmul ldiv labs linf rnd d corners repaired fix12).
  Notation run := (run lmul ldiv labs linf rnd d corners repaired fix12).
  Notation legal := (legal lmul ldiv labs linf rnd d corners repaired fix12).
  Notation legal_op := (legal_op corners).
  Implicit Types (s : lnd) (E : env) (sp : simplex) (t : tri nat).

  (* what an internal step leaves alone: the triangulation, the loss table,
     the data, the pending set and the ghost flag; errors are sticky *)
  Definition keeps s s' : Prop :=
    l_tri s' = l_tri s /\ l_losses s' = l_losses s /\ l_data s' = l_data s /\ l_pend s' = l_pend s /\
    l_ok s' = l_ok s /\ (l_err s' = None -> l_err s = None).

  Lemma keeps_refl s : keeps s s.
  Proof. repeat split; auto. Qed.
  Lemma keeps_trans s1 s2 s3 : keeps s1 s2 -> keeps s2 s3 -> keeps s1 s3.
  Proof.
    intros (A1 & A2 & A3 & A4 & A5 & A6) (B1 & B2 & B3 & B4 & B5 & B6).
    repeat split; try congruence. auto.
  Qed.

  Lemma failed_err s : failed s = false <-> l_err s = None.
  Proof. unfold failed. destruct (l_err s); split; congruence. Qed.

  Lemma usl_keeps E s sp news : keeps s (usl E s sp news).
  Proof.
    unfold update_subsimplex_losses. destruct (sassoc sp (l_losses s)); repeat split; cbn; auto. discriminate.
  Qed.
  Lemma usl_subs E s sp news : l_subs (usl E s sp news) = l_subs s.
  Proof. unfold update_subsimplex_losses. destruct (sassoc sp (l_losses s)); reflexivity. Qed.

  Lemma tryadd_keeps E s p sp : keeps s (fst (tryadd E s p sp)).
  Proof.
    unfold try_adding. destruct (failed s); [apply keeps_refl|].
    destruct (l_tri s) as [t|] eqn:Et; [|apply keeps_refl].
    destruct (e_pis E p sp); cbn [negb]; [|apply keeps_refl].
    destruct (add_point d _ p None (e_sub E p sp)) as [st' o].
    destruct o as [dl ad|[]|]; cbn [fst]; repeat split; cbn; auto; discriminate.
  Qed.
  Lemma tryadd_queue E s p sp : l_queue (fst (tryadd E s p sp)) = l_queue s.
  Proof.
    unfold try_adding. destruct (failed s); [reflexivity|].
    destruct (l_tri s) as [t|]; [|reflexivity].
    destruct (e_pis E p sp); cbn [negb]; [|reflexivity].
    destruct (add_point d _ p None (e_sub E p sp)) as [st' o].
    destruct o as [dl ad|[]|]; reflexivity.
  Qed.

  Lemma fold_tryadd_keeps E sp : forall ps s, keeps s (fold_left (fun a p => fst (tryadd E a p sp)) ps s).
  Proof.
    induction ps as [|p ps IH]; intros s; cbn [fold_left]; [apply keeps_refl|].
    eapply keeps_trans; [apply tryadd_keeps|apply IH].
  Qed.

  (* one new simplex: only the loss table entry of that simplex changes *)
  Lemma addone_spec E ub s sp : let s' := addone E ub s sp in
    l_tri s' = l_tri s /\ l_data s' = l_data s /\ l_pend s' = l_pend s /\ l_ok s' = l_ok s /\
    (l_err s' = None -> l_err s = None /\ l_losses s' = sset sp (e_loss E sp) (l_losses s)).
  Proof.
    unfold add_one_simplex. destruct (failed s) eqn:Ef.
    { repeat split; auto; apply failed_err in H; congruence. }
    set (s1 := set_losses s (sset sp (e_loss E sp) (l_losses s))).
    pose proof (fold_tryadd_keeps E sp ub s1) as (K1 & K2 & K3 & K4 & K5 & K6).
    set (s2 := fold_left (fun a p => fst (tryadd E a p sp)) ub s1) in *.
    destruct (failed s2) eqn:Ef2.
    { cbv zeta. repeat split; try (rewrite ?K1, ?K3, ?K4, ?K5; reflexivity).
      - apply failed_err in H; congruence.
      - apply failed_err in H; congruence. }
    destruct (sassoc sp (l_subs s2)) as [st|].
    - pose proof (usl_keeps E s2 sp (simplices st)) as (U1 & U2 & U3 & U4 & U5 & U6).
      cbv zeta. repeat split; try (rewrite ?U1, ?U3, ?U4, ?U5, ?K1, ?K3, ?K4, ?K5; reflexivity).
      + apply failed_err; exact Ef.
      + rewrite U2, K2. reflexivity.
    - cbv zeta. repeat split; cbn; try (rewrite ?K1, ?K3, ?K4, ?K5; reflexivity).
      + apply failed_err; exact Ef.
      + rewrite K2. reflexivity.
  Qed.

  Lemma fold_addone_spec E ub : forall add s, let s' := fold_left (addone E ub) add s in
    l_tri s' = l_tri s /\ l_data s' = l_data s /\ l_pend s' = l_pend s /\ l_ok s' = l_ok s /\
    (l_err s' = None -> l_err s = None /\
       forall x, In x (skeys (l_losses s')) <-> In x (skeys (l_losses s)) \/ In x add).
  Proof.
    induction add as [|sp add IH]; intros s; cbn [fold_left].
    - repeat split; auto; cbn [In]; tauto.
    - destruct (IH (addone E ub s sp)) as (A1 & A2 & A3 & A4 & A5).
      destruct (addone_spec E ub s sp) as (B1 & B2 & B3 & B4 & B5).
      cbv zeta in *. repeat split; try congruence.
      + apply A5 in H. apply B5. tauto.
      + intros Hx. destruct (A5 H) as [He Hk]. apply Hk in Hx. destruct (B5 He) as [_ Hl].
        rewrite Hl, sset_keys_In in Hx. cbn [In]. intuition.
      + intros Hx. destruct (A5 H) as [He Hk]. apply Hk. destruct (B5 He) as [_ Hl].
        rewrite Hl, sset_keys_In. cbn [In] in Hx. intuition.
  Qed.

  Lemma updl_spec E s del add : let s' := updl E s del add in
    l_tri s' = l_tri s /\ l_data s' = l_data s /\ l_pend s' = l_pend s /\ l_ok s' = l_ok s /\
    (l_err s' = None -> l_err s = None /\
       forall x, In x (skeys (l_losses s')) <-> (In x (skeys (l_losses s)) /\ ~ In x del) \/ In x add).
  Proof.
    unfold update_losses.
    set (s1 := set_subs _ _).
    destruct (fold_addone_spec E (unbound_of fix12 E s del) (dedup add) s1) as (A1 & A2 & A3 & A4 & A5).
    destruct (dedup_spec add) as [Hdd _].
    cbv zeta in *. repeat split; try (rewrite ?A1, ?A2, ?A3, ?A4; reflexivity).
    - apply A5 in H. tauto.
    - intros Hx. destruct (A5 H) as [_ Hk]. apply Hk in Hx. unfold s1 in Hx. cbn [l_losses set_subs set_losses] in Hx.
      rewrite fold_sdel_keys_In, Hdd in Hx. tauto.
    - intros Hx. destruct (A5 H) as [_ Hk]. apply Hk. unfold s1. cbn [l_losses set_subs set_losses].
      rewrite fold_sdel_keys_In, Hdd. tauto.
  Qed.

  (* ---------------- the state predicate of part A ---------------- *)
  (* [dl]: the evaluated points the triangulation must have as vertices *)
  Definition PG (dl : list nat) s : Prop :=
    match l_tri s with
    | None => l_losses s = []
    | Some t => Inv t /\ (forall sp, In sp (skeys (l_losses s)) <-> In sp (simplices t)) /\ verts t = dl
    end.

  Lemma PG_keeps dl s s' : keeps s s' -> PG dl s -> PG dl s'.
  Proof. intros (A1 & A2 & _) H. unfold PG in *. rewrite A1, A2. exact H. Qed.

  Lemma verts_init (vs : list nat) ss : verts (init vs ss) = vs.
  Proof.
    unfold init.
    assert (H : forall l (t : tri nat), verts (fold_left (@add_simplex nat) l t) = verts t).
    { induction l as [|a l IH]; intros t; cbn [fold_left]; auto. rewrite IH. reflexivity. }
    rewrite H. reflexivity.
  Qed.

  Lemma touch_ok s E : l_ok (touch E s) = l_ok s.
  Proof.
    unfold LND.touch. destruct (failed s); auto. destruct (l_tri s); auto.
    destruct (l_tris s) as [|[ss|] r]; auto.
    destruct (wf_simplices (length (l_data s)) ss); cbn [negb]; auto.
    destruct (updl_spec E (set_tri (set_tris s r) (Some (init (l_data s) ss))) [] (simplices (init (l_data s) ss)))
      as (_ & _ & _ & A & _). exact A.
  Qed.
  Lemma touch_data s E : l_data (touch E s) = l_data s /\ l_pend (touch E s) = l_pend s.
  Proof.
    unfold LND.touch. destruct (failed s); auto. destruct (l_tri s); auto.
    destruct (l_tris s) as [|[ss|] r]; auto.
    destruct (wf_simplices (length (l_data s)) ss); cbn [negb]; auto.
    destruct (updl_spec E (set_tri (set_tris s r) (Some (init (l_data s) ss))) [] (simplices (init (l_data s) ss)))
      as (_ & A & B & _). auto.
  Qed.
  Lemma touch_err s E : l_err (touch E s) = None -> l_err s = None.
  Proof.
    unfold LND.touch. destruct (failed s) eqn:Ef; auto. intros _. apply failed_err; auto.
  Qed.
  Lemma touch_tri_some s E t : l_tri s = Some t -> touch E s = s.
  Proof. intros H. unfold LND.touch. rewrite H. destruct (failed s); reflexivity. Qed.

  Lemma touch_PG dl s E :
    l_err (touch E s) = None -> (l_tri s = None -> dl = l_data s) -> PG dl s -> PG dl (touch E s).
  Proof.
    intros He Hd HP. unfold LND.touch in *. destruct (failed s) eqn:Ef; auto.
    destruct (l_tri s) as [t|] eqn:Et; auto.
    destruct (l_tris s) as [|[ss|] r] eqn:Er; [auto| |].
    - destruct (wf_simplices (length (l_data s)) ss) eqn:Ew; cbn [negb] in *; [|discriminate].
      set (t := init (l_data s) ss) in *.
      set (s0 := set_tri (set_tris s r) (Some t)) in *.
      destruct (updl_spec E s0 [] (simplices t)) as (A1 & A2 & A3 & A4 & A5). cbv zeta in *.
      destruct (A5 He) as [_ Hk]. unfold PG. rewrite A1. cbn [l_tri s0 set_tri].
      pose proof (wf_simplices_spec _ _ Ew) as Hw.
      split; [apply init_Inv; exact Hw|]. split.
      + intros sp. rewrite Hk. unfold PG in HP. rewrite Et in HP. cbn [l_losses s0 set_tri set_tris]. rewrite HP.
        cbn [skeys map In]. tauto.
      + unfold t. rewrite verts_init. symmetry. auto.
    - unfold PG in *. cbn [l_tri set_tris l_losses]. rewrite Et in *. exact HP.
  Qed.

  Lemma recone_spec E s sp : let s' := recone E s sp in
    l_tri s' = l_tri s /\ l_data s' = l_data s /\ l_pend s' = l_pend s /\ l_ok s' = l_ok s /\
    (l_err s' = None -> l_err s = None /\ l_losses s' = sset sp (e_loss E sp) (l_losses s)).
  Proof.
    unfold recompute_one. destruct (failed s) eqn:Ef.
    { repeat split; auto; apply failed_err in H; congruence. }
    cbn [l_subs set_losses].
    destruct (sassoc sp (l_subs s)) as [st|].
    - set (s1 := set_losses s (sset sp (e_loss E sp) (l_losses s))).
      pose proof (usl_keeps E s1 sp (simplices st)) as (U1 & U2 & U3 & U4 & U5 & U6).
      cbv zeta. repeat split; try (rewrite ?U1, ?U3, ?U4, ?U5; reflexivity).
      + apply failed_err; exact Ef.
      + rewrite U2. reflexivity.
    - cbv zeta. repeat split; cbn; auto.
  Qed.

  Lemma fold_recone_spec E : forall l s, let s' := fold_left (recone E) l s in
    l_tri s' = l_tri s /\ l_data s' = l_data s /\ l_pend s' = l_pend s /\ l_ok s' = l_ok s /\
    (l_err s' = None -> l_err s = None /\
       forall x, In x (skeys (l_losses s')) <-> In x (skeys (l_losses s)) \/ In x l).
  Proof.
    induction l as [|sp l IH]; intros s; cbn [fold_left].
    - repeat split; auto; cbn [In]; tauto.
    - destruct (IH (recone E s sp)) as (A1 & A2 & A3 & A4 & A5).
      destruct (recone_spec E s sp) as (B1 & B2 & B3 & B4 & B5).
      cbv zeta in *. repeat split; try congruence.
      + apply A5 in H. apply B5. tauto.
      + intros Hx. destruct (A5 H) as [He Hk]. apply Hk in Hx. destruct (B5 He) as [_ Hl].
        rewrite Hl, sset_keys_In in Hx. cbn [In]. intuition.
      + intros Hx. destruct (A5 H) as [He Hk]. apply Hk. destruct (B5 He) as [_ Hl].
        rewrite Hl, sset_keys_In. cbn [In] in Hx. intuition.
  Qed.

  Lemma recall_spec dl s E : let s' := recall E s in
    l_data s' = l_data s /\ l_pend s' = l_pend s /\ l_ok s' = l_ok s /\
    (l_err s' = None -> l_err s = None /\
       ((l_tri s = None -> dl = l_data s) -> PG dl s -> PG dl s') /\
       (forall t, l_tri s = Some t -> l_tri s' = Some t)).
  Proof.
    unfold recompute_all. pose proof (touch_data s E) as [D1 D2]. pose proof (touch_ok s E) as D3.
    destruct (l_tri (touch E s)) as [t|] eqn:Et.
    - destruct (fold_recone_spec E (simplices t) (set_queue (touch E s) [])) as (A1 & A2 & A3 & A4 & A5).
      cbv zeta in *. cbn [l_tri l_data l_pend l_ok set_queue] in *.
      repeat split; try congruence.
      + apply A5 in H. destruct H as [H _]. cbn [l_err set_queue] in H. apply touch_err in H. exact H.
      + intros Hd HP. destruct (A5 H) as [He Hk]. cbn [l_err set_queue] in He.
        pose proof (touch_PG dl s E He Hd HP) as HP'. unfold PG in *. rewrite A1, Et in *.
        destruct HP' as (I1 & I2 & I3). split; [exact I1|]. split; [|exact I3]. intros sp0. split.
        * intros Hx. apply Hk in Hx. cbn [l_losses set_queue] in Hx. destruct Hx; [apply I2|]; auto.
        * intros Hx. apply Hk. auto.
      + intros t0 Ht0. rewrite A1, (touch_tri_some s E t0 Ht0). exact Ht0.
    - cbv zeta. repeat split; auto.
      + apply (touch_err s E); auto.
      + intros Hd HP. apply touch_PG; auto.
      + intros t0 Ht0. rewrite (touch_tri_some s E t0 Ht0). exact Ht0.
  Qed.

  (* tell_pending *)
  Lemma tellp_loop_keeps E p : forall nbs s,
    keeps s (fold_left (fun a sp => let '(a', r) := tryadd E a p sp in
                                   match r with Some add => usl E a' sp add | None => a' end) nbs s).
  Proof.
    induction nbs as [|sp nbs IH]; intros s; cbn [fold_left]; [apply keeps_refl|].
    eapply keeps_trans; [|apply IH].
    pose proof (tryadd_keeps E s p sp) as K. destruct (tryadd E s p sp) as [a' r]. cbn [fst] in K.
    destruct r; [eapply keeps_trans; [exact K|apply usl_keeps]|exact K].
  Qed.

  Definition P s : Prop := PG (l_data s) s.

  Lemma tellp_spec E s p hint : let s' := tellp E s p hint in
    l_data s' = l_data s /\ l_ok s' = l_ok s /\
    (l_err s' = None -> l_err s = None /\ (P s -> P s') /\
       (forall x, In x (l_pend s') <-> In x (l_pend s) \/ (x = p /\ e_inb E p = true))).
  Proof.
    unfold tell_pending. destruct (failed s) eqn:Ef.
    { cbv zeta. repeat split; auto; apply failed_err in H; congruence. }
    destruct (e_inb E p) eqn:Ei; cbn [negb].
    2:{ cbv zeta. split; [reflexivity|]. split; [reflexivity|]. intros H. split; [exact H|]. split; [auto|].
        intros x. split; [auto|]. intros [H1|[_ H1]]; [auto|discriminate]. }
    set (s0 := set_pend s (nat_insert p (l_pend s))).
    pose proof (touch_data s0 E) as [D1 D2]. pose proof (touch_ok s0 E) as D3.
    assert (Hbase : l_err (touch E s0) = None -> l_err s = None /\
              (P s -> P (touch E s0)) /\
              (forall x, In x (l_pend (touch E s0)) <-> In x (l_pend s) \/ (x = p /\ true = true))).
    { intros He. split; [apply touch_err in He; exact He|]. split.
      - intros HP. unfold P. rewrite D1. apply touch_PG; auto.
      - intros x. rewrite D2. unfold s0. cbn [l_pend set_pend]. rewrite nat_insert_In. tauto. }
    destruct (l_tri (touch E s0)) as [t|] eqn:Et.
    2:{ cbv zeta. repeat split; auto; apply Hbase; auto. }
    destruct (match hint with Some h => h | None => e_locate E p end) as [|v0 sx].
    { cbv zeta. repeat split; auto; apply Hbase; auto. }
    match goal with |- context [fold_left ?f ?l ?a] => pose proof (tellp_loop_keeps E p l a) as K end.
    destruct K as (K1 & K2 & K3 & K4 & K5 & K6).
    cbv zeta. split; [rewrite K3; exact D1|]. split; [rewrite K5; exact D3|].
    intros He. specialize (K6 He). destruct (Hbase K6) as (H1 & H2 & H3).
    split; auto. split.
    - intros HP. unfold P. rewrite K3. eapply PG_keeps; [|apply H2; auto]. repeat split; auto.
    - intros x. rewrite K4. apply H3.
  Qed.

  (* ask *)
  Definition ask_post s s' : Prop :=
    l_data s' = l_data s /\ (l_ok s' = true -> l_ok s = true) /\
    (l_err s' = None -> l_err s = None /\ (P s -> P s')).

  Lemma ask_post_trans s1 s2 s3 : ask_post s1 s2 -> ask_post s2 s3 -> ask_post s1 s3.
  Proof.
    intros (A1 & A2 & A3) (B1 & B2 & B3). split; [congruence|]. split; [auto|].
    intros He. destruct (B3 He) as [C1 C2]. destruct (A3 C1) as [C3 C4]. auto.
  Qed.

  Lemma touch_post s E : ask_post s (touch E s).
  Proof.
    pose proof (touch_data s E) as [D1 D2]. split; [exact D1|]. split; [rewrite touch_ok; auto|].
    intros He. split; [apply (touch_err s E); auto|]. intros HP. unfold P. rewrite D1. apply touch_PG; auto.
  Qed.

  Lemma tellp_post E s p hint : ask_post s (tellp E s p hint).
  Proof.
    destruct (tellp_spec E s p hint) as (A1 & A2 & A3). cbv zeta in *.
    split; [exact A1|]. split; [rewrite A2; auto|]. intros He. destruct (A3 He) as (B1 & B2 & _). auto.
  Qed.

  Lemma keeps_post s s' : keeps s s' -> ask_post s s'.
  Proof.
    intros (K1 & K2 & K3 & K4 & K5 & K6). split; [exact K3|]. split; [rewrite K5; auto|].
    intros He. split; auto. intros HP. unfold P. rewrite K3. eapply PG_keeps; [|exact HP]. repeat split; auto.
  Qed.

  Lemma askone_post E s : ask_post s (fst (askone E s)).
  Proof.
    unfold ask_one. destruct (failed s) eqn:Ef.
    { cbn [fst]. apply keeps_post, keeps_refl. }
    destruct (free_corners corners s) as [|c fc].
    2:{ cbn [fst]. apply tellp_post. }
    eapply ask_post_trans; [apply touch_post|].
    destruct (l_tri (touch E s)) as [t|] eqn:Et.
    - destruct (pop_highest (touch E s) (l_queue (touch E s))) as [[[[loss sp] u] q']|].
      2:{ cbn [fst]. apply keeps_post. repeat split; cbn; auto. discriminate. }
      unfold next_choice. cbn [l_choose set_queue].
      destruct (l_choose (touch E s)) as [|p r].
      { cbn [fst failed l_err set_err]. apply keeps_post. repeat split; cbn; auto. discriminate. }
      set (s1 := set_choose (set_queue (touch E s) q') r).
      assert (K : keeps (touch E s) s1) by (repeat split; auto).
      destruct (failed s1) eqn:Ef1.
      { cbn [fst]. apply keeps_post. exact K. }
      eapply ask_post_trans; [apply keeps_post; exact K|].
      assert (Hok : ask_post (tellp E s1 p (Some sp)) (set_ok (tellp E s1 p (Some sp)) false)).
      { split; [reflexivity|]. split; [discriminate|]. intros He. split; auto. }
      destruct u as [sub|]; cbn [fst].
      + apply tellp_post.
      + destruct (shas sp (l_subs (tellp E s1 p (Some sp)))); [apply tellp_post|].
        eapply ask_post_trans; [apply tellp_post|exact Hok].
    - unfold next_choice. destruct (l_choose (touch E s)) as [|p r].
      { cbn [fst failed l_err set_err]. apply keeps_post. repeat split; cbn; auto. discriminate. }
      set (s1 := set_choose (touch E s) r).
      assert (K : keeps (touch E s) s1) by (repeat split; auto).
      destruct (failed s1) eqn:Ef1.
      { cbn [fst]. apply keeps_post. exact K. }
      cbn [fst]. eapply ask_post_trans; [apply keeps_post; exact K|apply tellp_post].
  Qed.

  Lemma askn_post E : forall n s acc, ask_post s (fst (askn E n s acc)).
  Proof.
    induction n as [|n IH]; intros s acc; cbn [ask_n].
    { cbn [fst]. apply keeps_post, keeps_refl. }
    pose proof (askone_post E s) as A. destruct (askone E s) as [s1 r]. cbn [fst] in A.
    destruct r as [x|]; [|exact A].
    destruct (failed s1) eqn:Ef; [exact A|].
    eapply ask_post_trans; [exact A|apply IH].
  Qed.

  (* ---------------- tell ---------------- *)
  Definition hint_ok s E : bool :=
    match e_hint E with
    | Some (x :: sp) => smem (x :: sp) (cur_simplices s)
    | Some [] => false
    | None => match o_locate (e_main E) with [] => true | sp => smem sp (cur_simplices s) end
    end.

  Lemma hint_ok_legal s E p t : hint_ok s E = true -> l_tri s = Some t ->
    Tri.legal_op t (AddPoint p (e_hint E) (e_main E)) = true.
  Proof.
    unfold hint_ok, cur_simplices. intros H Ht. rewrite Ht in H. cbn [Tri.legal_op].
    destruct (e_hint E) as [[|x sp]|]; auto.
  Qed.

  Lemma PG_set_data dl s x : PG dl (set_data s x) <-> PG dl s.
  Proof. unfold PG. reflexivity. Qed.

  Lemma tell_spec E s p : let s' := tell E s p in
    l_ok s' = l_ok s /\
    (l_err s' = None -> e_inb E p = true -> hint_ok s E = true -> l_err s = None /\ (P s -> P s')).
  Proof.
    unfold LND.tell. destruct (nat_mem p (l_data s)) eqn:Em.
    { cbv zeta. split; auto. }
    set (s0 := set_pend s (nat_remove p (l_pend s))).
    pose proof (touch_data s0 E) as [D1 D2]. pose proof (touch_ok s0 E) as D3.
    set (s1 := touch E s0) in *.
    set (s2 := set_data s1 (l_data s1 ++ [p])).
    destruct (e_inb E p) eqn:Ei; cbn [negb].
    2:{ cbv zeta. split; [exact D3|]. intros _ Hc. discriminate. }
    set (s3 := if e_rescale E then recall E s2 else s2).
    assert (H3 : forall dl, l_data s3 = l_data s2 /\ l_ok s3 = l_ok s2 /\
              (l_err s3 = None -> l_err s2 = None /\
                 ((l_tri s2 = None -> dl = l_data s2) -> PG dl s2 -> PG dl s3) /\
                 (forall t, l_tri s2 = Some t -> l_tri s3 = Some t))).
    { intros dl. unfold s3. destruct (e_rescale E).
      - destruct (recall_spec dl s2 E) as (A1 & A2 & A3 & A4). cbv zeta in *. auto.
      - repeat split; auto. }
    destruct (l_tri s1) as [t|] eqn:Et1.
    - (* a triangulation exists: insert the point *)
      cbn [negb]. destruct (H3 (l_data s1)) as (B1 & B2 & B3).
      destruct (l_tri s3) as [t3|] eqn:Et3.
      2:{ cbv zeta. split; [rewrite B2; exact D3|]. intros He _ _. exfalso.
          destruct (B3 He) as (_ & _ & B5). specialize (B5 t Et1). congruence. }
      destruct (add_point d t3 p (e_hint E) (e_main E)) as [t' o] eqn:Eadd.
      assert (Hok : forall x, l_ok (set_tri s3 x) = l_ok s) by (intros; cbn; rewrite B2; exact D3).
      destruct o as [dl ad|why|].
      + destruct (updl_spec E (set_tri s3 (Some t')) dl ad) as (U1 & U2 & U3 & U4 & U5). cbv zeta in *.
        split; [rewrite U4; apply Hok|].
        intros He _ Hh. destruct (U5 He) as [He3 Hk]. cbn [l_err set_tri] in He3.
        destruct (B3 He3) as (He2 & B4 & B5). specialize (B5 t Et1). assert (t3 = t) by congruence. subst t3.
        assert (He0 : l_err s = None) by (apply (touch_err s0 E) in He2; exact He2).
        split; [exact He0|]. intros HP.
        assert (HP1 : PG (l_data s1) s1).
        { rewrite D1. unfold s1. apply touch_PG; [exact He2|intros _; reflexivity|exact HP]. }
        assert (HP3 : PG (l_data s1) s3).
        { apply B4; [intros Hn; cbn in Hn; congruence|]. apply PG_set_data. exact HP1. }
        unfold PG in HP3. rewrite Et3 in HP3. destruct HP3 as (I1 & I2 & I3).
        assert (Hleg : Tri.legal_op t (AddPoint p (e_hint E) (e_main E)) = true).
        { destruct (l_tri s) as [ts|] eqn:Ets.
          - assert (s1 = s0) by (apply (touch_tri_some s0 E ts); exact Ets).
            assert (ts = t) by (unfold s1 in Et1; rewrite (touch_tri_some s0 E ts Ets) in Et1; cbn in Et1; congruence).
            subst ts. eapply hint_ok_legal; eauto.
          - unfold hint_ok, cur_simplices in Hh. rewrite Ets in Hh. cbn [Tri.legal_op].
            destruct (e_hint E) as [[|x sp]|]; try discriminate.
            destruct (o_locate (e_main E)); [reflexivity|discriminate]. }
        destruct (add_point_spec nat d t p (e_hint E) (e_main E) t' (Accepted dl ad) I1 Hleg Eadd) as (J1 & J2 & J3 & J4).
        unfold P, PG. rewrite U1, U2. cbn [l_tri set_tri l_data].
        split; [exact J1|]. split.
        * intros sp. rewrite Hk. cbn [l_losses set_tri]. rewrite I2. destruct J2 as [Jd Ja].
          rewrite Ja. specialize (Jd sp). destruct (In_dec_s sp (simplices t')); destruct (In_dec_s sp (simplices t)); tauto.
        * rewrite J3, I3, B1. reflexivity.
      + cbv zeta. split; [destruct why; apply Hok|]. intros He. destruct why; discriminate.
      + cbv zeta. split; [apply Hok|]. intros He. discriminate.
    - (* no triangulation yet *)
      cbn [negb]. destruct (H3 (l_data s2)) as (B1 & B2 & B3). cbv zeta.
      split; [rewrite B2; exact D3|]. intros He _ _. destruct (B3 He) as (He2 & B4 & _).
      assert (He0 : l_err s = None) by (apply (touch_err s0 E) in He2; exact He2).
      split; [exact He0|]. intros HP. unfold P. rewrite B1. apply B4; auto.
      apply PG_set_data. unfold PG. rewrite Et1.
      assert (HP1 : PG (l_data s1) s1) by (rewrite D1; unfold s1; apply touch_PG; [exact He2|intros _; reflexivity|exact HP]).
      unfold PG in HP1. rewrite Et1 in HP1. exact HP1.
  Qed.

  (* ---------------- remove_unfinished ---------------- *)
  Lemma requeue_keeps s sp : keeps s (requeue rnd s sp).
  Proof. unfold requeue. destruct (sassoc sp (l_losses s)); repeat split; auto. Qed.
  Lemma fold_requeue_keeps : forall l s, keeps s (fold_left (requeue rnd) l s).
  Proof.
    induction l as [|a l IH]; intros s; cbn [fold_left]; [apply keeps_refl|].
    eapply keeps_trans; [apply requeue_keeps|apply IH].
  Qed.
  Lemma rmu_keeps s : let s' := rmu s in
    l_tri s' = l_tri s /\ l_losses s' = l_losses s /\ l_data s' = l_data s /\ l_ok s' = l_ok s /\ l_err s' = l_err s /\
    l_pend s' = [] /\ l_subs s' = [].
  Proof.
    unfold remove_unfinished. destruct repaired.
    - destruct (fold_requeue_keeps (skeys (l_subs s)) s) as (K1 & K2 & K3 & K4 & K5 & K6).
      cbv zeta. cbn. repeat split; auto.
      assert (H : forall l s0, l_err (fold_left (requeue rnd) l s0) = l_err s0).
      { induction l as [|a l IH]; intros s0; cbn [fold_left]; auto. rewrite IH. unfold requeue.
        destruct (sassoc a (l_losses s0)); reflexivity. }
      apply H.
    - cbv zeta. cbn. repeat split; auto.
  Qed.

  (* ---------------- histories ---------------- *)
  Definition J s : Prop := l_ok s = true -> P s.

  Lemma P_load s E : P (load s E) <-> P s.
  Proof. unfold P, PG. reflexivity. Qed.

  Lemma finish_J s pts : (l_err s = None -> l_ok s = true -> P s) -> J (fst (finish s pts)).
  Proof.
    unfold finish, J. destruct (l_err s) eqn:Ee; cbn [fst]; [cbn; discriminate|auto].
  Qed.

  Lemma legal_op_tell s p E : legal_op s (Tell p E) = true -> e_inb E p = true /\ hint_ok s E = true.
  Proof.
    cbn [LND.legal_op]. intros H. apply andb_true_iff in H as [H1 H2]. apply andb_true_iff in H1 as [H1 _].
    split; auto.
  Qed.

  Lemma step_J s (o : op) : J s -> legal_op s o = true -> J (fst (step s o)).
  Proof.
    intros HJ Hl. destruct o as [p E|p E|n E| |E]; cbn [LND.step].
    - apply finish_J. intros He Hok. destruct (tell_spec E (load s E) p) as (A1 & A2). cbv zeta in *.
      apply legal_op_tell in Hl as [Hi Hh]. rewrite A1 in Hok.
      destruct (A2 He Hi Hh) as [_ HP]. apply HP. apply P_load. apply HJ. exact Hok.
    - apply finish_J. intros He Hok. destruct (tellp_post E (load s E) p None) as (A1 & A2 & A3).
      destruct (A3 He) as [_ HP]. apply HP. apply P_load. apply HJ. apply A2 in Hok. exact Hok.
    - pose proof (askn_post E n (load s E) []) as (A1 & A2 & A3).
      destruct (askn E n (load s E) []) as [s' pts]. cbn [fst] in *.
      apply finish_J. intros He Hok. destruct (A3 He) as [_ HP]. apply HP. apply P_load. apply HJ. apply A2 in Hok. exact Hok.
    - apply finish_J. intros He Hok. destruct (rmu_keeps s) as (K1 & K2 & K3 & K4 & K5 & K6 & K7). cbv zeta in *.
      unfold P, PG. rewrite K1, K2, K3. apply HJ. congruence.
    - apply finish_J. intros He Hok. destruct (touch_post (load s E) E) as (A1 & A2 & A3).
      destruct (A3 He) as [_ HP]. apply HP. apply P_load. apply HJ. apply A2 in Hok. exact Hok.
  Qed.

  Lemma run_cons s (o : op) h : run s (o :: h) = run (fst (step s o)) h.
  Proof. reflexivity. Qed.

  Lemma run_J : forall (h : list op) s, J s -> legal s h = true -> J (run s h).
  Proof.
    induction h as [|o h IH]; intros s HJ Hl; [exact HJ|].
    cbn [LND.legal] in Hl. apply andb_true_iff in Hl as [H1 H2]. rewrite run_cons.
    apply IH; auto. apply step_J; auto.
  Qed.

  Theorem one_loss_per_simplex (h : list op) :
    legal (init_lnd L) h = true ->
    let s := run (init_lnd L) h in
    l_ok s = true ->
    match l_tri s with
    | Some t => (forall sp, In sp (skeys (l_losses s)) <-> In sp (simplices t)) /\ verts t = l_data s /\ Inv t
    | None => l_losses s = []
    end.
  Proof.
    intros Hl s Hok. assert (HJ : J s).
    { apply run_J; auto. intros _. unfold P, PG. reflexivity. }
    specialize (HJ Hok). unfold P, PG in HJ. destruct (l_tri s); [tauto|exact HJ].
  Qed.

  (* ---------------- loss() is the largest entry ---------------- *)
  Section LossMax.
    (* Python's < on the loss values is a strict weak order (true of floats without NaN) *)
    Hypothesis lt_trans : forall a b c, lltb a b = true -> lltb b c = true -> lltb a c = true.
    Hypothesis lt_negtrans : forall a b c, lltb a b = false -> lltb b c = false -> lltb a c = false.
    Hypothesis lt_irrefl : forall a, lltb a a = false.

    Lemma fold_max_spec : forall (l : list (simplex * L)) m0,
      let r := fold_left (fun m kv => if lltb m (snd kv) then snd kv else m) l m0 in
      (r = m0 \/ In r (map snd l)) /\ lltb r m0 = false /\ forall v, In v (map snd l) -> lltb r v = false.
    Proof.
      induction l as [|[k v] l IH]; intros m0; cbn [fold_left map snd In].
      - split; [auto|]. split; [apply lt_irrefl|tauto].
      - destruct (lltb m0 v) eqn:E.
        + destruct (IH v) as (A1 & A2 & A3). cbv zeta in *. split; [destruct A1; auto|]. split.
          * destruct (lltb (fold_left (fun m kv => if lltb m (snd kv) then snd kv else m) l v) m0) eqn:E2; auto.
            rewrite (lt_trans _ _ _ E2 E) in A2. discriminate.
          * intros x [<-|Hx]; auto.
        + destruct (IH m0) as (A1 & A2 & A3). cbv zeta in *. split; [destruct A1; auto|]. split; auto.
          intros x [<-|Hx]; auto. eapply lt_negtrans; eauto.
    Qed.

    Theorem loss_is_max s :
      match l_tri s, l_losses s with
      | Some _, _ :: _ => In (loss linf lltb s) (map snd (l_losses s)) /\
                          forall v, In v (map snd (l_losses s)) -> lltb (loss linf lltb s) v = false
      | _, _ => loss linf lltb s = linf
      end.
    Proof.
      unfold loss. destruct (l_tri s); [|reflexivity]. destruct (l_losses s) as [|[k v] r]; [reflexivity|].
      destruct (fold_max_spec r v) as (A1 & A2 & A3). cbv zeta in *. cbn [map snd In]. split.
      - destruct A1 as [->|A1]; auto.
      - intros x [<-|Hx]; auto.
    Qed.
  End LossMax.

  (* ---------------- ask: the requested number of points, free corners first ---------------- *)
  Lemma filter_drop_head (f f' : nat -> bool) c : forall l fc,
    NoDup l -> filter f l = c :: fc -> (forall x, f' x = f x && negb (x =? c)) -> filter f' l = fc.
  Proof.
    induction l as [|a l IH]; intros fc Hnd Hf Hf'; cbn [filter] in *; [discriminate|].
    inversion Hnd as [|? ? Hna Hnd']; subst.
    destruct (f a) eqn:Ea.
    - inversion Hf; subst. rewrite Hf', Ea, Nat.eqb_refl. cbn [andb negb].
      apply filter_ext_in. intros x Hx. rewrite Hf'.
      destruct (Nat.eqb_spec x c) as [->|Hne]; [contradiction|]. cbn [negb]. rewrite andb_true_r. reflexivity.
    - rewrite Hf', Ea. cbn [andb]. apply IH; auto.
  Qed.

  Lemma nat_mem_iff x l l' c : (forall y, In y l' <-> In y l \/ y = c) -> nat_mem x l' = nat_mem x l || (x =? c).
  Proof.
    intros H. destruct (nat_mem x l') eqn:E1.
    - apply nat_mem_In in E1. apply H in E1 as [E1|E1].
      + apply nat_mem_In in E1. rewrite E1. reflexivity.
      + subst. rewrite Nat.eqb_refl, orb_true_r. reflexivity.
    - destruct (nat_mem x l) eqn:E2.
      + apply nat_mem_In in E2. assert (In x l') by (apply H; auto). apply nat_mem_In in H0. congruence.
      + destruct (Nat.eqb_spec x c) as [->|Hne]; auto.
        assert (In c l') by (apply H; auto). apply nat_mem_In in H0. congruence.
  Qed.

  Lemma free_corners_after s s' c fc :
    NoDup corners -> l_data s' = l_data s -> (forall x, In x (l_pend s') <-> In x (l_pend s) \/ x = c) ->
    free_corners corners s = c :: fc -> free_corners corners s' = fc.
  Proof.
    intros Hnd Hd Hp Hf. unfold free_corners in *.
    eapply filter_drop_head; eauto. intros x. cbv beta. rewrite Hd, (nat_mem_iff x _ _ c Hp).
    destruct (nat_mem x (l_data s)), (nat_mem x (l_pend s)), (x =? c); reflexivity.
  Qed.

  Lemma askone_none E s s1 : askone E s = (s1, None) -> l_err s1 <> None.
  Proof.
    unfold ask_one. destruct (failed s) eqn:Ef.
    { intros H; inversion H; subst. intros Hc. apply failed_err in Hc. congruence. }
    destruct (free_corners corners s) as [|c fc]; [|intros H; inversion H].
    destruct (l_tri (touch E s)) as [t|].
    - destruct (pop_highest (touch E s) (l_queue (touch E s))) as [[[[loss sp] u] q']|].
      2:{ intros H; inversion H; subst. cbn. discriminate. }
      destruct (next_choice (set_queue (touch E s) q')) as [s2 p].
      destruct (failed s2) eqn:Ef2.
      + intros H; inversion H; subst. intros Hc. apply failed_err in Hc. congruence.
      + intros H; inversion H.
    - destruct (next_choice (touch E s)) as [s2 p].
      destruct (failed s2) eqn:Ef2.
      + intros H; inversion H; subst. intros Hc. apply failed_err in Hc. congruence.
      + intros H; inversion H.
  Qed.

  Lemma askone_corner E s c fc : l_err s = None -> free_corners corners s = c :: fc ->
    askone E s = (tellp E s c None, Some (c, linf)).
  Proof.
    intros He Hf. unfold ask_one. apply failed_err in He. rewrite He, Hf. reflexivity.
  Qed.

  Theorem ask_count_corners_first E :
    (forall c, In c corners -> e_inb E c = true) -> NoDup corners ->
    forall n s acc s' pts, askn E n s acc = (s', pts) -> l_err s' = None ->
    exists pts', pts = rev acc ++ pts' /\ length pts' = n /\
      let k := min n (length (free_corners corners s)) in
      firstn k pts' = map (fun c => (c, linf)) (firstn k (free_corners corners s)).
  Proof.
    intros Hinb Hnd. induction n as [|n IH]; intros s acc s' pts Hask He; cbn [ask_n] in Hask.
    { inversion Hask; subst. exists []. rewrite app_nil_r. repeat split; auto. }
    destruct (askone E s) as [s1 r] eqn:E1.
    destruct r as [x|].
    2:{ inversion Hask; subst. apply askone_none in E1. contradiction. }
    destruct (failed s1) eqn:Ef1.
    { inversion Hask; subst. apply failed_err in He. congruence. }
    destruct (IH s1 (x :: acc) s' pts Hask He) as (pts' & Hp & Hlen & Hk).
    exists (x :: pts'). split; [rewrite Hp; cbn [rev]; rewrite <- app_assoc; reflexivity|].
    split; [cbn [length]; rewrite Hlen; reflexivity|].
    destruct (free_corners corners s) as [|c fc] eqn:Efc; [rewrite Nat.min_0_r; reflexivity|].
    assert (He0 : l_err s = None).
    { pose proof (askone_post E s) as (_ & _ & A). rewrite E1 in A. cbn [fst] in A. apply A. apply failed_err. exact Ef1. }
    rewrite (askone_corner E s c fc He0 Efc) in E1. inversion E1; subst s1 x.
    assert (Hfc : free_corners corners (tellp E s c None) = fc).
    { destruct (tellp_spec E s c None) as (A1 & A2 & A3). cbv zeta in *.
      apply failed_err in Ef1. destruct (A3 Ef1) as (_ & _ & A4).
      eapply free_corners_after; eauto. intros x. rewrite A4.
      assert (Hc : In c corners).
      { assert (In c (free_corners corners s)) by (rewrite Efc; left; auto).
        unfold free_corners in H. apply filter_In in H. tauto. }
      rewrite (Hinb c Hc). tauto. }
    rewrite Hfc in Hk. cbn [length]. rewrite <- Nat.succ_min_distr. cbn [firstn map]. f_equal. exact Hk.
  Qed.

  (* ====================================================================== *)
  (* part B: the priority queue                                             *)
  (* ====================================================================== *)
  Notation qsorted := (queue_sorted rnd).

  (* [X]: simplices exempt from the completeness clause (they are being processed) *)
  Record QI (X : list simplex) s t : Prop := {
    qi_sorted : qsorted (l_queue s);
    qi_q1 : forall sp, In sp (simplices t) -> ~ In sp X -> shas sp (l_subs s) = false ->
              exists loss, sassoc sp (l_losses s) = Some loss /\ In (loss, sp, None) (l_queue s);
    qi_q3 : forall loss sp, In (loss, sp, None) (l_queue s) -> In sp (simplices t) ->
              sassoc sp (l_losses s) = Some loss;
    qi_q4 : forall loss sp u v, In (loss, sp, u) (l_queue s) -> In v sp -> v < nverts t;
    qi_q5 : forall sp, In sp (skeys (l_subs s)) -> In sp (simplices t)
  }.
  Arguments qi_sorted {X s t}. Arguments qi_q1 {X s t}. Arguments qi_q3 {X s t}.
  Arguments qi_q4 {X s t}. Arguments qi_q5 {X s t}.

  Definition QS X s : Prop :=
    match l_tri s with
    | None => l_queue s = [] /\ l_subs s = []
    | Some t => QI X s t
    end.

  Lemma QI_ext X s s' t :
    l_queue s' = l_queue s -> l_subs s' = l_subs s -> l_losses s' = l_losses s -> QI X s t -> QI X s' t.
  Proof. intros H1 H2 H3 [A B C D F]. constructor; rewrite ?H1, ?H2, ?H3; auto. Qed.

  Lemma QI_weaken X Y s t : (forall sp, In sp X -> In sp Y) -> QI X s t -> QI Y s t.
  Proof. intros H [A B C D F]. constructor; auto. Qed.

  Lemma QI_drop sp X s t : shas sp (l_subs s) = true -> QI (sp :: X) s t -> QI X s t.
  Proof.
    intros Hs [A B C D F]. constructor; auto. intros sp0 H1 H2 H3. apply B; auto.
    intros [<-|H]; [congruence|auto].
  Qed.

  Lemma shas_sset {A} k k' (v : A) l : shas k (sset k' v l) = simplex_eqb k k' || shas k l.
  Proof.
    unfold shas. destruct (simplex_eqb k k') eqn:E.
    - apply simplex_eqb_eq in E. subst. rewrite sassoc_sset_same. reflexivity.
    - rewrite sassoc_sset_other; [reflexivity|]. intros ->. rewrite simplex_eqb_refl in E. discriminate.
  Qed.

  (* (a) _update_subsimplex_losses *)
  Lemma usl_QI X E s sp news t : Inv t -> In sp (simplices t) -> QI X s t -> QI X (usl E s sp news) t.
  Proof.
    intros HI Hsp HQ. unfold update_subsimplex_losses. destruct (sassoc sp (l_losses s)) as [loss|].
    2:{ eapply QI_ext; [| | |exact HQ]; reflexivity. }
    destruct HQ as [A B C D F].
    set (f := fun u => (lmul (e_svol E sp u) (ldiv loss (e_vol E sp)), sp, Some u)).
    constructor; cbn [l_queue l_subs l_losses set_queue].
    - apply (fold_queue_add_sorted rnd f). exact A.
    - intros sp0 H1 H2 H3. destruct (B sp0 H1 H2 H3) as [l0 [G1 G2]]. exists l0. split; auto.
      apply (fold_queue_add_In rnd f). auto.
    - intros l0 sp0 Hin Hs. apply (fold_queue_add_In rnd f) in Hin as [Hin|[u [_ Hu]]]; [eauto|]. unfold f in Hu. congruence.
    - intros l0 sp0 u0 v Hin Hv. apply (fold_queue_add_In rnd f) in Hin as [Hin|[u [_ Hu]]]; [eauto|].
      unfold f in Hu. inversion Hu; subst. eapply (inv_range _ _ HI); eauto.
    - exact F.
  Qed.

  Lemma usl_queue_In E s sp news loss0 sp0 u0 :
    In (loss0, sp0, u0) (l_queue (usl E s sp news)) -> In (loss0, sp0, u0) (l_queue s) \/ (sp0 = sp /\ u0 <> None).
  Proof.
    unfold update_subsimplex_losses. destruct (sassoc sp (l_losses s)) as [loss|]; [|auto].
    cbn [l_queue set_queue]. intros H.
    apply (fold_queue_add_In rnd (fun u => (lmul (e_svol E sp u) (ldiv loss (e_vol E sp)), sp, Some u))) in H
      as [H|[u [_ Hu]]]; auto. inversion Hu; subst. right. split; auto. discriminate.
  Qed.

  (* (b) _try_adding_pending_point_to_simplex *)
  Lemma tryadd_subs E s p sp :
    l_subs (fst (tryadd E s p sp)) = l_subs s \/ exists st', l_subs (fst (tryadd E s p sp)) = sset sp st' (l_subs s).
  Proof.
    unfold try_adding. destruct (failed s); auto. destruct (l_tri s); auto.
    destruct (e_pis E p sp); cbn [negb]; auto.
    destruct (add_point d _ p None (e_sub E p sp)) as [st' o]. right. exists st'.
    destruct o as [dl ad|[]|]; reflexivity.
  Qed.

  Lemma tryadd_QI X E s p sp t : In sp (simplices t) -> QI X s t -> QI X (fst (tryadd E s p sp)) t.
  Proof.
    intros Hsp [A B C D F].
    pose proof (tryadd_keeps E s p sp) as (_ & K2 & _). pose proof (tryadd_queue E s p sp) as Kq.
    destruct (tryadd_subs E s p sp) as [Hs|[st' Hs]]; constructor; rewrite ?Kq, ?K2, ?Hs; auto.
    - intros sp0 H1 H2 H3. rewrite shas_sset in H3. apply orb_false_iff in H3 as [_ H3]. auto.
    - intros sp0 H. apply sset_keys_In in H as [->|H]; auto.
  Qed.

  Lemma fold_tryadd_QI X E sp t : In sp (simplices t) -> forall ps s,
    QI X s t -> QI X (fold_left (fun a p => fst (tryadd E a p sp)) ps s) t.
  Proof.
    intros Hsp. induction ps as [|p ps IH]; intros s HQ; cbn [fold_left]; auto.
    apply IH. apply tryadd_QI; auto.
  Qed.

  Lemma fold_tryadd_queue E sp : forall ps s, l_queue (fold_left (fun a p => fst (tryadd E a p sp)) ps s) = l_queue s.
  Proof. induction ps as [|p ps IH]; intros s; cbn [fold_left]; auto. rewrite IH. apply tryadd_queue. Qed.

  (* (c) one new simplex of _update_losses.  [todo]: new simplices not yet processed *)
  Definition fresh (todo : list simplex) s : Prop :=
    forall sp, In sp todo -> forall loss u, ~ In (loss, sp, u) (l_queue s).

  Lemma addone_QI X E ub s sp todo t :
    Inv t -> In sp (simplices t) -> ~ In sp todo ->
    QI (sp :: todo ++ X) s t -> fresh (sp :: todo) s ->
    l_err (addone E ub s sp) = None ->
    QI (todo ++ X) (addone E ub s sp) t /\ fresh todo (addone E ub s sp).
  Proof.
    intros HI Hsp Hnt HQ Hfr He. unfold add_one_simplex in *. destruct (failed s) eqn:Ef.
    { apply failed_err in He. congruence. }
    set (loss := e_loss E sp) in *.
    set (s1 := set_losses s (sset sp loss (l_losses s))) in *.
    assert (HQ1 : QI (sp :: todo ++ X) s1 t).
    { destruct HQ as [A B C D F]. constructor; cbn [l_queue l_subs l_losses s1 set_losses]; auto.
      - intros sp0 H1 H2 H3. destruct (B sp0 H1 H2 H3) as [l0 [G1 G2]]. exists l0. split; auto.
        rewrite sassoc_sset_other; auto. intros ->. apply H2. left; auto.
      - intros l0 sp0 Hin Hs. rewrite sassoc_sset_other; [eauto|]. intros ->.
        apply (Hfr sp (or_introl eq_refl) l0 None). exact Hin. }
    set (s2 := fold_left (fun a p => fst (tryadd E a p sp)) ub s1) in *.
    assert (HQ2 : QI (sp :: todo ++ X) s2 t) by (apply fold_tryadd_QI; auto).
    assert (Hq2 : l_queue s2 = l_queue s) by (unfold s2; rewrite fold_tryadd_queue; reflexivity).
    pose proof (fold_tryadd_keeps E sp ub s1) as (_ & K2 & _). fold s2 in K2. cbn [l_losses s1 set_losses] in K2.
    destruct (failed s2) eqn:Ef2. { apply failed_err in He. congruence. }
    destruct (sassoc sp (l_subs s2)) as [st|] eqn:Es.
    - split.
      + apply QI_drop with (sp := sp); [|apply usl_QI; auto]. rewrite usl_subs. unfold shas. rewrite Es. reflexivity.
      + intros sp0 H0 l0 u0 Hin. apply usl_queue_In in Hin as [Hin|[-> _]]; [|contradiction].
        rewrite Hq2 in Hin. eapply Hfr; [right; exact H0|exact Hin].
    - split.
      + destruct HQ2 as [A B C D F]. constructor; cbn [l_queue l_subs l_losses set_queue].
        * apply queue_add_sorted. exact A.
        * intros sp0 H1 H2 H3. destruct (In_dec_s sp0 [sp]) as [[<-|[]]|Hne].
          -- exists loss. split; [rewrite K2; apply sassoc_sset_same|]. apply queue_add_In. auto.
          -- destruct (B sp0 H1) as [l0 [G1 G2]]; auto.
             { intros [<-|H]; [apply Hne; left; auto|auto]. }
             exists l0. split; auto. apply queue_add_In. auto.
        * intros l0 sp0 Hin Hs. apply queue_add_In in Hin as [Hin|Hin]; [|eauto].
          inversion Hin; subst. rewrite K2. apply sassoc_sset_same.
        * intros l0 sp0 u0 v Hin Hv. apply queue_add_In in Hin as [Hin|Hin]; [|eauto].
          inversion Hin; subst. eapply (inv_range _ _ HI); eauto.
        * exact F.
      + intros sp0 H0 l0 u0 Hin. cbn [l_queue set_queue] in Hin. apply queue_add_In in Hin as [Hin|Hin].
        * inversion Hin; subst. contradiction.
        * rewrite Hq2 in Hin. eapply Hfr; [right; exact H0|exact Hin].
  Qed.

  Lemma fold_addone_QI X E ub t : Inv t -> forall todo s,
    NoDup todo -> (forall sp, In sp todo -> In sp (simplices t)) ->
    QI (todo ++ X) s t -> fresh todo s ->
    l_err (fold_left (addone E ub) todo s) = None ->
    QI X (fold_left (addone E ub) todo s) t.
  Proof.
    intros HI. induction todo as [|sp todo IH]; intros s Hnd Hin HQ Hfr He; cbn [fold_left app] in *; auto.
    inversion Hnd as [|? ? Hn1 Hn2]; subst.
    assert (He1 : l_err (addone E ub s sp) = None).
    { destruct (fold_addone_spec E ub todo (addone E ub s sp)) as (_ & _ & _ & _ & A). cbv zeta in A. apply A; auto. }
    destruct (addone_QI X E ub s sp todo t HI (Hin sp (or_introl eq_refl)) Hn1 HQ Hfr He1) as [G1 G2].
    apply IH; auto. intros sp0 H0. apply Hin. right; auto.
  Qed.

  Lemma updl_QI X E s del add t :
    let s1 := set_subs (set_losses s (fold_left (fun a sp => sdel sp a) del (l_losses s)))
                       (fold_left (fun a sp => sdel sp a) del (l_subs s)) in
    Inv t -> (forall sp, In sp add -> In sp (simplices t)) ->
    QI (add ++ X) s1 t -> fresh add s ->
    l_err (updl E s del add) = None -> QI X (updl E s del add) t.
  Proof.
    intros s1 HI Hadd HQ Hfr He. unfold update_losses in *. fold s1 in He |- *.
    destruct (dedup_spec add) as [Hd1 Hd2].
    apply fold_addone_QI; auto.
    - intros sp H. apply Hadd, Hd1, H.
    - eapply QI_weaken; [|exact HQ]. intros sp H. apply in_app_iff in H as [H|H]; apply in_app_iff; [left; apply Hd1|right]; auto.
    - intros sp H. apply Hd1 in H. exact (Hfr sp H).
  Qed.

  (* (d) the [tri] property *)
  Lemma touch_QS X E s : QS X s -> l_err (touch E s) = None -> QS X (touch E s).
  Proof.
    intros HQ He. unfold LND.touch in *. destruct (failed s) eqn:Ef; auto.
    destruct (l_tri s) as [t0|] eqn:Et; auto.
    destruct (l_tris s) as [|[ss|] r] eqn:Er; [auto| |].
    - destruct (wf_simplices (length (l_data s)) ss) eqn:Ew; cbn [negb] in *; [|discriminate].
      set (t := init (l_data s) ss) in *.
      set (s0 := set_tri (set_tris s r) (Some t)) in *.
      destruct (updl_spec E s0 [] (simplices t)) as (A1 & _). cbv zeta in A1.
      unfold QS in *. rewrite A1. cbn [l_tri s0 set_tri]. rewrite Et in HQ. destruct HQ as [Hq Hs].
      pose proof (wf_simplices_spec _ _ Ew) as Hw.
      apply updl_QI; auto.
      + apply init_Inv. exact Hw.
      + cbn [fold_left]. constructor; cbn [l_queue l_subs l_losses set_subs set_losses s0 set_tri set_tris]; rewrite ?Hq, ?Hs.
        * constructor.
        * intros sp H1 H2. exfalso. apply H2. apply in_app_iff. auto.
        * intros l0 sp [].
        * intros l0 sp u v [].
        * intros sp [].
      + intros sp _ l0 u. cbn [l_queue s0 set_tri set_tris]. rewrite Hq. intros [].
    - unfold QS in *. cbn [l_tri set_tris]. rewrite Et in *. exact HQ.
  Qed.

  (* (e) _recompute_all_losses *)
  Record RI E (done : list simplex) s t (subs0 : list (simplex * tri nat)) : Prop := {
    ri_sorted : qsorted (l_queue s);
    ri_live : forall loss sp u, In (loss, sp, u) (l_queue s) -> In sp (simplices t);
    ri_none : forall loss sp, In (loss, sp, None) (l_queue s) -> loss = e_loss E sp /\ In sp done;
    ri_loss : forall sp, In sp done -> sassoc sp (l_losses s) = Some (e_loss E sp);
    ri_q1 : forall sp, In sp done -> shas sp subs0 = false -> In (e_loss E sp, sp, None) (l_queue s);
    ri_subs : l_subs s = subs0
  }.

  Lemma recone_RI E done s sp t subs0 :
    Inv t -> In sp (simplices t) -> RI E done s t subs0 -> l_err (recone E s sp) = None ->
    RI E (sp :: done) (recone E s sp) t subs0.
  Proof.
    intros HI Hsp [A B C D F G] He. unfold recompute_one in *. destruct (failed s) eqn:Ef.
    { apply failed_err in He. congruence. }
    cbn [l_subs set_losses] in *.
    assert (HD : forall sp0, In sp0 (sp :: done) ->
              sassoc sp0 (sset sp (e_loss E sp) (l_losses s)) = Some (e_loss E sp0)).
    { intros sp0 H0. destruct (In_dec_s sp0 [sp]) as [[<-|[]]|Hne]; [apply sassoc_sset_same|].
      rewrite sassoc_sset_other; [|intros ->; apply Hne; left; auto]. apply D. destruct H0 as [<-|H0]; auto.
      exfalso. apply Hne. left; auto. }
    destruct (sassoc sp (l_subs s)) as [st|] eqn:Es.
    - set (s1 := set_losses s (sset sp (e_loss E sp) (l_losses s))) in *.
      pose proof (usl_keeps E s1 sp (simplices st)) as (_ & K2 & _).
      constructor.
      + unfold update_subsimplex_losses. destruct (sassoc sp (l_losses s1)); [|exact A].
        cbn [l_queue set_queue]. apply (fold_queue_add_sorted rnd (fun u => (_, sp, Some u))). exact A.
      + intros l0 sp0 u0 Hin. apply usl_queue_In in Hin as [Hin|[-> _]]; eauto.
      + intros l0 sp0 Hin. apply usl_queue_In in Hin as [Hin|[_ Hc]]; [|congruence].
        destruct (C _ _ Hin). split; auto. right; auto.
      + intros sp0 H0. rewrite K2. apply HD. exact H0.
      + intros sp0 H0 H1. destruct H0 as [<-|H0].
        * rewrite <- G in H1. unfold shas in H1. rewrite Es in H1. discriminate.
        * unfold update_subsimplex_losses. destruct (sassoc sp (l_losses s1)); [|apply F; auto].
          cbn [l_queue set_queue]. apply (fold_queue_add_In rnd (fun u => (_, sp, Some u))). left. apply F; auto.
      + rewrite usl_subs. exact G.
    - constructor; cbn [l_queue l_losses l_subs set_queue set_losses].
      + apply queue_add_sorted. exact A.
      + intros l0 sp0 u0 Hin. apply queue_add_In in Hin as [Hin|Hin]; [inversion Hin; subst; auto|eauto].
      + intros l0 sp0 Hin. apply queue_add_In in Hin as [Hin|Hin].
        * inversion Hin; subst. split; auto. left; auto.
        * destruct (C _ _ Hin). split; auto. right; auto.
      + exact HD.
      + intros sp0 H0 H1. apply queue_add_In. destruct H0 as [<-|H0]; auto.
      + exact G.
  Qed.

  Lemma fold_recone_RI E t subs0 : Inv t -> forall l done s,
    (forall sp, In sp l -> In sp (simplices t)) -> RI E done s t subs0 ->
    l_err (fold_left (recone E) l s) = None ->
    RI E (rev l ++ done) (fold_left (recone E) l s) t subs0.
  Proof.
    intros HI. induction l as [|sp l IH]; intros done s Hl HR He; cbn [fold_left rev app] in *; auto.
    assert (He1 : l_err (recone E s sp) = None).
    { destruct (fold_recone_spec E l (recone E s sp)) as (_ & _ & _ & _ & A). cbv zeta in A. apply A; auto. }
    rewrite <- app_assoc. cbn [app]. apply IH; auto.
    - intros sp0 H0. apply Hl. right; auto.
    - apply recone_RI; auto. apply Hl. left; auto.
  Qed.

  Lemma recall_QS X E s dl : QS X s -> (l_tri s = None -> dl = l_data s) -> PG dl s ->
    l_err (recall E s) = None -> QS X (recall E s).
  Proof.
    intros HQ Hd HP He. unfold recompute_all in *.
    assert (Het : l_err (touch E s) = None).
    { destruct (l_tri (touch E s)) as [t|]; auto.
      destruct (fold_recone_spec E (simplices t) (set_queue (touch E s) [])) as (_ & _ & _ & _ & A). cbv zeta in A.
      apply A in He. tauto. }
    pose proof (touch_QS X E s HQ Het) as HQ1.
    pose proof (touch_PG dl s E Het Hd HP) as HP1.
    destruct (l_tri (touch E s)) as [t|] eqn:Et; auto.
    unfold PG in HP1. rewrite Et in HP1. destruct HP1 as (HI & _ & _).
    unfold QS in HQ1. rewrite Et in HQ1.
    destruct (fold_recone_spec E (simplices t) (set_queue (touch E s) [])) as (A1 & _). cbv zeta in A1.
    unfold QS. rewrite A1. cbn [l_tri set_queue]. rewrite Et.
    pose proof (fold_recone_RI E t (l_subs (touch E s)) HI (simplices t) [] (set_queue (touch E s) [])) as HR.
    rewrite app_nil_r in HR. destruct HR as [A B C D F G]; auto.
    { constructor; cbn [l_queue l_subs l_losses set_queue]; auto; try constructor;
        intros; cbn [In] in *; tauto. }
    constructor; auto.
    - intros sp H1 H2 H3. exists (e_loss E sp). rewrite G in H3. split; [apply D|apply F]; auto; apply in_rev; rewrite rev_involutive; auto.
    - intros l0 sp Hin Hs. destruct (C _ _ Hin) as [-> Hd0]. apply D. exact Hd0.
    - intros l0 sp u v Hin Hv. eapply (inv_range _ _ HI); eauto.
    - rewrite G. apply (qi_q5 HQ1).
  Qed.

  (* (f) tell_pending *)
  Lemma tellp_loop_QI X E p t : Inv t -> forall nbs s,
    (forall sp, In sp nbs -> In sp (simplices t)) -> QI X s t ->
    QI X (fold_left (fun a sp => let '(a', r) := tryadd E a p sp in
                                 match r with Some add => usl E a' sp add | None => a' end) nbs s) t.
  Proof.
    intros HI. induction nbs as [|sp nbs IH]; intros s Hn HQ; cbn [fold_left]; auto.
    apply IH; [intros sp0 H0; apply Hn; right; auto|].
    pose proof (tryadd_QI X E s p sp t (Hn sp (or_introl eq_refl)) HQ) as H1.
    destruct (tryadd E s p sp) as [a' r]. cbn [fst] in H1.
    destruct r; auto. apply usl_QI; auto. apply Hn. left; auto.
  Qed.

  Lemma dedup_In l x : In x (dedup l) <-> In x l.
  Proof. destruct (dedup_spec l) as [H _]. apply H. Qed.

  Lemma tellp_QS X E s p hint : QS X s -> P s -> l_err (tellp E s p hint) = None -> QS X (tellp E s p hint).
  Proof.
    intros HQ HP He. unfold tell_pending in *. destruct (failed s) eqn:Ef; auto.
    destruct (e_inb E p); cbn [negb] in *; auto.
    set (s0 := set_pend s (nat_insert p (l_pend s))) in *.
    assert (HQ0 : QS X s0).
    { unfold QS in *. cbn [l_tri s0 set_pend]. destruct (l_tri s); auto. eapply QI_ext; [| | |exact HQ]; reflexivity. }
    assert (HP0 : P s0) by exact HP.
    assert (Het : l_err (touch E s0) = None).
    { destruct (l_tri (touch E s0)) as [t|]; auto.
      destruct (match hint with Some h => h | None => e_locate E p end); auto.
      match type of He with l_err (fold_left ?f ?l ?a) = None => pose proof (tellp_loop_keeps E p l a) as K end.
      destruct K as (_ & _ & _ & _ & _ & K6). auto. }
    pose proof (touch_QS X E s0 HQ0 Het) as HQ1.
    destruct (touch_post s0 E) as (_ & _ & A3). destruct (A3 Het) as [_ HP1]. specialize (HP1 HP0).
    destruct (l_tri (touch E s0)) as [t|] eqn:Et; auto.
    destruct (match hint with Some h => h | None => e_locate E p end) as [|v0 sx] eqn:Eh; auto.
    unfold P, PG in HP1. rewrite Et in HP1. destruct HP1 as (HI & _ & _).
    match goal with |- QS X (fold_left ?f ?l ?a) => pose proof (tellp_loop_keeps E p l a) as K end.
    destruct K as (K1 & _). unfold QS. rewrite K1, Et. unfold QS in HQ1. rewrite Et in HQ1.
    apply tellp_loop_QI; auto.
    intros sp Hsp. apply (proj1 (dedup_In _ _)) in Hsp. apply in_flat_map in Hsp as [i [_ Hsp]].
    apply (inv_index _ _ HI) in Hsp. tauto.
  Qed.

  Lemma QS_ext X s s' : l_tri s' = l_tri s -> l_queue s' = l_queue s -> l_subs s' = l_subs s ->
    l_losses s' = l_losses s -> QS X s -> QS X s'.
  Proof.
    intros H0 H1 H2 H3 H. unfold QS in *. rewrite H0. destruct (l_tri s); [eapply QI_ext; eauto|].
    rewrite H1, H2. exact H.
  Qed.

  (* (g) ask *)
  Lemma pop_spec s : forall q e q', pop_highest s q = Some (e, q') ->
    exists pre, q = pre ++ e :: q' /\ valid_entry s e = true /\ forall x, In x pre -> valid_entry s x = false.
  Proof.
    induction q as [|x q IH]; intros e q' H; cbn [pop_highest] in H; [discriminate|].
    destruct (valid_entry s x) eqn:Ev.
    - inversion H; subst. exists []. repeat split; auto. intros y [].
    - destruct (IH _ _ H) as (pre & -> & H1 & H2). exists (x :: pre). repeat split; auto.
      intros y [<-|Hy]; auto.
  Qed.

  Lemma pop_none s : forall q, pop_highest s q = None -> forall x, In x q -> valid_entry s x = false.
  Proof.
    induction q as [|y q IH]; intros H x Hx; cbn [pop_highest In] in *; [tauto|].
    destruct (valid_entry s y) eqn:Ev; [discriminate|]. destruct Hx as [<-|Hx]; auto.
  Qed.

  Lemma askone_QS E s : QS [] s -> P s ->
    l_err (fst (askone E s)) = None -> l_ok (fst (askone E s)) = true -> QS [] (fst (askone E s)).
  Proof.
    intros HQ HP. unfold ask_one. destruct (failed s) eqn:Ef; [auto|].
    destruct (free_corners corners s) as [|c fc].
    2:{ cbn [fst]. intros He _. apply tellp_QS; auto. }
    destruct (touch_post s E) as (_ & _ & T3).
    destruct (l_tri (touch E s)) as [t|] eqn:Et.
    - destruct (pop_highest (touch E s) (l_queue (touch E s))) as [[[[loss sp] u] q']|] eqn:Epop.
      2:{ cbn [fst]. intros He. discriminate. }
      unfold next_choice. cbn [l_choose set_queue].
      destruct (l_choose (touch E s)) as [|p r].
      { cbn [fst failed l_err set_err]. intros He. discriminate. }
      set (s1 := set_choose (set_queue (touch E s) q') r).
      destruct (failed s1) eqn:Ef1.
      { cbn [fst]. intros He. apply failed_err in He. congruence. }
      assert (Het : l_err (touch E s) = None) by (apply failed_err in Ef1; exact Ef1).
      destruct (T3 Het) as [_ HP1]. specialize (HP1 HP).
      pose proof (touch_QS [] E s HQ Het) as HQ1. unfold QS in HQ1. rewrite Et in HQ1.
      destruct (pop_spec _ _ _ _ Epop) as (pre & Hq & Hv & Hpre).
      set (X1 := match u with None => [sp] | Some _ => [] end).
      assert (HQ2 : QS X1 s1).
      { unfold QS. cbn [l_tri s1 set_choose set_queue]. rewrite Et.
        destruct HQ1 as [A B C D F]. rewrite Hq in *.
        constructor; cbn [l_queue l_subs l_losses s1 set_choose set_queue].
        - apply (sorted_app_inv rnd pre (loss, sp, u) q' A).
        - intros sp0 H1 H2 H3. destruct (B sp0 H1) as [l0 [G1 G2]]; auto.
          exists l0. split; auto. apply in_app_iff in G2 as [G2|[G2|G2]]; auto.
          + apply Hpre in G2. cbn [valid_entry] in G2. unfold cur_simplices in G2. rewrite Et in G2.
            apply smem_In in H1. rewrite H1, H3 in G2. discriminate.
          + inversion G2; subst. exfalso. apply H2. left; auto.
        - intros l0 sp0 Hin Hs. apply C; auto. apply in_app_iff. right. right. auto.
        - intros l0 sp0 u0 v Hin Hv0. eapply D; eauto. apply in_app_iff. right. right. eauto.
        - exact F. }
      assert (HP2 : P s1) by exact HP1.
      assert (Hstep : l_err (tellp E s1 p (Some sp)) = None -> QS X1 (tellp E s1 p (Some sp))).
      { intros He. apply tellp_QS; auto. }
      destruct u as [sub|]; cbn [fst].
      + intros He _. apply Hstep. exact He.
      + destruct (shas sp (l_subs (tellp E s1 p (Some sp)))) eqn:Esh.
        * intros He _. specialize (Hstep He). unfold QS in *. destruct (l_tri (tellp E s1 p (Some sp))); auto.
          eapply QI_drop; eauto.
        * cbn [l_ok set_ok]. intros _ Hc. discriminate.
    - unfold next_choice. destruct (l_choose (touch E s)) as [|p r].
      { cbn [fst failed l_err set_err]. intros He. discriminate. }
      set (s1 := set_choose (touch E s) r).
      destruct (failed s1) eqn:Ef1.
      { cbn [fst]. intros He. apply failed_err in He. congruence. }
      assert (Het : l_err (touch E s) = None) by (apply failed_err in Ef1; exact Ef1).
      destruct (T3 Het) as [_ HP1]. specialize (HP1 HP).
      pose proof (touch_QS [] E s HQ Het) as HQ1.
      cbn [fst]. intros He _. apply tellp_QS; auto.
      eapply QS_ext; [| | | |exact HQ1]; reflexivity.
  Qed.

  Lemma askn_QS E : forall n s acc, QS [] s -> P s ->
    l_err (fst (askn E n s acc)) = None -> l_ok (fst (askn E n s acc)) = true -> QS [] (fst (askn E n s acc)).
  Proof.
    induction n as [|n IH]; intros s acc HQ HP; cbn [ask_n]; [auto|].
    pose proof (askone_QS E s HQ HP) as A. pose proof (askone_post E s) as (B1 & B2 & B3).
    destruct (askone E s) as [s1 r]. cbn [fst] in *.
    destruct r as [x|]; [|exact A].
    destruct (failed s1) eqn:Ef; [exact A|].
    intros He Hok. pose proof (askn_post E n s1 (x :: acc)) as (C1 & C2 & C3).
    destruct (C3 He) as [He1 _]. specialize (C2 Hok).
    apply IH; auto. destruct (B3 He1) as [_ HP1]. auto.
  Qed.

  (* (h) tell *)
  Lemma sassoc_fold_sdel {A} del : forall (l : list (simplex * A)) k, ~ In k del ->
    sassoc k (fold_left (fun a sp => sdel sp a) del l) = sassoc k l.
  Proof.
    induction del as [|x del IH]; intros l k Hk; cbn [fold_left]; auto.
    rewrite IH; [|intros H; apply Hk; right; auto]. apply sassoc_sdel_other. intros ->. apply Hk. left; auto.
  Qed.

  Lemma tell_QS E s p : QS [] s -> P s -> e_inb E p = true -> hint_ok s E = true ->
    l_err (tell E s p) = None -> QS [] (tell E s p).
  Proof.
    intros HQ HP Hi Hh. unfold LND.tell. destruct (nat_mem p (l_data s)) eqn:Em; [auto|].
    set (s0 := set_pend s (nat_remove p (l_pend s))).
    assert (HQ0 : QS [] s0) by (eapply QS_ext; [| | | |exact HQ]; reflexivity).
    assert (HP0 : P s0) by exact HP.
    pose proof (touch_data s0 E) as [D1 D2].
    set (s1 := touch E s0) in *.
    set (s2 := set_data s1 (l_data s1 ++ [p])).
    rewrite Hi. cbn [negb].
    set (s3 := if e_rescale E then recall E s2 else s2).
    destruct (l_tri s1) as [t|] eqn:Et1.
    - cbn [negb].
      assert (H3 : l_err s3 = None -> l_err s1 = None /\ PG (l_data s1) s3 /\ QS [] s3 /\ l_tri s3 = Some t).
      { intros He3. unfold s3 in *. destruct (e_rescale E).
        - destruct (recall_spec (l_data s1) s2 E) as (_ & _ & _ & A4). cbv zeta in A4.
          destruct (A4 He3) as (He2 & B4 & B5).
          assert (HP1 : PG (l_data s1) s1).
          { rewrite D1. unfold s1. apply touch_PG; [exact He2|intros _; reflexivity|exact HP0]. }
          assert (HQ1 : QS [] s1) by (unfold s1; apply touch_QS; [exact HQ0|exact He2]).
          split; [exact He2|]. split; [apply B4; [intros Hn; cbn in Hn; congruence|exact HP1]|].
          split; [|apply B5; exact Et1].
          apply (recall_QS [] E s2 (l_data s1)); auto.
          + eapply QS_ext; [| | | |exact HQ1]; reflexivity.
          + intros Hn. cbn in Hn. congruence.
        - assert (HP1 : PG (l_data s1) s1).
          { rewrite D1. unfold s1. apply touch_PG; [exact He3|intros _; reflexivity|exact HP0]. }
          assert (HQ1 : QS [] s1) by (unfold s1; apply touch_QS; [exact HQ0|exact He3]).
          split; [exact He3|]. split; [exact HP1|]. split; [|exact Et1].
          eapply QS_ext; [| | | |exact HQ1]; reflexivity. }
      destruct (l_tri s3) as [t3|] eqn:Et3.
      2:{ intros He. destruct (H3 He) as (_ & _ & _ & Hc). discriminate. }
      destruct (add_point d t3 p (e_hint E) (e_main E)) as [t' o] eqn:Eadd.
      destruct o as [dl ad|why|]; [|destruct why; intros He; discriminate|intros He; discriminate].
      intros He.
      destruct (updl_spec E (set_tri s3 (Some t')) dl ad) as (U1 & _ & _ & _ & U5). cbv zeta in *.
      destruct (U5 He) as [He3 _]. cbn [l_err set_tri] in He3.
      destruct (H3 He3) as (He1 & HP3 & HQ3 & Ht3). assert (t3 = t) by congruence. subst t3.
      unfold PG in HP3. rewrite Et3 in HP3. destruct HP3 as (I1 & I2 & I3).
      unfold QS in HQ3. rewrite Et3 in HQ3. destruct HQ3 as [A B C D F].
      assert (Hleg : Tri.legal_op t (AddPoint p (e_hint E) (e_main E)) = true).
      { destruct (l_tri s) as [ts|] eqn:Ets.
        - assert (ts = t) by (unfold s1 in Et1; rewrite (touch_tri_some s0 E ts Ets) in Et1; cbn in Et1; congruence).
          subst ts. eapply hint_ok_legal; eauto.
        - unfold hint_ok, cur_simplices in Hh. rewrite Ets in Hh. cbn [Tri.legal_op].
          destruct (e_hint E) as [[|x sp]|]; try discriminate.
          destruct (o_locate (e_main E)); [reflexivity|discriminate]. }
      destruct (add_point_spec nat d t p (e_hint E) (e_main E) t' (Accepted dl ad) I1 Hleg Eadd) as (J1 & [Jd Ja] & J3 & J4).
      assert (Hnv : nverts t' = S (nverts t)).
      { unfold nverts. rewrite J3, app_length. cbn [length]. lia. }
      assert (Hold : forall sp, In sp (simplices t') -> ~ In sp ad -> In sp (simplices t) /\ ~ In sp dl).
      { intros sp H1 H2. assert (In sp (simplices t)).
        { destruct (In_dec_s sp (simplices t)); auto. exfalso. apply H2. apply Ja. auto. }
        split; auto. intros Hc. apply Jd in Hc. tauto. }
      assert (Hnew : forall l0 sp u0, In (l0, sp, u0) (l_queue s3) -> ~ In sp ad).
      { intros l0 sp u0 Hin Hc. apply J4 in Hc. pose proof (D _ _ _ _ Hin Hc). lia. }
      unfold QS. rewrite U1. cbn [l_tri set_tri].
      apply updl_QI; auto.
      + intros sp H. apply Ja in H. tauto.
      + rewrite app_nil_r. constructor; cbn [l_queue l_subs l_losses set_subs set_losses set_tri].
        * exact A.
        * intros sp H1 H2 Hsh. destruct (Hold sp H1 H2) as [G1 G2].
          destruct (B sp G1) as [l0 [G3 G4]]; [intros []| |].
          { unfold shas in *. rewrite sassoc_fold_sdel in Hsh; auto. }
          exists l0. split; auto. rewrite sassoc_fold_sdel; auto.
        * intros l0 sp Hin Hs. destruct (Hold sp Hs (Hnew _ _ _ Hin)) as [G1 G2].
          rewrite sassoc_fold_sdel; auto.
        * intros l0 sp u0 v Hin Hv. pose proof (D _ _ _ _ Hin Hv). lia.
        * intros sp H. apply fold_sdel_keys_In in H as [H1 H2]. apply F in H1.
          destruct (In_dec_s sp (simplices t')); auto. exfalso. apply H2. apply Jd. auto.
      + intros sp H l0 u0 Hin. cbn [l_queue set_tri] in Hin. exact (Hnew _ _ _ Hin H).
    - cbn [negb]. intros He.
      assert (He2 : l_err s2 = None).
      { unfold s3 in He. destruct (e_rescale E); auto.
        destruct (recall_spec (l_data s2) s2 E) as (_ & _ & _ & A4). cbv zeta in A4. apply A4 in He. tauto. }
      assert (HQ1 : QS [] s1) by (unfold s1; apply touch_QS; [exact HQ0|exact He2]).
      assert (HQ2 : QS [] s2) by (eapply QS_ext; [| | | |exact HQ1]; reflexivity).
      unfold s3 in *. destruct (e_rescale E); auto.
      apply (recall_QS [] E s2 (l_data s2)); auto.
      unfold PG. cbn [l_tri s2 set_data l_losses]. rewrite Et1.
      assert (HP1 : PG (l_data s1) s1) by (rewrite D1; unfold s1; apply touch_PG; [exact He2|intros _; reflexivity|exact HP0]).
      unfold PG in HP1. rewrite Et1 in HP1. exact HP1.
  Qed.

  (* (i) remove_unfinished of the repaired code *)
  Lemma requeue_QI X s sp t : Inv t -> In sp (simplices t) -> QI X s t -> QI X (requeue rnd s sp) t.
  Proof.
    intros HI Hsp [A B C D F]. unfold requeue. destruct (sassoc sp (l_losses s)) as [loss|] eqn:El.
    2:{ constructor; auto. }
    constructor; cbn [l_queue l_subs l_losses set_queue]; auto.
    - apply queue_add_sorted. exact A.
    - intros sp0 H1 H2 H3. destruct (B sp0 H1 H2 H3) as [l0 [G1 G2]]. exists l0. split; auto. apply queue_add_In. auto.
    - intros l0 sp0 Hin Hs. apply queue_add_In in Hin as [Hin|Hin]; [inversion Hin; subst; exact El|eauto].
    - intros l0 sp0 u0 v Hin Hv. apply queue_add_In in Hin as [Hin|Hin]; [|eauto].
      inversion Hin; subst. eapply (inv_range _ _ HI); eauto.
  Qed.

  Lemma fold_requeue_QI X t : Inv t -> forall l s, (forall sp, In sp l -> In sp (simplices t)) -> QI X s t ->
    QI X (fold_left (requeue rnd) l s) t /\
    (forall sp loss, In sp l -> sassoc sp (l_losses s) = Some loss -> In (loss, sp, None) (l_queue (fold_left (requeue rnd) l s))).
  Proof.
    intros HI. induction l as [|a l IH]; intros s Hl HQ; cbn [fold_left]; [split; [auto|intros sp loss []]|].
    destruct (IH (requeue rnd s a)) as [G1 G2].
    { intros sp H. apply Hl. right; auto. }
    { apply requeue_QI; auto. apply Hl. left; auto. }
    split; auto. intros sp loss [->|Hin] Hs.
    - assert (Hin : In (loss, sp, None) (l_queue (requeue rnd s sp))).
      { unfold requeue. rewrite Hs. cbn [l_queue set_queue]. apply queue_add_In. auto. }
      clear - Hin. revert Hin. generalize (requeue rnd s sp). induction l as [|b l IHl]; intros s0 Hin; cbn [fold_left]; auto.
      apply IHl. unfold requeue. destruct (sassoc b (l_losses s0)); auto. cbn [l_queue set_queue]. apply queue_add_In. auto.
    - apply G2; auto. destruct (requeue_keeps s a) as (_ & K2 & _). rewrite K2. exact Hs.
  Qed.

  Hypothesis Hrep : repaired = true.

  Lemma rmu_QS s : QS [] s -> P s -> QS [] (rmu s).
  Proof.
    intros HQ HP. unfold remove_unfinished. rewrite Hrep.
    pose proof (fold_requeue_keeps (skeys (l_subs s)) s) as (K1 & K2 & _).
    unfold QS in *. cbn [l_tri set_subs set_pend l_queue l_subs]. rewrite K1.
    destruct (l_tri s) as [t|] eqn:Et.
    - unfold P, PG in HP. rewrite Et in HP. destruct HP as (HI & Hk & _).
      destruct (fold_requeue_QI [] t HI (skeys (l_subs s)) s (qi_q5 HQ) HQ) as [[A B C D F] G2].
      constructor; cbn [l_queue l_subs l_losses set_subs set_pend]; auto.
      + intros sp H1 H2 _. destruct (shas sp (l_subs s)) eqn:Es.
        * assert (Hin : In sp (skeys (l_losses s))) by (apply Hk; auto).
          apply sassoc_keys in Hin as [loss Hl]. exists loss. rewrite K2. split; auto.
          apply G2; auto. apply shas_keys. exact Es.
        * pose proof (fold_requeue_keeps (skeys (l_subs s)) s) as K.
          assert (Hs' : shas sp (l_subs (fold_left (requeue rnd) (skeys (l_subs s)) s)) = false).
          { assert (Hsub : forall l s0, l_subs (fold_left (requeue rnd) l s0) = l_subs s0).
            { induction l as [|b l IHl]; intros s0; cbn [fold_left]; auto. rewrite IHl. unfold requeue.
              destruct (sassoc b (l_losses s0)); reflexivity. }
            rewrite Hsub. exact Es. }
          apply B; auto.
      + intros sp [].
    - destruct HQ as [Hq Hs]. rewrite Hs. cbn [skeys map fold_left]. auto.
  Qed.

  (* ---------------- histories ---------------- *)
  Definition J2 s : Prop := l_ok s = true -> P s /\ QS [] s.

  Lemma QS_load X s E : QS X (load s E) <-> QS X s.
  Proof. split; intros H; (eapply QS_ext; [| | | |exact H]; reflexivity). Qed.

  Lemma finish_J2 s pts : (l_err s = None -> l_ok s = true -> P s /\ QS [] s) -> J2 (fst (finish s pts)).
  Proof.
    unfold finish, J2. destruct (l_err s) eqn:Ee; cbn [fst]; [cbn; discriminate|auto].
  Qed.

  Lemma step_J2 s (o : op) : J2 s -> legal_op s o = true -> J2 (fst (step s o)).
  Proof.
    intros HJ Hl. destruct o as [p E|p E|n E| |E]; cbn [LND.step].
    - apply finish_J2. intros He Hok. destruct (tell_spec E (load s E) p) as (A1 & A2). cbv zeta in *.
      apply legal_op_tell in Hl as [Hi Hh]. rewrite A1 in Hok. destruct (HJ Hok) as [HP HQ].
      destruct (A2 He Hi Hh) as [_ HP']. split; [apply HP'; apply P_load; exact HP|].
      apply tell_QS; auto. apply QS_load. exact HQ.
    - apply finish_J2. intros He Hok. destruct (tellp_post E (load s E) p None) as (A1 & A2 & A3).
      destruct (A3 He) as [_ HP']. apply A2 in Hok. destruct (HJ Hok) as [HP HQ].
      split; [apply HP'; apply P_load; exact HP|]. apply tellp_QS; auto. apply QS_load. exact HQ.
    - pose proof (askn_post E n (load s E) []) as (A1 & A2 & A3).
      pose proof (askn_QS E n (load s E) []) as AQ.
      destruct (askn E n (load s E) []) as [s' pts]. cbn [fst] in *.
      apply finish_J2. intros He Hok. destruct (A3 He) as [_ HP']. destruct (HJ (A2 Hok)) as [HP HQ].
      split; [apply HP'; apply P_load; exact HP|]. apply AQ; auto. apply QS_load. exact HQ.
    - apply finish_J2. intros He Hok. destruct (rmu_keeps s) as (K1 & K2 & K3 & K4 & K5 & K6 & K7). cbv zeta in *.
      rewrite K4 in Hok. destruct (HJ Hok) as [HP HQ]. split; [|apply rmu_QS; auto].
      unfold P, PG. rewrite K1, K2, K3. exact HP.
    - apply finish_J2. intros He Hok. destruct (touch_post (load s E) E) as (A1 & A2 & A3).
      destruct (A3 He) as [_ HP']. destruct (HJ (A2 Hok)) as [HP HQ].
      split; [apply HP'; apply P_load; exact HP|]. apply touch_QS; auto. apply QS_load. exact HQ.
  Qed.

  Lemma run_J2 : forall (h : list op) s, J2 s -> legal s h = true -> J2 (run s h).
  Proof.
    induction h as [|o h IH]; intros s HJ Hl; [exact HJ|].
    cbn [LND.legal] in Hl. apply andb_true_iff in Hl as [H1 H2]. rewrite run_cons.
    apply IH; auto. apply step_J2; auto.
  Qed.

  Lemma reach_J2 (h : list op) : legal (init_lnd L) h = true -> J2 (run (init_lnd L) h).
  Proof.
    intros Hl. apply run_J2; auto. intros _. split; [unfold P, PG; reflexivity|]. unfold QS. cbn. auto.
  Qed.

  Theorem queue_complete (h : list op) :
    legal (init_lnd L) h = true ->
    let s := run (init_lnd L) h in
    l_ok s = true ->
    qsorted (l_queue s) /\
    (forall sp, In sp (cur_simplices s) -> shas sp (l_subs s) = false ->
       exists loss, sassoc sp (l_losses s) = Some loss /\ In (loss, sp, None) (l_queue s)) /\
    (forall loss sp, In (loss, sp, None) (l_queue s) -> In sp (cur_simplices s) ->
       sassoc sp (l_losses s) = Some loss).
  Proof.
    intros Hl s Hok. destruct (reach_J2 h Hl Hok) as [_ HQ]. fold s in HQ. unfold QS, cur_simplices in *.
    destruct (l_tri s) as [t|].
    - destruct HQ as [A B C D F]. split; [exact A|]. split; [|exact C]. intros sp H1 H2. apply B; auto.
    - destruct HQ as [Hq Hs]. rewrite Hq. split; [constructor|]. split; [intros sp []|intros loss sp []].
  Qed.

  Theorem next_point_in_worst_simplex (h : list op) :
    legal (init_lnd L) h = true ->
    let s := run (init_lnd L) h in
    l_ok s = true -> l_subs s = [] ->
    (cur_simplices s <> [] -> pop_highest s (l_queue s) <> None) /\
    forall loss sp u q', pop_highest s (l_queue s) = Some ((loss, sp, u), q') ->
      u = None /\ In sp (cur_simplices s) /\ sassoc sp (l_losses s) = Some loss /\
      forall sp' loss', In sp' (cur_simplices s) -> sassoc sp' (l_losses s) = Some loss' ->
        (rnd loss' <= rnd loss)%Z.
  Proof.
    intros Hl s Hok Hsubs. destruct (queue_complete h Hl Hok) as (A & B & C). fold s in A, B, C.
    split.
    - intros Hne Hpop. destruct (cur_simplices s) as [|sp0 rest] eqn:Ec; [congruence|].
      destruct (B sp0) as [l0 [G1 G2]]; [left; auto|rewrite Hsubs; reflexivity|].
      pose proof (pop_none s _ Hpop _ G2) as Hv. cbn [valid_entry] in Hv. rewrite Ec, Hsubs in Hv.
      cbn [smem existsb shas sassoc negb] in Hv. rewrite simplex_eqb_refl in Hv. discriminate.
    - intros loss sp u q' Hpop. destruct (pop_spec _ _ _ _ Hpop) as (pre & Hq & Hv & Hpre).
      cbn [valid_entry] in Hv. rewrite Hsubs in Hv. destruct u as [sub|]; [cbn [sassoc] in Hv; discriminate|].
      cbn [shas sassoc negb] in Hv. rewrite andb_true_r in Hv. apply smem_In in Hv.
      assert (Hin : In (loss, sp, None) (l_queue s)) by (rewrite Hq; apply in_app_iff; right; left; auto).
      split; auto. split; auto. split; [apply C; auto|].
      intros sp' loss' Hs' Hl'. destruct (B sp' Hs') as [l0 [G1 G2]]; [rewrite Hsubs; reflexivity|].
      assert (l0 = loss') by congruence. subst l0.
      rewrite Hq in G2, A. apply in_app_iff in G2 as [G2|[G2|G2]].
      + apply Hpre in G2. cbn [valid_entry] in G2. rewrite Hsubs in G2. cbn [shas sassoc negb] in G2.
        rewrite andb_true_r in G2. apply smem_false in G2. contradiction.
      + inversion G2; subst. lia.
      + destruct (sorted_app_inv rnd pre (loss, sp, None) q' A) as [_ Hf]. rewrite Forall_forall in Hf.
        apply Hf in G2. apply kle_rnd in G2. exact G2.
  Qed.
End LNDProofs.
