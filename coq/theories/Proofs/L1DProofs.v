(* Proofs about the Learner1D model (properties C01, C10, C11). *)
From AV Require Import Base.Prelude Model.L1D.

Section L1DProofs.
  Variable num : Type.
  Variables (add sub mul div : num -> num -> num).
  Variables (ltb eqb : num -> num -> bool).
  Variables (zero one inf neg_inf : num).
  Variable is_nan : num -> bool.
  Variable is_inf : num -> bool.
  Variable round12 : num -> num.
  Variable of_nat : nat -> num.
  Variable L : list (option num) -> list (option (Y num)) -> num.
  Variable P : params num.

  Notation st := (st num).
  Notation loss := (@loss num sub div ltb eqb inf is_nan is_inf round12 P).
  Notation remove_unfinished := (@remove_unfinished num).

  Lemma remove_unfinished_resets (s : st) :
    pend (remove_unfinished s) = [] /\
    losc (remove_unfinished s) = los (remove_unfinished s) /\
    nbc (remove_unfinished s) = nb (remove_unfinished s) /\
    data (remove_unfinished s) = data s /\ los (remove_unfinished s) = los s.
  Proof. repeat split. Qed.
End L1DProofs.
