(* Proofs about Model/Integrator.v (property C07).  Everything is proved for an
   arbitrary abscissa type with a decidable equality, an arbitrary node
   function [points], and every sequence of oracle answers. *)
From AV Require Import Base.Prelude Base.NatSet Model.Integrator.

Section IntegratorProofs.
  Variable X : Type.
  Variable eqb : X -> X -> bool.
  Variable points : X -> X -> nat -> list X.
  Variable repaired : bool.
  Variable dflt : X.
  Hypothesis eqb_spec : forall x y, eqb x y = true <-> x = y.

  Notation st := (st X).
  Notation ival := (ival X).
  Notation getF := (get dflt).
  Notation cpF := (complete_process dflt).
  Notation plF := (propagate_leaves dflt).
  Notation acF := (absorb_child dflt).
  Notation discF := (discard_ival repaired).
  Notation prF := (propagate_removed repaired dflt).
  Notation qsF := (queue_split repaired).
  Notation tdF := (tell_depths eqb points repaired dflt).
  Notation tiF := (tell_ival eqb points repaired dflt).
  Notation tellF := (tell eqb points repaired dflt).
  Notation apF := (add_point eqb points repaired dflt).
  Notation aiF := (add_ival eqb points repaired dflt).
  Notation splitF := (split points dflt).
  Notation mirF := (max_ivals_rule repaired).
  Notation fsF := (fill_stack eqb points repaired dflt).
  Notation alF := (ask_loop eqb points repaired dflt).
  Notation askF := (ask eqb points repaired dflt).
  Notation stepF := (step eqb points repaired dflt).
  Notation runF := (run eqb points repaired dflt).
  Notation outsF := (outs eqb points repaired dflt).
  Notation initF := (init eqb points repaired dflt).
  Notation memF := (memX eqb).
  Notation addF := (addX eqb).
  Notation remF := (remX eqb).

  Implicit Types (s : st) (x y : X) (i j d n : nat) (e : err).

  (* ================================================================== *)
  (** * Containers *)

  Lemma memX_In x l : memF x l = true <-> In x l.
  Proof.
    unfold memX. rewrite existsb_exists. split.
    - intros [y [Hy He]]. apply eqb_spec in He. subst; auto.
    - intros H. exists x. split; auto. apply eqb_spec; auto.
  Qed.

  Lemma memX_false x l : memF x l = false <-> ~ In x l.
  Proof. rewrite <- memX_In. destruct (memF x l); split; congruence. Qed.

  Lemma addX_In x y l : In y (addF x l) <-> y = x \/ In y l.
  Proof.
    unfold addX. destruct (memF x l) eqn:E.
    - apply memX_In in E. split; [auto|]. intros [->|H]; auto.
    - rewrite in_app_iff. cbn [In]. intuition.
  Qed.

  Lemma remX_In x y l : In y (remF x l) <-> In y l /\ y <> x.
  Proof.
    unfold remX. rewrite filter_In. split; intros [H1 H2]; split; auto.
    - intros ->. assert (eqb x x = true) by (apply eqb_spec; auto). rewrite H in H2. discriminate.
    - destruct (eqb x y) eqn:E; auto. apply eqb_spec in E. congruence.
  Qed.

  Lemma In_dec_X x l : In x l \/ ~ In x l.
  Proof. destruct (memF x l) eqn:E; [left; apply memX_In; auto | right; apply memX_false; auto]. Qed.

  (* ================================================================== *)
  (** * Error plumbing: invariants pass through [bind] and [foldM] *)

  Lemma bind_inv (P : st -> Prop) (r : st * err) f :
    P (fst r) -> (forall s, P s -> P (fst (f s))) -> P (fst (bind r f)).
  Proof. destruct r as [s []]; cbn; auto. Qed.

  Lemma foldM_inv {A} (P : st -> Prop) (f : st -> A -> st * err) l :
    (forall s a, P s -> P (fst (f s a))) -> forall s, P s -> P (fst (foldM f l s)).
  Proof.
    intros Hf. induction l as [|a l IH]; intros s Hs; cbn [foldM]; [exact Hs|].
    apply bind_inv; auto.
  Qed.

  Lemma fold_left_inv {A} (P : st -> Prop) (f : st -> A -> st) l :
    (forall s a, P s -> P (f s a)) -> forall s, P s -> P (fold_left f l s).
  Proof. intros Hf. induction l as [|a l IH]; intros s Hs; cbn; auto. Qed.

  (* ================================================================== *)
  (** * Frame: the tree-internal functions do not touch stack / pending / data *)

  Definition pts s := (stack s, pending s, data s, xmap s).

  Lemma pts_upd s i f : pts (upd s i f) = pts s. Proof. reflexivity. Qed.

  Lemma pts_absorb sa c : pts (fst (acF sa c)) = pts (fst sa).
  Proof. destruct sa as [s acc]. cbn [absorb_child]. destruct (done_leaves (getF s c)); reflexivity. Qed.

  Lemma pts_absorb_fold l : forall sa, pts (fst (fold_left acF l sa)) = pts (fst sa).
  Proof. induction l as [|c l IH]; intros sa; cbn [fold_left]; [reflexivity|]. rewrite IH. apply pts_absorb. Qed.

  Lemma pts_propagate_leaves fuel : forall s p old, pts (plF fuel s p old) = pts s.
  Proof.
    induction fuel as [|fuel IH]; intros s p old; cbn [propagate_leaves]; [reflexivity|].
    destruct p as [j|]; [|reflexivity].
    destruct (forallb _ _); [|reflexivity].
    destruct (fold_left acF _ _) as [s1 acc] eqn:E.
    rewrite IH, pts_upd. change s1 with (fst (s1, acc)). rewrite <- E, pts_absorb_fold. reflexivity.
  Qed.

  Lemma pts_complete_process s i d : pts (fst (fst (cpF s i d))) = pts s.
  Proof.
    unfold complete_process.
    destruct (negb _); [reflexivity|].
    destruct (orc _) as [|v o']; [reflexivity|].
    destruct (_ && _); [reflexivity|].
    destruct v as [fs rm|]; [|reflexivity].
    cbn [fst]. destruct (done_leaves _) as [[|? ?]|]; try reflexivity.
    rewrite pts_propagate_leaves. reflexivity.
  Qed.

  Lemma pts_discard s i : pts (discF s i) = pts s.
  Proof. unfold discard_ival. destruct repaired; reflexivity. Qed.

  Lemma pts_propagate_removed fuel : forall s i, pts (prF fuel s i) = pts s.
  Proof.
    induction fuel as [|fuel IH]; intros s i; cbn [propagate_removed]; [reflexivity|].
    apply (fold_left_inv (fun s' => pts s' = pts s)).
    - intros s' c H. rewrite IH. exact H.
    - rewrite pts_discard. reflexivity.
  Qed.

  Lemma pts_queue_split s i : pts (fst (qsF s i)) = pts s.
  Proof. unfold queue_split. destruct repaired; [destruct (_ && _)|destruct (nat_mem _ _)]; reflexivity. Qed.

  Lemma pts_tell_depths i ds : forall s, pts (fst (tdF s i ds)) = pts s.
  Proof.
    induction ds as [|d ds IH]; intros s; cbn [tell_depths]; [reflexivity|].
    destruct (refinement_complete _ _ _ _); [|apply IH].
    destruct (cpF s i d) as [[s1 e] [fs rm]] eqn:E.
    assert (H1 : pts s1 = pts s) by (change s1 with (fst (fst (s1, e, (fs, rm)))); rewrite <- E; apply pts_complete_process).
    destruct e; try exact H1.
    apply (bind_inv (fun s' => pts s' = pts s)).
    - destruct rm; cbn [fst]; [rewrite pts_propagate_removed; exact H1|].
      destruct (_ && _); [rewrite pts_queue_split|]; exact H1.
    - intros s' H. rewrite IH. exact H.
  Qed.

  Lemma pts_tell_ival x s i : pts (fst (tiF x s i)) = pts s.
  Proof. unfold tell_ival. rewrite pts_tell_depths. reflexivity. Qed.

  (* ================================================================== *)
  (** * No abscissa is handed out twice *)

  (* [H] = everything handed out so far *)
  Definition PInv (H : list X) s : Prop :=
    NoDup (H ++ stack s) /\ forall x, In x (H ++ stack s) -> In x (pending s) \/ In x (data s).

  Definition PQ (H : list X) (p : list X * list X * list X * list (X * list nat)) : Prop :=
    let '(stk, pnd, dat, _) := p in
    NoDup (H ++ stk) /\ forall x, In x (H ++ stk) -> In x pnd \/ In x dat.

  Lemma PInv_pts H s : PInv H s <-> PQ H (pts s).
  Proof. reflexivity. Qed.

  Lemma PInv_same H s s' : pts s' = pts s -> PInv H s -> PInv H s'.
  Proof. intros E. rewrite !PInv_pts, E. auto. Qed.

  Lemma PInv_tell H s x : PInv H s -> PInv H (fst (tellF s x)).
  Proof.
    intros HP. unfold tell. destruct (negb _); [exact HP|].
    apply (foldM_inv (PInv H)).
    - intros s' i. apply PInv_same. apply pts_tell_ival.
    - destruct HP as [H1 H2]. split; [exact H1|].
      cbn [stack set_pending set_data pending data]. intros y Hy.
      specialize (H2 y Hy). rewrite remX_In, addX_In.
      destruct (In_dec_X y [x]) as [[->|[]]|Hn]; [auto|].
      destruct H2; [left; split; auto; intros ->; apply Hn; left; auto | auto].
  Qed.

  Lemma PInv_add_point H i s x : PInv H s -> PInv H (fst (apF i s x)).
  Proof.
    intros HP. unfold add_point.
    set (s1 := set_xmap s _).
    assert (HP1 : PInv H s1) by exact HP.
    destruct (memF x (data s1)) eqn:Ed; [apply PInv_tell; exact HP1|].
    destruct (memF x (pending s1)) eqn:Ep; [exact HP1|].
    apply memX_false in Ed. apply memX_false in Ep.
    destruct HP1 as [H1 H2]. cbn [fst]. split; cbn [stack pending data set_stack set_pending].
    - rewrite app_assoc. apply NoDup_app_disj; [exact H1|repeat constructor; auto|].
      intros y Hy [<-|[]]. destruct (H2 _ Hy); auto.
    - intros y Hy. rewrite app_assoc, in_app_iff in Hy. rewrite in_app_iff.
      destruct Hy as [Hy|[->|[]]]; [destruct (H2 _ Hy); auto|left; right; left; auto].
  Qed.

  Lemma PInv_add_ival H s i : PInv H s -> PInv H (fst (aiF s i)).
  Proof.
    intros HP. unfold add_ival. apply bind_inv.
    - apply (foldM_inv (PInv H)); [|exact HP]. intros s' x. apply PInv_add_point.
    - intros s' HP'. exact HP'.
  Qed.

  Lemma pts_remove_live s i : pts (fst (remove_live s i)) = pts s.
  Proof. unfold remove_live. destruct (nat_mem _ _); reflexivity. Qed.

  Lemma pts_max_ivals_rule c s : pts (fst (mirF c s)) = pts s.
  Proof.
    unfold max_ivals_rule. destruct (_ <? _); destruct (c_maxrm c); try reflexivity.
    destruct (nat_mem _ _); [|reflexivity]. cbn [fst]. pose proof (pts_discard s n) as Hd.
    destruct repaired; [exact Hd|reflexivity].
  Qed.

  Lemma PInv_fill_stack H s c : PInv H s -> PInv H (fst (fsF s c)).
  Proof.
    intros HP. unfold fill_stack.
    set (s0 := set_orc s _).
    assert (HP0 : PInv H s0) by exact HP.
    destruct (match prio s0 with [] => _ | _ => _ end) as [[[i force] s1]|] eqn:Esel; [|exact HP0].
    assert (HP1 : PInv H s1).
    { destruct (prio s0) as [|k rest]; [destruct (nat_mem _ _)|]; inversion Esel; subst; exact HP0. }
    destruct (negb _); [exact HP1|].
    apply bind_inv; [|intros s4 H4; destruct (is_nil _); exact H4].
    apply bind_inv; [|intros s4 H4; apply (PInv_same H s4); [apply pts_max_ivals_rule|exact H4]].
    destruct (c_minsep c); [apply (PInv_same H s1); [apply pts_remove_live|exact HP1]|].
    destruct (_ || _).
    - apply bind_inv; [apply (PInv_same H s1); [apply pts_remove_live|exact HP1]|].
      intros s2 HP2. unfold split. cbn iota beta.
      apply (foldM_inv (PInv H)); [intros; apply PInv_add_ival; auto|exact HP2].
    - apply PInv_add_ival. exact HP1.
  Qed.

  Lemma NoDup_app_remove_mid {A} (l1 l2 l3 : list A) : NoDup (l1 ++ l2 ++ l3) -> NoDup (l1 ++ l3).
  Proof.
    induction l1 as [|a l1 IH]; cbn.
    - induction l2 as [|b l2 IH2]; cbn; auto. intros H. inversion H; auto.
    - intros H. inversion H; subst. constructor; auto.
      rewrite !in_app_iff in *. intuition.
  Qed.

  Lemma PInv_drop H acc s : PInv (H ++ acc) s -> PInv H s.
  Proof.
    intros [H1 H2]. split.
    - rewrite <- app_assoc in H1. eapply NoDup_app_remove_mid; eauto.
    - intros x Hx. apply H2. rewrite !in_app_iff in *. intuition.
  Qed.

  Lemma PInv_pop H s n :
    PInv H s -> PInv (H ++ snd (pop_from_stack s n)) (fst (pop_from_stack s n)).
  Proof.
    intros [H1 H2]. unfold pop_from_stack. cbn [fst snd]. split; cbn [stack pending data set_stack].
    - rewrite <- app_assoc, firstn_skipn. exact H1.
    - intros x. rewrite <- app_assoc, firstn_skipn. apply H2.
  Qed.

  (* the result of [ask_loop]: all points returned so far are in [acc] *)
  Lemma PInv_ask_loop H cs : forall s nleft acc,
    PInv (H ++ acc) s ->
    let '(s', e, out) := alF s nleft cs acc in
    PInv (H ++ out) s'.
  Proof.
    induction cs as [|c cs IH]; intros s nleft acc HP; cbn [ask_loop].
    - destruct (nleft =? 0); [exact HP|]. destruct (_ && _); exact HP.
    - destruct (nleft =? 0); [exact HP|]. destruct (_ && _); [exact HP|].
      destruct (fsF s c) as [s1 e] eqn:E.
      assert (HP1 : PInv (H ++ acc) s1) by (change s1 with (fst (s1, e)); rewrite <- E; apply PInv_fill_stack; exact HP).
      destruct e; try exact HP1.
      pose proof (@PInv_pop _ s1 nleft HP1) as HP2.
      destruct (pop_from_stack s1 nleft) as [s2 pts'] eqn:Ep. cbn [fst snd] in HP2.
      rewrite <- app_assoc in HP2. specialize (IH s2 (nleft - length pts') (acc ++ pts') HP2).
      exact IH.
  Qed.

  Lemma PInv_ask H s n cs :
    PInv H s ->
    let '(s', e, out) := askF s n cs in PInv (H ++ out) s'.
  Proof.
    intros HP. unfold ask.
    pose proof (@PInv_pop _ s n HP) as HP1.
    destruct (pop_from_stack s n) as [s1 pts'] eqn:Ep. cbn [fst snd] in HP1.
    apply PInv_ask_loop. exact HP1.
  Qed.

  Lemma PInv_step H s o :
    PInv H s -> PInv (H ++ fst (snd (stepF s o))) (fst (stepF s o)).
  Proof.
    intros HP. unfold step. destruct (halted s); [cbn; rewrite app_nil_r; exact HP|].
    destruct o as [n cs|x vs].
    - pose proof (@PInv_ask _ s n cs HP) as HA.
      destruct (askF s n cs) as [[s1 e] out].
      destruct e; cbn [fst snd]; try rewrite app_nil_r; try exact HA; apply (PInv_drop _ out); exact HA.
    - assert (HT : PInv H (fst (tellF (set_orc s vs) x))) by (apply PInv_tell; exact HP).
      destruct (tellF (set_orc s vs) x) as [s1 e]. cbn [fst] in HT.
      destruct e; cbn [fst snd]; try rewrite app_nil_r; try exact HT; try exact HP.
      destruct (is_nil _); cbn [fst snd]; rewrite ?app_nil_r; exact HT.
  Qed.

  Lemma PInv_outs h : forall H s, PInv H s -> NoDup (H ++ handed (outsF s h)).
  Proof.
    induction h as [|o h IH]; intros H s HP; cbn [outs handed map concat].
    - rewrite app_nil_r. destruct HP as [H1 _]. rewrite <- (app_nil_r (stack s)) in H1.
      apply NoDup_app_remove_mid in H1. rewrite app_nil_r in H1. exact H1.
    - rewrite app_assoc. apply IH. apply PInv_step. exact HP.
  Qed.

  Lemma PInv_init lo hi maxiv : PInv [] (initF lo hi maxiv).
  Proof.
    unfold init. apply PInv_add_ival. split; cbn; [constructor|tauto].
  Qed.

  Theorem no_double_handout lo hi maxiv h : NoDup (handed (outsF (initF lo hi maxiv) h)).
  Proof. apply (@PInv_outs h [] _ (PInv_init lo hi maxiv)). Qed.


  (* ================================================================== *)
  (** * A value for an abscissa of no interval is rejected, nothing changes *)

  Theorem rejects_foreign s x vs :
    halted s = false -> xmap_mem eqb x (xmap s) = false ->
    stepF s (Tell x vs) = (s, ([], EValue)).
  Proof.
    intros Hh Hx. unfold step. rewrite Hh. unfold tell. cbn [xmap set_orc]. rewrite Hx. reflexivity.
  Qed.

  (* ================================================================== *)
  (** * Arena access *)

  Lemma list_upd_length {A} (l : list A) : forall i f, length (list_upd l i f) = length l.
  Proof. induction l as [|a0 l IH]; intros i f; destruct i; cbn; auto. Qed.

  Lemma nth_list_upd {A} (l : list A) (dd : A) : forall i f j,
    nth j (list_upd l i f) dd = if (j =? i) && (i <? length l) then f (nth j l dd) else nth j l dd.
  Proof.
    induction l as [|a0 l IH]; intros i f j; destruct i as [|i], j as [|j]; cbn [list_upd nth length]; try reflexivity.
    - destruct (_ =? _); reflexivity.
    - rewrite IH. change (S j =? S i) with (j =? i). change (S i <? S (length l)) with (i <? length l). reflexivity.
  Qed.

  Lemma get_upd s i f j :
    getF (upd s i f) j = if (j =? i) && (i <? length (ivs s)) then f (getF s j) else getF s j.
  Proof. unfold get, upd. cbn [ivs set_ivs]. apply nth_list_upd. Qed.

  Lemma get_upd_cases s i f j :
    getF (upd s i f) j = getF s j \/ (j = i /\ getF (upd s i f) j = f (getF s j)).
  Proof.
    rewrite get_upd. destruct (Nat.eqb_spec j i); cbn [andb]; [|left; reflexivity].
    destruct (_ <? _); [right|left]; auto.
  Qed.

  Lemma length_upd s i f : length (ivs (upd s i f)) = length (ivs s).
  Proof. unfold upd. cbn [ivs set_ivs]. apply list_upd_length. Qed.

  (* ================================================================== *)
  (** * Frame for the tree-internal functions: only done_leaves / removed /
        (for complete_process) depth_complete change *)

  (* everything except done_leaves, removed *)
  Definition eq8 (iv' iv : ival) : Prop :=
    a iv' = a iv /\ b iv' = b iv /\ depth iv' = depth iv /\ rdepth iv' = rdepth iv /\
    parent iv' = parent iv /\ children iv' = children iv /\ known iv' = known iv /\
    depth_complete iv' = depth_complete iv.

  Lemma eq8_refl iv : eq8 iv iv. Proof. repeat split. Qed.
  Lemma eq8_trans iv1 iv2 iv3 : eq8 iv3 iv2 -> eq8 iv2 iv1 -> eq8 iv3 iv1.
  Proof. unfold eq8. intuition congruence. Qed.

  Definition FR s s' : Prop :=
    live s' = live s /\ prio s' = prio s /\ length (ivs s') = length (ivs s) /\
    forall j, eq8 (getF s' j) (getF s j).

  Lemma FR_refl s : FR s s. Proof. refine (conj _ (conj _ (conj _ _))); try reflexivity. intros j; apply eq8_refl. Qed.
  Lemma FR_trans s1 s2 s3 : FR s1 s2 -> FR s2 s3 -> FR s1 s3.
  Proof.
    intros (A1 & A2 & A3 & A4) (B1 & B2 & B3 & B4).
    refine (conj _ (conj _ (conj _ _))); try congruence.
    intros j. exact (@eq8_trans _ _ _ (B4 j) (A4 j)).
  Qed.

  Lemma FR_upd s i f : (forall iv, eq8 (f iv) iv) -> FR s (upd s i f).
  Proof.
    intros Hf. refine (conj _ (conj _ (conj _ _))); try reflexivity; [apply length_upd|]. intros j.
    destruct (get_upd_cases s i f j) as [->|[_ ->]]; [apply eq8_refl|apply Hf].
  Qed.

  Lemma FR_absorb sa c : FR (fst sa) (fst (acF sa c)).
  Proof.
    destruct sa as [s acc]. cbn [absorb_child fst]. destruct (done_leaves (getF s c)); cbn [fst]; [|apply FR_refl].
    apply FR_upd. intros iv. repeat split.
  Qed.

  Lemma FR_absorb_fold l : forall sa, FR (fst sa) (fst (fold_left acF l sa)).
  Proof.
    induction l as [|c l IH]; intros sa; cbn [fold_left]; [apply FR_refl|].
    eapply FR_trans; [apply FR_absorb|apply IH].
  Qed.

  Lemma FR_propagate_leaves fuel : forall s p old, FR s (plF fuel s p old).
  Proof.
    induction fuel as [|fuel IH]; intros s p old; cbn [propagate_leaves]; [apply FR_refl|].
    destruct p as [j|]; [|apply FR_refl].
    destruct (forallb _ _); [|apply FR_refl].
    destruct (fold_left acF _ _) as [s1 acc] eqn:E.
    eapply FR_trans; [|apply IH].
    eapply FR_trans; [|apply FR_upd; intros iv; repeat split].
    change s1 with (fst (s1, acc)). rewrite <- E. apply (FR_absorb_fold _ (s, _)).
  Qed.

  (* complete_process: as FR except for depth_complete of [i] *)
  Definition eq7 (iv' iv : ival) : Prop :=
    a iv' = a iv /\ b iv' = b iv /\ depth iv' = depth iv /\ rdepth iv' = rdepth iv /\
    parent iv' = parent iv /\ children iv' = children iv /\ known iv' = known iv.

  Lemma eq8_eq7 iv' iv : eq8 iv' iv -> eq7 iv' iv.
  Proof. unfold eq8, eq7. intuition. Qed.

  Definition CR i s s' : Prop :=
    live s' = live s /\ prio s' = prio s /\ length (ivs s') = length (ivs s) /\
    (forall j, eq7 (getF s' j) (getF s j)) /\
    (forall j, j <> i -> depth_complete (getF s' j) = depth_complete (getF s j)).

  Lemma CR_FR i s s1 s2 : CR i s s1 -> FR s1 s2 -> CR i s s2.
  Proof.
    intros (A1 & A2 & A3 & A4 & A5) (B1 & B2 & B3 & B4).
    refine (conj _ (conj _ (conj _ (conj _ _)))); try congruence.
    - intros j. specialize (A4 j). specialize (B4 j). unfold eq7, eq8 in *. intuition congruence.
    - intros j Hj. specialize (A5 j Hj). specialize (B4 j). unfold eq8 in *. intuition congruence.
  Qed.

  Lemma FR_CR i s s' : FR s s' -> CR i s s'.
  Proof.
    intros (B1 & B2 & B3 & B4). refine (conj _ (conj _ (conj _ (conj _ _)))); try congruence.
    - intros j. apply eq8_eq7. apply B4.
    - intros j _. apply B4.
  Qed.

  Lemma FR_set_orc s o : FR s (set_orc s o).
  Proof. refine (conj _ (conj _ (conj _ _))); try reflexivity. intros j. exact (eq8_refl _). Qed.

  Lemma CR_upd_dc i s v : CR i s (upd s i (fun iv => iv_set_dc iv v)).
  Proof.
    refine (conj _ (conj _ (conj _ (conj _ _)))); try reflexivity; [apply length_upd| |].
    - intros j. destruct (get_upd_cases s i (fun iv => iv_set_dc iv v) j) as [->|[_ ->]]; repeat split.
    - intros j Hj. rewrite get_upd. destruct (Nat.eqb_spec j i); [contradiction|reflexivity].
  Qed.

  Lemma get_overflow s i : length (ivs s) <= i -> getF s i = dummy dflt.
  Proof. intros H. unfold get. apply nth_overflow. exact H. Qed.

  Lemma cp_frame s i d : CR i s (fst (fst (cpF s i d))).
  Proof.
    unfold complete_process.
    destruct (negb _); [apply FR_CR, FR_refl|].
    set (s1 := upd s i _).
    assert (H1 : CR i s s1) by apply CR_upd_dc.
    destruct (orc s1) as [|v o']; [exact H1|].
    destruct (_ && _); [exact H1|].
    destruct v as [fs rm|]; [|exact H1].
    cbn [fst]. destruct (done_leaves _) as [[|? ?]|]; try exact H1.
    eapply CR_FR; [exact H1|]. eapply FR_trans; [|apply FR_propagate_leaves].
    eapply (@FR_trans _ (set_orc s1 o')); [apply FR_set_orc|]. apply FR_upd. intros iv; repeat split.
  Qed.

  Lemma dc_FR s s' i : FR s s' -> depth_complete (getF s' i) = depth_complete (getF s i).
  Proof. intros (_ & _ & _ & H). apply H. Qed.

  (* after a successful complete_process the recorded depth is [d] (or the id is
     outside the arena, where nothing is ever recorded) *)
  Lemma cp_dc s i d :
    snd (fst (cpF s i d)) = ENone ->
    depth_complete (getF (fst (fst (cpF s i d))) i) = Some d \/
    depth_complete (getF (fst (fst (cpF s i d))) i) = None.
  Proof.
    unfold complete_process.
    destruct (negb _); [discriminate|].
    set (s1 := upd s i _).
    assert (H1 : depth_complete (getF s1 i) = Some d \/ depth_complete (getF s1 i) = None).
    { unfold s1. rewrite get_upd, Nat.eqb_refl. cbn [andb].
      destruct (Nat.ltb_spec i (length (ivs s))); [left; reflexivity|right].
      rewrite get_overflow by assumption. reflexivity. }
    destruct (orc s1) as [|v o']; [discriminate|].
    destruct (_ && _); [intros _; exact H1|].
    destruct v as [fs rm|]; [|discriminate].
    intros _. cbn [fst]. destruct (done_leaves _) as [[|? ?]|]; try exact H1.
    rewrite (@dc_FR (upd (set_orc s1 o') i (fun iv => iv_set_dl iv (Some [i])))) by apply FR_propagate_leaves.
    rewrite (@dc_FR (set_orc s1 o')) by (apply FR_upd; intros iv; repeat split).
    exact H1.
  Qed.

  Lemma cp_internal s i d :
    internal_error (snd (fst (cpF s i d))) = true ->
    exists k, depth_complete (getF s i) = Some k /\ S k <> d.
  Proof.
    unfold complete_process.
    destruct (depth_complete (getF s i)) as [k|] eqn:E.
    - destruct (Nat.eqb_spec (S k) d) as [Hk|Hk]; cbn [negb].
      + destruct (orc _) as [|v o']; [discriminate|]. destruct (_ && _); [discriminate|].
        destruct v; discriminate.
      + intros _. exists k. auto.
    - cbn [negb]. destruct (orc _) as [|v o']; [discriminate|]. destruct (_ && _); [discriminate|].
      destruct v; discriminate.
  Qed.


  (* ================================================================== *)
  (** * Frames that may change ivals / priority_split *)

  Definition FI s s' : Prop :=
    length (ivs s') = length (ivs s) /\ forall j, eq8 (getF s' j) (getF s j).

  Lemma FI_refl s : FI s s. Proof. split; [reflexivity|]. intros j; apply eq8_refl. Qed.
  Lemma FI_trans s1 s2 s3 : FI s1 s2 -> FI s2 s3 -> FI s1 s3.
  Proof. intros [A1 A2] [B1 B2]. split; [congruence|]. intros j. exact (@eq8_trans _ _ _ (B2 j) (A2 j)). Qed.
  Lemma FR_FI s s' : FR s s' -> FI s s'.
  Proof. intros (_ & _ & H1 & H2). split; auto. Qed.

  Lemma FI_discard s i : FI s (discF s i).
  Proof. unfold discard_ival. destruct repaired; split; try reflexivity; intros j; exact (eq8_refl _). Qed.

  Lemma FI_propagate_removed fuel : forall s i, FI s (prF fuel s i).
  Proof.
    induction fuel as [|fuel IH]; intros s i; cbn [propagate_removed]; [apply FI_refl|].
    apply (fold_left_inv (fun s' => FI s s')).
    - intros s' c H. eapply FI_trans; [exact H|apply IH].
    - eapply FI_trans; [|apply FI_discard]. apply FR_FI, FR_upd. intros iv; repeat split.
  Qed.

  Lemma FI_queue_split s i : FI s (fst (qsF s i)).
  Proof.
    unfold queue_split. destruct repaired; [destruct (_ && _)|destruct (nat_mem _ _)]; cbn [fst];
      split; try reflexivity; intros j; exact (eq8_refl _).
  Qed.

  (* coarser frame for tell / add_ival: the shape of the tree and the depths *)
  Definition eq6 (iv' iv : ival) : Prop :=
    a iv' = a iv /\ b iv' = b iv /\ depth iv' = depth iv /\ rdepth iv' = rdepth iv /\
    parent iv' = parent iv /\ children iv' = children iv.
  Definition FC s s' : Prop :=
    length (ivs s') = length (ivs s) /\ forall j, eq6 (getF s' j) (getF s j).

  Lemma eq6_refl iv : eq6 iv iv. Proof. repeat split. Qed.
  Lemma eq6_trans iv1 iv2 iv3 : eq6 iv3 iv2 -> eq6 iv2 iv1 -> eq6 iv3 iv1.
  Proof. unfold eq6. intuition congruence. Qed.
  Lemma eq7_eq6 iv' iv : eq7 iv' iv -> eq6 iv' iv.
  Proof. unfold eq7, eq6. intuition. Qed.
  Lemma FC_refl s : FC s s. Proof. split; [reflexivity|]. intros j; apply eq6_refl. Qed.
  Lemma FC_trans s1 s2 s3 : FC s1 s2 -> FC s2 s3 -> FC s1 s3.
  Proof. intros [A1 A2] [B1 B2]. split; [congruence|]. intros j. exact (@eq6_trans _ _ _ (B2 j) (A2 j)). Qed.
  Lemma FI_FC s s' : FI s s' -> FC s s'.
  Proof. intros [H1 H2]. split; auto. intros j. apply eq7_eq6, eq8_eq7, H2. Qed.
  Lemma CR_FC i s s' : CR i s s' -> FC s s'.
  Proof. intros (_ & _ & H1 & H2 & _). split; auto. intros j. apply eq7_eq6, H2. Qed.
  Lemma FC_upd s i f : (forall iv, eq6 (f iv) iv) -> FC s (upd s i f).
  Proof.
    intros Hf. split; [apply length_upd|]. intros j.
    destruct (get_upd_cases s i f j) as [->|[_ ->]]; [apply eq6_refl|apply Hf].
  Qed.

  (* ================================================================== *)
  (** * Shape frame [FC] for tell / add_ival and friends *)

  Lemma FC_bind s (r : st * err) f :
    FC s (fst r) -> (forall s1, FC s1 (fst (f s1))) -> FC s (fst (bind r f)).
  Proof.
    intros H Hf. destruct r as [s1 e]. destruct e; cbn [bind fst] in *; auto.
    eapply FC_trans; [exact H|apply Hf].
  Qed.

  Lemma FC_foldM {A} (f : st -> A -> st * err) l :
    (forall s (a0 : A), FC s (fst (f s a0))) -> forall s, FC s (fst (foldM f l s)).
  Proof.
    intros Hf. induction l as [|a0 l IH]; intros s; cbn [foldM]; [apply FC_refl|].
    apply FC_bind; [apply Hf|apply IH].
  Qed.

  Lemma FC_same_ivs s s' : ivs s' = ivs s -> FC s s'.
  Proof. intros E. unfold FC, get. rewrite E. split; [reflexivity|intros j; apply eq6_refl]. Qed.

  Lemma FC_tell_depths i ds : forall s, FC s (fst (tdF s i ds)).
  Proof.
    induction ds as [|d ds IH]; intros s; cbn [tell_depths]; [apply FC_refl|].
    destruct (refinement_complete _ _ _ _); [|apply IH].
    pose proof (cp_frame s i d) as HCR. apply CR_FC in HCR.
    destruct (cpF s i d) as [[s1 e] [fs rm]]. cbn [fst] in HCR.
    destruct e; try exact HCR.
    eapply FC_trans; [exact HCR|]. apply FC_bind; [|apply IH].
    destruct rm; cbn [fst]; [apply FI_FC, FI_propagate_removed|].
    destruct (_ && _); [apply FI_FC, FI_queue_split|apply FC_refl].
  Qed.

  Lemma FC_tell_ival x s i : FC s (fst (tiF x s i)).
  Proof.
    unfold tell_ival. eapply FC_trans; [|apply FC_tell_depths].
    apply FC_upd. intros iv; repeat split.
  Qed.

  Lemma FC_tell s x : FC s (fst (tellF s x)).
  Proof.
    unfold tell. destruct (negb _); [apply FC_refl|].
    eapply FC_trans; [|apply FC_foldM; intros; apply FC_tell_ival]. apply FC_same_ivs. reflexivity.
  Qed.

  Lemma FC_add_point i s x : FC s (fst (apF i s x)).
  Proof.
    unfold add_point. set (s1 := set_xmap s _).
    destruct (memF x (data s1)); [eapply FC_trans; [|apply FC_tell]; apply FC_same_ivs; reflexivity|].
    destruct (memF x (pending s1)); apply FC_same_ivs; reflexivity.
  Qed.

  Lemma FC_add_ival s i : FC s (fst (aiF s i)).
  Proof.
    unfold add_ival. apply FC_bind; [apply FC_foldM; intros; apply FC_add_point|].
    intros s1. apply FC_same_ivs. reflexivity.
  Qed.

  Lemma FC_remove_live s i : FC s (fst (remove_live s i)).
  Proof. unfold remove_live. destruct (nat_mem _ _); apply FC_same_ivs; reflexivity. Qed.

  Lemma FC_max_ivals_rule c s : FC s (fst (mirF c s)).
  Proof.
    unfold max_ivals_rule. destruct (_ <? _); destruct (c_maxrm c) as [j|]; try apply FC_refl.
    destruct (nat_mem _ _); [|apply FC_refl]. cbn [fst]. pose proof (FI_discard s j) as H.
    destruct repaired; [apply FI_FC; exact H|apply FC_same_ivs; reflexivity].
  Qed.

  (* ================================================================== *)
  (** * The repaired code never reaches an assert / KeyError *)

  Lemma nat_remove_NoDup i l : NoDup l -> NoDup (nat_remove i l).
  Proof.
    induction l as [|k l IH]; cbn [nat_remove]; intros H; [constructor|].
    inversion H; subst. destruct (i =? k); auto. constructor; auto.
    rewrite nat_remove_In. tauto.
  Qed.

  Definition CInv s : Prop :=
    NoDup (prio s) /\ (forall i, In i (prio s) -> In i (live s)) /\
    (forall i, In i (live s) -> children (getF s i) = []) /\
    (forall i, depth (getF s i) <= 3).

  Lemma CInv_FC s s' : FC s s' -> live s' = live s -> prio s' = prio s -> CInv s -> CInv s'.
  Proof.
    intros [_ HF] El Ep (H1 & H2 & H3 & H4). unfold CInv. rewrite El, Ep.
    refine (conj H1 (conj H2 (conj _ _))).
    - intros i Hi. destruct (HF i) as (_ & _ & _ & _ & _ & ->). auto.
    - intros i. destruct (HF i) as (_ & _ & -> & _). auto.
  Qed.

  Section Repaired.
    Hypothesis Hrep : repaired = true.
    Hypothesis Hnest : forall a b d, incl (points a b d) (points a b (S d)).

    Lemma CInv_discard s i : CInv s -> CInv (discF s i).
    Proof.
      intros (H1 & H2 & H3 & H4). unfold discard_ival. rewrite Hrep.
      refine (conj _ (conj _ (conj _ _))); cbn [prio live set_prio set_live].
      - apply nat_remove_NoDup, H1.
      - intros k. rewrite !nat_remove_In. intros [Hk Hn]. split; auto.
      - intros k. rewrite nat_remove_In. intros [Hk _]. apply H3 in Hk. exact Hk.
      - exact H4.
    Qed.

    Lemma CInv_propagate_removed fuel : forall s i, CInv s -> CInv (prF fuel s i).
    Proof.
      induction fuel as [|fuel IH]; intros s i HC; cbn [propagate_removed]; [exact HC|].
      apply (fold_left_inv CInv); [intros; apply IH; auto|].
      apply CInv_discard. eapply CInv_FC; [| | |exact HC]; try reflexivity.
      apply FC_upd. intros iv; repeat split.
    Qed.

    Lemma queue_split_ok s i : CInv s -> CInv (fst (qsF s i)) /\ snd (qsF s i) = ENone.
    Proof.
      intros (H1 & H2 & H3 & H4). unfold queue_split. rewrite Hrep.
      destruct (nat_mem i (live s)) eqn:El; cbn [andb]; [|split; [repeat split; auto|reflexivity]].
      destruct (nat_mem i (prio s)) eqn:Ep; cbn [negb]; [split; [repeat split; auto|reflexivity]|].
      split; [|reflexivity]. cbn [fst].
      apply nat_mem_In in El. assert (Hn : ~ In i (prio s)) by (rewrite <- nat_mem_In; congruence).
      refine (conj _ (conj _ (conj _ _))); cbn [prio live set_prio]; auto.
      - constructor; auto.
      - intros k [<-|Hk]; auto.
    Qed.

    (* nestedness of the rules: a complete deeper rule implies the shallower one *)
    Lemma ns_mono d : d < 3 -> ns d <= ns (S d).
    Proof. intros H. destruct d as [|[|[|d]]]; cbn; lia. Qed.

    Lemma rc_down (iv : ival) d :
      d < 3 -> refinement_complete eqb points iv (S d) = true -> refinement_complete eqb points iv d = true.
    Proof.
      unfold refinement_complete. intros Hd H. apply andb_true_iff in H as [H1 H2].
      apply andb_true_iff. split.
      - apply negb_true_iff in H1. apply negb_true_iff.
        apply Nat.ltb_ge in H1. apply Nat.ltb_ge. pose proof (@ns_mono d Hd). lia.
      - rewrite forallb_forall in *. intros p Hp. apply H2. apply Hnest. exact Hp.
    Qed.

    Lemma rc_down_le (iv : ival) d d' :
      d <= d' -> d' <= 3 -> refinement_complete eqb points iv d' = true -> refinement_complete eqb points iv d = true.
    Proof.
      intros Hle. induction Hle as [|d' Hle IH]; intros H3 H; [exact H|].
      apply IH; [lia|]. apply rc_down; [lia|exact H].
    Qed.

    Lemma rc_eq7 (iv iv' : ival) d :
      eq7 iv' iv -> refinement_complete eqb points iv' d = refinement_complete eqb points iv d.
    Proof. unfold refinement_complete. intros (-> & -> & _ & _ & _ & _ & ->). reflexivity. Qed.

    Definition LoopOK s i d0 : Prop :=
      depth_complete (getF s i) = None \/
      (exists k, depth_complete (getF s i) = Some k /\ S k = d0) \/
      (forall d, d0 <= d -> d <= 3 -> refinement_complete eqb points (getF s i) d = false).

    Definition Good s (r : st * err) : Prop :=
      CInv (fst r) /\ internal_error (snd r) = false /\ FC s (fst r).

    Lemma Good_intro s (r : st * err) :
      CInv (fst r) -> internal_error (snd r) = false -> FC s (fst r) -> Good s r.
    Proof. intros; split; [|split]; assumption. Qed.

    Lemma Good_bind s (r : st * err) f :
      Good s r -> (forall s1, CInv s1 -> FC s s1 -> snd r = ENone -> s1 = fst r -> Good s1 (f s1)) -> Good s (bind r f).
    Proof.
      intros (H1 & H2 & H3) Hf. destruct r as [s1 e]. cbn [fst snd] in *.
      destruct e; cbn [bind]; try (apply Good_intro; assumption).
      destruct (Hf s1 H1 H3 eq_refl eq_refl) as (G1 & G2 & G3).
      apply Good_intro; auto. eapply FC_trans; eauto.
    Qed.

    Lemma tell_depths_good i : forall len d0 s,
      CInv s -> d0 + len <= 4 -> LoopOK s i d0 -> Good s (tdF s i (seq d0 len)).
    Proof.
      induction len as [|len IH]; intros d0 s HC Hlen HL; cbn [seq tell_depths].
      - apply Good_intro; auto. apply FC_refl.
      - destruct (refinement_complete eqb points (getF s i) d0) eqn:Erc.
        + (* the rule of depth d0 is complete: complete_process runs *)
          pose proof (cp_frame s i d0) as HCR. pose proof (@cp_dc s i d0) as Hdc.
          pose proof (@cp_internal s i d0) as Hint.
          destruct (cpF s i d0) as [[s1 e] [fs rm]]. cbn [fst snd] in *.
          assert (HF1 : FC s s1) by (eapply CR_FC; eauto).
          assert (HC1 : CInv s1) by (destruct HCR as (El & Ep & _); eapply CInv_FC; eauto).
          assert (Hni : internal_error e = false).
          { destruct (internal_error e) eqn:Ei; [|reflexivity]. destruct (Hint eq_refl) as (k & Hk & Hne).
            destruct HL as [HL|[(k' & Hk' & Hs)|HL]]; [congruence|congruence|].
            rewrite HL in Erc; [discriminate|lia|lia]. }
          destruct e; try (apply Good_intro; assumption).
          specialize (Hdc eq_refl).
          (* the continuation: removal / queueing, then the next depth *)
          set (r2 := if rm then _ else _).
          assert (G2 : Good s1 r2 /\ (snd r2 = ENone -> FI s1 (fst r2))).
          { unfold r2. destruct rm.
            - split; [|intros _; apply FI_propagate_removed]. apply Good_intro; cbn [fst snd].
              + apply CInv_propagate_removed; auto.
              + reflexivity.
              + apply FI_FC, FI_propagate_removed.
            - destruct (fs && _).
              + destruct (@queue_split_ok s1 i HC1) as [Q1 Q2]. split; [|intros _; apply FI_queue_split].
                apply Good_intro; auto. * rewrite Q2; reflexivity. * apply FI_FC, FI_queue_split.
              + split; [|intros _; apply FI_refl]. apply Good_intro; auto. apply FC_refl. }
          destruct G2 as [G2 G2'].
          destruct (@Good_bind s1 r2 (fun s2 => tdF s2 i (seq (S d0) len)) G2) as (K1 & K2 & K3).
          * intros s2 HC2 HF2 He2 ->. apply IH; [exact HC2|lia|].
            destruct (G2' He2) as [_ HFI]. destruct (HFI i) as (_ & _ & _ & _ & _ & _ & _ & Hdc2).
            unfold LoopOK. rewrite Hdc2. destruct Hdc as [Hdc|Hdc]; [right; left; exists d0; auto|left; auto].
          * apply Good_intro; auto. eapply FC_trans; eauto.
        + (* not complete: skip *)
          apply IH; [exact HC|lia|].
          destruct HL as [HL|[(k & Hk & Hs)|HL]]; [left; auto| |].
          * right; right. intros d Hd H3.
            destruct (refinement_complete eqb points (getF s i) d) eqn:E; [|reflexivity].
            rewrite (@rc_down_le (getF s i) d0 d) in Erc; [discriminate|lia|lia|exact E].
          * right; right. intros d Hd H3. apply HL; lia.
    Qed.

    Lemma Good_foldM {A} (f : st -> A -> st * err) l :
      (forall s a, CInv s -> Good s (f s a)) -> forall s, CInv s -> Good s (foldM f l s).
    Proof.
      intros Hf. induction l as [|a0 l IH]; intros s HC; cbn [foldM].
      - apply Good_intro; auto. apply FC_refl.
      - apply Good_bind; [apply Hf; exact HC|]. intros s1 HC1 _ _ _. apply IH. exact HC1.
    Qed.

    Lemma tell_ival_good x s i : CInv s -> Good s (tiF x s i).
    Proof.
      intros HC. unfold tell_ival.
      set (s1 := upd s i _).
      assert (HF : FC s s1) by (apply FC_upd; intros iv; repeat split).
      assert (HC1 : CInv s1) by (eapply CInv_FC; eauto).
      assert (G : Good s1 (tdF s1 i (seq (from_depth (getF s1 i)) (S (depth (getF s1 i)) - from_depth (getF s1 i))))).
      { destruct (S (depth (getF s1 i)) - from_depth (getF s1 i)) as [|len] eqn:El.
        - cbn [seq tell_depths]. apply Good_intro; auto. apply FC_refl.
        - apply tell_depths_good; [exact HC1| |].
          + destruct HC1 as (_ & _ & _ & H4). specialize (H4 i). lia.
          + unfold LoopOK, from_depth. destruct (depth_complete (getF s1 i)) as [k|]; [right; left; exists k; auto|left; auto]. }
      destruct G as (G1 & G2 & G3). apply Good_intro; auto. eapply FC_trans; eauto.
    Qed.

    Lemma tell_good s x : CInv s -> Good s (tellF s x).
    Proof.
      intros HC. unfold tell. destruct (negb _); [apply Good_intro; auto; apply FC_refl|].
      set (s1 := set_pending _ _).
      assert (G : Good s1 (foldM (tiF x) (xmap_get eqb x (xmap s1)) s1)).
      { apply Good_foldM; [intros; apply tell_ival_good; auto|exact HC]. }
      exact G.
    Qed.

    Lemma add_point_good i s x : CInv s -> Good s (apF i s x).
    Proof.
      intros HC. unfold add_point. set (s1 := set_xmap s _).
      destruct (memF x (data s1)); [exact (@tell_good s1 x HC)|].
      destruct (memF x (pending s1)); apply Good_intro; auto; split; try reflexivity; intros j; exact (eq6_refl _).
    Qed.

    Lemma nat_add_In i k l : In k (nat_add i l) <-> k = i \/ In k l.
    Proof.
      unfold nat_add. destruct (nat_mem i l) eqn:E.
      - apply nat_mem_In in E. split; [auto|intros [->|H]; auto].
      - rewrite in_app_iff. cbn [In]. intuition.
    Qed.

    Lemma add_ival_good s i : CInv s -> children (getF s i) = [] -> Good s (aiF s i).
    Proof.
      intros HC Hch. unfold add_ival. apply Good_bind.
      - apply Good_foldM; [intros; apply add_point_good; auto|exact HC].
      - intros s1 (H1 & H2 & H3 & H4) [_ HF] _ _. apply Good_intro; cbn [fst snd]; [|reflexivity|split; [reflexivity|intros j; exact (eq6_refl _)]].
        refine (conj H1 (conj _ (conj _ H4))); cbn [prio live set_live].
        + intros k Hk. apply nat_add_In. right. auto.
        + intros k Hk. change (children (getF s1 k) = []). apply nat_add_In in Hk as [->|Hk]; [|auto].
          destruct (HF i) as (_ & _ & _ & _ & _ & ->). exact Hch.
    Qed.

    Definition Good0 (r : st * err) : Prop := CInv (fst r) /\ internal_error (snd r) = false.

    Lemma Good_Good0 s r : Good s r -> Good0 r.
    Proof. intros (H1 & H2 & _). split; auto. Qed.

    Lemma Good0_bind (r : st * err) f :
      Good0 r -> (forall s1, CInv s1 -> s1 = fst r -> Good0 (f s1)) -> Good0 (bind r f).
    Proof.
      intros [H1 H2] Hf. destruct r as [s1 e]. cbn [fst snd] in *.
      destruct e; cbn [bind]; try (split; assumption). apply Hf; auto.
    Qed.

    Lemma remove_live_good s i :
      CInv s -> ~ In i (prio s) -> In i (live s) ->
      CInv (fst (remove_live s i)) /\ snd (remove_live s i) = ENone /\
      ~ In i (live (fst (remove_live s i))) /\ fst (remove_live s i) = set_live s (nat_remove i (live s)).
    Proof.
      intros (H1 & H2 & H3 & H4) Hp Hl. unfold remove_live.
      assert (E : nat_mem i (live s) = true) by (apply nat_mem_In; auto). rewrite E. cbn [fst snd].
      refine (conj _ (conj eq_refl (conj _ eq_refl))).
      - refine (conj H1 (conj _ (conj _ H4))); cbn [prio live set_live].
        + intros k Hk. apply nat_remove_In. split; auto. intros ->. contradiction.
        + intros k Hk. apply nat_remove_In in Hk as [Hk _]. exact (H3 k Hk).
      - cbn [live set_live]. rewrite nat_remove_In. tauto.
    Qed.

    Lemma max_ivals_rule_good c s : CInv s -> Good0 (mirF c s).
    Proof.
      intros HC. unfold max_ivals_rule.
      destruct (_ <? _); destruct (c_maxrm c) as [j|]; try (split; [exact HC|reflexivity]).
      pose proof (@CInv_discard s j HC) as HD.
      destruct (nat_mem j (live s)); split; cbn [fst snd]; auto. rewrite Hrep in *. exact HD.
    Qed.

    (* the arena after a split *)
    Lemma get_app_old s l j : j < length (ivs s) -> getF (set_ivs s (ivs s ++ l)) j = getF s j.
    Proof. intros H. unfold get. cbn [ivs set_ivs]. apply app_nth1. exact H. Qed.

    Lemma split_good s i :
      CInv s -> ~ In i (live s) ->
      let s' := fst (splitF s i) in
      let n := length (ivs s) in
      CInv s' /\ snd (splitF s i) = [n; S n] /\
      children (getF s' n) = [] /\ children (getF s' (S n)) = [].
    Proof.
      intros (H1 & H2 & H3 & H4) Hl. cbn zeta. unfold split. cbn [fst snd].
      set (s1 := upd s i _).
      assert (Hlen : length (ivs s1) = length (ivs s)) by apply length_upd.
      set (l := mkI _ _ 0 _ _ _ _ _ _ _). set (r := mkI _ _ 0 _ _ _ _ _ _ _).
      assert (Hnew : forall j, length (ivs s) <= j ->
                 children (getF (set_ivs s1 (ivs s1 ++ [l; r])) j) = [] /\ depth (getF (set_ivs s1 (ivs s1 ++ [l; r])) j) = 0).
      { intros j Hj. unfold get. cbn [ivs set_ivs]. rewrite app_nth2 by lia.
        destruct (j - length (ivs s1)) as [|[|k]]; cbn [nth]; auto. destruct k; auto. }
      assert (Hold : forall j, j < length (ivs s) -> getF (set_ivs s1 (ivs s1 ++ [l; r])) j = getF s1 j).
      { intros j Hj. apply get_app_old. lia. }
      refine (conj _ (conj _ (conj _ _))).
      - refine (conj H1 (conj H2 (conj _ _))); cbn [prio live set_ivs].
        + intros k Hk. destruct (Nat.lt_ge_cases k (length (ivs s))) as [Hlt|Hge]; [|apply Hnew; exact Hge].
          rewrite Hold by exact Hlt. unfold s1. rewrite get_upd.
          destruct (Nat.eqb_spec k i) as [->|Hne]; [contradiction|]. cbn [andb]. auto.
        + intros k. destruct (Nat.lt_ge_cases k (length (ivs s))) as [Hlt|Hge].
          * rewrite Hold by exact Hlt. unfold s1. rewrite get_upd. destruct (_ && _); [cbn [depth iv_set_children]|]; apply H4.
          * destruct (Hnew k Hge) as [_ ->]. lia.
      - reflexivity.
      - apply Hnew. lia.
      - apply Hnew. lia.
    Qed.

    Lemma fill_stack_tail_good c (r : st * err) :
      Good0 r ->
      Good0 (bind (bind r (mirF c)) (fun s4 => if is_nil (orc s4) then (s4, ENone) else (s4, EMissing))).
    Proof.
      intros G. apply Good0_bind.
      - apply Good0_bind; [exact G|]. intros s1 HC1 _. apply max_ivals_rule_good. exact HC1.
      - intros s4 HC4 _. destruct (is_nil _); split; auto.
    Qed.

    Lemma fill_stack_body_good c s1 i (force : bool) :
      CInv s1 -> In i (live s1) -> ~ In i (prio s1) ->
      Good0 (if negb (is_nil (children (getF s1 i))) then (s1, EInternal 3) else
             bind (bind (if c_minsep c then remove_live s1 i
                         else if (depth (getF s1 i) =? 3) || force then
                           bind (remove_live s1 i)
                                (fun s2 => let (s3, kids) := splitF s2 i in foldM aiF kids s3)
                         else aiF (upd s1 i (fun iv => iv_set_depth iv (S (depth iv)))) i)
                        (mirF c))
                  (fun s4 => if is_nil (orc s4) then (s4, ENone) else (s4, EMissing))).
    Proof.
      intros HC Hl Hp.
      assert (Hch : children (getF s1 i) = []) by (destruct HC as (_ & _ & H3 & _); auto).
      rewrite Hch. cbn [is_nil negb].
      apply fill_stack_tail_good.
      destruct (@remove_live_good s1 i HC Hp Hl) as (R1 & R2 & R3 & R4).
      destruct (c_minsep c); [split; [exact R1|rewrite R2; reflexivity]|].
      destruct ((depth (getF s1 i) =? 3) || force) eqn:Ed.
      - (* split *)
        destruct (remove_live s1 i) as [s2 e2]. cbn [fst snd] in *. subst e2. cbn [bind].
        pose proof (@split_good s2 i R1 R3) as S. cbn zeta in S.
        destruct (splitF s2 i) as [s3 kids]. cbn [fst snd] in S. destruct S as (S1 & -> & S3 & S4).
        cbn [foldM]. apply Good0_bind.
        + eapply Good_Good0. apply add_ival_good; [exact S1|exact S3].
        + intros s4 HC4 E4.
          assert (G : Good s3 (aiF s3 (length (ivs s2)))) by (apply add_ival_good; [exact S1|exact S3]).
          destruct G as (_ & _ & [_ HF]). rewrite <- E4 in HF.
          apply Good0_bind; [|intros s5 HC5 _; split; auto].
          eapply Good_Good0. apply add_ival_good; [exact HC4|].
          destruct (HF (S (length (ivs s2)))) as (_ & _ & _ & _ & _ & ->). exact S4.
      - (* refine *)
        apply orb_false_iff in Ed as [Ed _]. apply Nat.eqb_neq in Ed.
        eapply Good_Good0. apply add_ival_good.
        + destruct HC as (H1 & H2 & H3 & H4).
          refine (conj H1 (conj H2 (conj _ _))).
          * intros k Hk. rewrite get_upd. destruct (_ && _); [cbn [children iv_set_depth]|]; exact (H3 k Hk).
          * intros k. rewrite get_upd. destruct (Nat.eqb_spec k i) as [->|]; cbn [andb]; [|apply H4].
            destruct (_ <? _); [cbn [depth iv_set_depth]; specialize (H4 i); lia|apply H4].
        + rewrite get_upd. destruct (_ && _); [cbn [children iv_set_depth]|]; exact Hch.
    Qed.

    Lemma fill_stack_good s c : CInv s -> Good0 (fsF s c).
    Proof.
      intros HC. unfold fill_stack.
      set (s0 := set_orc s _).
      assert (HC0 : CInv s0) by exact HC.
      destruct (prio s0) as [|i rest] eqn:Ep.
      - destruct (nat_mem (c_pick c) (live s0)) eqn:Em; [|split; [exact HC0|reflexivity]].
        apply fill_stack_body_good; [exact HC0|apply nat_mem_In; exact Em|rewrite Ep; intros []].
      - destruct HC0 as (H1 & H2 & H3 & H4). rewrite Ep in H1, H2. inversion H1 as [|? ? Hni Hnd].
        apply fill_stack_body_good.
        + refine (conj _ (conj _ (conj H3 H4))); cbn [prio live set_prio]; auto.
          intros k Hk. apply H2. right; exact Hk.
        + apply H2. left; reflexivity.
        + cbn [prio set_prio]. assumption.
    Qed.

    Lemma CInv_pop s n : CInv s -> CInv (fst (pop_from_stack s n)).
    Proof. intros H; exact H. Qed.

    Lemma ask_loop_good cs : forall s nleft acc,
      CInv s -> CInv (fst (fst (alF s nleft cs acc))) /\ internal_error (snd (fst (alF s nleft cs acc))) = false.
    Proof.
      induction cs as [|c cs IH]; intros s nleft acc HC; cbn [ask_loop].
      - destruct (nleft =? 0); [split; auto|]. destruct (_ && _); split; auto.
      - destruct (nleft =? 0); [split; auto|]. destruct (_ && _); [split; auto|].
        destruct (@fill_stack_good s c HC) as [G1 G2].
        destruct (fsF s c) as [s1 e]. cbn [fst snd] in *.
        destruct e; try (split; auto; fail).
        unfold pop_from_stack. apply IH. exact G1.
    Qed.

    Lemma ask_good s n cs :
      CInv s -> CInv (fst (fst (askF s n cs))) /\ internal_error (snd (fst (askF s n cs))) = false.
    Proof. intros HC. unfold ask, pop_from_stack. apply ask_loop_good. exact HC. Qed.

    Lemma step_good s o :
      CInv s -> CInv (fst (stepF s o)) /\ internal_error (snd (snd (stepF s o))) = false.
    Proof.
      intros HC. unfold step. destruct (halted s); [split; auto|].
      destruct o as [n cs|x vs].
      - destruct (@ask_good s n cs HC) as [G1 G2].
        destruct (askF s n cs) as [[s1 e] out]. cbn [fst snd] in *.
        destruct e; cbn [fst snd]; split; auto; discriminate.
      - destruct (@tell_good (set_orc s vs) x HC) as (G1 & G2 & _).
        destruct (tellF (set_orc s vs) x) as [s1 e]. cbn [fst snd] in *.
        destruct e; cbn [fst snd]; try (split; auto; fail); try discriminate.
        destruct (is_nil _); cbn [fst snd]; split; auto.
    Qed.

    Lemma CInv_init lo hi maxiv : CInv (initF lo hi maxiv).
    Proof.
      unfold init. eapply (@add_ival_good _ 0); [|reflexivity].
      refine (conj _ (conj _ (conj _ _))); cbn [prio live]; try (intros ? []); [constructor|].
      intros i. unfold get. cbn [ivs]. destruct i as [|[|i]]; cbn; lia.
    Qed.

    Theorem no_internal_error lo hi maxiv h :
      Forall (fun o => internal_error (snd o) = false) (outsF (initF lo hi maxiv) h).
    Proof.
      assert (G : forall s, CInv s -> Forall (fun o => internal_error (snd o) = false) (outsF s h)).
      { induction h as [|o h IH]; intros s HC; cbn [outs]; constructor.
        - apply step_good; exact HC.
        - apply IH. apply step_good; exact HC. }
      apply G, CInv_init.
    Qed.

  End Repaired.

  (* ================================================================== *)
  (** * Covers are contiguous partitions; the tree keeps its shape *)

  Section Partition.
    Variable lt : X -> X -> Prop.
    Hypothesis lt_trans : forall x y z, lt x y -> lt y z -> lt x z.

    Inductive Cover s : nat -> list nat -> Prop :=
    | CoverSelf i : Cover s i [i]
    | CoverKids i l r sl sr :
        children (getF s i) = [l; r] -> Cover s l sl -> Cover s r sr -> Cover s i (sl ++ sr).

    (* [l] is a chain of intervals from [lo] to [hi]: each starts where the
       previous one ends, none is empty or reversed *)
    Fixpoint chain (lo : X) (l : list (X * X)) (hi : X) : Prop :=
      match l with
      | [] => lo = hi
      | (x, y) :: l' => x = lo /\ lt x y /\ chain y l' hi
      end.

    Lemma chain_app m hi l2 l1 : forall lo, chain lo l1 m -> chain m l2 hi -> chain lo (l1 ++ l2) hi.
    Proof.
      induction l1 as [|[x y] l1 IH]; intros lo H1 H2; cbn [chain app] in *.
      - subst. exact H2.
      - destruct H1 as (-> & Hxy & H1). repeat split; auto.
    Qed.

    (* consequently the left end points increase strictly: sorted by [a], no overlap *)
    Lemma chain_lower lo l hi x y : chain lo l hi -> In (x, y) l -> lo = x \/ lt lo x.
    Proof.
      revert lo. induction l as [|[x0 y0] l IH]; intros lo H Hin; cbn [chain In] in *; [contradiction|].
      destruct H as (-> & Hxy & H). destruct Hin as [E|Hin]; [inversion E; auto|].
      right. destruct (IH _ H Hin) as [<-|Hlt]; eauto.
    Qed.

    Lemma chain_sorted lo l hi : chain lo l hi -> Sorted.StronglySorted lt (map fst l).
    Proof.
      revert lo. induction l as [|[x y] l IH]; intros lo H; cbn [map fst chain] in *; constructor.
      - destruct H as (_ & _ & H). eapply IH; eauto.
      - destruct H as (-> & Hxy & H). apply Forall_forall. intros z Hz.
        apply in_map_iff in Hz as [[x1 y1] [<- Hin]]. cbn [fst].
        destruct (@chain_lower _ _ _ _ _ H Hin) as [<-|Hlt]; eauto.
    Qed.

    Definition ab s k : X * X := (a (getF s k), b (getF s k)).

    (* shape of the tree *)
    Definition TW s (lo hi : X) : Prop :=
      1 <= length (ivs s) /\ a (getF s 0) = lo /\ b (getF s 0) = hi /\
      forall i l r, i < length (ivs s) -> children (getF s i) = [l; r] ->
        l < length (ivs s) /\ r < length (ivs s) /\
        a (getF s l) = a (getF s i) /\ b (getF s l) = a (getF s r) /\ b (getF s r) = b (getF s i).

    (* every interval ever created is non-degenerate (decidable on a run; for
       doubles it is evaluated on every correspondence case) *)
    Definition strict s : Prop := forall k, k < length (ivs s) -> lt (a (getF s k)) (b (getF s k)).

    Theorem cover_is_partition s lo hi i L :
      TW s lo hi -> strict s -> Cover s i L -> i < length (ivs s) ->
      L <> [] /\ chain (a (getF s i)) (map (ab s) L) (b (getF s i)).
    Proof.
      intros (_ & _ & _ & HT) Hst HC. induction HC as [i|i l r sl sr Hch Hl IHl Hr IHr]; intros Hi.
      - split; [discriminate|]. cbn. auto.
      - destruct (HT i l r Hi Hch) as (Hl' & Hr' & E1 & E2 & E3).
        destruct (IHl Hl') as [Nl Cl]. destruct (IHr Hr') as [Nr Cr].
        split; [destruct sl; [contradiction|discriminate]|].
        rewrite map_app, <- E1, <- E3. apply (@chain_app (b (getF s l))); [exact Cl|].
        rewrite E2. exact Cr.
    Qed.

    (* soundness of the executable certificate *)
    Lemma cov_sound s Sl : forall fuel i L, cov dflt fuel s Sl i = Some L -> Cover s i L /\ incl L Sl.
    Proof.
      induction fuel as [|fuel IH]; intros i L H; cbn [cov] in H; [discriminate|].
      destruct (nat_mem i Sl) eqn:Em.
      - inversion H; subst. split; [constructor|]. intros k [<-|[]]. apply nat_mem_In. exact Em.
      - destruct (children (getF s i)) as [|l [|r [|? ?]]] eqn:Ech; try discriminate.
        destruct (cov dflt fuel s Sl l) as [x1|] eqn:E1; [|discriminate].
        destruct (cov dflt fuel s Sl r) as [y1|] eqn:E2; [|discriminate].
        inversion H; subst. destruct (IH _ _ E1) as [C1 I1]. destruct (IH _ _ E2) as [C2 I2].
        split; [econstructor; eauto|]. apply incl_app; auto.
    Qed.

    (* frames that keep a, b, children *)
    Definition FS s s' : Prop :=
      length (ivs s') = length (ivs s) /\
      forall j, a (getF s' j) = a (getF s j) /\ b (getF s' j) = b (getF s j) /\ children (getF s' j) = children (getF s j).

    Lemma FC_FS s s' : FC s s' -> FS s s'.
    Proof. intros [H1 H2]. split; auto. intros j. destruct (H2 j) as (A1 & A2 & _ & _ & _ & A3). auto. Qed.

    Lemma TW_FS s s' lo hi : FS s s' -> TW s lo hi -> TW s' lo hi.
    Proof.
      intros [Hl HF] (T1 & T2 & T3 & T5). unfold TW. rewrite Hl.
      destruct (HF 0) as (A0 & B0 & _). rewrite A0, B0.
      refine (conj T1 (conj T2 (conj T3 _))).
      intros i l r Hi Hch. destruct (HF i) as (Ai & Bi & Ci). rewrite Ci in Hch.
      destruct (HF l) as (Al & Bl & _). destruct (HF r) as (Ar & Br & _).
      rewrite Ai, Bi, Al, Bl, Ar, Br. apply T5; auto.
    Qed.

    Lemma FS_same_ivs s s' : ivs s' = ivs s -> FS s s'.
    Proof. intros E. apply FC_FS, FC_same_ivs, E. Qed.

    Lemma TW_bind (r : st * err) f lo hi :
      TW (fst r) lo hi -> (forall s1, TW s1 lo hi -> TW (fst (f s1)) lo hi) -> TW (fst (bind r f)) lo hi.
    Proof. intros H Hf. destruct r as [s1 e]; destruct e; cbn [bind fst] in *; auto. Qed.

    Lemma TW_split s i lo hi : TW s lo hi -> TW (fst (splitF s i)) lo hi.
    Proof.
      intros (T1 & T2 & T3 & T5). unfold split. cbn [fst].
      set (s1 := upd s i _).
      assert (Hlen : length (ivs s1) = length (ivs s)) by apply length_upd.
      set (l := mkI _ _ 0 _ _ _ _ _ _ _). set (r := mkI _ _ 0 _ _ _ _ _ _ _).
      set (s' := set_ivs s1 _).
      assert (Hlen' : length (ivs s') = S (S (length (ivs s)))).
      { unfold s'. cbn [ivs set_ivs]. rewrite app_length, Hlen. cbn. lia. }
      assert (Hold : forall j, j < length (ivs s) -> getF s' j = getF s1 j).
      { intros j Hj. apply get_app_old. lia. }
      assert (Hs1 : forall j, a (getF s1 j) = a (getF s j) /\ b (getF s1 j) = b (getF s j) /\
                              (j <> i -> children (getF s1 j) = children (getF s j))).
      { intros j. unfold s1. rewrite get_upd. destruct (Nat.eqb_spec j i) as [->|Hne]; cbn [andb].
        - destruct (_ <? _); cbn [a b iv_set_children]; repeat split; intros; congruence.
        - repeat split. }
      assert (Hnl : getF s' (length (ivs s)) = l).
      { unfold s', get. cbn [ivs set_ivs]. rewrite app_nth2 by lia. rewrite Hlen, Nat.sub_diag. reflexivity. }
      assert (Hnr : getF s' (S (length (ivs s))) = r).
      { unfold s', get. cbn [ivs set_ivs]. rewrite app_nth2 by lia. rewrite Hlen.
        replace (S (length (ivs s)) - length (ivs s)) with 1 by lia. reflexivity. }
      unfold TW. rewrite Hlen'.
      refine (conj _ (conj _ (conj _ _))); try lia.
      - rewrite Hold by lia. destruct (Hs1 0) as (-> & _). exact T2.
      - rewrite Hold by lia. destruct (Hs1 0) as (_ & -> & _). exact T3.
      - intros j l0 r0 Hj Hch.
        destruct (Nat.lt_ge_cases j (length (ivs s))) as [Hjo|Hjn].
        + (* an old interval *)
          rewrite Hold in Hch by exact Hjo. rewrite (Hold j Hjo).
          destruct (Nat.eq_dec j i) as [->|Hne].
          * (* the interval being split *)
            unfold s1 in Hch. rewrite get_upd, Nat.eqb_refl in Hch. cbn [andb] in Hch.
            apply Nat.ltb_lt in Hjo as Hjo'. rewrite Hjo' in Hch. cbn [children iv_set_children] in Hch.
            inversion Hch; subst l0 r0. rewrite Hnl, Hnr.
            destruct (Hs1 i) as (Ea & Eb & _). rewrite Ea, Eb.
            refine (conj _ (conj _ (conj _ (conj _ _)))); try lia; reflexivity.
          * destruct (Hs1 j) as (Ea & Eb & Ec). rewrite (Ec Hne) in Hch. rewrite Ea, Eb.
            destruct (T5 j l0 r0 Hjo Hch) as (L1 & L2 & L3 & L4 & L5).
            rewrite (Hold l0 L1), (Hold r0 L2).
            destruct (Hs1 l0) as (-> & -> & _). destruct (Hs1 r0) as (-> & -> & _).
            refine (conj _ (conj _ (conj L3 (conj L4 L5)))); lia.
        + (* a new interval has no children *)
          exfalso. destruct (Nat.eq_dec j (length (ivs s))) as [->|Hne].
          * rewrite Hnl in Hch. discriminate.
          * replace j with (S (length (ivs s))) in Hch by lia. rewrite Hnr in Hch. discriminate.
    Qed.

    Lemma TW_FC s s' lo hi : FC s s' -> TW s lo hi -> TW s' lo hi.
    Proof. intros H. apply TW_FS, FC_FS, H. Qed.

    Lemma TW_add_ival s i lo hi : TW s lo hi -> TW (fst (aiF s i)) lo hi.
    Proof. apply TW_FC, FC_add_ival. Qed.

    Lemma TW_fill_stack s c lo hi : TW s lo hi -> TW (fst (fsF s c)) lo hi.
    Proof.
      intros HT. unfold fill_stack.
      set (s0 := set_orc s _).
      assert (HT0 : TW s0 lo hi) by (eapply TW_FS; [apply FS_same_ivs; reflexivity|exact HT]).
      destruct (match prio s0 with [] => _ | _ => _ end) as [[[i force] s1]|] eqn:Esel; [|exact HT0].
      assert (HT1 : TW s1 lo hi).
      { destruct (prio s0) as [|k rest]; [destruct (nat_mem _ _)|]; inversion Esel; subst s1; exact HT0. }
      destruct (negb _); [exact HT1|].
      apply TW_bind; [|intros s4 H4; destruct (is_nil _); exact H4].
      apply TW_bind; [|intros s4 H4; eapply TW_FC; [apply FC_max_ivals_rule|exact H4]].
      destruct (c_minsep c); [eapply TW_FC; [apply FC_remove_live|exact HT1]|].
      destruct (_ || _).
      - apply TW_bind; [eapply TW_FC; [apply FC_remove_live|exact HT1]|].
        intros s2 HT2. pose proof (@TW_split s2 i lo hi HT2) as HS.
        destruct (splitF s2 i) as [s3 kids]. cbn [fst] in HS.
        apply (foldM_inv (fun s' => TW s' lo hi)); [intros; apply TW_add_ival; auto|exact HS].
      - apply TW_add_ival. eapply TW_FS; [|exact HT1]. split; [apply length_upd|].
        intros j. rewrite get_upd. destruct (_ && _); repeat split.
    Qed.

    Lemma TW_ask_loop lo hi cs : forall s nleft acc,
      TW s lo hi -> TW (fst (fst (alF s nleft cs acc))) lo hi.
    Proof.
      induction cs as [|c cs IH]; intros s nleft acc HT; cbn [ask_loop].
      - destruct (nleft =? 0); [exact HT|]. destruct (_ && _); exact HT.
      - destruct (nleft =? 0); [exact HT|]. destruct (_ && _); [exact HT|].
        pose proof (@TW_fill_stack s c lo hi HT) as H1.
        destruct (fsF s c) as [s1 e]. cbn [fst] in H1.
        destruct e; try exact H1. unfold pop_from_stack. apply IH.
        eapply TW_FS; [apply FS_same_ivs; reflexivity|exact H1].
    Qed.

    Lemma TW_step s o lo hi : TW s lo hi -> TW (fst (stepF s o)) lo hi.
    Proof.
      intros HT. unfold step. destruct (halted s); [exact HT|].
      destruct o as [n cs|x vs].
      - unfold ask, pop_from_stack.
        pose proof (@TW_ask_loop lo hi cs (set_stack s (skipn n (stack s))) (n - length (firstn n (stack s))) (firstn n (stack s))) as H1.
        destruct (alF _ _ cs _) as [[s1 e] out]. cbn [fst] in H1.
        assert (H2 : TW s1 lo hi) by (apply H1; eapply TW_FS; [apply FS_same_ivs; reflexivity|exact HT]).
        destruct e; cbn [fst]; (eapply TW_FS; [apply FS_same_ivs; reflexivity|exact H2]).
      - pose proof (FC_tell (set_orc s vs) x) as H1.
        destruct (tellF (set_orc s vs) x) as [s1 e]. cbn [fst] in H1.
        assert (H2 : TW s1 lo hi).
        { eapply TW_FC; [exact H1|]. eapply TW_FS; [apply FS_same_ivs; reflexivity|exact HT]. }
        destruct e; cbn [fst]; try exact HT; try (eapply TW_FS; [apply FS_same_ivs; reflexivity|exact H2]).
        destruct (is_nil _); cbn [fst]; (eapply TW_FS; [apply FS_same_ivs; reflexivity|exact H2]).
    Qed.

    Lemma TW_init lo hi maxiv : TW (initF lo hi maxiv) lo hi.
    Proof.
      unfold init. apply TW_add_ival.
      refine (conj _ (conj _ (conj _ _))); cbn; auto.
      intros i l r Hi. assert (i = 0) by lia. subst. cbn. discriminate.
    Qed.

    Lemma TW_run lo hi h : forall s, TW s lo hi -> TW (runF s h) lo hi.
    Proof.
      induction h as [|o h IH]; intros s HT; cbn [run fold_left]; [exact HT|].
      apply IH. apply TW_step. exact HT.
    Qed.

    (* C07_partition, the part that is proved: in every reachable state, whenever the
       (executable) certificate accepts approximating_intervals, that set is the
       leaf set of a cover of the root, and a cover of the root is a chain of
       non-empty intervals from the lower to the upper bound *)
    Theorem partition_certified lo hi maxiv h Sl :
      let s := runF (initF lo hi maxiv) h in
      strict s ->
      approximating_intervals dflt s = Some Sl ->
      partition_cert dflt s Sl = true ->
      exists L, Cover s 0 L /\ (forall k, In k Sl <-> In k L) /\ L <> [] /\
                chain lo (map (ab s) L) hi /\ Sorted.StronglySorted lt (map fst (map (ab s) L)).
    Proof.
      intros s Hst Happ Hcert.
      assert (HT : TW s lo hi) by (apply TW_run, TW_init).
      unfold partition_cert in Hcert.
      destruct (cov dflt (length (ivs s)) s Sl 0) as [L|] eqn:Ec; [|discriminate].
      destruct (@cov_sound _ _ _ _ _ Ec) as [HC Hincl].
      exists L. split; [exact HC|]. split.
      - intros k. split; [|apply Hincl]. intros Hk. rewrite forallb_forall in Hcert.
        apply nat_mem_In. apply Hcert. exact Hk.
      - destruct (@cover_is_partition s lo hi 0 L HT Hst HC) as [Hne Hch]; [destruct HT; lia|].
        destruct HT as (T1 & T2 & T3 & T5). rewrite T2, T3 in Hch.
        repeat split; auto. eapply chain_sorted; eauto.
    Qed.

  End Partition.

  (* ================================================================== *)
  (** * x_mapping only ever contains rule abscissae of existing intervals, so a
        value for an abscissa that belongs to no interval is rejected *)

  Section Foreign.

    (* [x] is an abscissa of the rule of some depth <= the current depth of some interval *)
    Definition belongs s x : Prop :=
      exists i d, i < length (ivs s) /\ d <= depth (getF s i) /\
                  In x (points (a (getF s i)) (b (getF s i)) d).

    Definition XL s : Prop :=
      (forall x, xmap_mem eqb x (xmap s) = true -> belongs s x) /\
      (forall i, In i (live s) \/ In i (prio s) -> i < length (ivs s)).

    (* the arena only grows: old intervals keep a, b; depths only increase *)
    Definition FM s s' : Prop :=
      length (ivs s) <= length (ivs s') /\
      forall j, j < length (ivs s) ->
        a (getF s' j) = a (getF s j) /\ b (getF s' j) = b (getF s j) /\ depth (getF s j) <= depth (getF s' j).

    Lemma FC_FM s s' : FC s s' -> FM s s'.
    Proof.
      intros [Hl HF]. split; [lia|]. intros j _. destruct (HF j) as (-> & -> & -> & _). auto.
    Qed.

    Lemma belongs_FM s s' x : FM s s' -> belongs s x -> belongs s' x.
    Proof.
      intros [Hl HF] (i & d & Hi & Hd & Hin). destruct (HF i Hi) as (Ea & Eb & Ed).
      exists i, d. rewrite Ea, Eb. repeat split; auto; lia.
    Qed.

    Lemma XL_FM s s' :
      FM s s' -> xmap s' = xmap s -> (forall i, In i (live s') \/ In i (prio s') -> In i (live s) \/ In i (prio s)) ->
      XL s -> XL s'.
    Proof.
      intros HF Ex Hlp [H1 H2]. split.
      - intros x Hx. rewrite Ex in Hx. eapply belongs_FM; eauto.
      - intros i Hi. apply Hlp in Hi. apply H2 in Hi. destruct HF. lia.
    Qed.

    Lemma xmap_of_pts s s' : pts s' = pts s -> xmap s' = xmap s.
    Proof. unfold pts. intros E. inversion E. reflexivity. Qed.

    (* live / prio only shrink or gain members of live in the tree-internal functions *)
    Definition LPsub s s' : Prop :=
      forall i, In i (live s') \/ In i (prio s') -> In i (live s) \/ In i (prio s).

    Lemma LPsub_refl s : LPsub s s. Proof. intros i H; exact H. Qed.
    Lemma LPsub_trans s1 s2 s3 : LPsub s1 s2 -> LPsub s2 s3 -> LPsub s1 s3.
    Proof. intros A B i H. apply A, B, H. Qed.
    Lemma LPsub_FR s s' : FR s s' -> LPsub s s'.
    Proof. unfold LPsub. intros (-> & -> & _). auto. Qed.

    Lemma LPsub_discard s i : LPsub s (discF s i).
    Proof.
      unfold discard_ival. intros k. destruct repaired; cbn [live prio set_live set_prio];
        rewrite ?nat_remove_In; tauto.
    Qed.

    Lemma LPsub_propagate_removed fuel : forall s i, LPsub s (prF fuel s i).
    Proof.
      induction fuel as [|fuel IH]; intros s i; cbn [propagate_removed]; [apply LPsub_refl|].
      apply (fold_left_inv (fun s' => LPsub s s')).
      - intros s' c H. eapply LPsub_trans; [exact H|apply IH].
      - eapply (@LPsub_trans _ (upd s i (fun iv => iv_set_removed iv true))); [|apply LPsub_discard]. intros k H; exact H.
    Qed.

    Lemma LPsub_queue_split s i : LPsub s (fst (qsF s i)).
    Proof.
      unfold queue_split. destruct repaired.
      - destruct (nat_mem i (live s)) eqn:E; cbn [andb]; [|apply LPsub_refl].
        destruct (negb _); [|apply LPsub_refl]. cbn [fst]. intros k. cbn [live prio set_prio In].
        apply nat_mem_In in E. intros [H|[<-|H]]; auto.
      - destruct (nat_mem i (live s)) eqn:E; [|apply LPsub_refl]. cbn [fst]. intros k. cbn [live prio set_prio In].
        apply nat_mem_In in E. intros [H|[<-|H]]; auto.
    Qed.

    Lemma LPsub_complete_process s i d : LPsub s (fst (fst (cpF s i d))).
    Proof. unfold LPsub. destruct (cp_frame s i d) as (-> & -> & _). auto. Qed.

    Lemma LPsub_tell_depths i ds : forall s, LPsub s (fst (tdF s i ds)).
    Proof.
      induction ds as [|d ds IH]; intros s; cbn [tell_depths]; [apply LPsub_refl|].
      destruct (refinement_complete _ _ _ _); [|apply IH].
      pose proof (LPsub_complete_process s i d) as H1.
      destruct (cpF s i d) as [[s1 e] [fs rm]]. cbn [fst] in H1.
      destruct e; try exact H1.
      eapply LPsub_trans; [exact H1|].
      apply (bind_inv (fun s' => LPsub s1 s')).
      - destruct rm; cbn [fst]; [apply LPsub_propagate_removed|].
        destruct (_ && _); [apply LPsub_queue_split|apply LPsub_refl].
      - intros s2 H2. eapply LPsub_trans; [exact H2|apply IH].
    Qed.

    Lemma LPsub_tell s x : LPsub s (fst (tellF s x)).
    Proof.
      unfold tell. destruct (negb _); [apply LPsub_refl|].
      apply (foldM_inv (fun s' => LPsub s s')).
      - intros s' i H. eapply LPsub_trans; [exact H|]. unfold tell_ival.
        eapply (@LPsub_trans _ (upd s' i (fun iv => iv_set_known iv (addF x (known iv))))); [|apply LPsub_tell_depths]. intros k Hk; exact Hk.
      - intros k Hk; exact Hk.
    Qed.

    Lemma xmap_tell s x : xmap (fst (tellF s x)) = xmap s.
    Proof.
      unfold tell. destruct (negb _); [reflexivity|].
      apply (foldM_inv (fun s' => xmap s' = xmap s)); [|reflexivity].
      intros s' i H. rewrite (@xmap_of_pts _ _ (pts_tell_ival x s' i)). exact H.
    Qed.

    Lemma XL_tell s x : XL s -> XL (fst (tellF s x)).
    Proof. apply XL_FM; [apply FC_FM, FC_tell|apply xmap_tell|apply LPsub_tell]. Qed.

    Lemma xmap_mem_add rd x i m y :
      xmap_mem eqb y (xmap_add eqb rd x i m) = true -> y = x \/ xmap_mem eqb y m = true.
    Proof.
      unfold xmap_add. destruct (xmap_mem eqb x m) eqn:E.
      - intros H. right. unfold xmap_mem in *. rewrite existsb_exists in *.
        destruct H as [p [Hp He]]. apply in_map_iff in Hp as [q [<- Hq]].
        exists q. split; [exact Hq|]. destruct (eqb x (fst q)); exact He.
      - unfold xmap_mem. rewrite existsb_app. cbn [existsb fst]. rewrite orb_false_r.
        intros H. apply orb_true_iff in H as [H|H]; [right; exact H|left].
        apply eqb_spec in H. exact H.
    Qed.

    Lemma XL_add_point i s x :
      XL s -> i < length (ivs s) ->
      In x (points (a (getF s i)) (b (getF s i)) (depth (getF s i))) ->
      XL (fst (apF i s x)).
    Proof.
      intros [H1 H2] Hi Hin. unfold add_point. set (s1 := set_xmap s _).
      assert (HX1 : XL s1).
      { split; [|exact H2]. intros y Hy. unfold s1 in Hy. cbn [xmap set_xmap] in Hy.
        apply xmap_mem_add in Hy as [->|Hy]; [|exact (H1 y Hy)].
        exists i, (depth (getF s i)). repeat split; auto. }
      destruct (memF x (data s1)); [apply XL_tell; exact HX1|].
      destruct (memF x (pending s1)); exact HX1.
    Qed.

    Lemma XL_add_ival s i : XL s -> i < length (ivs s) -> XL (fst (aiF s i)).
    Proof.
      intros HX Hi. unfold add_ival.
      assert (G : forall l s', XL s' -> FC s s' ->
                  (forall x, In x l -> In x (points (a (getF s i)) (b (getF s i)) (depth (getF s i)))) ->
                  XL (fst (foldM (apF i) l s')) /\ FC s (fst (foldM (apF i) l s'))).
      { induction l as [|x l IH]; intros s' HX' HF Hl; cbn [foldM]; [split; assumption|].
        assert (HX2 : XL (fst (apF i s' x))).
        { destruct HF as [El HF]. destruct (HF i) as (Ea & Eb & Ed & _).
          apply XL_add_point; [exact HX'|lia|]. rewrite Ea, Eb, Ed. apply Hl. left; reflexivity. }
        assert (HF2 : FC s (fst (apF i s' x))) by (eapply FC_trans; [exact HF|apply FC_add_point]).
        destruct (apF i s' x) as [s2 e]. cbn [fst] in *.
        destruct e; cbn [bind]; try (split; assumption).
        apply IH; auto. intros y Hy. apply Hl. right; exact Hy. }
      destruct (G (points (a (getF s i)) (b (getF s i)) (depth (getF s i))) s HX (FC_refl s) (fun x H => H)) as [G1 G2].
      destruct (foldM _ _ s) as [s1 e]. cbn [fst] in *.
      destruct e; cbn [bind fst]; try exact G1.
      destruct G1 as [A1 A2]. split; [exact A1|]. intros k. cbn [live prio set_live].
      change (length (ivs (set_live s1 (nat_add i (live s1))))) with (length (ivs s1)).
      rewrite nat_add_In. intros [[->|H]|H]; [destruct G2 as [G2 _]; lia|apply A2; auto|apply A2; auto].
    Qed.

    Lemma FM_split s i :
      FM s (fst (splitF s i)) /\ snd (splitF s i) = [length (ivs s); S (length (ivs s))] /\
      length (ivs (fst (splitF s i))) = S (S (length (ivs s))) /\
      xmap (fst (splitF s i)) = xmap s /\ live (fst (splitF s i)) = live s /\ prio (fst (splitF s i)) = prio s.
    Proof.
      unfold split. cbn [fst snd]. set (s1 := upd s i _).
      assert (Hlen : length (ivs s1) = length (ivs s)) by apply length_upd.
      refine (conj _ (conj eq_refl (conj _ (conj eq_refl (conj eq_refl eq_refl))))).
      - split; [cbn [ivs set_ivs]; rewrite app_length, Hlen; lia|].
        intros j Hj. rewrite get_app_old by lia. unfold s1. rewrite get_upd.
        destruct (_ && _); cbn [a b depth iv_set_children]; auto.
      - cbn [ivs set_ivs]. rewrite app_length, Hlen. cbn. lia.
    Qed.

    Lemma XL_fill_stack s c : XL s -> XL (fst (fsF s c)).
    Proof.
      intros HX. unfold fill_stack.
      set (s0 := set_orc s _).
      assert (HX0 : XL s0) by exact HX.
      destruct (match prio s0 with [] => _ | _ => _ end) as [[[i force] s1]|] eqn:Esel; [|exact HX0].
      assert (Hhd : forall k rest, prio s0 = k :: rest -> XL (set_prio s0 rest) /\ k < length (ivs s0)).
      { intros k rest Ep. destruct HX0 as [A1 A2]. split.
        - split; [exact A1|]. intros j. cbn [live prio set_prio]. intros [H|H]; apply A2; [left; exact H|right].
          rewrite Ep. right; exact H.
        - apply A2. right. rewrite Ep. left; reflexivity. }
      assert (Hpk : nat_mem (c_pick c) (live s0) = true -> c_pick c < length (ivs s0)).
      { intros Em. destruct HX0 as [_ A2]. apply A2. left. apply nat_mem_In. exact Em. }
      assert (H1 : XL s1 /\ i < length (ivs s1)).
      { destruct (prio s0) as [|k rest] eqn:Ep.
        - destruct (nat_mem (c_pick c) (live s0)) eqn:Em; inversion Esel; subst i s1.
          split; [exact HX0|]. apply Hpk. reflexivity.
        - inversion Esel; subst i s1. apply (Hhd k rest eq_refl). }
      destruct H1 as [HX1 Hi].
      destruct (negb _); [exact HX1|].
      apply bind_inv; [|intros s4 H4; destruct (is_nil _); exact H4].
      apply bind_inv.
      2:{ intros s4 H4. eapply XL_FM; [apply FC_FM, FC_max_ivals_rule| | |exact H4].
          - apply xmap_of_pts, pts_max_ivals_rule.
          - unfold max_ivals_rule. destruct (_ <? _); destruct (c_maxrm c) as [j|]; try (intros k Hk; exact Hk).
            destruct (nat_mem j (live s4)); [|intros k Hk; exact Hk]. cbn [fst]. pose proof (LPsub_discard s4 j) as HD.
            destruct repaired; [exact HD|]. intros k. cbn [live prio set_live]. rewrite nat_remove_In. tauto. }
      assert (HRL : forall s2, XL s2 -> XL (fst (remove_live s2 i)) /\ length (ivs (fst (remove_live s2 i))) = length (ivs s2)).
      { intros s2 H2. unfold remove_live. destruct (nat_mem i (live s2)); cbn [fst]; split; auto.
        destruct H2 as [A1 A2]. split; [exact A1|]. intros k. cbn [live prio set_live]. rewrite nat_remove_In.
        intros [[H _]|H]; apply A2; auto. }
      destruct (c_minsep c); [apply HRL; exact HX1|].
      destruct (_ || _).
      - destruct (HRL s1 HX1) as [HX2 Hl2]. destruct (remove_live s1 i) as [s2 e2]. cbn [fst] in *.
        destruct e2; cbn [bind]; try exact HX2.
        destruct (FM_split s2 i) as (F1 & F2 & F3 & F4 & F5 & F6).
        destruct (splitF s2 i) as [s3 kids]. cbn [fst snd] in *. subst kids.
        assert (HX3 : XL s3).
        { eapply XL_FM; [exact F1|exact F4| |exact HX2]. unfold LPsub. rewrite F5, F6. auto. }
        cbn [foldM].
        assert (HA : XL (fst (aiF s3 (length (ivs s2))))) by (apply XL_add_ival; [exact HX3|lia]).
        destruct (FC_add_ival s3 (length (ivs s2))) as [El _].
        destruct (aiF s3 (length (ivs s2))) as [s4 e4]. cbn [fst] in *.
        destruct e4; cbn [bind]; try exact HA.
        apply bind_inv; [|intros; assumption].
        apply XL_add_ival; [exact HA|lia].
      - apply XL_add_ival.
        + eapply XL_FM; [| | |exact HX1]; try reflexivity.
          * split; [rewrite length_upd; lia|]. intros j Hj. rewrite get_upd.
            destruct (_ && _); cbn [a b depth iv_set_depth]; auto.
          * intros k Hk; exact Hk.
        + rewrite length_upd. exact Hi.
    Qed.

    Lemma XL_same s s' : ivs s' = ivs s -> xmap s' = xmap s -> live s' = live s -> prio s' = prio s -> XL s -> XL s'.
    Proof.
      intros E1 E2 E3 E4. apply XL_FM; [apply FC_FM, FC_same_ivs; exact E1|exact E2|].
      unfold LPsub. rewrite E3, E4. auto.
    Qed.

    Lemma XL_ask_loop cs : forall s nleft acc, XL s -> XL (fst (fst (alF s nleft cs acc))).
    Proof.
      induction cs as [|c cs IH]; intros s nleft acc HX; cbn [ask_loop].
      - destruct (nleft =? 0); [exact HX|]. destruct (_ && _); exact HX.
      - destruct (nleft =? 0); [exact HX|]. destruct (_ && _); [exact HX|].
        pose proof (@XL_fill_stack s c HX) as H1.
        destruct (fsF s c) as [s1 e]. cbn [fst] in H1.
        destruct e; try exact H1. unfold pop_from_stack. apply IH.
        eapply XL_same; [| | | |exact H1]; reflexivity.
    Qed.

    Lemma XL_step s o : XL s -> XL (fst (stepF s o)).
    Proof.
      intros HX. unfold step. destruct (halted s); [exact HX|].
      destruct o as [n cs|x vs].
      - unfold ask, pop_from_stack.
        pose proof (@XL_ask_loop cs (set_stack s (skipn n (stack s))) (n - length (firstn n (stack s))) (firstn n (stack s))) as H1.
        destruct (alF _ _ cs _) as [[s1 e] out]. cbn [fst] in H1.
        assert (H2 : XL s1) by (apply H1; eapply XL_same; [| | | |exact HX]; reflexivity).
        destruct e; cbn [fst]; (eapply XL_same; [| | | |exact H2]; reflexivity).
      - assert (H2 : XL (fst (tellF (set_orc s vs) x))).
        { apply XL_tell. eapply XL_same; [| | | |exact HX]; reflexivity. }
        destruct (tellF (set_orc s vs) x) as [s1 e]. cbn [fst] in H2.
        destruct e; cbn [fst]; try exact HX; try (eapply XL_same; [| | | |exact H2]; reflexivity).
        destruct (is_nil _); cbn [fst]; (eapply XL_same; [| | | |exact H2]; reflexivity).
    Qed.

    Lemma XL_init lo hi maxiv : XL (initF lo hi maxiv).
    Proof.
      unfold init. apply XL_add_ival; [|cbn; lia].
      split; [intros x H; discriminate|]. cbn. intros i [[]|[]].
    Qed.

    Lemma XL_run h : forall s, XL s -> XL (runF s h).
    Proof.
      induction h as [|o h IH]; intros s HX; cbn [run fold_left]; [exact HX|].
      apply IH, XL_step, HX.
    Qed.

    Theorem rejects_foreign_geometric lo hi maxiv h x vs :
      let s := runF (initF lo hi maxiv) h in
      halted s = false -> ~ belongs s x ->
      stepF s (Tell x vs) = (s, ([], EValue)).
    Proof.
      intros s Hh Hnb. apply rejects_foreign; [exact Hh|].
      destruct (xmap_mem eqb x (xmap s)) eqn:E; [|reflexivity].
      exfalso. apply Hnb. destruct (@XL_run h _ (XL_init lo hi maxiv)) as [H1 _]. apply H1. exact E.
    Qed.

  End Foreign.

End IntegratorProofs.

Arguments strict {X}. Arguments Cover {X}. Arguments chain {X}. Arguments ab {X}. Arguments TW {X}.
Arguments belongs {X}.
